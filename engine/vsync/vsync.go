// Package vsync is a drop-in replacement for the subset of package sync that package pilosa uses
// (Mutex, RWMutex, Cond{L:}, WaitGroup, Once, Locker). The overlay generator rewrites the `"sync"`
// import of every root-package file to this package for schedule-exploration builds (engine E2).
// While no exploration is active every primitive behaves exactly like the real one (it embeds it).
// While an exploration is active, Lock/RLock/Cond.Wait are scheduling points of vsched and the
// lock state lives in vsched's model; Unlock/RUnlock/Signal/Broadcast update that model.
package vsync

import (
	"sync"

	"github.com/pilosa/pilosa/internal/vsched"
)

type (
	WaitGroup = sync.WaitGroup
	Once      = sync.Once
	Map       = sync.Map
	Pool      = sync.Pool
)

// Locker mirrors sync.Locker.
type Locker interface {
	Lock()
	Unlock()
}

type Mutex struct {
	real sync.Mutex
}

func (m *Mutex) Lock() {
	if vsched.Active() {
		vsched.Acquire(vsched.KMutex, m)
		return
	}
	m.real.Lock()
}

func (m *Mutex) Unlock() {
	if vsched.Active() {
		vsched.Release(vsched.KMutex, m)
		return
	}
	m.real.Unlock()
}

type RWMutex struct {
	real sync.RWMutex
}

func (m *RWMutex) Lock() {
	if vsched.Active() {
		vsched.Acquire(vsched.KWrite, m)
		return
	}
	m.real.Lock()
}

func (m *RWMutex) Unlock() {
	if vsched.Active() {
		vsched.Release(vsched.KWrite, m)
		return
	}
	m.real.Unlock()
}

func (m *RWMutex) RLock() {
	if vsched.Active() {
		vsched.Acquire(vsched.KRead, m)
		return
	}
	m.real.RLock()
}

func (m *RWMutex) RUnlock() {
	if vsched.Active() {
		vsched.Release(vsched.KRead, m)
		return
	}
	m.real.RUnlock()
}

// RLocker mirrors sync.RWMutex.RLocker.
func (m *RWMutex) RLocker() Locker { return (*rlocker)(m) }

type rlocker RWMutex

func (r *rlocker) Lock()   { (*RWMutex)(r).RLock() }
func (r *rlocker) Unlock() { (*RWMutex)(r).RUnlock() }

// Cond mirrors sync.Cond for the way pilosa uses it: a struct literal Cond{L: &mu}.
type Cond struct {
	L Locker

	once sync.Once
	real *sync.Cond
}

func NewCond(l Locker) *Cond { return &Cond{L: l} }

func (c *Cond) init() { c.once.Do(func() { c.real = sync.NewCond(c.L) }) }

func (c *Cond) Wait() {
	if vsched.Active() {
		kind := vsched.KMutex
		var obj interface{} = c.L
		switch l := c.L.(type) {
		case *Mutex:
			obj = l
		case *RWMutex:
			kind, obj = vsched.KWrite, l
		case *rlocker:
			kind, obj = vsched.KRead, (*RWMutex)(l)
		}
		vsched.CondWait(c, kind, obj)
		return
	}
	c.init()
	c.real.Wait()
}

func (c *Cond) Signal() {
	if vsched.Active() {
		vsched.CondSignal(c, false)
		return
	}
	c.init()
	c.real.Signal()
}

func (c *Cond) Broadcast() {
	if vsched.Active() {
		vsched.CondSignal(c, true)
		return
	}
	c.init()
	c.real.Broadcast()
}
