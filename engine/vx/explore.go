package vx

import (
	"encoding/json"
	"fmt"
	"sort"
	"strings"
	"sync"
	"sync/atomic"
)

// forEachShard runs body(i) for i in [0,n): in child processes when the harness asks for it,
// otherwise on goroutines. emit/collect carry per-item results back to the caller.
func (c *Check) forEachShard(h *Harness, label string, n int, input []byte, body func(input []byte, i int, emit func([]byte)), collect func([]byte)) {
	if h.MultiProcess {
		c.ProcFor(label, n, input, body, collect)
		return
	}
	var mu sync.Mutex
	emit := func(b []byte) {
		if collect != nil {
			cp := append([]byte(nil), b...)
			mu.Lock()
			collect(cp)
			mu.Unlock()
		}
	}
	ParallelFor(n, func(i int) {
		if c.Expired() {
			return
		}
		body(input, i, emit)
	})
}

// RunDFS — phase A: stateless exhaustive enumeration of ALL operation sequences of length depth
// over the alphabet (every shorter sequence is a prefix of one of them), each executed on a fresh
// instance. A path is not extended beyond its first (non-tolerated) violation.
func (c *Check) RunDFS(h *Harness, depth int) {
	label := c.NextRunLabel()
	A := h.Alphabet
	if c.Replaying() {
		if !IsChild() {
			c.tryReplay(h)
		}
		return
	}
	if depth < 1 || len(A) == 0 {
		return
	}
	c.Bound("phaseA_depth", depth)
	c.Bound("alphabet_size", len(A))
	d0 := 1
	if depth >= 2 {
		d0 = 2
	}
	nshard := 1
	for i := 0; i < d0; i++ {
		nshard *= len(A)
	}
	enc := func(idx []int) string {
		b := make([]byte, 0, len(idx)*2)
		for _, i := range idx {
			b = append(b, byte(i>>8), byte(i))
		}
		return string(b)
	}
	var seqsTotal int64
	body := func(_ []byte, s int, emit func([]byte)) {
		bad := map[string]struct{}{} // violating prefixes inside this shard
		idx := make([]int, depth)
		x := s
		for i := d0 - 1; i >= 0; i-- {
			idx[i] = x % len(A)
			x /= len(A)
		}
		var seqs, trans int64
		defer func() {
			c.AddEval(seqs)
			c.AddTransitions(trans)
			atomic.AddInt64(&seqsTotal, seqs)
		}()
		for {
			if c.Expired() {
				return
			}
			skipAt := -1
			if len(bad) > 0 {
				for l := 1; l <= depth; l++ {
					if _, ok := bad[enc(idx[:l])]; ok {
						skipAt = l
						break
					}
				}
			}
			if skipAt < 0 {
				failAt := -1
				inst := h.New()
				path := make([]Op, 0, depth)
				var got, want string
				pan := Guard(func() {
					for l := 0; l < depth; l++ {
						path = append(path, A[idx[l]])
						got, want = inst.Apply(A[idx[l]])
						trans++
						if got != want {
							if c.tolerated(h, path, got, want) {
								continue
							}
							failAt = l + 1
							return
						}
					}
				})
				if pan != "" {
					failAt = len(path)
					got, want = pan, "no panic"
				}
				if failAt > 0 {
					p := append([]Op(nil), path[:failAt]...)
					c.Violate(classify(h, p, got, want), p, got, want)
					bad[enc(idx[:failAt])] = struct{}{}
				} else {
					fp := inst.Fingerprint()
					if fp == "" {
						fp = enc(idx)
					}
					c.Distinct(fp)
					c.Outcome(got)
					if seqs%8192 == 0 {
						c.Sample(PathString(path))
					}
				}
				Guard(inst.Close)
				seqs++
				skipAt = failAt
			}
			pos := depth - 1
			if skipAt > 0 {
				pos = skipAt - 1
				for j := pos + 1; j < depth; j++ {
					idx[j] = 0
				}
			}
			for pos >= d0 {
				idx[pos]++
				if idx[pos] < len(A) {
					break
				}
				idx[pos] = 0
				pos--
			}
			if pos < d0 {
				return
			}
		}
	}
	c.forEachShard(h, label, nshard, nil, body, nil)
	c.mu.Lock()
	old, _ := c.extra["phaseA_sequences"].(int64)
	c.extra["phaseA_sequences"] = old + atomic.LoadInt64(&seqsTotal)
	c.mu.Unlock()
}

type bfsRec struct {
	P  int    `json:"p"` // index into frontier
	A  int    `json:"a"` // alphabet index
	FP string `json:"f"`
}

// RunBFS — phase B: breadth-first search over canonical states (Fingerprint) to the given depth. A
// successor is computed by replaying the shortest known path to the state on a fresh instance plus
// one op. Sound only if Fingerprint covers everything that can influence future behaviour.
func (c *Check) RunBFS(h *Harness, depth int, maxStates int) {
	label := c.NextRunLabel()
	A := h.Alphabet
	if c.Replaying() {
		return
	}
	c.Bound("phaseB_depth", depth)
	c.Bound("phaseB_max_states", maxStates)

	// body executes transition k = (frontier index, alphabet index) of the level whose frontier is
	// the JSON input; it is self-contained so that a child process can run it from the input alone.
	var fr [][]int
	var frFor *byte
	var frMu sync.Mutex
	body := func(in []byte, k int, emit func([]byte)) {
		frMu.Lock()
		if len(in) > 0 && frFor != &in[0] { // decode the frontier once per process and level
			fr = nil
			if err := json.Unmarshal(in, &fr); err != nil {
				frMu.Unlock()
				panic(err)
			}
			frFor = &in[0]
		}
		np := fr[k/len(A)]
		frMu.Unlock()
		ai := k % len(A)
		inst := h.New()
		path := make([]Op, 0, len(np)+1)
		var got, want string
		failAt := -1
		pan := Guard(func() {
			for _, i := range np {
				path = append(path, A[i])
				got, want = inst.Apply(A[i])
				if got != want && !c.tolerated(h, path, got, want) {
					failAt = len(path) // clean when first explored: nondeterminism or divergence
					return
				}
			}
			path = append(path, A[ai])
			got, want = inst.Apply(A[ai])
			if got != want && !c.tolerated(h, path, got, want) {
				failAt = len(path)
			}
		})
		c.AddTransitions(1)
		c.AddEval(1)
		if pan != "" {
			failAt = len(path)
			got, want = pan, "no panic"
		}
		if failAt > 0 {
			p := append([]Op(nil), path[:failAt]...)
			c.Violate(classify(h, p, got, want), p, got, want)
			Guard(inst.Close)
			return
		}
		fp := inst.Fingerprint()
		Guard(inst.Close)
		c.Outcome(got)
		b, _ := json.Marshal(bfsRec{P: k / len(A), A: ai, FP: fp})
		emit(b)
	}

	if IsChild() {
		if !h.MultiProcess {
			return
		}
		for { // serve every level job of this RunBFS call, then move on
			j := peekJob()
			if !strings.HasPrefix(j.Label, label+".l") {
				return
			}
			c.ProcFor(j.Label, 0, nil, body, nil)
		}
	}

	root := h.New()
	fp0 := root.Fingerprint()
	Guard(root.Close)
	if fp0 == "" {
		return
	}
	seen := map[string]struct{}{fp0: {}}
	frontier := [][]int{{}}
	var states int64 = 1
	levelReached := 0
	for d := 0; d < depth && len(frontier) > 0; d++ {
		input, _ := json.Marshal(frontier)
		var recs []bfsRec
		collect := func(b []byte) {
			var r bfsRec
			if json.Unmarshal(b, &r) == nil {
				recs = append(recs, r)
			}
		}
		n := len(frontier) * len(A)
		c.forEachShard(h, fmt.Sprintf("%s.l%d", label, d), n, input, body, collect)
		if c.Expired() {
			break
		}
		// deterministic merge: order records by (parent, op)
		sort.Slice(recs, func(i, j int) bool {
			if recs[i].P != recs[j].P {
				return recs[i].P < recs[j].P
			}
			return recs[i].A < recs[j].A
		})
		var next [][]int
		capped := false
		for _, r := range recs {
			if _, ok := seen[r.FP]; ok {
				continue
			}
			if len(seen) >= maxStates {
				capped = true
				break
			}
			seen[r.FP] = struct{}{}
			c.Distinct(r.FP)
			states++
			np := append(append([]int(nil), frontier[r.P]...), r.A)
			next = append(next, np)
			if states%1024 == 0 {
				ops := make([]Op, len(np))
				for i, a := range np {
					ops[i] = A[a]
				}
				c.Sample(PathString(ops))
			}
		}
		frontier = next
		levelReached = d + 1
		if capped {
			c.NotExhaustive(fmt.Sprintf("phase B state cap %d hit at depth %d", maxStates, d+1))
			break
		}
	}
	c.AddStates(states)
	c.mu.Lock()
	o1, _ := c.extra["phaseB_states"].(int64)
	c.extra["phaseB_states"] = o1 + states
	c.extra["phaseB_depth_completed"] = levelReached
	c.extra["phaseB_frontier_left"] = len(frontier)
	c.mu.Unlock()
}
