package vx

// Process-level parallelism. Harnesses whose instances mmap/munmap files (fragments, bolt,
// translate files) do not scale with goroutines inside one process: mmap/munmap serialise
// process-wide. ProcFor therefore spreads an index space over a pool of PERSISTENT child processes,
// each a re-execution of the running test binary (same -test.run). A child runs the same test
// function once, top to bottom; at every ProcFor call site it looks at the next job sent by the
// parent: if the job is for this call site it executes its share (indices i ≡ k mod N), dumps
// everything it recorded on its Check (counters, distinct/outcome hashes, samples, violations,
// emitted records) to a file, acknowledges, and moves on; otherwise it skips the call site. Jobs are
// issued in program order, so one pass suffices. The parent merges the dumps. Exploration stays
// exhaustive and deterministic: the index space is partitioned statically.
//
// Requirement on harnesses: the sequence of RunDFS/RunBFS/ProcFor calls must not depend on
// exploration results (labels are call counters).

import (
	"bufio"
	"encoding/base64"
	"encoding/json"
	"fmt"
	"os"
	"os/exec"
	"path/filepath"
	"strconv"
	"strings"
	"sync"
	"time"
)

type job struct {
	Label     string `json:"label"`
	K         int    `json:"k"`
	N         int    `json:"n"`
	Total     int    `json:"total"`
	In        string `json:"in"`
	Out       string `json:"out"`
	Remaining int    `json:"remaining"` // seconds left for this job (0 = unlimited)
}

// ---- child side ---------------------------------------------------------------------------

var (
	childOnce sync.Once
	isChild   bool
	jobRd     *bufio.Reader
	ackWr     *os.File
	pending   *job
)

func childInit() {
	childOnce.Do(func() {
		if os.Getenv("VERIF_CHILD") == "" {
			return
		}
		isChild = true
		jobRd = bufio.NewReaderSize(os.NewFile(3, "jobs"), 1<<16)
		ackWr = os.NewFile(4, "acks")
	})
}

// IsChild reports whether this process is a ProcFor worker.
func IsChild() bool { childInit(); return isChild }

// peekJob returns the next job without consuming it; exits the process when the parent is done.
func peekJob() *job {
	if pending != nil {
		return pending
	}
	line, err := jobRd.ReadString('\n')
	if err != nil {
		os.Exit(0)
	}
	var j job
	if err := json.Unmarshal([]byte(line), &j); err != nil {
		fmt.Println("HARNESS-ERROR child: bad job:", err)
		os.Exit(4)
	}
	pending = &j
	return pending
}

// NextRunLabel returns a label for the next RunDFS/RunBFS/ProcFor call; it is a plain call counter,
// so parent and children agree as long as the harness' control flow does not depend on results.
func (c *Check) NextRunLabel() string {
	c.procSeq++
	return fmt.Sprintf("r%d", c.procSeq)
}

type dumpViolation struct {
	Key   string          `json:"key"`
	Ops   []Op            `json:"ops,omitempty"`
	Other json.RawMessage `json:"other,omitempty"`
	Got   string          `json:"got"`
	Want  string          `json:"want"`
	Count int64           `json:"count"`
	Note  string          `json:"note,omitempty"`
}

type dump struct {
	Evals, States, Trans, Validated int64
	Distinct, Outcomes              []string
	Samples                         []json.RawMessage
	Violations                      []dumpViolation
	Records                         []string
	NonExhaustive                   bool
	Why                             string // reason recorded with NotExhaustive, if any
}

// ProcFor runs f(input, i, emit) for every i in [0,n) spread over child processes. Whatever f
// records on c (AddEval, Distinct, Outcome, Sample, Violate, ...) is merged into the parent's c;
// every emitted record is handed to collect (in the parent, after all children finished the job;
// order unspecified). With VERIF_PROCS<=1 it degrades to an in-process loop.
func (c *Check) ProcFor(label string, n int, input []byte, f func(input []byte, i int, emit func([]byte)), collect func(rec []byte)) {
	if c.Replaying() && !IsChild() {
		return // path replay: only RunDFS call sites execute the recorded path
	}
	if IsChild() {
		j := peekJob()
		if j.Label != label {
			return // the next job is for a later call site: skip this one
		}
		pending = nil
		in, err := os.ReadFile(j.In)
		if err != nil {
			fmt.Println("HARNESS-ERROR child cannot read input:", err)
			os.Exit(4)
		}
		old := c.deadline
		if j.Remaining > 0 {
			c.deadline = time.Now().Add(time.Duration(j.Remaining) * time.Second)
		} else {
			c.deadline = time.Time{}
		}
		var recs []string
		emit := func(b []byte) { recs = append(recs, base64.StdEncoding.EncodeToString(b)) }
		for i := j.K; i < j.Total; i += j.N {
			if c.Expired() {
				break
			}
			f(in, i, emit)
		}
		c.deadline = old
		c.writeDumpAndReset(j.Out, recs)
		fmt.Fprintf(ackWr, "done %s\n", label)
		return
	}
	procs := Workers()
	if s := os.Getenv("VERIF_PROCS"); s != "" {
		procs, _ = strconv.Atoi(s)
	}
	if procs <= 1 {
		emit := func(b []byte) {
			if collect != nil {
				collect(append([]byte(nil), b...))
			}
		}
		for i := 0; i < n; i++ {
			if c.Expired() {
				break
			}
			f(input, i, emit)
		}
		return
	}
	if c.pool == nil {
		c.pool = newPool(procs)
	}
	dir := Scratch()
	inFile := filepath.Join(dir, "in")
	if err := os.WriteFile(inFile, input, 0o644); err != nil {
		panic(err)
	}
	remaining := 0
	if !c.deadline.IsZero() {
		remaining = int(time.Until(c.deadline).Seconds())
		if remaining < 1 {
			remaining = 1
		}
	}
	var wg sync.WaitGroup
	outs := make([]string, procs)
	errs := make([]string, procs)
	for k := 0; k < procs; k++ {
		outs[k] = filepath.Join(dir, fmt.Sprintf("out%d", k))
		wg.Add(1)
		go func(k int) {
			defer wg.Done()
			errs[k] = c.pool.run(k, job{Label: label, K: k, N: procs, Total: n, In: inFile, Out: outs[k], Remaining: remaining})
		}(k)
	}
	wg.Wait()
	for k := 0; k < procs; k++ {
		b, err := os.ReadFile(outs[k])
		if err != nil {
			// a child that died without a dump: the code under test killed the process (fatal
			// error, SIGSEGV on a stale mapping, os.Exit): report as a violation candidate.
			if strings.HasPrefix(errs[k], "spawn:") {
				// the harness could not START a worker (scratch space, descriptors, ...): an
				// infrastructure failure, never a statement about the code under test
				fmt.Printf("HARNESS-ERROR ProcFor %s share %d/%d: %s\n", label, k, procs, errs[k])
				c.NotExhaustive("a worker process could not be started: " + errs[k])
				continue
			}
			c.Violate("worker-process-died", fmt.Sprintf("ProcFor %s share %d/%d: %s", label, k, procs, errs[k]), "worker process died", "worker completes")
			continue
		}
		var d dump
		if err := json.Unmarshal(b, &d); err != nil {
			c.Violate("worker-dump-unreadable", fmt.Sprintf("ProcFor %s share %d/%d: %v", label, k, procs, err), "unreadable dump", "dump")
			continue
		}
		c.mergeDump(&d, collect)
	}
	os.RemoveAll(dir)
}

func (c *Check) writeDumpAndReset(path string, recs []string) {
	c.mu.Lock()
	defer c.mu.Unlock()
	d := dump{Evals: c.Evaluations, States: c.States, Trans: c.Transitions, Validated: c.TracesValidated,
		Records: recs, NonExhaustive: c.nonExhaustive.Load()}
	if w, ok := c.extra["not_exhaustive_because"].(string); ok {
		d.Why = w
		delete(c.extra, "not_exhaustive_because")
	}
	for k := range c.distinct {
		d.Distinct = append(d.Distinct, base64.RawStdEncoding.EncodeToString([]byte(k)))
	}
	for k := range c.outcomes {
		d.Outcomes = append(d.Outcomes, base64.RawStdEncoding.EncodeToString([]byte(k)))
	}
	for _, s := range c.samples {
		b, _ := json.Marshal(s)
		d.Samples = append(d.Samples, b)
	}
	for _, v := range c.viol {
		dv := dumpViolation{Key: v.Key, Got: v.Got, Want: v.Want, Count: v.Count, Note: v.Note}
		if ops, ok := v.Case.([]Op); ok {
			dv.Ops = ops
		} else {
			dv.Other, _ = json.Marshal(v.Case)
		}
		d.Violations = append(d.Violations, dv)
	}
	b, _ := json.Marshal(&d)
	if err := os.WriteFile(path+".tmp", b, 0o644); err == nil {
		os.Rename(path+".tmp", path)
	}
	// reset the accumulators: the next job's dump must only contain that job's results
	c.Evaluations, c.States, c.Transitions, c.TracesValidated = 0, 0, 0, 0
	c.distinct = map[string]struct{}{}
	c.outcomes = map[string]struct{}{}
	c.samples = nil
	c.sampleEvery = 0
	c.viol = map[string]*Violation{}
	c.nonExhaustive.Store(false)
}

func (c *Check) mergeDump(d *dump, collect func([]byte)) {
	c.AddEval(d.Evals)
	c.AddStates(d.States)
	c.AddTransitions(d.Trans)
	c.AddValidated(d.Validated)
	if d.NonExhaustive {
		c.nonExhaustive.Store(true)
		if d.Why != "" {
			c.mu.Lock()
			c.extra["not_exhaustive_because"] = d.Why
			c.mu.Unlock()
		}
	}
	c.mu.Lock()
	for _, k := range d.Distinct {
		if b, err := base64.RawStdEncoding.DecodeString(k); err == nil {
			if len(c.distinct) < c.distinctCap {
				c.distinct[string(b)] = struct{}{}
			} else {
				c.distinctOverflow = true
			}
		}
	}
	for _, k := range d.Outcomes {
		if b, err := base64.RawStdEncoding.DecodeString(k); err == nil && len(c.outcomes) < c.distinctCap {
			c.outcomes[string(b)] = struct{}{}
		}
	}
	for _, s := range d.Samples {
		if len(c.samples) < 12 {
			var v interface{}
			json.Unmarshal(s, &v)
			c.samples = append(c.samples, v)
		}
	}
	for _, dv := range d.Violations {
		var cs interface{}
		if dv.Ops != nil {
			cs = dv.Ops
		} else {
			json.Unmarshal(dv.Other, &cs)
		}
		if v, ok := c.viol[dv.Key]; ok {
			v.Count += dv.Count
			if caseLen(cs) < caseLen(v.Case) {
				v.Case, v.Got, v.Want = cs, dv.Got, dv.Want
			}
		} else {
			c.viol[dv.Key] = &Violation{Key: dv.Key, Case: cs, Got: dv.Got, Want: dv.Want, Count: dv.Count, Note: dv.Note}
		}
	}
	c.mu.Unlock()
	if collect != nil {
		for _, r := range d.Records {
			if b, err := base64.StdEncoding.DecodeString(r); err == nil {
				collect(b)
			}
		}
	}
}

// ---- parent side: the pool ------------------------------------------------------------------

type worker struct {
	cmd   *exec.Cmd
	jobs  *os.File      // write end
	acks  *bufio.Reader // read end
	ackF  *os.File
	log   string
	alive bool
}

type pool struct {
	n  int
	w  []*worker
	mu sync.Mutex
}

func newPool(n int) *pool {
	p := &pool{n: n, w: make([]*worker, n)}
	return p
}

func (p *pool) spawn(k int) (*worker, error) {
	jr, jw, err := os.Pipe()
	if err != nil {
		return nil, err
	}
	ar, aw, err := os.Pipe()
	if err != nil {
		return nil, err
	}
	dir := Scratch()
	logPath := filepath.Join(dir, "log")
	lf, err := os.Create(logPath)
	if err != nil {
		return nil, err
	}
	cmd := exec.Command(os.Args[0], os.Args[1:]...)
	cmd.Env = append(os.Environ(), "VERIF_CHILD=1", "VERIF_WORKERS=1", "GOMAXPROCS=2", "VERIF_RESULT=",
		"VERIF_DEADLINE_S=", "VERIF_SCRATCH="+filepath.Join(dir, "s"))
	cmd.Stdout, cmd.Stderr = lf, lf
	cmd.ExtraFiles = []*os.File{jr, aw}
	if err := cmd.Start(); err != nil {
		return nil, err
	}
	jr.Close()
	aw.Close()
	lf.Close()
	return &worker{cmd: cmd, jobs: jw, acks: bufio.NewReader(ar), ackF: ar, log: logPath, alive: true}, nil
}

// run sends one job to worker k and waits for its acknowledgement. Returns "" or an error text
// (worker died). A dead worker is replaced on the next job.
func (p *pool) run(k int, j job) string {
	p.mu.Lock()
	w := p.w[k]
	p.mu.Unlock()
	if w == nil || !w.alive {
		nw, err := p.spawn(k)
		if err != nil {
			return "spawn: " + err.Error()
		}
		p.mu.Lock()
		p.w[k] = nw
		p.mu.Unlock()
		w = nw
	}
	b, _ := json.Marshal(j)
	if _, err := w.jobs.Write(append(b, '\n')); err != nil {
		w.alive = false
		return "send: " + err.Error() + "\n" + tailFile(w.log)
	}
	line, err := w.acks.ReadString('\n')
	if err != nil || !strings.HasPrefix(line, "done "+j.Label) {
		w.alive = false
		w.jobs.Close()
		w.ackF.Close()
		werr := w.cmd.Wait()
		return fmt.Sprintf("no ack (%v; exit: %v)\n%s", err, werr, tailFile(w.log))
	}
	return ""
}

// close ends all workers.
func (p *pool) close() {
	for _, w := range p.w {
		if w != nil && w.alive {
			w.jobs.Close()
			w.cmd.Wait()
			w.ackF.Close()
		}
	}
}

func tailFile(path string) string {
	b, err := os.ReadFile(path)
	if err != nil {
		return ""
	}
	if len(b) > 2500 {
		b = b[len(b)-2500:]
	}
	return string(b)
}
