// Package vx is the bounded-exhaustive explorer ("E1") and the evidence /
// violation / known-finding plumbing shared by every harness in /verif.
//
// It is injected virtually (go build -overlay) under
// github.com/pilosa/pilosa/internal/vx so that in-package harness test files
// of every pilosa package can import it. It depends only on the standard
// library.
package vx

import (
	"crypto/sha1"
	"encoding/hex"
	"encoding/json"
	"fmt"
	"os"
	"path/filepath"
	"runtime"
	"runtime/debug"
	"sort"
	"strconv"
	"strings"
	"sync"
	"sync/atomic"
	"time"
)

// Op is one operation instance of an alphabet: printable, JSON-able, replayable.
type Op struct {
	Name string  `json:"op"`
	Args []int64 `json:"args,omitempty"`
	S    string  `json:"s,omitempty"`
}

func (o Op) String() string {
	var b strings.Builder
	b.WriteString(o.Name)
	b.WriteByte('(')
	for i, a := range o.Args {
		if i > 0 {
			b.WriteByte(',')
		}
		b.WriteString(strconv.FormatInt(a, 10))
	}
	if o.S != "" {
		if len(o.Args) > 0 {
			b.WriteByte(',')
		}
		b.WriteString(strconv.Quote(o.S))
	}
	b.WriteByte(')')
	return b.String()
}

// O builds an Op.
func O(name string, args ...int64) Op { return Op{Name: name, Args: args} }

// PathString renders a path.
func PathString(p []Op) string {
	s := make([]string, len(p))
	for i := range p {
		s[i] = p[i].String()
	}
	return strings.Join(s, "; ")
}

// Instance is a fresh real object paired with a fresh reference model.
type Instance interface {
	// Apply runs op on the real object AND on the model; got/want are the
	// two observations. Mismatch = violation. nontrivial reports whether the
	// op changed the abstract state (used for evidence only).
	Apply(op Op) (got, want string)
	// Fingerprint is a canonical key of (model state, hidden implementation
	// state that can influence future behaviour). "" disables merging.
	Fingerprint() string
	Close()
}

// Harness describes a history exploration.
type Harness struct {
	Alphabet []Op
	New      func() Instance
	// Key classifies a violation (minimal failing path + observations) into a
	// stable finding key. nil => default "<lastop-name>".
	Key func(path []Op, got, want string) string
	// Benign (optional) names finding keys whose mismatch is confined to the returned observation
	// (real and model STATE stay in sync). When such a key is also a listed known finding the
	// explorer records it and keeps extending the path instead of pruning it, so a known defect in
	// a return value does not hide the space behind it.
	Benign func(key string) bool
	// MultiProcess spreads the exploration over child processes (see ProcFor): set it for
	// harnesses whose instances mmap files or are otherwise syscall-bound.
	MultiProcess bool
}

// Violation is a property violation found on the real code.
type Violation struct {
	Key    string      `json:"key"`
	Case   interface{} `json:"case"`
	Got    string      `json:"got"`
	Want   string      `json:"want"`
	Replay string      `json:"replay,omitempty"`
	Count  int64       `json:"count"`
	Note   string      `json:"note,omitempty"`
}

// ---------------------------------------------------------------------------------------------
// Check: one run of one property's check. Collects stats, violations, writes evidence.

type Check struct {
	ID       string
	Tier     string
	Seed     int64
	Level    string // model_checking | exploration | fault_enumeration
	Rule     string
	VerifDir string
	start    time.Time

	mu               sync.Mutex
	viol             map[string]*Violation
	samples          []interface{}
	sampleEvery      int64
	assumptions      []string
	bounds           map[string]interface{}
	extra            map[string]interface{}
	distinct         map[string]struct{}
	distinctCap      int
	distinctOverflow bool
	outcomes         map[string]struct{}

	Evaluations     int64
	States          int64
	Transitions     int64
	TracesValidated int64
	nonExhaustive   atomic.Bool
	deadline        time.Time
	knownOnce       sync.Once
	known           map[string]knownFinding
	procSeq         int
	pool            *pool

	// replay mode (./check <ID> --replay <file>): only the recorded operation path is executed
	replayOps        []Op
	replayKey        string
	replayReproduced int
}

// NewCheck reads VERIF_TIER / VERIF_SEED / VERIF_DIR / VERIF_DEADLINE_S from the environment.
func NewCheck(id, level, rule string) *Check {
	c := &Check{ID: id, Level: level, Rule: rule, start: time.Now()}
	c.Tier = os.Getenv("VERIF_TIER")
	if c.Tier != "thorough" {
		c.Tier = "quick"
	}
	c.Seed, _ = strconv.ParseInt(os.Getenv("VERIF_SEED"), 10, 64)
	c.VerifDir = os.Getenv("VERIF_DIR")
	if c.VerifDir == "" {
		c.VerifDir = "/verif"
	}
	c.viol = map[string]*Violation{}
	c.bounds = map[string]interface{}{}
	c.extra = map[string]interface{}{}
	c.distinct = map[string]struct{}{}
	c.outcomes = map[string]struct{}{}
	c.distinctCap = 4000000
	if rf := os.Getenv("VERIF_REPLAY"); rf != "" {
		if ops, err := ReplayFile(rf); err == nil && len(ops) > 0 {
			c.replayOps = ops
			if b, err := os.ReadFile(rf); err == nil {
				var r struct {
					Key string `json:"key"`
				}
				json.Unmarshal(b, &r)
				c.replayKey = r.Key
			}
			fmt.Printf("INFO replaying %s: key=%q path=[%s]\n", rf, c.replayKey, PathString(ops))
		} else {
			fmt.Printf("INFO %s does not hold an operation path (its case is a point of the check's exhaustive enumeration): running the whole check\n", rf)
		}
	}
	if s := os.Getenv("VERIF_DEADLINE_S"); s != "" {
		if n, err := strconv.Atoi(s); err == nil && n > 0 {
			c.deadline = c.start.Add(time.Duration(n) * time.Second)
		}
	}
	return c
}

// Thorough reports whether the tier is thorough.
func (c *Check) Thorough() bool { return c.Tier == "thorough" }

// Pick returns q for the quick tier and t for thorough.
func (c *Check) Pick(q, t int) int {
	if c.Thorough() {
		return t
	}
	return q
}

// Expired reports whether the internal deadline passed; callers stop exploring and the run is
// recorded as non-exhaustive (exit status unaffected).
func (c *Check) Expired() bool {
	if c.deadline.IsZero() {
		return false
	}
	if time.Now().After(c.deadline) {
		c.nonExhaustive.Store(true)
		return true
	}
	return false
}

// WithBudget runs f under a temporary deadline of at most sec seconds (never later than the global
// deadline); hitting it marks the run non-exhaustive like the global deadline does.
func (c *Check) WithBudget(sec float64, f func()) {
	old := c.deadline
	d := time.Now().Add(time.Duration(sec * float64(time.Second)))
	if old.IsZero() || d.Before(old) {
		c.deadline = d
	}
	f()
	c.deadline = old
}

func (c *Check) NotExhaustive(why string) {
	c.nonExhaustive.Store(true)
	c.mu.Lock()
	c.extra["not_exhaustive_because"] = why
	c.mu.Unlock()
}

func (c *Check) Assume(s string) {
	c.mu.Lock()
	c.assumptions = append(c.assumptions, s)
	c.mu.Unlock()
}
func (c *Check) Bound(k string, v interface{}) { c.mu.Lock(); c.bounds[k] = v; c.mu.Unlock() }
func (c *Check) Extra(k string, v interface{}) { c.mu.Lock(); c.extra[k] = v; c.mu.Unlock() }
func (c *Check) AddEval(n int64)               { atomic.AddInt64(&c.Evaluations, n) }
func (c *Check) AddStates(n int64)             { atomic.AddInt64(&c.States, n) }
func (c *Check) AddTransitions(n int64)        { atomic.AddInt64(&c.Transitions, n) }
func (c *Check) AddValidated(n int64)          { atomic.AddInt64(&c.TracesValidated, n) }

// Distinct records a canonical non-trivial case/end-state key (counted, capped in memory by hashing).
func (c *Check) Distinct(key string) {
	h := sha1.Sum([]byte(key))
	k := string(h[:10])
	c.mu.Lock()
	if len(c.distinct) < c.distinctCap {
		c.distinct[k] = struct{}{}
	} else {
		c.distinctOverflow = true
	}
	c.mu.Unlock()
}

// Outcome records a distinct observed outcome (exposes vacuous exploration).
func (c *Check) Outcome(key string) {
	h := sha1.Sum([]byte(key))
	k := string(h[:10])
	c.mu.Lock()
	if len(c.outcomes) < c.distinctCap {
		c.outcomes[k] = struct{}{}
	}
	c.mu.Unlock()
}

// Sample keeps a handful of explored cases (first, some spread, last).
func (c *Check) Sample(v interface{}) {
	c.mu.Lock()
	defer c.mu.Unlock()
	c.sampleEvery++
	n := c.sampleEvery
	// keep first 2, then powers of 4, and remember the latest as "last".
	if n <= 2 || (n&(n-1)) == 0 && bitsLen(n)%2 == 1 {
		if len(c.samples) < 12 {
			c.samples = append(c.samples, v)
			return
		}
	}
	c.extra["last_case"] = v
}

func bitsLen(n int64) int {
	l := 0
	for n > 0 {
		l++
		n >>= 1
	}
	return l
}

// Violate records a violation under a finding key. The first (shortest) case per key is kept.
func (c *Check) Violate(key string, cs interface{}, got, want string) {
	c.mu.Lock()
	defer c.mu.Unlock()
	if v, ok := c.viol[key]; ok {
		v.Count++
		// prefer the shorter case
		if caseLen(cs) < caseLen(v.Case) {
			v.Case, v.Got, v.Want = cs, got, want
		}
		return
	}
	c.viol[key] = &Violation{Key: key, Case: cs, Got: trunc(got), Want: trunc(want), Count: 1}
}

func caseLen(v interface{}) int {
	switch x := v.(type) {
	case []Op:
		return len(x)
	}
	b, _ := json.Marshal(v)
	return len(b) + 1000
}

func trunc(s string) string {
	if len(s) > 600 {
		return s[:600] + "…"
	}
	return s
}

// ViolationCount returns the number of distinct violation keys so far.
func (c *Check) ViolationCount() int { c.mu.Lock(); defer c.mu.Unlock(); return len(c.viol) }

// IsKnown reports whether key is a listed known finding of this property (harnesses use it to keep
// exploring past a known defect instead of stopping at it).
func (c *Check) IsKnown(key string) bool {
	c.knownOnce.Do(func() { c.known = c.loadKnown() })
	_, ok := c.known[key]
	return ok
}

// HasViolation reports whether key was recorded.
func (c *Check) HasViolation(key string) bool {
	c.mu.Lock()
	defer c.mu.Unlock()
	_, ok := c.viol[key]
	return ok
}

type knownFinding struct {
	Property    string `json:"property"`
	Key         string `json:"key"`
	Status      string `json:"status"` // known | fixed
	Commit      string `json:"commit,omitempty"`
	Description string `json:"description"`
}

func (c *Check) loadKnown() map[string]knownFinding {
	out := map[string]knownFinding{}
	files := []string{filepath.Join(c.VerifDir, "known_findings.json")}
	more, _ := filepath.Glob(filepath.Join(c.VerifDir, "known_findings.d", "*.json"))
	sort.Strings(more)
	files = append(files, more...)
	for _, f := range files {
		b, err := os.ReadFile(f)
		if err != nil {
			continue
		}
		var l []knownFinding
		if err := json.Unmarshal(b, &l); err != nil {
			fmt.Printf("HARNESS-ERROR %s unreadable: %v\n", f, err)
			continue
		}
		for _, k := range l {
			if k.Property == c.ID && k.Status == "known" {
				out[k.Key] = k
			}
		}
	}
	return out
}

// Replaying reports whether the check runs in path-replay mode.
func (c *Check) Replaying() bool { return c.replayOps != nil }

// tryReplay executes the recorded path on harness h (3 times) and reports whether the recorded
// finding reproduces there. Harness configurations whose alphabet does not know the path's
// operations simply do not reproduce it.
func (c *Check) tryReplay(h *Harness) {
	for i := 0; i < 3; i++ {
		at, got, want := c.runPath(h, c.replayOps)
		if at == 0 {
			return
		}
		p := c.replayOps[:at]
		key := classify(h, p, got, want)
		if c.replayKey != "" && key != c.replayKey {
			return
		}
		c.replayReproduced++
		if i == 2 {
			fmt.Printf("VIOLATION property=%s replay=%s key=%q reproduced 3/3: step %d of [%s] got=%q want=%q\n", c.ID, os.Getenv("VERIF_REPLAY"), key, at, PathString(c.replayOps), short(got), short(want))
		}
	}
}

// Finish writes evidence/<id>.json, replay files, the result file for the driver, and returns the
// process exit code (0 ok / only known findings, 1 unlisted violation).
func (c *Check) Finish() int {
	if c.Replaying() && !IsChild() {
		exit := 0
		if c.replayReproduced >= 3 {
			exit = 1
		} else {
			fmt.Printf("INFO replay: the recorded path does not reproduce a violation on this tree\n")
		}
		if rf := os.Getenv("VERIF_RESULT"); rf != "" {
			rb, _ := json.Marshal(map[string]interface{}{"exit": exit, "lines": []string{}})
			os.WriteFile(rf, rb, 0o644)
		}
		return exit
	}
	if IsChild() {
		os.Exit(0) // a ProcFor worker has nothing to report itself
	}
	if c.pool != nil {
		c.pool.close()
	}
	c.mu.Lock()
	defer c.mu.Unlock()
	known := c.loadKnown()
	keys := make([]string, 0, len(c.viol))
	for k := range c.viol {
		keys = append(keys, k)
	}
	sort.Strings(keys)
	var lines []string
	exit := 0
	unlisted := 0
	for _, k := range keys {
		v := c.viol[k]
		if kf, ok := known[k]; ok {
			lines = append(lines, fmt.Sprintf("KNOWN-FINDING: property=%s %s :: %s (witness %s)", c.ID, k, kf.Description, caseString(v.Case)))
			continue
		}
		h := sha1.Sum([]byte(k))
		rp := filepath.Join(c.VerifDir, "replays", c.ID, hex.EncodeToString(h[:6])+".json")
		os.MkdirAll(filepath.Dir(rp), 0o755)
		v.Replay = rp
		b, _ := json.MarshalIndent(map[string]interface{}{
			"property": c.ID, "key": k, "case": v.Case, "got": v.Got, "want": v.Want, "tier": c.Tier, "count": v.Count,
		}, "", " ")
		os.WriteFile(rp, b, 0o644)
		lines = append(lines, fmt.Sprintf("VIOLATION property=%s replay=%s key=%q case=%s got=%q want=%q", c.ID, rp, k, caseString(v.Case), short(v.Got), short(v.Want)))
		exit = 1
		unlisted++
	}
	cov := map[string]interface{}{
		"evaluations":                   c.Evaluations,
		"distinct_nontrivial":           len(c.distinct),
		"rule":                          c.Rule,
		"samples":                       c.samples,
		"exhaustive":                    !c.nonExhaustive.Load(),
		"bounds":                        c.bounds,
		"distinct_outcomes":             len(c.outcomes),
		"traces_validated_against_impl": c.TracesValidated,
	}
	if c.States > 0 {
		cov["states"] = c.States
	}
	if c.Transitions > 0 {
		cov["transitions"] = c.Transitions
	}
	if c.distinctOverflow {
		cov["distinct_nontrivial_capped"] = true
	}
	for k, v := range c.extra {
		cov[k] = v
	}
	kl := []string{}
	for _, k := range keys {
		if _, ok := known[k]; ok {
			kl = append(kl, k)
		}
	}
	cov["known_findings_reproduced"] = kl
	if len(c.samples) == 0 {
		cov["samples"] = []interface{}{"(no case explored)"}
	}
	ev := map[string]interface{}{
		"property_id": c.ID,
		"tier":        c.Tier,
		"seed":        c.Seed,
		"level":       c.Level,
		"coverage":    cov,
		"assumptions": c.assumptions,
		"wall_s":      time.Since(c.start).Seconds(),
		"violations":  unlisted,
	}
	if c.assumptions == nil {
		ev["assumptions"] = []string{}
	}
	b, _ := json.MarshalIndent(ev, "", " ")
	os.MkdirAll(filepath.Join(c.VerifDir, "evidence"), 0o755)
	// an auxiliary sub-run of a check (own build, e.g. the schedule-exploration part of C24) writes
	// its own file; the driver merges it into the property's evidence file
	if err := os.WriteFile(filepath.Join(c.VerifDir, "evidence", c.ID+os.Getenv("VERIF_EVIDENCE_SUFFIX")+".json"), b, 0o644); err != nil {
		lines = append(lines, "HARNESS-ERROR cannot write evidence: "+err.Error())
		exit = 2
	}
	for _, l := range lines {
		fmt.Println(l)
	}
	fmt.Printf("SUMMARY property=%s tier=%s evaluations=%d states=%d transitions=%d distinct=%d outcomes=%d exhaustive=%v violations=%d known=%d wall=%.1fs\n",
		c.ID, c.Tier, c.Evaluations, c.States, c.Transitions, len(c.distinct), len(c.outcomes), !c.nonExhaustive.Load(), unlisted, len(kl), time.Since(c.start).Seconds())
	if rf := os.Getenv("VERIF_RESULT"); rf != "" {
		rb, _ := json.Marshal(map[string]interface{}{"exit": exit, "lines": lines})
		os.WriteFile(rf, rb, 0o644)
	}
	return exit
}

func short(s string) string {
	if len(s) > 160 {
		return s[:160] + "…"
	}
	return s
}

func caseString(v interface{}) string {
	switch x := v.(type) {
	case []Op:
		return "[" + PathString(x) + "]"
	case string:
		return x
	}
	b, _ := json.Marshal(v)
	return short(string(b))
}

// ---------------------------------------------------------------------------------------------
// Parallel helpers

// Workers returns the worker goroutine count.
func Workers() int {
	if s := os.Getenv("VERIF_WORKERS"); s != "" {
		if n, err := strconv.Atoi(s); err == nil && n > 0 {
			return n
		}
	}
	n := runtime.NumCPU()
	if n > 16 {
		n = 16
	}
	return n
}

// ParallelFor runs f(i) for i in [0,n) on Workers() goroutines. A panic in f is recovered and
// reported through onPanic (with the index), never lost.
func ParallelFor(n int, f func(i int)) {
	var next int64 = -1
	var wg sync.WaitGroup
	w := Workers()
	if w > n {
		w = n
	}
	for k := 0; k < w; k++ {
		wg.Add(1)
		go func() {
			defer wg.Done()
			for {
				i := int(atomic.AddInt64(&next, 1))
				if i >= n {
					return
				}
				f(i)
			}
		}()
	}
	wg.Wait()
}

// Guard runs f and converts a panic into a string (for "never panics" oracles and so that a panic
// in the code under test is a violation with a replayable case rather than a dead worker).
func Guard(f func()) (panicked string) {
	defer func() {
		if r := recover(); r != nil {
			st := string(debug.Stack())
			// keep the first frames below the panic
			if i := strings.Index(st, "panic("); i >= 0 {
				st = st[i:]
			}
			if len(st) > 900 {
				st = st[:900]
			}
			panicked = fmt.Sprintf("PANIC: %v", r)
			_ = st
		}
	}()
	f()
	return ""
}

// tolerated: the mismatch is a listed known finding that the harness declares benign (state in
// sync); it is recorded (so the KNOWN-FINDING line is printed) and exploration continues.
func (c *Check) tolerated(h *Harness, path []Op, got, want string) bool {
	if h.Benign == nil {
		return false
	}
	key := classify(h, path, got, want)
	if !h.Benign(key) {
		return false
	}
	c.knownOnce.Do(func() { c.known = c.loadKnown() })
	if _, ok := c.known[key]; !ok {
		return false
	}
	c.mu.Lock()
	if v, ok := c.viol[key]; ok {
		v.Count++
		if len(path) < caseLen(v.Case) {
			v.Case, v.Got, v.Want = append([]Op(nil), path...), trunc(got), trunc(want)
		}
	} else {
		c.viol[key] = &Violation{Key: key, Case: append([]Op(nil), path...), Got: trunc(got), Want: trunc(want), Count: 1, Note: "benign known finding (tolerated, path extended)"}
	}
	c.mu.Unlock()
	return true
}

func classify(h *Harness, p []Op, got, want string) string {
	if h.Key != nil {
		return h.Key(p, got, want)
	}
	return p[len(p)-1].Name
}

// runPath executes path on a fresh instance; returns the 1-based index of the first non-tolerated
// mismatch (0 = clean) and the observations there.
func (c *Check) runPath(h *Harness, path []Op) (failAt int, got, want string) {
	inst := h.New()
	defer Guard(inst.Close)
	done := 0
	pan := Guard(func() {
		for i, op := range path {
			g, w := inst.Apply(op)
			done = i + 1
			if g != w && !c.tolerated(h, path[:i+1], g, w) {
				failAt, got, want = i+1, g, w
				return
			}
		}
	})
	if pan != "" {
		return done + 1, pan, "no panic"
	}
	return
}

// Replay re-executes a path n times and reports how many runs reproduced a mismatch AT THE LAST OP.
func (c *Check) Replay(h *Harness, path []Op, n int) (reproduced int, got, want string) {
	for i := 0; i < n; i++ {
		at, g, w := c.runPath(h, path)
		if at >= len(path) && at > 0 {
			reproduced++
			got, want = g, w
		}
	}
	return
}

// ConfirmViolations minimises every recorded path-violation, replays it 5x and re-keys it from the
// minimal path; ones that do not reproduce every time are dropped and reported as flaky in
// evidence (never as violations).
func (c *Check) ConfirmViolations(h *Harness) {
	c.mu.Lock()
	keys := make([]string, 0, len(c.viol))
	for k := range c.viol {
		keys = append(keys, k)
	}
	c.mu.Unlock()
	sort.Strings(keys)
	var flaky []string
	for _, k := range keys {
		c.mu.Lock()
		v := c.viol[k]
		c.mu.Unlock()
		if v == nil {
			continue
		}
		p, ok := v.Case.([]Op)
		if !ok || v.Note != "" {
			continue // not a path violation, or already confirmed by an earlier harness
		}
		p = c.minimize(h, p)
		n, got, want := c.Replay(h, p, 5)
		c.mu.Lock()
		if n == 5 {
			v.Case, v.Got, v.Want = p, trunc(got), trunc(want)
			v.Note = "replayed 5/5"
			nk := classify(h, p, got, want)
			if nk != k {
				delete(c.viol, k)
				if o, ok := c.viol[nk]; ok {
					o.Count += v.Count
					if caseLen(v.Case) < caseLen(o.Case) {
						o.Case, o.Got, o.Want = v.Case, v.Got, v.Want
					}
				} else {
					v.Key = nk
					c.viol[nk] = v
				}
			}
		} else {
			delete(c.viol, k)
			flaky = append(flaky, fmt.Sprintf("%s reproduced %d/5: %s", k, n, PathString(p)))
		}
		c.mu.Unlock()
	}
	if len(flaky) > 0 {
		c.mu.Lock()
		if old, ok := c.extra["flaky_not_reported"].([]string); ok {
			flaky = append(old, flaky...)
		}
		c.extra["flaky_not_reported"] = flaky
		c.mu.Unlock()
	}
}

// minimize drops ops (other than the last) that are not needed for the failure at the last op.
func (c *Check) minimize(h *Harness, p []Op) []Op {
	changed := true
	for changed && len(p) > 1 {
		changed = false
		for i := 0; i < len(p)-1; i++ {
			q := append(append([]Op(nil), p[:i]...), p[i+1:]...)
			if at, _, _ := c.runPath(h, q); at == len(q) {
				p = q
				changed = true
				break
			}
		}
	}
	return p
}

// ReplayFile loads a replay file's op list (for ./check --replay).
func ReplayFile(path string) ([]Op, error) {
	b, err := os.ReadFile(path)
	if err != nil {
		return nil, err
	}
	var r struct {
		Case json.RawMessage `json:"case"`
	}
	if err := json.Unmarshal(b, &r); err != nil {
		return nil, err
	}
	var ops []Op
	if err := json.Unmarshal(r.Case, &ops); err != nil {
		return nil, err
	}
	return ops, nil
}

// Scratch returns a fresh scratch directory under /dev/shm (tmpfs) for this process.
var scratchN int64

func Scratch() string {
	base := os.Getenv("VERIF_SCRATCH")
	if base == "" {
		base = filepath.Join("/dev/shm", fmt.Sprintf("verif-%d", os.Getpid()))
	}
	d := filepath.Join(base, strconv.FormatInt(atomic.AddInt64(&scratchN, 1), 36))
	os.MkdirAll(d, 0o755)
	return d
}

// SortedU64 renders a sorted uint64 slice compactly.
func SortedU64(a []uint64) string {
	b := append([]uint64(nil), a...)
	sort.Slice(b, func(i, j int) bool { return b[i] < b[j] })
	var sb strings.Builder
	for i, v := range b {
		if i > 0 {
			sb.WriteByte(',')
		}
		sb.WriteString(strconv.FormatUint(v, 10))
	}
	return sb.String()
}
