// Package vsched is the controlled scheduler of engine E2: stateless exploration of thread schedules
// of the REAL pilosa code at lock granularity.
//
// Scheduling points are the blocking lock operations (Mutex.Lock, RWMutex.Lock/RLock, Cond.Wait) of
// the vsync shim, thread start, and explicit Yield calls. One registered thread runs at a time: a
// thread arriving at a point parks on its own channel; the explorer goroutine calls synctest.Wait()
// (returns when every goroutine of the bubble is durably blocked), computes the selectable threads
// from its own model of the lock state and resumes exactly one, following the current choice
// sequence. Channel operations, atomics and `go` statements are not intercepted: a goroutine woken
// by a channel hand-off runs until its next point; goroutines spawned by the code under test are
// registered lazily ("daemons") at their first point. Timers only fire by fake time advancing when
// nothing is selectable, up to a horizon.
//
// Must run inside a testing/synctest bubble (go >= 1.25).
package vsched

import (
	"bytes"
	"fmt"
	"runtime"
	"sort"
	"strconv"
	"strings"
	"sync"
	"sync/atomic"
	"testing/synctest"
	"time"
)

type Kind int

const (
	KMutex Kind = iota
	KWrite
	KRead
	KCond
	KStart
	KYield
)

func (k Kind) String() string {
	return [...]string{"Lock", "WLock", "RLock", "CondWait", "Start", "Yield"}[k]
}

type lockState struct {
	held     bool // mutex held / write lock held
	readers  int
	announce int // writers that announced Lock() while readers hold it (block new readers)
	owner    int // thread id holding (for reports)
	name     string
}

type thread struct {
	id     int
	name   string
	goid   uint64
	daemon bool
	resume chan struct{}
	// pending point
	parked    bool
	kind      Kind
	obj       interface{}
	announced bool
	// cond wait
	cond      interface{}
	signalled bool
	lkind     Kind
	lobj      interface{}

	finished bool
	panicMsg string
}

// Decision is one scheduling decision with more than one selectable thread.
type Decision struct {
	Sel            []int // selectable thread ids in canonical order
	Chosen         int   // index into Sel
	RunningEnabled bool  // the previously running thread was still selectable (Sel[0])
}

// Trace is the outcome of one execution.
type Trace struct {
	Decisions []Decision
	Steps     int      // selections made (including forced ones)
	Schedule  []string // "T<id>:<kind>" per selection
	Deadlock  string   // non-empty: description of a deadlock / blocked-for-ever state
	Panics    []string
	Leaked    []string // threads (not daemons) blocked in the runtime at the horizon
	Diverged  string   // non-empty: replay of the prefix diverged (harness error, not a verdict)
	FakeTime  time.Duration
	Learned   bool // the shared-lock set grew in this execution (exploration restarts)
}

// X is handed to the scenario builder of one execution.
type X struct {
	s *sched
}

type sched struct {
	mu       sync.Mutex
	gen      uint64
	explorer uint64
	threads  []*thread
	byGoid   map[uint64]*thread
	locks    map[interface{}]*lockState
	condQ    map[interface{}][]*thread
	nextDae  int
	aborting bool
	opCount  int64
	shared   *SharedSites
	touch    map[interface{}]*touchRec
}

var (
	active  atomic.Bool
	cur     *sched
	curMu   sync.Mutex
	zombies sync.Map // goid -> generation that ended
)

// Active reports whether an exploration is running (the shim then routes lock ops here).
func Active() bool { return active.Load() }

func goid() uint64 {
	var buf [64]byte
	b := buf[:runtime.Stack(buf[:], false)]
	b = bytes.TrimPrefix(b, []byte("goroutine "))
	i := bytes.IndexByte(b, ' ')
	n, _ := strconv.ParseUint(string(b[:i]), 10, 64)
	return n
}

func get() *sched {
	curMu.Lock()
	defer curMu.Unlock()
	return cur
}

func (s *sched) lock(obj interface{}) *lockState {
	l := s.locks[obj]
	if l == nil {
		l = &lockState{owner: -1}
		s.locks[obj] = l
	}
	return l
}

// can reports whether the op could complete now (s.mu held).
func (s *sched) can(kind Kind, obj interface{}, announced bool) bool {
	l := s.lock(obj)
	switch kind {
	case KMutex:
		return !l.held
	case KWrite:
		return !l.held && l.readers == 0
	case KRead:
		return !l.held && l.announce == 0
	}
	return true
}

func (s *sched) take(kind Kind, obj interface{}, id int) {
	l := s.lock(obj)
	switch kind {
	case KMutex, KWrite:
		l.held = true
		l.owner = id
	case KRead:
		l.readers++
	}
}

// current returns the calling goroutine's thread, registering a daemon lazily. nil = explorer.
func (s *sched) current() *thread {
	g := goid()
	if g == s.explorer {
		return nil
	}
	s.mu.Lock()
	t := s.byGoid[g]
	if t == nil {
		if _, z := zombies.Load(g); z {
			s.mu.Unlock()
			runtime.Goexit()
		}
		t = &thread{id: 100 + s.nextDae, name: fmt.Sprintf("daemon%d", s.nextDae), goid: g, daemon: true, resume: make(chan struct{})}
		s.nextDae++
		s.threads = append(s.threads, t)
		s.byGoid[g] = t
	}
	s.mu.Unlock()
	return t
}

func (t *thread) park(s *sched) {
	<-t.resume
	s.mu.Lock()
	ab := s.aborting
	s.mu.Unlock()
	if ab {
		runtime.Goexit()
	}
}

// Acquire is called by the shim for Lock/RLock.
func Acquire(kind Kind, obj interface{}) {
	s := get()
	if s == nil {
		return
	}
	t := s.current()
	s.mu.Lock()
	if s.aborting {
		s.mu.Unlock()
		if t != nil {
			runtime.Goexit()
		}
		return
	}
	if t == nil { // explorer goroutine (scenario setup / final checks): must be uncontended
		if !s.can(kind, obj, false) {
			s.mu.Unlock()
			panic(fmt.Sprintf("vsched: explorer goroutine would block on %v %T (held by T%d)", kind, obj, s.lock(obj).owner))
		}
		s.take(kind, obj, -1)
		s.mu.Unlock()
		return
	}
	// Partial-order reduction: an acquire is a scheduling point only if the lock is (known to be)
	// shared between threads — it was already touched by another thread in this execution, or its
	// call site was seen operating on a shared lock in an earlier execution of this exploration.
	// Acquires of thread-local locks commute with every step of the other threads.
	if s.shared != nil {
		var pcs [1]uintptr
		runtime.Callers(3, pcs[:])
		pc := pcs[0]
		tr := s.touch[obj]
		if tr == nil {
			tr = &touchRec{threads: map[int]bool{}, sites: map[uintptr]bool{}}
			s.touch[obj] = tr
		}
		tr.threads[t.id] = true
		tr.sites[pc] = true
		if len(tr.threads) < 2 && !s.shared.has(pc) && s.can(kind, obj, false) {
			s.take(kind, obj, t.id)
			s.mu.Unlock()
			return
		}
	}
	t.parked, t.kind, t.obj, t.announced = true, kind, obj, false
	s.mu.Unlock()
	t.park(s)
}

type touchRec struct {
	threads map[int]bool
	sites   map[uintptr]bool
}

// SharedSites is the set of lock call sites learned to operate on locks shared between threads.
type SharedSites struct {
	mu sync.Mutex
	m  map[uintptr]bool
}

func (ss *SharedSites) has(pc uintptr) bool {
	ss.mu.Lock()
	defer ss.mu.Unlock()
	return ss.m[pc]
}

// Len returns the number of learned shared call sites.
func (ss *SharedSites) Len() int { ss.mu.Lock(); defer ss.mu.Unlock(); return len(ss.m) }

// learn adds the sites of every lock touched by >= 2 threads; reports whether the set grew.
func (s *sched) learn() bool {
	if s.shared == nil {
		return false
	}
	grew := false
	s.shared.mu.Lock()
	for _, tr := range s.touch {
		if len(tr.threads) < 2 {
			continue
		}
		for pc := range tr.sites {
			if !s.shared.m[pc] {
				s.shared.m[pc] = true
				grew = true
			}
		}
	}
	s.shared.mu.Unlock()
	return grew
}

// Release is called by the shim for Unlock/RUnlock (not a scheduling point).
func Release(kind Kind, obj interface{}) {
	s := get()
	if s == nil {
		return
	}
	s.mu.Lock()
	defer s.mu.Unlock()
	if s.aborting {
		return
	}
	l := s.lock(obj)
	switch kind {
	case KMutex, KWrite:
		if !l.held {
			panic(fmt.Sprintf("vsched: unlock of unlocked %T", obj))
		}
		l.held = false
		l.owner = -1
	case KRead:
		if l.readers <= 0 {
			panic(fmt.Sprintf("vsched: RUnlock of un-read-locked %T", obj))
		}
		l.readers--
	}
}

// CondWait: release the lock, wait for a signal, re-acquire (scheduling point).
func CondWait(c interface{}, lkind Kind, lobj interface{}) {
	s := get()
	if s == nil {
		return
	}
	t := s.current()
	if t == nil {
		panic("vsched: Cond.Wait on the explorer goroutine")
	}
	Release(lkind, lobj)
	s.mu.Lock()
	if s.aborting {
		s.mu.Unlock()
		runtime.Goexit()
	}
	t.parked, t.kind, t.cond, t.signalled, t.lkind, t.lobj = true, KCond, c, false, lkind, lobj
	s.condQ[c] = append(s.condQ[c], t)
	s.mu.Unlock()
	t.park(s)
}

// CondSignal wakes one (FIFO) or all waiters; they still have to re-acquire the lock.
func CondSignal(c interface{}, all bool) {
	s := get()
	if s == nil {
		return
	}
	s.mu.Lock()
	defer s.mu.Unlock()
	q := s.condQ[c]
	if len(q) == 0 {
		return
	}
	if all {
		for _, t := range q {
			t.signalled = true
		}
		s.condQ[c] = nil
		return
	}
	q[0].signalled = true
	s.condQ[c] = q[1:]
}

// Yield is an explicit, always-enabled scheduling point for harness code.
func Yield() {
	s := get()
	if s == nil {
		return
	}
	t := s.current()
	if t == nil {
		return
	}
	s.mu.Lock()
	t.parked, t.kind, t.obj = true, KYield, nil
	s.mu.Unlock()
	t.park(s)
}

// Go registers a harness thread; it starts parked at a Start point.
func (x *X) Go(name string, fn func()) { x.GoID(-1, name, fn) }

// GoID is Go with an explicit thread id (< 100), for threads created while the execution is
// already running (e.g. by a harness callback) whose creation order is not deterministic. Safe to
// call from any goroutine.
func (x *X) GoID(id int, name string, fn func()) {
	s := x.s
	s.mu.Lock()
	if id < 0 {
		id = 0
		for _, t := range s.threads {
			if !t.daemon && t.id >= id {
				id = t.id + 1
			}
		}
	}
	t := &thread{id: id, name: name, resume: make(chan struct{})}
	t.parked, t.kind = true, KStart
	s.threads = append(s.threads, t)
	s.mu.Unlock()
	ready := make(chan struct{})
	go func() {
		g := goid()
		s.mu.Lock()
		t.goid = g
		s.byGoid[g] = t
		s.mu.Unlock()
		close(ready)
		defer func() {
			if r := recover(); r != nil {
				buf := make([]byte, 4096)
				buf = buf[:runtime.Stack(buf, false)]
				s.mu.Lock()
				t.panicMsg = fmt.Sprintf("%v\n%s", r, trimStack(string(buf)))
				s.mu.Unlock()
			}
			s.mu.Lock()
			t.finished = true
			t.parked = false
			s.mu.Unlock()
		}()
		t.park(s)
		fn()
	}()
	<-ready
}

func trimStack(s string) string {
	lines := strings.Split(s, "\n")
	var out []string
	for _, l := range lines {
		if strings.Contains(l, "pilosa") && !strings.Contains(l, "vsched") {
			out = append(out, strings.TrimSpace(l))
		}
		if len(out) >= 8 {
			break
		}
	}
	return strings.Join(out, " | ")
}

// Options of one exploration.
type Options struct {
	Horizon time.Duration // fake time to let timers fire when nothing is selectable (default 0: none)
	Tick    time.Duration
	MaxStep int // safety bound on selections per execution (default 5000)
	// Shared enables the shared-lock reduction (see Acquire); Explore creates and owns it when
	// Reduce is set.
	Shared *SharedSites
	Reduce bool
}

// Run executes ONE schedule: prefix gives the choice index at the first len(prefix) decisions, later
// decisions take choice 0 (keep running the current thread if possible, else lowest id). build is
// called on the explorer goroutine with exploration active and registers threads with x.Go; the
// returned finish function (may be nil) runs on the explorer goroutine after the execution, with
// all threads finished or aborted and exploration still active, to judge the final state.
func Run(prefix []int, expect []Decision, opt Options, build func(x *X) (finish func(tr *Trace))) *Trace {
	if opt.MaxStep == 0 {
		opt.MaxStep = 5000
	}
	if opt.Tick == 0 {
		opt.Tick = time.Second
	}
	s := &sched{byGoid: map[uint64]*thread{}, locks: map[interface{}]*lockState{}, condQ: map[interface{}][]*thread{},
		shared: opt.Shared, touch: map[interface{}]*touchRec{}}
	s.explorer = goid()
	curMu.Lock()
	cur = s
	curMu.Unlock()
	active.Store(true)
	tr := &Trace{}
	defer func() {
		active.Store(false)
		curMu.Lock()
		cur = nil
		curMu.Unlock()
	}()
	finish := build(&X{s})

	last := -1
	var advanced time.Duration
	for {
		synctest.Wait()
		s.mu.Lock()
		var sel []*thread
		allDone := true
		for _, t := range s.threads {
			if !t.daemon && !t.finished {
				allDone = false
			}
			if !t.parked || t.finished {
				continue
			}
			ok := false
			switch t.kind {
			case KStart, KYield:
				ok = true
			case KMutex, KRead:
				ok = s.can(t.kind, t.obj, false)
			case KWrite:
				l := s.lock(t.obj)
				if t.announced {
					ok = !l.held && l.readers == 0
				} else {
					ok = !l.held // free -> acquire; readers>0 -> announce step
				}
			case KCond:
				ok = t.signalled && s.can(t.lkind, t.lobj, false)
			}
			if ok {
				sel = append(sel, t)
			}
		}
		if len(sel) == 0 {
			s.mu.Unlock()
			if allDone {
				// daemons parked at a lock that can never be granted while everything else is done
				break
			}
			if advanced < opt.Horizon {
				time.Sleep(opt.Tick)
				advanced += opt.Tick
				continue
			}
			tr.Deadlock = s.describeStuck()
			break
		}
		// canonical order: running thread first if still selectable, then ascending id
		sort.Slice(sel, func(i, j int) bool {
			if (sel[i].id == last) != (sel[j].id == last) {
				return sel[i].id == last
			}
			return sel[i].id < sel[j].id
		})
		choice := 0
		if len(sel) > 1 {
			d := Decision{RunningEnabled: sel[0].id == last}
			for _, t := range sel {
				d.Sel = append(d.Sel, t.id)
			}
			k := len(tr.Decisions)
			if k < len(prefix) {
				choice = prefix[k]
				if k < len(expect) && !sameSel(expect[k].Sel, d.Sel) {
					tr.Diverged = fmt.Sprintf("decision %d: selectable %v, expected %v", k, d.Sel, expect[k].Sel)
					s.mu.Unlock()
					break
				}
				if choice >= len(sel) {
					tr.Diverged = fmt.Sprintf("decision %d: choice %d out of range %v", k, choice, d.Sel)
					s.mu.Unlock()
					break
				}
			}
			d.Chosen = choice
			tr.Decisions = append(tr.Decisions, d)
		}
		t := sel[choice]
		tr.Steps++
		tr.Schedule = append(tr.Schedule, fmt.Sprintf("T%d:%v", t.id, t.kind))
		resume := true
		switch t.kind {
		case KMutex, KRead:
			s.take(t.kind, t.obj, t.id)
		case KWrite:
			l := s.lock(t.obj)
			if !l.held && l.readers == 0 {
				if t.announced {
					l.announce--
				}
				s.take(KWrite, t.obj, t.id)
			} else { // announce: Lock() has been called and now blocks new readers
				t.announced = true
				l.announce++
				resume = false
			}
		case KCond:
			s.take(t.lkind, t.lobj, t.id)
		}
		if resume {
			t.parked = false
			last = t.id
		}
		s.mu.Unlock()
		if resume {
			t.resume <- struct{}{}
		}
		if tr.Steps >= opt.MaxStep {
			tr.Deadlock = fmt.Sprintf("step bound %d reached (livelock?)", opt.MaxStep)
			break
		}
	}
	tr.FakeTime = advanced
	s.mu.Lock()
	tr.Learned = s.learn()
	s.mu.Unlock()
	// collect panics / leaks, then abort whatever is still parked
	s.mu.Lock()
	for _, t := range s.threads {
		if t.panicMsg != "" {
			tr.Panics = append(tr.Panics, fmt.Sprintf("T%d(%s): %s", t.id, t.name, t.panicMsg))
		}
		if !t.daemon && !t.finished && !t.parked {
			tr.Leaked = append(tr.Leaked, fmt.Sprintf("T%d(%s) blocked in the runtime (channel/WaitGroup/select)", t.id, t.name))
		}
	}
	s.mu.Unlock()
	if finish != nil && tr.Deadlock == "" && tr.Diverged == "" && len(tr.Leaked) == 0 {
		finish(tr)
	}
	s.mu.Lock()
	s.aborting = true
	var parked []*thread
	for _, t := range s.threads {
		zombies.Store(t.goid, true)
		if t.parked && !t.finished {
			parked = append(parked, t)
		}
	}
	s.mu.Unlock()
	for _, t := range parked {
		close(t.resume)
	}
	synctest.Wait()
	return tr
}

func sameSel(a, b []int) bool {
	if len(a) != len(b) {
		return false
	}
	for i := range a {
		if a[i] != b[i] {
			return false
		}
	}
	return true
}

func (s *sched) describeStuck() string {
	s.mu.Lock()
	defer s.mu.Unlock()
	var sb strings.Builder
	for _, t := range s.threads {
		if t.finished {
			continue
		}
		if t.parked {
			switch t.kind {
			case KCond:
				fmt.Fprintf(&sb, "T%d(%s) waits on Cond (signalled=%v); ", t.id, t.name, t.signalled)
			default:
				l := s.lock(t.obj)
				fmt.Fprintf(&sb, "T%d(%s) waits for %v on %T held by T%d readers=%d announced-writers=%d; ", t.id, t.name, t.kind, t.obj, l.owner, l.readers, l.announce)
			}
		} else {
			fmt.Fprintf(&sb, "T%d(%s) blocked in the runtime; ", t.id, t.name)
		}
	}
	return sb.String()
}

// Stats of an exploration.
type Stats struct {
	Executions   int
	ByBound      []int // executions first reached with exactly b preemptions
	MaxDecisions int
	MaxSteps     int
	BoundDone    int
	Diverged     int
	Passes       int // exploration passes (restarts when the shared-lock set grew)
	SharedSites  int
}

// Explore enumerates ALL schedules with at most `bound` preemptions (iterative: 0, then 1, ...), by
// stateless DFS over choice sequences. visit is called for every execution; returning false stops.
func Explore(bound int, opt Options, build func(x *X) func(tr *Trace), visit func(choices []int, tr *Trace) bool, expired func() bool) Stats {
	if opt.Reduce && opt.Shared == nil {
		opt.Shared = &SharedSites{m: map[uintptr]bool{}}
	}
	passes := 0
	for {
		passes++
		st, grew := explorePass(bound, opt, build, visit, expired)
		st.Passes = passes
		if opt.Shared != nil {
			st.SharedSites = opt.Shared.Len()
		}
		if !grew || passes >= 8 {
			return st
		}
	}
}

func explorePass(bound int, opt Options, build func(x *X) func(tr *Trace), visit func(choices []int, tr *Trace) bool, expired func() bool) (Stats, bool) {
	var st Stats
	st.ByBound = make([]int, bound+1)
	stop := false
	grew := false
	var rec func(prefix []int, expect []Decision, cost int, b int)
	rec = func(prefix []int, expect []Decision, cost int, b int) {
		if stop || (expired != nil && expired()) {
			stop = true
			return
		}
		tr := Run(prefix, expect, opt, build)
		if tr.Learned {
			// new shared locks: earlier executions of this pass may have skipped points; finish
			// nothing more here, the caller restarts the whole exploration with the larger set
			grew = true
			stop = true
			ch := make([]int, len(tr.Decisions))
			for i, d := range tr.Decisions {
				ch[i] = d.Chosen
			}
			visit(ch, tr)
			return
		}
		if tr.Diverged != "" {
			st.Diverged++
			visit(prefix, tr)
			return
		}
		// an execution belongs to bound b iff its total preemption count == b (so that each bound
		// level visits only new executions)
		total := 0
		for _, d := range tr.Decisions {
			if d.RunningEnabled && d.Chosen != 0 {
				total++
			}
		}
		if total == b {
			st.Executions++
			st.ByBound[b]++
			if len(tr.Decisions) > st.MaxDecisions {
				st.MaxDecisions = len(tr.Decisions)
			}
			if tr.Steps > st.MaxSteps {
				st.MaxSteps = tr.Steps
			}
			choices := make([]int, len(tr.Decisions))
			for i, d := range tr.Decisions {
				choices[i] = d.Chosen
			}
			if !visit(choices, tr) {
				stop = true
				return
			}
		}
		c := cost
		for i := len(prefix); i < len(tr.Decisions); i++ {
			d := tr.Decisions[i]
			for alt := 1; alt < len(d.Sel); alt++ {
				nc := c
				if d.RunningEnabled {
					nc++
				}
				if nc > b {
					continue
				}
				np := make([]int, i+1)
				for j := 0; j < i; j++ {
					np[j] = tr.Decisions[j].Chosen
				}
				np[i] = alt
				rec(np, tr.Decisions[:i+1], nc, b)
				if stop {
					return
				}
			}
			// decision i takes choice 0 (default) on this path: no cost
		}
	}
	for b := 0; b <= bound && !stop; b++ {
		rec(nil, nil, 0, b)
		if !stop {
			st.BoundDone = b
		}
	}
	return st, grew
}
