package pql

// C26 — PQL text is parsed faithfully; forwarded queries keep their meaning.
//
// Bounded-exhaustive enumeration of derivations of the PQL grammar (pql.peg + docs/query-language.md).
// The generator builds the query TEXT and the intended AST side by side, so the oracle never depends
// on the parser. Two clauses are decided for every case:
//
//   parse    ParseString(text) must yield exactly the intended calls (names, children, argument keys,
//            argument values AND Go types: int64 / float64 / bool / nil / string / []interface{} /
//            *Condition / *Call). Integers outside int64 must be rejected with an error.
//   forward  for every intended call c (what a correct parser hands to the executor) and for the same
//            call after the argument rewrites the executor performs before forwarding
//            (string key -> uint64 id, ids list -> []int64, TopN refetch ids -> []uint64, "_field"
//            string, uint64 inside a "previous" list), ParseString(c.String()) must yield one call with
//            the same name/children/keys/values/types. Integer kinds are compared modulo the
//            normalisation the RECEIVER itself applies (validateCallArgs turns an integer list into
//            []int64; UintArg/IntArg/UintSliceArg accept int64 and uint64 alike): a non-negative
//            uint64 and the equal int64 are the same value, an integer list is the same list whether it
//            is []int64, []uint64 or []interface{} of integers. Everything else is type-strict.
//
// Nothing is sampled: every combination inside the stated bounds is executed on the real parser.

import (
	"encoding/json"
	"fmt"
	"math"
	"os"
	"runtime/debug"
	"sort"
	"strconv"
	"strings"
	"sync"
	"sync/atomic"
	"testing"
	"unicode/utf8"

	"github.com/pilosa/pilosa/internal/vx"
)

// ---------------------------------------------------------------------------------------------
// canonical rendering of argument values (type-carrying)

func c26Canon(v interface{}, loose bool) string {
	switch x := v.(type) {
	case nil:
		return "nil"
	case bool:
		return "bool:" + strconv.FormatBool(x)
	case int64:
		if loose && x >= 0 {
			return "int:" + strconv.FormatInt(x, 10)
		}
		return "i64:" + strconv.FormatInt(x, 10)
	case uint64:
		if loose && x <= math.MaxInt64 {
			return "int:" + strconv.FormatUint(x, 10)
		}
		return "u64:" + strconv.FormatUint(x, 10)
	case float64:
		return "f64:" + strconv.FormatFloat(x, 'g', -1, 64)
	case string:
		return "str:" + strconv.Quote(x)
	case []interface{}:
		p := make([]string, len(x))
		for i := range x {
			p[i] = c26Canon(x[i], loose)
		}
		return "list[" + strings.Join(p, ",") + "]"
	case []int64:
		p := make([]string, len(x))
		for i := range x {
			p[i] = c26Canon(x[i], loose)
		}
		if loose {
			return "list[" + strings.Join(p, ",") + "]"
		}
		return "[]i64[" + strings.Join(p, ",") + "]"
	case []uint64:
		p := make([]string, len(x))
		for i := range x {
			p[i] = c26Canon(x[i], loose)
		}
		if loose {
			return "list[" + strings.Join(p, ",") + "]"
		}
		return "[]u64[" + strings.Join(p, ",") + "]"
	case *Condition:
		if x == nil {
			return "cond(nil)"
		}
		return "cond(" + x.Op.String() + " " + c26Canon(x.Value, loose) + ")"
	case *Call:
		return c26CanonCall(x, loose)
	default:
		return fmt.Sprintf("%T:%v", v, v)
	}
}

func c26CanonCall(c *Call, loose bool) string {
	if c == nil {
		return "call(nil)"
	}
	var b strings.Builder
	b.WriteString(c.Name)
	b.WriteByte('{')
	keys := make([]string, 0, len(c.Args))
	for k := range c.Args {
		keys = append(keys, k)
	}
	sort.Strings(keys)
	for i, k := range keys {
		if i > 0 {
			b.WriteByte(' ')
		}
		b.WriteString(strconv.Quote(k))
		b.WriteByte('=')
		b.WriteString(c26Canon(c.Args[k], loose))
	}
	b.WriteString("}[")
	for i, ch := range c.Children {
		if i > 0 {
			b.WriteByte(' ')
		}
		b.WriteString(c26CanonCall(ch, loose))
	}
	b.WriteByte(']')
	return b.String()
}

func c26CanonCalls(cs []*Call, loose bool) string {
	p := make([]string, len(cs))
	for i := range cs {
		p[i] = c26CanonCall(cs[i], loose)
	}
	return strings.Join(p, " ; ")
}

// c26MapStrings deep-copies v applying f to every string VALUE (keys and names stay).
func c26MapStrings(v interface{}, f func(string) string) interface{} {
	switch x := v.(type) {
	case string:
		return f(x)
	case []interface{}:
		o := make([]interface{}, len(x))
		for i := range x {
			o[i] = c26MapStrings(x[i], f)
		}
		return o
	case *Condition:
		return &Condition{Op: x.Op, Value: c26MapStrings(x.Value, f)}
	case *Call:
		return c26MapCall(x, f)
	default:
		return v
	}
}

func c26MapCall(c *Call, f func(string) string) *Call {
	o := &Call{Name: c.Name}
	if c.Args != nil {
		o.Args = map[string]interface{}{}
		for k, v := range c.Args {
			o.Args[k] = c26MapStrings(v, f)
		}
	}
	for _, ch := range c.Children {
		o.Children = append(o.Children, c26MapCall(ch, f))
	}
	return o
}

func c26Asciify(s string) string {
	if c26IsASCII(s) {
		return s
	}
	var b strings.Builder
	for _, r := range s {
		if r >= 0x80 {
			b.WriteByte('z')
		} else {
			b.WriteRune(r)
		}
	}
	return b.String()
}

func c26IsASCII(s string) bool {
	for i := 0; i < len(s); i++ {
		if s[i] >= 0x80 {
			return false
		}
	}
	return true
}

// ---------------------------------------------------------------------------------------------
// terminals

var c26Syms = []string{"a", "é", "世", "😀", "\"", "'", "\\", " ", "\n"}

// all strings of at most n symbols, shortest first.
func c26Strings(n int) []string {
	out := []string{""}
	prev := []string{""}
	for l := 1; l <= n; l++ {
		var cur []string
		for _, p := range prev {
			for _, s := range c26Syms {
				cur = append(cur, p+s)
			}
		}
		out = append(out, cur...)
		prev = cur
	}
	return out
}

// double-quoted literal: the grammar's escapes are \" and \\ ; everything else is written raw
// (nl=true writes a newline as the Go escape \n, which the repo's own parser test pins to mean newline).
func c26DQ(s string, nl bool) string {
	var b strings.Builder
	b.WriteByte('"')
	for _, r := range s {
		switch {
		case r == '"':
			b.WriteString(`\"`)
		case r == '\\':
			b.WriteString(`\\`)
		case r == '\n' && nl:
			b.WriteString(`\n`)
		default:
			b.WriteRune(r)
		}
	}
	b.WriteByte('"')
	return b.String()
}

// single-quoted literal: escapes \' and \\ .
func c26SQ(s string) string {
	var b strings.Builder
	b.WriteByte('\'')
	for _, r := range s {
		switch r {
		case '\'':
			b.WriteString(`\'`)
		case '\\':
			b.WriteString(`\\`)
		default:
			b.WriteRune(r)
		}
	}
	b.WriteByte('\'')
	return b.String()
}

// c26Val is one written value together with the value it denotes.
type c26Val struct {
	text  string
	want  interface{}
	kind  string // int float null bool ts bare dq dqn sq call list
	list  bool   // a [..] list (cannot be nested in a list)
	oor   bool   // integer outside int64: the parser must answer with an error
	style byte   // 'd' / 's' for quoted strings
}

const c26TS = "2010-01-02T03:04"

func c26Items(strs []string, full bool) []c26Val {
	var v []c26Val
	ints := []int64{0, 1, -1, math.MaxInt64, math.MinInt64}
	for _, i := range ints {
		v = append(v, c26Val{text: strconv.FormatInt(i, 10), want: i, kind: "int"})
	}
	v = append(v,
		c26Val{text: "007", want: int64(7), kind: "int"},
		c26Val{text: "-0", want: int64(0), kind: "int"},
		c26Val{text: "9223372036854775808", oor: true, kind: "int-oor"},
		c26Val{text: "-9223372036854775809", oor: true, kind: "int-oor"},
		c26Val{text: "1.5", want: 1.5, kind: "float"},
		c26Val{text: ".5", want: 0.5, kind: "float"},
		c26Val{text: "-.5", want: -0.5, kind: "float"},
		c26Val{text: "-1.25", want: -1.25, kind: "float"},
		c26Val{text: "2.", want: 2.0, kind: "float"},
		c26Val{text: "1.0", want: 1.0, kind: "float"},
		c26Val{text: "0.0", want: 0.0, kind: "float"},
		c26Val{text: "0.000001", want: 0.000001, kind: "float"},
		c26Val{text: "1000000000000000000000.0", want: 1e21, kind: "float"},
		c26Val{text: "null", want: nil, kind: "null"},
		c26Val{text: "true", want: true, kind: "bool"},
		c26Val{text: "false", want: false, kind: "bool"},
		c26Val{text: c26TS, want: c26TS, kind: "ts"},
		c26Val{text: `"` + c26TS + `"`, want: c26TS, kind: "ts"},
		c26Val{text: `'` + c26TS + `'`, want: c26TS, kind: "ts"},
		c26Val{text: "abc", want: "abc", kind: "bare"},
		c26Val{text: "a-b:c_1", want: "a-b:c_1", kind: "bare"},
		c26Val{text: "truex", want: "truex", kind: "bare"},
		c26Val{text: "nullx", want: "nullx", kind: "bare"},
		c26Val{text: "Row()", want: &Call{Name: "Row"}, kind: "call"},
		c26Val{text: "Row(g=1)", want: &Call{Name: "Row", Args: map[string]interface{}{"g": int64(1)}}, kind: "call"},
	)
	for _, s := range strs {
		v = append(v, c26Val{text: c26DQ(s, false), want: s, kind: "dq", style: 'd'})
		if strings.Contains(s, "\n") {
			v = append(v, c26Val{text: c26DQ(s, true), want: s, kind: "dqn", style: 'd'})
		}
		v = append(v, c26Val{text: c26SQ(s), want: s, kind: "sq", style: 's'})
	}
	_ = full
	return v
}

func c26Lists() []c26Val {
	L := func(text string, want ...interface{}) c26Val {
		return c26Val{text: text, want: want, kind: "list", list: true}
	}
	return []c26Val{
		L("[1]", int64(1)),
		L("[1,2]", int64(1), int64(2)),
		L("[ 1 , 2 , 3 ]", int64(1), int64(2), int64(3)),
		L("[-1,9223372036854775807]", int64(-1), int64(math.MaxInt64)),
		L(`["a",1]`, "a", int64(1)),
		L(`[a,b]`, "a", "b"),
		L(`['a',"b"]`, "a", "b"),
		L(`[1.5,2]`, 1.5, int64(2)),
		L(`[true,1]`, true, int64(1)),
		L(`[null,1]`, nil, int64(1)),
		L(`[1,true]`, int64(1), true),
		L(`[false]`, false),
		L(`[null]`, nil),
		L(`[Row()]`, &Call{Name: "Row"}),
		L(`[`+c26TS+`]`, c26TS),
	}
}

// ---------------------------------------------------------------------------------------------
// cases

type c26Case struct {
	text  string
	want  []*Call
	werr  bool
	ctx   string
	vkind string
	style byte
	fwd   bool // also decide the forwarding clause on the intended calls (once per AST, not per whitespace style)
}

func c26Call(name string, children []*Call, kv ...interface{}) *Call {
	c := &Call{Name: name, Children: children}
	if len(kv) > 0 {
		c.Args = map[string]interface{}{}
	}
	for i := 0; i+1 < len(kv); i += 2 {
		c.Args[kv[i].(string)] = kv[i+1]
	}
	return c
}

var c26Ops = []struct {
	text string
	tok  Token
}{{"><", BETWEEN}, {"<=", LTE}, {">=", GTE}, {"==", EQ}, {"!=", NEQ}, {"<", LT}, {">", GT}}

// c26Contexts places one written value into every syntactic position that accepts a value.
// w is the optional-whitespace string used at every `sp` position of the grammar.
var c26CoreCtx = map[string]bool{"arg": true, "arg-mid": true, "list-mid": true, "cond==": true, "child-first": true,
	"query-first": true, "Set-ts": true, "SetRowAttrs": true, "Range-positional1": true}

func c26Contexts(v c26Val, w string, core bool, emit func(*c26Case)) {
	cm := w + "," + w
	eq := w + "=" + w
	op := "(" + w
	x := v.want
	t := v.text
	e := func(ctx, text string, want ...*Call) {
		if core && !c26CoreCtx[ctx] {
			return
		}
		emit(&c26Case{text: text, want: want, werr: v.oor, ctx: ctx, vkind: v.kind, style: v.style, fwd: w == ""})
	}
	one := int64(1)
	two := int64(2)
	g1 := func() *Call { return c26Call("Row", nil, "g", one) }
	// generic call, argument positions
	e("arg", "Row"+op+"f"+eq+t+w+")", c26Call("Row", nil, "f", x))
	e("arg-first", "Row"+op+"f"+eq+t+cm+"z"+eq+"2"+w+")", c26Call("Row", nil, "f", x, "z", two))
	e("arg-last", "Row"+op+"a"+eq+"1"+cm+"f"+eq+t+w+")", c26Call("Row", nil, "a", one, "f", x))
	e("arg-mid", "Row"+op+"a"+eq+"1"+cm+"f"+eq+t+cm+"z"+eq+"2"+w+")", c26Call("Row", nil, "a", one, "f", x, "z", two))
	e("arg-trailing-comma", "Row"+op+"f"+eq+t+w+cm+")", c26Call("Row", nil, "f", x))
	e("arg-reserved-key", "Row"+op+"_row"+eq+t+cm+"from"+eq+t+w+")", c26Call("Row", nil, "_row", x, "from", x))
	// list positions
	if !v.list {
		lb, rb := "["+w, w+"]"+w
		e("list-only", "Row"+op+"f"+eq+lb+t+rb+")", c26Call("Row", nil, "f", []interface{}{x}))
		e("list-first", "Row"+op+"f"+eq+lb+t+cm+"1"+rb+")", c26Call("Row", nil, "f", []interface{}{x, one}))
		e("list-last", "Row"+op+"f"+eq+lb+"1"+cm+t+rb+")", c26Call("Row", nil, "f", []interface{}{one, x}))
		e("list-mid", "Row"+op+"f"+eq+lb+"1"+cm+t+cm+"2"+rb+cm+"z"+eq+"2"+w+")", c26Call("Row", nil, "f", []interface{}{one, x, two}, "z", two))
	}
	// conditions
	for _, o := range c26Ops {
		e("cond"+o.text, "Row"+op+"f"+w+o.text+w+t+w+")", c26Call("Row", nil, "f", &Condition{Op: o.tok, Value: x}))
	}
	e("cond-then-arg", "Row"+op+"f"+w+">"+w+t+cm+"z"+eq+"2"+w+")", c26Call("Row", nil, "f", &Condition{Op: GT, Value: x}, "z", two))
	// nested
	e("child-first", "Union"+op+"Row"+op+"f"+eq+t+w+")"+cm+"Row(g=1)"+w+")", c26Call("Union", []*Call{c26Call("Row", nil, "f", x), g1()}))
	e("child-last", "Union"+op+"Row(g=1)"+cm+"Row"+op+"f"+eq+t+w+")"+w+")", c26Call("Union", []*Call{g1(), c26Call("Row", nil, "f", x)}))
	e("child-then-arg", "Union"+op+"Row(g=1)"+cm+"f"+eq+t+w+")", c26Call("Union", []*Call{g1()}, "f", x))
	e("child-arg-after", "Union"+op+"Row"+op+"f"+eq+t+w+")"+cm+"g"+eq+"1"+w+")", c26Call("Union", []*Call{c26Call("Row", nil, "f", x)}, "g", one))
	e("depth3", "Count"+op+"Union"+op+"Row"+op+"f"+eq+t+w+")"+w+")"+w+")", c26Call("Count", []*Call{c26Call("Union", []*Call{c26Call("Row", nil, "f", x)})}))
	e("callarg", "GroupBy"+op+"Rows(a)"+cm+"filter"+eq+"Row"+op+"f"+eq+t+w+")"+w+")",
		c26Call("GroupBy", []*Call{c26Call("Rows", nil, "_field", "a")}, "filter", c26Call("Row", nil, "f", x)))
	// several calls in one query
	e("query-first", w+"Row"+op+"f"+eq+t+w+")"+w+"Row(g=1)"+w, c26Call("Row", nil, "f", x), g1())
	e("query-last", w+"Row(g=1)"+w+"Row"+op+"f"+eq+t+w+")"+w, g1(), c26Call("Row", nil, "f", x))
	e("query-twice", "Row"+op+"f"+eq+t+w+")"+"Row"+op+"f"+eq+t+w+")", c26Call("Row", nil, "f", x), c26Call("Row", nil, "f", x))
	// special forms
	e("Set", "Set"+op+"1"+cm+"f"+eq+t+w+")", c26Call("Set", nil, "_col", one, "f", x))
	e("Set-ts", "Set"+op+"1"+cm+"f"+eq+t+w+cm+c26TS+")"+w, c26Call("Set", nil, "_col", one, "f", x, "_timestamp", c26TS))
	e("Set-keycol", "Set"+op+"'k'"+cm+"f"+eq+t+w+")", c26Call("Set", nil, "_col", "k", "f", x))
	e("Set-2args", "Set"+op+"0"+cm+"f"+eq+t+cm+"g"+eq+"1"+w+")", c26Call("Set", nil, "_col", int64(0), "f", x, "g", one))
	e("SetRowAttrs", "SetRowAttrs"+op+"fld"+cm+"1"+cm+"f"+eq+t+w+")", c26Call("SetRowAttrs", nil, "_field", "fld", "_row", one, "f", x))
	e("SetRowAttrs-key", "SetRowAttrs"+op+"fld"+cm+`"k"`+cm+"f"+eq+t+w+")", c26Call("SetRowAttrs", nil, "_field", "fld", "_row", "k", "f", x))
	e("SetColumnAttrs", "SetColumnAttrs"+op+"1"+cm+"f"+eq+t+w+")", c26Call("SetColumnAttrs", nil, "_col", one, "f", x))
	e("Clear", "Clear"+op+"1"+cm+"f"+eq+t+w+")", c26Call("Clear", nil, "_col", one, "f", x))
	e("ClearRow", "ClearRow"+op+"f"+eq+t+")", c26Call("ClearRow", nil, "f", x))
	e("Store", "Store"+op+"Row(g=1)"+cm+"f"+eq+t+")", c26Call("Store", []*Call{g1()}, "f", x))
	e("TopN", "TopN"+op+"fld"+cm+"f"+eq+t+w+")", c26Call("TopN", nil, "_field", "fld", "f", x))
	e("TopN-child", "TopN"+op+"fld"+cm+"Row(g=1)"+cm+"f"+eq+t+w+")", c26Call("TopN", []*Call{g1()}, "_field", "fld", "f", x))
	e("Rows", "Rows"+op+"fld"+cm+"f"+eq+t+w+")", c26Call("Rows", nil, "_field", "fld", "f", x))
	for i, ts := range []string{c26TS, `"` + c26TS + `"`, `'` + c26TS + `'`} {
		e("Range-fromto"+strconv.Itoa(i), "Range"+op+"f"+eq+t+cm+"from="+ts+cm+"to="+w+ts+")", c26Call("Range", nil, "f", x, "from", c26TS, "to", c26TS))
		e("Range-positional"+strconv.Itoa(i), "Range"+op+"f"+eq+t+cm+ts+cm+ts+")", c26Call("Range", nil, "f", x, "from", c26TS, "to", c26TS))
	}
	// special names, generic shape (the special alternative fails and the generic one applies)
	for _, n := range []string{"Set", "Clear", "Store", "TopN", "Rows", "Range", "SetRowAttrs", "SetColumnAttrs", "Settle", "ClearRows", "Rowsx", "X9"} {
		e("generic-"+n, n+op+"f"+eq+t+w+")", c26Call(n, nil, "f", x))
	}
}

// positional column/row literals
func c26Positional(w string, strs []string, emit func(*c26Case)) {
	cm := w + "," + w
	op := "(" + w
	type pv struct {
		text  string
		want  interface{}
		oor   bool
		kind  string
		style byte
	}
	var vals []pv
	for _, u := range []int64{0, 1, 42, math.MaxInt64} {
		vals = append(vals, pv{text: strconv.FormatInt(u, 10), want: u, kind: "uint"})
	}
	vals = append(vals, pv{text: "9223372036854775808", oor: true, kind: "uint-oor"})
	for _, s := range strs {
		vals = append(vals, pv{text: c26DQ(s, false), want: s, kind: "pos-dq", style: 'd'})
		vals = append(vals, pv{text: c26SQ(s), want: s, kind: "pos-sq", style: 's'})
	}
	one := int64(1)
	for _, v := range vals {
		e := func(ctx, text string, want ...*Call) {
			emit(&c26Case{text: text, want: want, werr: v.oor, ctx: ctx, vkind: v.kind, style: v.style, fwd: w == ""})
		}
		e("Set-col", "Set"+op+v.text+cm+"f=1"+w+")", c26Call("Set", nil, "_col", v.want, "f", one))
		e("Set-col-ts", "Set"+op+v.text+cm+"f=1"+w+cm+c26TS+")", c26Call("Set", nil, "_col", v.want, "f", one, "_timestamp", c26TS))
		e("Clear-col", "Clear"+op+v.text+cm+"f=1"+w+")", c26Call("Clear", nil, "_col", v.want, "f", one))
		e("SetColumnAttrs-col", "SetColumnAttrs"+op+v.text+cm+"f=1"+w+")", c26Call("SetColumnAttrs", nil, "_col", v.want, "f", one))
		e("SetRowAttrs-row", "SetRowAttrs"+op+"fld"+cm+v.text+cm+"f=1"+w+")", c26Call("SetRowAttrs", nil, "_field", "fld", "_row", v.want, "f", one))
		e("Set-col-then-call", "Set"+op+v.text+cm+"f=1"+w+")"+w+"Row(g=1)", c26Call("Set", nil, "_col", v.want, "f", one), c26Call("Row", nil, "g", one))
	}
	// timestamps of Set in the three written forms
	for i, ts := range []string{c26TS, `"` + c26TS + `"`, `'` + c26TS + `'`} {
		emit(&c26Case{text: "Set" + op + "1" + cm + "f=1" + w + cm + ts + ")" + w, ctx: "Set-timestamp-form" + strconv.Itoa(i), vkind: "ts",
			want: []*Call{c26Call("Set", nil, "_col", one, "f", one, "_timestamp", c26TS)}})
	}
	// posfield-only forms
	for _, f := range []string{"f", "a-b_1", "Ab9", "from"} {
		emit(&c26Case{text: "TopN" + op + f + ")" + w, ctx: "TopN-posfield", vkind: "field", want: []*Call{c26Call("TopN", nil, "_field", f)}})
		emit(&c26Case{text: "Rows" + op + f + ")" + w, ctx: "Rows-posfield", vkind: "field", want: []*Call{c26Call("Rows", nil, "_field", f)}})
		emit(&c26Case{text: "TopN" + op + f + cm + "n=1" + w + ")", ctx: "TopN-posfield-arg", vkind: "field", want: []*Call{c26Call("TopN", nil, "_field", f, "n", one)}})
		emit(&c26Case{text: "Rows" + op + f + cm + "Row(g=1)" + w + ")", ctx: "Rows-posfield-child", vkind: "field",
			want: []*Call{c26Call("Rows", []*Call{c26Call("Row", nil, "g", one)}, "_field", f)}})
	}
}

// the `lo <[=] field <[=] hi` between form
func c26Conditionals(w string, emit func(*c26Case)) {
	ints := []string{"0", "1", "-1", "5", "9223372036854775807", "-9223372036854775808", "9223372036854775806", "-9223372036854775807",
		"9223372036854775808", "-9223372036854775809"}
	for _, lo := range ints {
		for _, hi := range ints {
			for _, l1 := range []string{"<", "<="} {
				for _, l2 := range []string{"<", "<="} {
					for _, fld := range []string{"f", "a-b_1"} {
						text := "Row(" + w + lo + w + l1 + w + fld + w + l2 + w + hi + w + ")"
						c := &c26Case{text: text, ctx: "conditional", vkind: "between", fwd: w == ""}
						a, errA := strconv.ParseInt(lo, 10, 64)
						b, errB := strconv.ParseInt(hi, 10, 64)
						switch {
						case errA != nil || errB != nil:
							// a bound that is no int64 cannot be held exactly: must be refused
							c.werr = true
							c.vkind = "between-oor"
						case (l1 == "<" && a == math.MaxInt64) || (l2 == "<" && b == math.MinInt64):
							// strictly above MaxInt64 / strictly below MinInt64: the range is empty. Any
							// faithful representation is an EMPTY inclusive range (lo > hi) or an error.
							c.vkind = "between-empty-at-limit"
							c.want = nil
						default:
							if l1 == "<" {
								a++
							}
							if l2 == "<" {
								b--
							}
							c.want = []*Call{c26Call("Row", nil, fld, &Condition{Op: BETWEEN, Value: []interface{}{a, b}})}
						}
						emit(c)
					}
				}
			}
		}
	}
	// conditional mixed with other arguments
	emit(&c26Case{text: "Row(" + w + "1" + w + "<" + w + "f" + w + "<=" + w + "5" + w + "," + w + "g=1" + w + ")", ctx: "conditional-then-arg", vkind: "between",
		want: []*Call{c26Call("Row", nil, "f", &Condition{Op: BETWEEN, Value: []interface{}{int64(2), int64(5)}}, "g", int64(1))}})
	emit(&c26Case{text: "Row(" + w + "g=1" + w + "," + w + "1" + w + "<=" + w + "f" + w + "<" + w + "5" + w + ")", ctx: "arg-then-conditional", vkind: "between",
		want: []*Call{c26Call("Row", nil, "f", &Condition{Op: BETWEEN, Value: []interface{}{int64(1), int64(4)}}, "g", int64(1))}})
	emit(&c26Case{text: "Count(Row(" + w + "-5" + w + "<" + w + "f" + w + "<" + w + "-1" + w + "))", ctx: "conditional-nested", vkind: "between",
		want: []*Call{c26Call("Count", []*Call{c26Call("Row", nil, "f", &Condition{Op: BETWEEN, Value: []interface{}{int64(-4), int64(-2)}})})}})
}

// ---------------------------------------------------------------------------------------------
// structural enumeration: every generic-call derivation up to a nesting depth with <= 3 arguments /
// children over a small terminal set.

type c26Arg struct {
	text string // with %K standing for the key
	val  func() interface{}
}

func c26ArgForms() []c26Arg {
	k := func(v interface{}) func() interface{} { return func() interface{} { return v } }
	a := []c26Arg{
		{"%K=1", k(int64(1))},
		{"%K=-1.5", k(-1.5)},
		{"%K=null", k(nil)},
		{"%K=true", k(true)},
		{"%K=\"é\"", k("é")},
		{"%K='q r'", k("q r")},
		{"%K=abc", k("abc")},
		{"%K=" + c26TS, k(c26TS)},
		{"%K=[1,2]", func() interface{} { return []interface{}{int64(1), int64(2)} }},
		{"%K=[\"a\",b]", func() interface{} { return []interface{}{"a", "b"} }},
		{"%K=Row(x=1)", func() interface{} { return c26Call("Row", nil, "x", int64(1)) }},
		{"%K >< [1,2]", func() interface{} { return &Condition{Op: BETWEEN, Value: []interface{}{int64(1), int64(2)}} }},
		{"%K != null", func() interface{} { return &Condition{Op: NEQ, Value: nil} }},
		{"%K == \"a\"", func() interface{} { return &Condition{Op: EQ, Value: "a"} }},
		{"%K<5", func() interface{} { return &Condition{Op: LT, Value: int64(5)} }},
		{"%K <= 5", func() interface{} { return &Condition{Op: LTE, Value: int64(5)} }},
		{"%K>=5", func() interface{} { return &Condition{Op: GTE, Value: int64(5)} }},
		{"%K > 1.5", func() interface{} { return &Condition{Op: GT, Value: 1.5} }},
		{"1 < %K <= 5", func() interface{} { return &Condition{Op: BETWEEN, Value: []interface{}{int64(2), int64(5)}} }},
		{"-1<=%K<0", func() interface{} { return &Condition{Op: BETWEEN, Value: []interface{}{int64(-1), int64(-1)}} }},
	}
	return a
}

var c26Keys = []string{"f", "a-b_1", "_row"}

type c26Tree struct {
	text string
	want *Call
}

// all argument lists of exactly n arguments (n <= len(c26Keys)) over forms[0:limit]
func c26ArgLists(n, limit int, forms []c26Arg, f func(text string, set func(c *Call))) {
	idx := make([]int, n)
	for {
		parts := make([]string, n)
		grammatical := true
		for i := 0; i < n; i++ {
			parts[i] = strings.Replace(forms[idx[i]].text, "%K", c26Keys[i], 1)
			// the between form `lo < field < hi` takes a fieldExpr only: reserved names (_row, ...) are not in the grammar there
			if !strings.HasPrefix(forms[idx[i]].text, "%K") && strings.HasPrefix(c26Keys[i], "_") {
				grammatical = false
			}
		}
		cp := append([]int(nil), idx...)
		if grammatical {
			f(strings.Join(parts, ", "), func(c *Call) {
				if c.Args == nil {
					c.Args = map[string]interface{}{}
				}
				for i := 0; i < n; i++ {
					c.Args[c26Keys[i]] = forms[cp[i]].val()
				}
			})
		}
		p := n - 1
		for p >= 0 {
			idx[p]++
			if idx[p] < limit {
				break
			}
			idx[p] = 0
			p--
		}
		if p < 0 {
			return
		}
	}
}

// ---------------------------------------------------------------------------------------------
// evaluation

type c26Totals struct {
	nParse, nFwd, nNonTrv int64
	mu                    sync.Mutex
	violCount             map[string]int64
}

// c26Run is the per-job (goroutine-local) evaluation context: distinct/outcome keys and violations
// are buffered locally and flushed once, so the workers do not serialise on the check's mutex.
type c26Run struct {
	c        *vx.Check
	tot      *c26Totals
	replay   string
	distinct map[uint64]struct{}
	outcomes map[uint64]struct{}
	viol     map[string]*c26Viol
}

type c26Viol struct {
	n         int64
	cs        map[string]string
	got, want string
	size      int
}

func c26NewRun(c *vx.Check, tot *c26Totals, replay string) *c26Run {
	return &c26Run{c: c, tot: tot, replay: replay, distinct: map[uint64]struct{}{}, outcomes: map[uint64]struct{}{}, viol: map[string]*c26Viol{}}
}

func c26Hash(s string) uint64 {
	h := uint64(14695981039346656037)
	for i := 0; i < len(s); i++ {
		h ^= uint64(s[i])
		h *= 1099511628211
	}
	return h
}

func (r *c26Run) violate(key string, cs map[string]string, got, want string) {
	size := 0
	for _, v := range cs {
		size += len(v)
	}
	if v, ok := r.viol[key]; ok {
		v.n++
		if size < v.size {
			v.cs, v.got, v.want, v.size = cs, got, want, size
		}
		return
	}
	r.viol[key] = &c26Viol{n: 1, cs: cs, got: got, want: want, size: size}
}

func (r *c26Run) flush() {
	for h := range r.distinct {
		r.c.Distinct(strconv.FormatUint(h, 16))
	}
	for h := range r.outcomes {
		r.c.Outcome(strconv.FormatUint(h, 16))
	}
	keys := make([]string, 0, len(r.viol))
	for k := range r.viol {
		keys = append(keys, k)
	}
	sort.Strings(keys)
	r.tot.mu.Lock()
	for _, k := range keys {
		r.tot.violCount[k] += r.viol[k].n
	}
	r.tot.mu.Unlock()
	for _, k := range keys {
		v := r.viol[k]
		r.c.Violate(k, v.cs, v.got, v.want)
	}
}

func c26Parse(text string) (calls []*Call, err error, pan string) {
	pan = vx.Guard(func() {
		var q *Query
		q, err = ParseString(text)
		if err == nil && q != nil {
			calls = q.Calls
		}
	})
	return
}

func c26Observe(calls []*Call, err error, pan string, loose bool) string {
	if pan != "" {
		return pan
	}
	if err != nil {
		return "ERROR"
	}
	return c26CanonCalls(calls, loose)
}

func c26ErrText(err error, pan string) string {
	if pan != "" {
		return pan
	}
	if err != nil {
		s := strings.Replace(err.Error(), "\n", " ", -1)
		if len(s) > 140 {
			s = s[:140]
		}
		return "ERROR(" + s + ")"
	}
	return ""
}

// emptyBetween: a faithful rendering of "strictly beyond an int64 limit" (see c26Conditionals).
func c26EmptyBetween(calls []*Call) bool {
	if len(calls) != 1 || len(calls[0].Args) != 1 {
		return false
	}
	for _, v := range calls[0].Args {
		c, ok := v.(*Condition)
		if !ok || c.Op != BETWEEN {
			return false
		}
		l, ok := c.Value.([]interface{})
		if !ok || len(l) != 2 {
			return false
		}
		a, ok1 := l[0].(int64)
		b, ok2 := l[1].(int64)
		return ok1 && ok2 && a > b
	}
	return false
}

func (r *c26Run) eval(cs *c26Case) {
	if r.replay != "" && cs.text != r.replay {
		return
	}
	c := r.c
	np := atomic.AddInt64(&r.tot.nParse, 1)
	c.AddEval(1)
	calls, err, pan := c26Parse(cs.text)
	got := c26Observe(calls, err, pan, false)
	r.outcomes[c26Hash(got)] = struct{}{}
	want := "ERROR"
	ok := false
	switch {
	case cs.werr:
		ok = got == "ERROR"
	case cs.vkind == "between-empty-at-limit":
		want = "ERROR or an empty inclusive range (lo > hi)"
		ok = got == "ERROR" || (pan == "" && err == nil && c26EmptyBetween(calls))
	default:
		want = c26CanonCalls(cs.want, false)
		ok = got == want
		r.distinct[c26Hash(want)] = struct{}{}
		atomic.AddInt64(&r.tot.nNonTrv, 1)
	}
	if np%997 == 1 {
		c.Sample(map[string]string{"clause": "parse", "ctx": cs.ctx, "text": cs.text, "want": want})
	}
	if !ok {
		if got == "ERROR" || pan != "" {
			got = c26ErrText(err, pan)
		}
		key := c26ClassifyParse(cs, calls, err, pan)
		r.violate(key, map[string]string{"clause": "parse", "ctx": cs.ctx, "text": cs.text}, got, want)
	}
	// forwarding clause on the intended calls
	if !cs.werr && cs.fwd {
		for _, w := range cs.want {
			r.forward(w, "parsed:"+cs.ctx)
		}
	}
}

// forward decides the forwarding clause for one call value.
func (r *c26Run) forward(call *Call, origin string) {
	c := r.c
	var text string
	if p := vx.Guard(func() { text = call.String() }); p != "" {
		r.violate("forward String() panics", map[string]string{"clause": "forward", "origin": origin, "call": c26CanonCall(call, false)}, p, "text")
		return
	}
	if r.replay != "" && text != r.replay {
		return
	}
	nf := atomic.AddInt64(&r.tot.nFwd, 1)
	c.AddEval(1)
	want := c26CanonCall(call, true)
	calls, err, pan := c26Parse(text)
	got := c26Observe(calls, err, pan, true)
	r.outcomes[c26Hash("fwd "+got)] = struct{}{}
	if nf%1499 == 1 {
		c.Sample(map[string]string{"clause": "forward", "origin": origin, "sent": text, "want": want})
	}
	if got == want {
		return
	}
	if got == "ERROR" || pan != "" {
		got = c26ErrText(err, pan)
	}
	key := c26ClassifyForward(call, text, calls, err, pan)
	r.violate(key, map[string]string{"clause": "forward", "origin": origin, "call": c26CanonCall(call, false), "sent": text}, got, want)
}

// ---------------------------------------------------------------------------------------------
// classification of mismatches into finding keys (one root cause -> one key)

const c26KeyRune = "parse rune-offset: captured text sliced from the byte string with rune offsets (non-ASCII input)"

// first differing leaf between intended and observed values
type c26Leaf struct {
	path       string
	want, got  interface{}
	lastInList bool
	missing    bool
}

func c26DiffValue(path string, w, g interface{}, last bool, out *[]c26Leaf) {
	switch wx := w.(type) {
	case []interface{}:
		gx, ok := g.([]interface{})
		if !ok || len(gx) != len(wx) {
			*out = append(*out, c26Leaf{path: path, want: w, got: g})
			return
		}
		for i := range wx {
			c26DiffValue(path+"["+strconv.Itoa(i)+"]", wx[i], gx[i], i == len(wx)-1, out)
		}
	case *Condition:
		gx, ok := g.(*Condition)
		if !ok || gx == nil || gx.Op != wx.Op {
			*out = append(*out, c26Leaf{path: path, want: w, got: g})
			return
		}
		c26DiffValue(path+".cond", wx.Value, gx.Value, false, out)
	case *Call:
		gx, ok := g.(*Call)
		if !ok || gx == nil {
			*out = append(*out, c26Leaf{path: path, want: w, got: g})
			return
		}
		c26DiffCall(path+".", wx, gx, out)
	default:
		if c26Canon(w, false) != c26Canon(g, false) {
			*out = append(*out, c26Leaf{path: path, want: w, got: g, lastInList: last})
		}
	}
}

func c26DiffCall(path string, w, g *Call, out *[]c26Leaf) {
	if w.Name != g.Name {
		*out = append(*out, c26Leaf{path: path + "name", want: w.Name, got: g.Name})
	}
	keys := map[string]bool{}
	for k := range w.Args {
		keys[k] = true
	}
	for k := range g.Args {
		keys[k] = true
	}
	ks := make([]string, 0, len(keys))
	for k := range keys {
		ks = append(ks, k)
	}
	sort.Strings(ks)
	for _, k := range ks {
		wv, wok := w.Args[k]
		gv, gok := g.Args[k]
		if !wok || !gok {
			*out = append(*out, c26Leaf{path: path + k, want: wv, got: gv, missing: true})
			continue
		}
		c26DiffValue(path+k, wv, gv, false, out)
	}
	if len(w.Children) != len(g.Children) {
		*out = append(*out, c26Leaf{path: path + "children", want: len(w.Children), got: len(g.Children), missing: true})
		return
	}
	for i := range w.Children {
		c26DiffCall(path+"child"+strconv.Itoa(i)+".", w.Children[i], g.Children[i], out)
	}
}

func c26DiffCalls(w, g []*Call) []c26Leaf {
	var out []c26Leaf
	if len(w) != len(g) {
		return []c26Leaf{{path: "calls", want: len(w), got: len(g), missing: true}}
	}
	for i := range w {
		c26DiffCall("", w[i], g[i], &out)
	}
	return out
}

func c26TypeName(v interface{}) string {
	switch v.(type) {
	case nil:
		return "nil"
	case *Call:
		return "call"
	case *Condition:
		return "cond"
	case []interface{}:
		return "list"
	}
	return fmt.Sprintf("%T", v)
}

func c26LastSeg(path string) string {
	if i := strings.LastIndex(path, "."); i >= 0 {
		path = path[i+1:]
	}
	if i := strings.Index(path, "["); i >= 0 {
		path = path[:i]
	}
	return path
}

func c26ClassifyParse(cs *c26Case, calls []*Call, err error, pan string) string {
	// 1. differential test for the rune/byte offset defect: the same case with every non-ASCII rune
	//    replaced by 'z' (in the text and in the intended string values) passes.
	if !c26IsASCII(cs.text) && !cs.werr && cs.want != nil {
		t2 := c26Asciify(cs.text)
		var w2 []*Call
		for _, w := range cs.want {
			w2 = append(w2, c26MapCall(w, c26Asciify))
		}
		c2, e2, p2 := c26Parse(t2)
		if c26Observe(c2, e2, p2, false) == c26CanonCalls(w2, false) {
			return c26KeyRune
		}
		// still failing without non-ASCII: classify the ASCII version (another root cause)
		cs = &c26Case{text: t2, want: w2, ctx: cs.ctx, vkind: cs.vkind, style: cs.style}
		calls, err, pan = c2, e2, p2
	}
	if cs.werr {
		if strings.HasPrefix(cs.vkind, "between") {
			return "parse conditional-bound outside int64 accepted (silently clamped)"
		}
		return "parse integer outside int64 accepted"
	}
	if cs.vkind == "between-empty-at-limit" {
		return "parse conditional strict bound at int64 limit wraps around"
	}
	if pan != "" {
		return "parse PANIC kind=" + cs.vkind
	}
	if err != nil {
		msg := err.Error()
		if strings.Contains(msg, "TypeAssertionError") || strings.Contains(msg, "interface conversion") {
			if strings.HasPrefix(cs.ctx, "cond") && cs.vkind == "list" {
				return "parse condition with a list holding a non-number: internal type assertion fails"
			}
			return "parse internal type assertion error kind=" + cs.vkind
		}
		return "parse grammatical query rejected kind=" + cs.vkind
	}
	leaves := c26DiffCalls(cs.want, calls)
	if len(leaves) == 0 {
		return "parse mismatch (call count or shape)"
	}
	l := leaves[0]
	ws, wIsStr := l.want.(string)
	gs, gIsStr := l.got.(string)
	seg := c26LastSeg(l.path)
	pos := strings.HasPrefix(cs.vkind, "pos-") && (seg == "_col" || seg == "_row")
	if !l.missing {
		switch {
		case wIsStr && gIsStr && seg == "_timestamp" && (gs == `"`+ws+`"` || gs == `'`+ws+`'`):
			return "parse Set timestamp written in quotes keeps the quote characters"
		case wIsStr && gIsStr && gs == "" && ws != "" && cs.style == 'd' && !pos:
			return "parse double-quoted literal becomes empty string (strconv.Unquote error ignored)"
		case wIsStr && gIsStr && pos && cs.style == 'd' && gs == c26DQ(ws, false)[1:len(c26DQ(ws, false))-1]:
			return "parse escape sequences kept verbatim: positional col/row literal, double-quoted"
		case wIsStr && gIsStr && pos && cs.style == 's' && gs == c26SQ(ws)[1:len(c26SQ(ws))-1]:
			return "parse escape sequences kept verbatim: positional col/row literal, single-quoted"
		case wIsStr && gIsStr && !pos && cs.style == 's' && gs == c26SQ(ws)[1:len(c26SQ(ws))-1]:
			return "parse escape sequences kept verbatim: single-quoted value"
		case gIsStr && l.lastInList && (l.want == nil && gs == "null" || l.want == true && gs == "true" || l.want == false && gs == "false"):
			return "parse keyword null/true/false as LAST list item becomes a string"
		}
	}
	return "parse value changed kind=" + cs.vkind + " want=" + c26TypeName(l.want) + " got=" + c26TypeName(l.got)
}

// values of a call in deterministic order
func c26Walk(v interface{}, f func(interface{})) {
	f(v)
	switch x := v.(type) {
	case []interface{}:
		for _, e := range x {
			c26Walk(e, f)
		}
	case *Condition:
		if x != nil {
			c26Walk(x.Value, f)
		}
	case *Call:
		if x == nil {
			return
		}
		keys := make([]string, 0, len(x.Args))
		for k := range x.Args {
			keys = append(keys, k)
		}
		sort.Strings(keys)
		for _, k := range keys {
			c26Walk(x.Args[k], f)
		}
		for _, ch := range x.Children {
			c26Walk(ch, f)
		}
	}
}

func c26FloatPrintsBadly(f float64) bool {
	s := fmt.Sprintf("%v", f)
	return !strings.Contains(s, ".") || strings.ContainsAny(s, "eEIN")
}

func c26ClassifyForward(call *Call, text string, calls []*Call, err error, pan string) string {
	// shared root cause with the parse clause: non-ASCII text
	if !c26IsASCII(text) {
		c2 := c26MapCall(call, c26Asciify)
		t2 := c2.String()
		p2c, p2e, p2p := c26Parse(t2)
		if c26Observe(p2c, p2e, p2p, true) == c26CanonCall(c2, true) {
			return c26KeyRune
		}
		call, text, calls, err, pan = c2, t2, p2c, p2e, p2p
	}
	// which printed value cannot come back? (deterministic order; the first offender names the key)
	var offenders []string
	c26Walk(call, func(v interface{}) {
		switch x := v.(type) {
		case nil:
			offenders = append(offenders, "nil")
		case float64:
			if c26FloatPrintsBadly(x) {
				offenders = append(offenders, "float")
			}
		case []int64:
			if len(x) != 1 {
				offenders = append(offenders, "[]int64")
			}
		case []uint64:
			if len(x) == 0 {
				offenders = append(offenders, "empty-list")
			}
		case []interface{}:
			if len(x) == 0 {
				offenders = append(offenders, "empty-list")
			} else if b, ok := x[len(x)-1].(bool); ok {
				_ = b
				offenders = append(offenders, "list-last-bool")
			}
		case uint64:
			if x > math.MaxInt64 {
				offenders = append(offenders, "uint64>MaxInt64")
			}
		}
	})
	name := func(o string) string {
		switch o {
		case "nil":
			return "forward nil printed as <nil> (not PQL)"
		case "float":
			return "forward float64 printed with %v (integral value loses its type, exponent form is not PQL)"
		case "[]int64":
			return "forward []int64 printed with %v ([1 2] is not PQL)"
		case "empty-list":
			return "forward empty list printed as [] (not PQL)"
		case "list-last-bool":
			return "parse keyword null/true/false as LAST list item becomes a string"
		case "uint64>MaxInt64":
			return "forward uint64 above MaxInt64 cannot be re-parsed"
		}
		return o
	}
	if pan != "" {
		return "forward re-parse PANIC"
	}
	if err != nil && strings.Contains(err.Error(), "TypeAssertionError") {
		condList := false
		c26Walk(call, func(v interface{}) {
			if cd, ok := v.(*Condition); ok && cd != nil {
				if l, ok := cd.Value.([]interface{}); ok {
					for _, e := range l {
						switch e.(type) {
						case int64, uint64, float64:
						default:
							condList = true
						}
					}
				}
			}
		})
		if condList {
			return "parse condition with a list holding a non-number: internal type assertion fails"
		}
	}
	if err == nil && len(calls) == 1 {
		// attribute by the first differing leaf
		var leaves []c26Leaf
		c26DiffLoose(call, calls[0], &leaves)
		if len(leaves) > 0 {
			l := leaves[0]
			switch w := l.want.(type) {
			case float64:
				if c26FloatPrintsBadly(w) {
					return name("float")
				}
			case bool:
				if l.lastInList {
					return name("list-last-bool")
				}
			case nil:
				if gs, ok := l.got.(string); ok && l.lastInList && gs == "null" {
					return name("list-last-bool")
				}
			}
			return "forward value changed sent=" + c26TypeName(l.want) + " reparsed=" + c26TypeName(l.got)
		}
		return "forward mismatch (no leaf)"
	}
	if len(offenders) > 0 {
		return name(offenders[0])
	}
	if err != nil {
		return "forward text rejected by the parser (no known unprintable value)"
	}
	return fmt.Sprintf("forward text parses to %d calls", len(calls))
}

// loose diff: like c26DiffCall but integer kinds / integer lists are normalised first.
func c26DiffLoose(w, g *Call, out *[]c26Leaf) {
	c26DiffCall("", c26Normalize(w).(*Call), c26Normalize(g).(*Call), out)
}

func c26Normalize(v interface{}) interface{} {
	switch x := v.(type) {
	case uint64:
		if x <= math.MaxInt64 {
			return int64(x)
		}
		return x
	case []int64:
		o := make([]interface{}, len(x))
		for i := range x {
			o[i] = x[i]
		}
		return o
	case []uint64:
		o := make([]interface{}, len(x))
		for i := range x {
			o[i] = c26Normalize(x[i])
		}
		return o
	case []interface{}:
		o := make([]interface{}, len(x))
		for i := range x {
			o[i] = c26Normalize(x[i])
		}
		return o
	case *Condition:
		return &Condition{Op: x.Op, Value: c26Normalize(x.Value)}
	case *Call:
		o := &Call{Name: x.Name}
		if x.Args != nil {
			o.Args = map[string]interface{}{}
			for k, a := range x.Args {
				o.Args[k] = c26Normalize(a)
			}
		}
		for _, ch := range x.Children {
			o.Children = append(o.Children, c26Normalize(ch).(*Call))
		}
		return o
	}
	return v
}

// ---------------------------------------------------------------------------------------------
// calls as the executor rewrites them before forwarding (executor.go: translateCall,
// translateGroupByCall, validateCallArgs, executeTopN refetch, executeRows/_field)

func c26ExecutorCalls(strs []string, emit func(*Call, string)) {
	ids := []uint64{0, 1, 99, math.MaxInt64}
	attrVals := []interface{}{nil, true, false, int64(0), int64(-1), int64(math.MaxInt64), int64(math.MinInt64),
		1.5, 0.5, -0.5, 1.0, 0.0, -2.0, 1e21, 1e-7, 123456789.25, math.MaxFloat64, math.SmallestNonzeroFloat64}
	var sv []interface{}
	for _, s := range strs {
		sv = append(sv, s)
	}
	sv = append(sv, "\x00", "\t", " ", "\x7f", "tab\tsep", "2010-01-02T03:04", "true", "null", "1", "-1.5", "Row()", "[1]", "a,b", "a=b", "\xff")
	all := append(append([]interface{}{}, attrVals...), sv...)
	for _, col := range ids {
		for _, row := range ids {
			emit(c26Call("Set", nil, "_col", col, "f", row), "exec:Set translated col+row")
			emit(c26Call("Set", nil, "_col", col, "f", row, "_timestamp", c26TS), "exec:Set translated col+row+ts")
			emit(c26Call("Clear", nil, "_col", col, "f", row), "exec:Clear translated")
			emit(c26Call("Rows", nil, "_field", "f", "previous", row, "column", col, "limit", int64(10)), "exec:Rows translated previous/column")
		}
		emit(c26Call("Row", nil, "f", col), "exec:Row translated row / bool row")
		emit(c26Call("Row", nil, "f", col, "from", c26TS, "to", c26TS), "exec:Row translated row + time range")
		emit(c26Call("ClearRow", nil, "f", col), "exec:ClearRow translated")
		emit(c26Call("Count", []*Call{c26Call("Intersect", []*Call{c26Call("Row", nil, "f", col), c26Call("Row", nil, "g", int64(3))})}), "exec:nested translated rows")
		for _, a := range all {
			emit(c26Call("SetRowAttrs", nil, "_field", "f", "_row", col, "x", a), "exec:SetRowAttrs forwarded to replicas")
			emit(c26Call("SetColumnAttrs", nil, "_col", col, "x", a), "exec:SetColumnAttrs forwarded to replicas")
		}
	}
	for _, a := range all {
		for _, b := range attrVals {
			emit(c26Call("SetRowAttrs", nil, "_field", "f", "_row", uint64(1), "x", a, "y", b), "exec:SetRowAttrs two attrs")
		}
		emit(c26Call("SetColumnAttrs", nil, "_col", uint64(1), "x", []interface{}{a}), "exec:attr list")
		for _, o := range c26Ops {
			emit(c26Call("Row", nil, "f", &Condition{Op: o.tok, Value: a}), "exec:Row condition")
		}
	}
	// id lists
	lists := [][]uint64{{0}, {1}, {0, 1}, {1, 2, 3}, {5, math.MaxInt64}, {3, 1, 2, 0}}
	for _, l := range lists {
		i64 := make([]int64, len(l))
		ifc := make([]interface{}, len(l))
		for i, v := range l {
			i64[i] = int64(v)
			ifc[i] = int64(v)
		}
		u64 := append([]uint64{}, l...)
		if len(l) > 0 {
			// as parsed (before validateCallArgs)
			emit(c26Call("TopN", nil, "_field", "f", "n", int64(2), "ids", ifc), "exec:TopN ids as parsed")
			// after executeTopN's refetch (Pairs.Keys())
			emit(c26Call("TopN", nil, "_field", "f", "n", int64(2), "ids", u64), "exec:TopN refetch ids []uint64")
			emit(c26Call("TopN", []*Call{c26Call("Row", nil, "g", uint64(1))}, "_field", "f", "ids", u64), "exec:TopN refetch ids []uint64 + child")
			pu := make([]interface{}, len(l))
			for i, v := range l {
				pu[i] = v
			}
			ch := make([]*Call, len(l))
			for i := range ch {
				ch[i] = c26Call("Rows", nil, "_field", "f"+strconv.Itoa(i))
			}
			emit(c26Call("GroupBy", ch, "previous", pu, "limit", int64(5)), "exec:GroupBy previous translated to uint64")
			emit(c26Call("GroupBy", ch, "previous", pu, "filter", c26Call("Row", nil, "g", uint64(7))), "exec:GroupBy previous + filter")
			emit(c26Call("Options", []*Call{c26Call("Row", nil, "f", uint64(1))}, "shards", ifc, "columnAttrs", true, "excludeColumns", false), "exec:Options")
		}
		// after validateCallArgs
		emit(c26Call("TopN", nil, "_field", "f", "n", int64(2), "ids", i64), "exec:TopN ids after validateCallArgs []int64")
		emit(c26Call("TopN", []*Call{c26Call("Row", nil, "g", uint64(1))}, "_field", "f", "ids", i64), "exec:TopN ids []int64 + child")
	}
	// backwards-compatible "field" copied into "_field"
	emit(c26Call("Rows", nil, "field", "f", "_field", "f"), "exec:Rows field copied to _field")
	emit(c26Call("GroupBy", []*Call{c26Call("Rows", nil, "field", "f", "_field", "f"), c26Call("Rows", nil, "_field", "g", "limit", int64(1))}), "exec:GroupBy child field copied")
}

// ---------------------------------------------------------------------------------------------

func TestVerif_C26(t *testing.T) {
	c := vx.NewCheck("C26", "exploration",
		"every derivation of the PQL grammar inside the bounds (value forms x syntactic positions x whitespace styles, all call shapes up to the nesting depth, all quoted strings over the symbol set) is parsed by the real parser and compared with the generator's AST (values and Go types); every intended call and every executor-rewritten call is printed with Call.String and re-parsed; distinct = distinct intended query ASTs")
	tot := &c26Totals{violCount: map[string]int64{}}
	replay := ""
	if rf := os.Getenv("VERIF_REPLAY"); rf != "" {
		b, err := os.ReadFile(rf)
		if err != nil {
			fmt.Println("HARNESS-ERROR cannot read replay file:", err)
			t.FailNow()
		}
		var rp struct {
			Case map[string]string `json:"case"`
		}
		json.Unmarshal(b, &rp)
		replay = rp.Case["text"]
		if rp.Case["clause"] == "forward" {
			replay = rp.Case["sent"]
		}
		fmt.Printf("INFO replaying only text %q\n", replay)
	}
	strLen := c.Pick(2, 3)
	posLen := c.Pick(2, 3)
	debug.SetGCPercent(1000) // throughput only: every ParseString allocates a 32767-entry token array
	depth := c.Pick(2, 3)
	strs := c26Strings(strLen)
	c.Bound("string_symbols", c26Syms)
	c.Bound("string_max_symbols_value_position", strLen)
	c.Bound("string_max_symbols_col_row_position", posLen)
	c.Bound("nesting_depth_structural", depth)
	c.Bound("max_args_per_call", 3)
	wss := []string{"", " ", " \n\t"}
	c.Bound("whitespace_styles", wss)

	var jobs []func(r *c26Run)
	// (A) value forms x contexts x whitespace
	items := c26Items(strs, c.Thorough())
	lists := c26Lists()
	c.Bound("value_forms_all_positions", len(items)+len(lists))
	// one symbol longer, in the core positions only
	var longer []c26Val
	for _, v := range c26Items(c26Strings(strLen+1), false) {
		if v.style != 0 && utf8.RuneCountInString(v.want.(string)) == strLen+1 {
			longer = append(longer, v)
		}
	}
	c.Bound("string_max_symbols_core_positions", strLen+1)
	c.Bound("value_forms_core_positions_only", len(longer))
	chunk := 32
	for _, w := range wss {
		w := w
		for lo := 0; lo < len(items); lo += chunk {
			lo := lo
			hi := lo + chunk
			if hi > len(items) {
				hi = len(items)
			}
			jobs = append(jobs, func(r *c26Run) {
				for _, v := range items[lo:hi] {
					if c.Expired() {
						return
					}
					c26Contexts(v, w, false, r.eval)
				}
			})
		}
		jobs = append(jobs, func(r *c26Run) {
			for _, v := range lists {
				c26Contexts(v, w, false, r.eval)
			}
		})
		jobs = append(jobs, func(r *c26Run) { c26Positional(w, c26Strings(posLen), r.eval) })
		jobs = append(jobs, func(r *c26Run) { c26Conditionals(w, r.eval) })
	}
	for lo := 0; lo < len(longer); lo += 4 * chunk {
		lo := lo
		hi := lo + 4*chunk
		if hi > len(longer) {
			hi = len(longer)
		}
		jobs = append(jobs, func(r *c26Run) {
			for _, v := range longer[lo:hi] {
				if c.Expired() {
					return
				}
				c26Contexts(v, "", true, r.eval)
			}
		})
	}
	// (B) structural enumeration
	forms := c26ArgForms()
	c.Bound("structural_arg_forms", len(forms))
	names := []string{"Row", "Settle"}
	// depth-1 trees kept for use as children (<= 1 argument)
	var d1 []c26Tree
	d1 = append(d1, c26Tree{"Row()", c26Call("Row", nil)})
	for n := 0; n <= 3; n++ {
		n := n
		limit := len(forms)
		if n == 3 {
			limit = c.Pick(8, len(forms))
		}
		for _, name := range names {
			name := name
			if n == 0 {
				jobs = append(jobs, func(r *c26Run) {
					for _, body := range []string{"", " ", "\n"} {
						r.eval(&c26Case{text: name + "(" + body + ")", want: []*Call{c26Call(name, nil)}, ctx: "struct-d1-0args", vkind: "struct", fwd: true})
					}
				})
				continue
			}
			jobs = append(jobs, func(r *c26Run) {
				c26ArgLists(n, limit, forms, func(text string, set func(*Call)) {
					if c.Expired() {
						return
					}
					w := c26Call(name, nil)
					set(w)
					r.eval(&c26Case{text: name + "(" + text + ")", want: []*Call{w}, ctx: "struct-d1-" + strconv.Itoa(n) + "args", vkind: "struct", fwd: true})
					if n <= 2 {
						w2 := c26Call(name, nil)
						set(w2)
						r.eval(&c26Case{text: name + "(" + text + " , )", want: []*Call{w2}, ctx: "struct-d1-" + strconv.Itoa(n) + "args-trailing-comma", vkind: "struct", fwd: true})
					}
				})
			})
		}
	}
	for i := range forms {
		d1 = append(d1, c26Tree{text: "Row(" + strings.Replace(forms[i].text, "%K", "f", 1) + ")"})
	}
	mk1 := func(i int) *Call { // fresh intended call for d1[i]
		if i == 0 {
			return c26Call("Row", nil)
		}
		return c26Call("Row", nil, "f", forms[i-1].val())
	}
	// depth 2: 1..3 children from d1, plus 0..1 argument
	d2eval := func(r *c26Run, outer string, kids []int, arg int, ctxp string, wrap int) {
		parts := make([]string, 0, 4)
		ch := make([]*Call, 0, 3)
		for _, k := range kids {
			parts = append(parts, d1[k].text)
			ch = append(ch, mk1(k))
		}
		w := c26Call(outer, ch)
		if arg >= 0 {
			parts = append(parts, strings.Replace(forms[arg].text, "%K", "a-b_1", 1))
			w.Args = map[string]interface{}{"a-b_1": forms[arg].val()}
		}
		text := outer + "(" + strings.Join(parts, ", ") + ")"
		for d := 0; d < wrap; d++ {
			text = "Count(" + text + ")"
			w = c26Call("Count", []*Call{w})
		}
		r.eval(&c26Case{text: text, want: []*Call{w}, ctx: ctxp, vkind: "struct", fwd: true})
	}
	nd1 := len(d1)
	for k0 := 0; k0 < nd1; k0++ {
		k0 := k0
		jobs = append(jobs, func(r *c26Run) {
			for arg := -1; arg < len(forms); arg++ {
				d2eval(r, "Union", []int{k0}, arg, "struct-d2-1child", 0)
				if depth >= 3 {
					d2eval(r, "Union", []int{k0}, arg, "struct-d3-1child", 1)
				}
				for k1 := 0; k1 < nd1; k1++ {
					if c.Expired() {
						return
					}
					d2eval(r, "Union", []int{k0, k1}, arg, "struct-d2-2children", 0)
					if depth >= 3 && (arg < 0 || arg%5 == 0) {
						d2eval(r, "Union", []int{k0, k1}, arg, "struct-d3-2children", 1)
					}
				}
			}
			// three children, no argument / one fixed argument
			lim3 := nd1
			if !c.Thorough() {
				lim3 = 8
			}
			if k0 < lim3 {
				for k1 := 0; k1 < lim3; k1++ {
					for k2 := 0; k2 < lim3; k2++ {
						d2eval(r, "Union", []int{k0, k1, k2}, -1, "struct-d2-3children", 0)
						d2eval(r, "Union", []int{k0, k1, k2}, 0, "struct-d2-3children-arg", 0)
					}
				}
			}
		})
	}
	// (C) executor-rewritten calls (forward clause only)
	jobs = append(jobs, func(r *c26Run) {
		c26ExecutorCalls(c26Strings(c.Pick(2, 3)), func(call *Call, origin string) { r.forward(call, origin) })
	})

	vx.ParallelFor(len(jobs), func(i int) {
		r := c26NewRun(c, tot, replay)
		jobs[i](r)
		r.flush()
	})

	c.Extra("parse_cases", tot.nParse)
	c.Extra("forward_cases", tot.nFwd)
	c.Extra("violating_cases_per_key", tot.violCount)
	c.AddValidated(tot.nParse + tot.nFwd)
	c.Assume("forward clause compares integer kinds modulo the receiver's own normalisation (validateCallArgs; UintArg/IntArg/UintSliceArg accept int64 and uint64): uint64(n)==int64(n) for n<=MaxInt64 and []int64/[]uint64/[]interface{}-of-integers are one list type; everything else is type-strict")
	c.Assume("empty lists, time.Time, NaN/Inf and uint64 above MaxInt64 are not enumerated: the executor never places them in a forwarded call (the grammar has no empty list and TopN refetches only non-empty id sets; time.Time has a formatValue case but no producer)")
	c.Assume("string literals are written with the escapes the grammar defines (\\\" \\\\ in double quotes, \\' \\\\ in single quotes) plus \\n in double quotes (pinned by pql/parser_test.go); other backslash sequences are not generated because the documentation does not define them")
	c.Assume("integers outside int64 must be refused (an error is the required outcome); a strict conditional bound at an int64 limit may be refused or rendered as an empty range")
	if !utf8.ValidString(strings.Join(c26Syms, "")) {
		t.Fatal("symbol set must be valid UTF-8")
	}
	if c.Finish() != 0 {
		t.Fail()
	}
}
