package roaring

// C04 — Bitmap encodings round-trip and imports equal decode-then-merge.
// This file: set model, container shapes, the independent reference ENCODER for the official Roaring
// format (written from the format specification, not from pilosa's reader), and builders.

import (
	"bytes"
	"encoding/binary"
	"fmt"
	"sort"
	"strings"
	"sync"

	"github.com/pilosa/pilosa/internal/vx"
)

type c04Set []uint64 // sorted ascending

func c04Union(a, b c04Set) c04Set {
	out := make(c04Set, 0, len(a)+len(b))
	i, j := 0, 0
	for i < len(a) && j < len(b) {
		switch {
		case a[i] < b[j]:
			out = append(out, a[i])
			i++
		case a[i] > b[j]:
			out = append(out, b[j])
			j++
		default:
			out = append(out, a[i])
			i++
			j++
		}
	}
	out = append(out, a[i:]...)
	return append(out, b[j:]...)
}

func c04Diff(a, b c04Set) c04Set {
	out := c04Set{}
	j := 0
	for _, v := range a {
		for j < len(b) && b[j] < v {
			j++
		}
		if j >= len(b) || b[j] != v {
			out = append(out, v)
		}
	}
	return out
}

func c04Eq(g []uint64, x c04Set) bool {
	if len(g) != len(x) {
		return false
	}
	for i := range g {
		if g[i] != x[i] {
			return false
		}
	}
	return true
}

func c04Fmt(a []uint64) string {
	var sb strings.Builder
	fmt.Fprintf(&sb, "n=%d[", len(a))
	for i, v := range a {
		if i >= 12 {
			sb.WriteString("…")
			break
		}
		if i > 0 {
			sb.WriteByte(',')
		}
		fmt.Fprintf(&sb, "%d", v)
	}
	sb.WriteByte(']')
	return sb.String()
}

// c04Shape: contents of one container.
type c04Shape struct {
	name string
	vals []uint16 // strictly ascending

	once [2]sync.Once
	body [2][]byte // cached official container bodies: [0] array-or-bitset, [1] run
}

// officialBody returns the container's bytes in the official format (see c04EncodeOfficial).
func (s *c04Shape) officialBody(run bool) []byte {
	i := 0
	if run {
		i = 1
	}
	s.once[i].Do(func() {
		le := binary.LittleEndian
		var out []byte
		switch {
		case run:
			rs := s.runs()
			out = le.AppendUint16(out, uint16(len(rs)))
			for _, r := range rs {
				out = le.AppendUint16(out, r[0])
				out = le.AppendUint16(out, r[1]-r[0])
			}
		case len(s.vals) <= 4096:
			for _, v := range s.vals {
				out = le.AppendUint16(out, v)
			}
		default:
			for _, x := range s.words() {
				out = le.AppendUint64(out, x)
			}
		}
		s.body[i] = out
	})
	return s.body[i]
}

func (s *c04Shape) runs() [][2]uint16 { // (start, last)
	var r [][2]uint16
	for _, v := range s.vals {
		if n := len(r); n > 0 && uint32(r[n-1][1])+1 == uint32(v) {
			r[n-1][1] = v
		} else {
			r = append(r, [2]uint16{v, v})
		}
	}
	return r
}

func (s *c04Shape) words() []uint64 {
	w := make([]uint64, 1024)
	for _, v := range s.vals {
		w[v/64] |= 1 << (v % 64)
	}
	return w
}

func c04Seq(name string, n int, f func(i int) int) *c04Shape {
	v := make([]uint16, n)
	for i := range v {
		v[i] = uint16(f(i))
	}
	return &c04Shape{name: name, vals: v}
}

func c04Masks(U []uint16) []*c04Shape {
	out := make([]*c04Shape, 0, 1<<uint(len(U)))
	for m := 0; m < 1<<uint(len(U)); m++ {
		var v []uint16
		for i, u := range U {
			if m&(1<<uint(i)) != 0 {
				v = append(v, u)
			}
		}
		out = append(out, &c04Shape{name: fmt.Sprint(v), vals: v})
	}
	return out
}

func c04Families() []*c04Shape {
	out := []*c04Shape{
		c04Seq("full", 65536, func(i int) int { return i }),
		c04Seq("full-minus-0", 65535, func(i int) int { return i + 1 }),
		c04Seq("full-minus-65535", 65535, func(i int) int { return i }),
		c04Seq("odd-N32768", 32768, func(i int) int { return 2*i + 1 }),
		c04Seq("blockEnd-N4096", 4096, func(i int) int { return 61440 + i }),
	}
	for _, n := range []int{4095, 4096, 4097} {
		n := n
		out = append(out, c04Seq(fmt.Sprintf("stride2-N%d", n), n, func(i int) int { return 2 * i }),
			c04Seq(fmt.Sprintf("stride15-N%d", n), n, func(i int) int { return 15 * i }),
			c04Seq(fmt.Sprintf("block0-N%d", n), n, func(i int) int { return i }))
	}
	for _, r := range []int{2047, 2048, 2049} {
		out = append(out, c04Seq(fmt.Sprintf("pairs-runs%d", r), 2*r, func(i int) int { return 4*(i/2) + i%2 }))
	}
	return out
}

// c04Cont: one container of a bitmap: key + shape (+ encoding to force in pilosa's own containers).
type c04Cont struct {
	key uint64
	sh  *c04Shape
	enc int // 0 array, 1 bitmap, 2 run (only for building real containers)
}

var c04EncName = [3]string{"array", "bitmap", "run"}

func c04Want(cs []c04Cont) c04Set {
	var out c04Set
	for _, c := range cs {
		for _, v := range c.sh.vals {
			out = append(out, c.key<<16|uint64(v))
		}
	}
	return out
}

func c04Desc(cs []c04Cont) string {
	var p []string
	for i, c := range cs {
		if i >= 8 {
			p = append(p, fmt.Sprintf("…(%d containers)", len(cs)))
			break
		}
		p = append(p, fmt.Sprintf("k%d:%s%s", c.key, c04EncName[c.enc], c.sh.name))
	}
	return strings.Join(p, " ")
}

func c04ByName(l []*c04Shape, name string) *c04Shape {
	for _, s := range l {
		if s.name == name {
			return s
		}
	}
	panic("c04: no shape " + name)
}

func c04Container(c c04Cont) *Container {
	switch c.enc {
	case 0:
		return NewContainerArray(append(make([]uint16, 0, len(c.sh.vals)), c.sh.vals...))
	case 1:
		return NewContainerBitmapN(c.sh.words(), int32(len(c.sh.vals)))
	default:
		var r []interval16
		for _, x := range c.sh.runs() {
			r = append(r, interval16{start: x[0], last: x[1]})
		}
		return NewContainerRun(r)
	}
}

func c04NewKind(kind int) *Bitmap {
	if kind == 1 {
		return NewBTreeBitmap()
	}
	return NewBitmap()
}

var c04KindName = [2]string{"slice", "btree"}

func c04Build(kind int, cs []c04Cont) *Bitmap {
	b := c04NewKind(kind)
	for _, c := range cs {
		b.Containers.Put(c.key, c04Container(c))
	}
	return b
}

// ---------------------------------------------------------------------------------------------
// Reference encoder for the official Roaring format, from the specification
// (github.com/RoaringBitmap/RoaringFormatSpec):
//
//	cookie: SERIAL_COOKIE_NO_RUNCONTAINER=12346 (uint32) followed by the container count (uint32); or,
//	        when run containers are present, SERIAL_COOKIE=12347 in the low 16 bits and count-1 in the
//	        high 16 bits of one uint32, followed by a bitset of ceil(count/8) bytes marking run containers;
//	descriptive header: per container key (uint16) and cardinality-1 (uint16);
//	offset header: per container the byte offset of its data from the start of the stream (uint32) —
//	        present with the no-run cookie always, with the run cookie iff count >= NO_OFFSET_THRESHOLD=4;
//	containers: run = number of runs (uint16) then (start, length-1) uint16 pairs; otherwise an array of
//	        sorted uint16 when cardinality <= 4096, else a bitset of 1024 uint64. All little endian.
//
// run[i] says whether container i is stored as a run container.
func c04EncodeOfficial(cs []c04Cont, run []bool) []byte {
	n := len(cs)
	anyRun := false
	for _, r := range run {
		anyRun = anyRun || r
	}
	var hdr bytes.Buffer
	le := binary.LittleEndian
	u16 := func(w *bytes.Buffer, v uint16) { var b [2]byte; le.PutUint16(b[:], v); w.Write(b[:]) }
	u32 := func(w *bytes.Buffer, v uint32) { var b [4]byte; le.PutUint32(b[:], v); w.Write(b[:]) }
	if anyRun {
		u32(&hdr, 12347|uint32(n-1)<<16)
		bs := make([]byte, (n+7)/8)
		for i, r := range run {
			if r {
				bs[i/8] |= 1 << uint(i%8)
			}
		}
		hdr.Write(bs)
	} else {
		u32(&hdr, 12346)
		u32(&hdr, uint32(n))
	}
	for _, c := range cs {
		if c.key > 0xFFFF || len(c.sh.vals) == 0 {
			panic("c04: not representable in the official format")
		}
		u16(&hdr, uint16(c.key))
		u16(&hdr, uint16(len(c.sh.vals)-1))
	}
	bodies := make([][]byte, n)
	for i, c := range cs {
		bodies[i] = c.sh.officialBody(anyRun && run[i])
	}
	if !anyRun || n >= 4 {
		off := hdr.Len() + 4*n
		for i := range cs {
			u32(&hdr, uint32(off))
			off += len(bodies[i])
		}
	}
	for _, b := range bodies {
		hdr.Write(b)
	}
	return hdr.Bytes()
}

// c04EncodePilosa uses the REAL encoder (it is one half of the round trip under test).
func c04EncodePilosa(b *Bitmap, optimize bool) (data []byte, err error) {
	var buf bytes.Buffer
	if p := vx.Guard(func() {
		if optimize {
			_, err = b.WriteTo(&buf)
		} else {
			_, err = b.writeToUnoptimized(&buf)
		}
	}); p != "" {
		return nil, fmt.Errorf("%s", p)
	}
	return buf.Bytes(), err
}

func c04SortedKeys(m map[uint64]int) string {
	ks := make([]uint64, 0, len(m))
	for k, v := range m {
		if v != 0 {
			ks = append(ks, k)
		}
	}
	sort.Slice(ks, func(i, j int) bool { return ks[i] < ks[j] })
	var sb strings.Builder
	for _, k := range ks {
		fmt.Fprintf(&sb, "%d:%+d ", k, m[k])
	}
	return sb.String()
}
