package roaring

// C01 — multi-container bitmaps at keys {0,1,2,2^48-1} and the test entry point.

import (
	"fmt"
	"os"
	"runtime/debug"
	"strings"
	"testing"
	"time"

	"github.com/pilosa/pilosa/internal/vx"
)

type c01Opt struct {
	name    string
	sh      *c01Shape // nil: no container at the key
	enc     int
	nilLeft bool
}

func c01Opts(thorough bool) []c01Opt {
	full := c01MakeShape("full", c01Seq(65536, func(i int) int { return i }))
	o := []c01Opt{
		{name: "absent"},
		{name: "a{0}", sh: c01MakeShape("{0}", []uint16{0}), enc: c01EncArray},
		{name: "r{65535}", sh: c01MakeShape("{65535}", []uint16{65535}), enc: c01EncRun},
		{name: "b{0,65535}", sh: c01MakeShape("{0,65535}", []uint16{0, 65535}), enc: c01EncBitmap},
		{name: "r[65000..65535]", sh: c01MakeShape("[65000..65535]", c01Seq(536, func(i int) int { return 65000 + i })), enc: c01EncRun},
		{name: "a{}", sh: c01MakeShape("{}", nil), enc: c01EncArray},
		{name: "added-then-removed", nilLeft: true},
	}
	if thorough {
		o = append(o,
			c01Opt{name: "rfull", sh: full, enc: c01EncRun},
		)
	}
	return o
}

func c01MultiItems(keys []uint64, opts []c01Opt, choice []int) []c01Item {
	var items []c01Item
	for i, k := range keys {
		o := opts[choice[i]]
		if o.nilLeft {
			items = append(items, c01Item{key: k, nilLeft: true})
		} else if o.sh != nil {
			items = append(items, c01Item{key: k, sh: o.sh, enc: o.enc})
		}
	}
	return items
}

func c01Decode(x, base, n int) []int {
	out := make([]int, n)
	for i := n - 1; i >= 0; i-- {
		out[i] = x % base
		x /= base
	}
	return out
}

// c01MinimizeMulti drops containers while the single read still fails; returns the reduced items.
func c01MinimizeMulti(w *c01W, kind, prov int, items []c01Item, rd c01Read) []c01Item {
	failsOn := func(it []c01Item) bool {
		bad := false
		p := vx.Guard(func() {
			if b := c01Build(kind, it, prov); b != nil {
				how, _, _ := rd.f(w, b, c01ItemsWant(it))
				bad = how != ""
			}
		})
		return bad || p != ""
	}
	for changed := true; changed; {
		changed = false
		for i := range items {
			q := append(append([]c01Item(nil), items[:i]...), items[i+1:]...)
			if failsOn(q) {
				items, changed = q, true
				break
			}
		}
	}
	return items
}

// c01MultiKeyDesc abstracts the reduced case for the finding key: per container only whether its slot
// in the (slice) collection holds nil, an empty (N=0) container or a non-empty one; adjacency of
// neighbouring keys is kept for Shift only (the carry crosses to the next key).
func c01MultiKeyDesc(kind, prov int, items []c01Item, op string) (desc string, nilSlot bool) {
	b := c01Build(kind, items, prov)
	var p []string
	for i, it := range items {
		if i > 0 && op == "Shift" {
			if it.key == items[i-1].key+1 {
				p = append(p, "next-key:")
			} else {
				p = append(p, "later-key:")
			}
		}
		isNil := false
		if b != nil {
			if sc, ok := b.Containers.(*sliceContainers); ok {
				if j := search64(sc.keys, it.key); j >= 0 && sc.containers[j] == nil {
					isNil = true
				}
			}
		}
		switch {
		case isNil:
			p = append(p, "nil-slot")
			nilSlot = true
		case it.nilLeft:
			p = append(p, "added-then-removed")
		case len(it.sh.vals) == 0:
			p = append(p, "empty-container")
		default:
			p = append(p, "nonempty")
		}
	}
	return "[" + strings.Join(p, " ") + "]", nilSlot
}

func c01MultiReads(c *vx.Check, keys []uint64, opts []c01Opt) {
	pts := c01Points(keys, []uint16{0, 1, 65535})
	var offs [][3]uint64
	bounds := []uint64{0, 1 << 16, 2 << 16, 3 << 16, c01TopKey << 16}
	for i, s := range bounds {
		for _, e := range bounds[i:] {
			offs = append(offs, [3]uint64{7 << 16, s, e})
			if i == 0 {
				offs = append(offs, [3]uint64{0, s, e})
			}
		}
	}
	flips := [][2]uint64{{0, 0}, {65535, 65536}, {65534, 65537}, {65536, 65536}, {131071, 131072}, {196607, 196609},
		{c01TopKey<<16 - 2, c01TopKey<<16 + 1}, {c01Max - 3, c01Max - 1}}
	reads := c01Reads(pts, offs, nil)
	var flipReads []c01Read
	for _, r := range c01Reads(nil, nil, flips) {
		if r.name == "Flip" {
			flipReads = append(flipReads, r)
		}
	}
	readByName := map[string]c01Read{}
	for _, r := range reads {
		readByName[r.name] = r
	}
	total := 1
	for range keys {
		total *= len(opts)
	}
	vx.ParallelFor(total, func(x int) {
		if c.Expired() {
			return
		}
		w := &c01W{c: c}
		items := c01MultiItems(keys, opts, c01Decode(x, len(opts), len(keys)))
		want := c01ItemsWant(items)
		base := map[string]bool{}
		for kind := 0; kind < 2; kind++ {
			for prov := 0; prov < 4; prov++ {
				// reads that freeze/unmap the source (Shift, OffsetRange) are last in the battery
				b := c01Build(kind, items, prov)
				if b == nil {
					continue
				}
				fails := c01RunReads(w, b, want, reads)
				if kind == 0 && (prov == c01ProvFresh || prov == c01ProvMapped) {
					fails = append(fails, c01RunReads(w, c01Build(kind, items, prov), want, flipReads)...)
				}
				variant := c01Variant(kind, prov, 0)
				for _, f := range fails {
					// reduce to the containers that matter, re-running just this read
					min := items
					if f.op != "Flip" {
						min = c01MinimizeMulti(w, kind, prov, items, readByName[f.op])
					}
					sig := f.op + " how=" + f.how
					desc, nilSlot := c01MultiKeyDesc(kind, prov, min, f.op)
					key := "multi " + sig + " containers=" + desc
					if variant == "" {
						base[sig] = true
					} else if !base[sig] && !nilSlot {
						key += " " + variant
					}
					c.Violate(key, c01Case{Part: "multi-reads", Op: f.op, A: c01ItemsDesc(items), Variant: variant}, f.got, f.exp)
				}
			}
		}
		if len(want) > 0 {
			c.Distinct("multi|" + c01ItemsDesc(items))
		}
		w.outcome(fmt.Sprintf("multi n=%d c=%d", len(want), len(items)))
		if x%509 == 0 {
			c.Sample("multi reads: " + c01ItemsDesc(items) + " × 2 kinds × 4 provenances")
		}
		w.flush()
	})
}

// c01MultiBins: set operations on pairs of multi-container bitmaps (operands rebuilt for every op).
func c01MultiBins(c *vx.Check, keys []uint64, opts []c01Opt) {
	bins := c01Bins()
	total := 1
	for range keys {
		total *= len(opts)
	}
	vx.ParallelFor(total, func(x int) {
		w := &c01W{c: c}
		itemsA := c01MultiItems(keys, opts, c01Decode(x, len(opts), len(keys)))
		wa := c01ItemsWant(itemsA)
		base := map[string]bool{}
		for kind := 0; kind < 2; kind++ {
			for _, prov := range []int{c01ProvFresh, c01ProvMapped} {
				kind, prov := kind, prov
				mkA := func() *Bitmap { return c01Build(kind, itemsA, prov) }
				variant := c01Variant(kind, prov, 0)
				if mkA() == nil {
					continue
				}
				for y := 0; y < total; y++ {
					if c.Expired() {
						return
					}
					itemsB := c01MultiItems(keys, opts, c01Decode(y, len(opts), len(keys)))
					wb := c01ItemsWant(itemsB)
					var fails []c01Fail
					for _, bn := range bins {
						fails = append(fails, c01RunBins(w, []c01Bin{bn}, mkA, mkA(), c01Build(0, itemsB, c01ProvFresh), wa, wb)...)
					}
					if len(fails) > 0 {
						w.report("multi-ops", fails, "multi", variant, base, fmt.Sprint(y, "/"), c01ItemsDesc(itemsA), c01ItemsDesc(itemsB))
					}
				}
			}
		}
		c.Distinct("multi-ops|" + c01ItemsDesc(itemsA))
		w.flush()
	})
}

// c01MultiNary: UnionInPlace/Union with 2..3 others over two-key bitmaps (keys 0 and 1) whose
// containers sit on both sides of the 512-value in-place threshold and include full containers.
func c01MultiNary(c *vx.Check, maxOthers int, nopts int, thorough bool) {
	full := c01MakeShape("full", c01Seq(65536, func(i int) int { return i }))
	opts := []c01Opt{
		{name: "absent"},
		{name: "a{0}", sh: c01MakeShape("{0}", []uint16{0}), enc: c01EncArray},
		{name: "rfull", sh: full, enc: c01EncRun},
		{name: "b-stride2-N4097", sh: c01MakeShape("stride2-N4097", c01Seq(4097, func(i int) int { return 2 * i })), enc: c01EncBitmap},
	}
	{
		opts = append(opts,
			c01Opt{name: "a-stride100-N600", sh: c01MakeShape("stride100-N600", c01Seq(600, func(i int) int { return 100*i + 1 })), enc: c01EncArray},
			c01Opt{name: "r[1..65535]", sh: c01MakeShape("[1..65535]", c01Seq(65535, func(i int) int { return i + 1 })), enc: c01EncRun})
	}
	opts = opts[:nopts]
	keys := []uint64{0, 1}
	nprov := 2
	if thorough {
		nprov = 3
	}
	total := len(opts) * len(opts)
	vx.ParallelFor(total*total, func(x int) {
		w := &c01W{c: c}
		itemsA := c01MultiItems(keys, opts, c01Decode(x/total, len(opts), 2))
		items1 := c01MultiItems(keys, opts, c01Decode(x%total, len(opts), 2))
		wa := c01ItemsWant(itemsA)
		base := map[string]bool{}
		for _, prov := range []int{c01ProvFresh, c01ProvMapped, c01ProvFrozen}[:nprov] {
			prov := prov
			mk := func() *Bitmap { return c01Build(0, itemsA, prov) }
			if mk() == nil {
				continue
			}
			var rec func(its [][]c01Item, tag string)
			rec = func(its [][]c01Item, tag string) {
				if c.Expired() {
					return
				}
				if len(its) >= 2 {
					others := make([]*Bitmap, len(its))
					wo := make([]c01Set, len(its))
					desc := ""
					for j, it := range its {
						others[j] = c01Build(j%2, it, c01ProvFresh)
						wo[j] = c01ItemsWant(it)
						desc += "(" + c01ItemsDesc(it) + ") "
					}
					if fails := c01Nary(w, mk, others, wa, wo); len(fails) > 0 {
						w.report("multi-nary", fails, "multi", c01Variant(0, prov, 0), base, tag, c01ItemsDesc(itemsA), desc)
					}
				}
				if len(its) < maxOthers {
					for y := 0; y < total; y++ {
						rec(append(its[:len(its):len(its)], c01MultiItems(keys, opts, c01Decode(y, len(opts), 2))), tag+fmt.Sprint(y, "/"))
					}
				}
			}
			rec([][]c01Item{items1}, "")
		}
		c.Distinct("multi-nary|" + c01ItemsDesc(itemsA) + "|" + c01ItemsDesc(items1))
		w.flush()
	})
}

func c01Timed(c *vx.Check, name string, f func()) {
	if only := os.Getenv("VERIF_C01_PARTS"); only != "" && !strings.Contains(","+only+",", ","+name+",") {
		c.NotExhaustive("VERIF_C01_PARTS restricts the run to " + only)
		return
	}
	t0 := time.Now()
	e0 := c.Evaluations
	f()
	fmt.Printf("INFO C01 part %s: %.1fs, %d evaluations, expired=%v\n", name, time.Since(t0).Seconds(), c.Evaluations-e0, c.Expired())
}

func TestVerif_C01(t *testing.T) {
	c := vx.NewCheck("C01", "exploration",
		"full Cartesian products, every member executed on the real roaring code and compared with a sorted-slice set model: "+
			"(1) every subset of a boundary universe U of low bits × forced encoding {array,bitmap,run} × {slice,btree} collection × provenance {fresh,optimized,decoded-and-mapped,frozen} × key {0,2^48-1}: all reads (Contains, Count/Any, CountRange and SliceRange/ForEachRange over all [s,e) of the points, Min, Max, Seek from every point + iteration, Slice, ForEach, Shift, aligned OffsetRange, Flip over all ranges of U); "+
			"(2) every ordered pair of subsets × 9 encoding pairs × provenance of A: Union, Intersect, IntersectionCount, Difference, Xor, UnionInPlace (both directions); n-ary Union/UnionInPlace with 0..3 others over a smaller universe; "+
			"(3) threshold families (N around 4096 and 512, run counts around 2048, full, full-minus-one, empty) the same way; "+
			"(4) multi-container bitmaps: every assignment of container options to keys {0,1,2,2^48-1} (reads, Shift, Flip across container edges, OffsetRange), pairs and n-ary unions of such bitmaps. distinct = distinct non-empty cases (bitmap variants / operand pairs)")
	defer debug.SetGCPercent(debug.SetGCPercent(400))
	thorough := c.Thorough()
	U := []uint16{0, 1, 2, 63, 64, 65, 65534, 65535}
	if thorough {
		U = []uint16{0, 1, 2, 63, 64, 65, 127, 4095, 4096, 65534, 65535}
	}
	Un := []uint16{0, 1, 65535}
	if thorough {
		Un = []uint16{0, 1, 65534, 65535}
	}
	shapes := c01MaskShapes(U)
	Up := []uint16{0, 1, 63, 64, 65, 65534, 65535}
	if thorough {
		Up = []uint16{0, 1, 2, 63, 64, 65, 4096, 65534, 65535}
	}
	pshapes := c01MaskShapes(Up)
	c.Bound("pair_universe_low_bits", Up)
	fam := c01Families(!thorough)
	c.Bound("universe_low_bits", U)
	c.Bound("nary_universe_low_bits", Un)
	c.Bound("threshold_family_shapes", len(fam))
	c.Bound("single_container_keys", []uint64{0, c01TopKey})
	c.Bound("multi_container_keys", []uint64{0, 1, 2, c01TopKey})

	// (4) multi-container
	opts := c01Opts(thorough)
	c.Bound("multi_container_options", len(opts))
	c01Timed(c, "MultiReads", func() { c01MultiReads(c, []uint64{0, 1, 2, c01TopKey}, opts) })
	c01Timed(c, "MultiBins", func() { c01MultiBins(c, []uint64{0, 1, c01TopKey}, opts[:5]) })
	c01Timed(c, "MultiNary", func() { c01MultiNary(c, 2, c.Pick(4, 5), thorough) })
	if thorough {
		c01Timed(c, "MultiNary", func() { c01MultiNary(c, 3, 4, thorough) })
	}

	// (1) reads of single-container bitmaps
	c01Timed(c, "SingleReads", func() { c01SingleReads(c, "single", shapes, []uint64{0, c01TopKey}, U, U) })
	// (3a) reads of the threshold families
	famLows := []uint16{0, 1, 2, 3, 4, 63, 64, 65, 127, 128, 4094, 4095, 4096, 4097, 8190, 8191, 8192, 8193, 32767, 32768, 65534, 65535}
	c01Timed(c, "SingleReads", func() { c01SingleReads(c, "family", fam, []uint64{0, c01TopKey}, famLows, []uint16{0, 1, 4095, 4096}) })
	// (2) pairs
	allProvs := []int{c01ProvFresh, c01ProvMapped, c01ProvFrozen, c01ProvOptimized}
	kinds := []int{0}
	if thorough {
		kinds = []int{0, 1}
	}
	// (3b) family × family and small × family pairs
	c01Timed(c, "SinglePairs", func() { c01SinglePairs(c, "family-pairs", fam, fam, allProvs[:c.Pick(2, 4)], kinds) })
	small := c01MaskShapes([]uint16{0, 1, 65534, 65535})
	c01Timed(c, "SinglePairs", func() { c01SinglePairs(c, "small-family-pairs", small, fam, allProvs[:3], []int{0}) })
	c01Timed(c, "SinglePairs", func() { c01SinglePairs(c, "family-small-pairs", fam, small, allProvs[:3], []int{0}) })
	// n-ary unions
	c01Timed(c, "SingleNary", func() { c01SingleNary(c, "nary", c01MaskShapes([]uint16{0, 1, 65535}), 3, allProvs[:3]) })
	if thorough {
		c01Timed(c, "SingleNary", func() { c01SingleNary(c, "nary4", c01MaskShapes(Un), 2, allProvs[:3]) })
	}
	famN := fam
	if len(famN) > 8 {
		famN = []*c01Shape{fam[0], fam[1], fam[2], fam[5], fam[7], fam[8], fam[11], fam[len(fam)-1]}
	}
	c01Timed(c, "SingleNary", func() { c01SingleNary(c, "family-nary", famN, 2, allProvs[:2+c.Pick(0, 1)]) })
	// (2) the largest product last, so that a deadline hit under load cuts only this part
	c01Timed(c, "SinglePairs", func() { c01SinglePairs(c, "pairs", pshapes, pshapes, allProvs[:3], kinds) })
	c.Assume("values outside the boundary universe / threshold families are covered only by the small-scope argument (kernels are position-relative)")
	c.Assume("Flip ranges ending at 2^64-1 are not executed: `for i := start; i <= end; i++` cannot terminate for end=2^64-1 (reported from reading, see mutants/C01.md)")
	c.Assume("range reads use start<=end; OffsetRange arguments are container-aligned as the API requires")
	c.Assume("range slices / post-seek iterations on huge shapes compare the first 300 elements; the complete iteration is compared by Slice and ForEach")
	c.Extra("mapped_variants_skipped_because_encoding_did_not_decode", c01Unbuildable.Load())
	if c.Finish() != 0 {
		t.Fail()
	}
}
