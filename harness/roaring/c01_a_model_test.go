package roaring

// C01 — Roaring bitmap reads and set operations match set semantics.
// This file: the reference model (sorted []uint64 sets with merge loops), the shape families and
// the builders that force an encoding / provenance on the REAL containers.

import (
	"bytes"
	"fmt"
	"sort"
	"strings"
	"sync/atomic"

	"github.com/pilosa/pilosa/internal/vx"
)

type c01Set []uint64 // sorted ascending, no duplicates

const c01Max = ^uint64(0)

func c01Union(a, b c01Set) c01Set {
	out := make(c01Set, 0, len(a)+len(b))
	i, j := 0, 0
	for i < len(a) && j < len(b) {
		switch {
		case a[i] < b[j]:
			out = append(out, a[i])
			i++
		case a[i] > b[j]:
			out = append(out, b[j])
			j++
		default:
			out = append(out, a[i])
			i++
			j++
		}
	}
	out = append(out, a[i:]...)
	return append(out, b[j:]...)
}

func c01Inter(a, b c01Set) c01Set {
	out := c01Set{}
	i, j := 0, 0
	for i < len(a) && j < len(b) {
		switch {
		case a[i] < b[j]:
			i++
		case a[i] > b[j]:
			j++
		default:
			out = append(out, a[i])
			i++
			j++
		}
	}
	return out
}

func c01Diff(a, b c01Set) c01Set {
	out := c01Set{}
	i, j := 0, 0
	for i < len(a) {
		for j < len(b) && b[j] < a[i] {
			j++
		}
		if j >= len(b) || b[j] != a[i] {
			out = append(out, a[i])
		}
		i++
	}
	return out
}

func c01Xor(a, b c01Set) c01Set {
	out := c01Set{}
	i, j := 0, 0
	for i < len(a) && j < len(b) {
		switch {
		case a[i] < b[j]:
			out = append(out, a[i])
			i++
		case a[i] > b[j]:
			out = append(out, b[j])
			j++
		default:
			i++
			j++
		}
	}
	out = append(out, a[i:]...)
	return append(out, b[j:]...)
}

// c01LB: index of the first element >= v.
func c01LB(a c01Set, v uint64) int {
	lo, hi := 0, len(a)
	for lo < hi {
		m := (lo + hi) / 2
		if a[m] < v {
			lo = m + 1
		} else {
			hi = m
		}
	}
	return lo
}

func c01Has(a c01Set, v uint64) bool {
	i := c01LB(a, v)
	return i < len(a) && a[i] == v
}

// c01Range: the elements v with s <= v < e.
func c01Range(a c01Set, s, e uint64) c01Set {
	if e <= s {
		return nil
	}
	return a[c01LB(a, s):c01LB(a, e)]
}

func c01Shift(a c01Set) c01Set {
	out := make(c01Set, 0, len(a))
	for _, v := range a {
		if v != c01Max {
			out = append(out, v+1)
		}
	}
	return out
}

// c01Flip negates membership on the INCLUSIVE range [s,e]; e < 2^64-1.
func c01Flip(a c01Set, s, e uint64) c01Set {
	out := make(c01Set, 0, len(a)+int(e-s)+1)
	i := 0
	for ; i < len(a) && a[i] < s; i++ {
		out = append(out, a[i])
	}
	for v := s; v <= e; v++ {
		if i < len(a) && a[i] == v {
			i++
		} else {
			out = append(out, v)
		}
	}
	return append(out, a[i:]...)
}

func c01Eq(got []uint64, exp c01Set) bool {
	if len(got) != len(exp) {
		return false
	}
	for i := range got {
		if got[i] != exp[i] {
			return false
		}
	}
	return true
}

// c01How classifies a set discrepancy.
func c01How(got []uint64, exp c01Set) string {
	for i := 1; i < len(got); i++ {
		if got[i] <= got[i-1] {
			return "unsorted-or-duplicate"
		}
	}
	g := c01Set(got)
	miss, extra := len(c01Diff(exp, g)), len(c01Diff(g, exp))
	switch {
	case miss > 0 && extra > 0:
		return "missing+extra"
	case miss > 0:
		return "missing"
	case extra > 0:
		return "extra"
	}
	return "differs"
}

func c01Fmt(a []uint64) string {
	var sb strings.Builder
	fmt.Fprintf(&sb, "n=%d[", len(a))
	for i, v := range a {
		if i >= 14 {
			sb.WriteString("…")
			break
		}
		if i > 0 {
			sb.WriteByte(',')
		}
		fmt.Fprintf(&sb, "%d", v)
	}
	sb.WriteByte(']')
	return sb.String()
}

func c01LowHigh(got, exp uint64) string {
	if got < exp {
		return "low"
	}
	return "high"
}

// ---------------------------------------------------------------------------------------------
// shapes: the contents of ONE container, with all three representations computed by the harness.

const (
	c01EncArray  = 0
	c01EncBitmap = 1
	c01EncRun    = 2
)

var c01EncName = [3]string{"array", "bitmap", "run"}

type c01Shape struct {
	name  string
	vals  []uint16
	runs  []interval16
	words []uint64
}

func c01MakeShape(name string, vals []uint16) *c01Shape {
	s := &c01Shape{name: name, vals: vals, words: make([]uint64, bitmapN)}
	for i, v := range vals {
		if i > 0 && vals[i-1] >= v {
			panic("c01: shape values not strictly ascending: " + name)
		}
		s.words[v/64] |= 1 << (v % 64)
		if n := len(s.runs); n > 0 && uint32(s.runs[n-1].last)+1 == uint32(v) {
			s.runs[n-1].last = v
		} else {
			s.runs = append(s.runs, interval16{start: v, last: v})
		}
	}
	return s
}

func (s *c01Shape) set(key uint64) c01Set {
	out := make(c01Set, len(s.vals))
	for i, v := range s.vals {
		out[i] = key<<16 | uint64(v)
	}
	return out
}

// container builds a fresh REAL container holding the shape in the forced encoding.
func (s *c01Shape) container(enc int) *Container {
	switch enc {
	case c01EncArray:
		return NewContainerArray(append(make([]uint16, 0, len(s.vals)), s.vals...))
	case c01EncBitmap:
		return NewContainerBitmapN(append(make([]uint64, 0, bitmapN), s.words...), int32(len(s.vals)))
	default:
		return NewContainerRun(append(make([]interval16, 0, len(s.runs)), s.runs...))
	}
}

// c01MaskShapes: every subset of the universe U.
func c01MaskShapes(U []uint16) []*c01Shape {
	out := make([]*c01Shape, 1<<uint(len(U)))
	for m := range out {
		var vals []uint16
		var nm strings.Builder
		nm.WriteByte('{')
		for i, u := range U {
			if m&(1<<uint(i)) != 0 {
				if len(vals) > 0 {
					nm.WriteByte(',')
				}
				fmt.Fprintf(&nm, "%d", u)
				vals = append(vals, u)
			}
		}
		nm.WriteByte('}')
		out[m] = c01MakeShape(nm.String(), vals)
	}
	return out
}

func c01Seq(n int, f func(i int) int) []uint16 {
	out := make([]uint16, n)
	for i := range out {
		out[i] = uint16(f(i))
	}
	return out
}

// c01Families: densities around the array/bitmap threshold (4096 values), the run threshold (2048
// runs), the in-place-union threshold (512), full, full-minus-one and empty containers.
func c01Families(small bool) []*c01Shape {
	var out []*c01Shape
	add := func(name string, vals []uint16) { out = append(out, c01MakeShape(name, vals)) }
	add("empty", nil)
	add("full", c01Seq(65536, func(i int) int { return i }))
	for _, p := range []int{0, 1000, 65535} {
		p := p
		add(fmt.Sprintf("full-minus-%d", p), c01Seq(65535, func(i int) int {
			if i >= p {
				return i + 1
			}
			return i
		}))
	}
	for _, n := range []int{4095, 4096, 4097} {
		add(fmt.Sprintf("stride2-N%d", n), c01Seq(n, func(i int) int { return 2 * i }))
		add(fmt.Sprintf("block0-N%d", n), c01Seq(n, func(i int) int { return i }))
	}
	for _, r := range []int{2047, 2048, 2049} {
		add(fmt.Sprintf("pairs-runs%d", r), c01Seq(2*r, func(i int) int { return 4*(i/2) + i%2 }))
	}
	add("blockEnd-N4096", c01Seq(4096, func(i int) int { return 61440 + i }))
	add("odd-N32768", c01Seq(32768, func(i int) int { return 2*i + 1 }))
	add("even-N32768", c01Seq(32768, func(i int) int { return 2 * i }))
	if !small {
		add("stride16-N4096", c01Seq(4096, func(i int) int { return 16 * i }))
		for _, n := range []int{511, 512, 513} {
			add(fmt.Sprintf("stride100-N%d", n), c01Seq(n, func(i int) int { return 100 * i }))
		}
	}
	return out
}

// ---------------------------------------------------------------------------------------------
// bitmaps: items (key, shape, encoding) × container collection kind × provenance.

const (
	c01ProvFresh     = 0
	c01ProvOptimized = 1
	c01ProvMapped    = 2 // encoded without optimizing (forced encodings kept), decoded: containers point into the buffer
	c01ProvFrozen    = 3
)

var c01ProvName = [4]string{"fresh", "optimized", "mapped", "frozen"}
var c01KindName = [2]string{"slice", "btree"}

type c01Item struct {
	key     uint64
	sh      *c01Shape
	enc     int
	nilLeft bool // build the key through the public API as Add(v);Remove(v): leaves what the API leaves
}

var c01Unbuildable atomic.Int64

func c01NewKind(kind int) *Bitmap {
	if kind == 1 {
		return NewBTreeBitmap()
	}
	return NewBitmap()
}

// c01Build returns the bitmap; for the mapped provenance the containers alias the returned buffer.
func c01Build(kind int, items []c01Item, prov int) *Bitmap {
	b := c01NewKind(kind)
	for _, it := range items {
		if it.nilLeft {
			v := it.key<<16 | 7
			b.Add(v)
			b.Remove(v)
			continue
		}
		b.Containers.Put(it.key, it.sh.container(it.enc))
	}
	switch prov {
	case c01ProvOptimized:
		b.Optimize()
	case c01ProvMapped:
		var buf bytes.Buffer
		if _, err := b.writeToUnoptimized(&buf); err != nil {
			panic("c01-build: encode: " + err.Error())
		}
		nb := c01NewKind(kind)
		var err error
		if p := vx.Guard(func() { err = nb.UnmarshalBinary(buf.Bytes()) }); p != "" || err != nil {
			// the encoding of this bitmap does not decode: that is C04's subject (round trip), not a read or
			// set operation; the mapped variant of this case cannot be built and is skipped (counted).
			c01Unbuildable.Add(1)
			return nil
		}
		return nb
	case c01ProvFrozen:
		return b.Freeze()
	}
	return b
}

func c01ItemsWant(items []c01Item) c01Set {
	s := append([]c01Item(nil), items...)
	sort.Slice(s, func(i, j int) bool { return s[i].key < s[j].key })
	var out c01Set
	for _, it := range s {
		if !it.nilLeft {
			out = append(out, it.sh.set(it.key)...)
		}
	}
	return out
}

func c01ItemsDesc(items []c01Item) string {
	var sb strings.Builder
	for i, it := range items {
		if i > 0 {
			sb.WriteByte(' ')
		}
		if it.nilLeft {
			fmt.Fprintf(&sb, "k%d:added-then-removed", it.key)
		} else {
			fmt.Fprintf(&sb, "k%d:%s%s", it.key, c01EncName[it.enc], it.sh.name)
		}
	}
	return sb.String()
}

// c01Walk reads the raw container representations (independent of every read path under test).
func c01Walk(b *Bitmap) []uint64 {
	var out []uint64
	it, _ := b.Containers.Iterator(0)
	for it.Next() {
		k, c := it.Value()
		if c == nil {
			continue
		}
		switch c.typ() {
		case containerArray:
			for _, v := range c.array() {
				out = append(out, k<<16|uint64(v))
			}
		case containerBitmap:
			for i, w := range c.bitmap() {
				for ; w != 0; w &= w - 1 {
					j := 0
					for t := w; t&1 == 0; t >>= 1 {
						j++
					}
					out = append(out, k<<16|uint64(i*64+j))
				}
			}
		case containerRun:
			for _, r := range c.runs() {
				for v := int(r.start); v <= int(r.last); v++ {
					out = append(out, k<<16|uint64(v))
				}
			}
		}
	}
	return out
}

// ---------------------------------------------------------------------------------------------
// per-goroutine work context and failure plumbing

type c01W struct {
	c     *vx.Check
	evals int64
	outc  map[string]struct{}
}

func (w *c01W) outcome(s string) {
	if w.outc == nil {
		w.outc = map[string]struct{}{}
	}
	w.outc[s] = struct{}{}
}

func (w *c01W) flush() {
	w.c.AddEval(w.evals)
	w.evals = 0
	for k := range w.outc {
		w.c.Outcome(k)
	}
	w.outc = nil
}

type c01Fail struct {
	op, how, got, exp string
}

type c01Case struct {
	Part    string `json:"part"`
	Op      string `json:"op"`
	A       string `json:"a"`
	B       string `json:"b,omitempty"`
	Variant string `json:"variant,omitempty"`
}

// c01Report turns failures into violations. Key = op + discrepancy kind + container encodings; the
// variant (collection kind / provenance / key position) is added ONLY when the same op+discrepancy did
// not already fail on the baseline variant of the same case (base), so one root cause maps to one key.
func (w *c01W) report(part string, fails []c01Fail, encs, variant string, base map[string]bool, tag string, a, b string) {
	for _, f := range fails {
		sig := tag + f.op + " how=" + f.how
		key := f.op + " how=" + f.how + " enc=" + encs
		if variant == "" {
			base[sig] = true
		} else if !base[sig] {
			key += " " + variant
		}
		w.c.Violate(key, c01Case{Part: part, Op: f.op, A: a, B: b, Variant: variant}, f.got, f.exp)
	}
}
