package roaring

// C01 — single-container cases: every shape × forced encoding × collection kind × provenance ×
// key position (reads), and every ordered pair of shapes × encoding pair × provenance (set ops).

import (
	"fmt"

	"github.com/pilosa/pilosa/internal/vx"
)

const c01TopKey = uint64(maxContainerKey)

func c01Variant(kind, prov int, key uint64) string {
	s := ""
	if kind != 0 {
		s += "kind=" + c01KindName[kind] + " "
	}
	if prov != 0 {
		s += "prov=" + c01ProvName[prov] + " "
	}
	if key != 0 {
		s += fmt.Sprintf("key=%d ", key)
	}
	if s != "" {
		s = s[:len(s)-1]
	}
	return s
}

func c01Offs(key uint64) [][3]uint64 {
	var o [][3]uint64
	s := key << 16
	if key != c01TopKey {
		e := (key + 1) << 16
		o = append(o, [3]uint64{0, s, e}, [3]uint64{5 << 16, s, e}, [3]uint64{0, 0, e}, [3]uint64{1 << 16, e, e + 1<<16})
	}
	o = append(o, [3]uint64{0, s, s}, [3]uint64{0, 0, s})
	return o
}

// c01SingleReads: reads of one-container bitmaps. lows = probe/range low bits; flipLows = low bits of
// Flip range ends (Flip is O(range) so it only runs on the baseline kind and two provenances).
func c01SingleReads(c *vx.Check, part string, shapes []*c01Shape, keys []uint64, lows, flipLows []uint16) {
	reads := make([][]c01Read, len(keys))
	var flipReads []c01Read
	for i, k := range keys {
		reads[i] = c01Reads(c01Points([]uint64{k}, lows), c01Offs(k), nil)
	}
	// Flip is O(range): all narrow ranges over flipLows (fresh and mapped), a few container-wide ones (fresh only)
	var flips [][2]uint64
	for i, s := range flipLows {
		for _, e := range flipLows[i:] {
			if e-s <= 4200 {
				flips = append(flips, [2]uint64{uint64(s), uint64(e)})
			}
		}
	}
	nNarrow := len(flips)
	if len(flipLows) > 0 {
		flips = append(flips, [2]uint64{0, 65535}, [2]uint64{1, 65534}, [2]uint64{0, 65534}, [2]uint64{64, 65535})
	}
	for _, r := range c01Reads(nil, nil, flips) {
		if r.name == "Flip" {
			flipReads = append(flipReads, r)
		}
	}
	vx.ParallelFor(len(shapes), func(si int) {
		if c.Expired() {
			return
		}
		w := &c01W{c: c}
		sh := shapes[si]
		for enc := 0; enc < 3; enc++ {
			base := map[string]bool{}
			for ki, key := range keys {
				want := sh.set(key)
				items := []c01Item{{key: key, sh: sh, enc: enc}}
				for kind := 0; kind < 2; kind++ {
					for prov := 0; prov < 4; prov++ {
						b := c01Build(kind, items, prov)
						if b == nil {
							continue
						}
						fails := c01RunReads(w, b, want, reads[ki])
						if key == 0 && kind == 0 && (prov == c01ProvFresh || prov == c01ProvMapped) && len(flipReads) > 0 {
							fr := flipReads
							if prov != c01ProvFresh {
								fr = fr[:nNarrow]
							}
							fails = append(fails, c01RunReads(w, c01Build(kind, items, prov), want, fr)...)
						}
						if len(fails) > 0 {
							w.report(part, fails, c01EncName[enc], c01Variant(kind, prov, key), base, "", c01ItemsDesc(items), "")
						}
						c.Distinct(fmt.Sprintf("%s|%s|%d|%d|%d|%d", part, sh.name, enc, key, kind, prov))
					}
				}
			}
		}
		w.outcome(fmt.Sprintf("%s n=%d runs=%d", part, len(sh.vals), len(sh.runs)))
		if si%97 == 0 {
			c.Sample(fmt.Sprintf("%s reads: shape %s × 3 encodings × 2 kinds × 4 provenances × %d keys", part, sh.name, len(keys)))
		}
		w.flush()
	})
}

// c01SinglePairs: set operations on every ordered pair (A,B) of shapes at the same key. A carries the
// provenance dimension and is the receiver; for non-fresh A the reversed direction (B receiver, A
// argument) runs too (for fresh A the swapped pair covers it).
func c01SinglePairs(c *vx.Check, part string, as, bs []*c01Shape, provs []int, kinds []int) {
	bins := c01Bins()
	vx.ParallelFor(len(as), func(ai int) {
		w := &c01W{c: c}
		sa := as[ai]
		wa := sa.set(0)
		for encA := 0; encA < 3; encA++ {
			base := map[string]bool{}
			itemsA := []c01Item{{key: 0, sh: sa, enc: encA}}
			for _, kind := range kinds {
				for _, prov := range provs {
					if c.Expired() {
						return
					}
					kind, prov := kind, prov
					mkA := func() *Bitmap { return c01Build(kind, itemsA, prov) }
					a := mkA()
					if a == nil {
						continue
					}
					variant := c01Variant(kind, prov, 0)
					for bi, sb := range bs {
						wb := sb.set(0)
						for encB := 0; encB < 3; encB++ {
							itemsB := []c01Item{{key: 0, sh: sb, enc: encB}}
							mkB := func() *Bitmap { return c01Build(0, itemsB, c01ProvFresh) }
							b := mkB()
							fails := c01RunBins(w, bins, mkA, a, b, wa, wb)
							var rfails []c01Fail
							if variant != "" {
								rfails = c01RunBins(w, bins, mkB, b, a, wb, wa)
							}
							if len(fails)+len(rfails) > 0 {
								tag := fmt.Sprintf("%d/%d/", bi, encB)
								w.report(part, fails, c01EncName[encA]+"×"+c01EncName[encB], variant, base, tag, c01ItemsDesc(itemsA), c01ItemsDesc(itemsB))
								for i := range rfails {
									rfails[i].op += "(arg)"
								}
								w.report(part, rfails, c01EncName[encB]+"×"+c01EncName[encA], variant, base, tag+"r/", c01ItemsDesc(itemsB), c01ItemsDesc(itemsA))
								// an operand damaged by an operation would corrupt the following evaluations
								if !c01Eq(c01Walk(a), wa) {
									fmt.Printf("INFO C01 operand modified by a set operation: a=%s (%s) b=%s\n", c01ItemsDesc(itemsA), variant, c01ItemsDesc(itemsB))
									a = mkA()
								}
							}
						}
						if encA == 0 && kind == kinds[0] && prov == provs[0] {
							if len(wa) > 0 && len(wb) > 0 {
								c.Distinct(part + "|" + sa.name + "|" + sb.name)
							}
							w.outcome(fmt.Sprintf("u%d i%d", len(c01Union(wa, wb)), len(c01Inter(wa, wb))))
						}
					}
					if !c01Eq(c01Walk(a), wa) {
						fmt.Printf("INFO C01 operand modified by a set operation: a=%s (%s)\n", c01ItemsDesc(itemsA), variant)
					}
				}
			}
		}
		if ai%61 == 0 {
			c.Sample(fmt.Sprintf("%s pairs: A=%s × %d shapes B × 9 encoding pairs × %d provenances of A × 6 ops", part, sa.name, len(bs), len(provs)))
		}
		w.flush()
	})
}

// c01SingleNary: Union / UnionInPlace with 0..3 others over all tuples of shapes × encodings.
func c01SingleNary(c *vx.Check, part string, shapes []*c01Shape, maxOthers int, provs []int) {
	n := len(shapes) * 3
	pick := func(i int) (*c01Shape, int) { return shapes[i/3], i % 3 }
	vx.ParallelFor(n, func(ai int) {
		w := &c01W{c: c}
		sa, encA := pick(ai)
		wa := sa.set(0)
		itemsA := []c01Item{{key: 0, sh: sa, enc: encA}}
		base := map[string]bool{}
		for _, prov := range provs {
			prov := prov
			mk := func() *Bitmap { return c01Build(0, itemsA, prov) }
			if mk() == nil {
				continue
			}
			variant := c01Variant(0, prov, 0)
			var rec func(idx []int)
			rec = func(idx []int) {
				if c.Expired() {
					return
				}
				others := make([]*Bitmap, len(idx))
				wo := make([]c01Set, len(idx))
				encs, desc, tag := c01EncName[encA], "", ""
				for j, i := range idx {
					s, e := pick(i)
					others[j] = c01Build(0, []c01Item{{key: 0, sh: s, enc: e}}, c01ProvFresh)
					wo[j] = s.set(0)
					encs += "×" + c01EncName[e]
					desc += c01EncName[e] + s.name + " "
					tag += fmt.Sprint(i, "/")
				}
				if fails := c01Nary(w, mk, others, wa, wo); len(fails) > 0 {
					w.report(part, fails, encs, variant, base, tag, c01ItemsDesc(itemsA), desc)
				}
				if len(idx) < maxOthers {
					for i := 0; i < n; i++ {
						rec(append(idx, i))
					}
				}
			}
			rec(nil)
		}
		c.Distinct(fmt.Sprintf("%s|%s|%d", part, sa.name, encA))
		w.flush()
	})
}
