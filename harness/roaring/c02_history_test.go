package roaring

// C02 — Bitmap reads stay consistent with every mutation applied.
// Bounded-exhaustive exploration of operation histories on ONE real bitmap (slice containers and
// B-tree containers) against a plain set model. Every read path is an operation of the alphabet
// (reads move hidden state: the B-tree lookaside), every mutation's reported change count is
// compared with the model's.

import (
	"bytes"
	"fmt"
	"sort"
	"strings"
	"testing"

	"github.com/pilosa/pilosa/internal/vx"
)

var c02Vals = []uint64{0, 1, 65535, 65536, 65538, 131072 + 5} // 65538: the one missing bit between the two runs of payload 3

var c02Batches = [][]uint64{
	{0, 1},
	{65536, 0, 0},             // unsorted, duplicate
	{131072 + 5, 65535, 7},    // across containers, one value outside c02Vals
	{1, 65536, 131072 + 5, 1}, // duplicate at the end
	{0, 65536, 1},             // container A, then B, then A again (batch-local container reuse)
	{65535, 131072 + 5, 2},    // the same, other containers, second visit outside c02Vals
}

// payload sets for ImportRoaringBits
var c02Payloads = [][]uint64{
	{0, 65536},
	{1, 65535, 131072 + 5},
	{65536, 65537},
	{65536, 65537, 65539, 65540}, // after optimize: two runs with a one-bit gap (run merge / run split paths)
}

type c02Inst struct {
	b     *Bitmap
	model map[uint64]bool
	btree bool
	pay   [][]byte
}

func c02Encode(vals []uint64) []byte {
	bm := NewBitmap(vals...)
	var buf bytes.Buffer
	if _, err := bm.WriteTo(&buf); err != nil {
		panic(err)
	}
	return buf.Bytes()
}

func c02New(btree bool) vx.Instance {
	in := &c02Inst{model: map[uint64]bool{}, btree: btree}
	if btree {
		in.b = NewBTreeBitmap()
	} else {
		in.b = NewBitmap()
	}
	for _, p := range c02Payloads {
		in.pay = append(in.pay, c02Encode(p))
	}
	return in
}

func (in *c02Inst) sorted() []uint64 {
	out := make([]uint64, 0, len(in.model))
	for v := range in.model {
		out = append(out, v)
	}
	sort.Slice(out, func(i, j int) bool { return out[i] < out[j] })
	return out
}

func c02Universe() []uint64 {
	u := append([]uint64{}, c02Vals...)
	u = append(u, 7, 65537, 2, 131072, 65539, 65540)
	sort.Slice(u, func(i, j int) bool { return u[i] < u[j] })
	return u
}

func (in *c02Inst) Apply(op vx.Op) (got, want string) {
	b := in.b
	switch op.Name {
	case "add":
		v := uint64(op.Args[0])
		ch, err := b.Add(v)
		w := !in.model[v]
		in.model[v] = true
		return fmt.Sprint(ch, err), fmt.Sprint(w, nil)
	case "remove":
		v := uint64(op.Args[0])
		ch, err := b.Remove(v)
		w := in.model[v]
		delete(in.model, v)
		return fmt.Sprint(ch, err), fmt.Sprint(w, nil)
	case "directAdd":
		v := uint64(op.Args[0])
		ch := b.DirectAdd(v)
		w := !in.model[v]
		in.model[v] = true
		return fmt.Sprint(ch), fmt.Sprint(w)
	case "addN", "removeN", "directAddN", "directRemoveN":
		batch := append([]uint64{}, c02Batches[op.Args[0]]...)
		w := 0
		add := op.Name == "addN" || op.Name == "directAddN"
		for _, v := range batch {
			if add && !in.model[v] {
				in.model[v] = true
				w++
			} else if !add && in.model[v] {
				delete(in.model, v)
				w++
			}
		}
		var ch int
		var err error
		switch op.Name {
		case "addN":
			ch, err = b.AddN(batch...)
		case "removeN":
			ch, err = b.RemoveN(batch...)
		case "directAddN":
			ch = b.DirectAddN(batch...)
		case "directRemoveN":
			ch = b.DirectRemoveN(batch...)
		}
		return fmt.Sprint(ch, err), fmt.Sprint(w, nil)
	case "import":
		clear := op.Args[0] == 1
		pl := c02Payloads[op.Args[1]]
		data := append([]byte{}, in.pay[op.Args[1]]...)
		ch, rows, err := b.ImportRoaringBits(data, clear, false, 1)
		w := 0
		wrows := map[uint64]int{}
		for _, v := range pl {
			if !clear && !in.model[v] {
				in.model[v] = true
				w++
				wrows[v>>16]++
			} else if clear && in.model[v] {
				delete(in.model, v)
				w++
				wrows[v>>16]--
			}
		}
		return fmt.Sprint(ch, err, c02RowSet(rows)), fmt.Sprint(w, nil, c02RowSet(wrows))
	case "optimize":
		b.Optimize()
		return "", ""
	case "freeze":
		// takes a frozen view (what a snapshot / row read does): afterwards every container of the
		// bitmap is shared and the next mutation of each has to copy it first. The view itself is
		// dropped — whether IT stays intact is property C03's business.
		_ = b.Freeze()
		return "", ""
	case "rContains":
		var g, w strings.Builder
		for _, v := range c02Universe() {
			fmt.Fprintf(&g, "%v,", b.Contains(v))
			fmt.Fprintf(&w, "%v,", in.model[v])
		}
		return g.String(), w.String()
	case "rCount":
		s := in.sorted()
		var cr [3]uint64
		for _, v := range s {
			if v >= 1 && v < 65536 {
				cr[0]++
			}
			if v >= 65535 && v < 131072+6 {
				cr[1]++
			}
			if v >= 0 && v < 65537 {
				cr[2]++
			}
		}
		any := len(s) > 0
		return fmt.Sprint(b.Count(), b.CountRange(1, 65536), b.CountRange(65535, 131072+6), b.CountRange(0, 65537), b.Any()),
			fmt.Sprint(len(s), cr[0], cr[1], cr[2], any)
	case "rSlice":
		return vx.SortedU64(b.Slice()) + "|" + fmt.Sprint(sort.SliceIsSorted(b.Slice(), func(i, j int) bool { s := b.Slice(); return s[i] < s[j] })),
			vx.SortedU64(in.sorted()) + "|true"
	case "rIter":
		// full iteration + seek to each universe value
		var g, w strings.Builder
		it := b.Iterator()
		it.Seek(0)
		for v, eof := it.Next(); !eof; v, eof = it.Next() {
			fmt.Fprintf(&g, "%d,", v)
		}
		s := in.sorted()
		for _, v := range s {
			fmt.Fprintf(&w, "%d,", v)
		}
		for _, sk := range c02Universe() {
			it := b.Iterator()
			it.Seek(sk)
			v, eof := it.Next()
			fmt.Fprintf(&g, "|%d:%d,%v", sk, v, eof)
			i := sort.Search(len(s), func(i int) bool { return s[i] >= sk })
			if i < len(s) {
				fmt.Fprintf(&w, "|%d:%d,%v", sk, s[i], false)
			} else {
				fmt.Fprintf(&w, "|%d:%d,%v", sk, 0, true)
			}
		}
		return g.String(), w.String()
	case "rContainers":
		// per-container view: the container iterator lists, for every key holding bits, exactly the
		// model's bits of that key; container N must equal its contents; min/max agree.
		var g, w strings.Builder
		cit, _ := b.Containers.Iterator(0)
		for cit.Next() {
			k, c := cit.Value()
			if c == nil || c.N() == 0 {
				continue // empty containers are permitted as long as no read path shows them
			}
			n := 0
			containerForEach(c, func(lb uint16) { fmt.Fprintf(&g, "%d,", k<<16|uint64(lb)); n++ })
			if int32(n) != c.N() {
				fmt.Fprintf(&g, "N-MISMATCH(key=%d n=%d N=%d)", k, n, c.N())
			}
		}
		s := in.sorted()
		for _, v := range s {
			fmt.Fprintf(&w, "%d,", v)
		}
		return g.String(), w.String()
	case "rMinMax":
		s := in.sorted()
		mn, ok := b.Min()
		got = fmt.Sprintf("min=%d,%v max=%d", mn, ok, b.Max())
		if len(s) > 0 {
			want = fmt.Sprintf("min=%d,%v max=%d", s[0], true, s[len(s)-1])
		} else {
			want = fmt.Sprintf("min=%d,%v max=%d", 0, false, 0)
		}
		return got, want
	case "fill":
		// macro-op: create containers at keys 3..3+N to force B-tree page splits
		n := uint64(op.Args[0])
		w := 0
		ch := 0
		for k := uint64(3); k < 3+n; k++ {
			v := k<<16 | 9
			if !in.model[v] {
				in.model[v] = true
				w++
			}
			if c, _ := b.Add(v); c {
				ch++
			}
		}
		return fmt.Sprint(ch), fmt.Sprint(w)
	case "unfill":
		n := uint64(op.Args[0])
		w := 0
		ch := 0
		for k := uint64(3); k < 3+n; k += 2 {
			v := k<<16 | 9
			if in.model[v] {
				delete(in.model, v)
				w++
			}
			if c, _ := b.Remove(v); c {
				ch++
			}
		}
		return fmt.Sprint(ch), fmt.Sprint(w)
	}
	panic("unknown op " + op.Name)
}

func containerForEach(c *Container, fn func(uint16)) {
	switch c.typ() {
	case containerArray:
		for _, v := range c.array() {
			fn(v)
		}
	case containerBitmap:
		for i, w := range c.bitmap() {
			for j := 0; j < 64; j++ {
				if w&(1<<uint(j)) != 0 {
					fn(uint16(i*64 + j))
				}
			}
		}
	case containerRun:
		for _, r := range c.runs() {
			for v := int(r.start); v <= int(r.last); v++ {
				fn(uint16(v))
			}
		}
	}
}

func c02RowSet(m map[uint64]int) string {
	ks := make([]uint64, 0, len(m))
	for k, v := range m {
		if v != 0 {
			ks = append(ks, k)
		}
	}
	sort.Slice(ks, func(i, j int) bool { return ks[i] < ks[j] })
	var sb strings.Builder
	for _, k := range ks {
		fmt.Fprintf(&sb, "%d:%d ", k, m[k])
	}
	return sb.String()
}

// Fingerprint: model contents + per-container encoding, emptiness and frozen flag + B-tree lookaside state.
func (in *c02Inst) Fingerprint() string {
	var sb strings.Builder
	sb.WriteString(vx.SortedU64(in.sorted()))
	sb.WriteByte('#')
	cit, _ := in.b.Containers.Iterator(0)
	for cit.Next() {
		k, c := cit.Value()
		fz := ""
		if c.frozen() {
			fz = "f" // a frozen (shared) container takes the copy-on-write path on its next mutation
		}
		fmt.Fprintf(&sb, "%d:%d:%d%s,", k, c.typ(), c.N(), fz)
	}
	if bt, ok := in.b.Containers.(*bTreeContainers); ok {
		var alias string
		if bt.lastContainer == nil {
			alias = "nil"
		} else if tc, ok := bt.tree.Get(bt.lastKey); ok && tc == bt.lastContainer {
			alias = "same"
		} else {
			alias = "stale"
		}
		fmt.Fprintf(&sb, "#la=%d,%s", bt.lastKey, alias)
	}
	return sb.String()
}

func (in *c02Inst) Close() {}

func c02Alphabet(thorough bool) []vx.Op {
	var a []vx.Op
	for _, v := range c02Vals {
		a = append(a, vx.O("add", int64(v)))
	}
	for _, v := range c02Vals {
		a = append(a, vx.O("remove", int64(v)))
	}
	a = append(a, vx.O("rContains"), vx.O("rCount"), vx.O("rIter"), vx.O("rContainers"), vx.O("rSlice"), vx.O("rMinMax"))
	for i := range c02Batches {
		a = append(a, vx.O("addN", int64(i)), vx.O("removeN", int64(i)))
	}
	for i := range c02Payloads {
		a = append(a, vx.O("import", 0, int64(i)), vx.O("import", 1, int64(i)))
	}
	a = append(a, vx.O("optimize"), vx.O("freeze"), vx.O("directAdd", 65536), vx.O("directAddN", 1), vx.O("directRemoveN", 1),
		vx.O("directAddN", 4), vx.O("directRemoveN", 4))
	if thorough {
		a = append(a, vx.O("fill", 600), vx.O("unfill", 600))
	}
	return a
}

func c02Key(p []vx.Op, got, want string) string {
	last := p[len(p)-1]
	ctx := map[string]bool{}
	for _, o := range p[:len(p)-1] {
		ctx[o.Name] = true
	}
	var names []string
	for n := range ctx {
		names = append(names, n)
	}
	sort.Strings(names)
	if strings.HasPrefix(got, "PANIC") {
		return "panic at=" + last.Name + " after=" + strings.Join(names, "+")
	}
	return "mismatch at=" + last.Name + " after=" + strings.Join(names, "+")
}

func TestVerif_C02(t *testing.T) {
	c := vx.NewCheck("C02", "model_checking",
		"all operation sequences over the alphabet up to the phase-A depth on a fresh real bitmap (slice and B-tree containers), then BFS over canonical (contents, encodings, lookaside) states; distinct = distinct canonical end states")
	for _, btree := range []bool{false, true} {
		btree := btree
		h := &vx.Harness{Alphabet: c02Alphabet(c.Thorough()), New: func() vx.Instance { return c02New(btree) }, Key: func(p []vx.Op, g, w string) string {
			k := "slice "
			if btree {
				k = "btree "
			}
			return k + c02Key(p, g, w)
		}}
		c.RunDFS(h, c.Pick(3, 4))
		c.RunBFS(h, c.Pick(5, 7), c.Pick(60000, 300000))
		c.ConfirmViolations(h)
	}
	c.AddValidated(c.Evaluations)
	c.Assume("values restricted to 3 container keys x boundary low bits plus macro fill of 600 keys (thorough)")
	if c.Finish() != 0 {
		t.Fail()
	}
}
