package roaring

// C04 — the checks: decode (UnmarshalBinary into slice and B-tree bitmaps, twice, buffer compared
// byte for byte) and import (ImportRoaringBits set|clear ≡ union/difference, changed count, per-row deltas).

import (
	"bytes"
	"fmt"
	"strings"
	"testing"
	"time"

	"github.com/pilosa/pilosa/internal/vx"
)

type c04Enc struct {
	format string // pilosa | pilosa-unoptimized | official | official+runs
	data   []byte
	want   c04Set
	flags  byte
	cs     []c04Cont
	run    []bool // official: which containers are run containers
}

type c04Case struct {
	Check   string `json:"check"`
	Format  string `json:"format"`
	Bitmap  string `json:"bitmap"`
	Runs    string `json:"run_containers,omitempty"`
	Target  string `json:"target,omitempty"`
	Variant string `json:"variant,omitempty"`
}

type c04W struct {
	c       *vx.Check
	evals   int64
	scratch []byte
	staged  int
	// emptySlots: before the import, every container key of the PAYLOAD that the target does not hold
	// gets one value added and removed again in the target — same contents, but the slot has a history
	// (the slice store keeps a nil entry for it, the B-tree store a deleted key)
	emptySlots bool
}

// The decoders view container payloads through unsafe casts; a mis-parsed header makes them read — and,
// for official run containers, WRITE — up to 65535*4+2 bytes past the end of the input. So that such a
// defect cannot corrupt the harness' own heap (and its verdicts), every input is staged at the front of a
// per-worker zeroed scratch area; the zone behind the input is checked (and re-zeroed) after each decode.
const c04Pad = 272 << 10

var c04Zero = make([]byte, c04Pad)

func (w *c04W) stage(data []byte) []byte {
	if len(w.scratch) < len(data)+c04Pad {
		w.scratch = make([]byte, len(data)+c04Pad+(1<<20))
		w.staged = 0
	}
	for i := len(data); i < w.staged; i++ { // remains of a longer previous input
		w.scratch[i] = 0
	}
	w.staged = len(data)
	copy(w.scratch, data)
	return w.scratch[:len(data):len(data)]
}

// tailDirty reports (and repairs) writes behind the staged input of length n.
func (w *c04W) tailDirty(n int) bool {
	t := w.scratch[n : n+c04Pad]
	if bytes.Equal(t, c04Zero) {
		return false
	}
	copy(t, c04Zero)
	return true
}

func (w *c04W) flush() { w.c.AddEval(w.evals); w.evals = 0 }

func c04RunStr(run []bool) string {
	var sb strings.Builder
	for _, r := range run {
		if r {
			sb.WriteByte('R')
		} else {
			sb.WriteByte('-')
		}
	}
	return sb.String()
}

// c04Read lists the bitmap through the public iterator, stopping a little after the expected size: a
// mis-decoded bitmap can describe billions of garbage values and must not be materialised.
func c04Read(b *Bitmap, expect int) []uint64 {
	out := make([]uint64, 0, expect+8)
	it := b.Iterator()
	it.Seek(0)
	for len(out) < expect+8 {
		v, eof := it.Next()
		if eof {
			break
		}
		out = append(out, v)
	}
	return out
}

// c04Decode1 decodes e.data into a fresh bitmap of the kind and reports the first discrepancy.
func c04Decode1(w *c04W, kind int, e *c04Enc) (how, got, exp string) {
	w.evals++
	pristine := e.data
	data := w.stage(e.data)
	b := c04NewKind(kind)
	var err error
	var g []uint64
	var n uint64
	p := vx.Guard(func() {
		if err = b.UnmarshalBinary(data); err == nil {
			g, n = c04Read(b, len(e.want)), b.Count()
		}
	})
	if w.tailDirty(len(data)) {
		return "writes-past-end-of-input", "memory behind the input buffer was modified by the decoder", "untouched"
	}
	if p != "" {
		return "panic", p, "no panic"
	}
	if err != nil {
		return "decode-error", err.Error(), "nil"
	}
	if !c04Eq(g, e.want) {
		return "wrong-set", c04Fmt(g), c04Fmt(e.want)
	}
	if n != uint64(len(e.want)) {
		return "wrong-count", fmt.Sprint(n), fmt.Sprint(len(e.want))
	}
	if b.Flags != e.flags {
		return "wrong-flags", fmt.Sprint(b.Flags), fmt.Sprint(e.flags)
	}
	if !bytes.Equal(data, pristine) {
		// second decode of the (now modified) caller's bytes
		b2 := c04NewKind(kind)
		var g2 []uint64
		p := vx.Guard(func() {
			if err = b2.UnmarshalBinary(data); err == nil {
				g2 = c04Read(b2, len(e.want))
			}
		})
		w.tailDirty(len(data))
		return "input-bytes-modified", fmt.Sprintf("buffer differs after decoding; decoding the same buffer again gives %s %v %s", c04Fmt(g2), err, p), "buffer unchanged; second decode " + c04Fmt(e.want)
	}
	// decoding the same bytes twice gives the same set
	b2 := c04NewKind(kind)
	var g2 []uint64
	if p := vx.Guard(func() {
		if err = b2.UnmarshalBinary(data); err == nil {
			g2 = c04Read(b2, len(e.want))
		}
	}); p != "" || err != nil || !c04Eq(g2, e.want) {
		w.tailDirty(len(data))
		return "second-decode-differs", fmt.Sprint(c04Fmt(g2), err, p), c04Fmt(e.want)
	}
	return "", "", ""
}

// c04Import1 imports e.data into a target built from tcs and compares with union/difference.
func c04Import1(w *c04W, kind int, tcs []c04Cont, mapped bool, e *c04Enc, clear bool, rowSize uint64) (how, got, exp string) {
	w.evals++
	pristine := e.data
	data := w.stage(e.data)
	t := c04Build(kind, tcs)
	if mapped {
		d, err := c04EncodePilosa(t, false)
		if err != nil {
			return "", "", ""
		}
		t = c04NewKind(kind)
		var derr error
		if p := vx.Guard(func() { derr = t.UnmarshalBinary(d) }); p != "" || derr != nil {
			// the target's own encoding does not decode: a round-trip failure, reported as such
			return "target-roundtrip", fmt.Sprint("mapped target cannot be built: ", derr, " ", p), "decodes"
		}
	}
	if w.emptySlots {
		have := map[uint64]bool{}
		for _, tc := range tcs {
			have[tc.key] = true
		}
		for _, pc := range e.cs {
			if !have[pc.key] {
				have[pc.key] = true
				v := pc.key<<16 | 7
				if _, err := t.Add(v); err != nil {
					return "", "", ""
				}
				if _, err := t.Remove(v); err != nil {
					return "", "", ""
				}
			}
		}
	}
	wt := c04Want(tcs)
	var x c04Set
	xrows := map[uint64]int{}
	if clear {
		x = c04Diff(wt, e.want)
		for _, v := range c04Diff(wt, x) {
			xrows[(v>>16)/rowSize]--
		}
	} else {
		x = c04Union(wt, e.want)
		for _, v := range c04Diff(x, wt) {
			xrows[(v>>16)/rowSize]++
		}
	}
	xchanged := len(x) - len(wt)
	if xchanged < 0 {
		xchanged = -xchanged
	}
	var changed int
	var rows map[uint64]int
	var err error
	var g []uint64
	var n uint64
	p := vx.Guard(func() {
		changed, rows, err = t.ImportRoaringBits(data, clear, false, rowSize)
		g, n = c04Read(t, len(x)), t.Count()
	})
	if w.tailDirty(len(data)) {
		return "writes-past-end-of-input", "memory behind the payload was modified by the import", "untouched"
	}
	if p != "" {
		return "panic", p, "no panic"
	}
	if err != nil {
		return "import-error", err.Error(), "nil"
	}
	if !c04Eq(g, x) {
		return "wrong-set", c04Fmt(g), c04Fmt(x)
	}
	if n != uint64(len(x)) {
		return "wrong-count", fmt.Sprint(n), fmt.Sprint(len(x))
	}
	if changed != xchanged {
		return "wrong-changed", fmt.Sprint(changed), fmt.Sprint(xchanged)
	}
	if gs, xs := c04SortedKeys(rows), c04SortedKeys(xrows); gs != xs {
		return "wrong-row-deltas", gs, xs
	}
	if !bytes.Equal(data, pristine) {
		return "input-bytes-modified", "payload differs after import", "payload unchanged"
	}
	return "", "", ""
}

// ---------------------------------------------------------------------------------------------
// classification: a failure on an official-format encoding is attributed to the smallest trigger
// by counterfactual re-runs (same check on a neighbouring encoding).

func c04HasCard4096(e *c04Enc) bool {
	for i, c := range e.cs {
		if len(c.sh.vals) == 4096 && !(len(e.run) > i && e.run[i]) {
			return true
		}
	}
	return false
}

func c04AnyRun(run []bool) bool {
	for _, r := range run {
		if r {
			return true
		}
	}
	return false
}

// c04Trigger returns the context tag for the finding key. again re-runs the failing check on another
// encoding and returns the discrepancy kind ("" = passes).
func c04Trigger(e *c04Enc, how string, again func(*c04Enc) string) string {
	if !strings.HasPrefix(e.format, "official") {
		return ""
	}
	if len(e.cs) == 0 {
		return " trigger=empty-bitmap(zero-containers)"
	}
	mk := func(cs []c04Cont, run []bool) *c04Enc {
		f := "official"
		if c04AnyRun(run) {
			f = "official+runs"
		}
		return &c04Enc{format: f, data: c04EncodeOfficial(cs, run), want: c04Want(cs), cs: cs, run: run}
	}
	// a counterfactual "passes" for attribution when it is clean or only shows the separate in-place
	// conversion of run containers (trigger c)
	pass := func(h string) bool { return h == "" || h == "input-bytes-modified" }
	fixCard := func(cs []c04Cont, run []bool) []c04Cont {
		out := append([]c04Cont(nil), cs...)
		for i := range out {
			if len(out[i].sh.vals) == 4096 && !(len(run) > i && run[i]) {
				out[i].sh = &c04Shape{name: out[i].sh.name + "-minus-last", vals: out[i].sh.vals[:4095]}
			}
		}
		return out
	}
	// (a) run cookie with >= 4 containers (offset header present): does the same bitmap cut to 3 containers
	// (and without 4096-value arrays) pass?
	if c04AnyRun(e.run) && len(e.cs) >= 4 {
		run := append([]bool(nil), e.run[:3]...)
		if !c04AnyRun(run) {
			run[0] = true // keep the run cookie
		}
		if pass(again(mk(fixCard(e.cs[:3], run), run))) {
			return " trigger=run-cookie-with->=4-containers(offset-header)"
		}
		return ""
	}
	// (b) a non-run container with exactly 4096 values (an array in the official format)
	if c04HasCard4096(e) && pass(again(mk(fixCard(e.cs, e.run), e.run))) {
		return " trigger=array-container-with-exactly-4096-values"
	}
	// (c) run containers with more than 2 runs (stored out of line, converted in place)
	if how == "input-bytes-modified" {
		return " trigger=run-container-with->2-runs(input-bytes-modified)"
	}
	return ""
}

// c04CheckDecode runs the decode check on both collection kinds and records violations.
func c04CheckDecode(w *c04W, e *c04Enc) {
	for kind := 0; kind < 2; kind++ {
		how, got, exp := c04Decode1(w, kind, e)
		if how == "" {
			continue
		}
		trig := c04Trigger(e, how, func(o *c04Enc) string { h, _, _ := c04Decode1(w, kind, o); return h })
		key := fmt.Sprintf("decode format=%s how=%s", e.format, how)
		if trig != "" {
			key = fmt.Sprintf("decode format=%s%s", e.format, trig)
		}
		if kind == 1 {
			// only distinguish the B-tree when the slice decode of the same bytes passes
			if h, _, _ := c04Decode1(w, 0, e); h == "" {
				key += " kind=btree"
			}
		}
		w.c.Violate(key, c04Case{Check: "decode", Format: e.format, Bitmap: c04Desc(e.cs), Runs: c04RunStr(e.run), Variant: c04KindName[kind]}, got, exp)
	}
}

func c04CheckImport(w *c04W, tcs []c04Cont, e *c04Enc, light bool) {
	defer func() { w.emptySlots = false }()
	for kind := 0; kind < 2; kind++ {
		for _, tm := range []int{0, 1, 2} { // target: fresh, mapped, fresh with emptied slots at the payload's keys
			mapped := tm == 1
			w.emptySlots = tm == 2
			for _, clear := range []bool{false, true} {
				for _, rowSize := range []uint64{1, 2} {
					if light && (mapped || rowSize != 1) {
						continue
					}
					how, got, exp := c04Import1(w, kind, tcs, mapped, e, clear, rowSize)
					if how == "" {
						continue
					}
					trig := c04Trigger(e, how, func(o *c04Enc) string {
						h, _, _ := c04Import1(w, kind, tcs, mapped, o, clear, rowSize)
						return h
					})
					mode := "set"
					if clear {
						mode = "clear"
					}
					key := fmt.Sprintf("import mode=%s format=%s how=%s", mode, e.format, how)
					if trig != "" {
						key = fmt.Sprintf("import format=%s%s", e.format, trig)
					}
					w.c.Violate(key, c04Case{Check: "import", Format: e.format, Bitmap: c04Desc(e.cs), Runs: c04RunStr(e.run), Target: c04Desc(tcs),
						Variant: fmt.Sprintf("%s mapped=%v emptied-slots=%v rowSize=%d", c04KindName[kind], mapped, w.emptySlots, rowSize)}, got, exp)
				}
			}
		}
	}
}

// c04Encodings: every encoding of the bitmap cs: pilosa WriteTo (flags), pilosa unoptimized (forced
// encodings as given), and — when representable — official without runs and with every run pattern.
func c04Encodings(w *c04W, cs []c04Cont, flags byte, allRunPatterns bool) []*c04Enc {
	want := c04Want(cs)
	var out []*c04Enc
	for _, opt := range []bool{true, false} {
		b := c04Build(0, cs)
		b.Flags = flags
		f := "pilosa"
		if !opt {
			f = "pilosa-unoptimized"
		}
		data, err := c04EncodePilosa(b, opt)
		if err != nil {
			w.c.Violate("encode format="+f+" how=error", c04Case{Check: "encode", Format: f, Bitmap: c04Desc(cs)}, err.Error(), "nil")
			continue
		}
		out = append(out, &c04Enc{format: f, data: data, want: want, flags: flags, cs: cs})
	}
	if len(cs) == 0 {
		// the empty bitmap in the official format: no-run cookie, zero containers (8 bytes)
		out = append(out, &c04Enc{format: "official", data: c04EncodeOfficial(nil, nil), want: want})
	}
	official := len(cs) > 0
	for _, c := range cs {
		if c.key > 0xFFFF || len(c.sh.vals) == 0 {
			official = false
		}
	}
	if official {
		n := len(cs)
		out = append(out, &c04Enc{format: "official", data: c04EncodeOfficial(cs, make([]bool, n)), want: want, cs: cs, run: make([]bool, n)})
		var pats []uint
		if allRunPatterns && n <= 6 {
			for m := uint(1); m < 1<<uint(n); m++ {
				pats = append(pats, m)
			}
		} else {
			pats = []uint{^uint(0), 0x5555555555555555}
		}
		for _, m := range pats {
			run := make([]bool, n)
			for i := range run {
				run[i] = m&(1<<uint(i%64)) != 0
			}
			out = append(out, &c04Enc{format: "official+runs", data: c04EncodeOfficial(cs, run), want: want, cs: cs, run: run})
		}
	}
	return out
}

func TestVerif_C04(t *testing.T) {
	c := vx.NewCheck("C04", "exploration",
		"full products, each member executed on the real code: (1) every subset of a boundary universe at keys {0,1,65535,65536,2^48-1} and every threshold-family container × encodings {pilosa WriteTo with flags, pilosa unoptimized × forced array/bitmap/run, official without runs, official with every run-container pattern} decoded by UnmarshalBinary into slice and B-tree bitmaps (set, count, flags, input bytes compared before/after, second decode); "+
			"(2) every assignment of shapes to 1..N containers × every run pattern (official encodings produced by an independent reference encoder written from the format spec); 65,536 containers; bitmaps left by Add;Remove; "+
			"(3) ImportRoaringBits set|clear of every payload encoding into every target of a family × {slice,btree} × {fresh,mapped,emptied-slots} × rowSize {1,2}: resulting set, changed count, per-row deltas, payload bytes. distinct = distinct (bitmap, encoding) pairs")
	thorough := c.Thorough()
	U := []uint16{0, 1, 2, 3, 4, 5, 65534, 65535}
	if thorough {
		U = []uint16{0, 1, 2, 3, 4, 5, 6, 63, 64, 65534, 65535}
	}
	c.Bound("universe_low_bits", U)
	masks := c04Masks(U)
	fam := c04Families()
	keys := []uint64{0, 1, 65535, 65536, maxContainerKey}

	t0 := time.Now()
	lap := func(name string) {
		fmt.Printf("INFO C04 part %s: %.1fs, evaluations so far %d, expired=%v\n", name, time.Since(t0).Seconds(), c.Evaluations, c.Expired())
		t0 = time.Now()
	}
	// (1) single-container bitmaps
	single := append(append([]*c04Shape{}, masks...), fam...)
	vx.ParallelFor(len(single), func(i int) {
		if c.Expired() {
			return
		}
		w := &c04W{c: c}
		sh := single[i]
		for _, key := range keys {
			for enc := 0; enc < 3; enc++ {
				cs := []c04Cont{{key: key, sh: sh, enc: enc}}
				if len(sh.vals) == 0 {
					cs = nil // the empty bitmap
				}
				for _, flags := range []byte{0, 0x81} {
					if flags != 0 && enc != 0 {
						continue
					}
					for _, e := range c04Encodings(w, cs, flags, true) {
						if enc != 0 && strings.HasPrefix(e.format, "official") {
							continue // official encodings do not depend on the forced pilosa encoding
						}
						c04CheckDecode(w, e)
						c.Distinct(fmt.Sprintf("1|%s|%d|%d|%s|%s|%d", sh.name, key, enc, e.format, c04RunStr(e.run), flags))
					}
				}
			}
		}
		if i%53 == 0 {
			c.Sample(fmt.Sprintf("decode: one container %s at keys %v × 3 forced encodings × all formats × {slice,btree}", sh.name, keys))
		}
		c.Outcome(fmt.Sprintf("single n=%d runs=%d", len(sh.vals), len(sh.runs())))
		w.flush()
	})

	lap("single")
	// (2b) 65,536 containers (every 16-bit key), and bitmaps whose container was emptied through the API
	{
		w := &c04W{c: c}
		one, two := &c04Shape{name: "{7}", vals: []uint16{7}}, &c04Shape{name: "{7,8,9}", vals: []uint16{7, 8, 9}}
		cs := make([]c04Cont, 65536)
		for k := range cs {
			cs[k] = c04Cont{key: uint64(k), sh: one, enc: k % 3}
			if k%5 == 0 {
				cs[k].sh = two
			}
		}
		bigEncs := c04Encodings(w, cs, 0, false)
		vx.ParallelFor(len(bigEncs), func(i int) {
			w := &c04W{c: c}
			e := bigEncs[i]
			c04CheckDecode(w, e)
			c04CheckImport(w, []c04Cont{{key: 3, sh: two, enc: 0}, {key: 65535, sh: one, enc: 2}}, e, true)
			c.Distinct("65536-containers|" + e.format + fmt.Sprint(len(e.run) > 0 && e.run[1]))
			w.flush()
		})
		c.Sample("decode+import: 65,536 containers (keys 0..65535) × pilosa / official / official+runs")
		for kind := 0; kind < 2; kind++ {
			for _, seq := range [][]uint64{{7}, {7, 65536 + 7}, {65536 + 7, 7}} {
				// build through the public API: Add all, Remove the first: leaves what Remove leaves
				b := c04NewKind(kind)
				var want c04Set
				for _, v := range seq {
					b.Add(v)
				}
				b.Remove(seq[0])
				for _, v := range seq[1:] {
					want = append(want, v)
				}
				w.evals++
				data, err := c04EncodePilosa(b, true)
				e := &c04Enc{format: "pilosa", data: data, want: want}
				desc := fmt.Sprintf("%s bitmap after Add%v;Remove(%d)", c04KindName[kind], seq, seq[0])
				if err != nil {
					c.Violate("encode format=pilosa how=error after=add-then-remove", c04Case{Check: "encode", Format: "pilosa", Bitmap: desc}, err.Error(), "nil")
					continue
				}
				for k2 := 0; k2 < 2; k2++ {
					if how, got, exp := c04Decode1(w, k2, e); how != "" {
						_ = how
						c.Violate("roundtrip format=pilosa after=add-then-remove source="+c04KindName[kind],
							c04Case{Check: "roundtrip", Format: "pilosa", Bitmap: desc, Variant: "decoded into " + c04KindName[k2]}, got, exp)
					}
				}
				c.Distinct("add-then-remove|" + desc)
			}
		}
		w.flush()
	}

	lap("65536+api")
	// (3) imports: target family × payload family × formats
	ishapes := []*c04Shape{
		nil, // no container at the key
		{name: "{0,1}", vals: []uint16{0, 1}},
		{name: "{1,2,3,4,5,6,65535}", vals: []uint16{1, 2, 3, 4, 5, 6, 65535}},
		c04ByName(fam, "stride2-N4096"),
	}
	importProduct := func(ishapes []*c04Shape, ikeys []uint64) {
		nb := 1
		for range ikeys {
			nb *= len(ishapes)
		}
		mkBitmap := func(x, rot int) []c04Cont {
			var cs []c04Cont
			for i := len(ikeys) - 1; i >= 0; i-- {
				if sh := ishapes[x%len(ishapes)]; sh != nil {
					cs = append([]c04Cont{{key: ikeys[i], sh: sh, enc: (i + rot + x) % 3}}, cs...)
				}
				x /= len(ishapes)
			}
			return cs
		}
		c.Bound(fmt.Sprintf("import_bitmaps_per_side_%dkeys", len(ikeys)), nb)
		vx.ParallelFor(nb, func(px int) {
			w := &c04W{c: c}
			pcs := mkBitmap(px, 0)
			encs := c04Encodings(w, pcs, 0, false)
			for tx := 0; tx < nb; tx++ {
				if c.Expired() {
					return
				}
				tcs := mkBitmap(tx, 1)
				for _, e := range encs {
					c04CheckImport(w, tcs, e, false)
				}
				if len(pcs) > 0 && len(tcs) > 0 {
					c.Distinct(fmt.Sprintf("3|%d|%d", px, tx))
				}
			}
			if px%17 == 0 {
				c.Sample("import: payload " + c04Desc(pcs) + " × all formats × set|clear × every target × {slice,btree} × {fresh,mapped,emptied-slots} × rowSize{1,2}")
			}
			c.Outcome(fmt.Sprintf("import payload containers=%d", len(pcs)))
			w.flush()
		})
	}
	importProduct(ishapes, []uint64{0, 1, 2})
	// full containers (expensive): a smaller product over two keys
	importProduct([]*c04Shape{nil, ishapes[1], c04ByName(fam, "full"), c04ByName(fam, "full-minus-0")}[:c.Pick(3, 4)], []uint64{0, 1})
	lap("import")
	// (largest product last, so that a deadline hit under load cuts only this part)
	// (2) multi-container bitmaps: every assignment of shapes to 1..N containers, every run pattern
	mshapes := []*c04Shape{
		{name: "{0}", vals: []uint16{0}},
		{name: "{0,2,4,6}", vals: []uint16{0, 2, 4, 6}},
		{name: "{5..9,65535}", vals: []uint16{5, 6, 7, 8, 9, 65535}},
		c04ByName(fam, "stride2-N4096"),
		c04ByName(fam, "full"),
	}
	if thorough {
		mshapes = append(mshapes, c04ByName(fam, "stride2-N4097"))
	}
	mkeys := []uint64{0, 1, 5, 65534, 65535, 7}
	maxN := c.Pick(4, 5)
	c.Bound("multi_container_shapes", len(mshapes))
	c.Bound("multi_container_max_count", maxN)
	type job struct{ n, x int }
	var jobs []job
	for n := 1; n <= maxN; n++ {
		tot := 1
		for i := 0; i < n; i++ {
			tot *= len(mshapes)
		}
		for x := 0; x < tot; x++ {
			jobs = append(jobs, job{n, x})
		}
	}
	vx.ParallelFor(len(jobs), func(j int) {
		if c.Expired() {
			return
		}
		w := &c04W{c: c}
		n, x := jobs[j].n, jobs[j].x
		ks := append([]uint64(nil), mkeys[:n]...)
		for a := range ks { // ascending keys
			for b := a + 1; b < len(ks); b++ {
				if ks[b] < ks[a] {
					ks[a], ks[b] = ks[b], ks[a]
				}
			}
		}
		cs := make([]c04Cont, n)
		for i := n - 1; i >= 0; i-- {
			cs[i] = c04Cont{key: ks[i], sh: mshapes[x%len(mshapes)], enc: (x + i) % 3}
			x /= len(mshapes)
		}
		for _, e := range c04Encodings(w, cs, 0, true) {
			c04CheckDecode(w, e)
			c.Distinct(fmt.Sprintf("2|%s|%s|%s", c04Desc(cs), e.format, c04RunStr(e.run)))
		}
		if j%997 == 0 {
			c.Sample("decode: " + c04Desc(cs) + " × all formats and run patterns × {slice,btree}")
		}
		c.Outcome(fmt.Sprintf("multi containers=%d", n))
		w.flush()
	})

	lap("multi")
	c.Assume("official-format inputs are produced by the harness' reference encoder written from the RoaringFormatSpec (offset header with the run cookie iff >= 4 containers; array iff cardinality <= 4096); it is trusted code")
	c.Assume("sets outside the boundary universe / threshold families are covered only by the small-scope argument")
	if c.Finish() != 0 {
		t.Fail()
	}
}
