package roaring

// C01 — the observations: every read of the exported Bitmap API and every set operation, each
// compared with the model. A read is a closure so it can be re-run on a reduced case.

import (
	"fmt"
	"sort"

	"github.com/pilosa/pilosa/internal/vx"
)

// c01IterLimit bounds how many elements a range slice / post-seek iteration compares on huge shapes
// (the complete iteration is compared once by Slice/ForEach).
const c01IterLimit = 300

type c01Read struct {
	name string
	f    func(w *c01W, b *Bitmap, want c01Set) (how, got, exp string)
}

func c01Points(keys []uint64, lows []uint16) []uint64 {
	m := map[uint64]bool{}
	for _, k := range keys {
		for _, u := range lows {
			v := k<<16 | uint64(u)
			m[v] = true
			if v != c01Max {
				m[v+1] = true
			}
		}
		if k > 0 {
			m[k<<16-1] = true
		}
	}
	out := make([]uint64, 0, len(m))
	for v := range m {
		out = append(out, v)
	}
	sort.Slice(out, func(i, j int) bool { return out[i] < out[j] })
	return out
}

// c01CheckResult compares a result bitmap with the expected set: ordered contents via Slice and the
// cardinality via Count (which reads the containers' stored N).
func c01CheckResult(w *c01W, r *Bitmap, exp c01Set) (how, got, expS string) {
	w.evals += 2
	var g []uint64
	if len(exp) > 1024 {
		// same iterator path as Slice, without re-growing a huge result slice
		g = make([]uint64, 0, len(exp)+8)
		r.ForEach(func(v uint64) { g = append(g, v) })
	} else {
		g = r.Slice()
	}
	if !c01Eq(g, exp) {
		return c01How(g, exp), c01Fmt(g), c01Fmt(exp)
	}
	if n := r.Count(); n != uint64(len(exp)) {
		return "count-" + c01LowHigh(n, uint64(len(exp))), fmt.Sprintf("Count()=%d Slice=%s", n, c01Fmt(g)), fmt.Sprintf("Count()=%d", len(exp))
	}
	return "", "", ""
}

// c01Reads builds the read battery for range/probe points pts. offs are aligned (offset,start,end)
// triples for OffsetRange; flips are inclusive ranges for Flip.
func c01Reads(pts []uint64, offs [][3]uint64, flips [][2]uint64) []c01Read {
	var rs []c01Read
	add := func(name string, f func(w *c01W, b *Bitmap, want c01Set) (string, string, string)) {
		rs = append(rs, c01Read{name, f})
	}
	add("Contains", func(w *c01W, b *Bitmap, want c01Set) (string, string, string) {
		for _, p := range pts {
			for _, q := range [2]uint64{p, p - 1} {
				if p == 0 && q != 0 {
					continue
				}
				w.evals++
				if g, e := b.Contains(q), c01Has(want, q); g != e {
					return fmt.Sprint("got-", g), fmt.Sprintf("Contains(%d)=%v", q, g), fmt.Sprint(e)
				}
			}
		}
		return "", "", ""
	})
	add("Count", func(w *c01W, b *Bitmap, want c01Set) (string, string, string) {
		w.evals += 2
		if g := b.Count(); g != uint64(len(want)) {
			return c01LowHigh(g, uint64(len(want))), fmt.Sprint(g), fmt.Sprint(len(want))
		}
		if g := b.Any(); g != (len(want) > 0) {
			return "any", fmt.Sprint("Any()=", g), fmt.Sprint(len(want) > 0)
		}
		return "", "", ""
	})
	add("CountRange", func(w *c01W, b *Bitmap, want c01Set) (string, string, string) {
		for i, s := range pts {
			for _, e := range pts[i:] {
				w.evals++
				g, x := b.CountRange(s, e), uint64(len(c01Range(want, s, e)))
				if g != x {
					return c01LowHigh(g, x), fmt.Sprintf("CountRange(%d,%d)=%d", s, e, g), fmt.Sprint(x)
				}
			}
		}
		return "", "", ""
	})
	add("Min", func(w *c01W, b *Bitmap, want c01Set) (string, string, string) {
		w.evals++
		g, ok := b.Min()
		var x uint64
		if len(want) > 0 {
			x = want[0]
		}
		if g != x || ok != (len(want) > 0) {
			return "differs", fmt.Sprint(g, ok), fmt.Sprint(x, len(want) > 0)
		}
		return "", "", ""
	})
	add("Max", func(w *c01W, b *Bitmap, want c01Set) (string, string, string) {
		w.evals++
		g := b.Max()
		var x uint64
		if len(want) > 0 {
			x = want[len(want)-1]
		}
		if g != x {
			return c01LowHigh(g, x), fmt.Sprint(g), fmt.Sprint(x)
		}
		return "", "", ""
	})
	add("Slice", func(w *c01W, b *Bitmap, want c01Set) (string, string, string) {
		w.evals++
		g := b.Slice()
		if !c01Eq(g, want) {
			return c01How(g, want), c01Fmt(g), c01Fmt(want)
		}
		return "", "", ""
	})
	add("ForEach", func(w *c01W, b *Bitmap, want c01Set) (string, string, string) {
		w.evals++
		var g []uint64
		b.ForEach(func(v uint64) { g = append(g, v) })
		if !c01Eq(g, want) {
			return c01How(g, want), c01Fmt(g), c01Fmt(want)
		}
		return "", "", ""
	})
	add("Iterator.Seek", func(w *c01W, b *Bitmap, want c01Set) (string, string, string) {
		for _, p := range pts {
			w.evals++
			it := b.Iterator()
			it.Seek(p)
			x := want[c01LB(want, p):]
			var g []uint64
			for len(g) < c01IterLimit {
				v, eof := it.Next()
				if eof {
					break
				}
				g = append(g, v)
			}
			if len(x) > c01IterLimit {
				x = x[:c01IterLimit]
			}
			if !c01Eq(g, x) {
				return c01How(g, x), fmt.Sprintf("Seek(%d) then Next*: %s", p, c01Fmt(g)), c01Fmt(x)
			}
		}
		return "", "", ""
	})
	add("SliceRange", func(w *c01W, b *Bitmap, want c01Set) (string, string, string) {
		for i, s := range pts {
			for _, e := range pts[i:] {
				x := c01Range(want, s, e)
				if len(x) > c01IterLimit {
					continue
				}
				w.evals++
				if g := b.SliceRange(s, e); !c01Eq(g, x) {
					return c01How(g, x), fmt.Sprintf("SliceRange(%d,%d)=%s", s, e, c01Fmt(g)), c01Fmt(x)
				}
			}
		}
		return "", "", ""
	})
	add("ForEachRange", func(w *c01W, b *Bitmap, want c01Set) (string, string, string) {
		for i, s := range pts {
			for _, e := range pts[i:] {
				x := c01Range(want, s, e)
				if len(x) > c01IterLimit {
					continue
				}
				w.evals++
				var g []uint64
				b.ForEachRange(s, e, func(v uint64) { g = append(g, v) })
				if !c01Eq(g, x) {
					return c01How(g, x), fmt.Sprintf("ForEachRange(%d,%d)=%s", s, e, c01Fmt(g)), c01Fmt(x)
				}
			}
		}
		return "", "", ""
	})
	for _, fl := range flips {
		s, e := fl[0], fl[1]
		add("Flip", func(w *c01W, b *Bitmap, want c01Set) (string, string, string) {
			how, g, x := c01CheckResult(w, b.Flip(s, e), c01Flip(want, s, e))
			if how != "" {
				g = fmt.Sprintf("Flip(%d,%d)=%s", s, e, g)
			}
			return how, g, x
		})
	}
	// the two reads below freeze / unmap the source's containers, so they come last.
	add("Shift", func(w *c01W, b *Bitmap, want c01Set) (string, string, string) {
		r, err := b.Shift(1)
		if err != nil {
			return "error", err.Error(), "nil"
		}
		return c01CheckResult(w, r, c01Shift(want))
	})
	if len(offs) > 0 {
		add("OffsetRange", func(w *c01W, b *Bitmap, want c01Set) (string, string, string) {
			for _, o := range offs {
				off, s, e := o[0], o[1], o[2]
				var x c01Set
				for _, v := range c01Range(want, s, e) {
					x = append(x, v-s+off)
				}
				how, g, xs := c01CheckResult(w, b.OffsetRange(off, s, e), x)
				if how != "" {
					return how, fmt.Sprintf("OffsetRange(%d,%d,%d)=%s", off, s, e, g), xs
				}
			}
			return "", "", ""
		})
	}
	return rs
}

// c01RunReads runs the battery; a panic is a failure of the read in progress and the battery goes on.
func c01RunReads(w *c01W, b *Bitmap, want c01Set, reads []c01Read) (fails []c01Fail) {
	i := 0
	for i < len(reads) {
		p := vx.Guard(func() {
			for ; i < len(reads); i++ {
				if how, g, x := reads[i].f(w, b, want); how != "" {
					fails = append(fails, c01Fail{reads[i].name, how, g, x})
				}
			}
		})
		if p != "" {
			fails = append(fails, c01Fail{reads[i].name, "panic", p, "no panic"})
			i++
		}
	}
	return fails
}

// ---------------------------------------------------------------------------------------------
// binary and n-ary set operations. mk builds a private copy of the receiver (for in-place ops).

type c01Bin struct {
	name string
	f    func(w *c01W, mk func() *Bitmap, a, b *Bitmap, wa, wb c01Set) (how, got, exp string)
}

func c01Bins() []c01Bin {
	return []c01Bin{
		{"Union", func(w *c01W, mk func() *Bitmap, a, b *Bitmap, wa, wb c01Set) (string, string, string) {
			return c01CheckResult(w, a.Union(b), c01Union(wa, wb))
		}},
		{"Intersect", func(w *c01W, mk func() *Bitmap, a, b *Bitmap, wa, wb c01Set) (string, string, string) {
			return c01CheckResult(w, a.Intersect(b), c01Inter(wa, wb))
		}},
		{"IntersectionCount", func(w *c01W, mk func() *Bitmap, a, b *Bitmap, wa, wb c01Set) (string, string, string) {
			w.evals++
			g, x := a.IntersectionCount(b), uint64(len(c01Inter(wa, wb)))
			if g != x {
				return c01LowHigh(g, x), fmt.Sprint(g), fmt.Sprint(x)
			}
			return "", "", ""
		}},
		{"Difference", func(w *c01W, mk func() *Bitmap, a, b *Bitmap, wa, wb c01Set) (string, string, string) {
			return c01CheckResult(w, a.Difference(b), c01Diff(wa, wb))
		}},
		{"Xor", func(w *c01W, mk func() *Bitmap, a, b *Bitmap, wa, wb c01Set) (string, string, string) {
			return c01CheckResult(w, a.Xor(b), c01Xor(wa, wb))
		}},
		{"UnionInPlace", func(w *c01W, mk func() *Bitmap, a, b *Bitmap, wa, wb c01Set) (string, string, string) {
			t := mk()
			t.UnionInPlace(b)
			return c01CheckResult(w, t, c01Union(wa, wb))
		}},
	}
}

func c01RunBins(w *c01W, bins []c01Bin, mk func() *Bitmap, a, b *Bitmap, wa, wb c01Set) (fails []c01Fail) {
	i := 0
	for i < len(bins) {
		p := vx.Guard(func() {
			for ; i < len(bins); i++ {
				if how, g, x := bins[i].f(w, mk, a, b, wa, wb); how != "" {
					fails = append(fails, c01Fail{bins[i].name, how, g, x})
				}
			}
		})
		if p != "" {
			fails = append(fails, c01Fail{bins[i].name, "panic", p, "no panic"})
			i++
		}
	}
	return fails
}

// c01Nary runs Union(others...) and UnionInPlace(others...) for 0..3 others.
func c01Nary(w *c01W, mk func() *Bitmap, others []*Bitmap, wa c01Set, wo []c01Set) (fails []c01Fail) {
	exp := wa
	for _, s := range wo {
		exp = c01Union(exp, s)
	}
	name := fmt.Sprintf("Union/%d", len(others))
	p := vx.Guard(func() {
		if how, g, x := c01CheckResult(w, mk().Union(others...), exp); how != "" {
			fails = append(fails, c01Fail{name, how, g, x})
		}
	})
	if p != "" {
		fails = append(fails, c01Fail{name, "panic", p, "no panic"})
	}
	name = fmt.Sprintf("UnionInPlace/%d", len(others))
	p = vx.Guard(func() {
		t := mk()
		t.UnionInPlace(others...)
		if how, g, x := c01CheckResult(w, t, exp); how != "" {
			fails = append(fails, c01Fail{name, how, g, x})
		}
	})
	if p != "" {
		fails = append(fails, c01Fail{name, "panic", p, "no panic"})
	}
	return fails
}
