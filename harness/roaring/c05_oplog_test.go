package roaring

// C05 — Replaying the operation log reproduces the in-memory bitmap.
// History exploration on ONE real bitmap whose OpWriter is a bytes.Buffer standing on a snapshot
// (exactly the fragment arrangement: snapshot bytes followed by the appended log). After EVERY step
// the bytes snapshot‖log are decoded into a slice bitmap and a B-tree bitmap; the decoded set and
// the decoded Ops() must equal what the live bitmap reports.

import (
	"bytes"
	"crypto/sha1"
	"encoding/binary"
	"fmt"
	"sort"
	"strings"
	"testing"

	"github.com/pilosa/pilosa/internal/vx"
)

var c05Vals = []uint64{1, 65535, 65536}

var c05AddBatches = [][]uint64{
	{1, 1, 65536},     // duplicate inside the batch
	{65536, 7, 1},     // unsorted, one new value
	{65535, 65536, 8}, // across containers
}

var c05RemoveBatches = [][]uint64{
	{1, 1},        // duplicate
	{9},           // absent value (in an existing or a missing container)
	{65536, 1, 3}, // unsorted, one absent
	{131072 + 4},  // absent, container never existed
}

var c05Payloads = [][]uint64{
	{1, 65536},
	{65535, 65537, 65538},
	{}, // an import that can change nothing
}

// c05Official encodes small sets in the official format without run containers (arrays only).
func c05Official(vals []uint64) []byte {
	byKey := map[uint64][]uint16{}
	var keys []uint64
	for _, v := range vals {
		if _, ok := byKey[v>>16]; !ok {
			keys = append(keys, v>>16)
		}
		byKey[v>>16] = append(byKey[v>>16], uint16(v))
	}
	sort.Slice(keys, func(i, j int) bool { return keys[i] < keys[j] })
	var b bytes.Buffer
	le := binary.LittleEndian
	put := func(v interface{}) { binary.Write(&b, le, v) }
	put(uint32(12346))
	put(uint32(len(keys)))
	for _, k := range keys {
		put(uint16(k))
		put(uint16(len(byKey[k]) - 1))
	}
	off := 8 + 8*len(keys)
	for _, k := range keys {
		put(uint32(off))
		off += 2 * len(byKey[k])
	}
	for _, k := range keys {
		a := byKey[k]
		sort.Slice(a, func(i, j int) bool { return a[i] < a[j] })
		put(a)
	}
	return b.Bytes()
}

func c05Pilosa(vals []uint64) []byte {
	var b bytes.Buffer
	if _, err := NewBitmap(vals...).WriteTo(&b); err != nil {
		panic(err)
	}
	return b.Bytes()
}

type c05Inst struct {
	kind  int
	live  *Bitmap
	snap  []byte // pristine snapshot bytes
	log   *bytes.Buffer
	model map[uint64]bool
	pay   [2][][]byte // [format][payload]
}

func c05NewKind(kind int) *Bitmap {
	if kind == 1 {
		return NewBTreeBitmap()
	}
	return NewBitmap()
}

func c05New(kind int, base []uint64) vx.Instance {
	in := &c05Inst{kind: kind, model: map[uint64]bool{}, log: &bytes.Buffer{}}
	in.snap = c05Pilosa(base)
	for _, v := range base {
		in.model[v] = true
	}
	in.live = c05NewKind(kind)
	if err := in.live.UnmarshalBinary(append([]byte(nil), in.snap...)); err != nil {
		panic(err)
	}
	in.live.OpWriter = in.log
	for _, p := range c05Payloads {
		in.pay[0] = append(in.pay[0], c05Pilosa(p))
		in.pay[1] = append(in.pay[1], c05Official(p))
	}
	return in
}

func c05State(b *Bitmap) string {
	ops, opN := b.Ops()
	return fmt.Sprintf("{%s} ops=%d opN=%d", vx.SortedU64(b.Slice()), ops, opN)
}

// decodeAll decodes snapshot‖log into both container collections.
func (in *c05Inst) observe() (got, want string) {
	live := c05State(in.live)
	var g, w []string
	for kind := 0; kind < 2; kind++ {
		data := append(append(make([]byte, 0, len(in.snap)+in.log.Len()), in.snap...), in.log.Bytes()...)
		d := c05NewKind(kind)
		if err := d.UnmarshalBinary(data); err != nil {
			g = append(g, "decode error: "+err.Error())
		} else {
			g = append(g, c05State(d))
		}
		w = append(w, live)
	}
	return strings.Join(g, " | "), strings.Join(w, " | ")
}

func (in *c05Inst) Apply(op vx.Op) (got, want string) {
	b := in.live
	switch op.Name {
	case "add":
		v := uint64(op.Args[0])
		if _, err := b.Add(v); err != nil {
			return "error " + err.Error(), "nil"
		}
		in.model[v] = true
	case "remove":
		v := uint64(op.Args[0])
		if _, err := b.Remove(v); err != nil {
			return "error " + err.Error(), "nil"
		}
		delete(in.model, v)
	case "addN":
		batch := append([]uint64(nil), c05AddBatches[op.Args[0]]...)
		for _, v := range batch {
			in.model[v] = true
		}
		if _, err := b.AddN(batch...); err != nil {
			return "error " + err.Error(), "nil"
		}
	case "removeN":
		batch := append([]uint64(nil), c05RemoveBatches[op.Args[0]]...)
		for _, v := range batch {
			delete(in.model, v)
		}
		if _, err := b.RemoveN(batch...); err != nil {
			return "error " + err.Error(), "nil"
		}
	case "import": // args: clear, payload, format
		clear := op.Args[0] == 1
		data := append([]byte(nil), in.pay[op.Args[2]][op.Args[1]]...)
		for _, v := range c05Payloads[op.Args[1]] {
			if clear {
				delete(in.model, v)
			} else {
				in.model[v] = true
			}
		}
		if _, _, err := b.ImportRoaringBits(data, clear, true, 16); err != nil {
			return "error " + err.Error(), "nil"
		}
	case "reencode":
		// what a fragment snapshot does: write the bitmap, start an empty log, zero the counters, and
		// point the containers at the new bytes.
		var buf bytes.Buffer
		if _, err := b.WriteTo(&buf); err != nil {
			return "error " + err.Error(), "nil"
		}
		in.snap = append([]byte(nil), buf.Bytes()...)
		in.log = &bytes.Buffer{}
		b.SetOps(0, 0)
		if op.Args[0] == 1 {
			if _, err := b.RemapRoaringStorage(append([]byte(nil), in.snap...)); err != nil {
				return "error " + err.Error(), "nil"
			}
		}
		b.OpWriter = in.log
	case "reopen":
		// what a fragment reopen does: decode snapshot‖log and keep appending to the same log.
		data := append(append([]byte(nil), in.snap...), in.log.Bytes()...)
		nb := c05NewKind(in.kind)
		if err := nb.UnmarshalBinary(data); err != nil {
			return "reopen error " + err.Error(), "nil"
		}
		nb.OpWriter = in.log
		in.live = nb
	default:
		panic("unknown op " + op.Name)
	}
	return in.observe()
}

// Fingerprint: everything the future can depend on. The log is represented by the decoded state it
// replays to (replay is sequential: a suffix only sees the bitmap the prefix produced) plus the live
// bitmap's hidden state (encodings, flags, counters, lookaside) and the snapshot identity.
func (in *c05Inst) Fingerprint() string {
	var sb strings.Builder
	h := sha1.Sum(in.snap)
	fmt.Fprintf(&sb, "%x|", h[:8])
	dump := func(b *Bitmap) {
		it, _ := b.Containers.Iterator(0)
		for it.Next() {
			k, c := it.Value()
			if c == nil {
				fmt.Fprintf(&sb, "%d:nil,", k)
				continue
			}
			fmt.Fprintf(&sb, "%d:%d:%d:%d:", k, c.typ(), c.N(), c.flags)
			switch c.typ() {
			case containerArray:
				fmt.Fprint(&sb, c.array())
			case containerRun:
				fmt.Fprint(&sb, c.runs())
			default:
				for i, w := range c.bitmap() {
					if w != 0 {
						fmt.Fprintf(&sb, "%d=%x ", i, w)
					}
				}
			}
			sb.WriteByte(',')
		}
		ops, opN := b.Ops()
		fmt.Fprintf(&sb, "ops=%d,%d", ops, opN)
		switch cs := b.Containers.(type) {
		case *bTreeContainers:
			fmt.Fprintf(&sb, " la=%d,%v", cs.lastKey, cs.lastContainer != nil)
		case *sliceContainers:
			fmt.Fprintf(&sb, " la=%d,%v n=%d", cs.lastKey, cs.lastContainer != nil, len(cs.keys))
		}
		sb.WriteByte('|')
	}
	dump(in.live)
	for kind := 0; kind < 2; kind++ {
		d := c05NewKind(kind)
		data := append(append([]byte(nil), in.snap...), in.log.Bytes()...)
		if err := d.UnmarshalBinary(data); err != nil {
			sb.WriteString("ERR|")
			continue
		}
		dump(d)
	}
	return sb.String()
}

func (in *c05Inst) Close() {}

func c05Alphabet(thorough bool) []vx.Op {
	var a []vx.Op
	for _, v := range c05Vals {
		a = append(a, vx.O("add", int64(v)))
	}
	for _, v := range c05Vals {
		a = append(a, vx.O("remove", int64(v)))
	}
	a = append(a, vx.O("remove", 3)) // absent value
	for i := range c05AddBatches {
		a = append(a, vx.O("addN", int64(i)))
	}
	for i := range c05RemoveBatches {
		a = append(a, vx.O("removeN", int64(i)))
	}
	for f := 0; f < 2; f++ {
		for p := range c05Payloads {
			if f == 1 && (!thorough && p != 0 || len(c05Payloads[p]) == 0) {
				continue // (the empty official payload is C04's subject: decoding zero containers)
			}
			a = append(a, vx.O("import", 0, int64(p), int64(f)), vx.O("import", 1, int64(p), int64(f)))
		}
	}
	a = append(a, vx.O("reencode", 0), vx.O("reencode", 1), vx.O("reopen"))
	return a
}

// c05StateTag describes the hidden state of the live bitmap that the failing step started from.
func c05StateTag(b *Bitmap) string {
	tag := "clean"
	if sc, ok := b.Containers.(*sliceContainers); ok {
		for _, c := range sc.containers {
			if c == nil {
				return "nil-slot"
			}
		}
	}
	it, _ := b.Containers.Iterator(0)
	for it.Next() {
		if _, c := it.Value(); c != nil && c.N() == 0 {
			tag = "empty-container"
		}
	}
	return tag
}

// c05Key: finding key = what differs + the failing step + the live bitmap's hidden state before that
// step (obtained by replaying the minimal path without its last op).
func c05Key(mk func() vx.Instance, p []vx.Op, got, want string) string {
	last := p[len(p)-1]
	state := "?"
	vx.Guard(func() {
		in := mk().(*c05Inst)
		for _, o := range p[:len(p)-1] {
			in.Apply(o)
		}
		state = c05StateTag(in.live)
	})
	what := "set"
	switch {
	case strings.HasPrefix(got, "PANIC"):
		what = "panic"
	case strings.Contains(got, "error"):
		what = "decode-error"
	default:
		// same sets, different counters?
		gs, ws := strings.Split(got, " | "), strings.Split(want, " | ")
		if len(gs) == len(ws) {
			same := true
			for i := range gs {
				if strings.SplitN(gs[i], "}", 2)[0] != strings.SplitN(ws[i], "}", 2)[0] {
					same = false
				}
			}
			if same {
				what = "ops-counters"
			}
		}
	}
	at := last.Name
	if last.Name == "import" {
		at = fmt.Sprintf("import(clear=%d,format=%d)", last.Args[0], last.Args[2])
	}
	return "replay-differs what=" + what + " at=" + at + " state-before=" + state
}

func TestVerif_C05(t *testing.T) {
	c := vx.NewCheck("C05", "model_checking",
		"all sequences of logged mutations (add/remove, batch add/remove with duplicates, unsorted and absent values, roaring set/clear imports in pilosa and official format incl. no-op imports, re-encode with and without remap, reopen) up to the phase-A depth on a real bitmap (slice and B-tree; empty and non-empty snapshot); after EVERY step snapshot‖log is decoded into a slice and a B-tree bitmap and set + Ops() are compared with the live bitmap; then BFS over canonical states (live hidden state + decoded state)")
	bases := [][]uint64{nil, {1, 2, 65536, 65540}}
	for kind := 0; kind < 2; kind++ {
		for bi, base := range bases {
			kind, base := kind, base
			mk := func() vx.Instance { return c05New(kind, base) }
			h := &vx.Harness{Alphabet: c05Alphabet(c.Thorough()), New: mk, Key: func(p []vx.Op, g, w string) string {
				return c05Key(mk, p, g, w) + fmt.Sprintf(" live=%s", [2]string{"slice", "btree"}[kind])
			}}
			depth := c.Pick(3, 4)
			if bi == 0 && kind == 0 {
				depth = 4
			}
			c.RunDFS(h, depth)
			c.RunBFS(h, c.Pick(4, 6), c.Pick(60000, 400000))
			c.ConfirmViolations(h)
		}
	}
	c05BigPart(c) // op records whose changed-bit count / batch length sits at and beyond 2^16
	c.AddValidated(c.Evaluations)
	c.Assume("values restricted to containers 0,1,2 with boundary low bits; payloads are three small sets in pilosa and official (array) format; the 2^16-sized payloads of the second part run one fixed 6-step history each")
	c.Assume("phase-B state merging represents the log by the bitmap it replays to (replay is sequential) plus the live bitmap's containers, flags, counters and lookaside")
	if c.Finish() != 0 {
		t.Fail()
	}
}
