package roaring

// C05 — second part: logged operations whose changed-bit count sits at and beyond 2^16 (one full
// container, one bit more, one and a half, two containers, a sparse payload of 2^16+1 bits). The small
// alphabet of the first part never produces an op record whose count needs more than a few bits of
// the 4-byte field, nor a batch record with tens of thousands of values. Enumerated: live container
// collection x base snapshot x payload x every prefix of a fixed 6-step history (set import, the same
// import again = no-op, batch remove, batch add, clear import, clear import again); after EVERY step
// snapshot‖log is decoded into a slice and a B-tree bitmap and set + Ops() are compared with live.

import (
	"fmt"

	"github.com/pilosa/pilosa/internal/vx"
)

func c05BigPart(c *vx.Check) {
	rng := func(from, n uint64, stride uint64) []uint64 {
		out := make([]uint64, 0, n)
		for i := uint64(0); i < n; i++ {
			out = append(out, from+i*stride)
		}
		return out
	}
	type pl struct {
		name string
		vals []uint64
	}
	pls := []pl{
		{"range[0,65535)", rng(0, 65535, 1)},
		{"range[0,65536)", rng(0, 65536, 1)},
		{"range[0,65537)", rng(0, 65537, 1)},
		{"range[65530,65530+65536)", rng(65530, 65536, 1)},
		{"range[0,98304)", rng(0, 98304, 1)},
		{"range[0,131072)", rng(0, 131072, 1)},
		{"even[0,2*65537)", rng(0, 65537, 2)},
		{"range[0,300)", rng(0, 300, 1)}, // a batch record with hundreds of values, far below 2^16
	}
	bases := []pl{{"empty", nil}, {"{1}", []uint64{1}}, {"range[0,100)", rng(0, 100, 1)}, {"{65536}", []uint64{65536}}}
	c.Bound("big_payloads", len(pls))
	for kind := 0; kind < 2; kind++ {
		for _, base := range bases {
			for _, p := range pls {
				in := c05New(kind, base.vals).(*c05Inst)
				data := c05Pilosa(p.vals)
				imp := func(clear bool) func() error {
					return func() error {
						_, _, err := in.live.ImportRoaringBits(append([]byte(nil), data...), clear, true, 16)
						return err
					}
				}
				steps := []struct {
					name string
					f    func() error
				}{
					{"importSet", imp(false)},
					{"importSetAgain", imp(false)},
					{"removeN", func() error { _, err := in.live.RemoveN(append([]uint64(nil), p.vals...)...); return err }},
					{"addN", func() error { _, err := in.live.AddN(append([]uint64(nil), p.vals...)...); return err }},
					{"importClear", imp(true)},
					{"importClearAgain", imp(true)},
				}
				hist := ""
				for _, st := range steps {
					hist += st.name + ";"
					cs := map[string]interface{}{"live": [2]string{"slice", "btree"}[kind], "base": base.name, "payload": p.name, "history": hist}
					if err := st.f(); err != nil {
						c.Violate("big-op error at="+st.name, cs, err.Error(), "nil")
						break
					}
					lo, ln := in.live.Ops()
					want := fmt.Sprintf("count=%d ops=%d opN=%d", in.live.Count(), lo, ln)
					bad := false
					for dk := 0; dk < 2; dk++ {
						c.AddEval(1)
						d := c05NewKind(dk)
						all := append(append(make([]byte, 0, len(in.snap)+in.log.Len()), in.snap...), in.log.Bytes()...)
						got := ""
						if err := d.UnmarshalBinary(all); err != nil {
							got = "decode error: " + err.Error()
						} else {
							do, dn := d.Ops()
							got = fmt.Sprintf("count=%d ops=%d opN=%d", d.Count(), do, dn)
							if x := in.live.Xor(d).Count(); x != 0 {
								got += fmt.Sprintf(" differing-bits=%d", x)
							}
						}
						if got != want {
							c.Violate("big-op replay-differs at="+st.name, cs, got, want)
							bad = true
							break
						}
					}
					c.Distinct(fmt.Sprintf("big|%d|%s|%s|%s", kind, base.name, p.name, hist))
					c.Outcome("big " + st.name + " " + want)
					if bad {
						break
					}
				}
			}
		}
	}
}
