package boltdb_test

// C25 — Attributes merge, persist and diff correctly.
//
// Bounded-exhaustive exploration of operation histories on the REAL boltdb attribute store (one
// bolt file on tmpfs per explored history) against a typed map model. Black box: only the exported
// pilosa.AttrStore API is used, so any edit of boltdb/attrstore.go still compiles with this file.
//
//   * writes: SetAttrs / SetBulkAttrs with values {"s", int64 1, int 1, uint64 1, true, 1.5, nil}
//     on keys {x,y}, ids {0,1,99,100,101} (both sides of the block boundary at 100)
//   * reads of present and absent ids are operations of the alphabet (they fill the cache)
//   * adversarial caller: "mutate the last map the store handed out"
//   * restart: Close+Open of the same object (cache survives) and a new store object on the same path
//   * rBlocks: Blocks() + BlockData() of every block against the model, and every block checksum
//     against the checksum of a SECOND store driven to the same block contents by a different history
//     (one SetBulkAttrs on a fresh file); at the end all distinct block contents seen must have had
//     pairwise distinct checksums.

import (
	"encoding/hex"
	"fmt"
	"os"
	"path/filepath"
	"reflect"
	"regexp"
	"sort"
	"strings"
	"sync"
	"testing"
	"time"

	"github.com/pilosa/pilosa"
	"github.com/pilosa/pilosa/boltdb"
	"github.com/pilosa/pilosa/internal/vx"
)

const c25BlockSize = 100 // ids are grouped in blocks of 100 (statement: "blocks bounded by ID multiples of 100")

type c25Set struct {
	id uint64
	m  map[string]interface{}
}

func c25Values() []interface{} {
	return []interface{}{"s", int64(1), int(1), uint64(1), true, 1.5, nil}
}

// single-id updates (SetAttrs)
func c25Sets(thorough bool) []c25Set {
	var out []c25Set
	for _, v := range c25Values() {
		out = append(out, c25Set{1, map[string]interface{}{"x": v}})
	}
	out = append(out,
		c25Set{1, map[string]interface{}{"y": "s"}},
		c25Set{1, map[string]interface{}{"y": nil}},
		c25Set{1, map[string]interface{}{"x": "s", "y": int64(1)}},
		c25Set{1, map[string]interface{}{}},
		c25Set{0, map[string]interface{}{"x": "s"}},
		c25Set{99, map[string]interface{}{"x": "s"}},
		c25Set{100, map[string]interface{}{"x": "s"}},
		c25Set{100, map[string]interface{}{"x": nil}},
		c25Set{101, map[string]interface{}{"x": int64(1)}},
	)
	if thorough {
		out = append(out,
			c25Set{1, map[string]interface{}{"x": nil, "y": nil}},
			c25Set{1, map[string]interface{}{"x": ""}},
			c25Set{1, map[string]interface{}{"x": int64(0)}},
			c25Set{1, map[string]interface{}{"x": false}},
			c25Set{99, map[string]interface{}{"x": nil}},
			c25Set{100, map[string]interface{}{"y": 1.5}},
		)
	}
	return out
}

// multi-id updates (SetBulkAttrs)
func c25Bulks() []map[uint64]map[string]interface{} {
	return []map[uint64]map[string]interface{}{
		{1: {"x": "s"}, 100: {"x": true}},
		{99: {"x": 1.5}, 100: {"x": nil}, 1: {"y": int(1)}},
		{1: {}},
		{},
	}
}

var c25ReadIDs = []uint64{1, 100, 7} // 7 is never written: always absent

// ---------------------------------------------------------------------------------------------

func c25Norm(v interface{}) interface{} {
	switch x := v.(type) {
	case int:
		return int64(x)
	case uint:
		return int64(x)
	case uint64:
		return int64(x)
	}
	return v
}

func c25Render(m map[string]interface{}) string {
	keys := make([]string, 0, len(m))
	for k := range m {
		keys = append(keys, k)
	}
	sort.Strings(keys)
	var sb strings.Builder
	for i, k := range keys {
		if i > 0 {
			sb.WriteByte(',')
		}
		fmt.Fprintf(&sb, "%s=%T:%v", k, m[k], m[k])
	}
	return sb.String()
}

func c25RenderIDs(m map[uint64]map[string]interface{}) string {
	ids := make([]uint64, 0, len(m))
	for id := range m {
		ids = append(ids, id)
	}
	sort.Slice(ids, func(i, j int) bool { return ids[i] < ids[j] })
	var sb strings.Builder
	for _, id := range ids {
		fmt.Fprintf(&sb, "%d:(%s);", id, c25Render(m[id]))
	}
	return sb.String()
}

func c25MapPtr(m map[string]interface{}) uintptr {
	if m == nil {
		return 0
	}
	return reflect.ValueOf(m).Pointer()
}

// A map object that two unrelated stores both hand out is process-global state: a caller mutating it
// would leak into every history explored concurrently. The harness detects such an object by
// identity (no reference to unexported names) and performs that one mutation under an exclusive
// lock, probes, and restores it, so other explored histories never see it.
var (
	c25mu        sync.RWMutex
	c25SharedPtr uintptr
)

func c25DetectShared() {
	var ptrs [2]uintptr
	for i := range ptrs {
		dir := vx.Scratch()
		s := boltdb.NewAttrStore(filepath.Join(dir, "probe.db"))
		if err := s.Open(); err != nil {
			panic(err)
		}
		m, _ := s.Attrs(7)
		ptrs[i] = c25MapPtr(m)
		s.Close()
		os.RemoveAll(dir)
	}
	if ptrs[0] != 0 && ptrs[0] == ptrs[1] {
		c25SharedPtr = ptrs[0]
	}
}

// canonical checksum of a block content: a second store driven by ONE SetBulkAttrs call.
var c25Canon sync.Map // content string -> checksum hex (or "ERR:…")

func c25CanonChecksum(block uint64, content map[uint64]map[string]interface{}) string {
	key := fmt.Sprintf("b%d|%s", block, c25RenderIDs(content))
	if v, ok := c25Canon.Load(key); ok {
		return v.(string)
	}
	dir := vx.Scratch()
	defer os.RemoveAll(dir)
	s := boltdb.NewAttrStore(filepath.Join(dir, "canon.db"))
	res := ""
	if err := s.Open(); err != nil {
		res = "ERR:open:" + err.Error()
	} else {
		in := map[uint64]map[string]interface{}{}
		for id, m := range content {
			c := map[string]interface{}{}
			for k, v := range m {
				c[k] = v
			}
			in[id] = c
		}
		if err := s.SetBulkAttrs(in); err != nil {
			res = "ERR:bulk:" + err.Error()
		} else if blks, err := s.Blocks(); err != nil {
			res = "ERR:blocks:" + err.Error()
		} else if len(blks) != 1 || blks[0].ID != block {
			res = fmt.Sprintf("ERR:canonical store reports blocks %v for content of block %d", blks, block)
		} else {
			res = hex.EncodeToString(blks[0].Checksum)
		}
		s.Close()
	}
	c25Canon.Store(key, res)
	return res
}

// ---------------------------------------------------------------------------------------------

type c25Inst struct {
	dir   string
	path  string
	s     pilosa.AttrStore
	sets  []c25Set
	bulks []map[uint64]map[string]interface{}

	model map[uint64]map[string]interface{} // only ids with at least one attribute

	// what the caller holds
	last       map[string]interface{}
	lastID     uint64
	lastCold   bool // handed out by the first access of that id on this store object
	lastAbsent bool

	// bookkeeping for Fingerprint / classification only (never for the oracle)
	touched map[uint64]bool // ids accessed on the current store object (=> cached)
	written map[uint64]bool // ids ever named by a write that reached storage
}

func c25New(thorough bool) vx.Instance {
	dir := vx.Scratch()
	in := &c25Inst{dir: dir, path: filepath.Join(dir, "attrs.db"), sets: c25Sets(thorough), bulks: c25Bulks(),
		model: map[uint64]map[string]interface{}{}, touched: map[uint64]bool{}, written: map[uint64]bool{}}
	in.s = boltdb.NewAttrStore(in.path)
	if err := in.s.Open(); err != nil {
		panic(err)
	}
	return in
}

func (in *c25Inst) Close() {
	in.s.Close()
	os.RemoveAll(in.dir)
}

func c25Copy(m map[string]interface{}) map[string]interface{} {
	c := make(map[string]interface{}, len(m))
	for k, v := range m {
		c[k] = v
	}
	return c
}

func (in *c25Inst) modelUpdate(id uint64, m map[string]interface{}) {
	cur := in.model[id]
	if cur == nil {
		cur = map[string]interface{}{}
	}
	for k, v := range m {
		if v == nil {
			delete(cur, k)
		} else {
			cur[k] = c25Norm(v)
		}
	}
	if len(cur) == 0 {
		delete(in.model, id)
	} else {
		in.model[id] = cur
	}
}

func (in *c25Inst) Apply(op vx.Op) (got, want string) {
	if op.Name == "mutate" && in.last != nil && c25SharedPtr != 0 && c25MapPtr(in.last) == c25SharedPtr {
		// the store handed out a process-global map: mutate it in isolation, probe, restore.
		c25mu.Lock()
		defer c25mu.Unlock()
		saved := c25Copy(in.last)
		in.last["z"] = "evil"
		in.last["x"] = "s"
		a, err1 := in.s.Attrs(in.lastID)
		b, err2 := in.s.Attrs(7)
		got = fmt.Sprintf("shared-map-mutated read(%d)=%s %v read(7)=%s %v", in.lastID, c25Render(a), err1, c25Render(b), err2)
		want = fmt.Sprintf("shared-map-mutated read(%d)=%s %v read(7)=%s %v", in.lastID, c25Render(in.model[in.lastID]), nil, "", nil)
		for k := range in.last {
			delete(in.last, k)
		}
		for k, v := range saved {
			in.last[k] = v
		}
		in.touched[in.lastID], in.touched[7] = true, true
		in.last = nil
		return got, want
	}
	c25mu.RLock()
	defer c25mu.RUnlock()
	switch op.Name {
	case "set":
		st := in.sets[op.Args[0]]
		err := in.s.SetAttrs(st.id, c25Copy(st.m)) // the store gets its own copy; the harness keeps nothing
		if len(st.m) > 0 {
			in.modelUpdate(st.id, st.m)
			in.touched[st.id] = true
			in.written[st.id] = true
		}
		return fmt.Sprint(err), fmt.Sprint(nil)
	case "bulk":
		b := in.bulks[op.Args[0]]
		arg := map[uint64]map[string]interface{}{}
		for id, m := range b {
			arg[id] = c25Copy(m)
		}
		err := in.s.SetBulkAttrs(arg)
		ids := make([]uint64, 0, len(b))
		for id := range b {
			ids = append(ids, id)
		}
		sort.Slice(ids, func(i, j int) bool { return ids[i] < ids[j] })
		for _, id := range ids {
			in.modelUpdate(id, b[id])
			in.touched[id] = true
			in.written[id] = true
		}
		return fmt.Sprint(err), fmt.Sprint(nil)
	case "read":
		id := uint64(op.Args[0])
		m, err := in.s.Attrs(id)
		in.last, in.lastID, in.lastCold = m, id, !in.touched[id]
		_, present := in.model[id]
		in.lastAbsent = !present
		in.touched[id] = true
		return c25Render(m) + " " + fmt.Sprint(err), c25Render(in.model[id]) + " " + fmt.Sprint(nil)
	case "mutate":
		// adversarial caller: scribble on the last map the store handed out.
		if in.last != nil {
			in.last["z"] = "evil"
			in.last["x"] = "s"
			in.last = nil
		}
		return "", ""
	case "reopenSame":
		e1 := in.s.Close()
		e2 := in.s.Open()
		return fmt.Sprint(e1, e2), fmt.Sprint(nil, nil)
	case "reopenNew":
		e1 := in.s.Close()
		in.s = boltdb.NewAttrStore(in.path)
		e2 := in.s.Open()
		in.touched = map[uint64]bool{}
		return fmt.Sprint(e1, e2), fmt.Sprint(nil, nil)
	case "rBlocks":
		return in.blocks()
	}
	panic("unknown op " + op.Name)
}

// blocks: the store's block list + data + checksum-vs-second-store, against the model's.
func (in *c25Inst) blocks() (got, want string) {
	// model blocks
	mb := map[uint64]map[uint64]map[string]interface{}{}
	for id, m := range in.model {
		b := id / c25BlockSize
		if mb[b] == nil {
			mb[b] = map[uint64]map[string]interface{}{}
		}
		mb[b][id] = m
	}
	mids := make([]uint64, 0, len(mb))
	for b := range mb {
		mids = append(mids, b)
	}
	sort.Slice(mids, func(i, j int) bool { return mids[i] < mids[j] })
	var w strings.Builder
	for _, b := range mids {
		fmt.Fprintf(&w, "b%d[same-checksum-as-equal-store]{%s} ", b, c25RenderIDs(mb[b]))
	}

	var g strings.Builder
	blks, err := in.s.Blocks()
	if err != nil {
		return "ERR:" + err.Error(), w.String()
	}
	reported := map[uint64]bool{}
	for _, blk := range blks { // order as reported: must be ascending, once each
		reported[blk.ID] = true
		data, err := in.s.BlockData(blk.ID)
		if err != nil {
			fmt.Fprintf(&g, "b%d[ERR:%v] ", blk.ID, err)
			continue
		}
		ck := "same-checksum-as-equal-store"
		if content, ok := mb[blk.ID]; ok {
			canon := c25CanonChecksum(blk.ID, content)
			if canon != hex.EncodeToString(blk.Checksum) {
				ck = "checksum-differs-from-equal-store"
				if strings.HasPrefix(canon, "ERR:") {
					ck = canon
				}
			}
		} else {
			ck = "block-without-attributes"
		}
		fmt.Fprintf(&g, "b%d[%s]{%s} ", blk.ID, ck, c25RenderIDs(data))
	}
	// data of model blocks the store did not report
	for _, b := range mids {
		if !reported[b] {
			data, err := in.s.BlockData(b)
			fmt.Fprintf(&g, "UNREPORTED b%d{%s}%v ", b, c25RenderIDs(data), err)
		}
	}
	return g.String(), w.String()
}

func c25SetOf(m map[uint64]bool) string {
	ids := make([]uint64, 0, len(m))
	for id := range m {
		ids = append(ids, id)
	}
	return vx.SortedU64(ids)
}

// Fingerprint: model contents + (over-approximation of the hidden state, from the history alone)
// ids cached on the current store object, ids that ever reached storage (records with no attributes
// left are storage state the model does not show), and what the caller holds.
func (in *c25Inst) Fingerprint() string {
	held := "none"
	if in.last != nil {
		held = fmt.Sprintf("%d,cold=%v,absent=%v", in.lastID, in.lastCold, in.lastAbsent)
	}
	return c25RenderIDs(in.model) + "#c=" + c25SetOf(in.touched) + "#w=" + c25SetOf(in.written) + "#h=" + held
}

func c25Alphabet(thorough bool) []vx.Op {
	var a []vx.Op
	for i, st := range c25Sets(thorough) {
		a = append(a, vx.Op{Name: "set", Args: []int64{int64(i)}, S: fmt.Sprintf("%d:{%s}", st.id, c25Render(st.m))})
	}
	for _, id := range c25ReadIDs {
		a = append(a, vx.O("read", int64(id)))
	}
	a = append(a, vx.O("mutate"), vx.O("rBlocks"), vx.O("reopenNew"), vx.O("reopenSame"))
	for i, b := range c25Bulks() {
		a = append(a, vx.Op{Name: "bulk", Args: []int64{int64(i)}, S: c25RenderIDs(b)})
	}
	return a
}

var (
	c25SegRe   = regexp.MustCompile(`b(\d+)\[([^\]]*)\]\{([^}]*)\} `)
	c25GhostRe = regexp.MustCompile(`\d+:\(\);`)
)

// c25Key classifies from the MINIMAL failing path.
func c25Key(p []vx.Op, got, want string) string {
	last := p[len(p)-1]
	if strings.HasPrefix(got, "PANIC") {
		return "panic at=" + last.Name
	}
	// Does the failure need the adversarial caller? Then the defect is aliasing of a handed-out map;
	// which read produced the aliased map decides the key (replayed on the bookkeeping only).
	mi := -1
	for i, o := range p {
		if o.Name == "mutate" {
			mi = i
		}
	}
	if mi >= 0 {
		touched := map[uint64]bool{}
		present := map[uint64]bool{}
		src := "nothing"
		sets := c25Sets(true)
		bulks := c25Bulks()
		model := &c25Inst{model: map[uint64]map[string]interface{}{}}
		for _, o := range p[:mi] {
			switch o.Name {
			case "set":
				st := sets[o.Args[0]]
				if len(st.m) > 0 {
					model.modelUpdate(st.id, st.m)
					touched[st.id] = true
				}
			case "bulk":
				for id, m := range bulks[o.Args[0]] {
					model.modelUpdate(id, m)
					touched[id] = true
				}
			case "reopenNew":
				touched = map[uint64]bool{}
			case "read":
				id := uint64(o.Args[0])
				_, present[id] = model.model[id]
				temp := "warm"
				if !touched[id] {
					temp = "cold"
				}
				pa := "absent"
				if present[id] {
					pa = "present"
				}
				src = temp + "-read-of-" + pa + "-id"
				touched[id] = true
			case "mutate":
				src = "nothing"
			}
		}
		return "caller-mutation-leaks handed-out-by=" + src
	}
	if last.Name == "rBlocks" {
		// Is the ONLY discrepancy that ids without any attribute are still listed (and checksummed)?
		// Drop those entries (and blocks left empty) from the observation and compare again.
		if strings.Contains(got, ":();") {
			norm := c25SegRe.ReplaceAllStringFunc(got, func(seg string) string {
				m := c25SegRe.FindStringSubmatch(seg)
				if !strings.Contains(m[3], ":();") {
					return seg
				}
				ids := c25GhostRe.ReplaceAllString(m[3], "")
				if ids == "" {
					return ""
				}
				return fmt.Sprintf("b%s[same-checksum-as-equal-store]{%s} ", m[1], ids)
			})
			if norm == want {
				return "blocks list-id-without-attributes"
			}
			return "blocks mismatch besides ids without attributes"
		}
		if strings.Contains(got, "checksum-differs-from-equal-store") {
			return "blocks checksum-differs-for-equal-contents"
		}
		return "blocks mismatch"
	}
	ctx := map[string]bool{}
	for _, o := range p[:len(p)-1] {
		ctx[o.Name] = true
	}
	var names []string
	for n := range ctx {
		names = append(names, n)
	}
	sort.Strings(names)
	return "mismatch at=" + last.Name + " after=" + strings.Join(names, "+")
}

// c25Harness: variant 0 = empty store, tier alphabet; 1 = a store populated by an earlier process
// (one bulk write, then a new store object on the file: everything is cold), tier alphabet;
// 2 = empty store, reduced alphabet (used for the deeper phase A of the thorough tier).
func c25Harness(variant int) *vx.Harness {
	th := os.Getenv("VERIF_TIER") == "thorough"
	alpha := c25Alphabet(th)
	if variant == 2 {
		// reduced alphabet for depth 4: drop uint64/bool/float on x, the empty updates and ids 0/99/101
		keep := map[string]bool{}
		for _, i := range []int{0, 1, 2, 6, 7, 8, 9, 13, 14} {
			keep[fmt.Sprintf("set%d", i)] = true
		}
		for _, i := range []int{0, 1} {
			keep[fmt.Sprintf("bulk%d", i)] = true
		}
		var red []vx.Op
		for _, o := range c25Alphabet(false) {
			if (o.Name == "set" || o.Name == "bulk") && !keep[fmt.Sprintf("%s%d", o.Name, o.Args[0])] {
				continue
			}
			red = append(red, o)
		}
		alpha = red
	}
	return &vx.Harness{Alphabet: alpha, Key: c25Key, New: func() vx.Instance {
		in := c25New(true)
		if variant == 1 {
			for _, o := range c25Seed() {
				if g, w := in.Apply(o); g != w {
					panic(fmt.Sprintf("c25: seed step %s: got %q want %q", o, g, w))
				}
			}
		}
		return in
	}}
}

func c25Seed() []vx.Op {
	return []vx.Op{{Name: "bulk", Args: []int64{0}, S: c25RenderIDs(c25Bulks()[0])}, vx.O("reopenNew")}
}

func TestVerif_C25(t *testing.T) {
	th := os.Getenv("VERIF_TIER") == "thorough"
	c25DetectShared()
	h := c25Harness(0)
	c25PxVariant = c25Harness
	c25PxSeedOps = func(v int) []vx.Op {
		if v == 1 {
			return c25Seed()
		}
		return nil
	}
	// children hand their table (block contents -> checksum of the canonical second store) to the parent
	c25PxCollect = func() map[string]string {
		kv := map[string]string{}
		c25Canon.Range(func(k, v interface{}) bool { kv[k.(string)] = v.(string); return true })
		return kv
	}
	if c25PxChild(h) {
		return
	}
	c := vx.NewCheck("C25", "model_checking",
		"all operation sequences over the alphabet up to the phase-A depth on a fresh real bolt attribute store (empty, and populated-then-reopened cold), then BFS over canonical (contents, cached ids, stored ids, map held by the caller) states; every block checksum compared with a second store of equal contents; distinct = distinct canonical end states")
	kv := map[string]string{}
	t0 := time.Now()
	ends := c25PxRunDFS(c, h, 0, 3, kv)
	ends += c25PxRunDFS(c, c25Harness(1), 1, 3, kv)
	if th {
		c25PxRunDFS(c, c25Harness(2), 2, 4, kv)
	}
	c.Extra("phaseA_wall_s", time.Since(t0).Seconds())
	c.Bound("phaseA", "v0: empty store, depth 3; v1: seed [bulk{1:x=s,100:x=true}; new store object], depth 3; v2 (thorough): empty store, reduced 18-op alphabet, depth 4")
	// Phase B (thorough tier): state-merged BFS from the empty store.
	if th {
		t0 = time.Now()
		c25PxRunBFS(c, h, 0, 6, 5000, kv)
		c.Extra("phaseB_wall_s", time.Since(t0).Seconds())
	} else {
		c.AddStates(int64(ends))
	}
	c.ConfirmViolations(h)
	// inequality direction: distinct block contents => distinct checksums (over every content seen)
	c25Canon.Range(func(k, v interface{}) bool { kv[k.(string)] = v.(string); return true })
	byCk := map[string]string{}
	var keys []string
	for k := range kv {
		keys = append(keys, k)
	}
	sort.Strings(keys)
	for _, k := range keys {
		ck := kv[k]
		content := k[strings.Index(k, "|")+1:]
		blk := k[:strings.Index(k, "|")]
		if o, ok := byCk[blk+ck]; ok && o != content {
			c.Violate("blocks equal-checksum-for-different-contents", fmt.Sprintf("%s: %s vs %s", blk, o, content), ck, "different checksums")
		}
		byCk[blk+ck] = content
	}
	c.Extra("distinct_block_contents_checksummed", len(keys))
	c.Extra("shared_global_map_detected", c25SharedPtr != 0)
	c.AddValidated(c.Evaluations)
	c.Assume("ids {0,1,7,99,100,101}, keys {x,y}, values {\"s\",int64 1,int 1,uint64 1,true,1.5,nil} (+\"\",0,false in thorough); integer inputs are expected back as int64")
	c.Assume("AttrStore API of package boltdb only; SetRowAttrs/SetColumnAttrs through the executor are not driven here")
	if c.Finish() != 0 {
		t.Fail()
	}
}
