package pilosa

// C05, fragment-level sub-run — "fragment ops/opN accounting and snapshot trigger".
// Histories of every fragment write path on a REAL file-backed fragment (set and BSI), including
// value imports large enough for the bulk path (op log detached, snapshot re-attaches it), imports
// that change nothing, and explicit snapshots. After EVERY step the fragment's file is read back from
// disk and decoded (snapshot bytes followed by the appended operation log, the real decoder): the
// decoded set must equal the in-memory storage, and the decoded operation / bit-change counters must
// equal the ones the live fragment reports.

import (
	"context"
	"fmt"
	"io/ioutil"
	"testing"

	"github.com/pilosa/pilosa/internal/vx"
	"github.com/pilosa/pilosa/roaring"
)

// c05fShow renders a value set: small sets in full, large ones as count + order-independent digest.
func c05fShow(vals []uint64) string {
	if len(vals) <= 40 {
		return vx.SortedU64(vals)
	}
	var h, x uint64
	for _, v := range vals {
		h += (v + 1) * 0x9E3779B97F4A7C15
		x ^= (v + 0x1234567) * 0xC2B2AE3D27D4EB4F
	}
	return fmt.Sprintf("<%d-values,digest=%x.%x>", len(vals), h, x)
}

type c05fInst struct {
	f    *fragment
	kind string
}

func (in *c05fInst) Close()              { vxDiscardFragment(in.f) }
func (in *c05fInst) Fingerprint() string { return "" }

var c05fBits = []vxBit{{0, 0}, {0, 65536}, {1, 1}}

func c05fBig() ([]uint64, []int64) {
	var cols []uint64
	var vals []int64
	for i := uint64(0); i < 1300; i++ {
		cols = append(cols, i)
		vals = append(vals, int64(i%7)-3)
	}
	vals[5] = 100 // bit depth 7: 1300 * 8 > MaxOpN
	return cols, vals
}

func (in *c05fInst) Apply(op vx.Op) (got, want string) {
	f := in.f
	var err error
	switch op.Name {
	case "setBit":
		_, err = f.setBit(uint64(op.Args[0]), uint64(op.Args[1]))
	case "clearBit":
		_, err = f.clearBit(uint64(op.Args[0]), uint64(op.Args[1]))
	case "bulk":
		var rows, cols []uint64
		for _, b := range c05fBits {
			rows, cols = append(rows, b.row), append(cols, b.col)
		}
		err = f.bulkImport(rows, cols, &ImportOptions{Clear: op.Args[0] == 1})
	case "roaring":
		err = f.importRoaring(context.Background(), vxPilosaRoaring(c05fBits), op.Args[0] == 1)
	case "setValue":
		_, err = f.setValue(uint64(op.Args[0]), 7, op.Args[1])
	case "importValue":
		err = f.importValue([]uint64{3, 4}, []int64{7, -2}, 7, op.Args[0] == 1)
	case "importValueBig":
		cols, vals := c05fBig()
		err = f.importValue(cols, vals, 7, false)
	case "snapshot":
		err = f.Snapshot()
	default:
		panic("unknown op " + op.Name)
	}
	if err != nil {
		return "error: " + err.Error(), "no error"
	}
	// decode the file as it is on disk now
	data, rerr := ioutil.ReadFile(f.path)
	if rerr != nil {
		return "read: " + rerr.Error(), "file readable"
	}
	dec := roaring.NewFileBitmap()
	if derr := dec.UnmarshalBinary(data); derr != nil {
		return "decode: " + derr.Error(), "snapshot+log decodes"
	}
	f.mu.Lock()
	live := f.storage.Slice()
	liveOps, liveOpN := f.storage.Ops() // the live BITMAP's counters (the fragment's own opN is documented as approximate)
	f.mu.Unlock()
	ops, opN := dec.Ops()
	return fmt.Sprintf("set=%s ops=%d opN=%d", c05fShow(dec.Slice()), ops, opN), fmt.Sprintf("set=%s ops=%d opN=%d", c05fShow(live), liveOps, liveOpN)
}

func c05fAlphabet(kind string) []vx.Op {
	if kind == vxKindBSI {
		return []vx.Op{vx.O("setValue", 3, 5), vx.O("setValue", 3, -6), vx.O("setValue", 70000, 1), vx.O("importValue", 0), vx.O("importValue", 1),
			vx.O("importValueBig"), vx.O("snapshot")}
	}
	return []vx.Op{vx.O("setBit", 0, 0), vx.O("setBit", 1, 65536), vx.O("clearBit", 0, 0), vx.O("clearBit", 1, 1), vx.O("bulk", 0), vx.O("bulk", 1),
		vx.O("roaring", 0), vx.O("roaring", 1), vx.O("snapshot")}
}

func TestVerif_C05F(t *testing.T) {
	c := vx.NewCheck("C05", "model_checking",
		"fragment-level sub-run: all histories up to the tier's depth over the fragment write paths (set: setBit/clearBit/bulk import/roaring import set+clear/snapshot; BSI: setValue/importValue small set+clear/importValue bulk/snapshot; default and small MaxOpN); after every step the file on disk (snapshot + appended log) is decoded with the real decoder and compared with the in-memory storage and its operation counters")
	type cfg struct {
		name   string
		kind   string
		maxOpN int
	}
	for _, cf := range []cfg{{"set", vxKindSet, 0}, {"set-opn3", vxKindSet, 3}, {"bsi", vxKindBSI, 0}, {"bsi-opn3", vxKindBSI, 3}} {
		cf := cf
		h := &vx.Harness{Alphabet: c05fAlphabet(cf.kind), MultiProcess: true,
			New: func() vx.Instance {
				return &c05fInst{f: vxOpenFragment(cf.kind, 0, cf.maxOpN, "", false), kind: cf.kind}
			},
			Key: func(p []vx.Op, g, w string) string {
				last := p[len(p)-1]
				seen := map[string]bool{}
				var ctx string
				for _, o := range p[:len(p)-1] {
					if !seen[o.Name] {
						seen[o.Name] = true
						ctx += "+" + o.Name
					}
				}
				return fmt.Sprintf("fragment %s file-differs-from-memory at=%s after=%s", cf.name, last.Name, ctx)
			}}
		c.RunDFS(h, c.Pick(4, 5))
		c.ConfirmViolations(h)
		c.Bound("alphabet_"+cf.name, len(h.Alphabet))
	}
	c.AddValidated(c.Evaluations)
	c.Assume("one shard, rows 0/1, a handful of columns plus a 1300-column bulk value import; the fragment runs background snapshots synchronously (no holder queue)")
	if c.Finish() != 0 {
		t.Fail()
	}
}
