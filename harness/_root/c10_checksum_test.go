package pilosa

// C10 — Block checksums always reflect current block contents.
// Histories of every fragment write path interleaved with Blocks() (which fills the checksum cache)
// on a real file-backed fragment; oracle = the checksums the same code reports for a CLEAN fragment that
// holds exactly the model's bits (a replica that received the bits directly). No hash function is
// re-implemented: the statement fixes none. Different block contents must give different checksums
// (collisions among all contents seen are reported).

import (
	"context"
	"fmt"
	"sort"
	"strings"
	"sync"
	"testing"

	"github.com/pilosa/pilosa/internal/vx"
)

var c10Rows = []uint64{0, 100} // block 0 and block 1
var c10Cols = []uint64{0, 65536}

var c10Batches = [][]vxBit{
	{{0, 0}, {100, 0}},
	{{100, 65536}},
	{{0, 65536}, {0, 0}},
}
var c10Payloads = [][]vxBit{
	{{0, 0}, {100, 65536}},
	{{100, 0}},
	{{0, 65536}, {1, 0}},
}
var c10SrcRows = [][]uint64{{}, {0}, {0, 65536}}

type c10Inst struct {
	f     *fragment
	kind  string
	warm  bool
	model map[vxBit]bool
	depth uint
}

func (in *c10Inst) Close() { vxDiscardFragment(in.f) }

// set applies a set with the field-type semantics (mutex: the column's other rows are cleared).
func (in *c10Inst) set(b vxBit) {
	if in.kind == vxKindMutex {
		for o := range in.model {
			if o.col == b.col && o.row != b.row {
				delete(in.model, o)
			}
		}
	}
	in.model[b] = true
}

// c10Expected: "the checksum of the bits currently stored in that block" is whatever the code under
// test reports for a CLEAN fragment holding exactly the model's bits (built by plain setBit calls, no
// checksum ever cached before). The statement fixes no hash function, so none is re-implemented here:
// a replica that went through the history and a replica that received the same bits directly must
// report the same checksums, and different block contents must not (up to hash collisions, which
// c10Injective watches for).
var (
	c10RefMu    sync.Mutex
	c10RefCache = map[string]string{}
	c10SumOwner = map[string]string{} // block checksum -> block contents that produced it
)

func c10Expected(m map[vxBit]bool) string {
	key := vxModelBits(m)
	c10RefMu.Lock()
	if v, ok := c10RefCache[key]; ok {
		c10RefMu.Unlock()
		return v
	}
	c10RefMu.Unlock()
	ref := vxOpenFragment(vxKindSet, 0, 0, "", false)
	bits := make([]vxBit, 0, len(m))
	for b, ok := range m {
		if ok {
			bits = append(bits, b)
		}
	}
	sort.Slice(bits, func(i, j int) bool {
		if bits[i].row != bits[j].row {
			return bits[i].row < bits[j].row
		}
		return bits[i].col < bits[j].col
	})
	for _, b := range bits {
		if _, err := ref.setBit(b.row, b.col); err != nil {
			panic(err)
		}
	}
	out := c10Blocks(ref)
	// the same contents must always give the same checksum, different contents different ones
	for _, blk := range ref.Blocks() {
		var cont strings.Builder
		for _, b := range bits {
			if int(b.row/HashBlockSize) == blk.ID {
				fmt.Fprintf(&cont, "%d:%d,", b.row%HashBlockSize, b.col)
			}
		}
		sum := fmt.Sprintf("%x", blk.Checksum)
		c10RefMu.Lock()
		if prev, ok := c10SumOwner[sum]; ok && prev != cont.String() {
			out += fmt.Sprintf("COLLISION(block %d: contents %q and %q share checksum %s) ", blk.ID, prev, cont.String(), sum)
		}
		c10SumOwner[sum] = cont.String()
		c10RefMu.Unlock()
	}
	vxDiscardFragment(ref)
	c10RefMu.Lock()
	c10RefCache[key] = out
	c10RefMu.Unlock()
	return out
}

func c10Blocks(f *fragment) string {
	var sb strings.Builder
	for _, b := range f.Blocks() {
		fmt.Fprintf(&sb, "%d:%x ", b.ID, b.Checksum)
	}
	return sb.String()
}

// bsiBits: model bits of a BSI column value (v2 layout: exists, sign, magnitude bits)
func c10SetValueModel(m map[vxBit]bool, col uint64, depth uint, v int64, clear bool) {
	uv := uint64(v)
	if v < 0 {
		uv = uint64(-v)
	}
	set := func(row uint64, on bool) {
		if on {
			m[vxBit{row, col}] = true
		} else {
			delete(m, vxBit{row, col})
		}
	}
	set(bsiExistsBit, !clear)
	set(bsiSignBit, v < 0 && !clear)
	for i := uint(0); i < depth; i++ {
		set(uint64(bsiOffsetBit+i), uv&(1<<i) != 0)
	}
}

func (in *c10Inst) Apply(op vx.Op) (got, want string) {
	f := in.f
	var err error
	switch op.Name {
	case "setBit":
		_, err = f.setBit(uint64(op.Args[0]), uint64(op.Args[1]))
		in.set(vxBit{uint64(op.Args[0]), uint64(op.Args[1])})
	case "clearBit":
		_, err = f.clearBit(uint64(op.Args[0]), uint64(op.Args[1]))
		delete(in.model, vxBit{uint64(op.Args[0]), uint64(op.Args[1])})
	case "setRow":
		src := c10SrcRows[op.Args[0]]
		r := uint64(op.Args[1])
		_, err = f.setRow(NewRow(src...), r)
		for b := range in.model {
			if b.row == r {
				delete(in.model, b)
			}
		}
		for _, c := range src {
			in.model[vxBit{r, c}] = true
		}
	case "clearRow":
		r := uint64(op.Args[0])
		_, err = f.clearRow(r)
		for b := range in.model {
			if b.row == r {
				delete(in.model, b)
			}
		}
	case "bulk":
		clear := op.Args[0] == 1
		batch := c10Batches[op.Args[1]]
		rows := make([]uint64, len(batch))
		cols := make([]uint64, len(batch))
		for i, b := range batch {
			rows[i], cols[i] = b.row, b.col
		}
		err = f.bulkImport(rows, cols, &ImportOptions{Clear: clear})
		for _, b := range batch {
			if clear {
				delete(in.model, b)
			} else {
				in.set(b)
			}
		}
	case "roaring":
		clear := op.Args[0] == 1
		pl := c10Payloads[op.Args[1]]
		err = f.importRoaring(context.Background(), vxPilosaRoaring(pl), clear)
		for _, b := range pl {
			if clear {
				delete(in.model, b)
			} else {
				in.model[b] = true
			}
		}
	case "setValue":
		_, err = f.setValue(uint64(op.Args[0]), in.depth, op.Args[1])
		c10SetValueModel(in.model, uint64(op.Args[0]), in.depth, op.Args[1], false)
	case "importValue":
		// (col, value) pairs; clear flag in Args[0]
		clear := op.Args[0] == 1
		cols := []uint64{uint64(op.Args[1]), 65536}
		vals := []int64{op.Args[2], -op.Args[2]}
		err = f.importValue(append([]uint64{}, cols...), append([]int64{}, vals...), in.depth, clear)
		for i := range cols {
			c10SetValueModel(in.model, cols[i], in.depth, vals[i], clear)
		}
	case "snapshot":
		err = f.Snapshot()
	case "blocks":
		return c10Blocks(f), c10Expected(in.model)
	default:
		panic("unknown op " + op.Name)
	}
	if err != nil {
		return "error: " + err.Error(), "no error"
	}
	if in.warm {
		return c10Blocks(f), c10Expected(in.model)
	}
	return "", ""
}

func (in *c10Inst) Fingerprint() string {
	return vxModelBits(in.model) + "#" + vxFragHidden(in.f)
}

func c10Alphabet(kind string, warm bool) []vx.Op {
	var a []vx.Op
	if kind == vxKindBSI {
		for _, c := range []uint64{0, 65536} {
			for _, v := range []int64{0, 1, -3} {
				a = append(a, vx.O("setValue", int64(c), v))
			}
		}
		for _, v := range []int64{2, 5} {
			a = append(a, vx.O("importValue", 0, 0, v), vx.O("importValue", 1, 0, v))
		}
	} else {
		for _, r := range c10Rows {
			for _, c := range c10Cols {
				a = append(a, vx.O("setBit", int64(r), int64(c)), vx.O("clearBit", int64(r), int64(c)))
			}
		}
		for i := range c10Batches {
			a = append(a, vx.O("bulk", 0, int64(i)), vx.O("bulk", 1, int64(i)))
		}
		if kind == vxKindSet {
			for i := range c10Payloads {
				a = append(a, vx.O("roaring", 0, int64(i)), vx.O("roaring", 1, int64(i)))
			}
			for i := range c10SrcRows {
				a = append(a, vx.O("setRow", int64(i), 0), vx.O("setRow", int64(i), 100))
			}
			a = append(a, vx.O("clearRow", 0), vx.O("clearRow", 100))
		}
	}
	a = append(a, vx.O("snapshot"))
	if !warm {
		a = append(a, vx.O("blocks"))
	}
	return a
}

// key: which write was not reflected (the last write before the failing observation)
func c10Key(prefix string) func(p []vx.Op, got, want string) string {
	return func(p []vx.Op, got, want string) string {
		name := func(o vx.Op) string {
			n := o.Name
			if n == "bulk" || n == "roaring" || n == "importValue" {
				if o.Args[0] == 1 {
					n += "Clear"
				} else {
					n += "Set"
				}
			}
			return n
		}
		last := p[len(p)-1]
		if strings.HasPrefix(got, "PANIC") || strings.HasPrefix(got, "error") {
			return prefix + " " + strings.SplitN(got, ":", 2)[0] + " at=" + name(last)
		}
		w := last
		if last.Name == "blocks" && len(p) >= 2 {
			w = p[len(p)-2]
		}
		return prefix + " stale-checksum after=" + name(w)
	}
}

func TestVerif_C10(t *testing.T) {
	c := vx.NewCheck("C10", "model_checking",
		"all histories of fragment write paths and Blocks() calls up to the phase-A depth on a fresh real fragment; 'warm' configurations compare Blocks() with the independently recomputed checksums after EVERY write (cache always filled), 'explicit' ones have Blocks() as an operation; BFS over (model, hidden state); distinct = canonical end states")
	type cfg struct {
		name   string
		kind   string
		maxOpN int
		warm   bool
		cache  string // "" = the default (ranked) count cache; "none": write paths that skip cache updates
	}
	cfgs := []cfg{
		{"set-warm", vxKindSet, 0, true, ""},
		{"set-explicit", vxKindSet, 0, false, ""},
		{"set-opn2-warm", vxKindSet, 2, true, ""},
		{"set-nocache-warm", vxKindSet, 0, true, CacheTypeNone},
		{"set-lru-warm", vxKindSet, 0, true, CacheTypeLRU},
		{"mutex-warm", vxKindMutex, 0, true, ""},
		{"bsi-warm", vxKindBSI, 0, true, ""},
		{"bsi-opn2-warm", vxKindBSI, 2, true, ""},
	}
	for _, cf := range cfgs {
		cf := cf
		h := &vx.Harness{Alphabet: c10Alphabet(cf.kind, cf.warm), Key: c10Key(cf.name), MultiProcess: true, New: func() vx.Instance {
			return &c10Inst{f: vxOpenFragment(cf.kind, 0, cf.maxOpN, cf.cache, false), kind: cf.kind, warm: cf.warm, model: map[vxBit]bool{}, depth: 3}
		}}
		c.WithBudget(float64(c.Pick(12, 150)), func() {
			c.RunDFS(h, c.Pick(2, 3))
			c.RunBFS(h, c.Pick(3, 5), c.Pick(3000, 200000))
		})
		c.ConfirmViolations(h)
		fmt.Printf("INFO C10 config=%s alphabet=%d evals=%d\n", cf.name, len(h.Alphabet), c.Evaluations)
	}
	c.AddValidated(c.Evaluations)
	c.Assume("the reference is the code's own Blocks() on a clean fragment with the same bits (a bug that makes Blocks() wrong in the same way on every fragment is outside this check); rows 0/1 (block 0) and 100 (block 1), 2 columns in 2 containers")
	if c.Finish() != 0 {
		t.Fail()
	}
}
