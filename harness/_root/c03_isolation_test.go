package pilosa

// C03 — Derived bitmaps, rows and query results are isolated values.
// History exploration with two kinds of values alive at once: SOURCES (a roaring bitmap that is
// heap-built, B-tree-built or decoded from a byte buffer it stays mapped to; a second operand; a real
// file-backed fragment) and DERIVED values (Clone, Freeze, Union, Intersect, Difference, Xor,
// OffsetRange, Shift, Flip of the bitmap; fragment.row and row algebra on it). Operations derive new
// values, mutate sources (add/remove/batch/import/optimize, remap the mapped storage to a new buffer
// and overwrite the old buffer with 0xFF, fragment writes, snapshot, close+reopen) or mutate derived
// values; after EVERY step every live value is re-read and compared with the value snapshot taken
// when it was derived / the model of its own mutations. A derived value reading unmapped memory
// kills the worker process, which is reported with the share it was exploring.

import (
	"bytes"
	"context"
	"fmt"
	"sort"
	"strings"
	"testing"

	"github.com/pilosa/pilosa/internal/vx"
	"github.com/pilosa/pilosa/roaring"
)

type c03Set map[uint64]bool

func (s c03Set) clone() c03Set {
	n := c03Set{}
	for k := range s {
		n[k] = true
	}
	return n
}

func (s c03Set) String() string {
	a := make([]uint64, 0, len(s))
	for k := range s {
		a = append(a, k)
	}
	return vx.SortedU64(a)
}

type c03Val struct {
	name string
	b    *roaring.Bitmap
	m    c03Set
}

type c03RowVal struct {
	name string
	r    *Row
	m    c03Set
}

type c03Inst struct {
	kind    string
	src     *roaring.Bitmap
	srcM    c03Set
	buf     []byte // backing buffer of a mapped source
	oth     *roaring.Bitmap
	othM    c03Set
	derived []c03Val
	f       *fragment
	fM      map[vxBit]bool
	rows    []c03RowVal
}

var c03Init = []uint64{1, 2, 65536 + 2, 65536 + 3}
// the second operand shares containers 0 and 1 with the source and has one container (key 3) of
// its own, so that binary operations take their "only in the argument" branches too
var c03Other = []uint64{1, 65536 + 2, 65536 + 9, 3*65536 + 7}

func c03Encode(vals []uint64) []byte {
	bm := roaring.NewBitmap(vals...)
	var buf bytes.Buffer
	if _, err := bm.WriteTo(&buf); err != nil {
		panic(err)
	}
	return buf.Bytes()
}

func c03New(kind string) vx.Instance {
	in := &c03Inst{kind: kind, srcM: c03Set{}, othM: c03Set{}, fM: map[vxBit]bool{}}
	for _, v := range c03Init {
		in.srcM[v] = true
	}
	for _, v := range c03Other {
		in.othM[v] = true
	}
	switch kind {
	case "slice":
		in.src = roaring.NewBitmap(c03Init...)
	case "btree":
		in.src = roaring.NewBTreeBitmap(c03Init...)
	case "mapped":
		in.buf = c03Encode(c03Init)
		in.src = roaring.NewFileBitmap()
		if err := in.src.UnmarshalBinary(in.buf); err != nil {
			panic(err)
		}
	}
	in.oth = roaring.NewBitmap(c03Other...)
	in.f = vxOpenFragment(vxKindSet, 0, 0, "", false)
	for _, b := range []vxBit{{0, 1}, {0, 65536}, {1, 1}} {
		if _, err := in.f.setBit(b.row, b.col); err != nil {
			panic(err)
		}
		in.fM[b] = true
	}
	return in
}

func (in *c03Inst) Close() { vxDiscardFragment(in.f) }

func (in *c03Inst) Fingerprint() string { return "" }

func (in *c03Inst) keep(name string, b *roaring.Bitmap, m c03Set) {
	v := c03Val{name, b, m}
	if len(in.derived) < 2 {
		in.derived = append(in.derived, v)
	} else {
		in.derived[0], in.derived[1] = in.derived[1], v
	}
}

func (in *c03Inst) rowModel(r uint64) c03Set {
	m := c03Set{}
	for b := range in.fM {
		if b.row == r {
			m[b.col] = true
		}
	}
	return m
}

func (in *c03Inst) Apply(op vx.Op) (got, want string) {
	switch op.Name {
	case "derive":
		var b *roaring.Bitmap
		m := c03Set{}
		switch op.S {
		case "clone":
			b, m = in.src.Clone(), in.srcM.clone()
		case "freeze":
			b, m = in.src.Freeze(), in.srcM.clone()
		case "union":
			b = in.src.Union(in.oth)
			for k := range in.srcM {
				m[k] = true
			}
			for k := range in.othM {
				m[k] = true
			}
		case "intersect":
			b = in.src.Intersect(in.oth)
			for k := range in.srcM {
				if in.othM[k] {
					m[k] = true
				}
			}
		case "difference":
			b = in.src.Difference(in.oth)
			for k := range in.srcM {
				if !in.othM[k] {
					m[k] = true
				}
			}
		case "xor":
			b = in.src.Xor(in.oth)
			for k := range in.srcM {
				if !in.othM[k] {
					m[k] = true
				}
			}
			for k := range in.othM {
				if !in.srcM[k] {
					m[k] = true
				}
			}
		case "offsetRange":
			// container 1 moved to container 5
			b = in.src.OffsetRange(5*65536, 65536, 2*65536)
			for k := range in.srcM {
				if k >= 65536 && k < 2*65536 {
					m[k-65536+5*65536] = true
				}
			}
		case "shift":
			var err error
			b, err = in.src.Shift(1)
			if err != nil {
				return "shift error " + err.Error(), ""
			}
			for k := range in.srcM {
				m[k+1] = true
			}
		case "flip":
			b = in.src.Flip(0, 4)
			for k := range in.srcM {
				if k > 4 {
					m[k] = true
				}
			}
			for k := uint64(0); k <= 4; k++ {
				if !in.srcM[k] {
					m[k] = true
				}
			}
		default:
			panic("derive " + op.S)
		}
		in.keep(op.S, b, m)
	case "mutSrc", "mutOth", "mutDer":
		var b *roaring.Bitmap
		var m c03Set
		switch op.Name {
		case "mutSrc":
			b, m = in.src, in.srcM
		case "mutOth":
			b, m = in.oth, in.othM
		default:
			if len(in.derived) == 0 {
				return "", ""
			}
			d := in.derived[len(in.derived)-1]
			b, m = d.b, d.m
		}
		switch op.S {
		case "add":
			b.Add(7)
			m[7] = true
		case "remove":
			b.Remove(1)
			delete(m, 1)
		case "addN":
			b.AddN(65536+2, 65536+40, 3*65536)
			m[65536+2], m[65536+40], m[3*65536] = true, true, true
		case "removeN":
			b.RemoveN(2, 65536+3)
			delete(m, 2)
			delete(m, 65536+3)
		case "importSet":
			if _, _, err := b.ImportRoaringBits(c03Encode([]uint64{2, 8, 65536 + 8}), false, false, 0); err != nil {
				return "import error " + err.Error(), ""
			}
			m[2], m[8], m[65536+8] = true, true, true
		case "importClear":
			if _, _, err := b.ImportRoaringBits(c03Encode([]uint64{1, 65536 + 2}), true, false, 0); err != nil {
				return "import error " + err.Error(), ""
			}
			delete(m, 1)
			delete(m, 65536+2)
		case "optimize":
			b.Optimize()
		default:
			panic("mut " + op.S)
		}
	case "remap":
		// move the mapped source to a fresh copy of its encoding, then destroy the old buffer: any
		// value still reading the old mapping now reads 0xFF garbage
		if in.kind != "mapped" {
			return "", ""
		}
		var buf bytes.Buffer
		if _, err := in.src.WriteTo(&buf); err != nil {
			return "writeTo " + err.Error(), ""
		}
		nb := buf.Bytes()
		if _, err := in.src.RemapRoaringStorage(nb); err != nil {
			return "remap " + err.Error(), ""
		}
		for i := range in.buf {
			in.buf[i] = 0xFF
		}
		in.buf = nb
	// ---- fragment side ----
	case "fRow":
		r := uint64(op.Args[0])
		row := in.f.row(r)
		in.rows = append(in.rows, c03RowVal{fmt.Sprintf("row(%d)", r), row, in.rowModel(r)})
		if len(in.rows) > 2 {
			in.rows = in.rows[1:]
		}
	case "fRowUnion":
		// a computed row (what a query result is made of)
		row := in.f.row(0).Union(in.f.row(1))
		m := in.rowModel(0)
		for k := range in.rowModel(1) {
			m[k] = true
		}
		in.rows = append(in.rows, c03RowVal{"row(0)|row(1)", row, m})
		if len(in.rows) > 2 {
			in.rows = in.rows[1:]
		}
	case "fSet":
		b := vxBit{uint64(op.Args[0]), uint64(op.Args[1])}
		if _, err := in.f.setBit(b.row, b.col); err != nil {
			return err.Error(), ""
		}
		in.fM[b] = true
	case "fClear":
		b := vxBit{uint64(op.Args[0]), uint64(op.Args[1])}
		if _, err := in.f.clearBit(b.row, b.col); err != nil {
			return err.Error(), ""
		}
		delete(in.fM, b)
	case "fImport":
		bits := []vxBit{{0, 2}, {1, 65536}}
		if err := in.f.importRoaring(context.Background(), vxPilosaRoaring(bits), false); err != nil {
			return err.Error(), ""
		}
		for _, b := range bits {
			in.fM[b] = true
		}
	case "fSetRow":
		// store one of the derived rows (or a literal row) into row 1
		src := NewRow(5, 65537)
		sm := c03Set{5: true, 65537: true}
		if len(in.rows) > 0 {
			src, sm = in.rows[len(in.rows)-1].r, in.rows[len(in.rows)-1].m
		}
		if _, err := in.f.setRow(src, 1); err != nil {
			return err.Error(), ""
		}
		for b := range in.fM {
			if b.row == 1 {
				delete(in.fM, b)
			}
		}
		for c := range sm {
			if c < ShardWidth {
				in.fM[vxBit{1, c}] = true
			}
		}
	case "fSnapshot":
		if err := in.f.Snapshot(); err != nil {
			return err.Error(), ""
		}
	case "fReopen":
		if err := in.f.Close(); err != nil {
			return "close " + err.Error(), ""
		}
		if err := in.f.Open(); err != nil {
			return "open " + err.Error(), ""
		}
	case "mutRow":
		if len(in.rows) == 0 {
			return "", ""
		}
		rv := in.rows[len(in.rows)-1]
		rv.r.SetBit(77)
		rv.m[77] = true
	default:
		panic("unknown op " + op.Name)
	}
	return in.observe()
}

func (in *c03Inst) observe() (got, want string) {
	var g, w strings.Builder
	put := func(name string, b *roaring.Bitmap, m c03Set) {
		fmt.Fprintf(&g, "%s={%s}#%d ", name, vx.SortedU64(b.Slice()), b.Count())
		fmt.Fprintf(&w, "%s={%s}#%d ", name, m.String(), len(m))
	}
	put("src", in.src, in.srcM)
	put("oth", in.oth, in.othM)
	for i, d := range in.derived {
		put(fmt.Sprintf("d%d:%s", i, d.name), d.b, d.m)
	}
	for i, rv := range in.rows {
		fmt.Fprintf(&g, "r%d:%s={%s}#%d ", i, rv.name, vx.SortedU64(rv.r.Columns()), rv.r.Count())
		fmt.Fprintf(&w, "r%d:%s={%s}#%d ", i, rv.name, rv.m.String(), len(rv.m))
	}
	fm := map[vxBit]bool{}
	_ = in.f.forEachBit(func(r, c uint64) error { fm[vxBit{r, c}] = true; return nil })
	fmt.Fprintf(&g, "frag={%s}", vxModelBits(fm))
	fmt.Fprintf(&w, "frag={%s}", vxModelBits(in.fM))
	return g.String(), w.String()
}

func c03Alphabet(kind string) []vx.Op {
	var a []vx.Op
	for _, d := range []string{"clone", "freeze", "union", "intersect", "difference", "xor", "offsetRange", "shift", "flip"} {
		a = append(a, vx.Op{Name: "derive", S: d})
	}
	for _, m := range []string{"add", "remove", "addN", "removeN", "importSet", "importClear", "optimize"} {
		a = append(a, vx.Op{Name: "mutSrc", S: m})
	}
	for _, m := range []string{"add", "remove", "addN", "removeN", "importClear"} {
		a = append(a, vx.Op{Name: "mutDer", S: m})
	}
	a = append(a, vx.Op{Name: "mutOth", S: "remove"}, vx.Op{Name: "mutOth", S: "addN"})
	if kind == "mapped" {
		a = append(a, vx.O("remap"))
	}
	a = append(a, vx.O("fRow", 0), vx.O("fRow", 1), vx.O("fRowUnion"), vx.O("fSet", 0, 3), vx.O("fClear", 0, 1), vx.O("fClear", 1, 1),
		vx.O("fImport"), vx.O("fSetRow"), vx.O("fSnapshot"), vx.O("fReopen"), vx.O("mutRow"))
	return a
}

// key: which value changed, after which kind of operation
func c03Key(kind string) func(p []vx.Op, got, want string) string {
	return func(p []vx.Op, got, want string) string {
		last := p[len(p)-1]
		if strings.HasPrefix(got, "PANIC") {
			return kind + " panic at=" + last.Name + ":" + last.S
		}
		gp, wp := strings.Fields(got), strings.Fields(want)
		victim := "?"
		for i := range gp {
			if i < len(wp) && gp[i] != wp[i] {
				victim = strings.SplitN(gp[i], "=", 2)[0]
				// strip the slot number
				if j := strings.Index(victim, ":"); j >= 0 {
					victim = victim[j+1:]
				}
				break
			}
		}
		var ctx []string
		seen := map[string]bool{}
		for _, o := range p[:len(p)-1] {
			n := o.Name
			if o.Name == "derive" {
				n = "derive:" + o.S
			}
			if !seen[n] {
				seen[n] = true
				ctx = append(ctx, n)
			}
		}
		sort.Strings(ctx)
		return fmt.Sprintf("%s changed=%s by=%s:%s after=%s", kind, victim, last.Name, last.S, strings.Join(ctx, "+"))
	}
}

func TestVerif_C03(t *testing.T) {
	c := vx.NewCheck("C03", "model_checking",
		"all histories up to the tier's depth over: derive a value (Clone/Freeze/Union/Intersect/Difference/Xor/OffsetRange/Shift/Flip, fragment.row, row union), mutate a source (bitmap add/remove/batch/import/optimize, remap mapped storage + scribble the old buffer, fragment set/clear/import/setRow/snapshot/close+reopen), mutate a derived value; after every step ALL live values are compared with their value snapshots; source kinds heap / B-tree / mapped; distinct = distinct op sequences explored (no state merging)")
	for _, kind := range []string{"slice", "btree", "mapped"} {
		kind := kind
		h := &vx.Harness{Alphabet: c03Alphabet(kind), New: func() vx.Instance { return c03New(kind) }, Key: c03Key(kind), MultiProcess: true}
		c.WithBudget(float64(c.Pick(35, 500)), func() {
			c.RunDFS(h, c.Pick(3, 4))
		})
		c.ConfirmViolations(h)
		fmt.Printf("INFO C03 kind=%s alphabet=%d evals=%d\n", kind, len(h.Alphabet), c.Evaluations)
	}
	c.AddStates(c.Evaluations)
	c.AddValidated(c.Evaluations)
	c.Assume("values on 2-4 containers; isolation judged by re-reading every live value after every step; unmapped reads surface as worker process death")
	if c.Finish() != 0 {
		t.Fail()
	}
}
