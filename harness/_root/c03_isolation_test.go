package pilosa

// C03 — Derived bitmaps, rows and query results are isolated values.
// History exploration with two kinds of values alive at once: SOURCES (a roaring bitmap that is
// heap-built, B-tree-built or decoded from a byte buffer it stays mapped to; a second operand; a real
// file-backed fragment) and DERIVED values (Clone, Freeze, Union, Intersect, Difference, Xor,
// OffsetRange, Shift, Flip of the bitmap; fragment.row and row algebra on it). Operations derive new
// values, mutate sources (add/remove/batch/import/optimize, remap the mapped storage to a new buffer
// and overwrite the old buffer with 0xFF, fragment writes, snapshot, close+reopen) or mutate derived
// values; after EVERY step every live value is re-read and compared with the value snapshot taken
// when it was derived / the model of its own mutations. A derived value reading unmapped memory
// kills the worker process, which is reported with the share it was exploring.

import (
	"bytes"
	"context"
	"fmt"
	"sort"
	"strings"
	"testing"

	"github.com/pilosa/pilosa/internal/vx"
	"github.com/pilosa/pilosa/roaring"
)

type c03Set map[uint64]bool

func (s c03Set) clone() c03Set {
	n := c03Set{}
	for k := range s {
		n[k] = true
	}
	return n
}

func (s c03Set) String() string {
	a := make([]uint64, 0, len(s))
	for k := range s {
		a = append(a, k)
	}
	return vx.SortedU64(a)
}

type c03Val struct {
	name string
	b    *roaring.Bitmap
	m    c03Set
}

type c03RowVal struct {
	name string
	r    *Row
	m    c03Set
}

// c03Shape: the VALUES the history works on. Copy-on-write goes through a different code path per
// container encoding (Thaw/Clone of an array, of a run container with inline or heap-allocated
// runs, of a bitmap container), and in-place edits only happen for particular values (a bit
// adjacent to a run, the edge of a run), so the same alphabet is explored over several shapes.
type c03Shape struct {
	name             string
	init, other      []uint64
	optimize         bool // run-encode the sources before the history starts
	addV, remV       uint64
	addN, remN       []uint64
	impSet, impClr   []uint64
	fragInit         []vxBit
	fSet, fClr0      vxBit
	fClr1            vxBit
	fImport          []vxBit
	literalRow       []uint64
	mutRowBit        uint64
	snapshotFragment bool
}

func c03Range(lo, hi uint64) []uint64 {
	var out []uint64
	for v := lo; v <= hi; v++ {
		out = append(out, v)
	}
	return out
}

func c03Cat(parts ...[]uint64) []uint64 {
	var out []uint64
	for _, p := range parts {
		out = append(out, p...)
	}
	return out
}

func c03Bits(row uint64, cols []uint64) []vxBit {
	var out []vxBit
	for _, c := range cols {
		out = append(out, vxBit{row, c})
	}
	return out
}

var c03Shapes = map[string]*c03Shape{
	// tiny array containers
	"array": {
		name: "array", init: []uint64{1, 2, 65536 + 2, 65536 + 3},
		// the second operand shares containers 0 and 1 with the source and has one container (key 3)
		// of its own, so that binary operations take their "only in the argument" branches too
		other: []uint64{1, 65536 + 2, 65536 + 9, 3*65536 + 7},
		addV:  7, remV: 1, addN: []uint64{65536 + 2, 65536 + 40, 3 * 65536}, remN: []uint64{2, 65536 + 3},
		impSet: []uint64{2, 8, 65536 + 8}, impClr: []uint64{1, 65536 + 2},
		fragInit: []vxBit{{0, 1}, {0, 65536}, {1, 1}}, fSet: vxBit{0, 3}, fClr0: vxBit{0, 1}, fClr1: vxBit{1, 1},
		fImport: []vxBit{{0, 2}, {1, 65536}}, literalRow: []uint64{5, 65537}, mutRowBit: 77,
	},
	// run containers with three runs each (more than the two that fit the inline stash): the
	// mutations touch a value adjacent to a run / the edge of a run, which edits the run slice in place
	"runs": {
		name: "runs", optimize: true,
		init:  c03Cat(c03Range(10, 19), c03Range(30, 39), c03Range(50, 59), c03Range(65536+10, 65536+19), c03Range(65536+30, 65536+39), c03Range(65536+50, 65536+59)),
		other: c03Cat(c03Range(15, 24), c03Range(30, 34), c03Range(70, 79), c03Range(65536+30, 65536+39), c03Range(3*65536+1, 3*65536+9), c03Range(3*65536+20, 3*65536+29), c03Range(3*65536+40, 3*65536+49)),
		addV:  20, remV: 30, addN: []uint64{40, 65536 + 20, 3 * 65536}, remN: []uint64{19, 65536 + 30},
		impSet: []uint64{20, 49, 65536 + 40}, impClr: []uint64{10, 65536 + 39},
		fragInit: append(c03Bits(0, c03Cat(c03Range(10, 19), c03Range(30, 39), c03Range(50, 59), []uint64{65536})), c03Bits(1, c03Cat(c03Range(10, 19), c03Range(30, 39), c03Range(50, 59)))...),
		fSet:     vxBit{0, 20}, fClr0: vxBit{0, 30}, fClr1: vxBit{1, 30},
		fImport: []vxBit{{0, 40}, {1, 65536}}, literalRow: c03Cat(c03Range(5, 9), c03Range(25, 29), c03Range(65537, 65540)), mutRowBit: 40,
		snapshotFragment: true,
	},
	// a bitmap container (more than 4096 values, every other value so that it stays a bitmap)
	"bitmap": {
		name: "bitmap",
		init: func() []uint64 {
			var v []uint64
			for i := uint64(0); i < 5000; i++ {
				v = append(v, 2*i)
			}
			return append(v, 65536+2, 65536+3)
		}(),
		other: func() []uint64 {
			var v []uint64
			for i := uint64(0); i < 4200; i++ {
				v = append(v, 3*i)
			}
			return append(v, 65536+2, 65536+9, 3*65536+7)
		}(),
		addV: 7, remV: 2, addN: []uint64{9, 65536 + 40, 3 * 65536}, remN: []uint64{4, 65536 + 3},
		impSet: []uint64{3, 11, 65536 + 8}, impClr: []uint64{6, 65536 + 2},
		fragInit: append(c03Bits(0, func() []uint64 {
			var v []uint64
			for i := uint64(0); i < 4500; i++ {
				v = append(v, 2*i)
			}
			return append(v, 65536)
		}()), vxBit{1, 2}),
		fSet: vxBit{0, 3}, fClr0: vxBit{0, 2}, fClr1: vxBit{1, 2},
		fImport: []vxBit{{0, 5}, {1, 65536}}, literalRow: []uint64{5, 65537}, mutRowBit: 77,
		snapshotFragment: true,
	},
}

type c03Inst struct {
	sh      *c03Shape
	kind    string
	src     *roaring.Bitmap
	srcM    c03Set
	buf     []byte // backing buffer of a mapped source
	oth     *roaring.Bitmap
	othM    c03Set
	derived []c03Val
	f       *fragment
	fM      map[vxBit]bool
	rows    []c03RowVal
}

// c03Show renders a value set; large sets as count + order-independent digest + the values outside
// the dense region, so that a difference is still visible in the report.
func c03Show(vals []uint64) string {
	if len(vals) <= 80 {
		return vx.SortedU64(vals)
	}
	var h, x uint64
	var odd []uint64
	for _, v := range vals {
		h += (v + 1) * 0x9E3779B97F4A7C15
		x ^= (v + 0x1234567) * 0xC2B2AE3D27D4EB4F
		if v >= 10000 || (v%2 != 0 && v%3 != 0) {
			odd = append(odd, v)
		}
	}
	sort.Slice(odd, func(i, j int) bool { return odd[i] < odd[j] })
	if len(odd) > 40 {
		odd = odd[:40]
	}
	return fmt.Sprintf("<%d-values,digest=%x.%x,notable=%s>", len(vals), h, x, strings.ReplaceAll(vx.SortedU64(odd), " ", ","))
}

func c03Encode(vals []uint64) []byte {
	bm := roaring.NewBitmap(vals...)
	var buf bytes.Buffer
	if _, err := bm.WriteTo(&buf); err != nil {
		panic(err)
	}
	return buf.Bytes()
}

func c03New(kind string, sh *c03Shape) vx.Instance {
	in := &c03Inst{sh: sh, kind: kind, srcM: c03Set{}, othM: c03Set{}, fM: map[vxBit]bool{}}
	for _, v := range sh.init {
		in.srcM[v] = true
	}
	for _, v := range sh.other {
		in.othM[v] = true
	}
	switch kind {
	case "slice":
		in.src = roaring.NewBitmap(sh.init...)
	case "btree":
		in.src = roaring.NewBTreeBitmap(sh.init...)
	case "mapped":
		in.buf = c03Encode(sh.init) // WriteTo run-encodes where that is smaller
		in.src = roaring.NewFileBitmap()
		if err := in.src.UnmarshalBinary(in.buf); err != nil {
			panic(err)
		}
	}
	in.oth = roaring.NewBitmap(sh.other...)
	if sh.optimize {
		in.src.Optimize()
		in.oth.Optimize()
	}
	in.f = vxOpenFragment(vxKindSet, 0, 0, "", false)
	if len(sh.fragInit) > 8 {
		if err := in.f.importRoaring(context.Background(), vxPilosaRoaring(sh.fragInit), false); err != nil {
			panic(err)
		}
	} else {
		for _, b := range sh.fragInit {
			if _, err := in.f.setBit(b.row, b.col); err != nil {
				panic(err)
			}
		}
	}
	for _, b := range sh.fragInit {
		in.fM[b] = true
	}
	if sh.snapshotFragment {
		// the snapshot rewrites storage in its optimized (run / bitmap) encoding and re-maps it
		if err := in.f.Snapshot(); err != nil {
			panic(err)
		}
	}
	return in
}

func (in *c03Inst) Close() { vxDiscardFragment(in.f) }

func (in *c03Inst) Fingerprint() string { return "" }

func (in *c03Inst) keep(name string, b *roaring.Bitmap, m c03Set) {
	v := c03Val{name, b, m}
	if len(in.derived) < 2 {
		in.derived = append(in.derived, v)
	} else {
		in.derived[0], in.derived[1] = in.derived[1], v
	}
}

func (in *c03Inst) rowModel(r uint64) c03Set {
	m := c03Set{}
	for b := range in.fM {
		if b.row == r {
			m[b.col] = true
		}
	}
	return m
}

func (in *c03Inst) Apply(op vx.Op) (got, want string) {
	switch op.Name {
	case "derive":
		var b *roaring.Bitmap
		m := c03Set{}
		switch op.S {
		case "clone":
			b, m = in.src.Clone(), in.srcM.clone()
		case "freeze":
			b, m = in.src.Freeze(), in.srcM.clone()
		case "union":
			b = in.src.Union(in.oth)
			for k := range in.srcM {
				m[k] = true
			}
			for k := range in.othM {
				m[k] = true
			}
		case "intersect":
			b = in.src.Intersect(in.oth)
			for k := range in.srcM {
				if in.othM[k] {
					m[k] = true
				}
			}
		case "difference":
			b = in.src.Difference(in.oth)
			for k := range in.srcM {
				if !in.othM[k] {
					m[k] = true
				}
			}
		case "xor":
			b = in.src.Xor(in.oth)
			for k := range in.srcM {
				if !in.othM[k] {
					m[k] = true
				}
			}
			for k := range in.othM {
				if !in.srcM[k] {
					m[k] = true
				}
			}
		case "offsetRange":
			// container 1 moved to container 5
			b = in.src.OffsetRange(5*65536, 65536, 2*65536)
			for k := range in.srcM {
				if k >= 65536 && k < 2*65536 {
					m[k-65536+5*65536] = true
				}
			}
		case "shift":
			var err error
			b, err = in.src.Shift(1)
			if err != nil {
				return "shift error " + err.Error(), ""
			}
			for k := range in.srcM {
				m[k+1] = true
			}
		case "flip":
			b = in.src.Flip(0, 4)
			for k := range in.srcM {
				if k > 4 {
					m[k] = true
				}
			}
			for k := uint64(0); k <= 4; k++ {
				if !in.srcM[k] {
					m[k] = true
				}
			}
		default:
			panic("derive " + op.S)
		}
		in.keep(op.S, b, m)
	case "mutSrc", "mutOth", "mutDer":
		var b *roaring.Bitmap
		var m c03Set
		switch op.Name {
		case "mutSrc":
			b, m = in.src, in.srcM
		case "mutOth":
			b, m = in.oth, in.othM
		default:
			if len(in.derived) == 0 {
				return "", ""
			}
			d := in.derived[len(in.derived)-1]
			b, m = d.b, d.m
		}
		sh := in.sh
		switch op.S {
		case "add":
			b.Add(sh.addV)
			m[sh.addV] = true
		case "remove":
			b.Remove(sh.remV)
			delete(m, sh.remV)
		case "addN":
			b.AddN(append([]uint64(nil), sh.addN...)...)
			for _, v := range sh.addN {
				m[v] = true
			}
		case "removeN":
			b.RemoveN(append([]uint64(nil), sh.remN...)...)
			for _, v := range sh.remN {
				delete(m, v)
			}
		case "importSet":
			if _, _, err := b.ImportRoaringBits(c03Encode(sh.impSet), false, false, 0); err != nil {
				return "import error " + err.Error(), ""
			}
			for _, v := range sh.impSet {
				m[v] = true
			}
		case "importClear":
			if _, _, err := b.ImportRoaringBits(c03Encode(sh.impClr), true, false, 0); err != nil {
				return "import error " + err.Error(), ""
			}
			for _, v := range sh.impClr {
				delete(m, v)
			}
		case "optimize":
			b.Optimize()
		default:
			panic("mut " + op.S)
		}
	case "remap":
		// move the mapped source to a fresh copy of its encoding, then destroy the old buffer: any
		// value still reading the old mapping now reads 0xFF garbage
		if in.kind != "mapped" {
			return "", ""
		}
		var buf bytes.Buffer
		if _, err := in.src.WriteTo(&buf); err != nil {
			return "writeTo " + err.Error(), ""
		}
		nb := buf.Bytes()
		if _, err := in.src.RemapRoaringStorage(nb); err != nil {
			return "remap " + err.Error(), ""
		}
		for i := range in.buf {
			in.buf[i] = 0xFF
		}
		in.buf = nb
	// ---- fragment side ----
	case "fRow":
		r := uint64(op.Args[0])
		row := in.f.row(r)
		in.rows = append(in.rows, c03RowVal{fmt.Sprintf("row(%d)", r), row, in.rowModel(r)})
		if len(in.rows) > 2 {
			in.rows = in.rows[1:]
		}
	case "fRowUnion":
		// a computed row (what a query result is made of)
		row := in.f.row(0).Union(in.f.row(1))
		m := in.rowModel(0)
		for k := range in.rowModel(1) {
			m[k] = true
		}
		in.rows = append(in.rows, c03RowVal{"row(0)|row(1)", row, m})
		if len(in.rows) > 2 {
			in.rows = in.rows[1:]
		}
	case "fSet":
		b := in.sh.fSet
		if _, err := in.f.setBit(b.row, b.col); err != nil {
			return err.Error(), ""
		}
		in.fM[b] = true
	case "fClear":
		b := in.sh.fClr0
		if op.Args[0] == 1 {
			b = in.sh.fClr1
		}
		if _, err := in.f.clearBit(b.row, b.col); err != nil {
			return err.Error(), ""
		}
		delete(in.fM, b)
	case "fImport":
		bits := in.sh.fImport
		if err := in.f.importRoaring(context.Background(), vxPilosaRoaring(bits), false); err != nil {
			return err.Error(), ""
		}
		for _, b := range bits {
			in.fM[b] = true
		}
	case "fSetRow":
		// store one of the derived rows (or a literal row) into row 1
		src := NewRow(in.sh.literalRow...)
		sm := c03Set{}
		for _, v := range in.sh.literalRow {
			sm[v] = true
		}
		if len(in.rows) > 0 {
			src, sm = in.rows[len(in.rows)-1].r, in.rows[len(in.rows)-1].m
		}
		if _, err := in.f.setRow(src, 1); err != nil {
			return err.Error(), ""
		}
		for b := range in.fM {
			if b.row == 1 {
				delete(in.fM, b)
			}
		}
		for c := range sm {
			if c < ShardWidth {
				in.fM[vxBit{1, c}] = true
			}
		}
	case "fSnapshot":
		if err := in.f.Snapshot(); err != nil {
			return err.Error(), ""
		}
	case "fReopen":
		if err := in.f.Close(); err != nil {
			return "close " + err.Error(), ""
		}
		if err := in.f.Open(); err != nil {
			return "open " + err.Error(), ""
		}
	case "mutRow":
		if len(in.rows) == 0 {
			return "", ""
		}
		rv := in.rows[len(in.rows)-1]
		rv.r.SetBit(in.sh.mutRowBit)
		rv.m[in.sh.mutRowBit] = true
	default:
		panic("unknown op " + op.Name)
	}
	return in.observe()
}

func (in *c03Inst) observe() (got, want string) {
	var g, w strings.Builder
	keys := func(m c03Set) []uint64 {
		a := make([]uint64, 0, len(m))
		for k := range m {
			a = append(a, k)
		}
		return a
	}
	put := func(name string, b *roaring.Bitmap, m c03Set) {
		fmt.Fprintf(&g, "%s={%s}#%d ", name, c03Show(b.Slice()), b.Count())
		fmt.Fprintf(&w, "%s={%s}#%d ", name, c03Show(keys(m)), len(m))
	}
	fragRows := func(fm map[vxBit]bool) string {
		byRow := map[uint64][]uint64{}
		for b := range fm {
			byRow[b.row] = append(byRow[b.row], b.col)
		}
		var rs []uint64
		for r := range byRow {
			rs = append(rs, r)
		}
		sort.Slice(rs, func(i, j int) bool { return rs[i] < rs[j] })
		var sb strings.Builder
		for _, r := range rs {
			fmt.Fprintf(&sb, "%d:[%s];", r, c03Show(byRow[r]))
		}
		return sb.String()
	}
	put("src", in.src, in.srcM)
	put("oth", in.oth, in.othM)
	for i, d := range in.derived {
		put(fmt.Sprintf("d%d:%s", i, d.name), d.b, d.m)
	}
	for i, rv := range in.rows {
		fmt.Fprintf(&g, "r%d:%s={%s}#%d ", i, rv.name, c03Show(rv.r.Columns()), rv.r.Count())
		fmt.Fprintf(&w, "r%d:%s={%s}#%d ", i, rv.name, c03Show(keys(rv.m)), len(rv.m))
	}
	fm := map[vxBit]bool{}
	_ = in.f.forEachBit(func(r, c uint64) error { fm[vxBit{r, c}] = true; return nil })
	fmt.Fprintf(&g, "frag={%s}", fragRows(fm))
	fmt.Fprintf(&w, "frag={%s}", fragRows(in.fM))
	return g.String(), w.String()
}

func c03Alphabet(kind string) []vx.Op {
	var a []vx.Op
	for _, d := range []string{"clone", "freeze", "union", "intersect", "difference", "xor", "offsetRange", "shift", "flip"} {
		a = append(a, vx.Op{Name: "derive", S: d})
	}
	for _, m := range []string{"add", "remove", "addN", "removeN", "importSet", "importClear", "optimize"} {
		a = append(a, vx.Op{Name: "mutSrc", S: m})
	}
	for _, m := range []string{"add", "remove", "addN", "removeN", "importClear"} {
		a = append(a, vx.Op{Name: "mutDer", S: m})
	}
	a = append(a, vx.Op{Name: "mutOth", S: "remove"}, vx.Op{Name: "mutOth", S: "addN"})
	if kind == "mapped" {
		a = append(a, vx.O("remap"))
	}
	a = append(a, vx.O("fRow", 0), vx.O("fRow", 1), vx.O("fRowUnion"), vx.O("fSet", 0, 3), vx.O("fClear", 0, 1), vx.O("fClear", 1, 1),
		vx.O("fImport"), vx.O("fSetRow"), vx.O("fSnapshot"), vx.O("fReopen"), vx.O("mutRow"))
	return a
}

// key: which value changed, after which kind of operation
func c03Key(kind string) func(p []vx.Op, got, want string) string {
	return func(p []vx.Op, got, want string) string {
		last := p[len(p)-1]
		if strings.HasPrefix(got, "PANIC") {
			return kind + " panic at=" + last.Name + ":" + last.S
		}
		gp, wp := strings.Fields(got), strings.Fields(want)
		victim := "?"
		for i := range gp {
			if i < len(wp) && gp[i] != wp[i] {
				victim = strings.SplitN(gp[i], "=", 2)[0]
				// strip the slot number
				if j := strings.Index(victim, ":"); j >= 0 {
					victim = victim[j+1:]
				}
				break
			}
		}
		var ctx []string
		seen := map[string]bool{}
		for _, o := range p[:len(p)-1] {
			n := o.Name
			if o.Name == "derive" {
				n = "derive:" + o.S
			}
			if !seen[n] {
				seen[n] = true
				ctx = append(ctx, n)
			}
		}
		sort.Strings(ctx)
		return fmt.Sprintf("%s changed=%s by=%s:%s after=%s", kind, victim, last.Name, last.S, strings.Join(ctx, "+"))
	}
}

func TestVerif_C03(t *testing.T) {
	c := vx.NewCheck("C03", "model_checking",
		"all histories up to the tier's depth over: derive a value (Clone/Freeze/Union/Intersect/Difference/Xor/OffsetRange/Shift/Flip, fragment.row, row union), mutate a source (bitmap add/remove/batch/import/optimize, remap mapped storage + scribble the old buffer, fragment set/clear/import/setRow/snapshot/close+reopen), mutate a derived value; after every step ALL live values are compared with their value snapshots; source kinds heap / B-tree / mapped; distinct = distinct op sequences explored (no state merging)")
	type cfg struct {
		kind, shape string
		depth       int
		budget      float64
	}
	var cfgs []cfg
	for _, kind := range []string{"slice", "btree", "mapped"} {
		cfgs = append(cfgs, cfg{kind, "array", c.Pick(3, 4), float64(c.Pick(35, 500))})
	}
	// the other container encodings: depth 3 in both tiers (quick: the bitmap shape on the B-tree
	// source only, which is what fragments use)
	for _, kind := range []string{"slice", "btree", "mapped"} {
		cfgs = append(cfgs, cfg{kind, "runs", 3, float64(c.Pick(35, 300))})
		if c.Thorough() || kind == "btree" {
			cfgs = append(cfgs, cfg{kind, "bitmap", 3, float64(c.Pick(45, 300))})
		}
	}
	for _, cf := range cfgs {
		cf := cf
		sh := c03Shapes[cf.shape]
		label := cf.kind
		if cf.shape != "array" {
			label = cf.kind + "/" + cf.shape
		}
		h := &vx.Harness{Alphabet: c03Alphabet(cf.kind), New: func() vx.Instance { return c03New(cf.kind, sh) }, Key: c03Key(label), MultiProcess: true}
		c.WithBudget(cf.budget, func() {
			c.RunDFS(h, cf.depth)
		})
		c.ConfirmViolations(h)
		fmt.Printf("INFO C03 kind=%s shape=%s alphabet=%d evals=%d\n", cf.kind, cf.shape, len(h.Alphabet), c.Evaluations)
	}
	c.AddStates(c.Evaluations)
	c.AddValidated(c.Evaluations)
	c.Assume("values on 2-4 containers; isolation judged by re-reading every live value after every step; unmapped reads surface as worker process death")
	if c.Finish() != 0 {
		t.Fail()
	}
}
