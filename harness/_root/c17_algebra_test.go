package pilosa

// C17, part 1 — algebra of the reduce functions used by executor.mapReduce / mapperLocal.
//
// A distributed result is the left fold of a reduce function over partial results, where the partials of a
// remote node were themselves folded on that node first. The result is independent of arrival order and of
// the shard->node grouping iff the reduce function is commutative and associative (on what it MEANS, i.e.
// after the normalisation the executor applies to the final value) and treats the empty partial as identity.
// Each real reduce function is evaluated on EVERY pair / triple of a small exhaustive domain of partial
// results and compared with a reference computed by the harness.

import (
	"fmt"
	"sort"
	"strings"

	"github.com/pilosa/pilosa/internal/vx"
)

// ---- ValCount ---------------------------------------------------------------------------------------

func c17VCDomain() []ValCount {
	var d []ValCount
	for _, v := range []int64{-1, 0, 1} {
		for _, n := range []int64{0, 1, 2} {
			d = append(d, ValCount{Val: v, Count: n})
		}
	}
	return d
}

// what executeMin/executeMax/executeSum return for a folded value: Count==0 means "no value".
func c17VCNorm(v ValCount) string {
	if v.Count == 0 {
		return "none"
	}
	return fmt.Sprintf("val=%d,count=%d", v.Val, v.Count)
}

// reference: min/max over partials that hold values; count = total over the partials that share it.
func c17VCRef(kind string, xs ...ValCount) ValCount {
	var out ValCount
	for _, x := range xs {
		if x.Count == 0 {
			continue
		}
		switch {
		case kind == "add":
			out.Val += x.Val
			out.Count += x.Count
		case out.Count == 0:
			out = x
		case x.Val == out.Val:
			out.Count += x.Count
		case kind == "smaller" && x.Val < out.Val, kind == "larger" && x.Val > out.Val:
			out = x
		}
	}
	return out
}

func c17VCOp(kind string, a, b ValCount) ValCount {
	switch kind {
	case "smaller":
		return a.smaller(b)
	case "larger":
		return a.larger(b)
	}
	return a.add(b)
}

func c17AlgebraValCount(c *vx.Check) {
	D := c17VCDomain()
	for _, kind := range []string{"add", "smaller", "larger"} {
		D := D
		if kind == "add" {
			// a Sum partial without values is {0,0} (sum + count*base with count 0); Min/Max partials without
			// values can carry Val=base, so the full product stays for smaller/larger
			D = nil
			for _, x := range c17VCDomain() {
				if x.Count > 0 || x.Val == 0 {
					D = append(D, x)
				}
			}
		}
		for _, a := range D {
			// identity: the fold starts from the zero ValCount (prev == nil in mapReduce)
			c.AddEval(2)
			if g, w := c17VCNorm(c17VCOp(kind, ValCount{}, a)), c17VCNorm(c17VCRef(kind, a)); g != w {
				c.Violate("algebra ValCount."+kind+" identity(left)", fmt.Sprintf("zero.%s(%+v)", kind, a), g, w)
			}
			if g, w := c17VCNorm(c17VCOp(kind, a, ValCount{})), c17VCNorm(c17VCRef(kind, a)); g != w {
				c.Violate("algebra ValCount."+kind+" identity(right)", fmt.Sprintf("%+v.%s(zero)", a, kind), g, w)
			}
			for _, b := range D {
				ab, ba := c17VCOp(kind, a, b), c17VCOp(kind, b, a)
				c.AddEval(2)
				c.Outcome(kind + c17VCNorm(ab))
				if a.Count > 0 && b.Count > 0 {
					c.Distinct(fmt.Sprintf("vc %s %+v %+v", kind, a, b))
				}
				tie := ""
				if a.Val == b.Val && a.Count > 0 && b.Count > 0 {
					tie = " on-tie"
				}
				if g, w := c17VCNorm(ab), c17VCNorm(ba); g != w {
					c.Violate("algebra ValCount."+kind+" not-commutative"+tie, fmt.Sprintf("a=%+v b=%+v", a, b), "a.op(b): "+g, "b.op(a): "+w)
				}
				if g, w := c17VCNorm(ab), c17VCNorm(c17VCRef(kind, a, b)); g != w {
					c.Violate("algebra ValCount."+kind+" wrong-value"+tie, fmt.Sprintf("a=%+v b=%+v", a, b), g, w+" (count = total over the partials sharing the value)")
				}
				for _, x := range D {
					l := c17VCOp(kind, c17VCOp(kind, a, b), x)
					r := c17VCOp(kind, a, c17VCOp(kind, b, x))
					c.AddEval(2)
					if g, w := c17VCNorm(l), c17VCNorm(r); g != w {
						c.Violate("algebra ValCount."+kind+" not-associative", fmt.Sprintf("a=%+v b=%+v c=%+v", a, b, x), "(a.b).c: "+g, "a.(b.c): "+w)
					}
				}
			}
		}
	}
}

// ---- Pairs.Add --------------------------------------------------------------------------------------

func c17PairsDomain() [][]Pair {
	// every assignment id -> count in {absent,1,2} over ids {1,2,3}; lists in ascending and descending id order
	var d [][]Pair
	for x := 0; x < 27; x++ {
		var p []Pair
		y := x
		for id := uint64(1); id <= 3; id++ {
			if n := y % 3; n > 0 {
				p = append(p, Pair{ID: id, Count: uint64(n)})
			}
			y /= 3
		}
		d = append(d, p)
		if len(p) > 1 {
			r := make([]Pair, len(p))
			for i := range p {
				r[len(p)-1-i] = p[i]
			}
			d = append(d, r)
		}
	}
	return d
}

func c17PairsCanon(p []Pair) string {
	q := append([]Pair(nil), p...)
	sort.Slice(q, func(i, j int) bool { return q[i].ID < q[j].ID })
	var sb strings.Builder
	for _, x := range q {
		fmt.Fprintf(&sb, "%d:%d ", x.ID, x.Count)
	}
	return sb.String()
}

func c17PairsRef(ps ...[]Pair) string {
	m := map[uint64]uint64{}
	for _, p := range ps {
		for _, x := range p {
			m[x.ID] += x.Count
		}
	}
	var q []Pair
	for id, n := range m {
		q = append(q, Pair{ID: id, Count: n})
	}
	return c17PairsCanon(q)
}

func c17AlgebraPairs(c *vx.Check) {
	D := c17PairsDomain()
	cp := func(p []Pair) []Pair { return append([]Pair(nil), p...) }
	for _, a := range D {
		c.AddEval(2)
		if g, w := c17PairsCanon(Pairs(nil).Add(cp(a))), c17PairsRef(a); g != w {
			c.Violate("algebra Pairs.Add identity(left)", fmt.Sprint(a), g, w)
		}
		if g, w := c17PairsCanon(Pairs(cp(a)).Add(nil)), c17PairsRef(a); g != w {
			c.Violate("algebra Pairs.Add identity(right)", fmt.Sprint(a), g, w)
		}
		for _, b := range D {
			a1, b1 := cp(a), cp(b)
			ab := Pairs(a1).Add(b1)
			c.AddEval(1)
			c.Outcome("pairs" + c17PairsCanon(ab))
			if len(a) > 0 && len(b) > 0 {
				c.Distinct("pairs " + fmt.Sprint(a, b))
			}
			if g, w := c17PairsCanon(ab), c17PairsRef(a, b); g != w {
				c.Violate("algebra Pairs.Add wrong-value", fmt.Sprintf("a=%v b=%v", a, b), g, w)
			}
			if c17PairsCanon(a1) != c17PairsCanon(a) || c17PairsCanon(b1) != c17PairsCanon(b) {
				c.Violate("algebra Pairs.Add mutates-argument", fmt.Sprintf("a=%v b=%v", a, b), fmt.Sprint(a1, b1), fmt.Sprint(a, b))
			}
			for _, x := range D {
				c.AddEval(2)
				l := Pairs(Pairs(cp(a)).Add(cp(b))).Add(cp(x))
				r := Pairs(cp(a)).Add(Pairs(cp(b)).Add(cp(x)))
				if g, w := c17PairsCanon(l), c17PairsCanon(r); g != w || g != c17PairsRef(a, b, x) {
					c.Violate("algebra Pairs.Add not-associative", fmt.Sprintf("a=%v b=%v c=%v", a, b, x), g, w)
				}
			}
		}
	}
}

// ---- RowIDs.merge -----------------------------------------------------------------------------------

func c17RowIDsRef(limit int, xs ...RowIDs) string {
	m := map[uint64]bool{}
	for _, x := range xs {
		for _, v := range x {
			m[v] = true
		}
	}
	var u []uint64
	for v := range m {
		u = append(u, v)
	}
	sort.Slice(u, func(i, j int) bool { return u[i] < u[j] })
	if len(u) > limit {
		u = u[:limit]
	}
	return fmt.Sprint(u)
}

func c17AlgebraRowIDs(c *vx.Check) {
	var D []RowIDs
	for m := 0; m < 16; m++ {
		var r RowIDs
		for b := 0; b < 4; b++ {
			if m&(1<<uint(b)) != 0 {
				r = append(r, uint64(b+1))
			}
		}
		D = append(D, r)
	}
	canon := func(r RowIDs) string { return fmt.Sprint([]uint64(append(RowIDs{}, r...))) }
	for _, limit := range []int{1, 2, 3, int(^uint(0) >> 1)} {
		// a shard (and a pre-reducing node) never returns more than `limit` ids: that is the feasible domain
		var F []RowIDs
		for _, r := range D {
			if len(r) <= limit {
				F = append(F, r)
			}
		}
		lim := fmt.Sprint(limit)
		if limit > 100 {
			lim = "none"
		}
		for _, a := range F {
			c.AddEval(2)
			if g, w := canon(RowIDs(nil).merge(a, limit)), c17RowIDsRef(limit, a); g != w {
				c.Violate("algebra RowIDs.merge identity(left) limit="+lim, fmt.Sprint(a), g, w)
			}
			if g, w := canon(a.merge(nil, limit)), c17RowIDsRef(limit, a); g != w {
				c.Violate("algebra RowIDs.merge identity(right) limit="+lim, fmt.Sprint(a), g, w)
			}
			for _, b := range F {
				ab, ba := a.merge(b, limit), b.merge(a, limit)
				c.AddEval(2)
				c.Outcome("rowids" + lim + canon(ab))
				if len(a) > 0 && len(b) > 0 {
					c.Distinct(fmt.Sprint("rowids ", limit, a, b))
				}
				if g, w := canon(ab), c17RowIDsRef(limit, a, b); g != w {
					c.Violate("algebra RowIDs.merge wrong-value limit="+lim, fmt.Sprintf("a=%v b=%v", a, b), g, w)
				}
				if g, w := canon(ab), canon(ba); g != w {
					c.Violate("algebra RowIDs.merge not-commutative limit="+lim, fmt.Sprintf("a=%v b=%v", a, b), g, w)
				}
				for _, x := range F {
					c.AddEval(2)
					l := a.merge(b, limit).merge(x, limit)
					r := a.merge(b.merge(x, limit), limit)
					if g, w := canon(l), canon(r); g != w || g != c17RowIDsRef(limit, a, b, x) {
						c.Violate("algebra RowIDs.merge not-associative limit="+lim, fmt.Sprintf("a=%v b=%v c=%v", a, b, x), g, w+" ref "+c17RowIDsRef(limit, a, b, x))
					}
				}
			}
		}
	}
}

// ---- mergeGroupCounts -------------------------------------------------------------------------------

func c17GCDomain() [][]GroupCount {
	groups := [][]FieldRow{
		{{Field: "f", RowID: 1}, {Field: "g", RowID: 1}},
		{{Field: "f", RowID: 1}, {Field: "g", RowID: 2}},
		{{Field: "f", RowID: 2}, {Field: "g", RowID: 1}},
	}
	var d [][]GroupCount
	for x := 0; x < 27; x++ {
		var l []GroupCount
		y := x
		for _, g := range groups {
			if n := y % 3; n > 0 {
				l = append(l, GroupCount{Group: g, Count: uint64(n)})
			}
			y /= 3
		}
		d = append(d, l)
	}
	return d
}

func c17GCCopy(a []GroupCount) []GroupCount {
	if a == nil {
		return nil
	}
	out := make([]GroupCount, len(a))
	for i := range a {
		out[i] = GroupCount{Group: append([]FieldRow(nil), a[i].Group...), Count: a[i].Count}
	}
	return out
}

func c17GCCanon(a []GroupCount) string {
	var sb strings.Builder
	for _, g := range a {
		for _, fr := range g.Group {
			fmt.Fprintf(&sb, "%s=%d,", fr.Field, fr.RowID)
		}
		fmt.Fprintf(&sb, ":%d ", g.Count)
	}
	return sb.String()
}

func c17GCRef(limit int, xs ...[]GroupCount) string {
	m := map[string]*GroupCount{}
	for _, x := range xs {
		for _, g := range x {
			k := c17GCCanon([]GroupCount{{Group: g.Group}})
			if m[k] == nil {
				m[k] = &GroupCount{Group: g.Group}
			}
			m[k].Count += g.Count
		}
	}
	var u []GroupCount
	for _, g := range m {
		u = append(u, *g)
	}
	sort.Slice(u, func(i, j int) bool { return u[i].Compare(u[j]) < 0 })
	if len(u) > limit {
		u = u[:limit]
	}
	return c17GCCanon(u)
}

func c17AlgebraGroupCounts(c *vx.Check) {
	D := c17GCDomain()
	for _, limit := range []int{1, 2, int(^uint(0) >> 1)} {
		var F [][]GroupCount
		for _, l := range D {
			if len(l) <= limit {
				F = append(F, l)
			}
		}
		lim := fmt.Sprint(limit)
		if limit > 100 {
			lim = "none"
		}
		for _, a := range F {
			c.AddEval(2)
			if g, w := c17GCCanon(mergeGroupCounts(nil, c17GCCopy(a), limit)), c17GCRef(limit, a); g != w {
				c.Violate("algebra mergeGroupCounts identity(left) limit="+lim, c17GCCanon(a), g, w)
			}
			if g, w := c17GCCanon(mergeGroupCounts(c17GCCopy(a), nil, limit)), c17GCRef(limit, a); g != w {
				c.Violate("algebra mergeGroupCounts identity(right) limit="+lim, c17GCCanon(a), g, w)
			}
			for _, b := range F {
				c.AddEval(2)
				b1 := c17GCCopy(b)
				ab := mergeGroupCounts(c17GCCopy(a), b1, limit)
				ba := mergeGroupCounts(c17GCCopy(b), c17GCCopy(a), limit)
				c.Outcome("gc" + lim + c17GCCanon(ab))
				if len(a) > 0 && len(b) > 0 {
					c.Distinct("gc " + lim + c17GCCanon(a) + "|" + c17GCCanon(b))
				}
				if g, w := c17GCCanon(ab), c17GCRef(limit, a, b); g != w {
					c.Violate("algebra mergeGroupCounts wrong-value limit="+lim, "a="+c17GCCanon(a)+" b="+c17GCCanon(b), g, w)
				}
				if g, w := c17GCCanon(ab), c17GCCanon(ba); g != w {
					c.Violate("algebra mergeGroupCounts not-commutative limit="+lim, "a="+c17GCCanon(a)+" b="+c17GCCanon(b), g, w)
				}
				// the incoming partial (second argument) belongs to the sender: it must not be modified
				if g, w := c17GCCanon(b1), c17GCCanon(b); g != w {
					c.Violate("algebra mergeGroupCounts mutates-incoming-partial limit="+lim, "a="+c17GCCanon(a)+" b="+c17GCCanon(b), g, w)
				}
				for _, x := range F {
					c.AddEval(2)
					l := mergeGroupCounts(mergeGroupCounts(c17GCCopy(a), c17GCCopy(b), limit), c17GCCopy(x), limit)
					r := mergeGroupCounts(c17GCCopy(a), mergeGroupCounts(c17GCCopy(b), c17GCCopy(x), limit), limit)
					if g, w := c17GCCanon(l), c17GCCanon(r); g != w || g != c17GCRef(limit, a, b, x) {
						c.Violate("algebra mergeGroupCounts not-associative limit="+lim, "a="+c17GCCanon(a)+" b="+c17GCCanon(b)+" c="+c17GCCanon(x), g, w+" ref "+c17GCRef(limit, a, b, x))
					}
				}
			}
		}
	}
}

// ---- Row.Merge --------------------------------------------------------------------------------------

func c17AlgebraRowMerge(c *vx.Check) {
	univ := []uint64{0, 1, ShardWidth - 1, ShardWidth, ShardWidth + 1, 2 * ShardWidth}
	var D [][]uint64
	for m := 0; m < 1<<uint(len(univ)); m++ {
		var s []uint64
		for b := range univ {
			if m&(1<<uint(b)) != 0 {
				s = append(s, univ[b])
			}
		}
		D = append(D, s)
	}
	ref := func(xs ...[]uint64) string {
		m := map[uint64]bool{}
		for _, x := range xs {
			for _, v := range x {
				m[v] = true
			}
		}
		var u []uint64
		for v := range m {
			u = append(u, v)
		}
		return vx.SortedU64(u)
	}
	canon := func(r *Row) string { return fmt.Sprintf("%s n=%d", vx.SortedU64(r.Columns()), r.Count()) }
	fold := func(xs ...[]uint64) *Row {
		// exactly what executeBitmapCall's reduceFn does: NewRow() then Merge each partial
		acc := NewRow()
		for _, x := range xs {
			acc.Merge(NewRow(x...))
		}
		return acc
	}
	for _, a := range D {
		for _, b := range D {
			c.AddEval(2)
			ab, ba := fold(a, b), fold(b, a)
			c.Outcome("row" + canon(ab))
			if len(a) > 0 && len(b) > 0 {
				c.Distinct("row " + fmt.Sprint(a, b))
			}
			w := ref(a, b)
			w = fmt.Sprintf("%s n=%d", w, strings.Count(w, ",")+c17b2i(w != ""))
			if g := canon(ab); g != w {
				c.Violate("algebra Row.Merge wrong-value", fmt.Sprintf("a=%v b=%v", a, b), g, w)
			}
			if g := canon(ba); g != w {
				c.Violate("algebra Row.Merge not-commutative", fmt.Sprintf("a=%v b=%v", a, b), g, w)
			}
		}
	}
	// associativity / pre-reduction on a remote node: triples over a thinner domain
	var T [][]uint64
	for i, s := range D {
		if i%5 == 0 || len(s) <= 1 {
			T = append(T, s)
		}
	}
	for _, a := range T {
		for _, b := range T {
			for _, x := range T {
				c.AddEval(2)
				l := fold(a, b, x)
				pre := fold(b, x) // a node reduced b and x before sending
				r := NewRow()
				r.Merge(NewRow(a...))
				r.Merge(NewRow(pre.Columns()...))
				w := ref(a, b, x)
				w = fmt.Sprintf("%s n=%d", w, strings.Count(w, ",")+c17b2i(w != ""))
				if g := canon(l); g != w {
					c.Violate("algebra Row.Merge wrong-value(3)", fmt.Sprintf("a=%v b=%v c=%v", a, b, x), g, w)
				}
				if g := canon(r); g != w {
					c.Violate("algebra Row.Merge not-associative", fmt.Sprintf("a=%v b=%v c=%v", a, b, x), g, w)
				}
			}
		}
	}
}

func c17b2i(b bool) int {
	if b {
		return 1
	}
	return 0
}

var c17AlgebraParts = []func(*vx.Check){c17AlgebraValCount, c17AlgebraPairs, c17AlgebraRowIDs, c17AlgebraGroupCounts, c17AlgebraRowMerge}
