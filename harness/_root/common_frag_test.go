package pilosa

// Shared helpers for the fragment-level harnesses (C03, C07, C10, ...). Injected with every
// root-package check, so it only uses long-lived seams of fragment.go.

import (
	"bytes"
	"fmt"
	"os"
	"path/filepath"
	"reflect"
	"sort"
	"strings"
	"unsafe"

	"github.com/pilosa/pilosa/internal/vx"
	"github.com/pilosa/pilosa/roaring"
)

type vxBit struct{ row, col uint64 }

// vxFragKind selects the fragment flavour.
const (
	vxKindSet   = "set"
	vxKindMutex = "mutex"
	vxKindBool  = "bool"
	vxKindBSI   = "bsi"
)

// vxOpenFragment opens a fresh file-backed fragment for shard `shard` in a fresh scratch dir.
// queue=true: the harness owns the snapshot queue (background snapshots become explicit events).
func vxOpenFragment(kind string, shard uint64, maxOpN int, cacheType string, queue bool) *fragment {
	dir := vx.Scratch()
	var flags byte
	if kind == vxKindBSI {
		flags = roaringFlagBSIv2
	}
	f := newFragment(filepath.Join(dir, "frag"), "i", "f", viewStandard, shard, flags)
	if cacheType != "" {
		f.CacheType = cacheType
	}
	if maxOpN > 0 {
		f.MaxOpN = maxOpN
	}
	if queue {
		f.snapshotQueue = make(chan *fragment, 64)
	}
	if err := f.Open(); err != nil {
		panic(err)
	}
	switch kind {
	case vxKindMutex:
		f.mutexVector = newRowsVector(f)
	case vxKindBool:
		f.mutexVector = newBoolVector(f)
	}
	return f
}

// vxRunQueuedSnapshots runs, in the caller's goroutine, every snapshot that the background worker
// would run (exactly what snapshotQueueWorker does per element). Returns how many ran.
func vxRunQueuedSnapshots(f *fragment) int {
	n := 0
	for {
		select {
		case g := <-f.snapshotQueue:
			if err := g.protectedSnapshot(true); err != nil {
				panic(fmt.Sprintf("queued snapshot: %v", err))
			}
			g.snapshotCond.Broadcast()
			n++
		default:
			return n
		}
	}
}

// vxCloseFragment closes f (draining a harness-owned queue first so Close cannot wait for ever).
func vxCloseFragment(f *fragment) {
	if f.snapshotQueue != nil {
		vxRunQueuedSnapshots(f)
	}
	_ = f.Close()
}

// vxDiscardFragment releases the fragment's file and mapping WITHOUT the graceful-close work
// (cache flush): cheap cleanup for instances that are thrown away.
func vxDiscardFragment(f *fragment) {
	if f.snapshotQueue != nil {
		vxRunQueuedSnapshots(f)
	}
	f.mu.Lock()
	_ = f.closeStorage(true)
	path := f.path
	f.mu.Unlock()
	// the fragment lives alone in a scratch directory of its own (vxOpenFragment): remove it, or a
	// thorough run leaves millions of directories on the tmpfs and runs it out of inodes
	if filepath.Base(path) == "frag" {
		os.RemoveAll(filepath.Dir(path))
	}
}

// vxModelBits renders a bit set canonically.
func vxModelBits(m map[vxBit]bool) string {
	a := make([]vxBit, 0, len(m))
	for b, ok := range m {
		if ok {
			a = append(a, b)
		}
	}
	sort.Slice(a, func(i, j int) bool {
		if a[i].row != a[j].row {
			return a[i].row < a[j].row
		}
		return a[i].col < a[j].col
	})
	var sb strings.Builder
	for _, b := range a {
		fmt.Fprintf(&sb, "%d:%d ", b.row, b.col)
	}
	return sb.String()
}

// vxPilosaRoaring encodes fragment positions (row*ShardWidth + col%ShardWidth) in Pilosa's format.
func vxPilosaRoaring(bits []vxBit) []byte {
	bm := roaring.NewBitmap()
	for _, b := range bits {
		bm.DirectAdd(b.row*ShardWidth + b.col%ShardWidth)
	}
	var buf bytes.Buffer
	if _, err := bm.WriteTo(&buf); err != nil {
		panic(err)
	}
	return buf.Bytes()
}

// vxFragHidden renders the hidden state of a fragment that can influence future behaviour.
func vxFragHidden(f *fragment) string {
	var sb strings.Builder
	byKey := map[uint64]*roaring.Container{}
	cit, _ := f.storage.Containers.Iterator(0)
	for cit.Next() {
		k, c := cit.Value()
		byKey[k] = c
		if c == nil {
			fmt.Fprintf(&sb, "%d:nil,", k)
			continue
		}
		fmt.Fprintf(&sb, "%d:%d:%d:%v,", k, vxContainerType(c), c.N(), c.Mapped())
	}
	sb.WriteString(vxLookaside(f.storage, byKey))
	// Bookkeeping fields are READ THROUGH REFLECTION by name: they are implementation details, and a
	// rename or a change of representation must not stop every root-package check from compiling —
	// a field that is not there simply drops out of the fingerprint (coarser merging, never a verdict).
	fv := reflect.ValueOf(f).Elem()
	if rc := fv.FieldByName("rowCache"); rc.IsValid() && rc.Kind() == reflect.Interface && !rc.IsNil() {
		if e := rc.Elem(); e.Kind() == reflect.Ptr && !e.IsNil() && e.Elem().Kind() == reflect.Struct {
			if m := e.Elem().FieldByName("cache"); m.IsValid() && m.Kind() == reflect.Map {
				ks := make([]uint64, 0, m.Len())
				for _, k := range m.MapKeys() {
					if k.Kind() == reflect.Uint64 {
						ks = append(ks, k.Uint())
					}
				}
				sort.Slice(ks, func(i, j int) bool { return ks[i] < ks[j] })
				fmt.Fprintf(&sb, "|rc=%v", ks)
			}
		}
	}
	for _, name := range []string{"checksums", "blockSums"} {
		if m := fv.FieldByName(name); m.IsValid() && m.Kind() == reflect.Map {
			cks := make([]int, 0, m.Len())
			for _, k := range m.MapKeys() {
				if k.Kind() == reflect.Int {
					cks = append(cks, int(k.Int()))
				}
			}
			sort.Ints(cks)
			fmt.Fprintf(&sb, "|ck=%v", cks)
		}
	}
	for _, name := range []string{"opN", "snapshotting", "maxRowID"} {
		if v := fv.FieldByName(name); v.IsValid() {
			switch v.Kind() {
			case reflect.Int, reflect.Int64:
				fmt.Fprintf(&sb, "|%s=%d", name, v.Int())
			case reflect.Uint64:
				fmt.Fprintf(&sb, "|%s=%d", name, v.Uint())
			case reflect.Bool:
				fmt.Fprintf(&sb, "|%s=%v", name, v.Bool())
			}
		}
	}
	if f.cache != nil {
		ids := append([]uint64(nil), f.cache.IDs()...)
		sort.Slice(ids, func(i, j int) bool { return ids[i] < ids[j] })
		sb.WriteString("|cache=")
		for _, id := range ids {
			fmt.Fprintf(&sb, "%d:%d,", id, f.cache.Get(id))
		}
	}
	return sb.String()
}

// vxLookaside renders the state of the storage bitmap's B-tree lookaside cache (last key looked up and
// whether the cached container is still the one the tree holds for that key). The fields are
// unexported in package roaring, so they are READ through reflection; if the implementation has no
// such fields the state is simply not part of the fingerprint. Without it, two states that differ
// only in a stale lookaside entry would be merged by the BFS although their futures differ.
func vxLookaside(b *roaring.Bitmap, byKey map[uint64]*roaring.Container) string {
	if b == nil || b.Containers == nil {
		return ""
	}
	v := reflect.ValueOf(b.Containers)
	if v.Kind() != reflect.Ptr || v.IsNil() || v.Elem().Kind() != reflect.Struct {
		return ""
	}
	lk, lc := v.Elem().FieldByName("lastKey"), v.Elem().FieldByName("lastContainer")
	if !lk.IsValid() || !lc.IsValid() || lk.Kind() != reflect.Uint64 || lc.Kind() != reflect.Ptr {
		return ""
	}
	key := lk.Uint()
	state := "same"
	switch cur, ok := byKey[key]; {
	case lc.IsNil():
		state = "nil"
	case !ok:
		state = "orphan" // the tree no longer has this key but the lookaside still holds a container
	case uintptr(unsafe.Pointer(cur)) != lc.Pointer():
		state = "stale"
	}
	return fmt.Sprintf("|la=%d,%s", key, state)
}

func vxContainerType(c *roaring.Container) int {
	// roaring exposes no type accessor; derive a stable discriminator from the String form.
	s := c.String()
	switch {
	case strings.Contains(s, "run"):
		return 3
	case strings.Contains(s, "bitmap"):
		return 2
	case strings.Contains(s, "array"):
		return 1
	}
	return 0
}
