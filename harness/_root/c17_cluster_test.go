package pilosa

// C17, part 2 — results do not depend on placement, coordinator or completion order.
//
// Clusters of 1..4 in-process nodes; every node is a real Holder + real cluster (placement) + real executor
// behind a real API. The executors are built with worker-pool size 0, so nobody consumes executor.work: the
// harness receives every local shard job itself, runs it, and hands the results back in the order it chooses.
// Remote shard groups travel through the harness' InternalQueryClient, which executes them on the peer's real
// API.Query (Remote=true) and then holds the response at a gate. The whole cluster lives in a
// testing/synctest bubble: synctest.Wait() returns only when every goroutine of the cluster is durably
// blocked, which is the acknowledgement that the coordinator has consumed (reduced) the result released last
// before the next one is released. Arrival order is therefore exactly the chosen permutation - no sleeps, no
// timing. Every permutation of local shard results on every node x every permutation of node groups at the
// coordinator x every coordinator x every cluster shape is executed for every query of the battery.

import (
	"context"
	"encoding/json"
	"fmt"
	"os"
	"path/filepath"
	"runtime"
	"sort"
	"strings"
	"sync"
	"sync/atomic"
	"testing"
	"testing/synctest"
	"time"

	"github.com/pilosa/pilosa/internal/vx"
	"github.com/pilosa/pilosa/pql"
	"github.com/pkg/errors"
)

const c17Index = "i"

type c17ModHasher struct{}

func (c17ModHasher) Hash(key uint64, n int) int { return int(key % uint64(n)) }

type c17Node struct {
	idx     int
	node    *Node
	holder  *Holder
	cluster *cluster
	exec    *executor
	api     *API
}

type c17Gate struct {
	to      int
	release chan struct{}
}

type c17Cluster struct {
	nodes   []*c17Node
	mu      sync.Mutex
	pending [][]job
	gated   []*c17Gate
	pumps   sync.WaitGroup

	states, transitions int64
}

// QueryNode implements InternalQueryClient: run the forwarded call on the addressed node's real API, then
// hold the response until the controller releases it.
func (cl *c17Cluster) QueryNode(ctx context.Context, uri *URI, index string, req *QueryRequest) (*QueryResponse, error) {
	var to *c17Node
	for _, n := range cl.nodes {
		if n.node.URI.Host == uri.Host {
			to = n
		}
	}
	if to == nil {
		panic("c17: unknown uri " + uri.String())
	}
	r, err := c17APIQuery(ctx, to.api, &QueryRequest{Index: index, Query: req.Query, Shards: append([]uint64(nil), req.Shards...), Remote: req.Remote})
	resp := &QueryResponse{Err: err}
	for _, v := range r.Results {
		resp.Results = append(resp.Results, c17WireCopy(v))
	}
	g := &c17Gate{to: to.idx, release: make(chan struct{})}
	cl.mu.Lock()
	cl.gated = append(cl.gated, g)
	cl.mu.Unlock()
	<-g.release
	return resp, nil
}

// c17APIQuery is API.Query with one difference: the PQL text is parsed once per distinct string and the AST is
// deep-copied per execution (the generated peg parser allocates and clears ~400 KB per parse, which would
// dominate the run). Everything after parsing is API.Query verbatim: state validation, the same execOptions,
// the real executor.Execute of that node.
var c17ParseCache sync.Map // string -> *pql.Query (never executed, only cloned)

func c17APIQuery(ctx context.Context, api *API, req *QueryRequest) (QueryResponse, error) {
	if c17NoParseCache {
		return api.Query(ctx, req)
	}
	if err := api.validate(apiQuery); err != nil {
		return QueryResponse{}, err
	}
	var q *pql.Query
	if v, ok := c17ParseCache.Load(req.Query); ok {
		if e, isErr := v.(error); isErr {
			return QueryResponse{}, e
		}
		q = v.(*pql.Query)
	} else {
		pq, err := pql.ParseString(req.Query)
		if err != nil {
			err = errors.Wrap(err, "parsing") // as API.Query wraps it
			c17ParseCache.Store(req.Query, err)
			return QueryResponse{}, err
		}
		c17ParseCache.Store(req.Query, pq)
		q = pq
	}
	cq := &pql.Query{}
	for _, c := range q.Calls {
		cq.Calls = append(cq.Calls, c17CloneCall(c))
	}
	opts := &execOptions{Remote: req.Remote, ExcludeRowAttrs: req.ExcludeRowAttrs, ExcludeColumns: req.ExcludeColumns, ColumnAttrs: req.ColumnAttrs}
	return api.server.executor.Execute(ctx, req.Index, cq, req.Shards, opts)
}

var c17NoParseCache = os.Getenv("C17_NO_PARSE_CACHE") != ""

func c17CloneCall(c *pql.Call) *pql.Call {
	if c == nil {
		return nil
	}
	o := &pql.Call{Name: c.Name, Args: map[string]interface{}{}}
	for k, v := range c.Args {
		o.Args[k] = c17CloneVal(v)
	}
	for _, ch := range c.Children {
		o.Children = append(o.Children, c17CloneCall(ch))
	}
	return o
}

func c17CloneVal(v interface{}) interface{} {
	switch x := v.(type) {
	case *pql.Call:
		return c17CloneCall(x)
	case *pql.Condition:
		return &pql.Condition{Op: x.Op, Value: c17CloneVal(x.Value)}
	case []interface{}:
		o := make([]interface{}, len(x))
		for i := range x {
			o[i] = c17CloneVal(x[i])
		}
		return o
	case []int64:
		return append([]int64(nil), x...)
	case []uint64:
		return append([]uint64(nil), x...)
	case []string:
		return append([]string(nil), x...)
	}
	return v // scalars: int64, uint64, float64, bool, string, nil, time.Time
}

// c17WireCopy gives the receiver its own copy of a result, as (de)serialisation does.
func c17WireCopy(v interface{}) interface{} {
	switch x := v.(type) {
	case *Row:
		r := NewRow(x.Columns()...)
		r.Keys = append([]string(nil), x.Keys...)
		return r
	case []Pair:
		return append([]Pair(nil), x...)
	case RowIDs:
		return append(RowIDs(nil), x...)
	case []GroupCount:
		return c17GCCopy(x)
	}
	return v
}

func c17NewCluster(base string, n, replicaN int, hasher Hasher) *c17Cluster {
	cl := &c17Cluster{pending: make([][]job, n)}
	var all []*Node
	for k := 0; k < n; k++ {
		all = append(all, &Node{ID: fmt.Sprintf("node%d", k), URI: URI{Scheme: "http", Host: fmt.Sprintf("host%d", k), Port: 10101}, State: nodeStateReady, IsCoordinator: k == 0})
	}
	for k := 0; k < n; k++ {
		h := NewHolder()
		h.Path = filepath.Join(base, fmt.Sprintf("n%d", k))
		if err := h.Open(); err != nil {
			panic(err)
		}
		c := newCluster()
		c.ReplicaN = replicaN
		c.Hasher = hasher
		c.holder = h
		c.Path = h.Path
		c.Topology = newTopology()
		for _, nd := range all {
			nn := *nd
			c.nodes = append(c.nodes, &nn)
		}
		c.Node = c.nodes[k]
		c.Coordinator = c.nodes[0].ID
		c.SetState(ClusterStateNormal)
		e := newExecutor(optExecutorInternalQueryClient(cl), optExecutorWorkerPoolSize(0))
		e.Holder = h
		e.Node = c.Node
		e.Cluster = c
		e.TranslateStore = h.translateFile
		srv := &Server{nodeID: c.Node.ID, holder: h, cluster: c, executor: e}
		api := &API{holder: h, cluster: c, server: srv}
		nd := &c17Node{idx: k, node: c.Node, holder: h, cluster: c, exec: e, api: api}
		cl.nodes = append(cl.nodes, nd)
		cl.pumps.Add(1)
		go func() {
			defer cl.pumps.Done()
			for j := range e.work {
				cl.mu.Lock()
				cl.pending[nd.idx] = append(cl.pending[nd.idx], j)
				cl.mu.Unlock()
			}
		}()
	}
	return cl
}

func (cl *c17Cluster) Close() {
	for _, n := range cl.nodes {
		n.exec.Close()
		n.holder.Close()
	}
	cl.pumps.Wait()
}

// ---- data -------------------------------------------------------------------------------------------

type c17Bit struct {
	field    string
	row, col uint64
	ts       string // "" or "2006-01-02T15:04"
}

type c17Data struct {
	name   string
	shards []uint64
	bits   []c17Bit
	vals   map[uint64]int64
}

// per-shard profiles (tie-rich: equal minima/maxima, equal row counts, the same rows in several shards)
func c17Profile(p byte, s uint64, d *c17Data) {
	c0, c1, c2 := s*ShardWidth, s*ShardWidth+1, s*ShardWidth+ShardWidth-1
	add := func(f string, r, c uint64, ts string) { d.bits = append(d.bits, c17Bit{f, r, c, ts}) }
	switch p {
	case 'A':
		add("f", 1, c0, "")
		add("f", 2, c0, "")
		add("f", 2, c1, "")
		add("g", 1, c0, "")
		d.vals[c0], d.vals[c1] = 1, 1
		add("t", 1, c0, "2018-01-01T00:00")
	case 'B':
		add("f", 1, c0, "")
		add("f", 1, c1, "")
		add("f", 2, c2, "")
		add("g", 1, c0, "")
		add("g", 1, c1, "")
		add("g", 2, c0, "")
		d.vals[c0], d.vals[c2] = 1, 2
		add("t", 1, c1, "2019-02-03T00:00")
	case 'C':
		add("f", 2, c0, "")
		add("f", 3, c0, "")
		add("g", 1, c0, "")
		add("g", 2, c0, "")
		d.vals[c0], d.vals[c1], d.vals[c2] = -1, 2, 2
		add("t", 2, c0, "2018-01-01T00:00")
	case 'D':
		add("f", 3, c1, "")
		add("f", 3, c2, "")
		add("g", 1, c1, "")
		add("g", 1, c2, "")
		d.vals[c1], d.vals[c2] = -1, -1
	// TopN-oriented profiles: tie-free inside every shard, DIFFERENT best rows per shard, and a row
	// (f=3) that is nowhere the single best of a multi-row shard but wins globally — so the candidate
	// set of the two-pass TopN(n) matters, and it must not depend on how shards are grouped onto nodes.
	case 'E':
		add("f", 1, c0, "")
		add("f", 1, c1, "")
		add("f", 1, c2, "")
		add("g", 1, c0, "")
		d.vals[c0] = 3
	case 'F':
		add("f", 3, c0, "")
		add("f", 3, c1, "")
		add("g", 2, c0, "")
		d.vals[c1] = 2
	case 'G':
		add("f", 2, c0, "")
		add("f", 2, c1, "")
		add("f", 2, c2, "")
		add("f", 3, c0, "")
		add("f", 3, c1, "")
		add("g", 1, c1, "")
		d.vals[c0] = -1
	case 'H':
		add("f", 4, c0, "")
		add("f", 4, c1, "")
		add("f", 4, c2, "")
		add("f", 3, c1, "")
		add("f", 3, c2, "")
		add("g", 1, c2, "")
		d.vals[c2] = 2
	}
}

func c17MakeData(profiles string, shards []uint64) *c17Data {
	d := &c17Data{name: profiles, shards: shards, vals: map[uint64]int64{}}
	for i, s := range shards {
		c17Profile(profiles[i], s, d)
	}
	return d
}

func (d *c17Data) cols(field string, row uint64) map[uint64]bool {
	m := map[uint64]bool{}
	for _, b := range d.bits {
		if b.field == field && b.row == row {
			m[b.col] = true
		}
	}
	return m
}

func (cl *c17Cluster) load(d *c17Data) {
	for _, n := range cl.nodes {
		idx, err := n.holder.CreateIndex(c17Index, IndexOptions{TrackExistence: true})
		if err != nil {
			panic(err)
		}
		for _, f := range []struct {
			name string
			opt  FieldOption
		}{
			{"f", OptFieldTypeSet(CacheTypeRanked, 50000)},
			{"g", OptFieldTypeSet(CacheTypeRanked, 50000)},
			{"v", OptFieldTypeInt(-10, 10)},
			{"t", OptFieldTypeTime(TimeQuantum("YMD"))},
		} {
			if _, err := idx.CreateField(f.name, f.opt); err != nil {
				panic(err)
			}
		}
		owns := func(col uint64) bool { return n.cluster.ownsShard(n.node.ID, c17Index, col/ShardWidth) }
		exist := map[uint64]bool{}
		for _, b := range d.bits {
			if !owns(b.col) {
				continue
			}
			var ts *time.Time
			if b.ts != "" {
				t, err := time.Parse("2006-01-02T15:04", b.ts)
				if err != nil {
					panic(err)
				}
				ts = &t
			}
			if _, err := idx.Field(b.field).SetBit(b.row, b.col, ts); err != nil {
				panic(err)
			}
			exist[b.col] = true
		}
		for col, v := range d.vals {
			if !owns(col) {
				continue
			}
			if _, err := idx.Field("v").SetValue(col, v); err != nil {
				panic(err)
			}
			exist[col] = true
		}
		for col := range exist {
			if _, err := idx.existenceField().SetBit(0, col, nil); err != nil {
				panic(err)
			}
		}
		// every node knows which shards hold data anywhere in the cluster (what CreateShardMessage achieves)
		for _, f := range idx.Fields() {
			av := f.AvailableShards().Clone()
			for _, s := range d.shards {
				av.DirectAdd(s)
			}
			if err := f.AddRemoteAvailableShards(av); err != nil {
				panic(err)
			}
		}
		n.holder.recalculateCaches()
	}
}

// ---- controlled execution ---------------------------------------------------------------------------

var c17Fact = []int{1, 1, 2, 6, 24, 120}

// c17Perm returns the idx-th permutation (lexicographic) of 0..n-1; idx is taken modulo n!.
func c17Perm(n, idx int) []int {
	if n <= 1 {
		if n == 1 {
			return []int{0}
		}
		return nil
	}
	idx %= c17Fact[n]
	pool := make([]int, n)
	for i := range pool {
		pool[i] = i
	}
	out := make([]int, 0, n)
	for k := n; k >= 1; k-- {
		f := c17Fact[k-1]
		i := idx / f
		idx %= f
		out = append(out, pool[i])
		pool = append(pool[:i], pool[i+1:]...)
	}
	return out
}

type c17Plan struct {
	local []int // per node: index of the permutation of its local shard results
	group int   // index of the permutation of node groups at the coordinator
}

func (p c17Plan) String() string { return fmt.Sprintf("local=%v group=%d", p.local, p.group) }

func (cl *c17Cluster) take(n int) []job {
	cl.mu.Lock()
	defer cl.mu.Unlock()
	j := cl.pending[n]
	cl.pending[n] = nil
	sort.SliceStable(j, func(a, b int) bool { return j[a].shard < j[b].shard })
	return j
}

// deliver runs the jobs (real map function of the real executor) and hands the results to the node's
// mapperLocal in the chosen order. resultChan is buffered with one slot per shard, so the order of these sends
// is the order in which mapperLocal reduces them.
func (cl *c17Cluster) deliver(jobs []job, permIdx int, trace *[]string, who int) {
	for _, i := range c17Perm(len(jobs), permIdx) {
		j := jobs[i]
		// the REAL pool worker runs the job (so whatever it puts into the response — today result and
		// error — is what mapperLocal receives); one private work channel per job keeps the order
		one := make(chan job, 1)
		one <- j
		close(one)
		worker(one)
		atomic.AddInt64(&cl.transitions, 1)
		if trace != nil {
			*trace = append(*trace, fmt.Sprintf("n%d:shard%d", who, j.shard))
		}
	}
}

// exec runs one query on coordinator `coord` under plan p and returns the response plus the realised order.
func (cl *c17Cluster) exec(coord int, query string, p c17Plan) (QueryResponse, error, string) {
	done := make(chan struct{})
	var resp QueryResponse
	var err error
	go func() {
		resp, err = c17APIQuery(context.Background(), cl.nodes[coord].api, &QueryRequest{Index: c17Index, Query: query})
		close(done)
	}()
	var trace []string
	for iter := 0; ; iter++ {
		synctest.Wait()
		atomic.AddInt64(&cl.states, 1)
		select {
		case <-done:
			return resp, err, strings.Join(trace, " ")
		default:
		}
		if iter > 1000 {
			panic("c17: no progress executing " + query)
		}
		// 1. let every remote node finish its own local map/reduce (in its chosen local order)
		progressed := false
		for n := range cl.nodes {
			if n == coord {
				continue
			}
			if jobs := cl.take(n); len(jobs) > 0 {
				cl.deliver(jobs, p.local[n], &trace, n)
				progressed = true
			}
		}
		if progressed {
			continue
		}
		// 2. all remote groups are now held at their gates; release the groups (the coordinator's own local
		// group is "released" by delivering its shard results) in the chosen order, waiting for quiescence
		// after each one so that the coordinator has reduced it before the next arrives.
		cl.mu.Lock()
		gates := cl.gated
		cl.gated = nil
		cl.mu.Unlock()
		sort.Slice(gates, func(a, b int) bool { return gates[a].to < gates[b].to })
		local := cl.take(coord)
		type grp struct {
			node int
			gate *c17Gate
		}
		var groups []grp
		for _, g := range gates {
			groups = append(groups, grp{g.to, g})
		}
		if len(local) > 0 {
			groups = append(groups, grp{coord, nil})
		}
		sort.Slice(groups, func(a, b int) bool { return groups[a].node < groups[b].node })
		if len(groups) == 0 {
			panic("c17: quiescent but nothing to release for " + query)
		}
		for k, gi := range c17Perm(len(groups), p.group) {
			g := groups[gi]
			if g.gate == nil {
				cl.deliver(local, p.local[coord], &trace, coord)
			} else {
				close(g.gate.release)
				atomic.AddInt64(&cl.transitions, 1)
				trace = append(trace, fmt.Sprintf("<n%d>", g.node))
			}
			if k < len(groups)-1 {
				synctest.Wait()
				atomic.AddInt64(&cl.states, 1)
			}
		}
		trace = append(trace, "|")
	}
}

// ---- queries ----------------------------------------------------------------------------------------

type c17Query struct {
	pql   string
	sig   string                   // call shape used in finding keys
	model func(d *c17Data) string  // expected canonical result where the statement fixes it, else nil
	topN  int                      // >0: TopN with that n (result cut); -1 otherwise
	safe  func(d *c17Data) bool    // query is used only for datasets where this holds (nil = always)
}

func c17VCModel(kind string, filterField string, filterRow uint64) func(d *c17Data) string {
	return func(d *c17Data) string {
		var filter map[uint64]bool
		if filterField != "" {
			filter = d.cols(filterField, filterRow)
		}
		var cols []uint64
		for c := range d.vals {
			if filter == nil || filter[c] {
				cols = append(cols, c)
			}
		}
		sort.Slice(cols, func(i, j int) bool { return cols[i] < cols[j] })
		var out ValCount
		for _, c := range cols {
			v := d.vals[c]
			switch {
			case kind == "Sum":
				out.Val += v
				out.Count++
			case out.Count == 0:
				out = ValCount{Val: v, Count: 1}
			case v == out.Val:
				out.Count++
			case kind == "Min" && v < out.Val, kind == "Max" && v > out.Val:
				out = ValCount{Val: v, Count: 1}
			}
		}
		return c17Canon(out, -1)
	}
}

func c17RowModel(field string, row uint64) func(d *c17Data) string {
	return func(d *c17Data) string {
		var cols []uint64
		for c := range d.cols(field, row) {
			cols = append(cols, c)
		}
		return "Row[" + vx.SortedU64(cols) + "]"
	}
}

// TopN(f, n=k) asks every shard for its k best rows; which of several equal rows a shard reports is
// unspecified, so n=k is only used where no shard has a tie across its k-th/k+1-th place.
func c17TopNSafe(k int) func(d *c17Data) bool {
	return func(d *c17Data) bool {
		for _, s := range d.shards {
			cnt := map[uint64]int{}
			for _, b := range d.bits {
				if b.field == "f" && b.col/ShardWidth == s {
					cnt[b.row]++
				}
			}
			var cs []int
			for _, n := range cnt {
				cs = append(cs, n)
			}
			sort.Sort(sort.Reverse(sort.IntSlice(cs)))
			if len(cs) > k && cs[k-1] == cs[k] {
				return false
			}
		}
		return true
	}
}

func c17Queries(d *c17Data) []c17Query {
	colInShard2 := d.shards[2] * ShardWidth
	q := []c17Query{
		{pql: "Row(f=1)", sig: "Row", model: c17RowModel("f", 1), topN: -1},
		{pql: "Row(f=2)", sig: "Row", model: c17RowModel("f", 2), topN: -1},
		{pql: "Row(f=9)", sig: "Row", model: c17RowModel("f", 9), topN: -1},
		{pql: "Union(Row(f=1), Row(g=1))", sig: "Union", topN: -1},
		{pql: "Intersect(Row(f=1), Row(f=2))", sig: "Intersect", topN: -1},
		{pql: "Difference(Row(f=2), Row(f=1))", sig: "Difference", topN: -1},
		{pql: "Xor(Row(f=1), Row(g=1))", sig: "Xor", topN: -1},
		{pql: "Not(Row(f=1))", sig: "Not", topN: -1},
		{pql: "Shift(Row(f=2), n=1)", sig: "Shift", topN: -1},
		{pql: "Count(Row(f=2))", sig: "Count", topN: -1, model: func(d *c17Data) string { return fmt.Sprint(len(d.cols("f", 2))) }},
		{pql: "Count(Union(Row(f=1), Row(g=2)))", sig: "Count", topN: -1},
		{pql: "Row(v > 0)", sig: "Row(int-condition)", topN: -1},
		{pql: "Row(v == 1)", sig: "Row(int-condition)", topN: -1},
		{pql: "Row(-2 < v < 2)", sig: "Row(int-condition)", topN: -1},
		{pql: "Row(v != null)", sig: "Row(int-condition)", topN: -1},
		{pql: "Sum(field=v)", sig: "Sum", topN: -1, model: c17VCModel("Sum", "", 0)},
		{pql: "Sum(Row(f=2), field=v)", sig: "Sum", topN: -1, model: c17VCModel("Sum", "f", 2)},
		{pql: "Min(field=v)", sig: "Min", topN: -1, model: c17VCModel("Min", "", 0)},
		{pql: "Max(field=v)", sig: "Max", topN: -1, model: c17VCModel("Max", "", 0)},
		{pql: "Min(Row(f=2), field=v)", sig: "Min", topN: -1, model: c17VCModel("Min", "f", 2)},
		{pql: "Max(Row(f=1), field=v)", sig: "Max", topN: -1, model: c17VCModel("Max", "f", 1)},
		{pql: "MinRow(field=f)", sig: "MinRow", topN: -1},
		{pql: "MaxRow(field=f)", sig: "MaxRow", topN: -1},
		{pql: "MinRow(Row(g=1), field=f)", sig: "MinRow(filter)", topN: -1},
		{pql: "MaxRow(Row(g=1), field=f)", sig: "MaxRow(filter)", topN: -1},
		{pql: "TopN(f)", sig: "TopN", topN: 0},
		{pql: "TopN(f, n=1)", sig: "TopN(n)", topN: 1, safe: c17TopNSafe(1)},
		{pql: "TopN(f, n=2)", sig: "TopN(n)", topN: 2, safe: c17TopNSafe(2)},
		{pql: "TopN(f, ids=[1,3])", sig: "TopN(ids)", topN: 0},
		{pql: "TopN(f, Row(g=1))", sig: "TopN(filter)", topN: 0},
		{pql: "Rows(f)", sig: "Rows", topN: -1},
		{pql: "Rows(f, limit=1)", sig: "Rows(limit)", topN: -1},
		{pql: "Rows(f, limit=2)", sig: "Rows(limit)", topN: -1},
		{pql: "Rows(f, previous=1)", sig: "Rows(previous)", topN: -1},
		{pql: "Rows(f, previous=1, limit=1)", sig: "Rows(previous,limit)", topN: -1},
		{pql: fmt.Sprintf("Rows(f, column=%d)", colInShard2), sig: "Rows(column)", topN: -1},
		{pql: "GroupBy(Rows(f))", sig: "GroupBy", topN: -1},
		{pql: "GroupBy(Rows(f), Rows(g))", sig: "GroupBy", topN: -1},
		{pql: "GroupBy(Rows(f), Rows(g), limit=2)", sig: "GroupBy(limit)", topN: -1},
		{pql: "GroupBy(Rows(f), Rows(g), filter=Row(f=2))", sig: "GroupBy(filter)", topN: -1},
		{pql: "GroupBy(Rows(f, limit=2), Rows(g))", sig: "GroupBy(Rows(limit))", topN: -1},
		{pql: "GroupBy(Rows(f), Rows(g, previous=1))", sig: "GroupBy(Rows(previous))", topN: -1},
		{pql: "Row(t=1, from='2018-01-01T00:00', to='2019-01-01T00:00')", sig: "Row(time-range)", topN: -1},
		{pql: "Rows(t, from='2018-01-01T00:00', to='2019-01-01T00:00')", sig: "Rows(time-range)", topN: -1},
		{pql: fmt.Sprintf("Options(Row(f=2), shards=[%d,%d])", d.shards[0], d.shards[2]), sig: "Options(shards)", topN: -1},
	}
	var out []c17Query
	for _, x := range q {
		if x.safe == nil || x.safe(d) {
			out = append(out, x)
		}
	}
	return out
}

// c17Canon renders a query result canonically. TopN lists are compared as the statement allows: the multiset
// of counts, plus the ids of every count class that is not cut by n.
func c17Canon(v interface{}, topN int) string {
	switch x := v.(type) {
	case nil:
		return "nil"
	case *Row:
		if x == nil {
			return "Row(nil)"
		}
		return "Row[" + vx.SortedU64(x.Columns()) + "]"
	case uint64, int64, bool:
		return fmt.Sprint(x)
	case ValCount:
		return fmt.Sprintf("val=%d count=%d", x.Val, x.Count)
	case Pair:
		return fmt.Sprintf("id=%d count=%d", x.ID, x.Count)
	case []Pair:
		p := append([]Pair(nil), x...)
		sort.Slice(p, func(i, j int) bool {
			if p[i].Count != p[j].Count {
				return p[i].Count > p[j].Count
			}
			return p[i].ID < p[j].ID
		})
		cut := topN > 0 && len(p) >= topN
		var sb strings.Builder
		sb.WriteString("Pairs")
		for i, e := range p {
			if cut && e.Count == p[len(p)-1].Count {
				fmt.Fprintf(&sb, " ?:%d", e.Count) // member of the count class cut by n: which ids survive is unspecified
				continue
			}
			_ = i
			fmt.Fprintf(&sb, " %d:%d", e.ID, e.Count)
		}
		return sb.String()
	case RowIDs:
		return fmt.Sprint("Rows", []uint64(x))
	case RowIdentifiers:
		return fmt.Sprint("Rows", append([]uint64{}, x.Rows...), x.Keys)
	case *RowIdentifiers:
		return fmt.Sprint("Rows", append([]uint64{}, x.Rows...), x.Keys)
	case []GroupCount:
		return "Groups " + c17GCCanon(x)
	}
	return fmt.Sprintf("%T:%v", v, v)
}

// c17Component names what differs between two canonical results (used in finding keys).
func c17Component(a, b string) string {
	if strings.HasPrefix(a, "ERR") != strings.HasPrefix(b, "ERR") {
		e := a
		if strings.HasPrefix(b, "ERR") {
			e = b
		}
		if strings.Contains(e, "parse error") {
			return "error-on-some(forwarded call text rejected by the remote parser)"
		}
		return "error-on-some"
	}
	if strings.HasPrefix(a, "val=") && strings.HasPrefix(b, "val=") {
		var av, ac, bv, bc int64
		fmt.Sscanf(a, "val=%d count=%d", &av, &ac)
		fmt.Sscanf(b, "val=%d count=%d", &bv, &bc)
		switch {
		case av != bv:
			return "value"
		case ac != bc:
			return "count-of-equal-value"
		}
	}
	if strings.HasPrefix(a, "id=") && strings.HasPrefix(b, "id=") {
		var ai, ac, bi, bc int64
		fmt.Sscanf(a, "id=%d count=%d", &ai, &ac)
		fmt.Sscanf(b, "id=%d count=%d", &bi, &bc)
		switch {
		case ai != bi:
			return "row-id"
		case ac != bc:
			return "count-of-same-row"
		}
	}
	return "result"
}

// ---- the exploration --------------------------------------------------------------------------------

type c17Shape struct {
	n, replicas int
	hasher      string
}

func (s c17Shape) String() string { return fmt.Sprintf("nodes=%d replicas=%d hasher=%s", s.n, s.replicas, s.hasher) }

type c17Obs struct {
	shape   c17Shape
	coord   int
	plan    string
	order   string
	result  string
	groupng string
}

func c17Shapes() []c17Shape {
	var out []c17Shape
	for n := 1; n <= 4; n++ {
		for r := 1; r <= 3 && r <= n; r++ {
			for _, h := range []string{"jump", "mod"} {
				if n == 1 && h == "mod" {
					continue
				}
				out = append(out, c17Shape{n, r, h})
			}
		}
	}
	return out
}

// c17Rec is what a worker reports for one (dataset, shape, query, coordinator): every DISTINCT result seen over
// all arrival plans, each with its first witness.
type c17Rec struct {
	D, S, Q, C int
	G          string
	R          []c17RecRes
}

type c17RecRes struct {
	Res, Plan, Order string
	N                int
}

// c17RunUnit executes the whole battery for one (dataset, cluster shape) inside one synctest bubble.
func c17RunUnit(t *testing.T, c *vx.Check, di, si int, d *c17Data, sh c17Shape, emit func([]byte)) {
	queries := c17Queries(d)
	if only := os.Getenv("C17_QUERIES"); only != "" {
		// debugging aid: restrict the battery to the ';'-separated query texts
		var qs []c17Query
		for _, want := range strings.Split(only, ";") {
			for _, q := range queries {
				if q.pql == strings.TrimSpace(want) {
					qs = append(qs, q)
				}
			}
		}
		queries = qs
	}
	base := vx.Scratch()
	defer os.RemoveAll(base)
	synctest.Test(t, func(t *testing.T) {
		var hasher Hasher = &jmphasher{}
		if sh.hasher == "mod" {
			hasher = c17ModHasher{}
		}
		cl := c17NewCluster(base, sh.n, sh.replicas, hasher)
		defer cl.Close()
		cl.load(d)
		// shard -> primary owner; local shard counts per node
		k := make([]int, sh.n)
		var gdesc []string
		for _, s := range d.shards {
			own := cl.nodes[0].cluster.shardNodes(c17Index, s)[0]
			for _, nd := range cl.nodes {
				if nd.node.ID == own.ID {
					k[nd.idx]++
					gdesc = append(gdesc, fmt.Sprintf("%d->n%d", s, nd.idx))
				}
			}
		}
		grouping := strings.Join(gdesc, ",")
		groups := 0
		nplans := 1
		for _, x := range k {
			if x > 0 {
				groups++
			}
			nplans *= c17Fact[x]
		}
		nplans *= c17Fact[groups]
		for coord := 0; coord < sh.n; coord++ {
			recs := make([]c17Rec, len(queries))
			for qi := range recs {
				recs[qi] = c17Rec{D: di, S: si, Q: qi, C: coord, G: grouping}
			}
			for pi := 0; pi < nplans; pi++ {
				p := c17Plan{local: make([]int, sh.n)}
				y := pi
				for n := 0; n < sh.n; n++ {
					p.local[n] = y % c17Fact[k[n]]
					y /= c17Fact[k[n]]
				}
				p.group = y
				c.Distinct(fmt.Sprintf("%s|%s|c%d|%s", d.name, grouping, coord, p))
				for qi, q := range queries {
					resp, err, order := cl.exec(coord, q.pql, p)
					c.AddEval(1)
					var res string
					if err != nil {
						res = "ERR " + err.Error()
					} else if len(resp.Results) != 1 {
						res = fmt.Sprintf("BAD-RESULT-COUNT %d", len(resp.Results))
					} else {
						res = c17Canon(resp.Results[0], q.topN)
					}
					found := false
					for ri := range recs[qi].R {
						if recs[qi].R[ri].Res == res {
							recs[qi].R[ri].N++
							found = true
						}
					}
					if !found {
						c.Outcome(q.pql + "=>" + res)
						recs[qi].R = append(recs[qi].R, c17RecRes{Res: res, Plan: p.String(), Order: order, N: 1})
					}
				}
			}
			for _, r := range recs {
				b, _ := json.Marshal(r)
				emit(b)
			}
		}
		c.AddStates(atomic.LoadInt64(&cl.states))
		c.AddTransitions(atomic.LoadInt64(&cl.transitions))
	})
}

// c17Judge compares all observations of one (dataset, query): they must all be equal, and equal to the model
// where the statement fixes the value. At most one violation per (dataset, query), keyed by the call shape, the
// narrowest dimension along which the result varies, and the component that varies.
func c17Judge(c *vx.Check, d *c17Data, q c17Query, obs []c17Obs) {
	if len(obs) == 0 {
		return
	}
	type ck struct {
		sh    c17Shape
		coord int
	}
	desc := func(o c17Obs) string {
		return fmt.Sprintf("%s [%s] coordinator=n%d arrival=(%s)", o.shape, o.groupng, o.coord, strings.TrimSpace(o.order))
	}
	cs := func(a, b c17Obs) string {
		return fmt.Sprintf("data=%s query=%s :: %s  VERSUS  %s", d.name, q.pql, desc(a), desc(b))
	}
	// 1. arrival order (same shape, same coordinator)
	first := map[ck]c17Obs{}
	for _, o := range obs {
		k := ck{o.shape, o.coord}
		f, ok := first[k]
		if !ok {
			first[k] = o
			continue
		}
		if f.result != o.result {
			c.Violate(fmt.Sprintf("%s varies-with=arrival-order differs=%s", q.sig, c17Component(f.result, o.result)), cs(f, o), "first: "+f.result+" / second: "+o.result, "equal results")
			return
		}
	}
	// 2. coordinator (same shape)
	byShape := map[c17Shape]c17Obs{}
	for _, o := range obs {
		f, ok := byShape[o.shape]
		if !ok {
			byShape[o.shape] = o
			continue
		}
		if f.result != o.result {
			c.Violate(fmt.Sprintf("%s varies-with=coordinator differs=%s", q.sig, c17Component(f.result, o.result)), cs(f, o), "first: "+f.result+" / second: "+o.result, "equal results")
			return
		}
	}
	// 3. placement (cluster size / replicas / hasher)
	for _, o := range obs {
		if o.result != obs[0].result {
			c.Violate(fmt.Sprintf("%s varies-with=placement differs=%s", q.sig, c17Component(obs[0].result, o.result)), cs(obs[0], o), "first: "+obs[0].result+" / second: "+o.result, "equal results")
			return
		}
	}
	// 4. the value itself, where the statement fixes it
	if q.model != nil {
		if w := q.model(d); w != obs[0].result {
			c.Violate(fmt.Sprintf("%s same-in-every-order-but-wrong differs=%s", q.sig, c17Component(w, obs[0].result)),
				fmt.Sprintf("data=%s query=%s :: every cluster shape, coordinator and arrival order (e.g. %s)", d.name, q.pql, desc(obs[0])), obs[0].result, w)
		}
	}
}

func c17Datasets(thorough bool) []*c17Data {
	shards := []uint64{0, 1, 2, 3}
	var out []*c17Data
	if thorough {
		for x := 0; x < 256; x++ {
			p := []byte{'A' + byte(x&3), 'A' + byte((x>>2)&3), 'A' + byte((x>>4)&3), 'A' + byte((x>>6)&3)}
			out = append(out, c17MakeData(string(p), shards))
		}
		for x := 0; x < 256; x++ {
			p := []byte{'E' + byte(x&3), 'E' + byte((x>>2)&3), 'E' + byte((x>>4)&3), 'E' + byte((x>>6)&3)}
			out = append(out, c17MakeData(string(p), shards))
		}
		return out
	}
	// quick: every assignment of {A,B,C} to shards 0..2, shard 3 fixed to D
	for x := 0; x < 27; x++ {
		p := []byte{'A' + byte(x%3), 'A' + byte((x/3)%3), 'A' + byte((x/9)%3), 'D'}
		out = append(out, c17MakeData(string(p), shards))
	}
	// and every permutation of the TopN-oriented profiles E,F,G,H over the four shards
	perm := []byte("EFGH")
	var rec func(k int)
	rec = func(k int) {
		if k == len(perm) {
			out = append(out, c17MakeData(string(perm), shards))
			return
		}
		for i := k; i < len(perm); i++ {
			perm[k], perm[i] = perm[i], perm[k]
			rec(k + 1)
			perm[k], perm[i] = perm[i], perm[k]
		}
	}
	rec(0)
	return out
}

func TestVerif_C17(t *testing.T) {
	if vx.IsChild() {
		// a worker process runs its share sequentially; 16 workers x 16 Ps only thrash the scheduler
		runtime.GOMAXPROCS(2)
	}
	c := vx.NewCheck("C17", "model_checking",
		"one evaluation = one query executed on one in-process cluster under one fully controlled arrival order (or one reduce-function application of the algebra part); states = quiescent points at which the harness chose the next result to release, transitions = results released; distinct = distinct (dataset, shard grouping, coordinator, arrival plan)")
	c.ProcFor(c.NextRunLabel(), len(c17AlgebraParts), nil, func(_ []byte, i int, _ func([]byte)) { c17AlgebraParts[i](c) }, nil)
	c.Extra("algebra_evaluations", c.Evaluations)
	shapes := c17Shapes()
	data := c17Datasets(c.Thorough())
	if only := os.Getenv("C17_DATA"); only != "" {
		data = []*c17Data{c17MakeData(only, []uint64{0, 1, 2, 3})}
		c.NotExhaustive("single debug dataset")
	}
	c.Bound("cluster_shapes", fmt.Sprint(shapes))
	c.Bound("datasets", len(data))
	c.Bound("shards", 4)
	c.Bound("orders", "every permutation of local shard results on every node x every permutation of node groups at the coordinator; every coordinator")
	// observations[dataset][query] = distinct results per (shape, coordinator), each with a witness
	obs := make([][][]c17Obs, len(data))
	for i := range obs {
		obs[i] = make([][]c17Obs, 64)
	}
	unitsDone := map[[2]int]bool{}
	c.ProcFor(c.NextRunLabel(), len(data)*len(shapes), nil, func(_ []byte, i int, emit func([]byte)) {
		di, si := i/len(shapes), i%len(shapes)
		c17RunUnit(t, c, di, si, data[di], shapes[si], emit)
		if i%37 == 0 {
			c.Sample(fmt.Sprintf("dataset %s on %s", data[di].name, shapes[si]))
		}
	}, func(rec []byte) {
		var r c17Rec
		if err := json.Unmarshal(rec, &r); err != nil {
			panic(err)
		}
		unitsDone[[2]int{r.D, r.S}] = true
		for _, x := range r.R {
			obs[r.D][r.Q] = append(obs[r.D][r.Q], c17Obs{shape: shapes[r.S], coord: r.C, plan: x.Plan, order: x.Order, result: x.Res, groupng: r.G})
		}
	})
	c.Extra("units_completed", fmt.Sprintf("%d of %d (dataset x cluster shape)", len(unitsDone), len(data)*len(shapes)))
	for di, d := range data {
		for qi, q := range c17Queries(d) {
			o := obs[di][qi]
			// deterministic order: by shape index, coordinator (stable for equal keys keeps plan order)
			sort.SliceStable(o, func(a, b int) bool {
				if o[a].shape != o[b].shape {
					return c17ShapeLess(o[a].shape, o[b].shape)
				}
				return o[a].coord < o[b].coord
			})
			c17Judge(c, d, q, o)
		}
	}
	c.AddValidated(c.Evaluations)
	c.Assume("PQL text is parsed once per distinct string and the AST deep-copied per execution; everything after parsing is API.Query verbatim (set C17_NO_PARSE_CACHE=1 to go through API.Query itself)")
	c.Assume("remote results are handed over in-process (copied, not protobuf-encoded); keys/translation not exercised")
	c.Assume("go1.26.8 testing/synctest provides the quiescence acknowledgement; language semantics as for the pinned toolchain")
	if c.Finish() != 0 {
		t.Fail()
	}
}

func c17ShapeLess(a, b c17Shape) bool {
	if a.n != b.n {
		return a.n < b.n
	}
	if a.replicas != b.replicas {
		return a.replicas < b.replicas
	}
	return a.hasher < b.hasher
}
