package pilosa_test

// C25, executor-level sub-run — executeSetRowAttrs / executeBulkSetRowAttrs / executeSetColumnAttrs.
// Histories of PQL requests on a REAL single node with boltdb attribute stores: single SetRowAttrs /
// SetColumnAttrs calls and requests of TWO calls (a request made only of SetRowAttrs calls takes the
// bulk path, which merges the calls per row before writing), with values of every type, null deletes,
// the same row twice in one request, and a clean restart of the node. After EVERY request the
// attributes of the rows and of the column are read back through Row() / Options(columnAttrs=true)
// and compared with a plain map model that applies the calls in request order.

import (
	"context"
	"fmt"
	"sort"
	"strings"
	"testing"

	"github.com/pilosa/pilosa"
	"github.com/pilosa/pilosa/boltdb"
	"github.com/pilosa/pilosa/internal/vx"
)

type c25xSer struct{}

func (c25xSer) Marshal(pilosa.Message) ([]byte, error)  { return []byte{}, nil }
func (c25xSer) Unmarshal([]byte, pilosa.Message) error { return nil }

type c25xCall struct {
	col  bool // SetColumnAttrs (id = column) / SetRowAttrs(f, id)
	id   uint64
	kv   []string      // key, PQL literal pairs
	vals []interface{} // model values (nil = delete)
}

func (c c25xCall) pql() string {
	var args []string
	for i := 0; i < len(c.kv); i += 2 {
		args = append(args, c.kv[i]+"="+c.kv[i+1])
	}
	if c.col {
		return fmt.Sprintf("SetColumnAttrs(%d, %s)", c.id, strings.Join(args, ", "))
	}
	return fmt.Sprintf("SetRowAttrs(f, %d, %s)", c.id, strings.Join(args, ", "))
}

func c25xR(id uint64, kv ...interface{}) c25xCall { return c25xMk(false, id, kv) }
func c25xC(id uint64, kv ...interface{}) c25xCall { return c25xMk(true, id, kv) }

func c25xMk(col bool, id uint64, kv []interface{}) c25xCall {
	c := c25xCall{col: col, id: id}
	for i := 0; i < len(kv); i += 2 {
		k := kv[i].(string)
		lit := "null"
		switch v := kv[i+1].(type) {
		case nil:
		case string:
			lit = fmt.Sprintf("%q", v)
		case int:
			kv[i+1] = int64(v)
			lit = fmt.Sprint(v)
		default:
			lit = fmt.Sprint(v)
		}
		c.kv = append(c.kv, k, lit)
		c.vals = append(c.vals, kv[i+1])
	}
	return c
}

// the requests of the alphabet
var c25xReqs = [][]c25xCall{
	{c25xR(1, "x", 1)},
	{c25xR(1, "y", "s")},
	{c25xR(1, "x", nil)},
	{c25xR(1, "x", 2), c25xR(1, "y", 2.5)},   // bulk path, same row, two keys
	{c25xR(1, "y", 2.5), c25xR(1, "x", nil)}, // bulk path, a later null on a row seen before in the request
	{c25xR(1, "x", nil), c25xR(1, "x", 3)},   // null, then a set of the same key
	{c25xR(1, "x", 3), c25xR(1, "x", nil)},   // a set, then null for the same key
	{c25xR(1, "z", true), c25xR(2, "x", nil)}, // different rows
	{c25xR(2, "x", true, "z", 1)},
	{c25xC(1, "a", 1)},
	{c25xC(1, "a", nil, "b", "t")},
	{c25xC(1, "a", 2), c25xC(1, "b", nil)},
	{c25xR(1, "x", 4), c25xC(1, "a", 3)}, // mixed request: not the bulk path
}

type c25xInst struct {
	dir  string
	srv  *pilosa.Server
	api  *pilosa.API
	rows map[uint64]map[string]interface{}
	cols map[uint64]map[string]interface{}
}

func (in *c25xInst) open() {
	s, err := pilosa.NewServer(pilosa.OptServerDataDir(in.dir), pilosa.OptServerNodeID("c25x"), pilosa.OptServerClusterDisabled(true, nil),
		pilosa.OptServerSerializer(c25xSer{}), pilosa.OptServerIsCoordinator(true), pilosa.OptServerAttrStoreFunc(boltdb.NewAttrStore))
	if err != nil {
		panic(err)
	}
	if err := s.Open(); err != nil {
		panic(err)
	}
	api, err := pilosa.NewAPI(pilosa.OptAPIServer(s))
	if err != nil {
		panic(err)
	}
	in.srv, in.api = s, api
}

func c25xNew() vx.Instance {
	in := &c25xInst{dir: vx.Scratch(), rows: map[uint64]map[string]interface{}{}, cols: map[uint64]map[string]interface{}{}}
	in.open()
	ctx := context.Background()
	if _, err := in.api.CreateIndex(ctx, "i", pilosa.IndexOptions{}); err != nil {
		panic(err)
	}
	if _, err := in.api.CreateField(ctx, "i", "f", pilosa.OptFieldTypeDefault()); err != nil {
		panic(err)
	}
	if _, err := in.exec("Set(1, f=1) Set(1, f=2)"); err != nil {
		panic(err)
	}
	return in
}

func (in *c25xInst) Close()              { in.srv.Close() }
func (in *c25xInst) Fingerprint() string { return "" }

func (in *c25xInst) exec(q string) (*pilosa.QueryResponse, error) {
	r, err := in.api.Query(context.Background(), &pilosa.QueryRequest{Index: "i", Query: q})
	return &r, err
}

func c25xFmt(m map[string]interface{}) string {
	ks := make([]string, 0, len(m))
	for k := range m {
		ks = append(ks, k)
	}
	sort.Strings(ks)
	var sb strings.Builder
	for _, k := range ks {
		fmt.Fprintf(&sb, "%s=%v(%T) ", k, m[k], m[k])
	}
	return "{" + sb.String() + "}"
}

func (in *c25xInst) Apply(op vx.Op) (got, want string) {
	switch op.Name {
	case "req":
		calls := c25xReqs[op.Args[0]]
		var qs []string
		for _, c := range calls {
			qs = append(qs, c.pql())
			m := in.rows
			if c.col {
				m = in.cols
			}
			if m[c.id] == nil {
				m[c.id] = map[string]interface{}{}
			}
			for i, v := range c.vals {
				k := c.kv[2*i]
				if v == nil {
					delete(m[c.id], k)
				} else {
					m[c.id][k] = v
				}
			}
		}
		if _, err := in.exec(strings.Join(qs, " ")); err != nil {
			return "error: " + err.Error(), "no error"
		}
	case "reopen":
		if err := in.srv.Close(); err != nil {
			return "close: " + err.Error(), "no error"
		}
		in.open()
	default:
		panic("unknown op " + op.Name)
	}
	// read everything back
	var g, w strings.Builder
	for _, r := range []uint64{1, 2} {
		resp, err := in.exec(fmt.Sprintf("Row(f=%d)", r))
		if err != nil {
			return "read error: " + err.Error(), "no error"
		}
		row, _ := resp.Results[0].(*pilosa.Row)
		attrs := map[string]interface{}{}
		if row != nil && row.Attrs != nil {
			attrs = row.Attrs
		}
		fmt.Fprintf(&g, "row%d%s ", r, c25xFmt(attrs))
		m := in.rows[r]
		if m == nil {
			m = map[string]interface{}{}
		}
		fmt.Fprintf(&w, "row%d%s ", r, c25xFmt(m))
	}
	resp, err := in.exec("Options(Row(f=1), columnAttrs=true)")
	if err != nil {
		return "read error: " + err.Error(), "no error"
	}
	cattrs := map[string]interface{}{}
	for _, cas := range resp.ColumnAttrSets {
		if cas.ID == 1 && cas.Attrs != nil {
			cattrs = cas.Attrs
		}
	}
	fmt.Fprintf(&g, "col1%s", c25xFmt(cattrs))
	cm := in.cols[1]
	if cm == nil {
		cm = map[string]interface{}{}
	}
	fmt.Fprintf(&w, "col1%s", c25xFmt(cm))
	return g.String(), w.String()
}

func TestVerif_C25X(t *testing.T) {
	c := vx.NewCheck("C25", "model_checking",
		"executor-level sub-run: all histories up to the tier's depth over PQL requests of one or two SetRowAttrs / SetColumnAttrs calls (all value types, null deletes, the same row twice in a request = the bulk merge path) and a clean holder reopen, on a real node with boltdb attribute stores; after every request the attributes of rows 1, 2 and column 1 are read back through Row() / Options(columnAttrs) and compared with a map model applying the calls in request order")
	var alpha []vx.Op
	for i := range c25xReqs {
		alpha = append(alpha, vx.O("req", int64(i)))
	}
	alpha = append(alpha, vx.O("reopen"))
	h := &vx.Harness{Alphabet: alpha, New: c25xNew, MultiProcess: true, Key: func(p []vx.Op, g, w string) string {
		last := p[len(p)-1]
		what := "reopen"
		if last.Name == "req" {
			var ns []string
			for _, cl := range c25xReqs[last.Args[0]] {
				n := "SetRowAttrs"
				if cl.col {
					n = "SetColumnAttrs"
				}
				for _, v := range cl.vals {
					if v == nil {
						n += "(null)"
						break
					}
				}
				ns = append(ns, n)
			}
			what = strings.Join(ns, "+")
		}
		return "executor attrs differ from merged model at=" + what
	}}
	c.RunDFS(h, c.Pick(3, 4))
	c.ConfirmViolations(h)
	c.Bound("alphabet", len(alpha))
	c.AddValidated(c.Evaluations)
	c.Assume("rows 1, 2 of one set field and column 1; single static node")
	if c.Finish() != 0 {
		t.Fail()
	}
}
