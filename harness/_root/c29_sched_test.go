package pilosa

// C29 — Concurrent requests are race-free and linearizable (schedule exploration part).
// Every interleaving (at lock granularity, up to a preemption bound) of 2–3 threads running 1–2
// operations each on ONE shared real fragment is executed under the controlled scheduler vsched.
// Oracle per execution: no deadlock, no panic, no thread blocked for ever; and the recorded
// call/return history (plus a final full read) is linearizable: some total order of the operations
// that respects real-time order yields, when run sequentially on a fresh fragment, the same results.

import (
	"context"
	"fmt"
	"os"
	"sort"
	"strings"
	"testing"
	"testing/synctest"

	"github.com/pilosa/pilosa/internal/vsched"
	"github.com/pilosa/pilosa/internal/vx"
	"github.com/pilosa/pilosa/logger"
)

type c29Op struct {
	name string
	run  func(f *fragment) string
}

func c29Ops() []c29Op {
	c1, c2 := uint64(1), uint64(65536)
	return []c29Op{
		{"setBit(0,1)", func(f *fragment) string { ch, err := f.setBit(0, c1); return fmt.Sprint(ch, err) }},
		{"clearBit(0,1)", func(f *fragment) string { ch, err := f.clearBit(0, c1); return fmt.Sprint(ch, err) }},
		{"setBit(1,1)", func(f *fragment) string { ch, err := f.setBit(1, c1); return fmt.Sprint(ch, err) }},
		{"row(0)", func(f *fragment) string { return vx.SortedU64(f.row(0).Columns()) }},
		{"rows", func(f *fragment) string { return fmt.Sprint(f.rows(0)) }},
		{"bulkSet", func(f *fragment) string {
			return fmt.Sprint(f.bulkImport([]uint64{0, 0}, []uint64{c1, c2}, &ImportOptions{}))
		}},
		{"bulkClear", func(f *fragment) string {
			return fmt.Sprint(f.bulkImport([]uint64{0, 1}, []uint64{c1, c1}, &ImportOptions{Clear: true}))
		}},
		{"roaringSet", func(f *fragment) string {
			return fmt.Sprint(f.importRoaring(context.Background(), vxPilosaRoaring([]vxBit{{0, c2}, {2, c1}}), false))
		}},
		{"setRow(0)", func(f *fragment) string { ch, err := f.setRow(NewRow(c2), 0); return fmt.Sprint(ch, err) }},
		{"clearRow(0)", func(f *fragment) string { ch, err := f.clearRow(0); return fmt.Sprint(ch, err) }},
		{"top", func(f *fragment) string {
			ps, err := f.top(topOptions{N: 3})
			// the order of entries with equal counts is unspecified (it follows Go map iteration
			// order inside rankCache.recalculate): canonicalise ties by id
			sort.SliceStable(ps, func(i, j int) bool {
				if ps[i].Count != ps[j].Count {
					return ps[i].Count > ps[j].Count
				}
				return ps[i].ID < ps[j].ID
			})
			var sb strings.Builder
			for _, p := range ps {
				fmt.Fprintf(&sb, "%d:%d,", p.ID, p.Count)
			}
			return sb.String() + fmt.Sprint(err)
		}},
		{"blocks", func(f *fragment) string {
			var sb strings.Builder
			for _, b := range f.Blocks() {
				fmt.Fprintf(&sb, "%d:%x,", b.ID, b.Checksum)
			}
			return sb.String()
		}},
		{"flushCache", func(f *fragment) string { return fmt.Sprint(f.FlushCache()) }},
		{"snapshot", func(f *fragment) string { return fmt.Sprint(f.Snapshot()) }},
		{"recalc", func(f *fragment) string { f.RecalculateCache(); return "" }},
	}
}

type c29Scenario struct {
	threads [][]int // op indices per thread
	queue   bool    // real snapshot queue worker goroutine (daemon) and MaxOpN=1
}

func (sc c29Scenario) String(ops []c29Op) string {
	var parts []string
	for _, th := range sc.threads {
		var ns []string
		for _, i := range th {
			ns = append(ns, ops[i].name)
		}
		parts = append(parts, strings.Join(ns, ";"))
	}
	q := ""
	if sc.queue {
		q = " +snapshot-worker"
	}
	return strings.Join(parts, " || ") + q
}

func c29Open(queue bool) *fragment {
	f := vxOpenFragment(vxKindSet, 0, 0, CacheTypeRanked, false)
	if queue {
		f.MaxOpN = 1
		f.snapshotQueue = newSnapshotQueue(1, 1, logger.NopLogger)
	}
	// initial contents: bit (0,1) and (1,1), row 0 cached
	if _, err := f.setBit(0, 1); err != nil {
		panic(err)
	}
	if _, err := f.setBit(1, 1); err != nil {
		panic(err)
	}
	return f
}

func c29Final(f *fragment) string {
	m := map[vxBit]bool{}
	_ = f.forEachBit(func(r, c uint64) error { m[vxBit{r, c}] = true; return nil })
	return vxModelBits(m) + "|row0=" + vx.SortedU64(f.row(0).Columns())
}

type c29Event struct {
	thread, idx int
	op          int
	call, ret   int
	res         string
}

// c29Linearizable: is there a total order respecting real-time order whose sequential execution on
// a fresh fragment reproduces every result and the final state? seqCache memoises sequential runs.
func c29Linearizable(ops []c29Op, evs []c29Event, final string, queue bool, seqCache map[string][]string) (bool, string) {
	n := len(evs)
	perm := make([]int, 0, n)
	used := make([]bool, n)
	var tried []string
	var rec func() bool
	rec = func() bool {
		if len(perm) == n {
			key := fmt.Sprint(perm, queue)
			var ids []string
			for _, i := range perm {
				ids = append(ids, fmt.Sprint(evs[i].op))
			}
			key = strings.Join(ids, ",") + fmt.Sprint(queue)
			res, ok := seqCache[key]
			if !ok {
				f := c29Open(false) // sequential spec: snapshots are synchronous, results identical
				for _, i := range perm {
					res = append(res, ops[evs[i].op].run(f))
				}
				res = append(res, c29Final(f))
				vxDiscardFragment(f)
				seqCache[key] = res
			}
			match := res[n] == final
			for j, i := range perm {
				if res[j] != evs[i].res {
					match = false
				}
			}
			if !match {
				tried = append(tried, fmt.Sprintf("%v=>%v", ids, res))
			}
			return match
		}
		for i := 0; i < n; i++ {
			if used[i] {
				continue
			}
			// i may come next only if no unused j returned before i was called
			ok := true
			for j := 0; j < n; j++ {
				if j != i && !used[j] && evs[j].ret < evs[i].call {
					ok = false
					break
				}
			}
			if !ok {
				continue
			}
			used[i] = true
			perm = append(perm, i)
			if rec() {
				return true
			}
			perm = perm[:len(perm)-1]
			used[i] = false
		}
		return false
	}
	if rec() {
		return true, ""
	}
	return false, strings.Join(tried, " ; ")
}

func c29Scenarios(ops []c29Op, thorough bool) []c29Scenario {
	var out []c29Scenario
	n := len(ops)
	// all unordered pairs, one op per thread
	for a := 0; a < n; a++ {
		for b := a; b < n; b++ {
			out = append(out, c29Scenario{threads: [][]int{{a}, {b}}})
		}
	}
	// with the real background snapshot worker: writers that trigger snapshots vs everything
	writers := []int{0, 1, 5, 7, 8, 9}
	for _, a := range writers {
		for b := 0; b < n; b++ {
			out = append(out, c29Scenario{threads: [][]int{{a}, {b}}, queue: true})
		}
	}
	// two ops on one side (write;read) against every op
	pairs := [][]int{{0, 3}, {1, 3}, {8, 3}, {9, 4}, {5, 10}, {7, 11}, {0, 13}}
	for _, p := range pairs {
		for b := 0; b < n; b++ {
			out = append(out, c29Scenario{threads: [][]int{p, {b}}})
		}
	}
	if thorough {
		// three threads, one op each, over the core ops
		core := []int{0, 1, 3, 5, 8, 9, 10, 13}
		for i, a := range core {
			for j := i; j < len(core); j++ {
				for k := j; k < len(core); k++ {
					out = append(out, c29Scenario{threads: [][]int{{a}, {core[j]}, {core[k]}}})
				}
			}
		}
		for _, p := range pairs {
			for _, q := range pairs {
				out = append(out, c29Scenario{threads: [][]int{p, q}})
			}
		}
	}
	return out
}

func TestVerif_C29(t *testing.T) {
	synctest.Test(t, func(t *testing.T) {
		c := vx.NewCheck("C29", "model_checking",
			"for every scenario (2-3 threads x 1-2 fragment operations on one shared real fragment, optionally with the real background snapshot worker) ALL schedules at lock granularity with at most B preemptions are executed under the controlled scheduler; each execution is checked for deadlock/panic/blocked threads and its call/return history for linearizability against sequential runs of the same fragment code; distinct = distinct (scenario, observed result vector)")
		ops := c29Ops()
		scs := c29Scenarios(ops, c.Thorough())
		bound := c.Pick(2, 3)
		c.Bound("preemption_bound", bound)
		c.Bound("scenarios", len(scs))
		c.ProcFor(c.NextRunLabel(), len(scs), nil, func(_ []byte, si int, emit func([]byte)) {
			sc := scs[si]
			name := sc.String(ops)
			seqCache := map[string][]string{}
			var evs []c29Event
			var clock int
			var frag *fragment
			build := func(x *vsched.X) func(tr *vsched.Trace) {
				evs = evs[:0]
				clock = 0
				frag = c29Open(sc.queue)
				f := frag
				for ti, th := range sc.threads {
					ti, th := ti, th
					x.Go(fmt.Sprintf("t%d", ti), func() {
						for k, oi := range th {
							clock++
							e := c29Event{thread: ti, idx: k, op: oi, call: clock}
							e.res = ops[oi].run(f)
							clock++
							e.ret = clock
							evs = append(evs, e)
						}
					})
				}
				return nil
			}
			st := vsched.Explore(bound, vsched.Options{Reduce: true}, build, func(choices []int, tr *vsched.Trace) bool {
				c.AddEval(1)
				c.AddTransitions(int64(tr.Steps))
				cs := map[string]interface{}{"scenario": name, "choices": choices, "schedule": strings.Join(tr.Schedule, " ")}
				defer func() {
					if frag != nil {
						// release the file/mapping; the fragment may be mid-operation after a deadlock
						vx.Guard(func() { _ = frag.closeStorage(true) })
					}
				}()
				switch {
				case tr.Diverged != "":
					c.Extra("diverged", name+": "+tr.Diverged)
					c.NotExhaustive("a schedule prefix did not replay deterministically: " + name)
					return true
				case tr.Deadlock != "":
					c.Violate("deadlock "+c29Key(sc, ops), cs, tr.Deadlock, "no deadlock")
					return false
				case len(tr.Panics) > 0:
					c.Violate("panic "+c29Key(sc, ops), cs, strings.Join(tr.Panics, " ; "), "no panic")
					return false
				case len(tr.Leaked) > 0:
					c.Violate("blocked-forever "+c29Key(sc, ops), cs, strings.Join(tr.Leaked, " ; "), "all threads finish")
					return false
				}
				final := c29Final(frag)
				hist := append([]c29Event(nil), evs...)
				sort.Slice(hist, func(i, j int) bool { return hist[i].call < hist[j].call })
				var rs []string
				for _, e := range hist {
					rs = append(rs, fmt.Sprintf("t%d.%s=%s", e.thread, ops[e.op].name, e.res))
				}
				obs := strings.Join(rs, " ") + " final=" + final
				c.Outcome(obs)
				c.Distinct(name + "|" + obs)
				if ok, tried := c29Linearizable(ops, hist, final, sc.queue, seqCache); !ok {
					c.Violate("not-linearizable "+c29Key(sc, ops), cs, obs, "some sequential order of the operations; tried: "+tried)
					return false
				}
				return true
			}, nil) // no deadline: the harness runs under synctest's fake clock, which leaked timers can advance
			if st.Executions > 0 && si%16 == 0 {
				c.Sample(map[string]interface{}{"scenario": name, "schedules": st.Executions, "by_preemptions": st.ByBound, "max_decisions": st.MaxDecisions})
			}
			c.AddStates(int64(st.Executions))
		}, nil)
		c29FieldPart(c)     // second family: index/field level with lazy view/fragment creation
		c29TranslatePart(c) // third family: the key-translation store behind keyed requests
		c.AddValidated(c.Evaluations)
		c.Assume("lock-level interleavings only (channel hand-offs, atomics and lock-free regions are not split); Go memory model semantics under toolchain go1.26.8 (testing/synctest), not the pinned go1.23.5; data races are NOT decided by this exploration (see the auxiliary -race pass)")
		code := c.Finish()
		os.Exit(code) // leave the bubble without waiting for goroutines a violating execution left behind
	})
}

// c29Key: the unordered set of operation names involved (specific enough to tell findings apart,
// independent of which schedule was found first).
func c29Key(sc c29Scenario, ops []c29Op) string {
	set := map[string]bool{}
	for _, th := range sc.threads {
		for _, i := range th {
			set[ops[i].name] = true
		}
	}
	var ns []string
	for n := range set {
		ns = append(ns, n)
	}
	sort.Strings(ns)
	q := ""
	if sc.queue {
		q = "+worker"
	}
	return strings.Join(ns, "|") + q
}
