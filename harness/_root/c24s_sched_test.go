package pilosa

// C24 — concurrent-callers clause: "including concurrent batches with repeated keys, each distinct
// key gets one positive ID that never changes, and distinct keys in one namespace get distinct IDs".
// Schedule exploration (engine E2): 2–3 threads, each translating one or two batches with
// overlapping and repeated keys on one real TranslateFile, all interleavings at the store's RWMutex
// (the double-checked locking between the read-locked lookup and the write-locked insert) up to a
// preemption bound. Oracle per execution: no deadlock/panic; every id returned by any call is
// positive; a key got the same id in every call that saw it (during and after); distinct keys have
// distinct ids; reverse translation returns the key; after close + reopen the mapping is identical.

import (
	"fmt"
	"os"
	"path/filepath"
	"sort"
	"strings"
	"testing"
	"testing/synctest"

	"github.com/pilosa/pilosa/internal/vsched"
	"github.com/pilosa/pilosa/internal/vx"
)

type c24sCall struct {
	rows bool // row namespace (index i, field f) instead of column namespace (index i)
	keys []string
}

func (cl c24sCall) String() string {
	ns := "col"
	if cl.rows {
		ns = "row"
	}
	return ns + "[" + strings.Join(cl.keys, ",") + "]"
}

func c24sScenarios(thorough bool) [][][]c24sCall {
	b := func(rows bool, ks ...string) c24sCall { return c24sCall{rows, ks} }
	sc := [][][]c24sCall{
		{{b(false, "a", "b")}, {b(false, "b", "c")}},
		{{b(false, "a", "a", "b")}, {b(false, "b", "a")}},
		{{b(false, "a")}, {b(false, "a")}, {b(false, "a", "b")}},
		{{b(false, "a", "b"), b(false, "c")}, {b(false, "c", "a")}},
		{{b(false, "a"), b(false, "b", "a")}, {b(false, "b"), b(false, "a")}},
		{{b(true, "x", "y")}, {b(true, "y", "x", "y")}},
		{{b(false, "a", "b")}, {b(true, "a", "b")}, {b(false, "b")}},
		{{b(false, "")}, {b(false, "", "é")}},
		// a key of its own FIRST, then a key both batches create (the re-check under the write lock must
		// look at every key of the batch, not stop at the first one that is still missing)
		{{b(true, "u1", "c")}, {b(true, "u2", "c")}},
		{{b(false, "u1", "c")}, {b(false, "u2", "c")}},
		{{b(true, "c", "u1")}, {b(true, "u2", "c", "u3")}},
	}
	if thorough {
		sc = append(sc,
			[][]c24sCall{{b(false, "a", "b"), b(false, "b", "c")}, {b(false, "c", "d"), b(false, "d", "a")}, {b(false, "a", "d")}},
			[][]c24sCall{{b(false, "a")}, {b(false, "b")}, {b(false, "c")}},
			[][]c24sCall{{b(true, "x"), b(true, "y", "x")}, {b(true, "y"), b(true, "x")}, {b(false, "x")}},
		)
	}
	return sc
}

type c24sObs struct {
	call c24sCall
	ids  []uint64
	err  error
}

func TestVerif_C24S(t *testing.T) {
	synctest.Test(t, func(t *testing.T) {
		c := vx.NewCheck("C24", "model_checking",
			"for every scenario (2-3 threads x 1-2 translation batches with overlapping and repeated keys, column and row namespaces, one real TranslateFile) ALL schedules at lock granularity with at most B preemptions; per execution: ids positive, stable across calls, injective per namespace, reverse lookup, identical after reopen; distinct = distinct (scenario, id assignment)")
		scs := c24sScenarios(c.Thorough())
		bound := c.Pick(2, 3)
		c.Bound("preemption_bound", bound)
		c.Bound("scenarios", len(scs))
		c.ProcFor(c.NextRunLabel(), len(scs), nil, func(_ []byte, si int, emit func([]byte)) {
			sc := scs[si]
			var parts []string
			for _, th := range sc {
				var cs []string
				for _, cl := range th {
					cs = append(cs, cl.String())
				}
				parts = append(parts, strings.Join(cs, ";"))
			}
			name := strings.Join(parts, " || ")
			var tf *TranslateFile
			var path string
			var obs []c24sObs
			build := func(x *vsched.X) func(tr *vsched.Trace) {
				obs = obs[:0]
				path = filepath.Join(vx.Scratch(), "keys")
				tf = NewTranslateFile(OptTranslateFileMapSize(1 << 20))
				tf.Path = path
				if err := tf.Open(); err != nil {
					panic(err)
				}
				for ti, th := range sc {
					th := th
					x.Go(fmt.Sprintf("t%d", ti), func() {
						for _, cl := range th {
							var ids []uint64
							var err error
							if cl.rows {
								ids, err = tf.TranslateRowsToUint64("i", "f", append([]string{}, cl.keys...))
							} else {
								ids, err = tf.TranslateColumnsToUint64("i", append([]string{}, cl.keys...))
							}
							obs = append(obs, c24sObs{cl, ids, err})
						}
					})
				}
				return nil
			}
			st := vsched.Explore(bound, vsched.Options{Reduce: true}, build, func(choices []int, tr *vsched.Trace) bool {
				c.AddEval(1)
				c.AddTransitions(int64(tr.Steps))
				cs := map[string]interface{}{"scenario": name, "choices": choices, "schedule": strings.Join(tr.Schedule, " ")}
				defer func() { vx.Guard(func() { tf.Close() }) }()
				switch {
				case tr.Diverged != "":
					c.NotExhaustive("a schedule prefix did not replay deterministically: " + name)
					return true
				case tr.Deadlock != "":
					c.Violate("deadlock concurrent-translate", cs, tr.Deadlock, "no deadlock")
					return false
				case len(tr.Panics) > 0:
					c.Violate("panic concurrent-translate", cs, strings.Join(tr.Panics, " ; "), "no panic")
					return false
				case len(tr.Leaked) > 0:
					c.Violate("blocked-forever concurrent-translate", cs, strings.Join(tr.Leaked, " ; "), "all callers return")
					return false
				}
				// judge the observations
				idOf := map[string]uint64{} // "ns|key" -> id
				keyOf := map[string]string{} // "ns|id" -> key
				var lines []string
				for _, o := range obs {
					ns := "col"
					if o.call.rows {
						ns = "row"
					}
					if o.err != nil {
						c.Violate("error concurrent-translate", cs, o.err.Error(), "ids")
						return false
					}
					lines = append(lines, fmt.Sprintf("%s=%v", o.call, o.ids))
					for i, k := range o.call.keys {
						id := o.ids[i]
						if id == 0 {
							c.Violate("non-positive-id concurrent-translate", cs, fmt.Sprintf("%s -> %v", o.call, o.ids), "positive ids")
							return false
						}
						if old, ok := idOf[ns+"|"+k]; ok && old != id {
							c.Violate("key-got-two-ids concurrent-translate", cs, fmt.Sprintf("%s key %q: ids %d and %d; all: %s", ns, k, old, id, strings.Join(lines, " ")), "one id per key, never changing")
							return false
						}
						idOf[ns+"|"+k] = id
						slot := fmt.Sprintf("%s|%d", ns, id)
						if ok2, dup := keyOf[slot]; dup && ok2 != k {
							c.Violate("two-keys-one-id concurrent-translate", cs, fmt.Sprintf("%s id %d for keys %q and %q; all: %s", ns, id, ok2, k, strings.Join(lines, " ")), "distinct keys get distinct ids")
							return false
						}
						keyOf[slot] = k
					}
				}
				verify := func(f *TranslateFile, when string) bool {
					for nk, id := range idOf {
						ns, k := nk[:3], nk[4:]
						var s string
						var err error
						if ns == "row" {
							s, err = f.TranslateRowToString("i", "f", id)
						} else {
							s, err = f.TranslateColumnToString("i", id)
						}
						if err != nil || s != k {
							c.Violate("reverse-lookup-wrong concurrent-translate "+when, cs, fmt.Sprintf("%s id %d -> %q (err %v), want %q", ns, id, s, err, k), "reverse translation returns the key")
							return false
						}
					}
					return true
				}
				if !verify(tf, "live") {
					return false
				}
				if err := tf.Close(); err != nil {
					c.Violate("close-fails concurrent-translate", cs, err.Error(), "clean close")
					return false
				}
				tf2 := NewTranslateFile(OptTranslateFileMapSize(1 << 20))
				tf2.Path = path
				if err := tf2.Open(); err != nil {
					c.Violate("reopen-fails concurrent-translate", cs, err.Error(), "mapping unchanged after restart")
					return false
				}
				ok := verify(tf2, "after-reopen")
				tf2.Close()
				if !ok {
					return false
				}
				sort.Strings(lines)
				asg := strings.Join(lines, " ")
				c.Outcome(asg)
				c.Distinct(name + "|" + asg)
				return true
			}, nil)
			c.Sample(map[string]interface{}{"scenario": name, "schedules": st.Executions, "by_preemptions": st.ByBound, "max_decisions": st.MaxDecisions, "shared_lock_sites": st.SharedSites})
			c.AddStates(int64(st.Executions))
		}, nil)
		c.AddValidated(c.Evaluations)
		c.Assume("lock-level interleavings of the TranslateFile RWMutex; go1.26.8 testing/synctest")
		os.Exit(c.Finish())
	})
}
