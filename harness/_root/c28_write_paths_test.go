package pilosa

// C28 — All write paths for the same bits yield the same answers.
//
// Input/configuration exploration on a REAL in-process node (Server + API + executor, loop-back
// internal client): for every field type {set, mutex, bool, time, int}, for every ordered subset D of
// 6 candidate (row, column[, timestamp]) bits / (column, value) pairs spread over 2 shards, the data
// is written into identical fresh fields through
//   * every single path: PQL Set, API.Import by ids (one request per shard), API.ImportRoaring in
//     Pilosa and in official encoding (set/time fields; time views computed by the client),
//     API.ImportValue (int);
//   * every two-path mixture (first k elements through one path, the rest through another, all k);
//   * set-everything-then-clear-the-rest through every (set path, clear path) combination
//     (PQL Clear, import clear, roaring clear);
//   * keyed index/fields: PQL with string keys vs API.Import / API.ImportValue with keys.
// After each history the caches are recalculated and a query battery is run through API.Query:
// Row, Count, Rows, TopN (plain, ids), time ranges, BSI comparisons, Sum/Min/Max.
// Oracle (the statement): the battery of every variant equals, query by query, the battery of the
// reference variant of its group (the pure PQL history). A plain Go model of the final state is
// compared too, but only reported as information (a wrong answer common to all paths belongs to
// other properties).

import (
	"bytes"
	"context"
	"encoding/binary"
	"encoding/json"
	"fmt"
	"sort"
	"strings"
	"sync"
	"testing"
	"time"

	"github.com/pilosa/pilosa/internal/vx"
	"github.com/pilosa/pilosa/pql"
	"github.com/pilosa/pilosa/roaring"
)

type c28Ser struct{}

func (c28Ser) Marshal(Message) ([]byte, error)  { return []byte{}, nil }
func (c28Ser) Unmarshal([]byte, Message) error { return nil }

// c28Client is the loop-back internal client: what the HTTP client would POST to the node owning
// the shard is handed to the same node's API directly.
type c28Client struct {
	nopInternalClient
	api *API
}

func (c *c28Client) Import(ctx context.Context, index, field string, shard uint64, bits []Bit, opts ...ImportOption) error {
	req := &ImportRequest{Index: index, Field: field, Shard: shard}
	hasTS := false
	for _, b := range bits {
		req.RowIDs = append(req.RowIDs, b.RowID)
		req.ColumnIDs = append(req.ColumnIDs, b.ColumnID)
		req.Timestamps = append(req.Timestamps, b.Timestamp)
		hasTS = hasTS || b.Timestamp != 0
	}
	if !hasTS {
		req.Timestamps = nil
	}
	return c.api.Import(ctx, req, opts...)
}

func (c *c28Client) ImportValue(ctx context.Context, index, field string, shard uint64, vals []FieldValue, opts ...ImportOption) error {
	req := &ImportValueRequest{Index: index, Field: field, Shard: shard}
	for _, v := range vals {
		req.ColumnIDs = append(req.ColumnIDs, v.ColumnID)
		req.Values = append(req.Values, v.Value)
	}
	return c.api.ImportValue(ctx, req, opts...)
}

type c28Node struct {
	srv    *Server
	api    *API
	parsed map[string]*pql.Query
}

var (
	c28NodeOnce sync.Once
	c28TheNode  *c28Node
)

func c28GetNode() *c28Node {
	c28NodeOnce.Do(func() {
		cl := &c28Client{}
		s, err := NewServer(
			OptServerDataDir(vx.Scratch()),
			OptServerNodeID("c28node"),
			OptServerClusterDisabled(true, nil),
			OptServerSerializer(c28Ser{}),
			OptServerIsCoordinator(true),
			OptServerInternalClient(cl),
		)
		if err != nil {
			panic(err)
		}
		if err := s.Open(); err != nil {
			panic(err)
		}
		api, err := NewAPI(OptAPIServer(s))
		if err != nil {
			panic(err)
		}
		cl.api = api
		if _, err := s.holder.CreateIndex("i", IndexOptions{}); err != nil {
			panic(err)
		}
		if _, err := s.holder.CreateIndex("k", IndexOptions{Keys: true}); err != nil {
			panic(err)
		}
		c28TheNode = &c28Node{srv: s, api: api, parsed: map[string]*pql.Query{}}
	})
	return c28TheNode
}

// query runs one PQL string through API-level execution (parse cached, executed on a copy).
func (n *c28Node) query(index, q string) string {
	r := n.query1(index, q)
	if strings.HasPrefix(q, "TopN(f, n=") && strings.HasPrefix(r, "pairs=") {
		// with ties at the cut the choice of rows is arbitrary: compare the counts only
		var cs []string
		for _, p := range strings.Fields(strings.TrimPrefix(r, "pairs=")) {
			cs = append(cs, p[strings.LastIndex(p, ":")+1:])
		}
		return "counts=" + strings.Join(cs, ",")
	}
	return r
}

func (n *c28Node) query1(index, q string) string {
	pq := n.parsed[q]
	if pq == nil {
		var err error
		if pq, err = pql.ParseString(q); err != nil {
			return "PARSE-ERR: " + err.Error()
		}
		n.parsed[q] = pq
	}
	run := &pql.Query{Calls: make([]*pql.Call, len(pq.Calls))}
	for i := range pq.Calls {
		run.Calls[i] = pq.Calls[i].Clone()
	}
	resp, err := n.srv.executor.Execute(context.Background(), index, run, nil, nil)
	if err != nil {
		return "ERR: " + err.Error()
	}
	return c28Render(resp.Results[0])
}

func c28Render(v interface{}) string {
	switch r := v.(type) {
	case *Row:
		if len(r.Keys) > 0 {
			ks := append([]string(nil), r.Keys...)
			sort.Strings(ks)
			return fmt.Sprintf("keys=%v", ks)
		}
		return fmt.Sprintf("cols=%v", append([]uint64{}, r.Columns()...))
	case uint64:
		return fmt.Sprint(r)
	case bool:
		return fmt.Sprint(r)
	case []Pair:
		ps := append([]Pair(nil), r...)
		sort.SliceStable(ps, func(i, j int) bool {
			if ps[i].Count != ps[j].Count {
				return ps[i].Count > ps[j].Count
			}
			if ps[i].ID != ps[j].ID {
				return ps[i].ID < ps[j].ID
			}
			return ps[i].Key < ps[j].Key
		})
		var sb strings.Builder
		for _, p := range ps {
			fmt.Fprintf(&sb, "%d%s:%d ", p.ID, p.Key, p.Count)
		}
		return "pairs=" + sb.String()
	case RowIdentifiers:
		ks := append([]string(nil), r.Keys...)
		sort.Strings(ks)
		return fmt.Sprintf("rows=%v keys=%v", append([]uint64{}, r.Rows...), ks)
	case RowIDs:
		return fmt.Sprintf("rows=%v keys=[]", append([]uint64{}, r...))
	case ValCount:
		return fmt.Sprintf("val=%d count=%d", r.Val, r.Count)
	case nil:
		return "nil"
	}
	return fmt.Sprintf("%T:%v", v, v)
}

// ---------------------------------------------------------------------------------------------

var c28Times = []time.Time{
	time.Date(2018, 1, 1, 0, 0, 0, 0, time.UTC),
	time.Date(2018, 2, 2, 3, 0, 0, 0, time.UTC),
	time.Date(2019, 1, 1, 0, 0, 0, 0, time.UTC),
}

type c28El struct {
	Row uint64 `json:"r"`
	Col uint64 `json:"c"`
	TS  int    `json:"t"` // index into c28Times, -1 = none
	Val int64  `json:"v"`
}

type c28Step struct {
	Path  string  `json:"path"` // pql | import | roaring | official | importvalue
	Clear bool    `json:"clear,omitempty"`
	Els   []c28El `json:"els"`
}

type c28Variant struct {
	Name  string    `json:"name"`
	Steps []c28Step `json:"steps"`
}

type c28Group struct {
	Type     string       `json:"type"` // set | mutex | bool | time | int
	Quantum  string       `json:"quantum,omitempty"`
	Keyed    bool         `json:"keyed,omitempty"`
	Variants []c28Variant `json:"variants"` // Variants[0] is the reference (pure PQL)
}

const c28SW = ShardWidth

func c28Candidates(typ string) []c28El {
	switch typ {
	case "set":
		return []c28El{{1, 0, -1, 0}, {1, 1, -1, 0}, {2, 1, -1, 0}, {1, c28SW, -1, 0}, {2, c28SW + 1, -1, 0}, {3, c28SW + 1, -1, 0}}
	case "mutex":
		return []c28El{{1, 0, -1, 0}, {2, 0, -1, 0}, {1, 1, -1, 0}, {2, c28SW, -1, 0}, {1, c28SW, -1, 0}, {3, c28SW + 1, -1, 0}}
	case "bool":
		return []c28El{{1, 0, -1, 0}, {0, 0, -1, 0}, {1, 1, -1, 0}, {0, c28SW, -1, 0}, {1, c28SW, -1, 0}, {0, c28SW + 1, -1, 0}}
	case "time":
		return []c28El{{1, 0, 0, 0}, {1, 0, 1, 0}, {1, 1, 0, 0}, {2, c28SW, 2, 0}, {1, c28SW, -1, 0}, {2, 1, 1, 0}}
	case "int":
		return []c28El{{0, 0, -1, 5}, {0, 0, -1, -3}, {0, 1, -1, 100}, {0, c28SW, -1, 0}, {0, c28SW, -1, -10}, {0, c28SW + 1, -1, 7}}
	}
	panic(typ)
}

func c28SetPaths(typ string, keyed bool) []string {
	if keyed {
		if typ == "int" {
			return []string{"pql", "importvalue"}
		}
		return []string{"pql", "import"}
	}
	switch typ {
	case "set", "time":
		return []string{"pql", "import", "roaring", "official"}
	case "int":
		return []string{"pql", "importvalue"}
	}
	return []string{"pql", "import"}
}

func c28ClearPaths(typ string, keyed bool) []string {
	if keyed {
		if typ == "int" || typ == "time" {
			return nil
		}
		return []string{"pql", "import"}
	}
	switch typ {
	case "set":
		return []string{"pql", "import", "roaring", "official"}
	case "time":
		return []string{"pql", "roaring", "official"} // import-clear with timestamps is refused by design
	case "int":
		return nil
	}
	return []string{"pql", "import"}
}

func c28FieldOpt(g *c28Group) []FieldOption {
	var o []FieldOption
	switch g.Type {
	case "set":
		o = append(o, OptFieldTypeSet(DefaultCacheType, DefaultCacheSize))
	case "mutex":
		o = append(o, OptFieldTypeMutex(DefaultCacheType, DefaultCacheSize))
	case "bool":
		o = append(o, OptFieldTypeBool())
	case "time":
		o = append(o, OptFieldTypeTime(TimeQuantum(g.Quantum)))
	case "int":
		o = append(o, OptFieldTypeInt(-10, 100))
	}
	if g.Keyed && g.Type != "int" && g.Type != "bool" {
		o = append(o, OptFieldKeys())
	}
	return o
}

func c28ViewSuffixes(t time.Time, q string) []string {
	full := t.Format("2006010215")
	var out []string
	for _, u := range q {
		switch u {
		case 'Y':
			out = append(out, full[:4])
		case 'M':
			out = append(out, full[:6])
		case 'D':
			out = append(out, full[:8])
		case 'H':
			out = append(out, full[:10])
		}
	}
	return out
}

func c28Pilosa(pos []uint64) []byte {
	bm := roaring.NewBitmap()
	for _, p := range pos {
		bm.DirectAdd(p)
	}
	var buf bytes.Buffer
	if _, err := bm.WriteTo(&buf); err != nil {
		panic(err)
	}
	return buf.Bytes()
}

// official RoaringFormatSpec, no run containers (cookie 12346), array containers.
func c28Official(pos []uint64) []byte {
	byKey := map[uint16][]uint16{}
	for _, p := range pos {
		k := uint16(uint32(p) >> 16)
		dup := false
		for _, v := range byKey[k] {
			dup = dup || v == uint16(p)
		}
		if !dup {
			byKey[k] = append(byKey[k], uint16(p))
		}
	}
	keys := make([]int, 0, len(byKey))
	for k := range byKey {
		keys = append(keys, int(k))
	}
	sort.Ints(keys)
	var buf bytes.Buffer
	w := func(v interface{}) { _ = binary.Write(&buf, binary.LittleEndian, v) }
	w(uint32(12346))
	w(uint32(len(keys)))
	for _, k := range keys {
		vals := byKey[uint16(k)]
		sort.Slice(vals, func(i, j int) bool { return vals[i] < vals[j] })
		w(uint16(k))
		w(uint16(len(vals) - 1))
	}
	off := uint32(8 + 8*len(keys))
	for _, k := range keys {
		w(off)
		off += uint32(2 * len(byKey[uint16(k)]))
	}
	for _, k := range keys {
		for _, v := range byKey[uint16(k)] {
			w(v)
		}
	}
	return buf.Bytes()
}

// c28State is the client's own knowledge of what it wrote (needed to clear time views through the
// roaring path, and used as the informational model).
type c28State struct {
	typ  string
	bits map[[2]uint64]bool         // (row, col) standard
	ts   map[[2]uint64]map[int]bool // (row, col) -> timestamps set
	vals map[uint64]int64
}

func (s *c28State) apply(st c28Step) {
	for _, e := range st.Els {
		k := [2]uint64{e.Row, e.Col}
		switch s.typ {
		case "int":
			s.vals[e.Col] = e.Val
		case "mutex", "bool":
			if st.Clear {
				delete(s.bits, k)
			} else {
				for kk := range s.bits {
					if kk[1] == e.Col {
						delete(s.bits, kk)
					}
				}
				s.bits[k] = true
			}
		default:
			if st.Clear {
				delete(s.bits, k)
				delete(s.ts, k)
			} else {
				s.bits[k] = true
				if e.TS >= 0 {
					if s.ts[k] == nil {
						s.ts[k] = map[int]bool{}
					}
					s.ts[k][e.TS] = true
				}
			}
		}
	}
}

func c28RowArg(g *c28Group, r uint64) string {
	switch {
	case g.Type == "bool":
		if r == 1 {
			return "true"
		}
		return "false"
	case g.Keyed:
		return fmt.Sprintf("\"r%d\"", r)
	}
	return fmt.Sprint(r)
}

func c28ColArg(g *c28Group, c uint64) string {
	if g.Keyed {
		return fmt.Sprintf("\"c%d\"", c)
	}
	return fmt.Sprint(c)
}

// c28DoStep executes one step on the real node. Returns an error string ("" = ok).
func (n *c28Node) c28DoStep(g *c28Group, index string, st c28Step, known *c28State) string {
	ctx := context.Background()
	var errs []string
	add := func(err error) {
		if err != nil {
			errs = append(errs, err.Error())
		}
	}
	switch st.Path {
	case "pql":
		for _, e := range st.Els {
			var q string
			switch {
			case g.Type == "int":
				q = fmt.Sprintf("Set(%s, f=%d)", c28ColArg(g, e.Col), e.Val)
			case st.Clear:
				q = fmt.Sprintf("Clear(%s, f=%s)", c28ColArg(g, e.Col), c28RowArg(g, e.Row))
			case e.TS >= 0:
				q = fmt.Sprintf("Set(%s, f=%s, %s)", c28ColArg(g, e.Col), c28RowArg(g, e.Row), c28Times[e.TS].Format(TimeFormat))
			default:
				q = fmt.Sprintf("Set(%s, f=%s)", c28ColArg(g, e.Col), c28RowArg(g, e.Row))
			}
			if r := n.query(index, q); strings.HasPrefix(r, "ERR") || strings.HasPrefix(r, "PARSE") {
				errs = append(errs, r)
			}
		}
	case "import", "importvalue":
		var opts []ImportOption
		if st.Clear {
			opts = append(opts, OptImportOptionsClear(true))
		}
		if g.Keyed {
			// one request with keys; the API translates and forwards per shard
			if st.Path == "importvalue" {
				req := &ImportValueRequest{Index: index, Field: "f"}
				for _, e := range st.Els {
					req.ColumnKeys = append(req.ColumnKeys, fmt.Sprintf("c%d", e.Col))
					req.Values = append(req.Values, e.Val)
				}
				add(n.api.ImportValue(ctx, req, opts...))
			} else {
				req := &ImportRequest{Index: index, Field: "f"}
				hasTS := false
				for _, e := range st.Els {
					req.ColumnKeys = append(req.ColumnKeys, fmt.Sprintf("c%d", e.Col))
					if g.Type == "bool" {
						req.RowIDs = append(req.RowIDs, e.Row)
					} else {
						req.RowKeys = append(req.RowKeys, fmt.Sprintf("r%d", e.Row))
					}
					var ts int64
					if e.TS >= 0 {
						ts = c28Times[e.TS].UnixNano()
						hasTS = true
					}
					req.Timestamps = append(req.Timestamps, ts)
				}
				if !hasTS {
					req.Timestamps = nil
				}
				add(n.api.Import(ctx, req, opts...))
			}
			break
		}
		// by ids: one request per shard, elements in order
		for _, shard := range []uint64{0, 1} {
			if st.Path == "importvalue" {
				req := &ImportValueRequest{Index: index, Field: "f", Shard: shard}
				for _, e := range st.Els {
					if e.Col/c28SW == shard {
						req.ColumnIDs = append(req.ColumnIDs, e.Col)
						req.Values = append(req.Values, e.Val)
					}
				}
				if len(req.ColumnIDs) > 0 {
					add(n.api.ImportValue(ctx, req, opts...))
				}
				continue
			}
			req := &ImportRequest{Index: index, Field: "f", Shard: shard}
			hasTS := false
			for _, e := range st.Els {
				if e.Col/c28SW != shard {
					continue
				}
				req.RowIDs = append(req.RowIDs, e.Row)
				req.ColumnIDs = append(req.ColumnIDs, e.Col)
				var ts int64
				if e.TS >= 0 && !st.Clear {
					ts = c28Times[e.TS].UnixNano()
					hasTS = true
				}
				req.Timestamps = append(req.Timestamps, ts)
			}
			if !hasTS {
				req.Timestamps = nil
			}
			if len(req.ColumnIDs) > 0 {
				add(n.api.Import(ctx, req, opts...))
			}
		}
	case "roaring", "official":
		enc := c28Pilosa
		if st.Path == "official" {
			enc = c28Official
		}
		for _, shard := range []uint64{0, 1} {
			views := map[string][]uint64{}
			for _, e := range st.Els {
				if e.Col/c28SW != shard {
					continue
				}
				p := e.Row*c28SW + e.Col%c28SW
				views[""] = append(views[""], p)
				if g.Type == "time" {
					if st.Clear {
						// clear the bit in every view the client set it in
						for ts := range known.ts[[2]uint64{e.Row, e.Col}] {
							for _, sfx := range c28ViewSuffixes(c28Times[ts], g.Quantum) {
								views[sfx] = append(views[sfx], p)
							}
						}
					} else if e.TS >= 0 {
						for _, sfx := range c28ViewSuffixes(c28Times[e.TS], g.Quantum) {
							views[sfx] = append(views[sfx], p)
						}
					}
				}
			}
			if len(views) == 0 {
				continue
			}
			req := &ImportRoaringRequest{Clear: st.Clear, Views: map[string][]byte{}}
			for v, pos := range views {
				req.Views[v] = enc(pos)
			}
			add(n.api.ImportRoaring(ctx, index, "f", shard, false, req))
		}
	default:
		panic("path " + st.Path)
	}
	return strings.Join(errs, "; ")
}

type c28Q struct{ Kind, Q string }

func c28Battery(g *c28Group) []c28Q {
	var qs []c28Q
	if g.Type == "int" {
		for _, v := range []int64{-10, -3, 0, 5, 7, 100} {
			qs = append(qs, c28Q{"Row(==)", fmt.Sprintf("Row(f == %d)", v)})
		}
		for _, v := range []int64{-5, 0, 6} {
			qs = append(qs, c28Q{"Row(>)", fmt.Sprintf("Row(f > %d)", v)}, c28Q{"Row(<=)", fmt.Sprintf("Row(f <= %d)", v)}, c28Q{"Count(Row(<))", fmt.Sprintf("Count(Row(f < %d))", v)})
		}
		qs = append(qs, c28Q{"Row(!=null)", "Row(f != null)"}, c28Q{"Row(><)", "Row(f >< [-4, 50])"},
			c28Q{"Sum", "Sum(field=f)"}, c28Q{"Min", "Min(field=f)"}, c28Q{"Max", "Max(field=f)"}, c28Q{"Sum(filter)", "Sum(Row(f > 0), field=f)"})
		return qs
	}
	rows := []uint64{1, 2, 3}
	if g.Type == "bool" {
		rows = []uint64{0, 1}
	}
	for _, r := range rows {
		qs = append(qs, c28Q{"Row", fmt.Sprintf("Row(f=%s)", c28RowArg(g, r))}, c28Q{"Count", fmt.Sprintf("Count(Row(f=%s))", c28RowArg(g, r))})
	}
	if g.Type != "bool" { // Rows() on a bool field fails in translateCall (wants a bool `previous`): other property
		qs = append(qs, c28Q{"Rows", "Rows(f)"})
		qs = append(qs, c28Q{"Rows(column)", fmt.Sprintf("Rows(f, column=%s)", c28ColArg(g, 1))})
	}
	qs = append(qs, c28Q{"TopN", "TopN(f)"}, c28Q{"TopN(n)", "TopN(f, n=2)"})
	if !g.Keyed && g.Type != "bool" {
		qs = append(qs, c28Q{"TopN(ids)", "TopN(f, ids=[1,2,3])"})
	}
	qs = append(qs, c28Q{"Union", fmt.Sprintf("Union(Row(f=%s), Row(f=%s))", c28RowArg(g, rows[0]), c28RowArg(g, rows[1]))})
	if g.Type == "time" {
		rg := [][2]string{{"2018-01-01T00:00", "2019-01-01T00:00"}, {"2018-01-01T00:00", "2018-02-01T00:00"}, {"2018-02-01T00:00", "2018-03-01T00:00"},
			{"2019-01-01T00:00", "2020-01-01T00:00"}, {"2017-01-01T00:00", "2021-01-01T00:00"}, {"2018-02-01T00:00", "2019-02-01T00:00"}}
		for _, r := range []uint64{1, 2} {
			for _, x := range rg {
				qs = append(qs, c28Q{"Row(from,to)", fmt.Sprintf("Row(f=%s, from='%s', to='%s')", c28RowArg(g, r), x[0], x[1])})
			}
		}
	}
	return qs
}

// c28ModelAnswer: expected answer of the informational model for the simple query kinds ("" = the
// model does not answer this kind).
func c28ModelAnswer(g *c28Group, s *c28State, q c28Q) string {
	if g.Keyed {
		return ""
	}
	switch q.Kind {
	case "Row", "Count":
		var r uint64
		var rs string
		if q.Kind == "Row" {
			fmt.Sscanf(q.Q, "Row(f=%s", &rs)
		} else {
			fmt.Sscanf(q.Q, "Count(Row(f=%s", &rs)
		}
		rs = strings.TrimRight(rs, ")")
		switch rs {
		case "true":
			r = 1
		case "false":
			r = 0
		default:
			fmt.Sscanf(rs, "%d", &r)
		}
		var cols []uint64
		for k := range s.bits {
			if k[0] == r {
				cols = append(cols, k[1])
			}
		}
		sort.Slice(cols, func(i, j int) bool { return cols[i] < cols[j] })
		if q.Kind == "Count" {
			return fmt.Sprint(len(cols))
		}
		return fmt.Sprintf("cols=%v", append([]uint64{}, cols...))
	case "Row(==)":
		var v int64
		fmt.Sscanf(q.Q, "Row(f == %d)", &v)
		var cols []uint64
		for c, x := range s.vals {
			if x == v {
				cols = append(cols, c)
			}
		}
		sort.Slice(cols, func(i, j int) bool { return cols[i] < cols[j] })
		return fmt.Sprintf("cols=%v", append([]uint64{}, cols...))
	case "Sum":
		var sum int64
		for _, x := range s.vals {
			sum += x
		}
		return fmt.Sprintf("val=%d count=%d", sum, len(s.vals))
	}
	return ""
}

type c28Out struct {
	Errs    string   `json:"errs"`
	Answers []string `json:"answers"`
	Model   []string `json:"model"`
}

// c28RunVariant executes one variant on a fresh field and returns the battery answers.
func (n *c28Node) c28RunVariant(g *c28Group, v c28Variant) c28Out {
	index := "i"
	if g.Keyed {
		index = "k"
	}
	idx := n.srv.holder.Index(index)
	if _, err := idx.CreateField("f", c28FieldOpt(g)...); err != nil {
		panic(err)
	}
	defer func() {
		if err := idx.DeleteField("f"); err != nil {
			panic(err)
		}
	}()
	known := &c28State{typ: g.Type, bits: map[[2]uint64]bool{}, ts: map[[2]uint64]map[int]bool{}, vals: map[uint64]int64{}}
	var out c28Out
	for _, st := range v.Steps {
		if len(st.Els) == 0 {
			continue
		}
		if e := n.c28DoStep(g, index, st, known); e != "" {
			out.Errs += st.Path + ": " + e + "; "
		}
		known.apply(st)
	}
	if err := n.api.RecalculateCaches(context.Background()); err != nil {
		out.Errs += "recalculate: " + err.Error()
	}
	for _, q := range c28Battery(g) {
		out.Answers = append(out.Answers, n.query(index, q.Q))
		out.Model = append(out.Model, c28ModelAnswer(g, known, q))
	}
	return out
}

// c28Groups builds every group of variants for one type and one ordered subset D (mask) of the
// candidates.
func c28Groups(typ, quantum string, mask int, thorough bool) []c28Group {
	cand := c28Candidates(typ)
	var D, rest []c28El
	for i, e := range cand {
		if mask&(1<<uint(i)) != 0 {
			D = append(D, e)
		} else {
			rest = append(rest, e)
		}
	}
	var groups []c28Group
	for _, keyed := range []bool{false, true} {
		if keyed && (typ == "time" && quantum != "YM") {
			continue
		}
		P := c28SetPaths(typ, keyed)
		C := c28ClearPaths(typ, keyed)
		if len(D) > 0 {
			g := c28Group{Type: typ, Quantum: quantum, Keyed: keyed}
			g.Variants = append(g.Variants, c28Variant{"pql", []c28Step{{Path: "pql", Els: D}}})
			for _, p := range P[1:] {
				g.Variants = append(g.Variants, c28Variant{p, []c28Step{{Path: p, Els: D}}})
			}
			for k := 1; k < len(D); k++ {
				if !thorough && k != 1 && k != len(D)-1 && k != len(D)/2 {
					continue
				}
				for _, p1 := range P {
					for _, p2 := range P {
						if p1 != p2 {
							g.Variants = append(g.Variants, c28Variant{fmt.Sprintf("%s[:%d]+%s", p1, k, p2), []c28Step{{Path: p1, Els: D[:k]}, {Path: p2, Els: D[k:]}}})
						}
					}
				}
			}
			groups = append(groups, g)
		}
		if len(C) > 0 && len(rest) > 0 {
			// set all candidates, then clear the ones outside D
			g := c28Group{Type: typ, Quantum: quantum, Keyed: keyed}
			for _, p := range P {
				for _, c := range C {
					g.Variants = append(g.Variants, c28Variant{p + "-all,then-clear-by-" + c, []c28Step{{Path: p, Els: cand}, {Path: c, Clear: true, Els: rest}}})
				}
			}
			groups = append(groups, g)
		}
	}
	return groups
}

func c28PathsOf(v c28Variant) string {
	var ps []string
	for _, s := range v.Steps {
		p := s.Path
		if s.Clear {
			p = "clear:" + p
		}
		ps = append(ps, p)
	}
	return strings.Join(ps, "+")
}

func TestVerif_C28(t *testing.T) {
	c := vx.NewCheck("C28", "exploration",
		"field type {set,mutex,bool,time(YM; thorough also YMDH),int} x every ordered subset of 6 candidate bits/values over 2 shards x {every single write path, every two-path mixture at every split point (quick: first/middle/last), set-all-then-clear-the-rest for every (set path, clear path)} x {ids, keys}; the battery of each variant is compared query by query with the pure-PQL variant of its group; distinct = distinct (type, final answers) vectors")
	type job struct {
		Typ, Quantum string
		Mask         int
	}
	var jobs []job
	for _, typ := range []string{"set", "mutex", "bool", "time", "int"} {
		qs := []string{""}
		if typ == "time" {
			qs = []string{"YM"}
			if c.Thorough() {
				qs = append(qs, "YMDH")
			}
		}
		for _, q := range qs {
			for mask := 0; mask < 64; mask++ {
				jobs = append(jobs, job{typ, q, mask})
			}
		}
	}
	c.Bound("jobs(type x quantum x subset)", len(jobs))
	c.Bound("candidates_per_type", 6)
	input, _ := json.Marshal(jobs)
	thorough := c.Thorough()
	var decodedFor *byte
	var decoded []job
	c.ProcFor(c.NextRunLabel(), len(jobs), input, func(in []byte, i int, emit func([]byte)) {
		if decodedFor != &in[0] {
			decoded = nil
			if err := json.Unmarshal(in, &decoded); err != nil {
				panic(err)
			}
			decodedFor = &in[0]
		}
		j := decoded[i]
		n := c28GetNode()
		for _, g := range c28Groups(j.Typ, j.Quantum, j.Mask, thorough) {
			g := g
			bat := c28Battery(&g)
			var ref c28Out
			for vi, v := range g.Variants {
				var out c28Out
				if p := vx.Guard(func() { out = n.c28RunVariant(&g, v) }); p != "" {
					out.Errs = p
					out.Answers = make([]string, len(bat))
					out.Model = make([]string, len(bat))
				}
				c.AddEval(1)
				c.Outcome(g.Type + "|" + strings.Join(out.Answers, "|"))
				if vi == 0 {
					ref = out
					c.Distinct(fmt.Sprintf("%s|%s|%v|%s", g.Type, g.Quantum, g.Keyed, strings.Join(out.Answers, "|")))
					if i%23 == 0 {
						c.Sample(map[string]interface{}{"type": g.Type, "keyed": g.Keyed, "variant": v})
					}
				}
				desc := func() string {
					b, _ := json.Marshal(map[string]interface{}{"type": g.Type, "quantum": g.Quantum, "keyed": g.Keyed, "variant": v, "reference": g.Variants[0]})
					return string(b)
				}
				kd := ""
				if g.Keyed {
					kd = " keyed"
				}
				if out.Errs != "" && out.Errs != ref.Errs {
					c.Violate(fmt.Sprintf("%s%s path=%s: write-error %s", g.Type, kd, c28PathsOf(v), c28ErrClass(out.Errs)), desc(), out.Errs, "no error (as through "+c28PathsOf(g.Variants[0])+")")
					continue
				}
				for qi, q := range bat {
					if vi > 0 && out.Answers[qi] != ref.Answers[qi] {
						last := v.Steps[len(v.Steps)-1]
						lp := last.Path
						if last.Clear {
							lp = "clear:" + lp
						}
						fk := fmt.Sprintf("%s%s: %s differs from the pure-PQL history when the last write goes through %s", g.Type, kd, c28QClass(q.Kind), lp)
						if c28QClass(q.Kind) != "TopN" {
							// data (not cache) differs: name the whole path combination
							fk = fmt.Sprintf("%s%s: %s differs from the pure-PQL history, paths=%s", g.Type, kd, c28QClass(q.Kind), c28PathsOf(v))
						}
						c.Violate(fk,
							desc(), q.Q+" -> "+out.Answers[qi], q.Q+" -> "+ref.Answers[qi]+" (through "+c28PathsOf(g.Variants[0])+")")
					}
					if out.Model[qi] != "" && out.Model[qi] != out.Answers[qi] {
						c.Outcome("MODEL-DIFF " + g.Type + " " + q.Kind + " " + c28PathsOf(v))
					}
				}
			}
		}
	}, nil)
	c.Assume("verdict = pairwise equality with the pure-PQL history of the same group (the statement); answers that are wrong through every path alike are other properties' business and only show up as MODEL-DIFF outcomes")
	c.Assume("time-field clears are compared at bit level (PQL Clear vs roaring clear of every view the client wrote); import-clear with timestamps is refused by the API by design and not a path")
	if c.Finish() != 0 {
		t.Fail()
	}
}

func c28QClass(kind string) string {
	switch {
	case strings.HasPrefix(kind, "TopN"):
		return "TopN"
	case strings.HasPrefix(kind, "Row(from"):
		return "time-range"
	case strings.HasPrefix(kind, "Row(") || kind == "Sum" || kind == "Min" || kind == "Max" || kind == "Sum(filter)" || kind == "Count(Row(<))":
		return "value-queries"
	}
	return "Row/Count/Rows"
}

func c28ErrClass(e string) string {
	if len(e) > 90 {
		e = e[:90]
	}
	// drop numbers so that one cause gives one key
	var sb strings.Builder
	for _, r := range e {
		if r >= '0' && r <= '9' {
			continue
		}
		sb.WriteRune(r)
	}
	return sb.String()
}
