package pilosa

// C12 — TopN reports true row counts.
//
// History exploration on a REAL set field (cache ∈ {ranked, lru} x size ∈ {1,2,3,50000}) of a REAL
// in-process node. Writes go through every path: PQL Set/Clear/ClearRow/Store on the executor,
// API.Import (bulk set / clear), API.ImportRoaring (set / clear, Pilosa and official encodings),
// plus an explicit cache recalculation (API.RecalculateCaches). TopN reads (with and without n,
// ids, threshold, filter row) are operations of the alphabet themselves (they touch the LRU order
// and the row cache). 4 rows x 3 columns of one shard; payloads create distinct and tied counts and
// more rows than the small caches hold (rows evicted / never admitted).
//
// Oracle — the statement as is, nothing more:
//  (1) TopN with explicit ids: every reported pair whose id was requested carries exactly the number
//      of columns set in that row (∩ filter row when a filter is given). Checked after every history.
//  (2) TopN without ids: only when the cache was freshly recalculated (no write since the last
//      recalculation) AND every row ever touched by a write fits in the cache
//      (#rows touched <= cache size): exactly min(n, #non-empty rows) pairs, counts exact,
//      non-increasing, and the multiset of counts is that of the largest rows (ties: any of the tied).
// The rank cache throttles implicit recalculation by wall-clock (10 s). No verdict depends on it:
// recalculation points are explicit operations, and an instance that lived longer than 8 s is
// discarded (counted, never judged).

import (
	"bytes"
	"context"
	"encoding/binary"
	"fmt"
	"reflect"
	"sort"
	"strings"
	"sync"
	"sync/atomic"
	"testing"
	"time"

	"github.com/pilosa/pilosa/internal/vx"
	"github.com/pilosa/pilosa/pql"
	"github.com/pilosa/pilosa/roaring"
)

type c12Ser struct{}

func (c12Ser) Marshal(Message) ([]byte, error)  { return []byte{}, nil }
func (c12Ser) Unmarshal([]byte, Message) error { return nil }

type c12Node struct {
	srv    *Server
	api    *API
	idx    *Index
	parsed map[string]*pql.Query
}

func c12NewNode() *c12Node {
	s, err := NewServer(
		OptServerDataDir(vx.Scratch()),
		OptServerNodeID("c12node"),
		OptServerClusterDisabled(true, nil),
		OptServerSerializer(c12Ser{}),
		OptServerIsCoordinator(true),
	)
	if err != nil {
		panic(err)
	}
	if err := s.Open(); err != nil {
		panic(err)
	}
	api, err := NewAPI(OptAPIServer(s))
	if err != nil {
		panic(err)
	}
	idx, err := s.holder.CreateIndex("i", IndexOptions{})
	if err != nil {
		panic(err)
	}
	return &c12Node{srv: s, api: api, idx: idx, parsed: map[string]*pql.Query{}}
}

func (n *c12Node) query(q string) (interface{}, error) {
	pq := n.parsed[q]
	if pq == nil {
		var err error
		if pq, err = pql.ParseString(q); err != nil {
			return nil, err
		}
		n.parsed[q] = pq
	}
	// the executor rewrites call arguments in place (bool / key translation): run a copy
	run := &pql.Query{Calls: make([]*pql.Call, len(pq.Calls))}
	for i := range pq.Calls {
		run.Calls[i] = pq.Calls[i].Clone()
	}
	resp, err := n.srv.executor.Execute(context.Background(), "i", run, nil, nil)
	if err != nil {
		return nil, err
	}
	return resp.Results[0], nil
}

var c12Rows = []uint64{1, 2, 3, 4}

const c12NCols = 3

type c12Bit struct{ row, col uint64 }

// payloads used by bulk import and roaring import (set and clear)
var c12Payloads = [][]c12Bit{
	{{1, 0}, {1, 1}, {1, 2}},                 // row1 -> 3
	{{2, 0}, {2, 1}, {3, 0}},                 // row2 -> 2, row3 -> 1
	{{3, 1}, {3, 2}, {4, 0}, {4, 1}, {4, 2}}, // row3 +2, row4 -> 3
	{{1, 0}, {2, 0}, {3, 0}, {4, 0}},         // one bit in every row (ties)
}

// Store(Row(f=src), f=dst); row 9 is never written (empty source)
var c12Stores = [][2]uint64{{1, 2}, {3, 1}, {9, 1}, {9, 3}, {2, 4}}

func c12PilosaRoaring(bits []c12Bit) []byte {
	bm := roaring.NewBitmap()
	for _, b := range bits {
		bm.DirectAdd(b.row*ShardWidth + b.col)
	}
	var buf bytes.Buffer
	if _, err := bm.WriteTo(&buf); err != nil {
		panic(err)
	}
	return buf.Bytes()
}

// c12OfficialRoaring encodes positions in the official RoaringFormatSpec layout without run
// containers (cookie 12346, array containers only; every container here has < 4096 values).
func c12OfficialRoaring(bits []c12Bit) []byte {
	byKey := map[uint16][]uint16{}
	for _, b := range bits {
		p := uint32(b.row*ShardWidth + b.col)
		byKey[uint16(p>>16)] = append(byKey[uint16(p>>16)], uint16(p))
	}
	keys := make([]int, 0, len(byKey))
	for k := range byKey {
		keys = append(keys, int(k))
	}
	sort.Ints(keys)
	var buf bytes.Buffer
	w := func(v interface{}) { _ = binary.Write(&buf, binary.LittleEndian, v) }
	w(uint32(12346))
	w(uint32(len(keys)))
	for _, k := range keys {
		vals := byKey[uint16(k)]
		sort.Slice(vals, func(i, j int) bool { return vals[i] < vals[j] })
		w(uint16(k))
		w(uint16(len(vals) - 1))
	}
	off := uint32(8 + 8*len(keys))
	for _, k := range keys {
		w(off)
		off += uint32(2 * len(byKey[uint16(k)]))
	}
	for _, k := range keys {
		for _, v := range byKey[uint16(k)] {
			w(v)
		}
	}
	return buf.Bytes()
}

type c12Cfg struct {
	cacheType string
	size      uint32
	mutex     bool // a mutex field: setting (row, col) takes col away from every other row — two counts change
}

type c12Stats struct {
	discarded      int64 // instances that outlived the timing guard
	literalReading int64 // clause-2 mismatches under the wider reading "currently non-empty rows fit" (not judged)
	clause1Checks  int64
	clause2Checks  int64
}

type c12Inst struct {
	cfg     c12Cfg
	pool    *sync.Pool
	n       *c12Node
	st      *c12Stats
	chk     *vx.Check
	start   time.Time
	dead    bool
	bits    map[uint64]uint8 // row -> column mask
	touched map[uint64]bool  // rows that were the target of any write
	fresh   bool             // no write since the last explicit recalculation
}

func (in *c12Inst) frag() *fragment { return in.n.srv.holder.fragment("i", "f", viewStandard, 0) }

func (in *c12Inst) count(row uint64, filter int64) uint64 {
	m := in.bits[row]
	if filter >= 0 {
		m &= in.bits[uint64(filter)]
	}
	n := uint64(0)
	for ; m != 0; m &= m - 1 {
		n++
	}
	return n
}

// setBit applies one set to the model: on a mutex field the column leaves every other row.
func (in *c12Inst) setBit(r uint64, c uint) {
	if in.cfg.mutex {
		for o := range in.bits {
			if o != r && in.bits[o]&(1<<c) != 0 {
				in.bits[o] &^= 1 << c
				in.wrote(o)
			}
		}
	}
	in.bits[r] |= 1 << c
	in.wrote(r)
}

func (in *c12Inst) wrote(rows ...uint64) {
	in.fresh = false
	for _, r := range rows {
		in.touched[r] = true
	}
}

func (in *c12Inst) await() {
	if f := in.frag(); f != nil {
		f.awaitSnapshot()
	}
}

func c12Err(err error) (string, string) {
	if err != nil {
		return "error: " + err.Error(), "no error"
	}
	return "", ""
}

func (in *c12Inst) Apply(op vx.Op) (got, want string) {
	if in.dead || time.Since(in.start) > 8*time.Second {
		if !in.dead {
			in.dead = true
			atomic.AddInt64(&in.st.discarded, 1)
			in.chk.NotExhaustive("an instance outlived the 8 s timing guard and was discarded (never judged)")
		}
		return "", ""
	}
	ctx := context.Background()
	switch op.Name {
	case "Set":
		r, c := uint64(op.Args[0]), uint64(op.Args[1])
		_, err := in.n.query(fmt.Sprintf("Set(%d, f=%d)", c, r))
		in.setBit(r, uint(c))
		return c12Err(err)
	case "Clear":
		r, c := uint64(op.Args[0]), uint64(op.Args[1])
		_, err := in.n.query(fmt.Sprintf("Clear(%d, f=%d)", c, r))
		in.bits[r] &^= 1 << c
		in.wrote(r)
		return c12Err(err)
	case "ClearRow":
		r := uint64(op.Args[0])
		_, err := in.n.query(fmt.Sprintf("ClearRow(f=%d)", r))
		in.await()
		in.bits[r] = 0
		in.wrote(r)
		return c12Err(err)
	case "Store":
		src, dst := c12Stores[op.Args[0]][0], c12Stores[op.Args[0]][1]
		_, err := in.n.query(fmt.Sprintf("Store(Row(f=%d), f=%d)", src, dst))
		in.await()
		in.bits[dst] = in.bits[src]
		in.wrote(dst)
		return c12Err(err)
	case "Import", "ImportClear":
		p := c12Payloads[op.Args[0]]
		req := &ImportRequest{Index: "i", Field: "f", Shard: 0}
		for _, b := range p {
			req.RowIDs = append(req.RowIDs, b.row)
			req.ColumnIDs = append(req.ColumnIDs, b.col)
		}
		var err error
		if op.Name == "Import" {
			err = in.n.api.Import(ctx, req)
		} else {
			err = in.n.api.Import(ctx, req, OptImportOptionsClear(true))
		}
		for _, b := range p {
			if op.Name == "Import" {
				in.setBit(b.row, uint(b.col))
			} else {
				in.bits[b.row] &^= 1 << b.col
			}
			in.wrote(b.row)
		}
		return c12Err(err)
	case "Roaring", "RoaringClear", "RoaringOfficial", "RoaringOfficialClear":
		p := c12Payloads[op.Args[0]]
		var data []byte
		if strings.HasPrefix(op.Name, "RoaringOfficial") {
			data = c12OfficialRoaring(p)
		} else {
			data = c12PilosaRoaring(p)
		}
		clear := strings.HasSuffix(op.Name, "Clear")
		err := in.n.api.ImportRoaring(ctx, "i", "f", 0, false, &ImportRoaringRequest{Clear: clear, Views: map[string][]byte{"": data}})
		for _, b := range p {
			if clear {
				in.bits[b.row] &^= 1 << b.col
			} else {
				in.bits[b.row] |= 1 << b.col
			}
			in.wrote(b.row)
		}
		return c12Err(err)
	case "Recalculate":
		err := in.n.api.RecalculateCaches(ctx)
		in.fresh = true
		return c12Err(err)
	case "TopN":
		if len(op.Args) > 4 && op.Args[4] == 1 {
			// macro-op: explicit recalculation immediately followed by the read
			if err := in.n.api.RecalculateCaches(ctx); err != nil {
				return c12Err(err)
			}
			in.fresh = true
		}
		return in.topN(int(op.Args[0]), op.Args[1], int(op.Args[2]), op.Args[3])
	}
	panic("unknown op " + op.Name)
}

// topN: n (0 = unlimited), idsMask (bit i = c12Rows[i] requested; 0 = no ids), threshold (0 = none),
// filter (row id of the filter Row(f=filter), -1 = none).
func (in *c12Inst) topN(n int, idsMask int64, threshold int, filter int64) (got, want string) {
	var args []string
	if filter >= 0 {
		args = append(args, fmt.Sprintf("Row(f=%d)", filter))
	}
	if n > 0 {
		args = append(args, fmt.Sprintf("n=%d", n))
	}
	var ids []uint64
	if idsMask != 0 {
		var s []string
		// requested in descending order on purpose (not sorted)
		for i := len(c12Rows) - 1; i >= 0; i-- {
			if idsMask&(1<<uint(i)) != 0 {
				ids = append(ids, c12Rows[i])
				s = append(s, fmt.Sprint(c12Rows[i]))
			}
		}
		args = append(args, "ids=["+strings.Join(s, ",")+"]")
	}
	if threshold > 0 {
		args = append(args, fmt.Sprintf("threshold=%d", threshold))
	}
	q := "TopN(f"
	if len(args) > 0 {
		q += ", " + strings.Join(args, ", ")
	}
	q += ")"
	res, err := in.n.query(q)
	if err != nil {
		return "error: " + err.Error(), "no error"
	}
	pairs, ok := res.([]Pair)
	if !ok {
		return fmt.Sprintf("unexpected result type %T", res), "[]Pair"
	}
	render := func() string {
		var sb strings.Builder
		for _, p := range pairs {
			fmt.Fprintf(&sb, "row%d=%d ", p.ID, p.Count)
		}
		return sb.String()
	}
	truth := func() string {
		var sb strings.Builder
		for _, r := range c12Rows {
			fmt.Fprintf(&sb, "row%d=%d ", r, in.count(r, filter))
		}
		return sb.String()
	}
	counts := make([]int, 0, len(pairs))
	for _, p := range pairs {
		counts = append(counts, int(p.Count))
	}
	sort.Sort(sort.Reverse(sort.IntSlice(counts)))
	okStr := fmt.Sprintf("%s -> counts %v", q, counts)

	if len(ids) > 0 {
		// clause (1)
		atomic.AddInt64(&in.st.clause1Checks, 1)
		req := map[uint64]bool{}
		for _, id := range ids {
			req[id] = true
		}
		for _, p := range pairs {
			if req[p.ID] && p.Count != in.count(p.ID, filter) {
				return fmt.Sprintf("%s reports %s: wrong-count row%d reported=%d", q, render(), p.ID, p.Count),
					fmt.Sprintf("true counts (∩ filter): %s", truth())
			}
		}
		return okStr, okStr
	}
	// clause (2)
	if !in.fresh {
		return okStr, okStr
	}
	fits := len(in.touched) <= int(in.cfg.size)
	// expected multiset
	var exp []int
	nonEmptyUnfiltered := 0
	for _, r := range c12Rows {
		if in.count(r, -1) > 0 {
			nonEmptyUnfiltered++
		}
		if c := int(in.count(r, filter)); c > 0 && (threshold == 0 || c >= threshold) {
			exp = append(exp, c)
		}
	}
	sort.Sort(sort.Reverse(sort.IntSlice(exp)))
	if n > 0 && len(exp) > n {
		exp = exp[:n]
	}
	bad := ""
	switch {
	case len(pairs) != len(exp):
		bad = fmt.Sprintf("wrong-length got=%d want=%d", len(pairs), len(exp))
	case fmt.Sprint(counts) != fmt.Sprint(exp):
		bad = "wrong-counts"
	default:
		for i, p := range pairs {
			if p.Count != in.count(p.ID, filter) {
				bad = fmt.Sprintf("wrong-count row%d reported=%d", p.ID, p.Count)
				break
			}
			if i > 0 && pairs[i-1].Count < p.Count {
				bad = "not-non-increasing"
				break
			}
		}
	}
	if bad == "" {
		if fits {
			atomic.AddInt64(&in.st.clause2Checks, 1)
		}
		return okStr, okStr
	}
	if !fits {
		if nonEmptyUnfiltered <= int(in.cfg.size) {
			atomic.AddInt64(&in.st.literalReading, 1)
		}
		return okStr, okStr // outside the statement: rows do not fit
	}
	atomic.AddInt64(&in.st.clause2Checks, 1)
	return fmt.Sprintf("%s after fresh recalculation, %d rows touched <= cache size %d, reports %s: %s", q, len(in.touched), in.cfg.size, render(), bad),
		fmt.Sprintf("counts %v; true counts (∩ filter): %s", exp, truth())
}

// c12LRUOrder reads the recency order of lru.Cache (unexported) by reflection; "" if the layout is
// not the expected one (then BFS merging is disabled for LRU configurations).
func c12LRUOrder(c *lruCache) (s string, ok bool) {
	defer func() {
		if recover() != nil {
			s, ok = "", false
		}
	}()
	v := reflect.ValueOf(c.cache).Elem().FieldByName("ll")
	if !v.IsValid() || v.IsNil() {
		return "", false
	}
	l := v.Elem()
	root := l.FieldByName("root")
	n := int(l.FieldByName("len").Int())
	var sb strings.Builder
	e := root.FieldByName("next")
	for i := 0; i < n; i++ {
		el := e.Elem()
		ent := el.FieldByName("Value").Elem().Elem() // interface -> *entry -> entry
		k := ent.FieldByName("key").Elem().Uint()
		val := ent.FieldByName("value").Elem().Uint()
		fmt.Fprintf(&sb, "%d:%d>", k, val)
		e = el.FieldByName("next")
	}
	return sb.String(), true
}

// Fingerprint: model + cache internals + row cache contents + storage layout.
func (in *c12Inst) Fingerprint() string {
	if in.dead {
		return fmt.Sprintf("dead-%p", in)
	}
	var sb strings.Builder
	for _, r := range []uint64{1, 2, 3, 4, 9} {
		fmt.Fprintf(&sb, "%d:%03b ", r, in.bits[r])
	}
	ts := make([]int, 0, len(in.touched))
	for r := range in.touched {
		ts = append(ts, int(r))
	}
	sort.Ints(ts)
	fmt.Fprintf(&sb, "|touched=%v fresh=%v", ts, in.fresh)
	f := in.frag()
	if f == nil {
		return sb.String() + "|nofrag"
	}
	f.mu.Lock()
	defer f.mu.Unlock()
	sb.WriteString("|st=")
	cit, _ := f.storage.Containers.Iterator(0)
	for cit.Next() {
		k, c := cit.Value()
		if c == nil {
			fmt.Fprintf(&sb, "%d:nil,", k)
		} else {
			fmt.Fprintf(&sb, "%d:%d,", k, c.N())
		}
	}
	if sc, ok := f.rowCache.(*simpleCache); ok {
		ks := make([]uint64, 0, len(sc.cache))
		for k := range sc.cache {
			ks = append(ks, k)
		}
		sort.Slice(ks, func(i, j int) bool { return ks[i] < ks[j] })
		sb.WriteString("|rc=")
		for _, k := range ks {
			fmt.Fprintf(&sb, "%d:%v,", k, sc.cache[k].Columns())
		}
	}
	switch ch := f.cache.(type) {
	case *rankCache:
		ch.mu.Lock()
		ids := make([]uint64, 0, len(ch.entries))
		for id := range ch.entries {
			ids = append(ids, id)
		}
		sort.Slice(ids, func(i, j int) bool { return ids[i] < ids[j] })
		sb.WriteString("|entries=")
		for _, id := range ids {
			fmt.Fprintf(&sb, "%d:%d,", id, ch.entries[id])
		}
		// rankings: ids with equal counts are interchangeable; render counts in order and ids per count sorted
		sb.WriteString("|rank=")
		for i := 0; i < len(ch.rankings); {
			j := i
			var same []int
			for j < len(ch.rankings) && ch.rankings[j].Count == ch.rankings[i].Count {
				same = append(same, int(ch.rankings[j].ID))
				j++
			}
			sort.Ints(same)
			fmt.Fprintf(&sb, "%d:%v,", ch.rankings[i].Count, same)
			i = j
		}
		fmt.Fprintf(&sb, "|thr=%d|upd=%v", ch.thresholdValue, !ch.updateTime.IsZero())
		ch.mu.Unlock()
	case *lruCache:
		o, ok := c12LRUOrder(ch)
		if !ok {
			return ""
		}
		ids := ch.IDs()
		sb.WriteString("|lru=" + o + "|counts=")
		for _, id := range ids {
			fmt.Fprintf(&sb, "%d:%d,", id, ch.counts[id])
		}
	}
	return sb.String()
}

func (in *c12Inst) Close() {
	if err := in.n.idx.DeleteField("f"); err != nil {
		panic(err)
	}
	in.pool.Put(in.n)
}

func c12Alphabet(thorough bool) []vx.Op {
	var a []vx.Op
	// reads first (simplest): TopN(n, idsMask, threshold, filter)
	a = append(a,
		vx.O("TopN", 0, 0, 0, -1),     // TopN(f)
		vx.O("TopN", 0, 0b1111, 0, -1), // ids=[4,3,2,1]
		vx.O("TopN", 1, 0, 0, -1),
		vx.O("TopN", 2, 0, 0, -1),
		vx.O("TopN", 0, 0b1010, 0, -1), // ids=[4,2]
		vx.O("TopN", 0, 0b1111, 2, -1), // ids, threshold=2
		vx.O("TopN", 2, 0, 0, 1),       // TopN(f, Row(f=1), n=2)
		vx.O("TopN", 0, 0b1111, 0, 2),  // TopN(f, Row(f=2), ids=[..])
		vx.O("TopN", 0, 0, 0, -1, 1),   // Recalculate; TopN(f)
		vx.O("TopN", 2, 0, 0, -1, 1),   // Recalculate; TopN(f, n=2)
		vx.O("TopN", 2, 0, 0, 1, 1),    // Recalculate; TopN(f, Row(f=1), n=2)
	)
	if thorough {
		a = append(a, vx.O("TopN", 5, 0, 0, -1), vx.O("TopN", 2, 0, 2, -1))
	}
	a = append(a, vx.O("Recalculate"))
	for _, r := range c12Rows {
		for c := 0; c < 2; c++ {
			a = append(a, vx.O("Set", int64(r), int64(c)))
		}
	}
	for _, r := range c12Rows {
		for c := 0; c < 2; c++ {
			a = append(a, vx.O("Clear", int64(r), int64(c)))
		}
	}
	for i := range c12Payloads {
		a = append(a, vx.O("Import", int64(i)), vx.O("ImportClear", int64(i)), vx.O("Roaring", int64(i)), vx.O("RoaringClear", int64(i)))
	}
	a = append(a, vx.O("RoaringOfficial", 1), vx.O("RoaringOfficialClear", 1))
	for _, r := range c12Rows {
		a = append(a, vx.O("ClearRow", int64(r)))
	}
	for i := range c12Stores {
		a = append(a, vx.O("Store", int64(i)))
	}
	return a
}

// c12CoreAlphabet: a sharper sub-alphabet for one more level of depth.
func c12CoreAlphabet() []vx.Op {
	return []vx.Op{
		vx.O("TopN", 0, 0, 0, -1, 1), vx.O("TopN", 0, 0b1111, 0, -1), vx.O("TopN", 0, 0b1111, 0, 2),
		vx.O("Recalculate"),
		vx.O("Set", 1, 0), vx.O("Set", 2, 0), vx.O("Set", 3, 0), vx.O("Set", 4, 0),
		vx.O("Clear", 1, 0), vx.O("Clear", 2, 0),
		vx.O("Import", 0), vx.O("Import", 1), vx.O("Import", 3), vx.O("ImportClear", 0), vx.O("ImportClear", 3),
		vx.O("Roaring", 1), vx.O("Roaring", 2), vx.O("RoaringClear", 0), vx.O("RoaringClear", 1),
		vx.O("ClearRow", 1), vx.O("ClearRow", 3), vx.O("Store", 0), vx.O("Store", 2),
	}
}

// c12Key: cache type + whether the rows fit + clause + discrepancy + the write paths on the
// minimal failing history.
func c12Key(cf c12Cfg, p []vx.Op, got, want string) string {
	last := p[len(p)-1]
	clause := "write"
	if last.Name == "TopN" {
		if last.Args[1] != 0 {
			clause = "ids"
		} else {
			clause = "topn-fresh-fitting-cache"
		}
		if last.Args[3] >= 0 {
			clause += "+filter"
		}
	} else {
		clause = "at=" + last.Name
	}
	what := "mismatch"
	switch {
	case strings.HasPrefix(got, "PANIC"):
		what = "panic"
	case strings.HasPrefix(got, "error"):
		what = "error"
	case strings.Contains(got, "wrong-count row"):
		// stale (reported > true) or lost (reported < true)?
		what = "wrong-count"
		var row int
		var rep, tcu uint64
		if i := strings.Index(got, "wrong-count row"); i >= 0 {
			fmt.Sscanf(got[i:], "wrong-count row%d reported=%d", &row, &rep)
			tc := -1
			if j := strings.Index(want, fmt.Sprintf("row%d=", row)); j >= 0 {
				fmt.Sscanf(want[j:], fmt.Sprintf("row%d=%%d", row), &tc)
			}
			if tc > 0 {
				tcu = uint64(tc)
			}
			switch {
			case rep > 1<<32:
				what = "count-wrapped-around"
			case tc == 0:
				what = "count-reported-for-empty-row"
			case rep > tcu:
				what = "count-too-high"
			case rep < tcu:
				what = "count-too-low"
			}
		}
	case strings.Contains(got, "wrong-length"):
		what = "wrong-number-of-rows"
	case strings.Contains(got, "wrong-counts"):
		what = "wrong-counts"
	case strings.Contains(got, "not-non-increasing"):
		what = "not-non-increasing"
	}
	// culprit: the last write on the minimal failing history that targets the misreported row (the
	// write after which the cached count of that row is wrong); without a row, the last write.
	badRow := int64(-1)
	if i := strings.Index(got, "wrong-count row"); i >= 0 {
		fmt.Sscanf(got[i:], "wrong-count row%d", &badRow)
	}
	touches := func(o vx.Op) bool {
		if badRow < 0 {
			return true
		}
		switch o.Name {
		case "Set", "Clear", "ClearRow":
			return o.Args[0] == badRow
		case "Store":
			return int64(c12Stores[o.Args[0]][1]) == badRow
		case "Import", "ImportClear", "Roaring", "RoaringClear", "RoaringOfficial", "RoaringOfficialClear":
			for _, b := range c12Payloads[o.Args[0]] {
				if int64(b.row) == badRow {
					return true
				}
			}
		}
		return false
	}
	culprit := "none"
	for _, o := range p {
		if o.Name != "TopN" && o.Name != "Recalculate" && touches(o) {
			culprit = o.Name
		}
	}
	kind := cf.cacheType
	if cf.mutex {
		kind = "mutex/" + kind
	}
	return fmt.Sprintf("%s %s %s last-write=%s", kind, clause, what, culprit)
}

func TestVerif_C12(t *testing.T) {
	c := vx.NewCheck("C12", "model_checking",
		"all operation sequences (Set, Clear, ClearRow, Store, bulk import set/clear, roaring import set/clear in both encodings, explicit recalculation, and TopN reads with/without n, ids, threshold, filter) on a real set field for cache ∈ {ranked,lru} x size ∈ {1,2,3,50000} and on a real mutex field (Set / Clear / ClearRow / bulk import only) for cache ∈ {ranked,lru} x size ∈ {2,50000}: exhaustive DFS to the stated depth, then state-merged BFS over (bits, rows touched, freshness, cache entries/rankings/threshold or LRU order, row cache, storage layout); distinct = distinct canonical end states")
	var nodesMu sync.Mutex
	var nodes []*c12Node
	pool := &sync.Pool{New: func() interface{} {
		n := c12NewNode()
		nodesMu.Lock()
		nodes = append(nodes, n)
		nodesMu.Unlock()
		return n
	}}
	defer func() {
		for _, n := range nodes {
			_ = n.api.Close()
			_ = n.srv.Close()
		}
	}()
	st := &c12Stats{}
	alpha := c12Alphabet(c.Thorough())
	c.Bound("alphabet", len(alpha))
	c.Bound("rows", c12Rows)
	c.Bound("columns", c12NCols)
	var cfgs []c12Cfg
	for _, sz := range []uint32{1, 2, 3, 50000} {
		for _, ct := range []string{CacheTypeRanked, CacheTypeLRU} {
			cfgs = append(cfgs, c12Cfg{ct, sz, false})
		}
	}
	// mutex fields: every set moves a column between two rows, so two counts change per write
	for _, sz := range []uint32{2, 50000} {
		for _, ct := range []string{CacheTypeRanked, CacheTypeLRU} {
			cfgs = append(cfgs, c12Cfg{ct, sz, true})
		}
	}
	for _, cf := range cfgs {
		cf := cf
		alpha := alpha
		core := c12CoreAlphabet()
		if cf.mutex {
			// roaring imports and Store write rows wholesale and do not enforce one-row-per-column
			keep := func(in []vx.Op) (out []vx.Op) {
				for _, o := range in {
					if !strings.HasPrefix(o.Name, "Roaring") && o.Name != "Store" {
						out = append(out, o)
					}
				}
				return out
			}
			alpha, core = keep(alpha), keep(core)
		}
		newInst := func() vx.Instance {
			n := pool.Get().(*c12Node)
			opt := OptFieldTypeSet(cf.cacheType, cf.size)
			if cf.mutex {
				opt = OptFieldTypeMutex(cf.cacheType, cf.size)
			}
			if _, err := n.idx.CreateField("f", opt); err != nil {
				panic(err)
			}
			return &c12Inst{cfg: cf, pool: pool, n: n, st: st, chk: c, start: time.Now(), bits: map[uint64]uint8{}, touched: map[uint64]bool{}}
		}
		key := func(p []vx.Op, g, w string) string { return c12Key(cf, p, g, w) }
		h := &vx.Harness{MultiProcess: true, Alphabet: alpha, New: newInst, Key: key}
		hCore := &vx.Harness{MultiProcess: true, Alphabet: core, New: newInst, Key: key}
		c.RunDFS(h, c.Pick(2, 3))
		c.ConfirmViolations(h)
		c.RunDFS(hCore, c.Pick(3, 4))
		c.ConfirmViolations(hCore)
		c.RunBFS(h, c.Pick(2, 6), c.Pick(5000, 4000))
		c.ConfirmViolations(h)
	}
	c.AddValidated(c.Evaluations)
	c.Assume("'rows fit in the cache' is read as: the number of rows that were ever the target of a write on the shard is <= cache size (so no row can have been evicted or refused); 'freshly recalculated' as: API.RecalculateCaches with no write since")
	c.Assume("4 rows x 3 columns of one shard; counts 0..3 with ties")
	if c.Finish() != 0 {
		t.Fail()
	}
}
