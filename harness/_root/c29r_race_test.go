package pilosa

// C29, auxiliary pass — data races. Data races cannot be DECIDED by the schedule explorer (plain
// memory accesses are not intercepted, and its cooperative hand-offs are happens-before edges that
// blind the detector). This pass runs the same operation bodies free-running under `go test -race`
// at several GOMAXPROCS settings: a report is a real race and fails the check; silence is NOT
// counted as exhaustive evidence. Built with the pinned toolchain and the real sync package.

import (
	"context"
	"fmt"
	"os"
	"runtime"
	"sync"
	"testing"

	"github.com/pilosa/pilosa/logger"
)

func c29rOps() []func(f *fragment) {
	c1, c2 := uint64(1), uint64(65536)
	return []func(f *fragment){
		func(f *fragment) { f.setBit(0, c1) },
		func(f *fragment) { f.clearBit(0, c1) },
		func(f *fragment) { f.setBit(1, c1) },
		func(f *fragment) { f.row(0).Columns() },
		func(f *fragment) { f.rows(0) },
		func(f *fragment) { f.bulkImport([]uint64{0, 0}, []uint64{c1, c2}, &ImportOptions{}) },
		func(f *fragment) { f.bulkImport([]uint64{0, 1}, []uint64{c1, c1}, &ImportOptions{Clear: true}) },
		func(f *fragment) {
			f.importRoaring(context.Background(), vxPilosaRoaring([]vxBit{{0, c2}, {2, c1}}), false)
		},
		func(f *fragment) { f.setRow(NewRow(c2), 0) },
		func(f *fragment) { f.clearRow(0) },
		func(f *fragment) { f.top(topOptions{N: 3}) },
		func(f *fragment) { f.Blocks() },
		func(f *fragment) { f.FlushCache() },
		func(f *fragment) { f.Snapshot() },
		func(f *fragment) { f.RecalculateCache() },
		func(f *fragment) { f.sum(nil, 4) },
		func(f *fragment) { f.minRow(nil); f.maxRow(nil) },
	}
}

func TestVerif_C29Race(t *testing.T) {
	if os.Getenv("VERIF_RACE_PASS") == "" {
		t.Skip("auxiliary race pass only")
	}
	ops := c29rOps()
	rounds := 0
	for _, procs := range []int{2, 4, 16} {
		old := runtime.GOMAXPROCS(procs)
		for _, queue := range []bool{false, true} {
			f := vxOpenFragment(vxKindSet, 0, 0, CacheTypeRanked, false)
			if queue {
				f.MaxOpN = 1
				f.snapshotQueue = newSnapshotQueue(1, 1, logger.NopLogger)
			}
			f.setBit(0, 1)
			f.setBit(1, 1)
			// every ordered pair of operations concurrently, repeated
			for a := range ops {
				for b := range ops {
					var wg sync.WaitGroup
					for _, k := range []int{a, b} {
						wg.Add(1)
						go func(k int) {
							defer wg.Done()
							for i := 0; i < 3; i++ {
								ops[k](f)
							}
						}(k)
					}
					wg.Wait()
					rounds++
				}
			}
			f.awaitSnapshot()
			vxDiscardFragment(f)
		}
		runtime.GOMAXPROCS(old)
	}
	fmt.Printf("INFO C29 race pass: %d concurrent rounds over %d operations completed\n", rounds, len(ops))
}
