package pilosa

// C18 — Time-range queries read exactly the views covering the range.
//
// Three exhaustive enumerations, all against the REAL code:
//  A1  every Y/M/D/H view name of a multi-year window (all 24 hours): viewByTimeUnit produces the
//      calendar name, timeOfView(name,false/true) gives back the interval start/end.
//  A2  all 10 quanta x every range [s,e) aligned to the quantum's finest unit with s in the window
//      and a bounded length: the views returned by viewsByTimeRange, mapped to calendar intervals by
//      an independent parser, are pairwise disjoint and their union is exactly [s,e), and use only
//      units of the quantum.
//  B   a real single-node Server/API with a time field per configuration (quantum x grid x
//      noStandardView); a bit at every unit of a grid; every aligned range over the grid's cut
//      points is queried with Row(f=r,from,to) and Rows(f,from,to) through API.Query and compared
//      with "timestamps in [s,e)". Fields with a standard view also hold bits WITHOUT a timestamp (a
//      column of row 1, a row of its own), which no range may return.
//
// The oracle is plain calendar arithmetic (time.Date on UTC).

import (
	"context"
	"fmt"
	"runtime/debug"
	"sort"
	"strconv"
	"strings"
	"sync"
	"sync/atomic"
	"testing"
	"time"

	"github.com/pilosa/pilosa/internal/vx"
)

var c18Quanta = []TimeQuantum{"Y", "YM", "YMD", "YMDH", "M", "MD", "MDH", "D", "DH", "H"}

// ---- calendar model -----------------------------------------------------------------------

func c18Start(t time.Time, unit byte) time.Time {
	switch unit {
	case 'Y':
		return time.Date(t.Year(), 1, 1, 0, 0, 0, 0, time.UTC)
	case 'M':
		return time.Date(t.Year(), t.Month(), 1, 0, 0, 0, 0, time.UTC)
	case 'D':
		return time.Date(t.Year(), t.Month(), t.Day(), 0, 0, 0, 0, time.UTC)
	}
	return time.Date(t.Year(), t.Month(), t.Day(), t.Hour(), 0, 0, 0, time.UTC)
}

// c18Step returns the start of the n-th unit after the unit starting at t (t must be unit aligned).
func c18Step(t time.Time, unit byte, n int) time.Time {
	switch unit {
	case 'Y':
		return time.Date(t.Year()+n, 1, 1, 0, 0, 0, 0, time.UTC)
	case 'M':
		return time.Date(t.Year(), t.Month()+time.Month(n), 1, 0, 0, 0, 0, time.UTC)
	case 'D':
		return time.Date(t.Year(), t.Month(), t.Day()+n, 0, 0, 0, 0, time.UTC)
	}
	return t.Add(time.Duration(n) * time.Hour)
}

func c18Name(t time.Time, unit byte) string {
	switch unit {
	case 'Y':
		return fmt.Sprintf("standard_%04d", t.Year())
	case 'M':
		return fmt.Sprintf("standard_%04d%02d", t.Year(), int(t.Month()))
	case 'D':
		return fmt.Sprintf("standard_%04d%02d%02d", t.Year(), int(t.Month()), t.Day())
	}
	return fmt.Sprintf("standard_%04d%02d%02d%02d", t.Year(), int(t.Month()), t.Day(), t.Hour())
}

// c18Parse maps a view name to (interval, unit) independently of the code under test.
func c18Parse(name string) (a, b time.Time, unit byte, ok bool) {
	const p = "standard_"
	if !strings.HasPrefix(name, p) {
		return
	}
	d := name[len(p):]
	for _, ch := range d {
		if ch < '0' || ch > '9' {
			return
		}
	}
	num := func(s string) int { n, _ := strconv.Atoi(s); return n }
	y, m, dd, h := 0, 1, 1, 0
	switch len(d) {
	case 4:
		unit = 'Y'
		y = num(d)
	case 6:
		unit = 'M'
		y, m = num(d[:4]), num(d[4:6])
	case 8:
		unit = 'D'
		y, m, dd = num(d[:4]), num(d[4:6]), num(d[6:8])
	case 10:
		unit = 'H'
		y, m, dd, h = num(d[:4]), num(d[4:6]), num(d[6:8]), num(d[8:10])
	default:
		return
	}
	a = time.Date(y, time.Month(m), dd, h, 0, 0, 0, time.UTC)
	if a.Year() != y || int(a.Month()) != m || a.Day() != dd || a.Hour() != h { // rejects month 13, day 32, hour 24 ...
		return
	}
	return a, c18Step(a, unit, 1), unit, true
}

func c18Finest(q TimeQuantum) byte { return q[len(q)-1] }

func c18TS(t time.Time) string { return t.Format("2006-01-02T15:04") }

// ---- A1: names <-> intervals ----------------------------------------------------------------

func c18RunNames(c *vx.Check, from, to time.Time) {
	for _, unit := range []byte{'Y', 'M', 'D', 'H'} {
		var ts []time.Time
		for t := c18Start(from, unit); t.Before(to); t = c18Step(t, unit, 1) {
			ts = append(ts, t)
		}
		unit := unit
		vx.ParallelFor(len(ts), func(i int) {
			t := ts[i]
			c.AddEval(1)
			want := c18Name(t, unit)
			got := viewByTimeUnit(viewStandard, t, rune(unit))
			if got != want {
				c.Violate(fmt.Sprintf("viewByTimeUnit unit=%c wrong-name", unit), "t="+c18TS(t), got, want)
				return
			}
			for _, adj := range []bool{false, true} {
				wt := t
				if adj {
					wt = c18Step(t, unit, 1)
				}
				gt, err := timeOfView(got, adj)
				switch {
				case err != nil:
					key := fmt.Sprintf("timeOfView unit=%c error", unit)
					if unit == 'H' && t.Hour() >= 13 {
						key = "timeOfView unit=H hour>=13 rejected"
					}
					c.Violate(key, fmt.Sprintf("timeOfView(%q,%v)", got, adj), "error: "+err.Error(), c18TS(wt))
				case !gt.Equal(wt):
					c.Violate(fmt.Sprintf("timeOfView unit=%c adj=%v wrong-time", unit, adj), fmt.Sprintf("timeOfView(%q,%v)", got, adj), gt.UTC().Format(time.RFC3339), wt.Format(time.RFC3339))
				default:
					c.Outcome(fmt.Sprintf("ok %c %v h=%d d=%d m=%d", unit, adj, t.Hour(), t.Day(), int(t.Month())))
				}
			}
			c.Distinct("name " + want)
		})
	}
}

// ---- A2: decomposition -----------------------------------------------------------------------

// c18CheckViews returns "" when views decompose [s,e) exactly; otherwise a discrepancy kind.
func c18CheckViews(q TimeQuantum, s, e time.Time, views []string) (kind string, shape string) {
	type iv struct {
		a, b time.Time
		u    byte
	}
	ivs := make([]iv, 0, len(views))
	var sb strings.Builder
	var lastU byte
	run := 0
	flush := func() {
		if run > 0 {
			sb.WriteByte(lastU)
			sb.WriteString(strconv.Itoa(run))
		}
	}
	for _, v := range views {
		a, b, u, ok := c18Parse(v)
		if !ok {
			return "unparsable-view", ""
		}
		if strings.IndexByte(string(q), u) < 0 {
			return "unit-not-in-quantum", ""
		}
		ivs = append(ivs, iv{a, b, u})
		if u != lastU {
			flush()
			lastU, run = u, 0
		}
		run++
	}
	flush()
	sorted := true
	for i := 0; i+1 < len(ivs); i++ {
		if ivs[i+1].a.Before(ivs[i].a) {
			sorted = false
			break
		}
	}
	if !sorted {
		sort.SliceStable(ivs, func(i, j int) bool { return ivs[i].a.Before(ivs[j].a) })
	}
	if !s.Before(e) {
		if len(ivs) != 0 {
			return "views-for-empty-range", ""
		}
		return "", "empty"
	}
	if len(ivs) == 0 {
		return "no-views", ""
	}
	if ivs[0].a.Before(s) {
		return "reads-before-start", ""
	}
	if ivs[0].a.After(s) {
		return "gap-at-start", ""
	}
	for i := 0; i+1 < len(ivs); i++ {
		if ivs[i].b.After(ivs[i+1].a) {
			return "overlap", ""
		}
		if ivs[i].b.Before(ivs[i+1].a) {
			return "gap", ""
		}
	}
	last := ivs[len(ivs)-1].b
	if last.After(e) {
		return "reads-past-end", ""
	}
	if last.Before(e) {
		return "gap-at-end", ""
	}
	return "", sb.String()
}

// c18Lengths: lengths (in finest units) enumerated for every start.
func c18Lengths(unit byte, thorough bool) []int {
	var ls []int
	add := func(lo, hi int) {
		for k := lo; k <= hi; k++ {
			ls = append(ls, k)
		}
	}
	switch unit {
	case 'H':
		add(0, 48) // every start hour x every end hour across one and two day boundaries
		if thorough {
			add(49, 24*8)
		}
		// long straddles: whole months / leap february / a year, +-1h
		for _, d := range []int{27, 28, 29, 30, 31, 32, 59, 60, 61, 62, 365, 366, 367, 425} {
			for _, h := range []int{-1, 0, 1, 23} {
				ls = append(ls, 24*d+h)
			}
		}
	case 'D':
		add(0, 200) // every straddle up to 6.5 months
		if thorough {
			add(201, 800)
		} else {
			ls = append(ls, 364, 365, 366, 367, 396, 397, 425, 426, 427, 428, 429, 430) // year / 13 / 14 month straddles
		}
	case 'M':
		add(0, 72)
	case 'Y':
		add(0, 12)
	}
	return ls
}

var c18Seen sync.Map // decomposition shapes already counted (keeps the hot loop off the Check mutex)

func c18RunRanges(c *vx.Check, from, to time.Time, fullHours bool) {
	type job struct {
		q TimeQuantum
		s time.Time
	}
	var jobs []job
	for _, q := range c18Quanta {
		u := c18Finest(q)
		f, t := from, to
		if u == 'H' && !fullHours && to.Sub(from) > 430*24*time.Hour {
			// hour-aligned starts are limited to 14 months of the window (year end, leap February and
			// every month length are inside); thorough uses the whole of the first window.
			f = time.Date(from.Year(), 12, 1, 0, 0, 0, 0, time.UTC)
			t = time.Date(from.Year()+2, 2, 1, 0, 0, 0, 0, time.UTC)
			c.Bound("hour_starts_window_"+strconv.Itoa(from.Year()), c18TS(f)+".."+c18TS(t))
		}
		for s := c18Start(f, u); s.Before(t); s = c18Step(s, u, 1) {
			jobs = append(jobs, job{q, s})
		}
	}
	var sampled int64
	vx.ParallelFor(len(jobs), func(i int) {
		if c.Expired() {
			return
		}
		q, s := jobs[i].q, jobs[i].s
		u := c18Finest(q)
		ls := c18Lengths(u, c.Thorough())
		for _, k := range ls {
			if k > 200 && u == 'H' && s.Hour() != 0 && s.Hour() != 1 && s.Hour() != 23 {
				continue // long straddles only from the hours next to a day boundary
			}
			e := c18Step(s, u, k)
			var views []string
			pan := vx.Guard(func() { views = viewsByTimeRange(viewStandard, s, e, q) })
			c.AddEval(1)
			if pan != "" {
				c.Violate(fmt.Sprintf("viewsByTimeRange q=%s panic", q), fmt.Sprintf("q=%s [%s,%s)", q, c18TS(s), c18TS(e)), pan, "no panic")
				continue
			}
			kind, shape := c18CheckViews(q, s, e, views)
			if kind != "" {
				c.Violate(fmt.Sprintf("viewsByTimeRange q=%s %s", q, kind), fmt.Sprintf("q=%s [%s,%s)", q, c18TS(s), c18TS(e)), strings.Join(views, ","), "disjoint views covering exactly the range")
				continue
			}
			key := string(q) + " " + shape
			if _, ok := c18Seen.Load(key); !ok {
				if _, loaded := c18Seen.LoadOrStore(key, true); !loaded {
					c.Distinct(key)
					c.Outcome(shape)
				}
			}
			if atomic.AddInt64(&sampled, 1)%200000 == 1 {
				c.Sample(fmt.Sprintf("q=%s [%s,%s) -> %s", q, c18TS(s), c18TS(e), shape))
			}
		}
	})
}

// ---- B: query level ----------------------------------------------------------------------------

type c18Ser struct{}

func (c18Ser) Marshal(Message) ([]byte, error)  { return []byte{}, nil }
func (c18Ser) Unmarshal([]byte, Message) error { return nil }

type c18Node struct {
	srv *Server
	api *API
}

func c18NewNode() (*c18Node, error) {
	dir := vx.Scratch()
	srv, err := NewServer(OptServerDataDir(dir), OptServerIsCoordinator(true), OptServerNodeID("n0"),
		OptServerSerializer(c18Ser{}), OptServerAntiEntropyInterval(0), OptServerMetricInterval(0), OptServerDiagnosticsInterval(0))
	if err != nil {
		return nil, err
	}
	if err := srv.Open(); err != nil {
		return nil, err
	}
	api, err := NewAPI(OptAPIServer(srv))
	if err != nil {
		return nil, err
	}
	return &c18Node{srv: srv, api: api}, nil
}

func (n *c18Node) close() {
	n.api.Close()
	n.srv.Close()
}

type c18Bit struct {
	row, col uint64
	t        time.Time
}

type c18Config struct {
	q     TimeQuantum
	nsv   bool // noStandardView
	grid  string
	bits  []c18Bit
	cuts  []time.Time
	label string
}

// dense grid: a bit at every finest unit of [g0, g0+n units); cuts = every unit from g0-2 to g0+n+2.
func c18Dense(q TimeQuantum, g0 time.Time, n int, name string) (bits []c18Bit, cuts []time.Time) {
	u := c18Finest(q)
	for i := 0; i < n; i++ {
		t := c18Step(g0, u, i)
		bits = append(bits, c18Bit{1, uint64(i), t}, c18Bit{100 + uint64(i), uint64(i), t})
	}
	for i := -2; i <= n+2; i++ {
		cuts = append(cuts, c18Step(g0, u, i))
	}
	return
}

// sparse grid: bits in the finest units around calendar boundaries far apart, so coarse views
// (months, years) are read at query level even for quanta whose finest unit is small.
func c18Sparse(q TimeQuantum) (bits []c18Bit, cuts []time.Time) {
	u := c18Finest(q)
	bounds := []time.Time{
		time.Date(2019, 1, 1, 0, 0, 0, 0, time.UTC),
		time.Date(2019, 12, 1, 0, 0, 0, 0, time.UTC),
		time.Date(2020, 1, 1, 0, 0, 0, 0, time.UTC),
		time.Date(2020, 2, 1, 0, 0, 0, 0, time.UTC),
		time.Date(2020, 2, 29, 0, 0, 0, 0, time.UTC),
		time.Date(2020, 3, 1, 0, 0, 0, 0, time.UTC),
		time.Date(2021, 1, 1, 0, 0, 0, 0, time.UTC),
		time.Date(2021, 3, 1, 0, 0, 0, 0, time.UTC),
		time.Date(2022, 1, 1, 0, 0, 0, 0, time.UTC),
	}
	seen := map[int64]bool{}
	i := uint64(0)
	for _, b := range bounds {
		b = c18Start(b, u)
		for d := -2; d <= 2; d++ {
			t := c18Step(b, u, d)
			if seen[t.Unix()] {
				continue
			}
			seen[t.Unix()] = true
			cuts = append(cuts, t)
			if d >= -1 && d <= 0 {
				bits = append(bits, c18Bit{1, i, t}, c18Bit{100 + i, i, t})
				i++
			}
		}
	}
	sort.Slice(cuts, func(a, b int) bool { return cuts[a].Before(cuts[b]) })
	return
}

func c18Configs(thorough bool) []c18Config {
	var out []c18Config
	for _, q := range c18Quanta {
		u := c18Finest(q)
		type g struct {
			name string
			bits []c18Bit
			cuts []time.Time
		}
		var gs []g
		switch u {
		case 'H':
			n := 72
			if thorough {
				n = 120
			}
			b, ct := c18Dense(q, time.Date(2019, 12, 30, 0, 0, 0, 0, time.UTC), n, "")
			gs = append(gs, g{"dense-3d-yearend", b, ct})
			// same grid cut so that the first and last bit sit at hours <= 12
			if q == "H" || thorough {
				b2, ct2 := c18Dense(q, time.Date(2020, 2, 28, 3, 0, 0, 0, time.UTC), 24+24+10, "")
				gs = append(gs, g{"dense-leapday-03h..12h", b2, ct2})
			}
		case 'D':
			n := 91
			if thorough {
				n = 152
			}
			b, ct := c18Dense(q, time.Date(2019, 12, 1, 0, 0, 0, 0, time.UTC), n, "")
			gs = append(gs, g{"dense-3m-yearend-leap", b, ct})
		case 'M':
			b, ct := c18Dense(q, time.Date(2019, 1, 1, 0, 0, 0, 0, time.UTC), 36, "")
			gs = append(gs, g{"dense-36m", b, ct})
			b2, ct2 := c18Dense(q, time.Date(2019, 11, 1, 0, 0, 0, 0, time.UTC), 5, "")
			gs = append(gs, g{"dense-5m-from-nov", b2, ct2})
		case 'Y':
			b, ct := c18Dense(q, time.Date(2017, 1, 1, 0, 0, 0, 0, time.UTC), 6, "")
			gs = append(gs, g{"dense-6y", b, ct})
		}
		if len(q) >= 2 {
			b, ct := c18Sparse(q)
			gs = append(gs, g{"sparse-boundaries", b, ct})
		}
		for _, gg := range gs {
			for _, nsv := range []bool{false, true} {
				out = append(out, c18Config{q: q, nsv: nsv, grid: gg.name, bits: gg.bits, cuts: gg.cuts,
					label: fmt.Sprintf("q=%s grid=%s noStandardView=%v", q, gg.name, nsv)})
			}
		}
	}
	return out
}

func c18U64s(a []uint64) string { return vx.SortedU64(a) }

// c18ClassifyErr turns a query error into a finding key (root cause, not message text).
func c18ClassifyErr(call string, cfg c18Config, err error) string {
	msg := err.Error()
	if i := strings.Index(msg, "time from view: "); i >= 0 {
		rest := msg[i+len("time from view: "):]
		v := rest
		if j := strings.IndexAny(rest, ": "); j >= 0 {
			v = rest[:j]
		}
		if v == viewStandard {
			return call + " error: minMaxViews returns the view 'standard' as min/max (8 characters = day layout; quantum without Y and M)"
		}
		if _, _, u, ok := c18Parse(v); ok && u == 'H' {
			h, _ := strconv.Atoi(v[len(v)-2:])
			if h >= 13 {
				return call + " error: timeOfView rejects min/max hour view with hour>=13"
			}
		}
		return call + " error: min/max view unparsable q=" + string(cfg.q)
	}
	return call + " error q=" + string(cfg.q)
}

func c18RunQueries(c *vx.Check) {
	cfgs := c18Configs(c.Thorough())
	c.Bound("query_configs", len(cfgs))
	var nq int64
	vx.ParallelFor(len(cfgs), func(ci int) {
		cfg := cfgs[ci]
		node, err := c18NewNode()
		if err != nil {
			c.Violate("harness: cannot start node", cfg.label, err.Error(), "node")
			return
		}
		defer node.close()
		ctx := context.Background()
		if _, err := node.api.CreateIndex(ctx, "i", IndexOptions{}); err != nil {
			c.Violate("harness: create index", cfg.label, err.Error(), "ok")
			return
		}
		if _, err := node.api.CreateField(ctx, "i", "f", OptFieldTypeTime(cfg.q, cfg.nsv)); err != nil {
			c.Violate("harness: create field", cfg.label, err.Error(), "ok")
			return
		}
		var sb strings.Builder
		for _, b := range cfg.bits {
			fmt.Fprintf(&sb, "Set(%d, f=%d, %s)\n", b.col, b.row, c18TS(b.t))
		}
		// ONE column of row 1 set at several timestamps (every 4th bit of the grid): the same bit then
		// lives in views that share their coarser units, and must be found through each of them
		{
			var multi []c18Bit
			for k := 0; k < len(cfg.bits); k += 8 {
				if cfg.bits[k].row == 1 {
					multi = append(multi, c18Bit{1, 888888, cfg.bits[k].t})
				}
			}
			for _, b := range multi {
				fmt.Fprintf(&sb, "Set(%d, f=%d, %s)\n", b.col, b.row, c18TS(b.t))
			}
			cfg.bits = append(append([]c18Bit(nil), cfg.bits...), multi...)
		}
		if !cfg.nsv {
			// bits WITHOUT a timestamp live in the standard view only: a column of row 1 and a row of its
			// own (7). No time range may ever return them, however much of the data it spans.
			sb.WriteString("Set(999998, f=1)\nSet(999999, f=7)\n")
		}
		if _, err := node.api.Query(ctx, &QueryRequest{Index: "i", Query: sb.String()}); err != nil {
			c.Violate("Set with timestamp error q="+string(cfg.q), cfg.label, err.Error(), "ok")
			return
		}
		// exec runs a batch of calls in ONE request (the PQL parser costs ~200us per request); if the
		// batch fails, the calls are re-run one by one so the failing call is identified.
		exec := func(qs []string) (res []interface{}, errAt int, err error) {
			atomic.AddInt64(&nq, int64(len(qs)))
			resp, err := node.api.Query(ctx, &QueryRequest{Index: "i", Query: strings.Join(qs, "\n")})
			if err == nil && len(resp.Results) == len(qs) {
				return resp.Results, -1, nil
			}
			for k, q := range qs {
				r, err := node.api.Query(ctx, &QueryRequest{Index: "i", Query: q})
				if err != nil {
					return res, k, err
				}
				res = append(res, r.Results[0])
			}
			return res, -1, nil
		}
		rowErrSeen, rowsErrSeen := false, false
		for si := 0; si < len(cfg.cuts); si++ {
			if c.Expired() {
				return
			}
			s := cfg.cuts[si]
			var rowQ, rowsQ, cases []string
			var wantC, wantR [][]uint64
			for ei := si + 1; ei < len(cfg.cuts); ei++ {
				e := cfg.cuts[ei]
				var wantCols, wantRows []uint64
				rs := map[uint64]bool{}
				cs := map[uint64]bool{}
				for _, b := range cfg.bits {
					if !b.t.Before(s) && b.t.Before(e) {
						if b.row == 1 && !cs[b.col] {
							cs[b.col] = true
							wantCols = append(wantCols, b.col)
						}
						if !rs[b.row] {
							rs[b.row] = true
							wantRows = append(wantRows, b.row)
						}
					}
				}
				wantC, wantR = append(wantC, wantCols), append(wantR, wantRows)
				cases = append(cases, fmt.Sprintf("%s [%s,%s)", cfg.label, c18TS(s), c18TS(e)))
				rowQ = append(rowQ, fmt.Sprintf("Row(f=1, from=%s, to=%s)", c18TS(s), c18TS(e)))
				rowsQ = append(rowsQ, fmt.Sprintf("Rows(f, from=%s, to=%s)", c18TS(s), c18TS(e)))
			}
			if len(rowQ) == 0 {
				continue
			}
			if !rowErrSeen {
				res, errAt, err := exec(rowQ)
				if err != nil {
					c.Violate(c18ClassifyErr("Row", cfg, err), cases[errAt]+" "+rowQ[errAt], "error: "+err.Error(), c18U64s(wantC[errAt]))
					rowErrSeen = true
				}
				for k, r := range res {
					got := c18U64s(r.(*Row).Columns())
					if want := c18U64s(wantC[k]); got != want {
						kind := "extra-columns"
						if len(got) < len(want) {
							kind = "missing-columns"
						}
						c.Violate(fmt.Sprintf("Row from/to %s q=%s", kind, cfg.q), cases[k]+" "+rowQ[k], got, want)
					} else {
						c.Outcome("row " + got)
						if len(wantC[k]) > 0 {
							c.Distinct(fmt.Sprintf("Row %s %s %d %d", cfg.q, cfg.grid, si, k))
						}
					}
				}
			}
			if !rowsErrSeen {
				res, errAt, err := exec(rowsQ)
				if err != nil {
					// every Rows(from,to) of this configuration fails the same way: report once
					c.Violate(c18ClassifyErr("Rows", cfg, err), cases[errAt]+" "+rowsQ[errAt], "error: "+err.Error(), c18U64s(wantR[errAt]))
					rowsErrSeen = true
				}
				for k, r := range res {
					got := c18U64s(r.(RowIdentifiers).Rows)
					if want := c18U64s(wantR[k]); got != want {
						kind := "extra-rows"
						if len(got) < len(want) {
							kind = "missing-rows"
						}
						c.Violate(fmt.Sprintf("Rows from/to %s q=%s", kind, cfg.q), cases[k]+" "+rowsQ[k], got, want)
					} else {
						c.Outcome("rows " + got)
						if len(wantR[k]) > 0 {
							c.Distinct(fmt.Sprintf("Rows %s %s %d %d", cfg.q, cfg.grid, si, k))
						}
					}
				}
			}
		}
	})
	c.AddEval(nq)
	c.Extra("queries", nq)
}

func TestVerif_C18(t *testing.T) {
	c := vx.NewCheck("C18", "exploration",
		"(A1) every Y/M/D/H view name in the window maps to its calendar interval and back; (A2) for all 10 quanta and every finest-unit-aligned range [s,e) with s in the window and e-s in the length set, the views of viewsByTimeRange are disjoint and cover exactly [s,e) (independent name parser + calendar arithmetic); (B) Row/Rows(from,to) through API.Query on a real node return exactly the columns/rows with a timestamp in the range, for every pair of cut points of each grid; distinct = distinct decomposition shapes per quantum + distinct non-empty query ranges")
	type win struct{ from, to time.Time }
	wins := []win{{time.Date(2019, 1, 1, 0, 0, 0, 0, time.UTC), time.Date(2022, 1, 1, 0, 0, 0, 0, time.UTC)}}
	if c.Thorough() {
		wins = append(wins,
			win{time.Date(2099, 1, 1, 0, 0, 0, 0, time.UTC), time.Date(2102, 1, 1, 0, 0, 0, 0, time.UTC)}, // 2100 is not a leap year
			win{time.Date(1999, 1, 1, 0, 0, 0, 0, time.UTC), time.Date(2002, 1, 1, 0, 0, 0, 0, time.UTC)}) // 2000 is
	}
	var ws []string
	t0 := time.Now()
	defer debug.SetGCPercent(debug.SetGCPercent(800)) // allocation-heavy code under test, tiny live heap
	c18RunQueries(c)
	fmt.Printf("INFO C18 queries done after %.1fs\n", time.Since(t0).Seconds())
	for wi, w := range wins {
		ws = append(ws, c18TS(w.from)+".."+c18TS(w.to))
		c18RunNames(c, w.from, w.to)
		fmt.Printf("INFO C18 names %s done after %.1fs\n", ws[len(ws)-1], time.Since(t0).Seconds())
		c18RunRanges(c, w.from, w.to, c.Thorough() && wi == 0)
		fmt.Printf("INFO C18 ranges %s done after %.1fs\n", ws[len(ws)-1], time.Since(t0).Seconds())
	}
	c.Bound("windows", ws)
	c.Bound("lengths_H", len(c18Lengths('H', c.Thorough())))
	c.Bound("lengths_D", len(c18Lengths('D', c.Thorough())))
	c.Bound("lengths_M", len(c18Lengths('M', c.Thorough())))
	c.Bound("lengths_Y", len(c18Lengths('Y', c.Thorough())))
	c.AddValidated(c.Evaluations)
	c.Assume("UTC timestamps; ranges aligned to the finest unit of the quantum; query level uses both from and to (a missing 'to' makes Row() depend on the wall clock)")
	if c.Finish() != 0 {
		t.Fail()
	}
}
