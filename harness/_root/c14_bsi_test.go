package pilosa

// C14 — Integer fields store values exactly and range queries match exactly.
//
// Real system: one in-process node (NewServer + Open + NewAPI; executor worker pool of one), file
// backed holder on tmpfs. Writes go through PQL Set and API.ImportValue, reads through API.Query
// (Row(v op p), Sum/Min/Max) and through the field's Go API (Field.Value/Sum/Min/Max).
//
// Enumerated, per bit depth d: a lattice of (min,max) bounds x {fresh field (base 0, bit depth grows
// with the data), field re-loaded before its first write (base=min, full bit depth)} x a family of
// datasets (all values of the range at once / negatives only / positives only / single extremes),
// one column per value spread over two shards with duplicates for ties, plus null columns; then
// EVERY comparison x EVERY predicate of a window reaching beyond bounds and bit-depth range, every
// between pair of a narrower window, != null, Sum/Min/Max unfiltered, filtered by set-field rows and
// by range rows. Depth-2 write histories: every (v1 -> v2) overwrite and (v1 -> clear) on its own
// column, (a) all columns at once with a full read battery between and after (small and bulk import
// path, with and without the read in between), (b) one column at a time, each single write framed by
// reads (so that set-only / clear-only bit changes meet warm row caches). A deterministic boundary
// set covers depths up to 63. Oracle: integer comparison / arithmetic on the model column -> value.
// Mismatches are classified by replaying known decision paths (implRange, sumDefect): a known root
// cause is only named when the answer is exactly what that defect produces.

import (
	"context"
	"errors"
	"fmt"
	"math"
	"math/big"
	"sort"
	"strings"
	"sync"
	"testing"

	"github.com/pilosa/pilosa/internal/vx"
)

const c14SW = uint64(ShardWidth)

type c14Ser struct{}

func (c14Ser) Marshal(Message) ([]byte, error) { return []byte{0}, nil }
func (c14Ser) Unmarshal([]byte, Message) error { return errors.New("c14: unexpected Unmarshal") }

type c14Env struct {
	srv *Server
	api *API
	seq int
}

var (
	c14PoolMu sync.Mutex
	c14Pool   []*c14Env
	c14All    []*c14Env
)

func c14GetEnv() *c14Env {
	c14PoolMu.Lock()
	if n := len(c14Pool); n > 0 {
		e := c14Pool[n-1]
		c14Pool = c14Pool[:n-1]
		c14PoolMu.Unlock()
		return e
	}
	c14PoolMu.Unlock()
	s, err := NewServer(OptServerDataDir(vx.Scratch()), OptServerIsCoordinator(true), OptServerExecutorPoolSize(1),
		OptServerNodeID("n0"), OptServerSerializer(c14Ser{}))
	if err != nil {
		panic(fmt.Sprintf("c14: NewServer: %v", err))
	}
	if err := s.Open(); err != nil {
		panic(fmt.Sprintf("c14: Server.Open: %v", err))
	}
	api, err := NewAPI(OptAPIServer(s))
	if err != nil {
		panic(fmt.Sprintf("c14: NewAPI: %v", err))
	}
	e := &c14Env{srv: s, api: api}
	c14PoolMu.Lock()
	c14All = append(c14All, e)
	c14PoolMu.Unlock()
	return e
}

func c14PutEnv(e *c14Env) {
	c14PoolMu.Lock()
	c14Pool = append(c14Pool, e)
	c14PoolMu.Unlock()
}

func c14CloseAll() {
	c14PoolMu.Lock()
	defer c14PoolMu.Unlock()
	for _, e := range c14All {
		e.api.Close()
		e.srv.Close()
	}
	c14All, c14Pool = nil, nil
}

func (e *c14Env) query(index, q string) ([]interface{}, error) {
	r, err := e.api.Query(context.Background(), &QueryRequest{Index: index, Query: q})
	return r.Results, err
}

// ---------------------------------------------------------------------------------------------
// configuration

type c14Cfg struct {
	d        uint // nominal bit depth of the data
	min, max int64
	preset   bool // base=min, bitDepth=depth(max-min): the state Field.loadMeta gives a field that was
	// created and re-opened before its first write
}

func (cf c14Cfg) String() string {
	mode := "fresh"
	if cf.preset {
		mode = "reloaded"
	}
	return fmt.Sprintf("d=%d bounds=[%d,%d] %s", cf.d, cf.min, cf.max, mode)
}

func c14Depth(v uint64) uint {
	for i := uint(0); i < 63; i++ {
		if v < (1 << i) {
			return i
		}
	}
	return 63
}

func (e *c14Env) newIndex(cf c14Cfg) string {
	e.seq++
	name := fmt.Sprintf("i%d", e.seq)
	ctx := context.Background()
	if _, err := e.api.CreateIndex(ctx, name, IndexOptions{TrackExistence: true}); err != nil {
		panic(fmt.Sprintf("c14: CreateIndex: %v", err))
	}
	opt := OptFieldTypeInt(cf.min, cf.max)
	if cf.preset {
		inner := opt
		opt = func(fo *FieldOptions) error {
			if err := inner(fo); err != nil {
				return err
			}
			fo.Base = cf.min
			fo.BitDepth = c14Depth(uint64(cf.max - cf.min))
			if fo.BitDepth == 0 {
				fo.BitDepth = 1
			}
			return nil
		}
	}
	if _, err := e.api.CreateField(ctx, name, "v", opt); err != nil {
		panic(fmt.Sprintf("c14: CreateField v %v: %v", cf, err))
	}
	if _, err := e.api.CreateField(ctx, name, "s", OptFieldTypeSet(CacheTypeNone, 0)); err != nil {
		panic(fmt.Sprintf("c14: CreateField s: %v", err))
	}
	return name
}

func (e *c14Env) dropIndex(name string) {
	if err := e.api.DeleteIndex(context.Background(), name); err != nil {
		panic(fmt.Sprintf("c14: DeleteIndex: %v", err))
	}
}

// ---------------------------------------------------------------------------------------------
// model + oracle

type c14Model struct {
	vals  map[uint64]int64    // column -> value
	srows map[int][]uint64    // set field s: row -> columns (filters)
	all   map[uint64]struct{} // every column ever written (for Field.Value probes)
}

func c14NewModel() *c14Model {
	return &c14Model{vals: map[uint64]int64{}, srows: map[int][]uint64{}, all: map[uint64]struct{}{}}
}

func (m *c14Model) cols(pred func(v int64) bool, filter map[uint64]struct{}) []uint64 {
	var out []uint64
	for c, v := range m.vals {
		if filter != nil {
			if _, ok := filter[c]; !ok {
				continue
			}
		}
		if pred(v) {
			out = append(out, c)
		}
	}
	sort.Slice(out, func(i, j int) bool { return out[i] < out[j] })
	if out == nil {
		out = []uint64{}
	}
	return out
}

func c14ColSet(cols []uint64) map[uint64]struct{} {
	s := map[uint64]struct{}{}
	for _, c := range cols {
		s[c] = struct{}{}
	}
	return s
}

// agg returns the exact sum/min/max and counts over the columns in filter (nil = all).
// sumOK is false when the exact sum does not fit an int64.
func (m *c14Model) agg(filter map[uint64]struct{}) (sum int64, sumOK bool, n int64, min, nmin, max, nmax int64) {
	bs := new(big.Int)
	first := true
	for c, v := range m.vals {
		if filter != nil {
			if _, ok := filter[c]; !ok {
				continue
			}
		}
		n++
		bs.Add(bs, big.NewInt(v))
		if first || v < min {
			min, nmin = v, 1
		} else if v == min {
			nmin++
		}
		if first || v > max {
			max, nmax = v, 1
		} else if v == max {
			nmax++
		}
		first = false
	}
	if bs.IsInt64() {
		return bs.Int64(), true, n, min, nmin, max, nmax
	}
	return 0, false, n, min, nmin, max, nmax
}

// ---------------------------------------------------------------------------------------------
// a query of the battery: PQL text + oracle

type c14Q struct {
	pql  string
	want string
	kind string // classification of the query for finding keys
	// details used by the classifier
	op     string
	a, b   int64
	filter string
	fcols  []uint64 // columns of the filter row (filtered aggregates)
}

func c14Cols(cols []uint64) string { return fmt.Sprint(cols) }

func c14Got(v interface{}) string {
	switch r := v.(type) {
	case *Row:
		cols := r.Columns()
		if cols == nil {
			cols = []uint64{}
		}
		return fmt.Sprint(cols)
	case ValCount:
		return fmt.Sprintf("val=%d n=%d", r.Val, r.Count)
	case bool:
		return fmt.Sprint(r)
	case nil:
		return "nil"
	}
	return fmt.Sprintf("%T:%v", v, v)
}

var c14Ops = []struct {
	tok string
	fn  func(v, p int64) bool
}{
	{"==", func(v, p int64) bool { return v == p }},
	{"!=", func(v, p int64) bool { return v != p }},
	{"<", func(v, p int64) bool { return v < p }},
	{"<=", func(v, p int64) bool { return v <= p }},
	{">", func(v, p int64) bool { return v > p }},
	{">=", func(v, p int64) bool { return v >= p }},
}

type c14Filter struct {
	name string
	pql  string // "" = none
	cols []uint64
	none bool
}

// c14Battery builds every read of the battery with its expected answer.
func c14Battery(m *c14Model, window, narrow []int64, filters []c14Filter, betweenAlt bool) []c14Q {
	var qs []c14Q
	for _, p := range window {
		p := p
		for _, op := range c14Ops {
			op := op
			qs = append(qs, c14Q{pql: fmt.Sprintf("Row(v %s %d)", op.tok, p), kind: "range", op: op.tok, a: p,
				want: c14Cols(m.cols(func(v int64) bool { return op.fn(v, p) }, nil))})
		}
	}
	qs = append(qs, c14Q{pql: "Row(v != null)", kind: "range", op: "!=null", want: c14Cols(m.cols(func(int64) bool { return true }, nil))})
	for i, a := range narrow {
		for j, b := range narrow {
			a, b := a, b
			q := fmt.Sprintf("Row(%d <= v <= %d)", a, b)
			if betweenAlt && (i+j)%2 == 1 {
				q = fmt.Sprintf("Row(v >< [%d,%d])", a, b)
			}
			qs = append(qs, c14Q{pql: q, kind: "range", op: "between", a: a, b: b,
				want: c14Cols(m.cols(func(v int64) bool { return a <= v && v <= b }, nil))})
		}
	}
	// strict/mixed chained forms on a diagonal band (parser + executor together)
	for _, a := range narrow {
		a := a
		b := a + 2
		if b < a || a == math.MinInt64 {
			continue
		}
		qs = append(qs, c14Q{pql: fmt.Sprintf("Row(%d < v < %d)", a, b), kind: "range", op: "between", a: a + 1, b: b - 1,
			want: c14Cols(m.cols(func(v int64) bool { return a < v && v < b }, nil))})
		qs = append(qs, c14Q{pql: fmt.Sprintf("Row(%d < v <= %d)", a, b), kind: "range", op: "between", a: a + 1, b: b,
			want: c14Cols(m.cols(func(v int64) bool { return a < v && v <= b }, nil))})
	}
	// aggregates
	addAgg := func(f c14Filter) {
		var fs map[uint64]struct{}
		if !f.none {
			fs = c14ColSet(f.cols)
		}
		sum, sumOK, n, min, nmin, max, nmax := m.agg(fs)
		arg := "field=v"
		if f.pql != "" {
			arg = f.pql + ", field=v"
		}
		if n == 0 {
			for _, fn := range []string{"Sum", "Min", "Max"} {
				qs = append(qs, c14Q{pql: fn + "(" + arg + ")", kind: strings.ToLower(fn), filter: f.name, fcols: f.cols, want: "val=0 n=0"})
			}
			return
		}
		if sumOK {
			qs = append(qs, c14Q{pql: "Sum(" + arg + ")", kind: "sum", filter: f.name, fcols: f.cols, want: fmt.Sprintf("val=%d n=%d", sum, n)})
		}
		qs = append(qs, c14Q{pql: "Min(" + arg + ")", kind: "min", filter: f.name, fcols: f.cols, want: fmt.Sprintf("val=%d n=%d", min, nmin)})
		qs = append(qs, c14Q{pql: "Max(" + arg + ")", kind: "max", filter: f.name, fcols: f.cols, want: fmt.Sprintf("val=%d n=%d", max, nmax)})
	}
	for _, f := range filters {
		addAgg(f)
	}
	// range rows as filters: every threshold of the narrow window
	for _, p := range narrow {
		p := p
		addAgg(c14Filter{name: "Row(v>=p)", pql: fmt.Sprintf("Row(v >= %d)", p), cols: m.cols(func(v int64) bool { return v >= p }, nil)})
		addAgg(c14Filter{name: "Row(v<p)", pql: fmt.Sprintf("Row(v < %d)", p), cols: m.cols(func(v int64) bool { return v < p }, nil)})
	}
	return qs
}

// c14RunBattery runs the battery and returns the observations.
func c14RunBattery(e *c14Env, index string, qs []c14Q) []string {
	out := make([]string, len(qs))
	const batch = 160
	for lo := 0; lo < len(qs); lo += batch {
		hi := lo + batch
		if hi > len(qs) {
			hi = len(qs)
		}
		var sb strings.Builder
		for _, q := range qs[lo:hi] {
			sb.WriteString(q.pql)
			sb.WriteByte('\n')
		}
		res, err := e.query(index, sb.String())
		if err == nil && len(res) == hi-lo {
			for i := range res {
				out[lo+i] = c14Got(res[i])
			}
			continue
		}
		for i, q := range qs[lo:hi] {
			r, err := e.query(index, q.pql)
			if err != nil || len(r) != 1 {
				out[lo+i] = fmt.Sprintf("ERR %v", err)
				continue
			}
			out[lo+i] = c14Got(r[0])
		}
	}
	return out
}

// ---------------------------------------------------------------------------------------------
// classification of mismatches into finding keys

type c14Ctx struct {
	cf           c14Cfg
	base         int64
	depth        uint
	bdMin, bdMax int64
	m            *c14Model
	shards       map[uint64]bool // shards holding values
}

func c14MakeCtx(e *c14Env, index string, cf c14Cfg, m *c14Model) *c14Ctx {
	cx := &c14Ctx{cf: cf, m: m, shards: map[uint64]bool{}}
	if f := e.srv.holder.Field(index, "v"); f != nil {
		if b := f.bsiGroup("v"); b != nil {
			cx.base, cx.depth = b.Base, b.BitDepth
			if b.BitDepth < 63 {
				cx.bdMin, cx.bdMax = b.Base-(1<<b.BitDepth)+1, b.Base+(1<<b.BitDepth)-1
			} else {
				cx.bdMin, cx.bdMax = -math.MaxInt64, math.MaxInt64
			}
		}
	}
	for c := range m.vals {
		cx.shards[c/c14SW] = true
	}
	return cx
}

func (cx *c14Ctx) predClass(p int64) string {
	switch {
	case p < cx.cf.min:
		return "below-field-min"
	case p > cx.cf.max:
		return "above-field-max"
	case p < cx.bdMin:
		return "below-bitdepth-range"
	case p > cx.bdMax:
		return "above-bitdepth-range"
	case p == cx.bdMin:
		return "at-bitdepth-min"
	case p == cx.bdMax:
		return "at-bitdepth-max"
	case p-cx.base == -1:
		return "base-1"
	case p-cx.base == 0:
		return "base+0"
	case p-cx.base == 1:
		return "base+1"
	case p-cx.base < 0:
		return "negative-base-value"
	}
	return "positive-base-value"
}

// Finding keys of the root causes the classifier can recognise from the query and the field state.
const (
	c14KBetweenInverted = "Row between with lo > hi returns columns instead of the empty set"
	c14KStrictMinus1    = "Row(v < p) / Row(v > p) with base predicate -1: strict comparison takes the non-negative branch (fragment.rangeLT/rangeGT test predicate >= -1)"
	c14KLTZero          = "Row(v < p) with base predicate 0 returns the zero-valued columns (rangeLTUnsigned: leading-zero loop skips the strict last-bit step)"
	c14KLTAboveDepth    = "Row(v < p) with bitDepthMax < p <= field max: clamped to a strict bitDepthMax, columns holding bitDepthMax are dropped (bsiGroup.baseValue)"
	c14KGTBelowDepth    = "Row(v > p) / Row(v >= p) with field min <= p <= bitDepthMin: base value left at 0, negatives and zero dropped (bsiGroup.baseValue)"
	c14KSumFiltered     = "Sum filtered: negative values outside the filter are subtracted (fragment.sum uses the unfiltered sign row)"
	c14KMinTies         = "Min: count of the minimum counts only one shard when shards tie (ValCount.smaller)"
	c14KMaxTies         = "Max: count of the maximum counts only one shard when shards tie (ValCount.larger)"
	c14KDepth0          = "Min/Max on a field whose bit depth is still 0 (only zeros stored): count 0 (fragment.minUnsigned/maxUnsigned never set the count)"
)

// key classifies a mismatch. specific reports that a known root cause was recognised from the query
// itself (as opposed to a generic key built from the query shape).
func (cx *c14Ctx) key(q c14Q, got string) (key string, specific bool) {
	switch q.kind {
	case "range":
		if q.op == "between" {
			if q.a > q.b {
				return c14KBetweenInverted, true
			}
			return fmt.Sprintf("Row between lo=%s hi=%s", cx.predClass(q.a), cx.predClass(q.b)), false
		}
		if q.op == "!=null" {
			return "Row(v != null)", false
		}
		p := q.a
		// A known root cause is only named when the answer is exactly what that defect produces
		// (cx.implRange replays the executor/fragment decision path including the known defects);
		// any other wrong answer on the same query shape gets the generic key and is reported.
		if got == cx.implRange(q.op, p) {
			switch q.op {
			case "<", "<=":
				if p >= cx.bdMin && p > cx.bdMax {
					if q.op == "<" && p <= cx.cf.max {
						return c14KLTAboveDepth, true
					}
				} else if p >= cx.bdMin {
					bp := p - cx.base
					if q.op == "<" && bp == -1 {
						return c14KStrictMinus1, true
					}
					if q.op == "<" && bp == 0 {
						return c14KLTZero, true
					}
				}
			case ">", ">=":
				if p <= cx.bdMax && p <= cx.bdMin {
					if p >= cx.cf.min {
						return c14KGTBelowDepth, true
					}
				} else if p <= cx.bdMax {
					if q.op == ">" && p-cx.base == -1 {
						return c14KStrictMinus1, true
					}
				}
			}
		}
		return fmt.Sprintf("Row(v %s p) p=%s", q.op, cx.predClass(q.a)), false
	case "sum":
		if q.filter != "none" && got == cx.sumDefect(q, true) {
			return c14KSumFiltered, true
		}
		return "Sum wrong filter=" + q.filter, false
	case "min", "max":
		var gv, gn, wv, wn int64
		fmt.Sscanf(got, "val=%d n=%d", &gv, &gn)
		fmt.Sscanf(q.want, "val=%d n=%d", &wv, &wn)
		if cx.depth == 0 && gn == 0 && wn > 0 {
			return c14KDepth0, true
		}
		if gv == wv && gn > 0 && gn < wn {
			// per-shard count of the extreme value inside the filter
			var fs map[uint64]struct{}
			if q.filter != "none" {
				fs = c14ColSet(q.fcols)
			}
			per := map[uint64]int64{}
			for c, v := range cx.m.vals {
				if fs != nil {
					if _, in := fs[c]; !in {
						continue
					}
				}
				if v == wv {
					per[c/c14SW]++
				}
			}
			if len(per) > 1 {
				for _, n := range per {
					if n == gn {
						if q.kind == "min" {
							return c14KMinTies, true
						}
						return c14KMaxTies, true
					}
				}
			}
		}
		if q.kind == "min" {
			return "Min wrong filter=" + q.filter, false
		}
		return "Max wrong filter=" + q.filter, false
	}
	return q.kind + " wrong", false
}

// sumDefect recomputes the Sum the way the defect does (see key()): per fragment, the positive part
// is restricted to the filter but the magnitude of every negative (base) value is subtracted.
func (cx *c14Ctx) sumDefect(q c14Q, zeroWhenEmpty bool) string {
	fs := c14ColSet(q.fcols)
	var sum, n int64
	for c, v := range cx.m.vals {
		bv := v - cx.base
		if _, in := fs[c]; in {
			n++
			if bv >= 0 {
				sum += bv
			}
		}
		if bv < 0 {
			sum += bv
		}
	}
	if n == 0 && zeroWhenEmpty { // executeSum returns the zero ValCount when no column counts
		return "val=0 n=0"
	}
	return fmt.Sprintf("val=%d n=%d", sum+n*cx.base, n)
}

// implRange replays, on the model, what executor.executeRowBSIGroupShard + bsiGroup.baseValue +
// fragment.rangeLT/rangeGT compute for a single comparison INCLUDING the known defects (strict
// comparison with base predicate -1 on the non-negative branch, strict < 0 returning the zeros,
// base value clamping without operator change, bit depth 0). Classification only.
func (cx *c14Ctx) implRange(op string, p int64) string {
	sel := func(pred func(bv int64) bool) string {
		return c14Cols(cx.m.cols(func(v int64) bool { return pred(v - cx.base) }, nil))
	}
	all := func(int64) bool { return true }
	none := func(int64) bool { return false }
	abs := func(x int64) int64 {
		if x < 0 {
			return -x
		}
		return x
	}
	eq := op == "<=" || op == ">="
	switch op {
	case "<", "<=":
		if p < cx.bdMin {
			return sel(none)
		}
		if (op == "<" && p > cx.cf.max) || (op == "<=" && p >= cx.cf.max) {
			return sel(all)
		}
		bp := p - cx.base
		if p > cx.bdMax {
			bp = cx.bdMax - cx.base
		}
		up := abs(bp)
		if (bp >= 0 && eq) || (bp >= -1 && !eq) {
			return sel(func(bv int64) bool {
				if bv < 0 {
					return true
				}
				if up == 0 && !eq {
					return bv == 0
				}
				return bv < up || (eq && bv == up)
			})
		}
		return sel(func(bv int64) bool { return bv < 0 && (-bv > up || (eq && -bv == up)) })
	case ">", ">=":
		if p > cx.bdMax {
			return sel(none)
		}
		if (op == ">" && p < cx.cf.min) || (op == ">=" && p <= cx.cf.min) {
			return sel(all)
		}
		bp := int64(0)
		if p > cx.bdMin {
			bp = p - cx.base
		}
		up := abs(bp)
		if (bp >= 0 && eq) || (bp >= -1 && !eq) {
			return sel(func(bv int64) bool {
				if bv < 0 {
					return false
				}
				if cx.depth == 0 {
					return true
				}
				return bv > up || (eq && bv == up)
			})
		}
		return sel(func(bv int64) bool { return bv >= 0 || -bv < up || (eq && -bv == up) })
	}
	return "?"
}

// ---------------------------------------------------------------------------------------------
// datasets

type c14Data struct {
	name string
	vals []int64
}

// c14Layout assigns columns: value k goes to shard k%2 next to the shard edge, selected values get a
// duplicate in the other shard (ties for Min/Max across shards and inside a shard).
func c14Layout(vals []int64) (cols []uint64, vs []int64, dups []uint64) {
	n := uint64(len(vals))
	for k, v := range vals {
		uk := uint64(k)
		var c, d uint64
		if k%2 == 0 {
			c, d = c14SW-1-uk, c14SW+n+uk // shard 0 near its end; duplicate in shard 1
		} else {
			c, d = c14SW+uk, n+uk // shard 1 near its start; duplicate in shard 0
		}
		cols, vs = append(cols, c), append(vs, v)
		if k%3 == 0 || k == len(vals)-1 {
			cols, vs = append(cols, d), append(vs, v)
			dups = append(dups, d)
		}
		if k%4 == 1 { // a tie inside the same shard
			d2 := c + 70000
			if k%2 == 0 {
				d2 = c - 70000
			}
			cols, vs = append(cols, d2), append(vs, v)
			dups = append(dups, d2)
		}
	}
	return
}

const (
	c14WriteSet    = 0
	c14WriteImport = 1
	c14WriteMixed  = 2
)

func c14WriteValues(e *c14Env, index string, m *c14Model, cols []uint64, vs []int64, how int) error {
	var setCols []uint64
	var setVals []int64
	imp := map[uint64]*ImportValueRequest{}
	for i, c := range cols {
		m.vals[c] = vs[i]
		m.all[c] = struct{}{}
		if how == c14WriteSet || (how == c14WriteMixed && i%2 == 0) {
			setCols, setVals = append(setCols, c), append(setVals, vs[i])
			continue
		}
		sh := c / c14SW
		if imp[sh] == nil {
			imp[sh] = &ImportValueRequest{Index: index, Field: "v", Shard: sh}
		}
		imp[sh].ColumnIDs = append(imp[sh].ColumnIDs, c)
		imp[sh].Values = append(imp[sh].Values, vs[i])
	}
	if len(setCols) > 0 {
		var sb strings.Builder
		for i, c := range setCols {
			fmt.Fprintf(&sb, "Set(%d, v=%d)\n", c, setVals[i])
		}
		if _, err := e.query(index, sb.String()); err != nil {
			return fmt.Errorf("Set: %v", err)
		}
	}
	for _, sh := range []uint64{0, 1} {
		if r := imp[sh]; r != nil {
			if err := e.api.ImportValue(context.Background(), r); err != nil {
				return fmt.Errorf("ImportValue: %v", err)
			}
		}
	}
	return nil
}

func c14ClearValues(e *c14Env, index string, m *c14Model, cols []uint64) error {
	imp := map[uint64]*ImportValueRequest{}
	for _, c := range cols {
		sh := c / c14SW
		if imp[sh] == nil {
			imp[sh] = &ImportValueRequest{Index: index, Field: "v", Shard: sh}
		}
		imp[sh].ColumnIDs = append(imp[sh].ColumnIDs, c)
		imp[sh].Values = append(imp[sh].Values, m.vals[c])
		delete(m.vals, c)
	}
	for _, sh := range []uint64{0, 1} {
		if r := imp[sh]; r != nil {
			if err := e.api.ImportValue(context.Background(), r, OptImportOptionsClear(true)); err != nil {
				return fmt.Errorf("ImportValue(clear): %v", err)
			}
		}
	}
	return nil
}

// c14WriteFilters writes the set field s and returns the filter list.
func c14WriteFilters(e *c14Env, index string, m *c14Model, valueCols, dups []uint64) []c14Filter {
	nulls := []uint64{70001, c14SW + 70001}
	for _, c := range nulls {
		m.all[c] = struct{}{}
	}
	rows := map[int][]uint64{}
	rows[0] = append(append([]uint64{}, valueCols...), nulls...)
	for i, c := range valueCols {
		if i%2 == 0 {
			rows[1] = append(rows[1], c)
		}
		if c/c14SW == 1 {
			rows[2] = append(rows[2], c)
		}
	}
	rows[2] = append(rows[2], nulls[1])
	rows[3] = nulls
	rows[4] = dups
	var sb strings.Builder
	for r := 0; r <= 4; r++ {
		for _, c := range rows[r] {
			fmt.Fprintf(&sb, "Set(%d, s=%d)\n", c, r)
		}
	}
	if _, err := e.query(index, sb.String()); err != nil {
		panic(fmt.Sprintf("c14: writing filters: %v", err))
	}
	fl := []c14Filter{{name: "none", none: true}}
	names := []string{"all+nulls", "every-other", "shard1", "nulls-only", "duplicates", "empty-row"}
	for r := 0; r <= 5; r++ {
		fl = append(fl, c14Filter{name: names[r], pql: fmt.Sprintf("Row(s=%d)", r), cols: rows[r]})
	}
	m.srows = rows
	return fl
}

// ---------------------------------------------------------------------------------------------
// checks

// c14CheckBattery runs the battery and reports mismatches. An aggregate filtered by a range row is
// only judged when that range row itself (which is also a plain query of the battery) was right:
// otherwise the filter is not the set the oracle assumes and the mismatch is the range defect again.
// histPrefix != "": mismatches without a recognised root cause are keyed as history findings.
func c14CheckBattery(c *vx.Check, e *c14Env, index string, cf c14Cfg, m *c14Model, qs []c14Q, caseDesc, histPrefix string) int {
	cx := c14MakeCtx(e, index, cf, m)
	got := c14RunBattery(e, index, qs)
	wrongRow := map[string]bool{}
	for i, q := range qs {
		if q.kind == "range" && got[i] != q.want {
			wrongRow[q.pql] = true
		}
	}
	bad := 0
	outc := map[string]struct{}{}
	for i, q := range qs {
		outc[got[i]] = struct{}{}
		if got[i] == q.want {
			continue
		}
		if q.kind != "range" && strings.HasPrefix(q.filter, "Row(v") {
			if j := strings.Index(q.pql, "(Row("); j >= 0 {
				if k := strings.Index(q.pql, "), field="); k > j {
					if wrongRow[q.pql[j+1:k+1]] {
						continue
					}
				}
			}
		}
		bad++
		key, specific := cx.key(q, got[i])
		if histPrefix != "" && !specific {
			key = histPrefix + "result differs from the model"
		}
		c.Violate(key, fmt.Sprintf("%s base=%d bitDepth=%d query=%s", caseDesc, cx.base, cx.depth, q.pql), got[i], q.want)
	}
	for o := range outc {
		c.Outcome(o)
	}
	c.AddEval(int64(len(qs)))
	return bad
}

// c14CheckGoAPI reads through Field.Value/Sum/Min/Max.
func c14CheckGoAPI(c *vx.Check, e *c14Env, index string, cf c14Cfg, m *c14Model, filters []c14Filter, caseDesc, keyPrefix string) {
	f := e.srv.holder.Field(index, "v")
	if f == nil {
		panic("c14: field v missing")
	}
	cx := c14MakeCtx(e, index, cf, m)
	shards := map[uint64]bool{}
	for col := range m.vals {
		shards[col/c14SW] = true
	}
	where := "single-fragment"
	if len(shards) > 1 {
		where = "across-fragments"
	}
	var cols []uint64
	for col := range m.all {
		cols = append(cols, col)
	}
	cols = append(cols, 5, c14SW+5) // never written
	sort.Slice(cols, func(i, j int) bool { return cols[i] < cols[j] })
	for _, col := range cols {
		v, ok, err := f.Value(col)
		wv, wok := m.vals[col]
		g, w := fmt.Sprintf("%d %v %v", v, ok, err), fmt.Sprintf("%d %v <nil>", wv, wok)
		if g != w {
			what := "wrong value"
			if ok != wok {
				what = "wrong existence"
			}
			c.Violate(keyPrefix+"goapi Field.Value "+what, fmt.Sprintf("%s col=%d", caseDesc, col), g, w)
		}
		c.AddEval(1)
	}
	for _, fl := range filters {
		var row *Row
		var fs map[uint64]struct{}
		if !fl.none {
			row = NewRow(fl.cols...)
			fs = c14ColSet(fl.cols)
		}
		sum, sumOK, n, min, nmin, max, nmax := m.agg(fs)
		gs, gn, err := f.Sum(row, "v")
		if sumOK {
			g, w := fmt.Sprintf("val=%d n=%d %v", gs, gn, err), fmt.Sprintf("val=%d n=%d <nil>", sum, n)
			if g != w {
				key := "goapi Field.Sum wrong filter=" + fl.name
				if !fl.none && err == nil && fmt.Sprintf("val=%d n=%d", gs, gn) == cx.sumDefect(c14Q{fcols: fl.cols}, false) {
					key = c14KSumFiltered
				}
				c.Violate(keyPrefix+key, caseDesc+" filter="+fl.name, g, w)
			}
		}
		gmin, gminN, err1 := f.Min(row, "v")
		gmax, gmaxN, err2 := f.Max(row, "v")
		wmin, wmax := "val=0 n=0 <nil>", "val=0 n=0 <nil>"
		if n > 0 {
			wmin, wmax = fmt.Sprintf("val=%d n=%d <nil>", min, nmin), fmt.Sprintf("val=%d n=%d <nil>", max, nmax)
		} else {
			// with no column to consider the value is meaningless (the Go API adds the base); only the count is defined
			gmin, gmax = 0, 0
		}
		if g := fmt.Sprintf("val=%d n=%d %v", gmin, gminN, err1); g != wmin {
			key := "goapi Field.Min wrong " + where
			if cx.depth == 0 && gminN == 0 {
				key = c14KDepth0
			}
			c.Violate(keyPrefix+key, caseDesc+" filter="+fl.name, g, wmin)
		}
		if g := fmt.Sprintf("val=%d n=%d %v", gmax, gmaxN, err2); g != wmax {
			key := "goapi Field.Max wrong " + where
			if cx.depth == 0 && gmaxN == 0 {
				key = c14KDepth0
			}
			c.Violate(keyPrefix+key, caseDesc+" filter="+fl.name, g, wmax)
		}
		c.AddEval(3)
	}
}

func c14Range(lo, hi int64) []int64 {
	var out []int64
	for v := lo; v <= hi; v++ {
		out = append(out, v)
	}
	return out
}

// c14Configs: the bounds lattice for nominal depth d (M = 2^d-1).
func c14Configs(d uint) []c14Cfg {
	M := int64(1)<<d - 1
	W := int64(1)<<(d+2) - 1
	b := [][2]int64{{-M, M}, {0, M}, {-M, 0}, {1, M}, {-M, -1}, {-W, W}, {-1, M}, {-M, 1}}
	if d >= 2 {
		b = append(b, [2]int64{(M + 1) / 2, M}, [2]int64{-M, -(M + 1) / 2})
	}
	var out []c14Cfg
	for _, x := range b {
		out = append(out, c14Cfg{d: d, min: x[0], max: x[1]}, c14Cfg{d: d, min: x[0], max: x[1], preset: true})
	}
	return out
}

func c14Datasets(cf c14Cfg) []c14Data {
	M := int64(1)<<cf.d - 1
	lo, hi := cf.min, cf.max
	if lo < -M {
		lo = -M
	}
	if hi > M {
		hi = M
	}
	all := c14Range(lo, hi)
	ds := []c14Data{{"all", all}}
	var neg, pos []int64
	for _, v := range all {
		if v < 0 {
			neg = append(neg, v)
		}
		if v > 0 {
			pos = append(pos, v)
		}
	}
	if len(neg) > 0 && len(neg) < len(all) {
		ds = append(ds, c14Data{"negatives", neg})
	}
	if len(pos) > 0 && len(pos) < len(all) {
		ds = append(ds, c14Data{"positives", pos})
	}
	if len(all) > 1 {
		ds = append(ds, c14Data{"only-min", []int64{lo, lo}}, c14Data{"only-max", []int64{hi, hi}})
	}
	if lo <= 0 && hi >= 0 && len(all) > 1 {
		ds = append(ds, c14Data{"only-zero", []int64{0, 0, 0}})
	}
	if len(all) > 2 {
		ds = append(ds, c14Data{"extremes", []int64{lo, hi, lo, hi}})
	}
	return ds
}

func c14Windows(cf c14Cfg) (window, narrow []int64) {
	M := int64(1)<<cf.d - 1
	W := int64(1)<<(cf.d+2) + 2
	window = c14Range(-W, W)
	narrow = c14Range(-M-3, M+3)
	narrow = append([]int64{-W}, narrow...)
	narrow = append(narrow, W)
	// the field bounds and their neighbours are always in both windows
	extra := []int64{cf.min - 1, cf.min, cf.min + 1, cf.max - 1, cf.max, cf.max + 1}
	seen := map[int64]bool{}
	for _, v := range narrow {
		seen[v] = true
	}
	for _, v := range extra {
		if !seen[v] {
			narrow = append(narrow, v)
			seen[v] = true
		}
	}
	sort.Slice(narrow, func(i, j int) bool { return narrow[i] < narrow[j] })
	return
}

// part 1: configurations x datasets x full battery
func c14Part1(c *vx.Check, depths []uint) {
	type job struct {
		cf  c14Cfg
		ds  c14Data
		how int
	}
	var jobs []job
	for _, d := range depths {
		for ci, cf := range c14Configs(d) {
			for di, ds := range c14Datasets(cf) {
				how := (ci + di) % 3
				jobs = append(jobs, job{cf, ds, how})
				if c.Thorough() && ds.name == "all" {
					jobs = append(jobs, job{cf, ds, (how + 1) % 3})
				}
			}
		}
	}
	c.Bound("part1_cases", len(jobs))
	c.ProcFor(c.NextRunLabel(), len(jobs), nil, func(_ []byte, i int, _ func([]byte)) {
		if c.Expired() {
			return
		}
		j := jobs[i]
		e := c14GetEnv()
		defer c14PutEnv(e)
		index := e.newIndex(j.cf)
		defer e.dropIndex(index)
		m := c14NewModel()
		cols, vs, dups := c14Layout(j.ds.vals)
		desc := fmt.Sprintf("%v data=%s%v write=%s", j.cf, j.ds.name, c14Short(j.ds.vals), []string{"Set", "ImportValue", "mixed"}[j.how])
		if err := c14WriteValues(e, index, m, cols, vs, j.how); err != nil {
			c.Violate("write of an in-range value refused", desc, err.Error(), "<nil>")
			return
		}
		filters := c14WriteFilters(e, index, m, cols, dups)
		window, narrow := c14Windows(j.cf)
		qs := c14Battery(m, window, narrow, filters, true)
		c14CheckBattery(c, e, index, j.cf, m, qs, desc, "")
		c14CheckGoAPI(c, e, index, j.cf, m, filters, desc, "")
		c.Distinct(desc)
		if i == 0 || i == len(jobs)-1 || i == len(jobs)/2 {
			c.Sample(fmt.Sprintf("%s (%d reads)", desc, len(qs)))
		}
	}, nil)
}

func c14Short(v []int64) string {
	if len(v) <= 8 {
		return fmt.Sprint(v)
	}
	return fmt.Sprintf("[%d..%d](%d)", v[0], v[len(v)-1], len(v))
}

// c14HistBattery: the reads of a history. The strict comparisons are left to part 1 (their defects
// around base predicates -1/0 would otherwise end every history at its first read); ==, !=, <=, >=
// over the whole window, != null and the unfiltered aggregates see every stored bit plane.
func c14HistBattery(m *c14Model, window []int64) []c14Q {
	all := c14Battery(m, window, nil, []c14Filter{{name: "none", none: true}}, false)
	var qs []c14Q
	for _, q := range all {
		if q.kind == "range" && (q.op == "<" || q.op == ">") {
			continue
		}
		qs = append(qs, q)
	}
	return qs
}

// part 2: depth-2 write histories: every (v1 -> v2) and (v1 -> clear) on its own column.
func c14Part2(c *vx.Check, depths []uint) {
	type job struct {
		cf         c14Cfg
		how1, how2 int
		big        bool
		noread     bool // no read between the two writes: the row caches are cold at the overwrite
	}
	var jobs []job
	for _, d := range depths {
		M := int64(1)<<d - 1
		for _, preset := range []bool{false, true} {
			for h1 := 0; h1 < 2; h1++ {
				for h2 := 0; h2 < 2; h2++ {
					jobs = append(jobs, job{cf: c14Cfg{d: d, min: -M, max: M, preset: preset}, how1: h1, how2: h2})
					jobs = append(jobs, job{cf: c14Cfg{d: d, min: -M, max: M, preset: preset}, how1: h1, how2: h2, noread: true})
				}
			}
		}
		// a batch large enough to take importValue's bulk path (len*(bitDepth+1)+opN >= MaxOpN)
		jobs = append(jobs, job{cf: c14Cfg{d: d, min: -M, max: M}, how1: c14WriteImport, how2: c14WriteImport, big: true})
		jobs = append(jobs, job{cf: c14Cfg{d: d, min: -M, max: M}, how1: c14WriteImport, how2: c14WriteImport, big: true, noread: true})
	}
	c.Bound("part2_cases", len(jobs))
	c.ProcFor(c.NextRunLabel(), len(jobs), nil, func(_ []byte, i int, _ func([]byte)) {
		if c.Expired() {
			return
		}
		j := jobs[i]
		e := c14GetEnv()
		defer c14PutEnv(e)
		index := e.newIndex(j.cf)
		defer e.dropIndex(index)
		m := c14NewModel()
		vals := c14Range(j.cf.min, j.cf.max)
		n := len(vals)
		// column of pair (a,b): shard (a+b)%2, next to the shard edge
		col := func(a, b int) uint64 {
			k := uint64(a*(n+1) + b)
			if (a+b)%2 == 0 {
				return c14SW - 1 - k
			}
			return c14SW + k
		}
		var cols1 []uint64
		var vs1 []int64
		for a := 0; a < n; a++ {
			for b := 0; b <= n; b++ { // b == n: the column that will be cleared
				cols1, vs1 = append(cols1, col(a, b)), append(vs1, vals[a])
			}
		}
		if j.big {
			// pad shard 0 with many more columns so that the second import crosses MaxOpN
			for k := 0; k < defaultFragmentMaxOpN/int(j.cf.d+1)+10; k++ {
				cols1, vs1 = append(cols1, uint64(200000+k)), append(vs1, vals[k%n])
			}
		}
		names := []string{"Set", "ImportValue"}
		desc := fmt.Sprintf("%v history: write1=%s(all v1) read write2=%s(all v1->v2)+clear read", j.cf, names[j.how1], names[j.how2])
		if j.big {
			desc += " bulk-import"
		}
		if err := c14WriteValues(e, index, m, cols1, vs1, j.how1); err != nil {
			c.Violate("write of an in-range value refused", desc, err.Error(), "<nil>")
			return
		}
		window, _ := c14Windows(j.cf)
		w2 := names[j.how2]
		if j.big {
			w2 = "bulk ImportValue (batch*(bitDepth+1) >= MaxOpN)"
		}
		pre := "history write,read," + w2 + " overwrite,read: "
		if j.noread {
			pre = "history write," + w2 + " overwrite,read: "
			desc += " (no read before the overwrite)"
		}
		// the first battery fills the row caches; it is judged like any other read
		qs := c14HistBattery(m, window)
		if !j.noread {
			c14CheckBattery(c, e, index, j.cf, m, qs, desc+" [after write1]", "history write,read: ")
			c14CheckGoAPIValues(c, e, index, m, desc+" [after write1]", "history write,read: ")
		}
		// second pass
		var cols2, clr []uint64
		var vs2 []int64
		for a := 0; a < n; a++ {
			for b := 0; b < n; b++ {
				cols2, vs2 = append(cols2, col(a, b)), append(vs2, vals[b])
			}
			clr = append(clr, col(a, n))
		}
		if j.big {
			for k := 0; k < defaultFragmentMaxOpN/int(j.cf.d+1)+10; k++ {
				cols2, vs2 = append(cols2, uint64(200000+k)), append(vs2, vals[(k+1)%n])
			}
		}
		if err := c14WriteValues(e, index, m, cols2, vs2, j.how2); err != nil {
			c.Violate("overwrite with an in-range value refused", desc, err.Error(), "<nil>")
			return
		}
		qs = c14HistBattery(m, window)
		if c14CheckBattery(c, e, index, j.cf, m, qs, desc+" [after write2]", pre) > 0 {
			return // caches are already known to be stale: do not judge the clear on top of it
		}
		c14CheckGoAPIValues(c, e, index, m, desc+" [after write2]", pre)
		// third step: clear (ImportValue with the clear option) the columns reserved for it
		pre = "history write,overwrite,read,ImportValue-clear,read: "
		if err := c14ClearValues(e, index, m, clr); err != nil {
			c.Violate("clear refused", desc, err.Error(), "<nil>")
			return
		}
		qs = c14HistBattery(m, window)
		c14CheckBattery(c, e, index, j.cf, m, qs, desc+" [after clear]", pre)
		c14CheckGoAPIValues(c, e, index, m, desc+" [after clear]", pre)
		c.Distinct(desc)
		c.Sample(desc)
	}, nil)
}

// part 2b: single-column writes between reads. Part 2 overwrites every column at once, which drops
// every cached bit-plane row as a side effect (some column always clears a bit of it); here each
// write touches ONE column, right after a read has filled the row caches, and is followed by a
// read: set-only and clear-only bit changes of every (v1 -> v2) pair and of a clear are observed.
func c14Part2b(c *vx.Check, depths []uint) {
	type job struct {
		cf  c14Cfg
		how int
	}
	var jobs []job
	for _, d := range depths {
		M := int64(1)<<d - 1
		for _, preset := range []bool{false, true} {
			for how := 0; how < 2; how++ {
				jobs = append(jobs, job{c14Cfg{d: d, min: -M, max: M, preset: preset}, how})
			}
		}
	}
	c.Bound("part2b_cases", len(jobs))
	c.ProcFor(c.NextRunLabel(), len(jobs), nil, func(_ []byte, i int, _ func([]byte)) {
		if c.Expired() {
			return
		}
		j := jobs[i]
		e := c14GetEnv()
		defer c14PutEnv(e)
		index := e.newIndex(j.cf)
		defer e.dropIndex(index)
		m := c14NewModel()
		vals := c14Range(j.cf.min, j.cf.max)
		n := len(vals)
		col := func(a, b int) uint64 {
			k := uint64(a*(n+1) + b)
			if (a+b)%2 == 0 {
				return c14SW - 1 - k
			}
			return c14SW + k
		}
		var cols1 []uint64
		var vs1 []int64
		for a := 0; a < n; a++ {
			for b := 0; b <= n; b++ {
				cols1, vs1 = append(cols1, col(a, b)), append(vs1, vals[a])
			}
		}
		names := []string{"Set", "ImportValue"}
		desc := fmt.Sprintf("%v history: Set(all v1), then per column: read, %s(one column v1->v2 or clear), read", j.cf, names[j.how])
		if err := c14WriteValues(e, index, m, cols1, vs1, c14WriteSet); err != nil {
			c.Violate("write of an in-range value refused", desc, err.Error(), "<nil>")
			return
		}
		pre := "history write,read," + names[j.how] + " overwrite,read: "
		light := func() []c14Q {
			var qs []c14Q
			for _, x := range vals {
				x := x
				qs = append(qs, c14Q{pql: fmt.Sprintf("Row(v == %d)", x), kind: "range", op: "==", a: x,
					want: c14Cols(m.cols(func(v int64) bool { return v == x }, nil))})
			}
			qs = append(qs, c14Q{pql: "Row(v != null)", kind: "range", op: "!=null", want: c14Cols(m.cols(func(int64) bool { return true }, nil))})
			sum, sumOK, cnt, _, _, _, _ := m.agg(nil)
			if sumOK && cnt > 0 {
				qs = append(qs, c14Q{pql: "Sum(field=v)", kind: "sum", filter: "none", want: fmt.Sprintf("val=%d n=%d", sum, cnt)})
			}
			return qs
		}
		// the first read fills the caches
		if c14CheckBattery(c, e, index, j.cf, m, light(), desc+" [first read]", "history write,read: ") > 0 {
			return
		}
		steps := 0
		for a := 0; a < n; a++ {
			for b := 0; b <= n; b++ {
				cl := col(a, b)
				step := fmt.Sprintf(" [column %d: %d -> %d]", cl, vals[a], 0)
				var err error
				clearing := b == n
				if clearing {
					step = fmt.Sprintf(" [column %d: %d -> cleared]", cl, vals[a])
					err = c14ClearValues(e, index, m, []uint64{cl})
				} else {
					step = fmt.Sprintf(" [column %d: %d -> %d]", cl, vals[a], vals[b])
					err = c14WriteValues(e, index, m, []uint64{cl}, []int64{vals[b]}, j.how)
				}
				if err != nil {
					c.Violate("overwrite with an in-range value refused", desc+step, err.Error(), "<nil>")
					return
				}
				// Field.Value reads the stored bits directly (no row cache): a wrong value here is a
				// wrong write, not a stale read.
				f := e.srv.holder.Field(index, "v")
				v, ok, _ := f.Value(cl)
				wv, wok := m.vals[cl]
				if v != wv || ok != wok {
					what := names[j.how] + " overwrite of one column"
					if clearing {
						what = "ImportValue-clear of one column"
					}
					c.Violate("history write,"+what+": the column then holds a wrong value (Field.Value, read from storage)", desc+step, fmt.Sprint(v, ok), fmt.Sprint(wv, wok))
					return
				}
				p2 := pre
				if clearing {
					p2 = "history write,read,ImportValue-clear of one column,read: "
				}
				if c14CheckBattery(c, e, index, j.cf, m, light(), desc+step, p2) > 0 {
					return
				}
				steps++
			}
		}
		c.Distinct(desc)
		c.Sample(fmt.Sprintf("%s (%d single-column steps)", desc, steps))
	}, nil)
}

func c14CheckGoAPIValues(c *vx.Check, e *c14Env, index string, m *c14Model, desc, pre string) {
	f := e.srv.holder.Field(index, "v")
	var cols []uint64
	for col := range m.all {
		cols = append(cols, col)
	}
	sort.Slice(cols, func(i, j int) bool { return cols[i] < cols[j] })
	for _, col := range cols {
		v, ok, err := f.Value(col)
		wv, wok := m.vals[col]
		g, w := fmt.Sprintf("%d %v %v", v, ok, err), fmt.Sprintf("%d %v <nil>", wv, wok)
		if g != w {
			c.Violate(pre+"goapi Field.Value wrong", fmt.Sprintf("%s col=%d", desc, col), g, w)
			return
		}
	}
	c.AddEval(int64(len(cols)))
}

// part 3: depths up to 63 through the deterministic boundary set.
func c14Part3(c *vx.Check) {
	ks := []uint{1, 2, 7, 8, 15, 16, 31, 32, 33, 47, 61, 62}
	var bset []int64
	seen := map[int64]bool{}
	add := func(v int64) {
		if !seen[v] {
			seen[v] = true
			bset = append(bset, v)
		}
	}
	add(0)
	for _, k := range ks {
		p := int64(1) << k
		for _, v := range []int64{p - 1, p, p + 1} {
			add(v)
			add(-v)
		}
	}
	add(math.MaxInt64)
	add(-math.MaxInt64)
	sort.Slice(bset, func(i, j int) bool { return bset[i] < bset[j] })
	type job struct {
		k      uint
		preset bool
		how    int
	}
	var jobs []job
	for i, k := range append(ks, 63) {
		jobs = append(jobs, job{k, false, i % 3})
		if k <= 62 {
			jobs = append(jobs, job{k, true, (i + 1) % 3})
		}
	}
	c.Bound("part3_cases", len(jobs))
	c.ProcFor(c.NextRunLabel(), len(jobs), nil, func(_ []byte, i int, _ func([]byte)) {
		if c.Expired() {
			return
		}
		j := jobs[i]
		// values: every boundary value of magnitude < 2^k (k=63: all)
		lim := new(big.Int).Lsh(big.NewInt(1), j.k)
		var vals []int64
		for _, v := range bset {
			a := new(big.Int).Abs(big.NewInt(v))
			if a.Cmp(lim) < 0 {
				vals = append(vals, v)
			}
		}
		cf := c14Cfg{d: j.k, min: -math.MaxInt64, max: math.MaxInt64}
		if j.preset {
			// bounds just wide enough for bit depth k; base = min
			half := int64(1) << (j.k - 1)
			cf = c14Cfg{d: j.k, min: -half, max: half - 1, preset: true}
			var keep []int64
			for _, v := range vals {
				if v >= cf.min && v <= cf.max {
					keep = append(keep, v)
				}
			}
			vals = keep
		}
		e := c14GetEnv()
		defer c14PutEnv(e)
		index := e.newIndex(cf)
		defer e.dropIndex(index)
		m := c14NewModel()
		cols, vs, dups := c14Layout(vals)
		desc := fmt.Sprintf("deep k=%d bounds=[%d,%d] preset=%v values=%d write=%d", j.k, cf.min, cf.max, j.preset, len(vals), j.how)
		if err := c14WriteValues(e, index, m, cols, vs, j.how); err != nil {
			c.Violate("write of an in-range value refused", desc, err.Error(), "<nil>")
			return
		}
		filters := c14WriteFilters(e, index, m, cols, dups)
		// predicates: the boundary set and its neighbours
		var window []int64
		ws := map[int64]bool{}
		for _, v := range bset {
			for _, dlt := range []int64{-1, 0, 1} {
				p := v + dlt
				if (dlt > 0 && p < v) || (dlt < 0 && p > v) {
					continue // overflow
				}
				if !ws[p] && p != math.MinInt64 {
					ws[p] = true
					window = append(window, p)
				}
			}
		}
		sort.Slice(window, func(a, b int) bool { return window[a] < window[b] })
		var narrow []int64
		for k2, p := range window {
			if k2%5 == 0 || p == 0 || p == -1 || p == 1 {
				narrow = append(narrow, p)
			}
		}
		qs := c14Battery(m, window, narrow, filters, true)
		c14CheckBattery(c, e, index, cf, m, qs, desc, "")
		c14CheckGoAPI(c, e, index, cf, m, filters, desc, "")
		c.Distinct(desc)
		c.Sample(fmt.Sprintf("%s (%d reads)", desc, len(qs)))
	}, nil)
}

func TestVerif_C14(t *testing.T) {
	c := vx.NewCheck("C14", "exploration",
		"bounds lattice x {fresh, reloaded} field x dataset family (all values of the range at once, one column per value over two shards with duplicates) x every comparison x every predicate of a window beyond bounds and bit-depth range x between pairs x Sum/Min/Max with set-row and range-row filters, through PQL and the Go API; depth-2 overwrite/clear histories with reads in between; boundary value set for depths up to 63; oracle = integer arithmetic on the model column->value; distinct = distinct (configuration, dataset, write path) cases")
	defer c14CloseAll()
	var depths []uint
	for d := uint(1); d <= uint(c.Pick(3, 5)); d++ {
		depths = append(depths, d)
	}
	c.Bound("bit_depths_exhaustive", depths)
	c14Part1(c, depths)
	hd := depths
	if len(hd) > 4 {
		hd = hd[:4]
	}
	c14Part2(c, hd)
	if len(hd) > 3 {
		hd = hd[:3]
	}
	c14Part2b(c, hd)
	c14Part3(c)
	c.Assume("single node, executor worker pool of 1; bit depths 1..max exhaustive over all values of the range, depths up to 63 through the boundary set {0,+-1,+-(2^k-1),+-2^k,+-(2^k+1),+-maxint64}")
	if c.Finish() != 0 {
		t.Fail()
	}
}
