package pilosa

// C11 — Anti-entropy repairs every replica to the per-bit majority.
//
// Exhaustive configuration product on the REAL code: R in {2,3,4} replicas, each a real Holder with a
// real file-backed fragment; every assignment of subsets of a 4-position universe in hash block 0 (plus
// one position in block 1) to the replicas; views "standard" (set field) and one time view
// ("standard_2019" of a time field). The real fragmentSyncer.syncFragment runs on one replica; its
// InternalClient is an in-process loop-back that serves FragmentBlocks/BlockData from the peers' real
// API and applies ImportRoaring through the peers' real API.ImportRoaring -> importWorker ->
// Field.importRoaring path (so the view naming of the wire protocol is part of what is checked).
//
// Oracle (the statement, nothing more): after the pass, in every block that differed, every replica holds
// exactly the bits set on a majority of replicas (ties = set) in the SAME view (other views untouched),
// and all replicas report identical Blocks().

import (
	"bytes"
	"context"
	"encoding/json"
	"fmt"
	"os"
	"path/filepath"
	"sort"
	"strings"
	"sync/atomic"
	"testing"

	"github.com/pilosa/pilosa/internal/vx"
)

const (
	c11Index     = "i"
	c11SetField  = "f"
	c11TimeField = "t"
	c11TimeView  = viewStandard + "_2019"
)

// universe positions (row, column offset inside the shard): 4 in block 0, 1 in block 1.
var c11Univ = [5][2]uint64{
	{0, 0},
	{0, ShardWidth - 1},
	{1, 0},
	{HashBlockSize - 1, 1},
	{HashBlockSize, 0}, // block 1
}

// bits of the time field's standard view that must stay untouched while standard_2019 is repaired.
const c11OtherViewMask = 0x07 // positions 0,1,2

// number of evaluated cases that contain none of the trigger conditions of c11Triggers (fully guarded cases)
var c11NoTrigger int64

type c11JSONSerializer struct{}

func (c11JSONSerializer) Marshal(m Message) ([]byte, error)   { return json.Marshal(m) }
func (c11JSONSerializer) Unmarshal(b []byte, m Message) error { return json.Unmarshal(b, m) }

type c11Node struct {
	id      string
	node    *Node
	holder  *Holder
	cluster *cluster
	server  *Server
	api     *API
}

// c11Client is the loop-back InternalClient: every call lands on the addressed peer's real API.
type c11Client struct {
	nopInternalClient
	peers map[string]*c11Node // by URI host
	log   *[]string
}

func (c *c11Client) peer(uri *URI) *c11Node {
	n := c.peers[uri.Host]
	if n == nil {
		panic("c11: unknown uri " + uri.String())
	}
	return n
}

func (c *c11Client) FragmentBlocks(ctx context.Context, uri *URI, index, field, view string, shard uint64) ([]FragmentBlock, error) {
	return c.peer(uri).api.FragmentBlocks(ctx, index, field, view, shard)
}

func (c *c11Client) BlockData(ctx context.Context, uri *URI, index, field, view string, shard uint64, block int) ([]uint64, []uint64, error) {
	p := c.peer(uri)
	body, err := p.api.Serializer.Marshal(&BlockDataRequest{Index: index, Field: field, View: view, Shard: shard, Block: uint64(block)})
	if err != nil {
		return nil, nil, err
	}
	buf, err := p.api.FragmentBlockData(ctx, bytes.NewReader(body))
	if err != nil {
		if err == ErrFragmentNotFound { // the HTTP client maps the 404 of a missing fragment to "no data"
			return nil, nil, nil
		}
		return nil, nil, err
	}
	var rsp BlockDataResponse
	if err := p.api.Serializer.Unmarshal(buf, &rsp); err != nil {
		return nil, nil, err
	}
	return rsp.RowIDs, rsp.ColumnIDs, nil
}

func (c *c11Client) ImportRoaring(ctx context.Context, uri *URI, index, field string, shard uint64, remote bool, req *ImportRoaringRequest) error {
	p := c.peer(uri)
	if c.log != nil {
		vs := make([]string, 0, len(req.Views))
		for v := range req.Views {
			vs = append(vs, fmt.Sprintf("%q", v))
		}
		sort.Strings(vs)
		*c.log = append(*c.log, fmt.Sprintf("import->%s clear=%v views=%s", p.id, req.Clear, strings.Join(vs, ",")))
	}
	// the wire copies the payload; do the same so that no buffer is shared between nodes
	cp := &ImportRoaringRequest{Clear: req.Clear, Views: map[string][]byte{}}
	for k, v := range req.Views {
		cp.Views[k] = append([]byte(nil), v...)
	}
	return p.api.ImportRoaring(ctx, index, field, shard, remote, cp)
}

// c11Group is R nodes that all own every shard (ReplicaN = R).
type c11Group struct {
	R     int
	nodes []*c11Node
	// current contents (bit masks over c11Univ) of [replica][viewKind] for the shard in use
	cur [][2]int
	// does the fragment currently exist on [replica][viewKind]
	exists [][2]bool
	shard  uint64
}

func c11NewGroup(R int, shard uint64) *c11Group {
	g := &c11Group{R: R, shard: shard}
	base := vx.Scratch()
	peers := map[string]*c11Node{}
	var all []*Node
	for k := 0; k < R; k++ {
		all = append(all, &Node{ID: fmt.Sprintf("node%d", k), URI: URI{Scheme: "http", Host: fmt.Sprintf("host%d", k), Port: 10101}, State: nodeStateReady})
	}
	for k := 0; k < R; k++ {
		h := NewHolder()
		h.Path = filepath.Join(base, fmt.Sprintf("n%d", k))
		if err := h.Open(); err != nil {
			panic(err)
		}
		cl := newCluster()
		cl.ReplicaN = R
		cl.holder = h
		cl.Path = h.Path
		cl.Topology = newTopology()
		for _, n := range all {
			nn := *n
			cl.nodes = append(cl.nodes, &nn)
		}
		cl.Node = cl.nodes[k]
		cl.Coordinator = cl.nodes[0].ID
		cl.SetState(ClusterStateNormal)
		cli := &c11Client{peers: peers}
		cl.InternalClient = cli
		srv := &Server{nodeID: cl.Node.ID, holder: h, cluster: cl, defaultClient: cli, serializer: c11JSONSerializer{}}
		api, err := NewAPI(OptAPIServer(srv))
		if err != nil {
			panic(err)
		}
		nd := &c11Node{id: cl.Node.ID, node: cl.Node, holder: h, cluster: cl, server: srv, api: api}
		peers[cl.Node.URI.Host] = nd
		g.nodes = append(g.nodes, nd)

		idx, err := h.CreateIndex(c11Index, IndexOptions{})
		if err != nil {
			panic(err)
		}
		if _, err := idx.CreateField(c11SetField, OptFieldTypeSet(CacheTypeRanked, 100)); err != nil {
			panic(err)
		}
		if _, err := idx.CreateField(c11TimeField, OptFieldTypeTime(TimeQuantum("Y"))); err != nil {
			panic(err)
		}
	}
	g.cur = make([][2]int, R)
	g.exists = make([][2]bool, R)
	// the time field's standard view holds a fixed content on every replica (must never be touched)
	for k := 0; k < R; k++ {
		fr := g.frag(k, c11TimeField, viewStandard, true)
		for p := 0; p < len(c11Univ); p++ {
			if c11OtherViewMask&(1<<uint(p)) != 0 {
				if _, err := fr.setBit(c11Univ[p][0], shard*ShardWidth+c11Univ[p][1]); err != nil {
					panic(err)
				}
			}
		}
	}
	return g
}

func (g *c11Group) Close() {
	for _, n := range g.nodes {
		n.api.Close()
		n.holder.Close()
	}
}

func c11FieldView(kind int) (string, string) {
	if kind == 0 {
		return c11SetField, viewStandard
	}
	return c11TimeField, c11TimeView
}

// frag returns the fragment of (replica, field, view), creating view and fragment when create is set.
func (g *c11Group) frag(k int, field, view string, create bool) *fragment {
	h := g.nodes[k].holder
	if fr := h.fragment(c11Index, field, view, g.shard); fr != nil || !create {
		return fr
	}
	f := h.Field(c11Index, field)
	v, err := f.createViewIfNotExists(view)
	if err != nil {
		panic(err)
	}
	fr, err := v.CreateFragmentIfNotExists(g.shard)
	if err != nil {
		panic(err)
	}
	return fr
}

// read returns the mask of universe bits present in the fragment plus a marker for any foreign bit.
func (g *c11Group) read(k int, field, view string) (mask int, foreign string) {
	fr := g.frag(k, field, view, false)
	if fr == nil {
		return 0, ""
	}
	for b := 0; b < 3; b++ {
		rows, cols := fr.blockData(b)
		for i := range rows {
			found := false
			for p := range c11Univ {
				if c11Univ[p][0] == rows[i] && c11Univ[p][1] == cols[i] {
					mask |= 1 << uint(p)
					found = true
				}
			}
			if !found {
				foreign += fmt.Sprintf("(%d,%d)", rows[i], cols[i])
			}
		}
	}
	return mask, foreign
}

// setContents drives replica k's fragment of the view kind to exactly `want` through the real
// setBit/clearBit paths; missing=true removes the fragment (time view: the whole view) instead, which is
// how a replica that never received a write for the shard looks.
func (g *c11Group) setContents(k, kind, want int, missing bool) {
	field, view := c11FieldView(kind)
	if missing && want == 0 {
		if g.exists[k][kind] {
			f := g.nodes[k].holder.Field(c11Index, field)
			if kind == 0 {
				if err := f.view(view).deleteFragment(g.shard); err != nil {
					panic(err)
				}
			} else {
				f.mu.Lock()
				err := f.deleteView(view)
				f.mu.Unlock()
				if err != nil {
					panic(err)
				}
			}
			g.exists[k][kind] = false
			g.cur[k][kind] = 0
		}
		return
	}
	fr := g.frag(k, field, view, true)
	g.exists[k][kind] = true
	have := g.cur[k][kind]
	for p := range c11Univ {
		bit := 1 << uint(p)
		row, col := c11Univ[p][0], g.shard*ShardWidth+c11Univ[p][1]
		if want&bit != 0 && have&bit == 0 {
			if _, err := fr.setBit(row, col); err != nil {
				panic(err)
			}
		} else if want&bit == 0 && have&bit != 0 {
			if _, err := fr.clearBit(row, col); err != nil {
				panic(err)
			}
		}
	}
	g.cur[k][kind] = want
	// Hygiene between cases (the group is reused): forget checksums cached by the previous case so that a
	// stale-cache defect of one case cannot leak into the next one. A fresh fragment has an empty cache.
	fr.InvalidateChecksums()
}

func c11Majority(assign []int) int {
	R := len(assign)
	m := 0
	for p := range c11Univ {
		n := 0
		for _, a := range assign {
			if a&(1<<uint(p)) != 0 {
				n++
			}
		}
		if 2*n >= R { // ties resolved as set
			m |= 1 << uint(p)
		}
	}
	return m
}

// c11Expected: per block, a block is repaired only if it differed between replicas.
func c11Expected(assign []int) []int {
	maj := c11Majority(assign)
	out := make([]int, len(assign))
	for _, blk := range []int{0x0f, 0x10} {
		differ := false
		for _, a := range assign {
			if a&blk != assign[0]&blk {
				differ = true
			}
		}
		for j, a := range assign {
			if differ {
				out[j] |= maj & blk
			} else {
				out[j] |= a & blk
			}
		}
	}
	return out
}

func c11Pop(x int) int {
	n := 0
	for ; x != 0; x &= x - 1 {
		n++
	}
	return n
}

func c11Bucket(n int) string {
	switch {
	case n == 0:
		return "0"
	case n == 1:
		return "1"
	}
	return "2+"
}

func c11Mask(m int) string {
	var b [5]byte
	for p := 0; p < 5; p++ {
		if m&(1<<uint(p)) != 0 {
			b[p] = '1'
		} else {
			b[p] = '0'
		}
	}
	return string(b[:])
}

type c11Case struct {
	R        int
	Shard    uint64
	View     string
	Syncer   int   // index of the replica that runs syncFragment
	Missing  bool  // empty peers have no fragment at all
	Assign   []int // per replica, mask over the universe
	Expected []int
}

func (cs c11Case) String() string {
	a := make([]string, len(cs.Assign))
	for i, m := range cs.Assign {
		a[i] = c11Mask(m)
	}
	ef := "kept"
	if cs.Missing {
		ef = "deleted"
	}
	return fmt.Sprintf("R=%d shard=%d view=%s syncer=replica%d emptyPeerFragments=%s contents=[%s] (bit order: r0c0,r0cMax,r1c0,r99c1 | r100c0)",
		cs.R, cs.Shard, cs.View, cs.Syncer, ef, strings.Join(a, " "))
}

// run executes one case on the group and reports violations.
func (g *c11Group) run(c *vx.Check, kind int, syncer int, missing bool, assign []int) {
	field, view := c11FieldView(kind)
	cs := c11Case{R: g.R, Shard: g.shard, View: view, Syncer: syncer, Missing: missing, Assign: append([]int(nil), assign...)}
	cs.Expected = c11Expected(assign)
	for k := 0; k < g.R; k++ {
		g.setContents(k, kind, assign[k], missing && k != syncer)
	}
	var log []string
	for _, n := range g.nodes {
		n.cluster.InternalClient.(*c11Client).log = nil
	}
	g.nodes[syncer].cluster.InternalClient.(*c11Client).log = &log

	sn := g.nodes[syncer]
	s := fragmentSyncer{Fragment: g.frag(syncer, field, view, true), Node: sn.node, Cluster: sn.cluster}
	var err error
	if pan := vx.Guard(func() { err = s.syncFragment() }); pan != "" {
		c.Violate("panic in syncFragment view="+c11ViewKind(kind), cs.String(), pan, "no panic")
		g.resync(kind)
		return
	}
	if err != nil {
		c.Violate("syncFragment error view="+c11ViewKind(kind), cs.String(), err.Error(), "nil")
		g.resync(kind)
		return
	}
	c.AddEval(1)

	maj := c11Majority(assign)
	differ := c11DifferMask(assign)
	// Trigger conditions of the case (features of the INPUT, used only to name a failure; see c11Triggers).
	trig := c11Triggers(assign, syncer, kind)
	if trig == "" {
		atomic.AddInt64(&c11NoTrigger, 1)
	}
	contentOK := true
	outcome := make([]string, 0, g.R)
	for k := 0; k < g.R; k++ {
		got, foreign := g.read(k, field, view)
		g.cur[k][kind] = got
		if g.frag(k, field, view, false) != nil {
			g.exists[k][kind] = true
		}
		want := cs.Expected[k]
		needS := c11Pop(maj &^ assign[k] & differ)
		needC := c11Pop(assign[k] &^ maj & differ)
		outcome = append(outcome, fmt.Sprintf("S%dC%d", needS, needC))
		if got != want || foreign != "" {
			contentOK = false
			role := "peer"
			if k == syncer {
				role = "local"
			}
			residue := ""
			if got&^want != 0 {
				residue += "+extra"
			}
			if want&^got != 0 {
				residue += "+missing"
			}
			if foreign != "" {
				residue += "+foreign"
			}
			var key string
			if trig != "" {
				key = "content-not-majority triggers=" + trig
			} else {
				key = fmt.Sprintf("content-not-majority triggers=none role=%s view=%s R=%d needs=sets:%s,clears:%s residue=%s", role, c11ViewKind(kind), g.R, c11Bucket(needS), c11Bucket(needC), residue[1:])
			}
			c.Violate(key, cs.String(),
				fmt.Sprintf("replica%d holds %s%s (%s) after sync; client calls: %s", k, c11Mask(got), foreign, residue[1:], strings.Join(log, "; ")),
				fmt.Sprintf("replica%d holds %s (majority, ties=set)", k, c11Mask(want)))
		}
		// the repair must not touch any other view of the field
		if kind == 1 {
			o, oforeign := g.read(k, field, viewStandard)
			if o != c11OtherViewMask || oforeign != "" {
				role := "peer"
				if k == syncer {
					role = "local"
				}
				c.Violate(fmt.Sprintf("repair-landed-in-other-view role=%s computed-for=%s touched=%s", role, c11ViewKind(kind), viewStandard), cs.String(),
					fmt.Sprintf("replica%d view standard holds %s%s after syncing %s; client calls: %s", k, c11Mask(o), oforeign, view, strings.Join(log, "; ")),
					fmt.Sprintf("replica%d view standard unchanged %s", k, c11Mask(c11OtherViewMask)))
				g.restoreOther(k)
			}
		}
	}
	c.Outcome(strings.Join(outcome, ","))
	nontrivial := false
	for _, a := range assign {
		if a != assign[0] {
			nontrivial = true
		}
	}
	if nontrivial {
		c.Distinct(cs.String())
	}

	// identical Blocks() on all replicas (only meaningful when the contents are right)
	if contentOK {
		ref := c11Blocks(g.frag(syncer, field, view, false))
		for k := 0; k < g.R; k++ {
			if k == syncer {
				continue
			}
			fr := g.frag(k, field, view, false)
			b := c11Blocks(fr)
			if b == ref {
				continue
			}
			cause := "unexplained"
			if fr != nil {
				fr.InvalidateChecksums()
				if c11Blocks(fr) == ref {
					cause = "peer-serves-checksum-cached-before-repair"
				}
			}
			c.Violate(fmt.Sprintf("blocks-differ-after-sync cause=%s", cause), cs.String(),
				fmt.Sprintf("replica%d Blocks()=%s; client calls: %s", k, b, strings.Join(log, "; ")), fmt.Sprintf("Blocks()=%s as on replica%d (contents are equal)", ref, syncer))
		}
	}
}

// c11Triggers names which input conditions, each the trigger of one separately reported defect, are present
// in a case. A failing case is keyed by the triggers it contains, so that one root cause maps to one key and a
// failure in a case WITHOUT any of these conditions always gets its own (unlisted) key.
//   A "clears+sets-or-2clears-in-one-block": some replica needs, within one hash block, two or more clears, or
//     at least one set together with at least one clear.
//   B "peer-clear-in-time-view": a non-standard view is synced and some peer needs a clear.
//   C "syncer-holds-first-row-of-next-block": a block differs while the syncing replica holds a bit in the
//     first row of the following block (row (b+1)*HashBlockSize).
func c11Triggers(assign []int, syncer, kind int) string {
	maj := c11Majority(assign)
	differ := c11DifferMask(assign)
	var t []string
	a := false
	b := false
	for k, x := range assign {
		for _, blk := range []int{0x0f, 0x10} {
			s := c11Pop(maj &^ x & differ & blk)
			cl := c11Pop(x &^ maj & differ & blk)
			if cl >= 2 || (s >= 1 && cl >= 1) {
				a = true
			}
			if kind == 1 && k != syncer && cl >= 1 {
				b = true
			}
		}
	}
	if a {
		t = append(t, "A:sets+clears-or-2clears-in-one-block")
	}
	if b {
		t = append(t, "B:peer-clear-in-time-view")
	}
	if differ&0x0f != 0 && assign[syncer]&0x10 != 0 {
		t = append(t, "C:syncer-holds-first-row-of-next-block")
	}
	return strings.Join(t, ",")
}

func c11DifferMask(assign []int) int {
	m := 0
	for _, blk := range []int{0x0f, 0x10} {
		for _, a := range assign {
			if a&blk != assign[0]&blk {
				m |= blk
			}
		}
	}
	return m
}

func c11ViewKind(kind int) string {
	if kind == 0 {
		return "standard"
	}
	return "time"
}

func c11Blocks(fr *fragment) string {
	if fr == nil {
		return "[]"
	}
	var sb strings.Builder
	for _, b := range fr.Blocks() {
		fmt.Fprintf(&sb, "%d:%x ", b.ID, b.Checksum)
	}
	return "[" + strings.TrimSpace(sb.String()) + "]"
}

// resync re-reads the real contents after an aborted case so that the bookkeeping stays truthful.
func (g *c11Group) resync(kind int) {
	field, view := c11FieldView(kind)
	for k := 0; k < g.R; k++ {
		m, _ := g.read(k, field, view)
		g.cur[k][kind] = m
		g.exists[k][kind] = g.frag(k, field, view, false) != nil
		if kind == 1 {
			g.restoreOther(k)
		}
	}
}

func (g *c11Group) restoreOther(k int) {
	fr := g.frag(k, c11TimeField, viewStandard, true)
	have, _ := g.read(k, c11TimeField, viewStandard)
	for p := range c11Univ {
		bit := 1 << uint(p)
		row, col := c11Univ[p][0], g.shard*ShardWidth+c11Univ[p][1]
		if c11OtherViewMask&bit != 0 && have&bit == 0 {
			fr.setBit(row, col)
		} else if c11OtherViewMask&bit == 0 && have&bit != 0 {
			fr.clearBit(row, col)
		}
	}
	fr.InvalidateChecksums()
}

func TestVerif_C11(t *testing.T) {
	c := vx.NewCheck("C11", "exploration",
		"one evaluation = one (replica count, shard, view, syncing replica, per-replica contents) configuration on which the real syncFragment ran to completion; distinct = configurations whose replicas are not all equal")
	maxR := 4
	shards := []uint64{1}
	if c.Thorough() {
		shards = []uint64{0, 1}
	}
	shardsFor := func(R int) []uint64 {
		if R == 4 {
			return []uint64{1}
		}
		return shards
	}
	c.Bound("replicas", "2..4")
	c.Bound("universe", "4 positions in block 0 + 1 position in block 1; every assignment of subsets to replicas")
	c.Bound("views", []string{viewStandard, c11TimeView})
	c.Bound("shards", shards)

	if dbg := os.Getenv("C11_CASE"); dbg != "" {
		// debugging aid: "R shard kind syncer missing m0 m1 ..." runs one case on a fresh group
		var R, kind, syncer, missing int
		var shard uint64
		f := strings.Fields(dbg)
		fmt.Sscan(f[0], &R)
		fmt.Sscan(f[1], &shard)
		fmt.Sscan(f[2], &kind)
		fmt.Sscan(f[3], &syncer)
		fmt.Sscan(f[4], &missing)
		assign := make([]int, R)
		for k := 0; k < R; k++ {
			for p, ch := range f[5+k] {
				if ch == '1' {
					assign[k] |= 1 << uint(p)
				}
			}
		}
		g := c11NewGroup(R, shard)
		g.run(c, kind, syncer, missing == 1, assign)
		g.Close()
		c.NotExhaustive("single debug case")
		if c.Finish() != 0 {
			t.Fail()
		}
		return
	}
	type unit struct {
		R       int
		shard   uint64
		kind    int
		syncer  int
		missing bool
		a0      int // contents of replica 0; the remaining replicas are enumerated inside the unit
	}
	var units []unit
	for R := 2; R <= maxR; R++ {
		for _, sh := range shardsFor(R) {
			for kind := 0; kind < 2; kind++ {
				syncers := []int{0}
				if c.Thorough() || R <= 3 {
					syncers = []int{0, R - 1}
				}
				for _, sy := range syncers {
					for _, missing := range []bool{false, true} {
						if missing && R == 4 && (!c.Thorough() || sy != 0) {
							continue
						}
						for a0 := 0; a0 < 32; a0++ {
							units = append(units, unit{R, sh, kind, sy, missing, a0})
						}
					}
				}
			}
		}
	}
	// the quick tier thins the block-1 bit for R=4: it is enumerated for replica 0 only (all of block 0 stays
	// exhaustive).
	quickR4 := !c.Thorough()
	c.Bound("R4", map[bool]string{true: "shard 1, syncer replica0, block 0 exhaustive (16^4), block-1 bit on replica0 only", false: "shard 1, syncer first/last, all 32^4 assignments; missing peer fragments with syncer replica0"}[quickR4])
	c.Bound("R2_R3", "all 32^R assignments, both views, syncer first/last, with and without missing peer fragments, shards per 'shards'")

	type gkey struct {
		R     int
		shard uint64
	}
	// one replica group per (R, shard) and worker PROCESS (fragments mmap files: process-level workers scale,
	// goroutines do not); built lazily, reused for all units of the share
	groups := map[gkey]*c11Group{}
	var noTrigger int64
	c.ProcFor(c.NextRunLabel(), len(units), nil, func(_ []byte, i int, emit func([]byte)) {
		u := units[i]
		g := groups[gkey{u.R, u.shard}]
		if g == nil {
			g = c11NewGroup(u.R, u.shard)
			groups[gkey{u.R, u.shard}] = g
		}
		before := atomic.LoadInt64(&c11NoTrigger)
		assign := make([]int, u.R)
		assign[0] = u.a0
		total := 1
		for k := 1; k < u.R; k++ {
			total *= 32
		}
		for x := 0; x < total; x++ {
			y := x
			skip := false
			for k := 1; k < u.R; k++ {
				assign[k] = y % 32
				y /= 32
			}
			if u.R == 4 && quickR4 {
				b1 := 0
				for k := 1; k < u.R; k++ {
					b1 |= ((assign[k] >> 4) & 1) << uint(k-1)
				}
				if b1 != 0 {
					skip = true
				}
			}
			if u.missing {
				// only differs from the plain variant when some peer is empty
				any := false
				for k := 0; k < u.R; k++ {
					if k != u.syncer && assign[k] == 0 {
						any = true
					}
				}
				if !any {
					skip = true
				}
			}
			if skip {
				continue
			}
			if x%4096 == 0 && c.Expired() {
				return
			}
			g.run(c, u.kind, u.syncer, u.missing, assign)
			if x%997 == 0 {
				c.Sample(c11Case{R: u.R, Shard: u.shard, View: c11ViewKind(u.kind), Syncer: u.syncer, Missing: u.missing, Assign: append([]int(nil), assign...)}.String())
			}
		}
		emit([]byte(fmt.Sprint(atomic.LoadInt64(&c11NoTrigger) - before)))
	}, func(rec []byte) {
		var n int64
		fmt.Sscan(string(rec), &n)
		noTrigger += n
	})
	for _, g := range groups {
		g.Close()
	}
	c.AddValidated(c.Evaluations)
	c.Extra("cases_without_known_defect_trigger", noTrigger)
	c.Assume("replica contents limited to a 5-position universe (rows 0,1,99 | 100; columns 0,1,ShardWidth-1) — the merge is position-relative")
	c.Assume("message delivery is in-process and reliable; a pass that completes is what the statement quantifies over")
	if c.Finish() != 0 {
		t.Fail()
	}
}
