package pilosa

// C22 — Cluster resize completes or aborts cleanly without stalling.
// The REAL coordinator cluster (listenForJoins running, a real small holder with data, a harness
// broadcaster that records resize instructions) is driven by event threads: node join / leave,
// one completion handler per recorded instruction (success or error), duplicated and late
// completions, a completion for an unknown job, ResizeAbort, a failing instruction send. Every
// interleaving of the handler goroutines and the job loop at lock granularity (preemption bound)
// is executed under vsched. Oracle at quiescence of every execution: no deadlock / panic / handler
// blocked for ever; at most one job was running at any send; the member list changed only if every
// node of the target membership reported success; the cluster is not left RESIZING once the job
// ended.

import (
	"fmt"
	"os"
	"sort"
	"strings"
	"sync/atomic"
	"testing"
	"testing/synctest"
	"time"

	"github.com/pilosa/pilosa/internal/vsched"
	"github.com/pilosa/pilosa/internal/vx"
)

type c22ModHasher struct{}

func (c22ModHasher) Hash(key uint64, n int) int { return int(key) % n }

// scenario description
type c22Scenario struct {
	name     string
	leave    bool     // leave(B) instead of join(C)
	second   bool     // a second membership event (join(D)) while the first resize may be running
	errNode  string   // this node's completion carries an error ("" none)
	dupNode  string   // this node's completion is delivered twice
	dupErr   bool     // ... the duplicate carries an error (late error)
	unknown  bool     // a completion for a job id nobody issued
	abort    bool     // ResizeAbort request
	failSend string   // SendTo of the instruction to this node fails
	rejoin   string   // a NodeJoin event for this EXISTING member (a node that restarted) — makes the coordinator recompute the cluster state
	nodeState string  // "id:state": a node-state message that changes that member's state — the other recomputation trigger
	replicaN int
}

type c22World struct {
	sc       c22Scenario
	x        *vsched.X
	c        *cluster
	h        *Holder
	instr    map[string]*ResizeInstruction // by target node id (last job)
	okFrom   map[string]bool               // nodes whose SUCCESS completion was accepted (returned nil), any job
	instrJ   map[int64]map[string]bool     // per job: nodes that received an instruction
	okJ      map[int64]map[string]bool     // per job: nodes whose success completion was accepted
	jobsSeen map[int64]bool
	multiRun string // non-empty: two jobs RUNNING at once observed
	earlyLeft string // non-empty: the cluster left RESIZING at a moment that is not the end of a job
	lastState string // previous broadcast cluster state (RESIZING or not)
	lastCode  int32  // 0 none yet, 1 not RESIZING, 2 RESIZING (atomic)
	sendFailedJob int64 // id of the job whose instruction distribution failed (atomic; 0 none)
	seenJobs map[int64]bool // every job id ever observed in the coordinator's table or in an instruction
	seenLock int32          // spin lock for seenJobs (the status deliveries run in plain goroutines)
	reported map[string]bool // nodes whose (first) completion has been handed to the coordinator
	startMembers string
	earlyMember  string // non-empty: the member list changed before an instruction holder reported
	dir          string // scratch directory of this world (removed after the execution)
	endedAtEnter int // number of ended jobs when RESIZING was entered
	handlerErr []string
	abortAccepted map[int64]bool // jobs in state ABORTED at the moment an abort request was ACCEPTED (returned nil)
	nextID   int32
}

// SendSync sees every cluster-state broadcast of the coordinator. Invariant 2 ("the cluster leaves the
// resizing state WHEN THE JOB ENDS"): a transition out of RESIZING must coincide with the end of a job —
// it is a violation if no job has ended (DONE / ABORTED) since the cluster entered RESIZING, or if a
// job is still RUNNING at that moment.
func (w *c22World) SendSync(m Message) error { return nil }

// sawStatus: the coordinator broadcasts a ClusterStatus to every other node through SendTo from
// errgroup goroutines while it holds cluster.mu and waits for them — so the deliveries of ONE
// broadcast may run in parallel (the atomic swap lets exactly one of them judge the transition) and
// different broadcasts are ordered by cluster.mu.
func (w *c22World) sawStatus(cs *ClusterStatus) {
	code := int32(1)
	if cs.State == ClusterStateResizing {
		code = 2
	}
	old := atomic.SwapInt32(&w.lastCode, code)
	if old == code {
		return
	}
	w.lastState = map[int32]string{0: "", 1: "not-RESIZING", 2: ClusterStateResizing}[old]
	// A job has ended when the coordinator recorded DONE / ABORTED for it, when its instruction
	// distribution failed, or when it was known (it distributed instructions) and the coordinator no
	// longer keeps it at all (an implementation may drop finished jobs from its table).
	ended, running := 0, 0
	failed := atomic.LoadInt64(&w.sendFailedJob)
	for !atomic.CompareAndSwapInt32(&w.seenLock, 0, 1) {
	}
	for id := range w.c.jobs {
		w.seenJobs[id] = true
	}
	for id := range w.seenJobs {
		j := w.c.jobs[id]
		switch {
		case j == nil || j.state == resizeJobStateDone || j.state == resizeJobStateAborted || (failed != 0 && id == failed):
			ended++
		case j.state == resizeJobStateRunning:
			running++
		}
	}
	atomic.StoreInt32(&w.seenLock, 0)
	switch {
	case cs.State == ClusterStateResizing && w.lastState != ClusterStateResizing:
		w.endedAtEnter = ended
	case cs.State != ClusterStateResizing && w.lastState == ClusterStateResizing:
		if (ended == w.endedAtEnter || running > 0) && w.earlyLeft == "" {
			w.earlyLeft = fmt.Sprintf("the coordinator broadcast %s although no resize job has ended since it entered RESIZING (jobs ended before/now: %d/%d, running: %d)", cs.State, w.endedAtEnter, ended, running)
		}
	}
}
func (w *c22World) SendAsync(m Message) error { return nil }

// SendTo records resize instructions and spawns the completion handler thread(s) for them, the way
// Server.receiveMessage would run markResizeInstructionComplete in its own goroutine per message.
func (w *c22World) SendTo(n *Node, m Message) error {
	if cs, ok := m.(*ClusterStatus); ok {
		w.sawStatus(cs)
		return nil
	}
	in, ok := m.(*ResizeInstruction)
	if !ok {
		return nil
	}
	if w.sc.failSend == n.ID {
		// the job gives up (run() delivers ABORTED and returns the error): it has ended, although the
		// coordinator never records a final state for it
		atomic.StoreInt64(&w.sendFailedJob, in.JobID)
		return fmt.Errorf("send to %s failed", n.ID)
	}
	// invariant 1: when a job distributes instructions no OTHER job may be running
	for id, j := range w.c.jobs {
		if id != in.JobID && j.state == resizeJobStateRunning {
			w.multiRun = fmt.Sprintf("job %d distributes while job %d is RUNNING", in.JobID, id)
		}
	}
	w.instr[n.ID] = in
	for !atomic.CompareAndSwapInt32(&w.seenLock, 0, 1) {
	}
	w.seenJobs[in.JobID] = true
	atomic.StoreInt32(&w.seenLock, 0)
	if w.instrJ[in.JobID] == nil {
		w.instrJ[in.JobID] = map[string]bool{}
	}
	w.instrJ[in.JobID][n.ID] = true
	base := map[string]int{"A": 10, "B": 11, "C": 12, "D": 13}[n.ID]
	node := in.Node
	jobID := in.JobID
	errText := ""
	if w.sc.errNode == n.ID {
		errText = "remote resize failed"
	}
	w.x.GoID(base, "complete("+n.ID+")", func() { w.complete(jobID, node, errText) })
	if w.sc.dupNode == n.ID {
		e2 := errText
		if w.sc.dupErr {
			e2 = "late failure"
		}
		w.x.GoID(base+10, "dup-complete("+n.ID+")", func() { w.complete(jobID, node, e2) })
	}
	return nil
}

func (w *c22World) complete(jobID int64, node *Node, errText string) {
	// "the member list changes only AFTER every node of the target membership has reported success":
	// while a holder of this job's instructions is only now about to report, the member list must still
	// be the one the job started from (single-job scenarios; with two joins job 1 legitimately changes it)
	if !w.sc.second && !w.reported[node.ID] && w.earlyMember == "" {
		if m := c22Members(w.c); m != w.startMembers {
			w.earlyMember = fmt.Sprintf("members are already %s (started from %s) while %s has not reported for job %d yet", m, w.startMembers, node.ID, jobID)
		}
	}
	w.reported[node.ID] = true
	err := w.c.markResizeInstructionComplete(&ResizeInstructionComplete{JobID: jobID, Node: node, Error: errText})
	if err == nil && errText == "" {
		w.okFrom[node.ID] = true
		if w.okJ[jobID] == nil {
			w.okJ[jobID] = map[string]bool{}
		}
		w.okJ[jobID][node.ID] = true
	}
}

func c22Node(id string) *Node {
	return &Node{ID: id, URI: URI{Scheme: "http", Host: "host" + id, Port: 10101}}
}

func c22Build(sc c22Scenario, x *vsched.X) *c22World {
	dir := vx.Scratch()
	h := NewHolder()
	h.Path = dir + "/data"
	if err := h.Open(); err != nil {
		panic(err)
	}
	idx, err := h.CreateIndex("i", IndexOptions{})
	if err != nil {
		panic(err)
	}
	f, err := idx.CreateField("f", OptFieldTypeDefault())
	if err != nil {
		panic(err)
	}
	for s := uint64(0); s < 4; s++ {
		if _, err := f.SetBit(1, s*ShardWidth+1, nil); err != nil {
			panic(err)
		}
	}
	// a second index, alphabetically LAST, whose only shard is one the joining / leaving node C (ring
	// position 2) neither gains nor loses (partition % 3 == 0 with the mod hasher): the resize plan is
	// built index by index, and a node can have work for one index and none for the next
	{
		probe := newCluster()
		zi, err := h.CreateIndex("z", IndexOptions{})
		if err != nil {
			panic(err)
		}
		zf, err := zi.CreateField("f", OptFieldTypeDefault())
		if err != nil {
			panic(err)
		}
		for s := uint64(0); s < 64; s++ {
			if probe.partition("z", s)%3 == 0 {
				if _, err := zf.SetBit(1, s*ShardWidth+1, nil); err != nil {
					panic(err)
				}
				break
			}
		}
	}
	c := newCluster()
	c.ReplicaN = sc.replicaN
	c.Hasher = c22ModHasher{}
	c.Path = dir + "/cluster"
	c.Topology = newTopology()
	c.holder = h
	w := &c22World{dir: dir, sc: sc, x: x, c: c, h: h, instr: map[string]*ResizeInstruction{}, okFrom: map[string]bool{},
		instrJ: map[int64]map[string]bool{}, okJ: map[int64]map[string]bool{}, seenJobs: map[int64]bool{}, reported: map[string]bool{}, abortAccepted: map[int64]bool{}}
	c.broadcaster = w
	for _, id := range []string{"A", "B"} {
		n := c22Node(id)
		n.State = nodeStateReady
		if id == "A" {
			n.IsCoordinator = true
		}
		c.nodes = append(c.nodes, n)
		c.Topology.nodeIDs = append(c.Topology.nodeIDs, id)
	}
	if sc.leave {
		n := c22Node("C")
		n.State = nodeStateReady
		c.nodes = append(c.nodes, n)
		c.Topology.nodeIDs = append(c.Topology.nodeIDs, "C")
	}
	c.Node = c.nodes[0]
	c.Coordinator = "A"
	w.startMembers = c22Members(c)
	c.SetState(ClusterStateNormal)
	c.listenForJoins()
	return w
}

func c22Members(c *cluster) string {
	var ids []string
	for _, n := range c.nodes {
		ids = append(ids, n.ID)
	}
	sort.Strings(ids)
	return strings.Join(ids, "")
}

func c22Scenarios(thorough bool) []c22Scenario {
	var out []c22Scenario
	rs := []int{2}
	if thorough {
		rs = []int{1, 2}
	}
	for _, r := range rs {
		out = append(out,
			c22Scenario{name: "join", replicaN: r},
			c22Scenario{name: "join+dup-success(C)", dupNode: "C", replicaN: r},
			c22Scenario{name: "join+error(C)", errNode: "C", replicaN: r},
			c22Scenario{name: "join+late-error(C)", dupNode: "C", dupErr: true, replicaN: r},
			c22Scenario{name: "join+error(C)+dup-error(C)", errNode: "C", dupNode: "C", replicaN: r},
			c22Scenario{name: "join+abort", abort: true, replicaN: r},
			c22Scenario{name: "join+unknown-job", unknown: true, replicaN: r},
			c22Scenario{name: "join+send-fails(C)", failSend: "C", replicaN: r},
			c22Scenario{name: "leave", leave: true, replicaN: r},
			c22Scenario{name: "leave+dup-success(A)", leave: true, dupNode: "A", replicaN: r},
			c22Scenario{name: "leave+abort", leave: true, abort: true, replicaN: r},
			c22Scenario{name: "join+join", second: true, replicaN: r},
			// events that make the coordinator RECOMPUTE the cluster state while a resize is queued / running
			c22Scenario{name: "join+rejoin(B)", rejoin: "B", replicaN: r},
			c22Scenario{name: "join+nodestate(B)", nodeState: "B:" + nodeStateDown, replicaN: r},
			c22Scenario{name: "leave+rejoin(B)", leave: true, rejoin: "B", replicaN: r},
			c22Scenario{name: "join+abort+rejoin(B)", abort: true, rejoin: "B", replicaN: r},
		)
		if thorough {
			out = append(out,
				c22Scenario{name: "join+dup-success(A)", dupNode: "A", replicaN: r},
				c22Scenario{name: "join+error(A)", errNode: "A", replicaN: r},
				c22Scenario{name: "join+abort+dup-success(C)", abort: true, dupNode: "C", replicaN: r},
				c22Scenario{name: "join+join+error(C)", second: true, errNode: "C", replicaN: r},
				c22Scenario{name: "leave+error(A)", leave: true, errNode: "A", replicaN: r},
			)
		}
	}
	return out
}

func TestVerif_C22(t *testing.T) {
	synctest.Test(t, func(t *testing.T) {
		c := vx.NewCheck("C22", "model_checking",
			"for every scenario (join or leave on the real coordinator cluster with a real holder, plus successful / failed / duplicated / late completions, a completion for an unknown job, ResizeAbort, a failing instruction send, a second join) ALL interleavings of the handler goroutines and the resize job loop at lock granularity with at most B preemptions are executed; every execution is judged at quiescence (after a fake-time horizon); distinct = distinct (scenario, end state) pairs")
		scs := c22Scenarios(c.Thorough())
		bound := c.Pick(1, 2)
		c.Bound("preemption_bound", bound)
		c.Bound("scenarios", len(scs))
		var seq int64
		c.ProcFor(c.NextRunLabel(), len(scs), nil, func(_ []byte, si int, emit func([]byte)) {
			sc := scs[si]
			name := fmt.Sprintf("%s r=%d", sc.name, sc.replicaN)
			var w *c22World
			build := func(x *vsched.X) func(tr *vsched.Trace) {
				w = c22Build(sc, x)
				cl := w.c
				if sc.leave {
					x.GoID(0, "leave(C)", func() {
						if err := cl.nodeLeave("C"); err != nil {
							w.handlerErr = append(w.handlerErr, "leave: "+err.Error())
						}
					})
				} else {
					x.GoID(0, "join(C)", func() {
						n := c22Node("C")
						n.State = nodeStateReady
						if err := cl.nodeJoin(n); err != nil {
							w.handlerErr = append(w.handlerErr, "join: "+err.Error())
						}
					})
				}
				if sc.second {
					x.GoID(1, "join(D)", func() {
						n := c22Node("D")
						n.State = nodeStateReady
						if err := cl.nodeJoin(n); err != nil {
							w.handlerErr = append(w.handlerErr, "join D: "+err.Error())
						}
					})
				}
				if sc.abort {
					x.GoID(2, "abort", func() {
						if err := cl.completeCurrentJob(resizeJobStateAborted); err == nil {
							// the abort request was ACCEPTED: whichever job it hit is ABORTED for good (setState
							// never leaves ABORTED) and must not change the member list afterwards
							for id, j := range cl.jobs {
								if j.state == resizeJobStateAborted {
									w.abortAccepted[id] = true
								}
							}
						}
					})
				}
				if sc.rejoin != "" {
					x.GoID(4, "rejoin("+sc.rejoin+")", func() {
						n := c22Node(sc.rejoin)
						n.State = nodeStateReady
						if err := cl.nodeJoin(n); err != nil {
							w.handlerErr = append(w.handlerErr, "rejoin: "+err.Error())
						}
					})
				}
				if sc.nodeState != "" {
					parts := strings.SplitN(sc.nodeState, ":", 2)
					x.GoID(5, "nodestate("+sc.nodeState+")", func() { _ = cl.receiveNodeState(parts[0], parts[1]) })
				}
				if sc.unknown {
					x.GoID(3, "complete(unknown job)", func() {
						_ = cl.markResizeInstructionComplete(&ResizeInstructionComplete{JobID: 424242, Node: c22Node("C")})
					})
				}
				return nil
			}
			opt := vsched.Options{Horizon: 30 * time.Second, Tick: 5 * time.Second, MaxStep: 4000, Reduce: true}
			maxExec := int64(c.Pick(4000, 60000))
			var nexec int64
			st := vsched.Explore(bound, opt, build, func(choices []int, tr *vsched.Trace) bool {
				atomic.AddInt64(&seq, 1)
				if nexec++; nexec > maxExec {
					c.NotExhaustive(fmt.Sprintf("execution cap %d per scenario reached in %q", maxExec, name))
					vx.Guard(func() { close(w.c.closing) })
					vx.Guard(func() { w.h.Close() })
					os.RemoveAll(w.dir)
					return false
				}
				c.AddEval(1)
				c.AddTransitions(int64(tr.Steps))
				cs := map[string]interface{}{"scenario": name, "choices": choices, "schedule": strings.Join(tr.Schedule, " ")}
				key := strings.SplitN(sc.name, " ", 2)[0]
				defer func() {
					// stop the job loop, release the holder and its scratch directory (tens of thousands of
					// executions per scenario: the tmpfs runs out of inodes otherwise)
					vx.Guard(func() { close(w.c.closing) })
					vx.Guard(func() { w.h.Close() })
					os.RemoveAll(w.dir)
				}()
				switch {
				case tr.Diverged != "":
					c.Extra("diverged", name+": "+tr.Diverged)
					c.NotExhaustive("a schedule prefix did not replay deterministically: " + name)
					return true
				case len(tr.Panics) > 0:
					c.Violate("panic "+key, cs, strings.Join(tr.Panics, " ; "), "no panic")
					return false
				case tr.Deadlock != "":
					c.Violate("deadlock "+key, cs, tr.Deadlock, "no deadlock: every handler and the job loop make progress")
					return false
				case len(tr.Leaked) > 0:
					c.Violate("handler-blocked-forever "+key, cs, strings.Join(tr.Leaked, " ; "), "every message handler returns")
					return false
				}
				cl := w.c
				members := c22Members(cl)
				running := 0
				jobEnded := cl.currentJob == nil
				for _, j := range cl.jobs {
					if j.state == resizeJobStateRunning {
						running++
					}
				}
				end := fmt.Sprintf("members=%s state=%s currentJob=%v running=%d okFrom=%v", members, cl.state, cl.currentJob != nil, running, c22Keys(w.okFrom))
				c.Outcome(end)
				c.Distinct(name + "|" + end)
				if w.earlyMember != "" {
					c.Violate("membership-changed-before-all-success "+key, cs, w.earlyMember+" ; "+end, "the member list changes only after every instruction holder has reported success")
					return false
				}
				if w.earlyLeft != "" {
					c.Violate("left-RESIZING-while-job-active "+key, cs, w.earlyLeft+" ; "+end, "the cluster is RESIZING from the moment the membership change is accepted until the job ends")
					return false
				}
				if w.multiRun != "" || running > 1 {
					c.Violate("two-jobs-running "+key, cs, w.multiRun+" "+end, "at most one resize job running")
					return false
				}
				// membership changed => every node of the target membership reported success
				start := "AB"
				if sc.leave {
					start = "ABC"
				}
				// Judged per job (several jobs may have run, e.g. join C aborted, then join D): a job that
				// ended DONE is the only thing that may change the member list, and it may do so only if
				// every node that received one of ITS instructions reported success for IT.
				doneJobs := 0
				for id, j := range cl.jobs {
					if j.state != resizeJobStateDone {
						continue
					}
					doneJobs++
					var holders []string
					for n := range w.instrJ[id] {
						holders = append(holders, n)
					}
					sort.Strings(holders)
					for _, n := range holders {
						if !w.okJ[id][n] {
							c.Violate("membership-changed-without-all-success "+key, cs, end+fmt.Sprintf(" job %s finished DONE but instruction-holder %s did not report success for it", j.action, n), "job not completed")
							return false
						}
					}
				}
				// ... and, independently of how long the coordinator keeps finished jobs in its table: every
				// change of the member list needs a job ALL of whose instruction holders reported success
				// (a job that never had to send an instruction counts as such)
				changes := 0
				for _, id := range []string{"A", "B", "C", "D"} {
					if strings.Contains(members, id) != strings.Contains(start, id) {
						changes++
					}
				}
				fully := 0
				for id := range w.seenJobs {
					ok := true
					for n := range w.instrJ[id] {
						ok = ok && w.okJ[id][n]
					}
					// a job whose abort request was accepted has ended ABORTED: it licenses no change, even
					// if all its holders had reported success before the abort arrived
					ok = ok && !w.abortAccepted[id]
					if ok {
						fully++
					}
				}
				_ = doneJobs
				if changes > fully {
					c.Violate("membership-changed-without-all-success "+key, cs, end+fmt.Sprintf(" %d membership change(s) but only %d job(s) whose instruction holders all reported success", changes, fully), "member list unchanged")
					return false
				}
				if jobEnded && cl.state == ClusterStateResizing {
					c.Violate("stuck-in-RESIZING "+key, cs, end, "cluster leaves RESIZING when the job has ended (all handlers returned, horizon of fake time elapsed)")
					return false
				}
				return true
			}, nil)
			if st.Executions > 0 {
				c.Sample(map[string]interface{}{"scenario": name, "schedules": st.Executions, "by_preemptions": st.ByBound, "max_decisions": st.MaxDecisions, "max_steps": st.MaxSteps})
			}
			c.AddStates(int64(st.Executions))
		}, nil)
		c.AddValidated(c.Evaluations)
		c.Assume("lock-level interleavings (channel hand-offs not split); 2-3 node coordinator-side view, remote nodes are the harness; go1.26.8 testing/synctest fake clock; horizon 30 s of fake time for quiescence")
		code := c.Finish()
		os.Exit(code)
	})
}

func c22Keys(m map[string]bool) string {
	var ks []string
	for k, v := range m {
		if v {
			ks = append(ks, k)
		}
	}
	sort.Strings(ks)
	return strings.Join(ks, "")
}
