package pilosa

// Process-sharded exploration for C24.
//
// Every explored sequence opens and closes several mmap-backed TranslateFiles. Inside ONE
// multi-threaded process mmap/munmap serialise (address-space lock + TLB shoot-downs to every CPU the
// process ran on), so vx.ParallelFor does not scale for this workload (measured: 546 opens/s with 1
// worker, 590 opens/s with 16). The parent test therefore re-executes the test binary as
// single-threaded child processes (GOMAXPROCS=1); children claim work units (DFS prefixes / BFS paths)
// from a flock'd counter file, run them on the real code exactly like vx.RunDFS / vx.RunBFS would,
// and report counts, end-state fingerprints and violations as JSON. The parent merges them through the
// ordinary vx.Check API and confirms (minimises, replays 5x) every violation in-process.

import (
	"crypto/sha1"
	"encoding/hex"
	"encoding/json"
	"fmt"
	"os"
	"os/exec"
	"path/filepath"
	"sort"
	"strconv"
	"strings"
	"sync"
	"syscall"
	"time"

	"github.com/pilosa/pilosa/internal/vx"
)

const (
	c24PxEnv  = "C24_CHILD"
	c24PxTest = "^TestVerif_C24$"
)

var c24PxStart = time.Now()

// c24PxStall: a child that does not complete a sequence (or claim a unit) for this long is considered hung.
const c24PxStall = 5 * time.Minute

// c24PxCollect, if set, lets a child hand extra key/values to the parent.
var c24PxCollect func() map[string]string

// c24PxVariant, if set, maps a job's variant number to the harness the children must use.
var c24PxVariant func(v int) *vx.Harness

// c24PxSeedOps, if set, gives the operations a variant's New() has already applied; they are prepended
// to the paths of that variant's violations so that every reported path starts from the empty state.
var c24PxSeedOps func(v int) []vx.Op

// c24PxCustom, if set, runs one unit of a "custom" job in a child (harness-specific enumeration).
var c24PxCustom func(unit []int, expired func() bool) (evals int64, distinct []string, viols []c24PxCustomViol)

type c24PxCustomViol struct {
	Key  string `json:"key"`
	Case string `json:"case"`
	Got  string `json:"got"`
	Want string `json:"want"`
}

type c24PxJob struct {
	Mode       string  `json:"mode"` // "dfs": units are prefixes, all extensions to Depth; "paths": units are whole paths
	Depth      int     `json:"depth"`
	Units      [][]int `json:"units"`
	DeadlineMs int64   `json:"deadline_unix_ms"`
	Variant    int     `json:"variant"` // which harness variant (alphabet / initial state) the units refer to
}

type c24PxViol struct {
	Path []int  `json:"path"`
	Got  string `json:"got"`
	Want string `json:"want"`
}

type c24PxRes struct {
	Unit int    `json:"u"`
	FP   string `json:"fp"`
	Got  string `json:"got"`
}

type c24PxOut struct {
	Seqs     int64             `json:"seqs"`
	Trans    int64             `json:"trans"`
	FPs      []string          `json:"fps"`
	Outcomes []string          `json:"outcomes"`
	Viols    []c24PxViol       `json:"viols"`
	Res      []c24PxRes        `json:"res"`
	Samples  []string          `json:"samples"`
	Expired  bool              `json:"expired"`
	KV       map[string]string `json:"kv"`
	Custom   []c24PxCustomViol `json:"custom"`
}

func c24PxHash(s string) string {
	h := sha1.Sum([]byte(s))
	return hex.EncodeToString(h[:10])
}

func c24PxOps(h *vx.Harness, idx []int) []vx.Op {
	p := make([]vx.Op, len(idx))
	for i, a := range idx {
		p[i] = h.Alphabet[a]
	}
	return p
}

// ---------------------------------------------------------------------------------------------
// child

type c24PxChildState struct {
	h        *vx.Harness
	job      c24PxJob
	out      c24PxOut
	fps      map[string]struct{}
	outcomes map[string]struct{}
	prog     string    // progress file (liveness record for the parent)
	unit     int       // unit in progress
	touched  time.Time // last time the progress file was rewritten
}

// alive rewrites the progress file (at most once a second): "a sequence was completed just now".
func (s *c24PxChildState) alive() {
	if time.Since(s.touched) > time.Second {
		os.WriteFile(s.prog, []byte(strconv.Itoa(s.unit)), 0o666)
		s.touched = time.Now()
	}
}

func (s *c24PxChildState) expired() bool {
	if s.job.DeadlineMs > 0 && time.Now().UnixMilli() > s.job.DeadlineMs {
		s.out.Expired = true
		return true
	}
	return false
}

// c24PxChild runs the child side when the environment says so; returns true if it did.
func c24PxChild(h *vx.Harness) bool {
	dir := os.Getenv(c24PxEnv)
	if dir == "" {
		return false
	}
	id := os.Getenv(c24PxEnv + "_ID")
	var s c24PxChildState
	s.h = h
	b, err := os.ReadFile(filepath.Join(dir, "job.json"))
	if err != nil {
		panic(err)
	}
	if err := json.Unmarshal(b, &s.job); err != nil {
		panic(err)
	}
	if c24PxVariant != nil {
		s.h = c24PxVariant(s.job.Variant)
	}
	s.fps, s.outcomes = map[string]struct{}{}, map[string]struct{}{}
	q, err := os.OpenFile(filepath.Join(dir, "next"), os.O_RDWR|os.O_CREATE, 0o666)
	if err != nil {
		panic(err)
	}
	defer q.Close()
	claim := func() int {
		if err := syscall.Flock(int(q.Fd()), syscall.LOCK_EX); err != nil {
			panic(err)
		}
		defer syscall.Flock(int(q.Fd()), syscall.LOCK_UN)
		buf := make([]byte, 32)
		n, _ := q.ReadAt(buf, 0)
		v, _ := strconv.Atoi(strings.TrimSpace(string(buf[:n])))
		if _, err := q.WriteAt([]byte(fmt.Sprintf("%-31d\n", v+1)), 0); err != nil {
			panic(err)
		}
		return v
	}
	prog := filepath.Join(dir, "progress-"+id)
	s.prog = prog
	for !s.expired() {
		u := claim()
		if u >= len(s.job.Units) {
			break
		}
		os.WriteFile(prog, []byte(strconv.Itoa(u)), 0o666)
		s.unit, s.touched = u, time.Now()
		switch s.job.Mode {
		case "dfs":
			s.dfsUnit(s.job.Units[u])
		case "paths":
			s.path(u, s.job.Units[u])
		case "custom":
			ev, ds, vs := c24PxCustom(s.job.Units[u], func() bool { s.alive(); return s.expired() })
			s.out.Seqs += ev
			for _, d := range ds {
				s.fps[c24PxHash(d)] = struct{}{}
			}
			s.out.Custom = append(s.out.Custom, vs...)
		}
	}
	os.WriteFile(prog, []byte("-1"), 0o666)
	for k := range s.fps {
		s.out.FPs = append(s.out.FPs, k)
	}
	for k := range s.outcomes {
		s.out.Outcomes = append(s.out.Outcomes, k)
	}
	sort.Strings(s.out.FPs)
	sort.Strings(s.out.Outcomes)
	if c24PxCollect != nil {
		s.out.KV = c24PxCollect()
	}
	ob, _ := json.Marshal(&s.out)
	tmp := filepath.Join(dir, "out-"+id+".tmp")
	if err := os.WriteFile(tmp, ob, 0o666); err != nil {
		panic(err)
	}
	if err := os.Rename(tmp, filepath.Join(dir, "out-"+id+".json")); err != nil {
		panic(err)
	}
	return true
}

// dfsUnit: every sequence of length Depth that starts with prefix; a path is not extended beyond its
// first violation (same rule as vx.RunDFS).
func (s *c24PxChildState) dfsUnit(prefix []int) {
	A := s.h.Alphabet
	depth, d0 := s.job.Depth, len(prefix)
	idx := make([]int, depth)
	copy(idx, prefix)
	bad := map[string]struct{}{}
	enc := func(ix []int) string {
		b := make([]byte, 0, len(ix)*2)
		for _, i := range ix {
			b = append(b, byte(i>>8), byte(i))
		}
		return string(b)
	}
	for {
		if s.expired() {
			return
		}
		skipAt := -1
		if len(bad) > 0 {
			for l := 1; l <= depth; l++ {
				if _, ok := bad[enc(idx[:l])]; ok {
					skipAt = l
					break
				}
			}
		}
		if skipAt < 0 {
			failAt := -1
			inst := s.h.New()
			var got, want string
			n := 0
			pan := vx.Guard(func() {
				for l := 0; l < depth; l++ {
					n = l + 1
					got, want = inst.Apply(A[idx[l]])
					s.out.Trans++
					if got != want {
						failAt = l + 1
						return
					}
				}
			})
			if pan != "" {
				failAt, got, want = n, pan, "no panic"
			}
			if failAt > 0 {
				s.out.Viols = append(s.out.Viols, c24PxViol{append([]int(nil), idx[:failAt]...), got, want})
				bad[enc(idx[:failAt])] = struct{}{}
			} else {
				fp := inst.Fingerprint()
				if fp == "" {
					fp = enc(idx)
				}
				s.fps[c24PxHash(fp)] = struct{}{}
				s.outcomes[c24PxHash(got)] = struct{}{}
				if s.out.Seqs%2048 == 0 && len(s.out.Samples) < 4 {
					s.out.Samples = append(s.out.Samples, vx.PathString(c24PxOps(s.h, idx)))
				}
			}
			vx.Guard(inst.Close)
			s.out.Seqs++
			s.alive()
			skipAt = failAt
		}
		pos := depth - 1
		if skipAt > 0 {
			pos = skipAt - 1
			for j := pos + 1; j < depth; j++ {
				idx[j] = 0
			}
		}
		for pos >= d0 {
			idx[pos]++
			if idx[pos] < len(A) {
				break
			}
			idx[pos] = 0
			pos--
		}
		if pos < d0 {
			return
		}
	}
}

// path: one whole path (BFS transition = shortest path to a state + one op).
func (s *c24PxChildState) path(u int, idx []int) {
	A := s.h.Alphabet
	inst := s.h.New()
	var got, want string
	failAt, n := -1, 0
	pan := vx.Guard(func() {
		for l := range idx {
			n = l + 1
			got, want = inst.Apply(A[idx[l]])
			if got != want {
				failAt = l + 1
				return
			}
		}
	})
	s.out.Trans++
	s.out.Seqs++
	if pan != "" {
		failAt, got, want = n, pan, "no panic"
	}
	if failAt > 0 {
		s.out.Viols = append(s.out.Viols, c24PxViol{append([]int(nil), idx[:failAt]...), got, want})
	} else {
		s.out.Res = append(s.out.Res, c24PxRes{u, c24PxHash(inst.Fingerprint()), c24PxHash(got)})
	}
	vx.Guard(inst.Close)
}

// ---------------------------------------------------------------------------------------------
// parent

func c24PxDeadlineMs() int64 {
	if s := os.Getenv("VERIF_DEADLINE_S"); s != "" {
		if n, err := strconv.Atoi(s); err == nil && n > 0 {
			return c24PxStart.Add(time.Duration(n) * time.Second).UnixMilli()
		}
	}
	return 0
}

// c24PxSpawn runs the job on child processes and returns their outputs. A child that dies is turned
// into a violation carrying the unit it was working on.
func c24PxSpawn(c *vx.Check, h *vx.Harness, job c24PxJob, kv map[string]string) []c24PxOut {
	dir := vx.Scratch()
	defer os.RemoveAll(dir)
	job.DeadlineMs = c24PxDeadlineMs()
	jb, _ := json.Marshal(&job)
	if err := os.WriteFile(filepath.Join(dir, "job.json"), jb, 0o666); err != nil {
		panic(err)
	}
	exe, err := os.Executable()
	if err != nil {
		panic(err)
	}
	n := vx.Workers()
	if n > len(job.Units) {
		n = len(job.Units)
	}
	var env []string
	for _, e := range os.Environ() {
		if strings.HasPrefix(e, "VERIF_RESULT=") || strings.HasPrefix(e, "VERIF_WORKERS=") || strings.HasPrefix(e, "GOMAXPROCS=") ||
			strings.HasPrefix(e, "VERIF_SCRATCH=") || strings.HasPrefix(e, c24PxEnv) {
			continue
		}
		env = append(env, e)
	}
	var wg sync.WaitGroup
	errs := make([]error, n)
	for i := 0; i < n; i++ {
		wg.Add(1)
		go func(i int) {
			defer wg.Done()
			cmd := exec.Command(exe, "-test.run", c24PxTest, "-test.count=1", "-test.timeout", "0")
			cmd.Env = append(append([]string(nil), env...), c24PxEnv+"="+dir, c24PxEnv+"_ID="+strconv.Itoa(i),
				"GOMAXPROCS=1", "VERIF_WORKERS=1", "VERIF_SCRATCH="+filepath.Join(dir, "s"+strconv.Itoa(i)))
			lf, err := os.Create(filepath.Join(dir, fmt.Sprintf("log-%d.txt", i)))
			if err != nil {
				errs[i] = err
				return
			}
			defer lf.Close()
			cmd.Stdout, cmd.Stderr = lf, lf
			if err := cmd.Start(); err != nil {
				errs[i] = err
				return
			}
			done := make(chan error, 1)
			go func() { done <- cmd.Wait() }()
			// Liveness guard: a child that has not started a new unit for a long time (an endless
			// probe loop in a hash table, a blocked stream …) is asked for its goroutine dump and
			// killed; the parent reports the unit it was working on.
			prog := filepath.Join(dir, "progress-"+strconv.Itoa(i))
			tick := time.NewTicker(5 * time.Second)
			defer tick.Stop()
			started := time.Now()
			for {
				select {
				case errs[i] = <-done:
					return
				case <-tick.C:
					last := started
					if fi, err := os.Stat(prog); err == nil {
						last = fi.ModTime()
					}
					if time.Since(last) > c24PxStall {
						cmd.Process.Signal(syscall.SIGQUIT)
						select {
						case <-done:
						case <-time.After(10 * time.Second):
							cmd.Process.Kill()
							<-done
						}
						errs[i] = fmt.Errorf("stalled: no explored sequence completed for %v", c24PxStall)
						return
					}
				}
			}
		}(i)
	}
	wg.Wait()
	var outs []c24PxOut
	for i := 0; i < n; i++ {
		var o c24PxOut
		b, rerr := os.ReadFile(filepath.Join(dir, fmt.Sprintf("out-%d.json", i)))
		if rerr == nil {
			rerr = json.Unmarshal(b, &o)
		}
		if errs[i] != nil || rerr != nil {
			// the child died (SIGSEGV/SIGBUS on a mapping, fatal error, os.Exit in the code under test …)
			lg, _ := os.ReadFile(filepath.Join(dir, fmt.Sprintf("log-%d.txt", i)))
			tail := string(lg)
			if len(tail) > 1500 {
				tail = tail[len(tail)-1500:]
			}
			pb, _ := os.ReadFile(filepath.Join(dir, "progress-"+strconv.Itoa(i)))
			u, _ := strconv.Atoi(strings.TrimSpace(string(pb)))
			var ops []vx.Op
			if u >= 0 && u < len(job.Units) {
				ops = c24PxOps(h, job.Units[u])
			}
			first := "?"
			for _, l := range strings.Split(string(lg), "\n") {
				if strings.HasPrefix(l, "SIGQUIT") {
					first = "stalled"
					break
				}
				if strings.HasPrefix(l, "fatal error:") || strings.HasPrefix(l, "panic:") || strings.HasPrefix(l, "unexpected fault") || strings.Contains(l, "SIGSEGV") || strings.Contains(l, "SIGBUS") {
					first = l
					break
				}
			}
			c.Violate("process-died "+first, fmt.Sprintf("worker process died (%v) while exploring %s of unit [%s]", errs[i], job.Mode, vx.PathString(ops)), tail, "no crash")
			continue
		}
		for k, v := range o.KV {
			kv[k] = v
		}
		outs = append(outs, o)
	}
	return outs
}

func c24PxMergeViols(c *vx.Check, h *vx.Harness, variant int, outs []c24PxOut) {
	var seed []vx.Op
	if c24PxSeedOps != nil {
		seed = c24PxSeedOps(variant)
	}
	for _, o := range outs {
		for _, v := range o.Custom {
			c.Violate(v.Key, v.Case, v.Got, v.Want)
		}
		for _, v := range o.Viols {
			ops := append(append([]vx.Op(nil), seed...), c24PxOps(h, v.Path)...)
			key := ops[len(ops)-1].Name
			if h.Key != nil {
				key = h.Key(ops, v.Got, v.Want)
			}
			c.Violate(key, ops, v.Got, v.Want)
		}
	}
}

// c24PxRunDFS: phase A, all sequences of length depth, on child processes.
func c24PxRunDFS(c *vx.Check, h *vx.Harness, variant, depth int, kv map[string]string) (endStates int) {
	A := len(h.Alphabet)
	if depth < 1 || A == 0 {
		return 0
	}
	c.Bound(fmt.Sprintf("phaseA_v%d_depth", variant), depth)
	c.Bound(fmt.Sprintf("phaseA_v%d_alphabet_size", variant), A)
	var units [][]int
	if depth == 1 {
		for i := 0; i < A; i++ {
			units = append(units, []int{i})
		}
	} else {
		for i := 0; i < A; i++ {
			for j := 0; j < A; j++ {
				units = append(units, []int{i, j})
			}
		}
	}
	outs := c24PxSpawn(c, h, c24PxJob{Mode: "dfs", Depth: depth, Units: units, Variant: variant}, kv)
	var seqs int64
	ends := map[string]struct{}{}
	for _, o := range outs {
		seqs += o.Seqs
		c.AddTransitions(o.Trans)
		for _, fp := range o.FPs {
			c.Distinct(fp)
			ends[fp] = struct{}{}
		}
		for _, oc := range o.Outcomes {
			c.Outcome(oc)
		}
		for _, sm := range o.Samples {
			c.Sample(sm)
		}
		if o.Expired {
			c.NotExhaustive("deadline reached in phase A")
		}
	}
	c.AddEval(seqs)
	c.Extra(fmt.Sprintf("phaseA_v%d_sequences", variant), seqs)
	c.Extra(fmt.Sprintf("phaseA_v%d_distinct_end_states", variant), len(ends))
	c.Extra("worker_processes", vx.Workers())
	c24PxMergeViols(c, h, variant, outs)
	return len(ends)
}

// c24PxRunBFS: phase B, level-synchronous BFS over canonical states; transitions run on child processes.
func c24PxRunBFS(c *vx.Check, h *vx.Harness, variant, depth, maxStates int, kv map[string]string) {
	A := len(h.Alphabet)
	c.Bound("phaseB_depth", depth)
	c.Bound("phaseB_max_states", maxStates)
	root := h.New()
	fp0 := root.Fingerprint()
	vx.Guard(root.Close)
	if fp0 == "" {
		return
	}
	seen := map[string]struct{}{c24PxHash(fp0): {}}
	frontier := [][]int{{}}
	var states, trans int64 = 1, 0
	level := 0
	for d := 0; d < depth && len(frontier) > 0; d++ {
		units := make([][]int, 0, len(frontier)*A)
		for _, p := range frontier {
			for a := 0; a < A; a++ {
				units = append(units, append(append([]int(nil), p...), a))
			}
		}
		outs := c24PxSpawn(c, h, c24PxJob{Mode: "paths", Units: units, Variant: variant}, kv)
		res := make([]*c24PxRes, len(units))
		expired := false
		for i := range outs {
			o := &outs[i]
			trans += o.Trans
			for j := range o.Res {
				res[o.Res[j].Unit] = &o.Res[j]
			}
			expired = expired || o.Expired
		}
		c24PxMergeViols(c, h, variant, outs)
		var next [][]int
		capped := false
		for u, r := range res { // unit order = deterministic
			if r == nil {
				continue
			}
			c.Outcome(r.Got)
			if _, ok := seen[r.FP]; ok {
				continue
			}
			if len(seen) >= maxStates {
				capped = true
				continue
			}
			seen[r.FP] = struct{}{}
			c.Distinct(r.FP)
			states++
			next = append(next, units[u])
			if states%512 == 0 {
				c.Sample(vx.PathString(c24PxOps(h, units[u])))
			}
		}
		if capped {
			c.NotExhaustive(fmt.Sprintf("phase B state cap %d hit at depth %d", maxStates, d+1))
		}
		if expired {
			c.NotExhaustive(fmt.Sprintf("deadline reached in phase B at depth %d", d+1))
			break
		}
		frontier = next
		level = d + 1
	}
	c.AddStates(states)
	c.AddTransitions(trans)
	c.AddEval(trans)
	c.Extra("phaseB_states", states)
	c.Extra("phaseB_transitions", trans)
	c.Extra("phaseB_depth_completed", level)
	c.Extra("phaseB_frontier_left", len(frontier))
}

// c24PxRunCustom: a harness-specific enumeration, one unit per child claim.
func c24PxRunCustom(c *vx.Check, h *vx.Harness, units [][]int, kv map[string]string) (evals int64) {
	outs := c24PxSpawn(c, h, c24PxJob{Mode: "custom", Units: units}, kv)
	for _, o := range outs {
		evals += o.Seqs
		for _, fp := range o.FPs {
			c.Distinct(fp)
		}
		if o.Expired {
			c.NotExhaustive("deadline reached in the custom phase")
		}
	}
	c.AddEval(evals)
	c24PxMergeViols(c, h, 0, outs)
	return evals
}
