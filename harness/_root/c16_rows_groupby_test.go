package pilosa

// C16 — Rows, GroupBy, MinRow and MaxRow return exact, consistently paged results.
//
// Real system: one in-process node (NewServer + Open + NewAPI; executor worker pool of one), file
// backed holder on tmpfs; everything is observed through API.Query.
//
// Enumerated: datasets = every subset of candidate bits of two set fields (4 rows, columns in three
// shards) x how two "ghost" bits are treated (never written / kept / removed again by Clear, by a
// clearing import, by ClearRow) x write path (Set / Import); on each dataset every Rows call over
// previous x limit x column, MinRow/MaxRow over filters, GroupBy over child lists x limit x offset x
// filter x child limit/column, and paging loops (limit+previous, limit+offset) run to exhaustion
// and compared, concatenated, with the unpaged answer. A second family: every subset of timestamped
// bits of a time field x from/to x limit x previous x column. A third: a bool field.
// Oracle: sorted distinct rows with at least one bit; cross product with exact intersection counts.
// Two defects of the code under test made calls never return (MaxRow with filter, GroupBy over three
// fields); such calls run under guards whose verdict is state/work based, never time based
// (c16Guarded, c16GuardedWork), the runaway goroutine is parked on fragment locks and the node is
// abandoned; once the minimal case confirms a defect, calls predicted to hit it are not executed.

import (
	"context"
	"errors"
	"fmt"
	"math"
	"runtime"
	"sort"
	"strings"
	"sync"
	"testing"
	"time"

	"github.com/pilosa/pilosa/internal/vx"
)

const c16SW = uint64(ShardWidth)

type c16Ser struct{}

func (c16Ser) Marshal(Message) ([]byte, error) { return []byte{0}, nil }
func (c16Ser) Unmarshal([]byte, Message) error { return errors.New("c16: unexpected Unmarshal") }

type c16Env struct {
	srv *Server
	api *API
	seq int
}

var (
	c16PoolMu sync.Mutex
	c16Pool   []*c16Env
	c16All    []*c16Env
)

func c16GetEnv() *c16Env {
	c16PoolMu.Lock()
	if n := len(c16Pool); n > 0 {
		e := c16Pool[n-1]
		c16Pool = c16Pool[:n-1]
		c16PoolMu.Unlock()
		return e
	}
	c16PoolMu.Unlock()
	s, err := NewServer(OptServerDataDir(vx.Scratch()), OptServerIsCoordinator(true), OptServerExecutorPoolSize(1),
		OptServerNodeID("n0"), OptServerSerializer(c16Ser{}))
	if err != nil {
		panic(fmt.Sprintf("c16: NewServer: %v", err))
	}
	if err := s.Open(); err != nil {
		panic(fmt.Sprintf("c16: Server.Open: %v", err))
	}
	api, err := NewAPI(OptAPIServer(s))
	if err != nil {
		panic(fmt.Sprintf("c16: NewAPI: %v", err))
	}
	e := &c16Env{srv: s, api: api}
	c16PoolMu.Lock()
	c16All = append(c16All, e)
	c16PoolMu.Unlock()
	return e
}

func c16PutEnv(e *c16Env) {
	c16PoolMu.Lock()
	c16Pool = append(c16Pool, e)
	c16PoolMu.Unlock()
}

func c16CloseAll() {
	c16PoolMu.Lock()
	defer c16PoolMu.Unlock()
	for _, e := range c16All {
		e.api.Close()
		e.srv.Close()
	}
	c16All, c16Pool = nil, nil
}

func (e *c16Env) query(index, q string) ([]interface{}, error) {
	r, err := e.api.Query(context.Background(), &QueryRequest{Index: index, Query: q})
	return r.Results, err
}

func (e *c16Env) newIndex(timeField bool) string {
	e.seq++
	name := fmt.Sprintf("i%d", e.seq)
	ctx := context.Background()
	if _, err := e.api.CreateIndex(ctx, name, IndexOptions{TrackExistence: true}); err != nil {
		panic(fmt.Sprintf("c16: CreateIndex: %v", err))
	}
	mk := func(f string, opt FieldOption) {
		if _, err := e.api.CreateField(ctx, name, f, opt); err != nil {
			panic(fmt.Sprintf("c16: CreateField %s: %v", f, err))
		}
	}
	if timeField {
		mk("t", OptFieldTypeTime(TimeQuantum("YMD")))
		mk("bf", OptFieldTypeBool())
		mk("a", OptFieldTypeDefault())
	} else {
		mk("a", OptFieldTypeDefault())
		mk("b", OptFieldTypeSet(CacheTypeNone, 0))
	}
	return name
}

func (e *c16Env) dropIndex(name string) {
	if err := e.api.DeleteIndex(context.Background(), name); err != nil {
		panic(fmt.Sprintf("c16: DeleteIndex: %v", err))
	}
}

// ---------------------------------------------------------------------------------------------
// model

type c16Bit struct {
	f        string
	row, col uint64
}

type c16Model struct {
	bits map[string]map[uint64]map[uint64]struct{} // field -> row -> columns
	// state the known high-water-mark defect depends on (classification only, never the oracle):
	hwm  map[string]map[uint64]uint64 // field -> shard -> highest row written by Set in that fragment
	frag map[string]map[uint64]bool   // field -> shard -> fragment exists
}

func c16NewModel() *c16Model {
	return &c16Model{bits: map[string]map[uint64]map[uint64]struct{}{}, hwm: map[string]map[uint64]uint64{}, frag: map[string]map[uint64]bool{}}
}

func (m *c16Model) set(b c16Bit, viaSet bool) {
	if m.bits[b.f] == nil {
		m.bits[b.f] = map[uint64]map[uint64]struct{}{}
		m.hwm[b.f] = map[uint64]uint64{}
		m.frag[b.f] = map[uint64]bool{}
	}
	if m.bits[b.f][b.row] == nil {
		m.bits[b.f][b.row] = map[uint64]struct{}{}
	}
	_, had := m.bits[b.f][b.row][b.col]
	m.bits[b.f][b.row][b.col] = struct{}{}
	sh := b.col / c16SW
	m.frag[b.f][sh] = true
	if viaSet && !had && b.row > m.hwm[b.f][sh] {
		m.hwm[b.f][sh] = b.row
	}
}

func (m *c16Model) clear(b c16Bit) { delete(m.bits[b.f][b.row], b.col) }

func (m *c16Model) clearRow(f string, row uint64) { delete(m.bits[f], row) }

func (m *c16Model) cols(f string, row uint64) map[uint64]struct{} { return m.bits[f][row] }

// rows: sorted distinct rows of f with at least one bit (in column col if hasCol).
func (m *c16Model) rows(f string, hasCol bool, col uint64) []uint64 {
	var out []uint64
	for r, cs := range m.bits[f] {
		if len(cs) == 0 {
			continue
		}
		if hasCol {
			if _, ok := cs[col]; !ok {
				continue
			}
		}
		out = append(out, r)
	}
	sort.Slice(out, func(i, j int) bool { return out[i] < out[j] })
	return out
}

// ---------------------------------------------------------------------------------------------
// Rows calls

type c16RowsArgs struct {
	f        string
	hasPrev  bool
	prev     uint64
	hasLimit bool
	limit    int
	hasCol   bool
	col      uint64
}

func (a c16RowsArgs) pql() string {
	s := "Rows(" + a.f
	if a.hasPrev {
		s += fmt.Sprintf(", previous=%d", a.prev)
	}
	if a.hasLimit {
		s += fmt.Sprintf(", limit=%d", a.limit)
	}
	if a.hasCol {
		s += fmt.Sprintf(", column=%d", a.col)
	}
	return s + ")"
}

func (a c16RowsArgs) shape() string {
	var p []string
	if a.hasPrev {
		p = append(p, "previous")
	}
	if a.hasLimit {
		p = append(p, "limit")
	}
	if a.hasCol {
		p = append(p, "column")
	}
	if len(p) == 0 {
		return "plain"
	}
	return strings.Join(p, "+")
}

func (a c16RowsArgs) eval(m *c16Model) []uint64 {
	out := []uint64{}
	for _, r := range m.rows(a.f, a.hasCol, a.col) {
		if a.hasPrev && r <= a.prev {
			continue
		}
		if a.hasLimit && len(out) >= a.limit {
			break
		}
		out = append(out, r)
	}
	return out
}

func c16GotRows(v interface{}) string {
	switch r := v.(type) {
	case RowIdentifiers:
		rows := r.Rows
		if rows == nil {
			rows = []uint64{}
		}
		return fmt.Sprint([]uint64(rows))
	case RowIDs:
		if r == nil {
			return "[]"
		}
		return fmt.Sprint([]uint64(r))
	}
	return fmt.Sprintf("%T:%v", v, v)
}

// ---------------------------------------------------------------------------------------------
// GroupBy calls

type c16Filter struct {
	name, pql string
	cols      func(m *c16Model) map[uint64]struct{} // nil = no filter
}

func c16RowFilter(f string, r uint64) c16Filter {
	return c16Filter{name: fmt.Sprintf("Row(%s=%d)", f, r), pql: fmt.Sprintf("Row(%s=%d)", f, r),
		cols: func(m *c16Model) map[uint64]struct{} {
			out := map[uint64]struct{}{}
			for c := range m.cols(f, r) {
				out[c] = struct{}{}
			}
			return out
		}}
}

var c16Filters = []c16Filter{
	{name: "none"},
	c16RowFilter("a", 0),
	c16RowFilter("b", 1),
	{name: "Union(Row(a=1),Row(b=0))", pql: "Union(Row(a=1), Row(b=0))", cols: func(m *c16Model) map[uint64]struct{} {
		out := map[uint64]struct{}{}
		for c := range m.cols("a", 1) {
			out[c] = struct{}{}
		}
		for c := range m.cols("b", 0) {
			out[c] = struct{}{}
		}
		return out
	}},
	c16RowFilter("b", 3),
}

type c16Group struct {
	rows  []uint64
	count uint64
}

type c16GB struct {
	kids      []c16RowsArgs // previous on a child = paging cursor
	filter    int
	hasLimit  bool
	limit     int
	hasOffset bool
	offset    int
}

func (g c16GB) pql() string {
	var p []string
	for _, k := range g.kids {
		p = append(p, k.pql())
	}
	if g.hasLimit {
		p = append(p, fmt.Sprintf("limit=%d", g.limit))
	}
	if g.hasOffset {
		p = append(p, fmt.Sprintf("offset=%d", g.offset))
	}
	if g.filter != 0 {
		p = append(p, "filter="+c16Filters[g.filter].pql)
	}
	return "GroupBy(" + strings.Join(p, ", ") + ")"
}

func (g c16GB) shape() string {
	var fs []string
	var ca []string
	prev := false
	for _, k := range g.kids {
		fs = append(fs, k.f)
		if k.hasLimit {
			ca = append(ca, "child-limit")
		}
		if k.hasCol {
			ca = append(ca, "child-column")
		}
		if k.hasPrev {
			prev = true
		}
	}
	var p []string
	if prev {
		p = append(p, "previous")
	}
	if g.hasLimit {
		p = append(p, "limit")
	}
	if g.hasOffset {
		p = append(p, "offset")
	}
	if g.filter != 0 {
		p = append(p, "filter")
	}
	p = append(p, ca...)
	if len(p) == 0 {
		p = []string{"plain"}
	}
	return fmt.Sprintf("fields=%s args=%s", strings.Join(fs, ","), strings.Join(p, "+"))
}

// all evaluates the unpaged group list: children contribute their row lists (child limit/column are
// honoured, child previous is NOT a row filter but the cursor), counts are exact.
func (g c16GB) all(m *c16Model) []c16Group {
	lists := make([][]uint64, len(g.kids))
	for i, k := range g.kids {
		kk := k
		kk.hasPrev = false
		lists[i] = kk.eval(m)
	}
	var fcols map[uint64]struct{}
	if g.filter != 0 {
		fcols = c16Filters[g.filter].cols(m)
	}
	var out []c16Group
	idx := make([]int, len(lists))
	for _, l := range lists {
		if len(l) == 0 {
			return nil
		}
	}
	for {
		rows := make([]uint64, len(lists))
		for i := range lists {
			rows[i] = lists[i][idx[i]]
		}
		// intersection count
		var n uint64
		for c := range m.cols(g.kids[0].f, rows[0]) {
			ok := true
			for i := 1; i < len(rows) && ok; i++ {
				_, ok = m.cols(g.kids[i].f, rows[i])[c]
			}
			if ok && fcols != nil {
				_, ok = fcols[c]
			}
			if ok {
				n++
			}
		}
		if n > 0 {
			out = append(out, c16Group{rows: rows, count: n})
		}
		// odometer, last child fastest
		p := len(lists) - 1
		for p >= 0 {
			idx[p]++
			if idx[p] < len(lists[p]) {
				break
			}
			idx[p] = 0
			p--
		}
		if p < 0 {
			break
		}
	}
	return out
}

func c16TupleLess(a, b []uint64) bool {
	for i := range a {
		if a[i] != b[i] {
			return a[i] < b[i]
		}
	}
	return false
}

// eval applies the cursor, offset and limit to the unpaged list.
func (g c16GB) eval(m *c16Model) []c16Group {
	all := g.all(m)
	hasPrev := false
	prev := make([]uint64, len(g.kids))
	for i, k := range g.kids {
		if k.hasPrev {
			hasPrev = true
			prev[i] = k.prev
		}
	}
	var out []c16Group
	for _, gr := range all {
		if hasPrev && !c16TupleLess(prev, gr.rows) {
			continue
		}
		out = append(out, gr)
	}
	if g.hasOffset {
		if g.offset < len(out) {
			out = out[g.offset:]
		} else {
			out = nil
		}
	}
	if g.hasLimit && g.limit < len(out) {
		out = out[:g.limit]
	}
	return out
}

func c16Groups(gs []c16Group) string {
	var sb strings.Builder
	sb.WriteByte('[')
	for _, g := range gs {
		fmt.Fprintf(&sb, "%v=%d ", g.rows, g.count)
	}
	sb.WriteByte(']')
	return sb.String()
}

func c16GotGroups(v interface{}) ([]c16Group, string) {
	gcs, ok := v.([]GroupCount)
	if !ok {
		return nil, fmt.Sprintf("%T:%v", v, v)
	}
	var out []c16Group
	for _, gc := range gcs {
		g := c16Group{count: gc.Count}
		for _, fr := range gc.Group {
			g.rows = append(g.rows, fr.RowID)
		}
		out = append(out, g)
	}
	return out, c16Groups(out)
}

// ---------------------------------------------------------------------------------------------
// datasets

// Candidate bits, most collision-prone first (a tier uses a prefix): the first four put the same
// row and the same group into two shards (merge of equal rows / equal groups across shards).
var c16Cand = []c16Bit{
	{"a", 0, 0},
	{"b", 1, 0},
	{"a", 0, c16SW},
	{"b", 1, c16SW},
	{"a", 1, c16SW},
	{"b", 0, c16SW},
	{"a", 2, 2 * c16SW},
	{"b", 2, 2 * c16SW},
	{"a", 1, 1},
	{"b", 3, 0},
	{"a", 2, 0},
}

// ghost bits: the highest row of a (in the middle shard) and a row of b.
var c16Ghost = []c16Bit{{"a", 3, c16SW + 1}, {"b", 2, 1}}

var c16GhostModes = []string{"absent", "kept", "Clear", "import-clear", "ClearRow"}

func c16Write(e *c16Env, index string, m *c16Model, b c16Bit, viaSet bool) error {
	m.set(b, viaSet)
	if viaSet {
		_, err := e.query(index, fmt.Sprintf("Set(%d, %s=%d)", b.col, b.f, b.row))
		return err
	}
	return e.api.Import(context.Background(), &ImportRequest{Index: index, Field: b.f, Shard: b.col / c16SW,
		RowIDs: []uint64{b.row}, ColumnIDs: []uint64{b.col}})
}

func c16Remove(e *c16Env, index string, m *c16Model, b c16Bit, mode string) error {
	switch mode {
	case "Clear":
		m.clear(b)
		_, err := e.query(index, fmt.Sprintf("Clear(%d, %s=%d)", b.col, b.f, b.row))
		return err
	case "import-clear":
		m.clear(b)
		return e.api.Import(context.Background(), &ImportRequest{Index: index, Field: b.f, Shard: b.col / c16SW,
			RowIDs: []uint64{b.row}, ColumnIDs: []uint64{b.col}}, OptImportOptionsClear(true))
	case "ClearRow":
		m.clearRow(b.f, b.row)
		_, err := e.query(index, fmt.Sprintf("ClearRow(%s=%d)", b.f, b.row))
		return err
	}
	return nil
}

// ---------------------------------------------------------------------------------------------
// defect models used ONLY to classify a mismatch

// c16MaxRowDefect: fragment.maxRow trusts fragment.maxRowID, which only Set raises and nothing lowers.
func c16MaxRowDefect(m *c16Model, f string, fcols map[uint64]struct{}) (uint64, bool) {
	var best uint64
	found := false
	for sh := range m.frag[f] {
		// the fragment answers only if its storage holds some bit
		minRow, any := uint64(0), false
		for r, cs := range m.bits[f] {
			for c := range cs {
				if c/c16SW == sh {
					if !any || r < minRow {
						minRow = r
					}
					any = true
				}
			}
		}
		if !any {
			continue
		}
		hw := m.hwm[f][sh]
		if fcols == nil {
			if !found || hw > best {
				best = hw
			}
			found = true
			continue
		}
		for r := int64(hw); r >= int64(minRow); r-- {
			hit := false
			for c := range m.bits[f][uint64(r)] {
				if _, ok := fcols[c]; ok && c/c16SW == sh {
					hit = true
				}
			}
			if hit {
				if !found || uint64(r) > best {
					best = uint64(r)
				}
				found = true
				break
			}
		}
	}
	return best, found
}

const (
	c16KMaxRowHang  = "MaxRow with a filter that no row of a fragment starting at row 0 intersects never returns: fragment.maxRow counts a uint64 down past 0 (i >= minRowID is always true) and caches every row on the way"
	c16KBool        = "Rows/GroupBy/MinRow/MaxRow on a bool field fail with 'missing bool argument' (executor.translateCall demands the optional row argument)"
	c16KGBLoop      = "GroupBy over three or more Rows never returns when the last row of an outer field intersects no row of the next field: groupByIterator.nextAtIdx keeps looping after the outer iterator is exhausted (gbi.done is not checked after the recursive call)"
	c16KMaxRow      = "MaxRow answers from fragment.maxRowID (raised only by Set, never lowered by Clear/ClearRow, not raised by Import)"
	c16KMinRowFilt  = "MinRow with filter scans only up to fragment.maxRowID (raised only by Set): rows written by Import are not seen"
	c16KGBOffset    = "GroupBy limit+offset: limit is applied while reducing and offset afterwards (pages after the first come back short)"
	c16KGBOffsetEnd = "GroupBy offset >= number of groups is ignored (the groups are returned from the start instead of an empty page)"
	c16KTimeLimit   = "Rows(time field, from/to, limit): the limit budget is shared by the views of a shard (rows of later views are dropped)"
)

// ---------------------------------------------------------------------------------------------
// one dataset: all programs

type c16Call struct {
	pql   string
	judge func(v interface{}) (got, want, key string)
	// guard != "": the call is a MaxRow with a filter on field `guard`; it is executed on its own under
	// c16Guarded because a defect of fragment.maxRow can keep it from ever returning.
	guard string
	// skip: not executed at all (a confirmed non-terminating defect is predicted to strike)
	skip bool
	// work: a GroupBy with three or more children, executed on its own under c16GuardedWork
	work bool
}

// c16Guarded runs one query whose executor goroutine may never return. The verdict is state based,
// not time based: either the call returns, or the row cache of a fragment of the field holds row
// 2^64-1, which only a scan that wrapped below row 0 can have put there. In that case the harness
// keeps the fragment lock for ever so that the runaway scan parks on it, and the node is abandoned.
func c16Guarded(e *c16Env, index, field, q string) (res interface{}, wrapped bool) {
	type out struct {
		r   []interface{}
		err error
	}
	done := make(chan out, 1)
	go func() {
		r, err := e.query(index, q)
		done <- out{r, err}
	}()
	for spin := 0; ; spin++ {
		select {
		case o := <-done:
			if o.err != nil || len(o.r) != 1 {
				return fmt.Errorf("ERR %v", o.err), false
			}
			return o.r[0], false
		default:
		}
		for sh := uint64(0); sh < 3; sh++ {
			fr := e.srv.holder.fragment(index, field, viewStandard, sh)
			if fr == nil {
				continue
			}
			fr.mu.Lock()
			if _, hit := fr.rowCache.Fetch(math.MaxUint64); hit {
				return nil, true // lock intentionally kept
			}
			fr.mu.Unlock()
		}
		if spin < 50 {
			runtime.Gosched()
		} else {
			time.Sleep(200 * time.Microsecond)
		}
	}
}

// c16Abandon removes a node whose executor worker is parked for ever from the bookkeeping.
func c16Abandon(e *c16Env) {
	c16PoolMu.Lock()
	defer c16PoolMu.Unlock()
	for i, x := range c16All {
		if x == e {
			c16All = append(c16All[:i], c16All[i+1:]...)
			break
		}
	}
}

// c16GuardedWork runs one query whose executor goroutine may spin for ever WITHOUT leaving a trace in
// fragment state (groupByIterator). The verdict is a work bound, not a time bound: the query is
// declared runaway once the process has performed c16WorkBound heap allocations since it started (a
// GroupBy over the tiny datasets of this check needs a few thousand). The runaway goroutine takes a
// fragment lock on every step, so holding every fragment lock of the index parks it for good.
const c16WorkBound = 30 * 1000 * 1000

func c16GuardedWork(e *c16Env, index, q string) (res interface{}, runaway bool) {
	type out struct {
		r   []interface{}
		err error
	}
	var ms runtime.MemStats
	runtime.ReadMemStats(&ms)
	start := ms.Mallocs
	done := make(chan out, 1)
	go func() {
		r, err := e.query(index, q)
		done <- out{r, err}
	}()
	for spin := 0; ; spin++ {
		select {
		case o := <-done:
			if o.err != nil || len(o.r) != 1 {
				return fmt.Errorf("ERR %v", o.err), false
			}
			return o.r[0], false
		default:
		}
		if spin < 20 {
			runtime.Gosched()
			continue
		}
		time.Sleep(500 * time.Microsecond)
		if spin%8 == 0 {
			runtime.ReadMemStats(&ms)
			if ms.Mallocs-start > c16WorkBound {
				for _, f := range []string{"a", "b", "c"} {
					for sh := uint64(0); sh < 3; sh++ {
						if fr := e.srv.holder.fragment(index, f, viewStandard, sh); fr != nil {
							fr.mu.Lock() // never released: parks the spinning iterator
						}
					}
				}
				return nil, true
			}
		}
	}
}

// c16ConfirmGroupByLoop runs the minimal case of the groupByIterator defect once (parent only).
func c16ConfirmGroupByLoop(c *vx.Check) bool {
	e := c16GetEnv()
	index := e.newIndex(false)
	if _, err := e.query(index, fmt.Sprintf("Set(0, a=0)\nSet(1, b=1)")); err != nil {
		panic(fmt.Sprintf("c16: confirm case: %v", err))
	}
	q := "GroupBy(Rows(a), Rows(b), Rows(a))"
	res, runaway := c16GuardedWork(e, index, q)
	c.AddEval(1)
	if runaway {
		c16Abandon(e)
		c.Violate(c16KGBLoop, "Set(0, a=0) Set(1, b=1); query="+q, fmt.Sprintf("no result after %d heap allocations (the answer is the empty list)", c16WorkBound), "[]")
		return true
	}
	if _, got := c16GotGroups(res); got != "[]" {
		c.Violate("GroupBy wrong fields=a,b,a args=plain", "Set(0, a=0) Set(1, b=1); query="+q, got, "[]")
	}
	e.dropIndex(index)
	c16PutEnv(e)
	return false
}

// c16GBMayLoop: conservative prediction of the confirmed groupByIterator defect for a call with three
// or more children: some shard in which an outer row (within the filter) meets no row of the next field.
func c16GBMayLoop(m *c16Model, g c16GB) bool {
	if len(g.kids) < 3 {
		return false
	}
	// levels lvl whose successor lvl+1 is a middle level (not the last child)
	for lvl := 0; lvl+1 <= len(g.kids)-2; lvl++ {
		outer, next := g.kids[lvl].f, g.kids[lvl+1].f
		for _, cs := range m.bits[outer] {
			for c := range cs {
				meets := false
				for _, ns := range m.bits[next] {
					if _, ok := ns[c]; ok {
						meets = true
					}
				}
				if !meets {
					return true // a column of an outer row without any bit of the next field
				}
			}
		}
	}
	return false
}

// c16ConfirmMaxRowWrap runs the minimal case of the MaxRow defect once (in the parent process only).
func c16ConfirmMaxRowWrap(c *vx.Check) bool {
	e := c16GetEnv()
	index := e.newIndex(false)
	if _, err := e.query(index, "Set(0, a=0)\nSet(1, b=3)"); err != nil {
		panic(fmt.Sprintf("c16: confirm case: %v", err))
	}
	q := "MaxRow(Row(b=3), field=a)"
	res, wrapped := c16Guarded(e, index, "a", q)
	c.AddEval(1)
	if wrapped {
		c16Abandon(e)
		c.Violate(c16KMaxRowHang, "Set(0, a=0) Set(1, b=3); query="+q, "the scan wrapped below row 0 (row 2^64-1 is in the fragment's row cache) and keeps going", "none")
		return true
	}
	got := fmt.Sprintf("%T:%v", res, res)
	if p, ok := res.(Pair); ok {
		got = "none"
		if p.Count > 0 {
			got = fmt.Sprint(p.ID)
		}
	}
	if got != "none" {
		c.Violate("MaxRow wrong filter=row", "Set(0, a=0) Set(1, b=3); query="+q, got, "none")
	}
	e.dropIndex(index)
	c16PutEnv(e)
	return false
}

// c16MaxRowWraps predicts (from the confirmed defect) whether MaxRow(filter, field=f) would wrap.
func c16MaxRowWraps(m *c16Model, f string, fcols map[uint64]struct{}) bool {
	for sh := range m.frag[f] {
		any, zero := false, false
		for r, cs := range m.bits[f] {
			for c := range cs {
				if c/c16SW == sh {
					any = true
					if r == 0 {
						zero = true
					}
				}
			}
		}
		if !any || !zero {
			continue // empty fragment: no scan; lowest row > 0: the scan stops below it
		}
		hit := false
		for r := uint64(0); r <= m.hwm[f][sh] && !hit; r++ {
			for c := range m.bits[f][r] {
				if _, ok := fcols[c]; ok && c/c16SW == sh {
					hit = true
				}
			}
		}
		if !hit {
			return true
		}
	}
	return false
}

// c16RunCalls executes the calls; it returns the node to continue with (a fresh one, with ok=false,
// when a guarded call wrapped and the node had to be abandoned together with its index).
func c16RunCalls(c *vx.Check, e *c16Env, index, ds string, calls []c16Call) (ok bool) {
	var plain []c16Call
	for _, cl := range calls {
		if cl.skip {
			continue
		}
		if cl.work {
			res, runaway := c16GuardedWork(e, index, cl.pql)
			c.AddEval(1)
			if runaway {
				c16Abandon(e)
				c.Violate(c16KGBLoop, ds+" query="+cl.pql, fmt.Sprintf("no result after %d heap allocations", c16WorkBound), "a result")
				return false
			}
			got, want, key := cl.judge(res)
			c.Outcome(got)
			if got != want {
				c.Violate(key, ds+" query="+cl.pql, got, want)
			}
			continue
		}
		if cl.guard != "" {
			res, wrapped := c16Guarded(e, index, cl.guard, cl.pql)
			c.AddEval(1)
			if wrapped {
				c16Abandon(e)
				c.Violate(c16KMaxRowHang, ds+" query="+cl.pql, "the scan wrapped below row 0 (row 2^64-1 is in the fragment's row cache) and keeps going", "a result")
				return false
			}
			got, want, key := cl.judge(res)
			c.Outcome(got)
			if got != want {
				c.Violate(key, ds+" query="+cl.pql, got, want)
			}
			continue
		}
		plain = append(plain, cl)
	}
	calls = plain
	const batch = 128
	for lo := 0; lo < len(calls); lo += batch {
		hi := lo + batch
		if hi > len(calls) {
			hi = len(calls)
		}
		var sb strings.Builder
		for _, cl := range calls[lo:hi] {
			sb.WriteString(cl.pql)
			sb.WriteByte('\n')
		}
		res, err := e.query(index, sb.String())
		if err != nil || len(res) != hi-lo {
			res = make([]interface{}, hi-lo)
			for i, cl := range calls[lo:hi] {
				r, err := e.query(index, cl.pql)
				if err != nil || len(r) != 1 {
					res[i] = fmt.Errorf("ERR %v", err)
					continue
				}
				res[i] = r[0]
			}
		}
		for i, cl := range calls[lo:hi] {
			got, want, key := cl.judge(res[i])
			c.Outcome(got)
			if got != want {
				c.Violate(key, ds+" query="+cl.pql, got, want)
			}
		}
	}
	c.AddEval(int64(len(calls)))
	return true
}

func c16RowsCalls(m *c16Model, c *vx.Check, removed map[string]string) []c16Call {
	var calls []c16Call
	prevs := []int{-1, 0, 1, 2, 3}
	limits := []int{-1, 1, 2, 3}
	if c.Thorough() {
		prevs = append(prevs, 4)
		limits = append(limits, 0)
	}
	cols := []int64{-1, 0, int64(c16SW), int64(c16SW) + 1, 2 * int64(c16SW), 5 * int64(c16SW)}
	for _, f := range []string{"a", "b"} {
		for _, p := range prevs {
			for _, l := range limits {
				for _, col := range cols {
					a := c16RowsArgs{f: f}
					if p >= 0 {
						a.hasPrev, a.prev = true, uint64(p)
					}
					if l >= 0 {
						a.hasLimit, a.limit = true, l
					}
					if col >= 0 {
						a.hasCol, a.col = true, uint64(col)
					}
					want := fmt.Sprint(a.eval(m))
					calls = append(calls, c16Call{pql: a.pql(), judge: func(v interface{}) (string, string, string) {
						got := c16GotRows(v)
						key := "Rows wrong args=" + a.shape()
						if got != want {
							// does the answer list a row that holds no bit because it was emptied?
							for fr, how := range removed {
								if strings.HasPrefix(fr, a.f+"/") {
									var r uint64
									fmt.Sscanf(fr[len(a.f)+1:], "%d", &r)
									if len(m.cols(a.f, r)) == 0 && strings.Contains(got, fmt.Sprint(r)) && !strings.Contains(want, fmt.Sprint(r)) {
										key = "Rows lists a row whose last bit was removed by " + how
									}
								}
							}
						}
						return got, want, key
					}})
				}
			}
		}
	}
	return calls
}

func c16MinMaxCalls(m *c16Model, wrapKnown bool) []c16Call {
	var calls []c16Call
	for _, f := range []string{"a", "b"} {
		for fi, fl := range c16Filters {
			for _, fn := range []string{"MinRow", "MaxRow"} {
				f, fl, fn, fi := f, fl, fn, fi
				q := fn + "(field=" + f + ")"
				var fcols map[uint64]struct{}
				if fi != 0 {
					q = fn + "(" + fl.pql + ", field=" + f + ")"
					fcols = fl.cols(m)
				}
				// oracle
				var rows []uint64
				for _, r := range m.rows(f, false, 0) {
					if fcols == nil {
						rows = append(rows, r)
						continue
					}
					for c := range m.cols(f, r) {
						if _, ok := fcols[c]; ok {
							rows = append(rows, r)
							break
						}
					}
				}
				want := "none"
				if len(rows) > 0 {
					if fn == "MinRow" {
						want = fmt.Sprint(rows[0])
					} else {
						want = fmt.Sprint(rows[len(rows)-1])
					}
				}
				guard := ""
				skip := false
				if fn == "MaxRow" && fcols != nil {
					guard = f
					skip = wrapKnown && c16MaxRowWraps(m, f, fcols)
				}
				calls = append(calls, c16Call{pql: q, guard: guard, skip: skip, judge: func(v interface{}) (string, string, string) {
					p, ok := v.(Pair)
					if !ok {
						return fmt.Sprintf("%T:%v", v, v), want, fn + " wrong result type"
					}
					got := "none"
					if p.Count > 0 {
						got = fmt.Sprint(p.ID)
					}
					key := fn + " wrong filter=" + map[bool]string{true: "none", false: "row"}[fi == 0]
					if got != want {
						if fn == "MaxRow" {
							if r, found := c16MaxRowDefect(m, f, fcols); (found && got == fmt.Sprint(r)) || (!found && got == "none") {
								key = c16KMaxRow
							}
						} else if fcols != nil {
							// MinRow with filter: scans minRowID..maxRowID of each fragment
							key = c16KMinRowFilt + "?"
							if c16MinRowFilterDefect(m, f, fcols) == got {
								key = c16KMinRowFilt
							}
						}
					}
					return got, want, key
				}})
			}
		}
	}
	return calls
}

// c16MinRowFilterDefect: per fragment the scan runs from the fragment's lowest row to maxRowID only.
func c16MinRowFilterDefect(m *c16Model, f string, fcols map[uint64]struct{}) string {
	best, found := uint64(0), false
	for sh := range m.frag[f] {
		hw := m.hwm[f][sh]
		var rs []uint64
		for r, cs := range m.bits[f] {
			for c := range cs {
				if c/c16SW == sh {
					rs = append(rs, r)
					break
				}
			}
		}
		if len(rs) == 0 {
			continue
		}
		sort.Slice(rs, func(i, j int) bool { return rs[i] < rs[j] })
		for _, r := range rs {
			if r > hw {
				break
			}
			hit := false
			for c := range m.bits[f][r] {
				if _, ok := fcols[c]; ok && c/c16SW == sh {
					hit = true
				}
			}
			if hit {
				if !found || r < best {
					best = r
				}
				found = true
				break
			}
		}
	}
	if !found {
		return "none"
	}
	return fmt.Sprint(best)
}

// c16GBDefect: what executeGroupBy does with limit/offset: limit while reducing, then offset only if
// it is smaller than the number of groups left, then limit again. Classification only.
func c16GBDefect(m *c16Model, g c16GB) []c16Group {
	h := g
	h.hasOffset = false
	res := h.eval(m) // cursor + limit
	if g.hasOffset && g.offset < len(res) {
		res = res[g.offset:]
	}
	return res
}

func c16GBJudge(m *c16Model, g c16GB) func(v interface{}) (string, string, string) {
	want := c16Groups(g.eval(m))
	return func(v interface{}) (string, string, string) {
		_, got := c16GotGroups(v)
		key := "GroupBy wrong " + g.shape()
		if got != want && g.hasOffset && got == c16Groups(c16GBDefect(m, g)) {
			h := g
			h.hasOffset, h.hasLimit = false, false
			if g.offset >= len(h.eval(m)) || !g.hasLimit {
				key = c16KGBOffsetEnd
			} else {
				key = c16KGBOffset
			}
		}
		return got, want, key
	}
}

func c16GroupByCalls(m *c16Model, c *vx.Check, loopKnown bool) []c16Call {
	var calls []c16Call
	kidSets := [][]string{{"a"}, {"a", "b"}, {"b", "a"}}
	if c.Thorough() {
		kidSets = append(kidSets, []string{"a", "b", "a"}, []string{"b", "b"})
	}
	limits := []int{-1, 1, 2, 3}
	offsets := []int{-1, 1, 2}
	if c.Thorough() {
		offsets = append(offsets, 0, 4)
		limits = append(limits, 5)
	}
	nf := c.Pick(4, len(c16Filters))
	for _, ks := range kidSets {
		for fi := 0; fi < nf; fi++ {
			for _, l := range limits {
				for _, o := range offsets {
					g := c16GB{filter: fi}
					for _, f := range ks {
						g.kids = append(g.kids, c16RowsArgs{f: f})
					}
					if l >= 0 {
						g.hasLimit, g.limit = true, l
					}
					if o >= 0 {
						g.hasOffset, g.offset = true, o
					}
					calls = append(calls, c16Call{pql: g.pql(), judge: c16GBJudge(m, g), work: len(g.kids) >= 3, skip: loopKnown && c16GBMayLoop(m, g)})
				}
			}
		}
		// child-level limit / column
		for ci := range ks {
			for _, v := range []c16RowsArgs{{hasLimit: true, limit: 1}, {hasLimit: true, limit: 2}, {hasCol: true, col: 0}, {hasCol: true, col: c16SW}, {hasCol: true, col: 2 * c16SW}} {
				for _, l := range []int{-1, 2} {
					g := c16GB{}
					for i, f := range ks {
						k := c16RowsArgs{f: f}
						if i == ci {
							k = v
							k.f = f
						}
						g.kids = append(g.kids, k)
					}
					if l >= 0 {
						g.hasLimit, g.limit = true, l
					}
					calls = append(calls, c16Call{pql: g.pql(), judge: c16GBJudge(m, g), work: len(g.kids) >= 3, skip: loopKnown && c16GBMayLoop(m, g)})
				}
			}
		}
	}
	return calls
}

// c16Paging runs the paging loops to exhaustion.
func c16Paging(c *vx.Check, e *c16Env, index, ds string, m *c16Model, loopKnown bool) (alive bool) {
	Ls := []int{1, 2}
	if c.Thorough() {
		Ls = []int{1, 2, 3}
	}
	// Rows: limit + previous
	for _, f := range []string{"a", "b"} {
		full := c16RowsArgs{f: f}.eval(m)
		for _, L := range Ls {
			var cat []uint64
			a := c16RowsArgs{f: f, hasLimit: true, limit: L}
			pages := 0
			for ; pages < 12; pages++ {
				r, err := e.query(index, a.pql())
				c.AddEval(1)
				if err != nil || len(r) != 1 {
					c.Violate("Rows paging: query failed", ds+" query="+a.pql(), fmt.Sprint(err), "ok")
					break
				}
				ri, _ := r[0].(RowIdentifiers)
				if len(ri.Rows) == 0 {
					break
				}
				cat = append(cat, ri.Rows...)
				a.hasPrev, a.prev = true, ri.Rows[len(ri.Rows)-1]
			}
			if cat == nil {
				cat = []uint64{}
			}
			if g, w := fmt.Sprint(cat), fmt.Sprint(full); g != w {
				c.Violate("Rows paging limit+previous: concatenated pages differ from the unpaged list", fmt.Sprintf("%s field=%s limit=%d", ds, f, L), g, w)
			}
		}
	}
	// GroupBy: limit + previous, limit + offset
	kidSets := [][]string{{"a"}, {"a", "b"}, {"b", "a"}}
	if c.Thorough() {
		kidSets = append(kidSets, []string{"a", "b", "a"})
	}
	for _, ks := range kidSets {
		for _, fi := range []int{0, 2} {
			base := c16GB{filter: fi}
			for _, f := range ks {
				base.kids = append(base.kids, c16RowsArgs{f: f})
			}
			full := base.all(m)
			if loopKnown && c16GBMayLoop(m, base) {
				continue
			}
			for _, L := range Ls {
				for _, how := range []string{"previous", "offset"} {
					var cat []c16Group
					g := base
					g.kids = append([]c16RowsArgs(nil), base.kids...)
					g.hasLimit, g.limit = true, L
					off := 0
					for pages := 0; pages < 40; pages++ {
						var r []interface{}
						var err error
						if len(g.kids) >= 3 {
							res, runaway := c16GuardedWork(e, index, g.pql())
							if runaway {
								c16Abandon(e)
								c.Violate(c16KGBLoop, ds+" query="+g.pql(), fmt.Sprintf("no result after %d heap allocations", c16WorkBound), "a page")
								return false
							}
							if er, isErr := res.(error); isErr {
								err = er
							} else {
								r = []interface{}{res}
							}
						} else {
							r, err = e.query(index, g.pql())
						}
						c.AddEval(1)
						if err != nil || len(r) != 1 {
							c.Violate("GroupBy paging: query failed", ds+" query="+g.pql(), fmt.Sprint(err), "ok")
							break
						}
						page, _ := c16GotGroups(r[0])
						if len(page) == 0 {
							break
						}
						cat = append(cat, page...)
						if how == "previous" {
							last := page[len(page)-1].rows
							for i := range g.kids {
								g.kids[i].hasPrev, g.kids[i].prev = true, last[i]
							}
						} else {
							off += L
							g.hasOffset, g.offset = true, off
						}
					}
					if gs, ws := c16Groups(cat), c16Groups(full); gs != ws {
						key := "GroupBy paging limit+previous: concatenated pages differ from the unpaged list fields=" + strings.Join(ks, ",")
						if how == "offset" {
							key = "GroupBy paging limit+offset: concatenated pages differ from the unpaged list"
							// defect model: every page is what c16GBDefect predicts for it
							var pred []c16Group
							pg := base
							pg.kids = append([]c16RowsArgs(nil), base.kids...)
							pg.hasLimit, pg.limit = true, L
							po := 0
							for pages := 0; pages < 40; pages++ {
								page := c16GBDefect(m, pg)
								if len(page) == 0 {
									break
								}
								pred = append(pred, page...)
								po += L
								pg.hasOffset, pg.offset = true, po
							}
							if gs == c16Groups(pred) {
								key = c16KGBOffset
							}
						}
						c.Violate(key, fmt.Sprintf("%s fields=%v filter=%s limit=%d", ds, ks, c16Filters[fi].name, L), gs, ws)
					}
				}
			}
		}
	}
	return true
}

func c16Part1(c *vx.Check, nbits int, wrapKnown, loopKnown bool) {
	type job struct {
		mask   int
		ghost  int
		viaSet bool
	}
	var jobs []job
	for mask := 0; mask < 1<<uint(nbits); mask++ {
		for g, gm := range c16GhostModes {
			for _, vs := range []bool{true, false} {
				if !vs && !c.Thorough() && gm != "absent" && gm != "kept" {
					continue // quick: the removal modes are only combined with the Set write path
				}
				jobs = append(jobs, job{mask, g, vs})
			}
		}
	}
	c.Bound("part1_datasets", len(jobs))
	in := []byte{0, 0}
	if wrapKnown {
		in[0] = 1
	}
	if loopKnown {
		in[1] = 1
	}
	c.ProcFor(c.NextRunLabel(), len(jobs), in, func(in []byte, i int, _ func([]byte)) {
		if c.Expired() {
			return
		}
		wrapKnown := len(in) > 0 && in[0] == 1
		loopKnown := len(in) > 1 && in[1] == 1
		j := jobs[i]
		e := c16GetEnv()
		index := e.newIndex(false)
		alive := true
		defer func() {
			if alive {
				e.dropIndex(index)
				c16PutEnv(e)
			}
		}()
		m := c16NewModel()
		var desc []string
		fail := func(err error) bool {
			if err != nil {
				c.Violate("write refused", fmt.Sprint(desc), err.Error(), "<nil>")
				return true
			}
			return false
		}
		for k := 0; k < nbits; k++ {
			if j.mask&(1<<uint(k)) != 0 {
				b := c16Cand[k]
				if fail(c16Write(e, index, m, b, j.viaSet)) {
					return
				}
				desc = append(desc, fmt.Sprintf("%s%d@%d", b.f, b.row, b.col))
			}
		}
		removed := map[string]string{}
		mode := c16GhostModes[j.ghost]
		if mode != "absent" {
			for _, b := range c16Ghost {
				if fail(c16Write(e, index, m, b, j.viaSet)) {
					return
				}
			}
			for _, b := range c16Ghost {
				if fail(c16Remove(e, index, m, b, mode)) {
					return
				}
				if mode != "kept" {
					removed[fmt.Sprintf("%s/%d", b.f, b.row)] = mode
				}
			}
		}
		ds := fmt.Sprintf("write=%s bits=%v ghosts(a3@%d,b2@1)=%s", map[bool]string{true: "Set", false: "Import"}[j.viaSet], desc, c16SW+1, mode)
		calls := c16RowsCalls(m, c, removed)
		calls = append(calls, c16MinMaxCalls(m, wrapKnown)...)
		calls = append(calls, c16GroupByCalls(m, c, loopKnown)...)
		if alive = c16RunCalls(c, e, index, ds, calls); !alive {
			return
		}
		if alive = c16Paging(c, e, index, ds, m, loopKnown); !alive {
			return
		}
		if j.mask != 0 || j.ghost != 0 {
			c.Distinct(ds)
		}
		if i == 0 || i == len(jobs)-1 || i == len(jobs)/2 {
			c.Sample(fmt.Sprintf("%s (%d calls + paging loops)", ds, len(calls)))
		}
	}, nil)
}

// ---------------------------------------------------------------------------------------------
// time field: Rows with from/to

type c16TBit struct {
	row, col uint64
	ts       time.Time
	stamped  bool
}

func c16Part2(c *vx.Check) {
	cand := []c16TBit{
		{2, 0, time.Date(2018, 3, 5, 0, 0, 0, 0, time.UTC), true},
		{3, 1, time.Date(2018, 7, 1, 0, 0, 0, 0, time.UTC), true},
		{0, 2, time.Date(2019, 2, 1, 0, 0, 0, 0, time.UTC), true},
		{1, c16SW, time.Date(2019, 2, 1, 0, 0, 0, 0, time.UTC), true},
		{4, 3, time.Time{}, false}, // no timestamp: standard view only
		{0, c16SW + 1, time.Date(2018, 3, 5, 0, 0, 0, 0, time.UTC), true},
	}
	n := c.Pick(5, 6)
	type rng struct {
		name     string
		from, to time.Time
	}
	d := func(y, mo int) time.Time { return time.Date(y, time.Month(mo), 1, 0, 0, 0, 0, time.UTC) }
	ranges := []rng{
		{"none", time.Time{}, time.Time{}},
		{"2018..2020", d(2018, 1), d(2020, 1)},
		{"2018..2019", d(2018, 1), d(2019, 1)},
		{"2018-06..2019-03", d(2018, 6), d(2019, 3)},
		{"from 2018-06", d(2018, 6), time.Time{}},
		{"to 2019-01", time.Time{}, d(2019, 1)},
		{"2020..2021", d(2020, 1), d(2021, 1)},
	}
	c.Bound("part2_datasets", 1<<uint(n))
	c.ProcFor(c.NextRunLabel(), 1<<uint(n), nil, func(_ []byte, mask int, _ func([]byte)) {
		if c.Expired() {
			return
		}
		e := c16GetEnv()
		defer c16PutEnv(e)
		index := e.newIndex(true)
		defer e.dropIndex(index)
		var bits []c16TBit
		var desc []string
		var sb strings.Builder
		for k := 0; k < n; k++ {
			if mask&(1<<uint(k)) == 0 {
				continue
			}
			b := cand[k]
			bits = append(bits, b)
			if b.stamped {
				fmt.Fprintf(&sb, "Set(%d, t=%d, %s)\n", b.col, b.row, b.ts.Format(TimeFormat))
				desc = append(desc, fmt.Sprintf("t%d@%d@%s", b.row, b.col, b.ts.Format("2006-01")))
			} else {
				fmt.Fprintf(&sb, "Set(%d, t=%d)\n", b.col, b.row)
				desc = append(desc, fmt.Sprintf("t%d@%d", b.row, b.col))
			}
		}
		if sb.Len() > 0 {
			if _, err := e.query(index, sb.String()); err != nil {
				c.Violate("write refused", fmt.Sprint(desc), err.Error(), "<nil>")
				return
			}
		}
		ds := fmt.Sprintf("time field YMD bits=%v", desc)
		var calls []c16Call
		for _, rg := range ranges {
			for _, p := range []int{-1, 0, 2} {
				for _, l := range []int{-1, 1, 2} {
					for _, col := range []int64{-1, 0, int64(c16SW)} {
						rg, p, l, col := rg, p, l, col
						q := "Rows(t"
						var shape []string
						if !rg.from.IsZero() {
							q += fmt.Sprintf(", from='%s'", rg.from.Format(TimeFormat))
						}
						if !rg.to.IsZero() {
							q += fmt.Sprintf(", to='%s'", rg.to.Format(TimeFormat))
						}
						if !rg.from.IsZero() || !rg.to.IsZero() {
							shape = append(shape, "from/to")
						}
						if p >= 0 {
							q += fmt.Sprintf(", previous=%d", p)
							shape = append(shape, "previous")
						}
						if l >= 0 {
							q += fmt.Sprintf(", limit=%d", l)
							shape = append(shape, "limit")
						}
						if col >= 0 {
							q += fmt.Sprintf(", column=%d", col)
							shape = append(shape, "column")
						}
						q += ")"
						// oracle
						rowset := map[uint64]bool{}
						ranged := !rg.from.IsZero() || !rg.to.IsZero()
						for _, b := range bits {
							if col >= 0 && b.col != uint64(col) {
								continue
							}
							if ranged {
								if !b.stamped {
									continue
								}
								if !rg.from.IsZero() && b.ts.Before(rg.from) {
									continue
								}
								if !rg.to.IsZero() && !b.ts.Before(rg.to) {
									continue
								}
							}
							rowset[b.row] = true
						}
						var rows []uint64
						for r := range rowset {
							rows = append(rows, r)
						}
						sort.Slice(rows, func(i, j int) bool { return rows[i] < rows[j] })
						out := []uint64{}
						for _, r := range rows {
							if p >= 0 && r <= uint64(p) {
								continue
							}
							if l >= 0 && len(out) >= l {
								break
							}
							out = append(out, r)
						}
						want := fmt.Sprint(out)
						// defect model for limit over several views: per shard, views in time order share the budget
						calls = append(calls, c16Call{pql: q, judge: func(v interface{}) (string, string, string) {
							got := c16GotRows(v)
							key := "Rows(time) wrong args=" + strings.Join(shape, "+")
							if got != want && ranged && l >= 0 {
								// a limit problem: the answer is a sorted selection of at most `limit` rows of the
								// right unlimited list (which the same query without limit returns correctly)
								unl := map[string]bool{}
								for _, r := range rows {
									if p < 0 || r > uint64(p) {
										unl[fmt.Sprint(r)] = true
									}
								}
								fs := strings.Fields(strings.Trim(got, "[]"))
								ok := len(fs) <= l
								for _, f := range fs {
									ok = ok && unl[f]
								}
								if ok {
									key = c16KTimeLimit
								}
							}
							return got, want, key
						}})
					}
				}
			}
		}
		c16RunCalls(c, e, index, ds, calls)
		if mask != 0 {
			c.Distinct(ds)
		}
		if mask == 1<<uint(n)-1 {
			c.Sample(fmt.Sprintf("%s (%d calls)", ds, len(calls)))
		}
	}, nil)
}

// part 3: a bool field is a field too: Rows / GroupBy / MinRow / MaxRow over it (rows false=0, true=1).
func c16Part3(c *vx.Check) {
	type bbit struct {
		val bool
		col uint64
	}
	cand := []bbit{{true, 0}, {false, c16SW}, {true, c16SW + 1}, {false, 1}}
	c.Bound("part3_datasets", 1<<uint(len(cand)))
	c.ProcFor(c.NextRunLabel(), 1<<uint(len(cand)), nil, func(_ []byte, mask int, _ func([]byte)) {
		if c.Expired() {
			return
		}
		e := c16GetEnv()
		defer c16PutEnv(e)
		index := e.newIndex(true)
		defer e.dropIndex(index)
		m := c16NewModel()
		var sb strings.Builder
		var desc []string
		for k, b := range cand {
			if mask&(1<<uint(k)) == 0 {
				continue
			}
			r := uint64(0)
			if b.val {
				r = 1
			}
			// a bool column holds one value: a later write to the same column would replace it; the
			// candidate columns are distinct, so the model is a plain set of bits
			m.set(c16Bit{"bf", r, b.col}, true)
			fmt.Fprintf(&sb, "Set(%d, bf=%v)\n", b.col, b.val)
			desc = append(desc, fmt.Sprintf("bf=%v@%d", b.val, b.col))
		}
		// field a: row 0 on columns 0 and SW (for GroupBy with a second field)
		for _, col := range []uint64{0, c16SW} {
			m.set(c16Bit{"a", 0, col}, true)
			fmt.Fprintf(&sb, "Set(%d, a=0)\n", col)
		}
		if _, err := e.query(index, sb.String()); err != nil {
			c.Violate("write refused", fmt.Sprint(desc), err.Error(), "<nil>")
			return
		}
		ds := fmt.Sprintf("bool field bits=%v (+a0@0,a0@%d)", desc, c16SW)
		var calls []c16Call
		rowsCall := func(q string, a c16RowsArgs) {
			want := fmt.Sprint(a.eval(m))
			calls = append(calls, c16Call{pql: q, judge: func(v interface{}) (string, string, string) {
				got := c16GotRows(v)
				if _, isErr := v.(error); isErr {
					got = fmt.Sprint(v)
				}
				key := "Rows on a bool field wrong args=" + a.shape()
				if strings.Contains(got, "missing bool argument") {
					key = c16KBool
				}
				return got, want, key
			}})
		}
		rowsCall("Rows(bf)", c16RowsArgs{f: "bf"})
		rowsCall("Rows(bf, limit=1)", c16RowsArgs{f: "bf", hasLimit: true, limit: 1})
		rowsCall("Rows(bf, previous=false)", c16RowsArgs{f: "bf", hasPrev: true, prev: 0})
		rowsCall("Rows(bf, previous=true)", c16RowsArgs{f: "bf", hasPrev: true, prev: 1})
		for _, col := range []uint64{0, 1, c16SW, c16SW + 1} {
			rowsCall(fmt.Sprintf("Rows(bf, column=%d)", col), c16RowsArgs{f: "bf", hasCol: true, col: col})
		}
		for _, g := range []c16GB{
			{kids: []c16RowsArgs{{f: "bf"}}},
			{kids: []c16RowsArgs{{f: "a"}, {f: "bf"}}},
			{kids: []c16RowsArgs{{f: "bf"}, {f: "a"}}, hasLimit: true, limit: 1},
		} {
			g := g
			want := c16Groups(g.eval(m))
			calls = append(calls, c16Call{pql: g.pql(), judge: func(v interface{}) (string, string, string) {
				_, got := c16GotGroups(v)
				if _, isErr := v.(error); isErr {
					got = fmt.Sprint(v)
				}
				key := "GroupBy over a bool field wrong " + g.shape()
				if strings.Contains(got, "missing bool argument") {
					key = c16KBool
				}
				return got, want, key
			}})
		}
		for _, fn := range []string{"MinRow", "MaxRow"} {
			fn := fn
			rows := m.rows("bf", false, 0)
			want := "none"
			if len(rows) > 0 {
				want = fmt.Sprint(rows[0])
				if fn == "MaxRow" {
					want = fmt.Sprint(rows[len(rows)-1])
				}
			}
			calls = append(calls, c16Call{pql: fn + "(field=bf)", judge: func(v interface{}) (string, string, string) {
				p, ok := v.(Pair)
				if !ok {
					got := fmt.Sprintf("%T:%v", v, v)
					if strings.Contains(got, "missing bool argument") {
						return got, want, c16KBool
					}
					return got, want, fn + " on a bool field wrong"
				}
				got := "none"
				if p.Count > 0 {
					got = fmt.Sprint(p.ID)
				}
				return got, want, fn + " on a bool field wrong"
			}})
		}
		c16RunCalls(c, e, index, ds, calls)
		if mask != 0 {
			c.Distinct(ds)
		}
		if mask == 1<<uint(len(cand))-1 {
			c.Sample(fmt.Sprintf("%s (%d calls)", ds, len(calls)))
		}
	}, nil)
}

// ---------------------------------------------------------------------------------------------
// Part 4: GroupBy over THREE distinct fields, paged across shards whose row sets differ.
// The group iterator of a shard wraps a middle field when the cursor row is beyond the last row that
// field has in THIS shard; that only happens with >= 3 children, >= 2 shards with different rows,
// and a `previous` cursor taken from another shard's groups. Datasets: every subset of
// {a,b,c} x rows {0,1} x shards (one column per shard; thorough: also row 2 of the middle field in
// shard 0 and of the last field in shard 1); on each: the unpaged answer, and paging loops limit+previous and
// limit+offset with page sizes 1..3 run to exhaustion, concatenated == unpaged, every page also
// compared with the model's page.
func c16Part4(c *vx.Check) {
	var cand []c16Bit
	for sh := uint64(0); sh < 2; sh++ {
		for _, f := range []string{"a", "b", "c"} {
			for row := uint64(0); row < 2; row++ {
				cand = append(cand, c16Bit{f, row, sh * c16SW})
			}
		}
	}
	if c.Thorough() {
		cand = append(cand, c16Bit{"b", 2, 0}, c16Bit{"c", 2, c16SW})
	}
	n := 1 << uint(len(cand))
	c.Bound("part4_datasets", n)
	chunk := 16
	c.ProcFor(c.NextRunLabel(), (n+chunk-1)/chunk, nil, func(_ []byte, ci int, _ func([]byte)) {
		for mask := ci * chunk; mask < (ci+1)*chunk && mask < n; mask++ {
			if c.Expired() {
				return
			}
			if !c16Part4One(c, cand, mask) {
				return
			}
		}
	}, nil)
}

func c16Part4One(c *vx.Check, cand []c16Bit, mask int) (alive bool) {
	e := c16GetEnv()
	index := e.newIndex(false)
	if _, err := e.api.CreateField(context.Background(), index, "c", OptFieldTypeSet(CacheTypeNone, 0)); err != nil {
		panic(fmt.Sprintf("c16: CreateField c: %v", err))
	}
	alive = true
	defer func() {
		if alive {
			e.dropIndex(index)
			c16PutEnv(e)
		}
	}()
	m := c16NewModel()
	var desc []string
	for k, b := range cand {
		if mask&(1<<uint(k)) == 0 {
			continue
		}
		if err := c16Write(e, index, m, b, true); err != nil {
			c.Violate("write refused", fmt.Sprint(desc), err.Error(), "<nil>")
			return
		}
		desc = append(desc, fmt.Sprintf("%s%d@%d", b.f, b.row, b.col))
	}
	ds := fmt.Sprintf("three-field bits=%v", desc)
	base := c16GB{kids: []c16RowsArgs{{f: "a"}, {f: "b"}, {f: "c"}}}
	full := base.all(m)
	run := func(g c16GB) ([]c16Group, bool) {
		res, runaway := c16GuardedWork(e, index, g.pql())
		c.AddEval(1)
		if runaway {
			c16Abandon(e)
			alive = false
			c.Violate(c16KGBLoop, ds+" query="+g.pql(), fmt.Sprintf("no result after %d heap allocations", c16WorkBound), "a page")
			return nil, false
		}
		if er, isErr := res.(error); isErr {
			c.Violate("GroupBy three fields: query failed", ds+" query="+g.pql(), er.Error(), "ok")
			return nil, false
		}
		page, _ := c16GotGroups(res)
		return page, true
	}
	got, ok := run(base)
	if !ok {
		return
	}
	if gs, ws := c16Groups(got), c16Groups(full); gs != ws {
		c.Violate("GroupBy three fields unpaged: wrong groups", ds+" query="+base.pql(), gs, ws)
		return
	}
	for L := 1; L <= 3; L++ {
		for _, how := range []string{"previous", "offset"} {
			g := base
			g.kids = append([]c16RowsArgs(nil), base.kids...)
			g.hasLimit, g.limit = true, L
			var cat []c16Group
			off := 0
			for pages := 0; pages < 40; pages++ {
				page, ok := run(g)
				if !ok {
					return
				}
				if gs, ws := c16Groups(page), c16Groups(g.eval(m)); gs != ws {
					c.Violate("GroupBy three fields paging limit+"+how+": wrong page", ds+" query="+g.pql(), gs, ws)
					return
				}
				if len(page) == 0 {
					break
				}
				cat = append(cat, page...)
				if how == "previous" {
					last := page[len(page)-1].rows
					for i := range g.kids {
						g.kids[i].hasPrev, g.kids[i].prev = true, last[i]
					}
				} else {
					off += L
					g.hasOffset, g.offset = true, off
				}
			}
			if gs, ws := c16Groups(cat), c16Groups(full); gs != ws {
				c.Violate("GroupBy three fields paging limit+"+how+": concatenated pages differ from the unpaged list", fmt.Sprintf("%s limit=%d", ds, L), gs, ws)
				return
			}
		}
	}
	if mask != 0 {
		c.Distinct(ds)
	}
	c.Outcome(fmt.Sprintf("three-field groups=%d", len(full)))
	return
}

func TestVerif_C16(t *testing.T) {
	c := vx.NewCheck("C16", "exploration",
		"datasets (every subset of the candidate bits of two set fields over three shards x treatment of two ghost bits x write path) x every Rows(previous x limit x column), MinRow/MaxRow(filter), GroupBy(children x limit x offset x filter x child limit/column) call, paging loops run to exhaustion; time field: every subset of timestamped bits x from/to x limit x previous x column; three-field GroupBy: every subset of {a,b,c} x rows x shards bits x paging loops (previous, offset; page sizes 1..3), every page compared with the model; oracle = sorted distinct non-empty rows / exact cross-product counts / concatenated pages == unpaged; distinct = distinct non-empty datasets")
	defer c16CloseAll()
	nb := c.Pick(6, 8)
	c.Bound("candidate_bits", nb)
	wrapKnown, loopKnown := false, false
	if !vx.IsChild() {
		wrapKnown = c16ConfirmMaxRowWrap(c)
		loopKnown = c16ConfirmGroupByLoop(c)
	}
	c16Part1(c, nb, wrapKnown, loopKnown)
	c16Part2(c)
	c16Part2b(c) // time ranges whose bounds are not aligned to the quantum (every day as `from`)
	c16Part3(c)
	c16Part4(c)
	c.Assume("single node, executor worker pool of 1; rows 0..3(4), three shards; GroupBy `previous` only as the cursor taken from the last group of a page (as documented)")
	if c.Finish() != 0 {
		t.Fail()
	}
}
