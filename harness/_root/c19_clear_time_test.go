package pilosa

// C19 — Clearing a bit removes it from every time range.
//
// Bounded-exhaustive exploration of write histories on a REAL time field of a REAL in-process node
// (Server + Holder + executor, no listener): for every quantum, for every set T of timestamps the
// target bit is set with (|T| <= kT, T from a 16-point grid 2 years x 2 months x 2 days x 2 hours),
// for every set S of timestamps a sibling bit (other column, same row) is set with (|S| <= kS; they
// create views that do not hold the target bit), the history
//     Set(target,t) for t in T ; Set(sibling,s) for s in S ; Clear(target) ; <observe> ;
//     Set(target,t0) ; Clear(target) ; <observe>
// is executed through PQL on the executor; a second family starts with an operation on the FRESH field
// (Clear of the target / of the sibling, Set without a timestamp) before any time view exists. <observe> reads the target row from EVERY view the field
// has (standard and all time views) and runs a battery of PQL Row(f=r, from=, to=) range queries
// plus Row(f=r). Oracle (the statement as is): after Clear the target column is returned by none.
// Both sort-relevant variants of the grid are explored (values sharing / not sharing leading digits
// of the view names) and both values of noStandardView.

import (
	"context"
	"encoding/json"
	"fmt"
	"sort"
	"strings"
	"sync"
	"testing"
	"time"

	"github.com/pilosa/pilosa/internal/vx"
	"github.com/pilosa/pilosa/pql"
	"github.com/pilosa/pilosa/syswrap"
)

type c19Ser struct{}

func (c19Ser) Marshal(Message) ([]byte, error)  { return []byte{}, nil }
func (c19Ser) Unmarshal([]byte, Message) error { return nil }

// c19Node is one complete in-process pilosa node on tmpfs.
type c19Node struct {
	srv    *Server
	idx    *Index
	parsed map[string]*pql.Query // per-node cache of parsed PQL (the peg parser allocates ~1 MB per parse)
}

func c19NewNode() *c19Node {
	dir := vx.Scratch()
	s, err := NewServer(
		OptServerDataDir(dir),
		OptServerNodeID("c19node"),
		OptServerClusterDisabled(true, nil),
		OptServerSerializer(c19Ser{}),
		OptServerIsCoordinator(true),
	)
	if err != nil {
		panic(err)
	}
	if err := s.Open(); err != nil {
		panic(err)
	}
	idx, err := s.holder.CreateIndex("i", IndexOptions{})
	if err != nil {
		panic(err)
	}
	return &c19Node{srv: s, idx: idx, parsed: map[string]*pql.Query{}}
}

func (n *c19Node) close() { _ = n.srv.Close() }

// query runs one PQL string through the real executor.
func (n *c19Node) query(q string) ([]interface{}, error) {
	pq := n.parsed[q]
	if pq == nil {
		var err error
		if pq, err = pql.ParseString(q); err != nil {
			return nil, err
		}
		n.parsed[q] = pq
	}
	// the executor rewrites call arguments in place (bool / key translation): run a copy
	run := &pql.Query{Calls: make([]*pql.Call, len(pq.Calls))}
	for i := range pq.Calls {
		run.Calls[i] = pq.Calls[i].Clone()
	}
	resp, err := n.srv.executor.Execute(context.Background(), "i", run, nil, nil)
	if err != nil {
		return nil, err
	}
	return resp.Results, nil
}

const (
	c19Row     = 1
	c19Target  = 7
	c19Sibling = 9
)

// two 16-point grids: A shares the leading digits of every unit (2018/2019, 01/02, 01/02, 00/01),
// B does not (2019/2020, 02/11, 03/28, 05/11). View-name sorting in ClearBit groups by prefixes.
var c19Grids = [2][4][2]int{
	{{2018, 2019}, {1, 2}, {1, 2}, {0, 1}},
	{{2019, 2020}, {2, 11}, {3, 28}, {5, 11}},
}

func c19GridPoint(g, i int) time.Time {
	G := c19Grids[g]
	return time.Date(G[0][(i>>3)&1], time.Month(G[1][(i>>2)&1]), G[2][(i>>1)&1], G[3][i&1], 0, 0, 0, time.UTC)
}

var c19Quanta = []string{"Y", "YM", "YMD", "YMDH", "M", "MD", "MDH", "D", "DH", "H"}

// c19ViewNames is the harness' own statement of which views a timestamp belongs to under a quantum
// (independent of viewsByTime): one view per unit letter, named standard_<prefix of yyyymmddhh>.
func c19ViewNames(t time.Time, q string) []string {
	full := t.Format("2006010215")
	var out []string
	for _, u := range q {
		switch u {
		case 'Y':
			out = append(out, "standard_"+full[:4])
		case 'M':
			out = append(out, "standard_"+full[:6])
		case 'D':
			out = append(out, "standard_"+full[:8])
		case 'H':
			out = append(out, "standard_"+full[:10])
		}
	}
	return out
}

type c19Range struct{ from, to time.Time }

// c19Ranges: the PQL range battery for a case: a span covering the whole grid plus, for every
// timestamp the target was ever set with, the enclosing year, month, day and hour, and one
// unaligned straddle. Ranges that would make the executor walk more than 1000 views are left out
// (cost only; the every-view read below is the complete observation).
var c19RangeCost sync.Map // "q|from|to" -> too expensive?

func c19Ranges(ts []time.Time, q string) []c19Range {
	var rs []c19Range
	add := func(a, b time.Time) {
		ck := q + "|" + a.Format(TimeFormat) + "|" + b.Format(TimeFormat)
		v, ok := c19RangeCost.Load(ck)
		if !ok {
			v = len(viewsByTimeRange(viewStandard, a, b, TimeQuantum(q))) > 1000
			c19RangeCost.Store(ck, v)
		}
		if v.(bool) {
			return
		}
		for _, r := range rs {
			if r.from.Equal(a) && r.to.Equal(b) {
				return
			}
		}
		rs = append(rs, c19Range{a, b})
	}
	add(time.Date(2017, 1, 1, 0, 0, 0, 0, time.UTC), time.Date(2022, 1, 1, 0, 0, 0, 0, time.UTC))
	for _, t := range ts {
		y := time.Date(t.Year(), 1, 1, 0, 0, 0, 0, time.UTC)
		add(y, y.AddDate(1, 0, 0))
		m := time.Date(t.Year(), t.Month(), 1, 0, 0, 0, 0, time.UTC)
		add(m, m.AddDate(0, 1, 0))
		d := time.Date(t.Year(), t.Month(), t.Day(), 0, 0, 0, 0, time.UTC)
		add(d, d.AddDate(0, 0, 1))
		add(t, t.Add(time.Hour))
		add(t.Add(-36*time.Hour), t.Add(40*24*time.Hour))
	}
	return rs
}

// c19Observe returns "" when the target column is returned by nothing, otherwise the sorted list of
// places that still return it.
func (n *c19Node) c19Observe(f *Field, fname, q string, ts []time.Time) string {
	var left []string
	// every view of the field, read at the fragment the executor reads.
	names := []string{}
	for _, v := range f.views() {
		names = append(names, v.name)
	}
	sort.Strings(names)
	for _, name := range names {
		frag := n.srv.holder.fragment("i", fname, name, c19Target/ShardWidth)
		if frag == nil {
			continue
		}
		for _, c := range frag.row(c19Row).Columns() {
			if c == c19Target {
				left = append(left, "view:"+name)
			}
		}
	}
	// PQL battery.
	rs := c19Ranges(ts, q)
	res := make([]interface{}, 0, len(rs)+1)
	qs := []string{fmt.Sprintf("Row(%s=%d)", fname, c19Row)}
	for _, r := range rs {
		qs = append(qs, fmt.Sprintf("Row(%s=%d, from='%s', to='%s')", fname, c19Row, r.from.Format(TimeFormat), r.to.Format(TimeFormat)))
	}
	for _, q1 := range qs {
		r1, err := n.query(q1)
		if err != nil {
			return "query-error:" + err.Error()
		}
		res = append(res, r1[0])
	}
	for i, r := range res {
		row, ok := r.(*Row)
		if !ok {
			left = append(left, fmt.Sprintf("query%d:not-a-row", i))
			continue
		}
		for _, c := range row.Columns() {
			if c == c19Target {
				if i == 0 {
					left = append(left, "pql:Row(standard)")
				} else {
					left = append(left, fmt.Sprintf("pql:Row(from=%s,to=%s)", rs[i-1].from.Format(TimeFormat), rs[i-1].to.Format(TimeFormat)))
				}
			}
		}
	}
	return strings.Join(left, " ")
}

type c19Case struct {
	Grid    int    `json:"grid"`
	Quantum string `json:"quantum"`
	NoStd   bool   `json:"noStandardView"`
	T       []int  `json:"target_points"`
	S       []int  `json:"sibling_points"`
	// Pre: an operation on the FRESH field, before any timestamped Set has created a time view:
	// "" | "clear-target" | "clear-sibling" | "set-target-plain" (a Set without timestamp)
	Pre string `json:"pre,omitempty"`
}

func (cs c19Case) String() string {
	var sb strings.Builder
	fmt.Fprintf(&sb, "time field quantum=%s noStandardView=%v:", cs.Quantum, cs.NoStd)
	switch cs.Pre {
	case "clear-target":
		fmt.Fprintf(&sb, " Clear(%d,f=%d)", c19Target, c19Row)
	case "clear-sibling":
		fmt.Fprintf(&sb, " Clear(%d,f=%d)", c19Sibling, c19Row)
	case "set-target-plain":
		fmt.Fprintf(&sb, " Set(%d,f=%d)", c19Target, c19Row)
	}
	for _, i := range cs.T {
		fmt.Fprintf(&sb, " Set(%d,f=%d,%s)", c19Target, c19Row, c19GridPoint(cs.Grid, i).Format(TimeFormat))
	}
	for _, i := range cs.S {
		fmt.Fprintf(&sb, " Set(%d,f=%d,%s)", c19Sibling, c19Row, c19GridPoint(cs.Grid, i).Format(TimeFormat))
	}
	fmt.Fprintf(&sb, " Clear(%d,f=%d)", c19Target, c19Row)
	return sb.String()
}

type c19Result struct {
	left1, left2 string // after first / second clear ("" = clean)
	errs         string
	views        string // canonical pre-clear state: view -> {target?, sibling?}
	ops          int
	// nothingCleared: after the first Clear every view that held the target still holds it
	nothingCleared bool
}

// c19Run executes one history on a fresh field of node n.
func (n *c19Node) c19Run(cs c19Case) c19Result {
	var r c19Result
	const fname = "f"
	f, err := n.idx.CreateField(fname, OptFieldTypeTime(TimeQuantum(cs.Quantum), cs.NoStd))
	if err != nil {
		panic(err)
	}
	defer func() {
		if err := n.idx.DeleteField(fname); err != nil {
			panic(err)
		}
	}()
	if cs.Pre == "file-limit" {
		// not an operation but a condition: the process is over its open-file budget (max-file-count),
		// so every fragment opens its file for one call at a time and closes it again
		syswrap.SetMaxFileCount(1)
		defer syswrap.SetMaxFileCount(500000)
	} else if cs.Pre != "" {
		pq := map[string]string{
			"clear-target":     fmt.Sprintf("Clear(%d, %s=%d)", c19Target, fname, c19Row),
			"clear-sibling":    fmt.Sprintf("Clear(%d, %s=%d)", c19Sibling, fname, c19Row),
			"set-target-plain": fmt.Sprintf("Set(%d, %s=%d)", c19Target, fname, c19Row),
		}[cs.Pre]
		if _, err := n.query(pq); err != nil {
			r.errs = "pre: " + err.Error()
			return r
		}
	}
	var ts []time.Time
	for _, i := range cs.T {
		t := c19GridPoint(cs.Grid, i)
		ts = append(ts, t)
		if _, err := n.query(fmt.Sprintf("Set(%d, %s=%d, %s)", c19Target, fname, c19Row, t.Format(TimeFormat))); err != nil {
			r.errs = "set: " + err.Error()
			return r
		}
	}
	for _, i := range cs.S {
		if _, err := n.query(fmt.Sprintf("Set(%d, %s=%d, %s)", c19Sibling, fname, c19Row, c19GridPoint(cs.Grid, i).Format(TimeFormat))); err != nil {
			r.errs = "set: " + err.Error()
			return r
		}
	}
	r.ops = len(cs.T) + len(cs.S)
	// canonical pre-clear state, and a sanity check that the sets landed where the harness' own
	// view naming says (otherwise the exploration would be vacuous).
	have := map[string]bool{}
	{
		var vb strings.Builder
		names := []string{}
		for _, v := range f.views() {
			names = append(names, v.name)
		}
		sort.Strings(names)
		for _, name := range names {
			frag := n.srv.holder.fragment("i", fname, name, 0)
			tg, sg := false, false
			if frag != nil {
				for _, c := range frag.row(c19Row).Columns() {
					tg = tg || c == c19Target
					sg = sg || c == c19Sibling
				}
			}
			if tg {
				have[name] = true
			}
			fmt.Fprintf(&vb, "%s:%v%v,", strings.TrimPrefix(name, "standard"), tg, sg)
		}
		r.views = vb.String()
		for _, t := range ts {
			for _, vn := range c19ViewNames(t, cs.Quantum) {
				if !have[vn] {
					r.errs += "set did not reach view " + vn + "; "
				}
			}
		}
		if !cs.NoStd && !have[viewStandard] {
			r.errs += "set did not reach the standard view; "
		}
		if r.errs != "" {
			return r
		}
	}
	clear := fmt.Sprintf("Clear(%d, %s=%d)", c19Target, fname, c19Row)
	if _, err := n.query(clear); err != nil {
		r.errs = "clear: " + err.Error()
		return r
	}
	r.ops++
	r.left1 = n.c19Observe(f, fname, cs.Quantum, ts)
	if r.left1 != "" {
		r.nothingCleared = true
		for vn := range have {
			if !strings.Contains(r.left1+" ", "view:"+vn+" ") {
				r.nothingCleared = false
			}
		}
		return r // do not extend a history beyond its first violation
	}
	// set again (first timestamp), clear again: now every view pre-exists without the bit.
	if _, err := n.query(fmt.Sprintf("Set(%d, %s=%d, %s)", c19Target, fname, c19Row, ts[0].Format(TimeFormat))); err != nil {
		r.errs = "re-set: " + err.Error()
		return r
	}
	if _, err := n.query(clear); err != nil {
		r.errs = "re-clear: " + err.Error()
		return r
	}
	r.ops += 2
	r.left2 = n.c19Observe(f, fname, cs.Quantum, ts)
	return r
}

// c19Subsets lists all subsets of {0..n-1} with lo <= size <= hi as sorted index slices,
// smallest first.
func c19Subsets(n, lo, hi int) [][]int {
	var out [][]int
	for size := lo; size <= hi; size++ {
		var rec func(start int, cur []int)
		rec = func(start int, cur []int) {
			if len(cur) == size {
				out = append(out, append([]int(nil), cur...))
				return
			}
			for i := start; i < n; i++ {
				rec(i+1, append(cur, i))
			}
		}
		rec(0, nil)
	}
	return out
}

func c19Mask(a []int) uint32 {
	var m uint32
	for _, i := range a {
		m |= 1 << uint(i)
	}
	return m
}

// c19Levels: which unit levels the leftover views belong to, e.g. "YMD".
func c19Levels(left string) string {
	has := map[int]bool{}
	std := false
	for _, p := range strings.Fields(left) {
		if !strings.HasPrefix(p, "view:") {
			continue
		}
		name := strings.TrimPrefix(p, "view:")
		if name == viewStandard {
			std = true
			continue
		}
		has[len(name)-len("standard_")] = true
	}
	s := ""
	if std {
		s += "S"
	}
	for _, lv := range []struct {
		n int
		c string
	}{{4, "Y"}, {6, "M"}, {8, "D"}, {10, "H"}} {
		if has[lv.n] {
			s += lv.c
		}
	}
	if s == "" {
		s = "query-only"
	}
	return s
}

// c19Relation describes, for a MINIMAL failing case, how the sibling timestamps relate to the
// target timestamps whose views kept the bit: for each sibling the coarsest calendar unit at which
// it differs from the (first) surviving target timestamp and the direction.
func c19Relation(cs c19Case, left string) string {
	// surviving target timestamps
	var surv []time.Time
	for _, i := range cs.T {
		t := c19GridPoint(cs.Grid, i)
		for _, vn := range c19ViewNames(t, cs.Quantum) {
			if strings.Contains(left+" ", "view:"+vn+" ") {
				surv = append(surv, t)
				break
			}
		}
	}
	if len(surv) == 0 {
		return "none"
	}
	ref := surv[0]
	rel := func(s time.Time) string {
		dir := "<"
		if s.After(ref) {
			dir = ">"
		}
		switch {
		case s.Year() != ref.Year():
			return dir + "Y"
		case s.Month() != ref.Month():
			return dir + "M"
		case s.Day() != ref.Day():
			return dir + "D"
		case s.Hour() != ref.Hour():
			return dir + "H"
		}
		return "="
	}
	var parts []string
	for _, i := range cs.S {
		parts = append(parts, "sib"+rel(c19GridPoint(cs.Grid, i)))
	}
	for _, i := range cs.T {
		t := c19GridPoint(cs.Grid, i)
		if !t.Equal(ref) {
			parts = append(parts, "tgt"+rel(t))
		}
	}
	sort.Strings(parts)
	if len(parts) == 0 {
		return "alone"
	}
	return strings.Join(parts, ",")
}

// c19Rec is what a worker reports back for one executed history.
type c19Rec struct {
	I     int    `json:"i"`
	L1    string `json:"l1,omitempty"`
	L2    string `json:"l2,omitempty"`
	Errs  string `json:"e,omitempty"`
	Views string `json:"v"`
	Ops   int    `json:"o"`
	NC    bool   `json:"nc,omitempty"`
}

var (
	c19NodeOnce sync.Once
	c19TheNode  *c19Node // one node per process (workers are processes)
)

func c19GetNode() *c19Node {
	c19NodeOnce.Do(func() { c19TheNode = c19NewNode() })
	return c19TheNode
}

func c19RunGuarded(cs c19Case) c19Result {
	var r c19Result
	if p := vx.Guard(func() { r = c19GetNode().c19Run(cs) }); p != "" {
		r.errs = p
	}
	return r
}

func TestVerif_C19(t *testing.T) {
	c := vx.NewCheck("C19", "model_checking",
		"every history Set(target,t∈T); Set(sibling,s∈S); Clear(target); observe; Set; Clear; observe with T,S subsets of a 16-point timestamp grid (|T|<=kT, |S|<=kS, timestamps merged when the quantum maps them to the same views), for all 10 quanta x 2 grids x noStandardView, on a real time field through the real executor; a history is not extended beyond a failing sub-history; distinct = distinct canonical pre-clear (view -> holds target/sibling) states")
	// quick: |T|<=2, |S|<=2, |T|+|S|<=3 on grid A, <=2 on grid B;
	// thorough: grid A |T|<=3,|S|<=2, grid B |T|<=2,|S|<=2.
	kS := 2
	maxTotalOf := func(grid int) int {
		if grid == 0 {
			return c.Pick(3, 5)
		}
		return c.Pick(2, 4)
	}
	kTof := func(grid int) int {
		if grid == 0 {
			return c.Pick(2, 3)
		}
		return 2
	}
	c.Bound("max_target_timestamps_gridA", kTof(0))
	c.Bound("max_target_timestamps_gridB", kTof(1))
	c.Bound("max_sibling_timestamps", kS)
	c.Bound("max_total_timestamps_gridA", maxTotalOf(0))
	c.Bound("max_total_timestamps_gridB", maxTotalOf(1))
	c.Bound("grids", c19Grids)
	c.Bound("quanta", c19Quanta)

	var transitions, minimalFails, pruned int64
	var flaky []string
	states := map[string]struct{}{}

	type cfg struct {
		grid  int
		q     string
		nostd bool
	}
	var cfgs []cfg
	// most structured configurations first (matters only when a deadline cuts the run short)
	for _, ns := range []bool{false, true} {
		for g := range c19Grids {
			for _, q := range []string{"YMDH", "YMD", "MDH", "YM", "MD", "DH", "Y", "M", "D", "H"} {
				cfgs = append(cfgs, cfg{g, q, ns})
			}
		}
	}
	type key struct{ t, s uint32 }
	parent := !vx.IsChild()

	// worker body: execute history i of the list passed as input.
	var decodedFor *byte
	var decoded []c19Case
	body := func(in []byte, i int, emit func([]byte)) {
		if len(in) == 0 {
			return
		}
		if decodedFor != &in[0] {
			decoded = nil
			if err := json.Unmarshal(in, &decoded); err != nil {
				panic(err)
			}
			decodedFor = &in[0]
		}
		cs := decoded[i]
		r := c19RunGuarded(cs)
		c.AddEval(1)
		st := cs.Quantum + fmt.Sprint(cs.NoStd) + r.views
		c.Distinct(st)
		c.Outcome(fmt.Sprintf("%s|%v|%s|%s|%s", cs.Quantum, cs.NoStd, c19Levels(r.left1), c19Levels(r.left2), c19ErrClass(r.errs)))
		if i%499 == 0 {
			c.Sample(cs.String())
		}
		b, _ := json.Marshal(c19Rec{I: i, L1: r.left1, L2: r.left2, Errs: r.errs, Views: st, Ops: r.ops, NC: r.nothingCleared})
		emit(b)
	}

	for _, cf := range cfgs {
		// representatives of timestamps with distinct view tuples under this quantum
		var pts []int
		seen := map[string]bool{}
		for i := 0; i < 16; i++ {
			k := strings.Join(c19ViewNames(c19GridPoint(cf.grid, i), cf.q), ",")
			if !seen[k] {
				seen[k] = true
				pts = append(pts, i)
			}
		}
		// single-unit quanta have no coarser/finer structure: one sibling bound less.
		ks := kS
		if len(cf.q) == 1 && ks > 1 {
			ks = 1
		}
		bySize := map[int][]c19Case{}
		if parent {
			for _, T := range c19Subsets(len(pts), 1, kTof(cf.grid)) {
				for _, S := range c19Subsets(len(pts), 0, ks) {
					cs := c19Case{Grid: cf.grid, Quantum: cf.q, NoStd: cf.nostd}
					for _, i := range T {
						cs.T = append(cs.T, pts[i])
					}
					for _, i := range S {
						cs.S = append(cs.S, pts[i])
					}
					bySize[len(T)+len(S)] = append(bySize[len(T)+len(S)], cs)
				}
			}
		}
		done := map[key]bool{} // true = failed, or has a failing sub-history (not executed)
		// the number of layers is fixed per configuration (independent of results)
		for sz := 1; sz <= maxTotalOf(cf.grid); sz++ {
			label := c.NextRunLabel()
			if parent && c.Expired() {
				continue
			}
			var run []c19Case
			for _, cs := range bySize[sz] {
				tm, sm := c19Mask(cs.T), c19Mask(cs.S)
				bad := false
				if len(cs.T) > 1 {
					for _, i := range cs.T {
						bad = bad || done[key{tm &^ (1 << uint(i)), sm}]
					}
				}
				for _, i := range cs.S {
					bad = bad || done[key{tm, sm &^ (1 << uint(i))}]
				}
				if bad {
					done[key{tm, sm}] = true
					pruned++
					continue
				}
				run = append(run, cs)
			}
			if parent && len(run) == 0 {
				continue
			}
			input, _ := json.Marshal(run)
			recs := make([]*c19Rec, len(run))
			c.ProcFor(label, len(run), input, body, func(b []byte) {
				var r c19Rec
				if json.Unmarshal(b, &r) == nil && r.I < len(recs) {
					recs[r.I] = &r
				}
			})
			if !parent {
				continue
			}
			// classification (sequential, deterministic order). Every failing history here is minimal:
			// all its sub-histories (one timestamp fewer) were executed and passed.
			for i, cs := range run {
				r := recs[i]
				k := key{c19Mask(cs.T), c19Mask(cs.S)}
				if r == nil { // not executed (deadline)
					done[k] = true
					continue
				}
				transitions += int64(r.Ops)
				states[r.Views] = struct{}{}
				if r.L1 == "" && r.L2 == "" && r.Errs == "" {
					continue
				}
				done[k] = true
				// believe a failure only if it reproduces identically 3 more times
				same := 0
				for j := 0; j < 3; j++ {
					r2 := c19RunGuarded(cs)
					if r2.left1 == r.L1 && r2.left2 == r.L2 && r2.errs == r.Errs {
						same++
					}
				}
				if same != 3 {
					flaky = append(flaky, fmt.Sprintf("%s reproduced %d/3", cs.String(), same))
					continue
				}
				minimalFails++
				var fk, got string
				switch {
				case r.Errs != "":
					fk = fmt.Sprintf("error quantum=%s noStandardView=%v: %s", cs.Quantum, cs.NoStd, c19ErrClass(r.Errs))
					got = r.Errs
				case r.L1 != "" && r.NC && len(cs.T) == 1 && len(cs.S) == 0:
					// the simplest possible history already fails and Clear removed nothing at all
					fk = fmt.Sprintf("clear-is-a-noop noStandardView=%v", cs.NoStd)
					got = "still returned by: " + r.L1
				case r.L1 != "":
					fk = fmt.Sprintf("clear-leaves-bit quantum=%s noStandardView=%v targets=%d siblings=%d relation=%s left-in=%s", cs.Quantum, cs.NoStd, len(cs.T), len(cs.S), c19Relation(cs, r.L1), c19Levels(r.L1))
					got = "still returned by: " + r.L1
				default:
					fk = fmt.Sprintf("second-clear-leaves-bit quantum=%s noStandardView=%v targets=%d siblings=%d left-in=%s", cs.Quantum, cs.NoStd, len(cs.T), len(cs.S), c19Levels(r.L2))
					got = "after Set;Clear again still returned by: " + r.L2
				}
				c.Violate(fk, cs.String(), got, "target column returned by no view and no range query")
			}
		}
	}
	// ---- histories that touch the FRESH field first --------------------------------------------
	// an operation before the first timestamped Set (Clear of the target / of the sibling, a Set
	// without timestamp), then Set(target,t); [Set(sibling,t)]; Clear; observe; Set; Clear; observe.
	{
		var run []c19Case
		if parent {
			for _, cf := range cfgs {
				seen := map[string]bool{}
				n := 0
				for i := 0; i < 16 && n < 2; i++ {
					k := strings.Join(c19ViewNames(c19GridPoint(cf.grid, i), cf.q), ",")
					if seen[k] {
						continue
					}
					seen[k] = true
					n++
					for _, pre := range []string{"clear-target", "clear-sibling", "set-target-plain", "file-limit"} {
						if pre == "set-target-plain" && cf.nostd {
							continue
						}
						run = append(run, c19Case{Grid: cf.grid, Quantum: cf.q, NoStd: cf.nostd, T: []int{i}, Pre: pre},
							c19Case{Grid: cf.grid, Quantum: cf.q, NoStd: cf.nostd, T: []int{i}, S: []int{i}, Pre: pre})
					}
				}
			}
		}
		c.Bound("fresh_field_histories", len(run))
		input, _ := json.Marshal(run)
		recs := make([]*c19Rec, len(run))
		c.ProcFor(c.NextRunLabel(), len(run), input, body, func(b []byte) {
			var r c19Rec
			if json.Unmarshal(b, &r) == nil && r.I < len(recs) {
				recs[r.I] = &r
			}
		})
		for i, cs := range run {
			r := recs[i]
			if r == nil || (r.L1 == "" && r.L2 == "" && r.Errs == "") {
				continue
			}
			same := 0
			for j := 0; j < 3; j++ {
				r2 := c19RunGuarded(cs)
				if r2.left1 == r.L1 && r2.left2 == r.L2 && r2.errs == r.Errs {
					same++
				}
			}
			if same != 3 {
				flaky = append(flaky, fmt.Sprintf("%s reproduced %d/3", cs.String(), same))
				continue
			}
			minimalFails++
			got := "still returned by: " + r.L1 + r.L2
			fk := fmt.Sprintf("clear-leaves-bit after=%s-on-fresh-field quantum=%s noStandardView=%v siblings=%d", cs.Pre, cs.Quantum, cs.NoStd, len(cs.S))
			if r.Errs != "" {
				fk = fmt.Sprintf("error after=%s-on-fresh-field quantum=%s noStandardView=%v: %s", cs.Pre, cs.Quantum, cs.NoStd, c19ErrClass(r.Errs))
				got = r.Errs
			}
			c.Violate(fk, cs.String(), got, "target column returned by no view and no range query")
		}
	}
	c.AddStates(int64(len(states)))
	c.AddTransitions(transitions)
	c.AddValidated(c.Evaluations)
	c.Extra("minimal_failing_histories", minimalFails)
	if len(flaky) > 0 {
		c.Extra("flaky_not_reported", flaky)
	}
	c.Extra("histories_not_run_because_a_subhistory_fails", pruned)
	c.Assume("sibling bits on another row of the same column are equivalent to sibling bits on another column for Field.ClearBit (either way the view exists and clearBit reports no change); only other-column siblings are enumerated")
	c.Assume("range battery limited to ranges that make the executor walk <= 1000 views; the read of every existing view is the complete observation")
	if c.Finish() != 0 {
		t.Fail()
	}
}

func c19ErrClass(e string) string {
	if i := strings.Index(e, ":"); i > 0 {
		return e[:i]
	}
	return e
}
