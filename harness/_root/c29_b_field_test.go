package pilosa

// C29, second scenario family — the layers ABOVE the fragment: concurrent requests on one real
// Index/Field whose views and fragments do not exist yet, so that lazy creation
// (Field.createViewIfNotExists, view.CreateFragmentIfNotExists, available-shard bookkeeping,
// Index.CreateFieldIfNotExists) races with writes, reads, imports and field deletion. Same engine and
// oracle as the fragment family: all schedules at lock granularity up to the preemption bound; no
// deadlock / panic / blocked thread; the call/return history plus a final full read is linearizable
// with sequential runs of the same code as specification.

import (
	"fmt"
	"os"
	"sort"
	"strings"
	"time"

	"github.com/pilosa/pilosa/internal/vsched"
	"github.com/pilosa/pilosa/internal/vx"
)

type c29fWorld struct {
	idx *Index
	dir string
}

func c29fOpen() *c29fWorld {
	dir := vx.Scratch()
	idx, err := NewIndex(dir+"/i", "i")
	if err != nil {
		panic(err)
	}
	if err := idx.Open(); err != nil {
		panic(err)
	}
	if _, err := idx.CreateField("f", OptFieldTypeTime(TimeQuantum("YM"))); err != nil {
		panic(err)
	}
	if _, err := idx.CreateField("m", OptFieldTypeMutex(CacheTypeRanked, 100)); err != nil {
		panic(err)
	}
	return &c29fWorld{idx: idx, dir: dir}
}

func (w *c29fWorld) close() {
	vx.Guard(func() { w.idx.Close() })
	os.RemoveAll(w.dir)
}

type c29fOp struct {
	name string
	run  func(w *c29fWorld) string
}

func c29fRowStr(f *Field, row uint64) string {
	if f == nil {
		return "nofield"
	}
	r, err := f.Row(row)
	if err != nil {
		return "err:" + err.Error()
	}
	return vx.SortedU64(r.Columns())
}

func c29fOps() []c29fOp {
	ts := time.Date(2019, 3, 1, 0, 0, 0, 0, time.UTC)
	sw := uint64(ShardWidth)
	fld := func(w *c29fWorld, n string) *Field { return w.idx.Field(n) }
	return []c29fOp{
		{"Set(f,1,c1)", func(w *c29fWorld) string { ch, err := fld(w, "f").SetBit(1, 1, nil); return fmt.Sprint(ch, err) }},
		{"Set(f,1,c1@shard1)", func(w *c29fWorld) string { ch, err := fld(w, "f").SetBit(1, sw+1, nil); return fmt.Sprint(ch, err) }},
		{"Set(f,1,c2,ts)", func(w *c29fWorld) string { ch, err := fld(w, "f").SetBit(1, 2, &ts); return fmt.Sprint(ch, err) }},
		{"Clear(f,1,c1)", func(w *c29fWorld) string { ch, err := fld(w, "f").ClearBit(1, 1); return fmt.Sprint(ch, err) }},
		{"Row(f,1)", func(w *c29fWorld) string { return c29fRowStr(fld(w, "f"), 1) }},
		// one import request addresses ONE shard (API.Import is per shard). No timestamps here:
		// Field.Import walks its per-view batches in Go map order, which no scheduler can replay
		// (the multi-view write path is covered by Set with a timestamp)
		{"Import(f)", func(w *c29fWorld) string {
			return fmt.Sprint(fld(w, "f").Import([]uint64{1, 1}, []uint64{3, 4}, []*time.Time{nil, nil}))
		}},
		{"AvailableShards(f)", func(w *c29fWorld) string { return vx.SortedU64(fld(w, "f").AvailableShards().Slice()) }},
		{"Set(m,1,c1)", func(w *c29fWorld) string { ch, err := fld(w, "m").SetBit(1, 1, nil); return fmt.Sprint(ch, err) }},
		{"Set(m,2,c1)", func(w *c29fWorld) string { ch, err := fld(w, "m").SetBit(2, 1, nil); return fmt.Sprint(ch, err) }},
		{"Rows(m)", func(w *c29fWorld) string {
			return c29fRowStr(fld(w, "m"), 1) + "|" + c29fRowStr(fld(w, "m"), 2)
		}},
		{"CreateFieldIfNotExists(g)", func(w *c29fWorld) string {
			_, err := w.idx.CreateFieldIfNotExists("g", OptFieldTypeDefault())
			return fmt.Sprint(err)
		}},
		{"Set(g,1,c1)", func(w *c29fWorld) string {
			f, err := w.idx.CreateFieldIfNotExists("g", OptFieldTypeDefault())
			if err != nil {
				return "create:" + err.Error()
			}
			ch, err := f.SetBit(1, 1, nil)
			return fmt.Sprint(ch, err)
		}},
		{"Fields", func(w *c29fWorld) string {
			var ns []string
			for _, f := range w.idx.Fields() {
				ns = append(ns, f.Name())
			}
			sort.Strings(ns)
			return strings.Join(ns, ",")
		}},
	}
}

func c29fFinal(w *c29fWorld) string {
	var sb strings.Builder
	var ns []string
	for _, f := range w.idx.Fields() {
		ns = append(ns, f.Name())
	}
	sort.Strings(ns)
	for _, n := range ns {
		f := w.idx.Field(n)
		var vs []string
		for _, v := range f.views() {
			vs = append(vs, v.name)
		}
		sort.Strings(vs)
		fmt.Fprintf(&sb, "%s[views=%s shards=%s r1=%s r2=%s] ", n, strings.Join(vs, ","), vx.SortedU64(f.AvailableShards().Slice()), c29fRowStr(f, 1), c29fRowStr(f, 2))
	}
	return sb.String()
}

type c29fEvent struct {
	thread, op, call, ret int
	res                   string
}

func c29fLinearizable(ops []c29fOp, evs []c29fEvent, final string, cache map[string][]string) (bool, string) {
	n := len(evs)
	perm := make([]int, 0, n)
	used := make([]bool, n)
	var tried []string
	var rec func() bool
	rec = func() bool {
		if len(perm) == n {
			var ids []string
			for _, i := range perm {
				ids = append(ids, fmt.Sprint(evs[i].op))
			}
			key := strings.Join(ids, ",")
			res, ok := cache[key]
			if !ok {
				w := c29fOpen()
				for _, i := range perm {
					res = append(res, ops[evs[i].op].run(w))
				}
				res = append(res, c29fFinal(w))
				w.close()
				cache[key] = res
			}
			match := res[n] == final
			for j, i := range perm {
				if res[j] != evs[i].res {
					match = false
				}
			}
			if !match {
				tried = append(tried, fmt.Sprintf("%v=>%v", ids, res))
			}
			return match
		}
		for i := 0; i < n; i++ {
			if used[i] {
				continue
			}
			ok := true
			for j := 0; j < n; j++ {
				if j != i && !used[j] && evs[j].ret < evs[i].call {
					ok = false
					break
				}
			}
			if !ok {
				continue
			}
			used[i] = true
			perm = append(perm, i)
			if rec() {
				return true
			}
			perm = perm[:len(perm)-1]
			used[i] = false
		}
		return false
	}
	if rec() {
		return true, ""
	}
	return false, strings.Join(tried, " ; ")
}

// c29fMinimalPair: for a violating scenario with more than two operations, looks for two single
// operations from DIFFERENT threads of it that are not linearizable on their own (full exploration of
// that two-thread scenario with the same preemption bound) and returns the finding key of the first
// such pair, or "".
func c29fMinimalPair(ops []c29fOp, sc [][]int, bound int) string {
	total := 0
	for _, th := range sc {
		total += len(th)
	}
	if total <= 2 {
		return ""
	}
	tried := map[[2]int]bool{}
	for i := 0; i < len(sc); i++ {
		for j := i + 1; j < len(sc); j++ {
			for _, a := range sc[i] {
				for _, b := range sc[j] {
					pr := [2]int{a, b}
					if a > b {
						pr = [2]int{b, a}
					}
					if tried[pr] {
						continue
					}
					tried[pr] = true
					if c29fPairViolates(ops, pr[0], pr[1], bound) {
						set := map[string]bool{ops[pr[0]].name: true, ops[pr[1]].name: true}
						var ks []string
						for k := range set {
							ks = append(ks, k)
						}
						sort.Strings(ks)
						return "field " + strings.Join(ks, "|")
					}
				}
			}
		}
	}
	return ""
}

func c29fPairViolates(ops []c29fOp, a, b, bound int) bool {
	sc := [][]int{{a}, {b}}
	cache := map[string][]string{}
	var evs []c29fEvent
	var clock int
	var world *c29fWorld
	bad := false
	build := func(x *vsched.X) func(tr *vsched.Trace) {
		evs = evs[:0]
		clock = 0
		world = c29fOpen()
		w := world
		for ti, th := range sc {
			ti, th := ti, th
			x.Go(fmt.Sprintf("t%d", ti), func() {
				for _, oi := range th {
					clock++
					e := c29fEvent{thread: ti, op: oi, call: clock}
					e.res = ops[oi].run(w)
					clock++
					e.ret = clock
					evs = append(evs, e)
				}
			})
		}
		return nil
	}
	vsched.Explore(bound, vsched.Options{Reduce: true}, build, func(choices []int, tr *vsched.Trace) bool {
		defer world.close()
		if tr.Diverged != "" || tr.Deadlock != "" || len(tr.Panics) > 0 || len(tr.Leaked) > 0 {
			return true
		}
		final := c29fFinal(world)
		hist := append([]c29fEvent(nil), evs...)
		sort.Slice(hist, func(i, j int) bool { return hist[i].call < hist[j].call })
		if ok, _ := c29fLinearizable(ops, hist, final, cache); !ok {
			bad = true
			return false
		}
		return true
	}, nil)
	return bad
}

// c29FieldPart explores the field-level scenarios; called from TestVerif_C29 inside its bubble.
func c29FieldPart(c *vx.Check) {
	ops := c29fOps()
	var scs [][][]int
	n := len(ops)
	for a := 0; a < n; a++ {
		for b := a; b < n; b++ {
			scs = append(scs, [][]int{{a}, {b}})
		}
	}
	if c.Thorough() {
		core := []int{0, 1, 2, 4, 5, 8, 11}
		for i, a := range core {
			for j := i; j < len(core); j++ {
				for k := j; k < len(core); k++ {
					scs = append(scs, [][]int{{a}, {core[j]}, {core[k]}})
				}
			}
		}
		for _, p := range [][]int{{0, 4}, {2, 4}, {5, 6}, {8, 9}, {11, 12}} {
			for b := 0; b < n; b++ {
				scs = append(scs, [][]int{p, {b}})
			}
		}
	}
	bound := c.Pick(2, 2)
	c.Bound("field_scenarios", len(scs))
	c.ProcFor(c.NextRunLabel(), len(scs), nil, func(_ []byte, si int, emit func([]byte)) {
		sc := scs[si]
		var parts []string
		set := map[string]bool{}
		for _, th := range sc {
			var ns []string
			for _, i := range th {
				ns = append(ns, ops[i].name)
				set[ops[i].name] = true
			}
			parts = append(parts, strings.Join(ns, ";"))
		}
		name := "field: " + strings.Join(parts, " || ")
		var ks []string
		for k := range set {
			ks = append(ks, k)
		}
		sort.Strings(ks)
		key := "field " + strings.Join(ks, "|")
		cache := map[string][]string{}
		var evs []c29fEvent
		var clock int
		var world *c29fWorld
		build := func(x *vsched.X) func(tr *vsched.Trace) {
			evs = evs[:0]
			clock = 0
			world = c29fOpen()
			w := world
			for ti, th := range sc {
				ti, th := ti, th
				x.Go(fmt.Sprintf("t%d", ti), func() {
					for _, oi := range th {
						clock++
						e := c29fEvent{thread: ti, op: oi, call: clock}
						e.res = ops[oi].run(w)
						clock++
						e.ret = clock
						evs = append(evs, e)
					}
				})
			}
			return nil
		}
		st := vsched.Explore(bound, vsched.Options{Reduce: true}, build, func(choices []int, tr *vsched.Trace) bool {
			c.AddEval(1)
			c.AddTransitions(int64(tr.Steps))
			cs := map[string]interface{}{"scenario": name, "choices": choices, "schedule": strings.Join(tr.Schedule, " ")}
			defer world.close()
			switch {
			case tr.Diverged != "":
				c.NotExhaustive("a schedule prefix did not replay deterministically: " + name)
				return true
			case tr.Deadlock != "":
				c.Violate("deadlock "+key, cs, tr.Deadlock, "no deadlock")
				return false
			case len(tr.Panics) > 0:
				c.Violate("panic "+key, cs, strings.Join(tr.Panics, " ; "), "no panic")
				return false
			case len(tr.Leaked) > 0:
				c.Violate("blocked-forever "+key, cs, strings.Join(tr.Leaked, " ; "), "all threads finish")
				return false
			}
			final := c29fFinal(world)
			hist := append([]c29fEvent(nil), evs...)
			sort.Slice(hist, func(i, j int) bool { return hist[i].call < hist[j].call })
			var rs []string
			for _, e := range hist {
				rs = append(rs, fmt.Sprintf("t%d.%s=%s", e.thread, ops[e.op].name, e.res))
			}
			obs := strings.Join(rs, " ") + " final=" + final
			c.Outcome(obs)
			c.Distinct(name + "|" + obs)
			if ok, tried := c29fLinearizable(ops, hist, final, cache); !ok {
				k := key
				if mk := c29fMinimalPair(ops, sc, bound); mk != "" {
					// the anomaly already exists between two single operations of this scenario: the
					// finding is keyed by that minimal pair, whatever else ran alongside
					k = mk
				}
				c.Violate("not-linearizable "+k, cs, obs, "some sequential order of the operations; tried: "+tried)
				return false
			}
			return true
		}, nil)
		if st.Executions > 0 && si%8 == 0 {
			c.Sample(map[string]interface{}{"scenario": name, "schedules": st.Executions, "by_preemptions": st.ByBound, "max_decisions": st.MaxDecisions})
		}
		c.AddStates(int64(st.Executions))
	}, nil)
}
