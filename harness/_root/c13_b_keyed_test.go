package pilosa

// C13 — keyed variant: the same last-writer-wins statement when columns and rows are addressed by
// string keys (index keys:true, mutex field keys:true; bool field in the keyed index). API.Import
// takes a different route for keyed requests (translate, regroup per shard, forward), so the order
// of a batch that repeats a column with conflicting rows has to survive that route too.
// Enumerated on a real in-process node: every history  [first batch of length <= 1] ;
// [second batch of length <= 3]  over 2 column keys x 3 row keys (2 for bool); the row keys were
// created in a FIXED order beforehand (ids 1,2,3), so batches list rows in ascending AND descending
// id order. After the history: Rows(f, column=key) for every column key and Row(f=key) for every row
// key through API.Query, compared with a last-writer-wins map.

import (
	"context"
	"fmt"
	"sort"
	"strings"

	"github.com/pilosa/pilosa/internal/vx"
)

type c13kPair struct{ row, col int }

// c13kClient is the loop-back internal client: with keys the API forwards every import to the node
// owning the shard through the InternalClient (the default one of an in-process server does nothing);
// this one hands the forwarded request to the same node's API, as the HTTP handler would.
type c13kClient struct {
	nopInternalClient
	api *API
}

func (c *c13kClient) Import(ctx context.Context, index, field string, shard uint64, bits []Bit, opts ...ImportOption) error {
	req := &ImportRequest{Index: index, Field: field, Shard: shard}
	for _, b := range bits {
		req.RowIDs = append(req.RowIDs, b.RowID)
		req.ColumnIDs = append(req.ColumnIDs, b.ColumnID)
	}
	return c.api.Import(ctx, req, opts...)
}

func c13kNewNode() *c13Node {
	cl := &c13kClient{}
	s, err := NewServer(
		OptServerDataDir(vx.Scratch()),
		OptServerNodeID("c13knode"),
		OptServerClusterDisabled(true, nil),
		OptServerSerializer(c13Ser{}),
		OptServerIsCoordinator(true),
		OptServerInternalClient(cl),
	)
	if err != nil {
		panic(err)
	}
	if err := s.Open(); err != nil {
		panic(err)
	}
	api, err := NewAPI(OptAPIServer(s))
	if err != nil {
		panic(err)
	}
	cl.api = api
	return &c13Node{srv: s, api: api}
}

func c13kBatches(nrows, ncols, maxLen int) [][]c13kPair {
	var pairs []c13kPair
	for c := 0; c < ncols; c++ {
		for r := 0; r < nrows; r++ {
			pairs = append(pairs, c13kPair{r, c})
		}
	}
	out := [][]c13kPair{{}}
	prev := [][]c13kPair{{}}
	for l := 1; l <= maxLen; l++ {
		var next [][]c13kPair
		for _, b := range prev {
			for _, p := range pairs {
				nb := append(append([]c13kPair{}, b...), p)
				next = append(next, nb)
			}
		}
		out = append(out, next...)
		prev = next
	}
	return out
}

func c13KeyedPart(c *vx.Check) {
	type kcfg struct {
		kind string
		rows []string // row keys (mutex) in creation order
	}
	cfgs := []kcfg{{"mutex", []string{"r0", "r1", "r2"}}, {"bool", []string{"false", "true"}}}
	cols := []string{"a", "b"}
	type job struct {
		cf     int
		first  []c13kPair
		second []c13kPair
	}
	var jobs []job
	for ci, cf := range cfgs {
		firsts := c13kBatches(len(cf.rows), len(cols), 1)
		seconds := c13kBatches(len(cf.rows), len(cols), 3)
		for _, f := range firsts {
			for _, s := range seconds {
				if len(s) == 0 {
					continue
				}
				jobs = append(jobs, job{ci, f, s})
			}
		}
	}
	c.Bound("keyed_histories", len(jobs))
	const chunk = 64
	nchunks := (len(jobs) + chunk - 1) / chunk
	c.ProcFor(c.NextRunLabel(), nchunks, nil, func(_ []byte, ch int, _ func([]byte)) {
		n := c13kNewNode()
		defer func() {
			_ = n.api.Close()
			_ = n.srv.Close()
		}()
		ctx := context.Background()
		if _, err := n.api.CreateIndex(ctx, "k", IndexOptions{Keys: true}); err != nil {
			panic(err)
		}
		for ji := ch * chunk; ji < len(jobs) && ji < (ch+1)*chunk; ji++ {
			jb := jobs[ji]
			cf := cfgs[jb.cf]
			fname := fmt.Sprintf("f%d", ji)
			var err error
			if cf.kind == "bool" {
				_, err = n.api.CreateField(ctx, "k", fname, OptFieldTypeBool())
			} else {
				_, err = n.api.CreateField(ctx, "k", fname, OptFieldTypeMutex(DefaultCacheType, DefaultCacheSize), OptFieldKeys())
			}
			if err != nil {
				panic(err)
			}
			model := map[string]string{} // column key -> row key
			imp := func(b []c13kPair) error {
				req := &ImportRequest{Index: "k", Field: fname}
				for _, p := range b {
					req.ColumnKeys = append(req.ColumnKeys, cols[p.col])
					if cf.kind == "bool" {
						req.RowIDs = append(req.RowIDs, uint64(p.row))
					} else {
						req.RowKeys = append(req.RowKeys, cf.rows[p.row])
					}
					model[cols[p.col]] = cf.rows[p.row]
				}
				return n.api.Import(ctx, req)
			}
			desc := func(b []c13kPair) string {
				var s []string
				for _, p := range b {
					s = append(s, cols[p.col]+"="+cf.rows[p.row])
				}
				return "[" + strings.Join(s, " ") + "]"
			}
			hist := ""
			var herr error
			if cf.kind == "mutex" {
				// fix the row ids: r0,r1,r2 -> 1,2,3 (column z keeps the last of them)
				req := &ImportRequest{Index: "k", Field: fname, ColumnKeys: []string{"z", "z", "z"}, RowKeys: append([]string{}, cf.rows...)}
				herr = n.api.Import(ctx, req)
				model["z"] = cf.rows[len(cf.rows)-1]
				hist = "Import[z=r0 z=r1 z=r2];"
			}
			if herr == nil && len(jb.first) > 0 {
				herr = imp(jb.first)
				hist += "Import" + desc(jb.first) + ";"
			}
			if herr == nil {
				herr = imp(jb.second)
				hist += "Import" + desc(jb.second)
			}
			c.AddEval(1)
			cs := map[string]interface{}{"field": cf.kind + " (index keys, field keys)", "history": hist}
			shape := "ascending-or-single"
			for i := 1; i < len(jb.second); i++ {
				if jb.second[i].col == jb.second[i-1].col && jb.second[i].row < jb.second[i-1].row {
					shape = "conflicting-repeat-descending-row-id"
				}
			}
			key := fmt.Sprintf("keyed %s import: wrong value kept (batch shape %s)", cf.kind, shape)
			if herr != nil {
				c.Violate(fmt.Sprintf("keyed %s import: error", cf.kind), cs, herr.Error(), "<nil>")
			} else {
				var got, want []string
				allCols := append([]string{}, cols...)
				if cf.kind == "mutex" {
					allCols = append(allCols, "z")
				}
				for _, ck := range allCols {
					resp, err := n.api.Query(ctx, &QueryRequest{Index: "k", Query: fmt.Sprintf("Rows(%s, column=%q)", fname, ck)})
					g := ""
					if err != nil {
						g = "error " + err.Error()
					} else if ri, ok := resp.Results[0].(RowIdentifiers); ok {
						if cf.kind == "bool" {
							for _, r := range ri.Rows {
								g += cf.rows[r] + ","
							}
						} else {
							g = strings.Join(ri.Keys, ",")
							if g != "" {
								g += ","
							}
						}
					} else {
						g = fmt.Sprintf("%T", resp.Results[0])
					}
					got = append(got, ck+":"+g)
					w := ""
					if r, ok := model[ck]; ok {
						w = r + ","
					}
					want = append(want, ck+":"+w)
				}
				for _, rk := range cf.rows {
					resp, err := n.api.Query(ctx, &QueryRequest{Index: "k", Query: fmt.Sprintf("Row(%s=%s)", fname, map[bool]string{true: rk, false: fmt.Sprintf("%q", rk)}[cf.kind == "bool"])})
					g := ""
					if err != nil {
						g = "error " + err.Error()
					} else if row, ok := resp.Results[0].(*Row); ok {
						ks := append([]string{}, row.Keys...)
						sort.Strings(ks)
						g = strings.Join(ks, ",")
					} else {
						g = fmt.Sprintf("%T", resp.Results[0])
					}
					got = append(got, "row "+rk+":"+g)
					var ws []string
					for ck, r := range model {
						if r == rk {
							ws = append(ws, ck)
						}
					}
					sort.Strings(ws)
					want = append(want, "row "+rk+":"+strings.Join(ws, ","))
				}
				gs, ws := strings.Join(got, " "), strings.Join(want, " ")
				c.Outcome(cf.kind + " " + ws)
				c.Distinct(cf.kind + "|" + hist)
				if gs != ws {
					c.Violate(key, cs, gs, ws)
				}
			}
			if err := n.api.DeleteField(ctx, "k", fname); err != nil {
				panic(err)
			}
		}
	}, nil)
}
