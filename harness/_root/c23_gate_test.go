package pilosa

// C23 — Requests are refused while the cluster is not serving.
//
// Every exported method of *API (found by reflection; a method the classification table below
// does not know FAILS the check) x every cluster-state configuration {STARTING as constructed,
// STARTING set, NORMAL, DEGRADED, RESIZING set directly, RESIZING reached through SetState from
// NORMAL} x the method's argument variants is invoked (by reflection, minimal valid arguments) on a
// fresh real single-node Server (NewServer + holder + API, no listener, no background monitors) with
// prepared data. Oracle, from the statement:
//   * data classes (query, import, export, schema change, anti-entropy): STARTING/RESIZING => the
//     returned error's cause is the method-not-allowed error AND the holder directory (every file,
//     byte for byte) and the in-memory schema/contents digest are identical before/after;
//     NORMAL/DEGRADED => not refused.
//   * every other state-gated entry (lookups, cache recalculation, node removal): RESIZING =>
//     refused (only the four served classes may run); a refusal never changes the holder.
//   * served classes (cluster message, set-coordinator, fragment data, resize abort): RESIZING =>
//     not refused.
//   * informational entries (State, Version, Info, Hosts, Node, Schema, MaxShards, ...): allowed in
//     every state provided the holder is identical afterwards.

import (
	"bytes"
	"context"
	"crypto/sha1"
	"encoding/hex"
	"encoding/json"
	"fmt"
	"io"
	"io/ioutil"
	"os"
	"path/filepath"
	"reflect"
	"sort"
	"strings"
	"testing"

	"github.com/pilosa/pilosa/internal/vx"
	"github.com/pilosa/pilosa/roaring"
	"github.com/pkg/errors"
)

// c23Serializer is a stand-in for the protobuf serializer (which cannot be imported from inside
// package pilosa): JSON is enough for the request/message structs used here.
type c23Serializer struct{}

func (c23Serializer) Marshal(m Message) ([]byte, error)   { return json.Marshal(m) }
func (c23Serializer) Unmarshal(b []byte, m Message) error { return json.Unmarshal(b, m) }

const (
	c23Data    = "data"    // query, import, export, schema change, anti-entropy
	c23Gated   = "gated"   // other state-gated entries (not one of the statement's data classes)
	c23Served  = "served"  // cluster message, coordinator change, shard data transfer, resize abort
	c23Info    = "info"    // status reporting, ungated by design
	c23ReplLog = "repllog" // read-only translate-log stream, ungated; judged like info (see note)
	c23Write   = "ungated-write"
	c23Skip    = "lifecycle"
)

type c23Env struct {
	srv *Server
	api *API
	dir string
	ctx context.Context
	ser c23Serializer
}

type c23Variant struct {
	name string
	args func(e *c23Env) []interface{}
}

type c23Method struct {
	class    string
	what     string // which class of the statement it belongs to
	variants []c23Variant
}

func c23V(name string, f func(e *c23Env) []interface{}) c23Variant { return c23Variant{name, f} }

func c23Roaring(vals ...uint64) []byte {
	var buf bytes.Buffer
	if _, err := roaring.NewBitmap(vals...).WriteTo(&buf); err != nil {
		panic(err)
	}
	return buf.Bytes()
}

func c23Table() map[string]c23Method {
	ctxOf := func(e *c23Env) interface{} { return e.ctx }
	body := func(e *c23Env, m Message) io.Reader {
		b, err := e.ser.Marshal(m)
		if err != nil {
			panic(err)
		}
		return bytes.NewReader(b)
	}
	return map[string]c23Method{
		"Query": {c23Data, "query", []c23Variant{
			c23V("write", func(e *c23Env) []interface{} {
				return []interface{}{ctxOf(e), &QueryRequest{Index: "i", Query: "Set(9, f=7)"}}
			}),
			c23V("read", func(e *c23Env) []interface{} {
				return []interface{}{ctxOf(e), &QueryRequest{Index: "i", Query: "Row(f=1)"}}
			}),
			c23V("clear", func(e *c23Env) []interface{} {
				return []interface{}{ctxOf(e), &QueryRequest{Index: "i", Query: "Clear(1, f=1)"}}
			}),
			c23V("attrs", func(e *c23Env) []interface{} {
				return []interface{}{ctxOf(e), &QueryRequest{Index: "i", Query: `SetRowAttrs(f, 1, x="y")`}}
			}),
			// the node-to-node form of a query (one leg of a distributed query: remote flag + shard list)
			c23V("remote-write", func(e *c23Env) []interface{} {
				return []interface{}{ctxOf(e), &QueryRequest{Index: "i", Query: "Set(9, f=7)", Remote: true, Shards: []uint64{0}}}
			}),
			c23V("remote-read", func(e *c23Env) []interface{} {
				return []interface{}{ctxOf(e), &QueryRequest{Index: "i", Query: "Row(f=1)", Remote: true, Shards: []uint64{0}}}
			}),
			c23V("read-options", func(e *c23Env) []interface{} {
				return []interface{}{ctxOf(e), &QueryRequest{Index: "i", Query: "Row(f=1)", Shards: []uint64{0}, ColumnAttrs: true, ExcludeRowAttrs: true, ExcludeColumns: true}}
			}),
		}},
		"Import": {c23Data, "import", []c23Variant{
			c23V("ids", func(e *c23Env) []interface{} {
				return []interface{}{ctxOf(e), &ImportRequest{Index: "i", Field: "f", Shard: 0, RowIDs: []uint64{2}, ColumnIDs: []uint64{3}}}
			}),
			c23V("clear", func(e *c23Env) []interface{} {
				return []interface{}{ctxOf(e), &ImportRequest{Index: "i", Field: "f", Shard: 0, RowIDs: []uint64{1}, ColumnIDs: []uint64{1}}, OptImportOptionsClear(true)}
			}),
			c23V("keys", func(e *c23Env) []interface{} {
				return []interface{}{ctxOf(e), &ImportRequest{Index: "ik", Field: "fk", Shard: 0, RowKeys: []string{"rk"}, ColumnKeys: []string{"ck"}}}
			}),
			// every combination of the import options (an option must never open a side door past the gate)
			c23V("ids-ignoreKeyCheck", func(e *c23Env) []interface{} {
				return []interface{}{ctxOf(e), &ImportRequest{Index: "i", Field: "f", Shard: 0, RowIDs: []uint64{2}, ColumnIDs: []uint64{4}}, OptImportOptionsIgnoreKeyCheck(true)}
			}),
			c23V("clear-ignoreKeyCheck", func(e *c23Env) []interface{} {
				return []interface{}{ctxOf(e), &ImportRequest{Index: "i", Field: "f", Shard: 0, RowIDs: []uint64{1}, ColumnIDs: []uint64{2}}, OptImportOptionsClear(true), OptImportOptionsIgnoreKeyCheck(true)}
			}),
		}},
		"ImportValue": {c23Data, "import", []c23Variant{
			c23V("ids", func(e *c23Env) []interface{} {
				return []interface{}{ctxOf(e), &ImportValueRequest{Index: "i", Field: "v", Shard: 0, ColumnIDs: []uint64{3}, Values: []int64{5}}}
			}),
			c23V("clear", func(e *c23Env) []interface{} {
				return []interface{}{ctxOf(e), &ImportValueRequest{Index: "i", Field: "v", Shard: 0, ColumnIDs: []uint64{1}, Values: []int64{42}}, OptImportOptionsClear(true)}
			}),
			c23V("ignoreKeyCheck", func(e *c23Env) []interface{} {
				return []interface{}{ctxOf(e), &ImportValueRequest{Index: "i", Field: "v", Shard: 0, ColumnIDs: []uint64{4}, Values: []int64{6}}, OptImportOptionsIgnoreKeyCheck(true)}
			}),
			c23V("clear-ignoreKeyCheck", func(e *c23Env) []interface{} {
				return []interface{}{ctxOf(e), &ImportValueRequest{Index: "i", Field: "v", Shard: 0, ColumnIDs: []uint64{1}, Values: []int64{42}}, OptImportOptionsClear(true), OptImportOptionsIgnoreKeyCheck(true)}
			}),
		}},
		"ImportRoaring": {c23Data, "import", []c23Variant{
			c23V("set", func(e *c23Env) []interface{} {
				return []interface{}{ctxOf(e), "i", "f", uint64(0), false, &ImportRoaringRequest{Views: map[string][]byte{"": c23Roaring(5*ShardWidth + 6)}}}
			}),
			c23V("remote-clear", func(e *c23Env) []interface{} {
				return []interface{}{ctxOf(e), "i", "f", uint64(0), true, &ImportRoaringRequest{Clear: true, Views: map[string][]byte{"": c23Roaring(1*ShardWidth + 1)}}}
			}),
		}},
		"ExportCSV": {c23Data, "export", []c23Variant{
			c23V("shard0", func(e *c23Env) []interface{} {
				return []interface{}{ctxOf(e), "i", "f", uint64(0), io.Writer(&bytes.Buffer{})}
			}),
		}},
		"CreateIndex": {c23Data, "schema change", []c23Variant{
			c23V("new", func(e *c23Env) []interface{} { return []interface{}{ctxOf(e), "j", IndexOptions{}} }),
		}},
		"DeleteIndex": {c23Data, "schema change", []c23Variant{
			c23V("existing", func(e *c23Env) []interface{} { return []interface{}{ctxOf(e), "i"} }),
		}},
		"CreateField": {c23Data, "schema change", []c23Variant{
			c23V("new", func(e *c23Env) []interface{} { return []interface{}{ctxOf(e), "i", "g"} }),
			c23V("new-int", func(e *c23Env) []interface{} { return []interface{}{ctxOf(e), "i", "g", OptFieldTypeInt(0, 10)} }),
		}},
		"DeleteField": {c23Data, "schema change", []c23Variant{
			c23V("existing", func(e *c23Env) []interface{} { return []interface{}{ctxOf(e), "i", "f"} }),
		}},
		"DeleteView": {c23Data, "schema change", []c23Variant{
			c23V("standard", func(e *c23Env) []interface{} { return []interface{}{ctxOf(e), "i", "f", viewStandard} }),
		}},
		"DeleteAvailableShard": {c23Data, "schema change", []c23Variant{
			c23V("shard0", func(e *c23Env) []interface{} { return []interface{}{ctxOf(e), "i", "f", uint64(0)} }),
		}},
		"ApplySchema": {c23Data, "schema change", []c23Variant{
			c23V("local", func(e *c23Env) []interface{} {
				return []interface{}{ctxOf(e), &Schema{Indexes: []*IndexInfo{{Name: "z", Fields: []*FieldInfo{{Name: "zf", Options: FieldOptions{Type: FieldTypeSet, CacheType: DefaultCacheType, CacheSize: DefaultCacheSize}}}}}}, true}
			}),
			c23V("forwarding", func(e *c23Env) []interface{} {
				return []interface{}{ctxOf(e), &Schema{Indexes: []*IndexInfo{{Name: "z"}}}, false}
			}),
		}},
		"FragmentBlocks": {c23Data, "anti-entropy", []c23Variant{
			c23V("shard0", func(e *c23Env) []interface{} { return []interface{}{ctxOf(e), "i", "f", viewStandard, uint64(0)} }),
		}},
		"FragmentBlockData": {c23Data, "anti-entropy", []c23Variant{
			c23V("block0", func(e *c23Env) []interface{} {
				return []interface{}{ctxOf(e), body(e, &BlockDataRequest{Index: "i", Field: "f", View: viewStandard, Shard: 0, Block: 0})}
			}),
		}},
		"IndexAttrDiff": {c23Data, "anti-entropy", []c23Variant{
			c23V("empty", func(e *c23Env) []interface{} { return []interface{}{ctxOf(e), "i", []AttrBlock(nil)} }),
		}},
		"FieldAttrDiff": {c23Data, "anti-entropy", []c23Variant{
			c23V("empty", func(e *c23Env) []interface{} { return []interface{}{ctxOf(e), "i", "f", []AttrBlock(nil)} }),
		}},

		"Index": {c23Gated, "schema lookup", []c23Variant{
			c23V("existing", func(e *c23Env) []interface{} { return []interface{}{ctxOf(e), "i"} }),
		}},
		"Field": {c23Gated, "schema lookup", []c23Variant{
			c23V("existing", func(e *c23Env) []interface{} { return []interface{}{ctxOf(e), "i", "f"} }),
		}},
		"Views": {c23Gated, "schema lookup", []c23Variant{
			c23V("existing", func(e *c23Env) []interface{} { return []interface{}{ctxOf(e), "i", "f"} }),
		}},
		"ShardNodes": {c23Gated, "placement lookup", []c23Variant{
			c23V("shard0", func(e *c23Env) []interface{} { return []interface{}{ctxOf(e), "i", uint64(0)} }),
		}},
		"RecalculateCaches": {c23Gated, "cache maintenance", []c23Variant{
			c23V("all", func(e *c23Env) []interface{} { return []interface{}{ctxOf(e)} }),
		}},
		"RemoveNode": {c23Gated, "resize trigger", []c23Variant{
			c23V("unknown-node", func(e *c23Env) []interface{} { return []interface{}{"no-such-node"} }),
		}},

		"ClusterMessage": {c23Served, "cluster message", []c23Variant{
			c23V("recalculate-caches", func(e *c23Env) []interface{} {
				b, _ := e.ser.Marshal(&RecalculateCaches{})
				return []interface{}{ctxOf(e), io.Reader(bytes.NewReader(append([]byte{getMessageType(&RecalculateCaches{})}, b...)))}
			}),
		}},
		"SetCoordinator": {c23Served, "coordinator change", []c23Variant{
			c23V("self", func(e *c23Env) []interface{} { return []interface{}{ctxOf(e), e.srv.nodeID} }),
		}},
		"FragmentData": {c23Served, "shard data transfer", []c23Variant{
			c23V("shard0", func(e *c23Env) []interface{} { return []interface{}{ctxOf(e), "i", "f", viewStandard, uint64(0)} }),
		}},
		"ResizeAbort": {c23Served, "resize abort", []c23Variant{
			c23V("no-job", func(e *c23Env) []interface{} { return nil }),
		}},

		"State":                  {c23Info, "status", []c23Variant{c23V("", func(e *c23Env) []interface{} { return nil })}},
		"Version":                {c23Info, "status", []c23Variant{c23V("", func(e *c23Env) []interface{} { return nil })}},
		"Info":                   {c23Info, "status", []c23Variant{c23V("", func(e *c23Env) []interface{} { return nil })}},
		"Node":                   {c23Info, "status", []c23Variant{c23V("", func(e *c23Env) []interface{} { return nil })}},
		"LongQueryTime":          {c23Info, "status", []c23Variant{c23V("", func(e *c23Env) []interface{} { return nil })}},
		"Hosts":                  {c23Info, "status", []c23Variant{c23V("", func(e *c23Env) []interface{} { return []interface{}{ctxOf(e)} })}},
		"Schema":                 {c23Info, "status", []c23Variant{c23V("", func(e *c23Env) []interface{} { return []interface{}{ctxOf(e)} })}},
		"MaxShards":              {c23Info, "status", []c23Variant{c23V("", func(e *c23Env) []interface{} { return []interface{}{ctxOf(e)} })}},
		"AvailableShardsByIndex": {c23Info, "status", []c23Variant{c23V("", func(e *c23Env) []interface{} { return []interface{}{ctxOf(e)} })}},
		"StatsWithTags":          {c23Info, "status", []c23Variant{c23V("", func(e *c23Env) []interface{} { return []interface{}{[]string{"t"}} })}},

		// Ungated in the source. GetTranslateData only streams the existing translate log (replicas
		// need it to catch up; it cannot change anything), so it is judged like an informational
		// entry: allowed provided the holder is byte-identical afterwards.
		"GetTranslateData": {c23ReplLog, "translate log replication (read-only)", []c23Variant{
			c23V("from0", func(e *c23Env) []interface{} { return []interface{}{ctxOf(e), int64(0)} }),
		}},
		// TranslateKeys CREATES keys (it is the key-translation step of the import path used by
		// clients before a roaring import) and has no state gate. Judged against the statement as a
		// write on the import path: in STARTING/RESIZING it must not touch data.
		"TranslateKeys": {c23Write, "import (key creation)", []c23Variant{
			c23V("new-column-key", func(e *c23Env) []interface{} {
				return []interface{}{body(e, &TranslateKeysRequest{Index: "ik", Keys: []string{"brand-new-col"}})}
			}),
			c23V("new-row-key", func(e *c23Env) []interface{} {
				return []interface{}{body(e, &TranslateKeysRequest{Index: "ik", Field: "fk", Keys: []string{"brand-new-row"}})}
			}),
			c23V("existing-key", func(e *c23Env) []interface{} {
				return []interface{}{body(e, &TranslateKeysRequest{Index: "ik", Keys: []string{"c1"}})}
			}),
		}},

		"Close": {c23Skip, "lifecycle (not a request)", nil},
	}
}

// ---------------------------------------------------------------------------------------------

func c23NewEnv() (*c23Env, error) {
	dir := vx.Scratch()
	ser := c23Serializer{}
	srv, err := NewServer(
		OptServerDataDir(dir),
		OptServerNodeID("node0"),
		OptServerIsCoordinator(true),
		OptServerSerializer(ser),
		OptServerTranslateFileMapSize(1<<20),
	)
	if err != nil {
		return nil, err
	}
	if err := srv.holder.translateFile.Open(); err != nil {
		return nil, err
	}
	if err := srv.holder.Open(); err != nil {
		return nil, err
	}
	api, err := NewAPI(OptAPIServer(srv))
	if err != nil {
		return nil, err
	}
	e := &c23Env{srv: srv, api: api, dir: dir, ctx: context.Background(), ser: ser}
	// prepared data (written below the API so that it does not depend on the gate)
	idx, err := srv.holder.CreateIndex("i", IndexOptions{TrackExistence: true})
	if err != nil {
		return nil, err
	}
	f, err := idx.CreateField("f", OptFieldTypeSet(DefaultCacheType, DefaultCacheSize))
	if err != nil {
		return nil, err
	}
	for _, rc := range [][2]uint64{{1, 1}, {1, 2}, {2, 1}} {
		if _, err := f.SetBit(rc[0], rc[1], nil); err != nil {
			return nil, err
		}
	}
	v, err := idx.CreateField("v", OptFieldTypeInt(-100, 100))
	if err != nil {
		return nil, err
	}
	if _, err := v.SetValue(1, 42); err != nil {
		return nil, err
	}
	ik, err := srv.holder.CreateIndex("ik", IndexOptions{Keys: true, TrackExistence: true})
	if err != nil {
		return nil, err
	}
	if _, err := ik.CreateField("fk", OptFieldTypeSet(DefaultCacheType, DefaultCacheSize), OptFieldKeys()); err != nil {
		return nil, err
	}
	if _, err := srv.holder.translateFile.TranslateColumnsToUint64("ik", []string{"c1"}); err != nil {
		return nil, err
	}
	return e, nil
}

func (e *c23Env) close() {
	vx.Guard(func() { e.api.Close() })
	vx.Guard(func() { e.srv.holder.Close() })
	os.RemoveAll(e.dir)
}

func (e *c23Env) setState(cfg string) {
	c := e.srv.cluster
	direct := func(s string) {
		c.mu.Lock()
		c.state = s
		c.mu.Unlock()
	}
	switch cfg {
	case "STARTING(as constructed)":
	case "STARTING":
		direct(ClusterStateNormal)
		direct(ClusterStateStarting)
	case "NORMAL":
		direct(ClusterStateNormal)
	case "DEGRADED":
		direct(ClusterStateDegraded)
	case "RESIZING":
		direct(ClusterStateResizing)
	case "RESIZING(via SetState)":
		direct(ClusterStateNormal)
		c.SetState(ClusterStateResizing)
	}
}

// diskDigest: every file and directory below the holder path with its bytes.
func (e *c23Env) diskDigest() string {
	var lines []string
	filepath.Walk(e.dir, func(p string, info os.FileInfo, err error) error {
		if err != nil {
			lines = append(lines, "ERR "+p+" "+err.Error())
			return nil
		}
		rel, _ := filepath.Rel(e.dir, p)
		if info.IsDir() {
			lines = append(lines, "D "+rel)
			return nil
		}
		b, rerr := ioutil.ReadFile(p)
		if rerr != nil {
			lines = append(lines, "ERR "+rel+" "+rerr.Error())
			return nil
		}
		h := sha1.Sum(b)
		lines = append(lines, fmt.Sprintf("F %s %d %s", rel, len(b), hex.EncodeToString(h[:8])))
		return nil
	})
	sort.Strings(lines)
	return strings.Join(lines, "\n")
}

// memDigest: in-memory schema, available shards and the contents of the prepared fields.
func (e *c23Env) memDigest() string {
	var sb strings.Builder
	b, _ := json.Marshal(e.srv.holder.Schema())
	sb.Write(b)
	for _, idx := range e.srv.holder.Indexes() {
		fields := idx.Fields()
		sort.Slice(fields, func(i, j int) bool { return fields[i].Name() < fields[j].Name() })
		for _, f := range fields {
			fmt.Fprintf(&sb, "|%s/%s shards=%v", idx.Name(), f.Name(), f.AvailableShards().Slice())
			if f.Type() == FieldTypeSet {
				for r := uint64(0); r < 12; r++ {
					row, err := f.Row(r)
					if err == nil && row != nil && len(row.Columns()) > 0 {
						fmt.Fprintf(&sb, " r%d=%v", r, row.Columns())
					}
				}
			}
		}
	}
	fmt.Fprintf(&sb, "|coord=%s nodes=%d", e.srv.cluster.Coordinator, len(e.srv.cluster.nodes))
	return sb.String()
}

func c23Diff(a, b string) string {
	la, lb := strings.Split(a, "\n"), strings.Split(b, "\n")
	ma := map[string]bool{}
	for _, l := range la {
		ma[l] = true
	}
	mb := map[string]bool{}
	for _, l := range lb {
		mb[l] = true
	}
	var d []string
	for _, l := range la {
		if !mb[l] {
			d = append(d, "-"+l)
		}
	}
	for _, l := range lb {
		if !ma[l] {
			d = append(d, "+"+l)
		}
	}
	if len(d) > 6 {
		d = append(d[:6], fmt.Sprintf("... %d more", len(d)-6))
	}
	return strings.Join(d, " ; ")
}

// invoke calls the method by reflection; returns (refused, errText).
func (e *c23Env) invoke(name string, args []interface{}) (refused bool, errText string) {
	m := reflect.ValueOf(e.api).MethodByName(name)
	in := make([]reflect.Value, len(args))
	for i, a := range args {
		in[i] = reflect.ValueOf(a)
	}
	out := m.Call(in)
	var err error
	for _, o := range out {
		if o.Type().Implements(reflect.TypeOf((*error)(nil)).Elem()) && !o.IsNil() {
			err = o.Interface().(error)
		}
		if name == "GetTranslateData" && o.Kind() == reflect.Interface && !o.IsNil() {
			if rc, ok := o.Interface().(io.Closer); ok {
				vx.Guard(func() { rc.Close() })
			}
		}
	}
	if err == nil {
		return false, "ok"
	}
	_, refused = errors.Cause(err).(apiMethodNotAllowedError)
	return refused, err.Error()
}

func c23ErrClass(s string) string {
	if s == "ok" {
		return "ok"
	}
	if strings.Contains(s, "not allowed in state") {
		return "refused"
	}
	if i := strings.Index(s, ":"); i > 0 && i < 40 {
		return "err:" + s[:i]
	}
	if len(s) > 40 {
		s = s[:40]
	}
	return "err:" + s
}

func TestVerif_C23(t *testing.T) {
	c := vx.NewCheck("C23", "exploration",
		"every exported method of *API found by reflection (unknown to the classification table => violation) x 6 cluster-state configurations x "+
			"argument variants, invoked on a fresh real single-node server with prepared data: data classes are refused with the method-not-allowed "+
			"error and leave holder directory bytes + in-memory digest unchanged in STARTING/RESIZING and are admitted in NORMAL/DEGRADED; all other "+
			"gated entries are refused in RESIZING; served classes are admitted in RESIZING; informational entries never change the holder")
	table := c23Table()

	// ---- reflection: the exported method set of *API
	at := reflect.TypeOf(&API{})
	var names []string
	for i := 0; i < at.NumMethod(); i++ {
		names = append(names, at.Method(i).Name)
	}
	sort.Strings(names)
	c.Bound("api_methods_found", len(names))
	for _, n := range names {
		if _, ok := table[n]; !ok {
			c.Violate("unclassified-method name="+n, "exported method (*API)."+n+" is not in the C23 classification table",
				"unknown entry point", "every exported API entry point is classified (data / gated / served / info) and checked against the state gate")
		}
	}
	var stale []string
	for n := range table {
		if _, ok := at.MethodByName(n); !ok {
			stale = append(stale, n)
		}
	}
	sort.Strings(stale)
	if len(stale) > 0 {
		c.Extra("table_entries_without_method", stale)
	}

	states := []string{"STARTING(as constructed)", "STARTING", "NORMAL", "DEGRADED", "RESIZING", "RESIZING(via SetState)"}
	c.Bound("state_configurations", states)
	type job struct {
		method, state string
		v             c23Variant
		m             c23Method
	}
	var jobs []job
	classCount := map[string]int{}
	for _, n := range names {
		m, ok := table[n]
		if !ok || m.class == c23Skip {
			continue
		}
		classCount[m.class]++
		for _, v := range m.variants {
			for _, s := range states {
				jobs = append(jobs, job{n, s, v, m})
			}
		}
	}
	c.Extra("methods_per_class", classCount)
	c.Bound("cases", len(jobs))
	writesSeen := map[string]bool{}
	panicsAfterAdmission := map[string]bool{}
	type res struct {
		refused            bool
		errText            string
		diskDiff, memDiff  string
		harnessErr, panicS string
	}
	results := make([]res, len(jobs))
	vx.ParallelFor(len(jobs), func(i int) {
		j := jobs[i]
		var r res
		e, err := c23NewEnv()
		if err != nil {
			r.harnessErr = err.Error()
			results[i] = r
			return
		}
		defer e.close()
		ctx, cancel := context.WithCancel(context.Background())
		e.ctx = ctx
		defer cancel()
		e.setState(j.state)
		args := j.v.args(e)
		d0, m0 := e.diskDigest(), e.memDigest()
		r.panicS = vx.Guard(func() { r.refused, r.errText = e.invoke(j.method, args) })
		// let an admitted asynchronous import finish before the state is read again
		d1, m1 := e.diskDigest(), e.memDigest()
		r.diskDiff, r.memDiff = c23Diff(d0, d1), c23Diff(m0, m1)
		results[i] = r
	})
	for i, j := range jobs {
		r := results[i]
		c.AddEval(1)
		cs := fmt.Sprintf("state=%s method=%s variant=%s class=%s(%s)", j.state, j.method, j.v.name, j.m.class, j.m.what)
		c.Distinct(j.state + "/" + j.method + "/" + j.v.name)
		if r.harnessErr != "" {
			c.Violate("harness-setup", cs, r.harnessErr, "environment built")
			continue
		}
		st := strings.SplitN(j.state, "(", 2)[0]
		notServing := st == "STARTING" || st == "RESIZING"
		if r.panicS != "" {
			if notServing || j.m.class != c23Data {
				c.Violate(fmt.Sprintf("panic method=%s state=%s", j.method, st), cs, r.panicS, "no panic (refusal or service)")
				continue
			}
			// A panic of a data-class entry while the cluster is serving happened behind the gate:
			// the request was admitted, which is all the statement claims. It is listed in the
			// evidence (and belongs to the crash/encoding properties), not reported here.
			panicsAfterAdmission[j.method+"/"+j.v.name+": "+r.panicS] = true
			c.Outcome(fmt.Sprintf("%s/%s/panic-after-admission", j.m.class, st))
			continue
		}
		changed := r.diskDiff != "" || r.memDiff != ""
		c.Outcome(fmt.Sprintf("%s/%s/%s/changed=%v", j.m.class, st, c23ErrClass(r.errText), changed))
		if changed && !notServing {
			writesSeen[j.method+"/"+j.v.name] = true
		}
		chg := strings.TrimSpace("disk: " + r.diskDiff + " mem: " + r.memDiff)
		switch j.m.class {
		case c23Data:
			if notServing {
				if !r.refused {
					c.Violate(fmt.Sprintf("not-refused method=%s state=%s", j.method, st), cs, "result: "+r.errText, "method-not-allowed error")
				} else if changed {
					c.Violate(fmt.Sprintf("refused-but-touched-data method=%s state=%s", j.method, st), cs, chg, "holder unchanged")
				}
			} else if r.refused {
				c.Violate(fmt.Sprintf("refused-while-serving method=%s state=%s", j.method, st), cs, r.errText, "admitted")
			}
		case c23Gated:
			if st == "RESIZING" && !r.refused {
				c.Violate(fmt.Sprintf("served-during-resize method=%s", j.method), cs, "result: "+r.errText, "method-not-allowed error (only cluster message, set-coordinator, fragment data, resize abort are served)")
			}
			if r.refused && changed {
				c.Violate(fmt.Sprintf("refused-but-touched-data method=%s state=%s", j.method, st), cs, chg, "holder unchanged")
			}
		case c23Served:
			if st == "RESIZING" && r.refused {
				c.Violate(fmt.Sprintf("refused-during-resize method=%s", j.method), cs, r.errText, "served during RESIZING")
			}
			if r.refused && changed {
				c.Violate(fmt.Sprintf("refused-but-touched-data method=%s state=%s", j.method, st), cs, chg, "holder unchanged")
			}
		case c23Info, c23ReplLog:
			if changed {
				c.Violate(fmt.Sprintf("informational-entry-changed-holder method=%s", j.method), cs, chg, "holder unchanged")
			}
		case c23Write:
			if notServing && !r.refused && changed {
				c.Violate(fmt.Sprintf("ungated-write method=%s", j.method), cs, "result: "+r.errText+" ; "+chg, "refused before touching data while the cluster is "+st)
			}
		}
		if i%37 == 0 {
			c.Sample(cs + " => " + c23ErrClass(r.errText) + fmt.Sprintf(" changed=%v", changed))
		}
	}
	var ws []string
	for k := range writesSeen {
		ws = append(ws, k)
	}
	sort.Strings(ws)
	c.Extra("calls_that_changed_the_holder_when_serving", ws)
	var pa []string
	for k := range panicsAfterAdmission {
		pa = append(pa, k)
	}
	sort.Strings(pa)
	c.Extra("panics_behind_the_gate_while_serving_not_a_C23_verdict", pa)
	for _, p := range pa {
		fmt.Println("INFO C23 admitted call panicked behind the gate (not a C23 verdict): " + p)
	}
	c.AddValidated(c.Evaluations)
	c.Assume("single-node in-process server (NewServer + holder + API, no listener, no monitors); cluster state set on cluster.state / cluster.SetState")
	c.Assume("status-reporting entries (State, Version, Info, Hosts, Node, Schema, MaxShards, AvailableShardsByIndex, LongQueryTime, StatsWithTags) and the read-only translate-log stream are ungated by design; they are required to leave the holder unchanged")
	c.Assume("for gated entries outside the statement's five data classes (Index, Field, Views, ShardNodes, RecalculateCaches, RemoveNode) only the RESIZING clause is asserted")
	if c.Finish() != 0 {
		t.Fail()
	}
}
