package pilosa

// C09 — A crash at any point loses no acknowledged write and never blocks restart (engine E3).
//
// For every history of write operations (alphabet below, all sequences up to the tier's depth):
//  1. RECORD: a child process (this test binary, TestVerif_C09Record) runs the history against a
//     real Holder + TranslateFile in a scratch directory under `strace -f -y -xx`, writing BEGIN/ACK
//     markers to a marker file between operations. The strace log is the totally ordered list of
//     file-system syscalls of the real write path.
//  2. RECONSTRUCT: an interpreter of those syscalls (openat/creat, write, pwrite64, ftruncate,
//     rename*, unlink*, mkdir*, rmdir) materialises the directory after EVERY prefix of the log
//     (process-kill model: completed syscalls persist). Unmodelled mutating syscalls are a harness
//     error. Validation: the full log must reproduce the real final directory byte for byte.
//  3. RECOVER: every prefix state is opened with the real start-up code (TranslateFile.Open +
//     Holder.Open) and judged: start succeeds; every acknowledged write is present; of the write in
//     flight each fragment holds none or all of its changes (integer columns: old or new value);
//     the key store maps every acknowledged key to its id and is injective; the store accepts a
//     further write and reopens.

import (
	"bufio"
	"bytes"
	"context"
	"encoding/json"
	"fmt"
	"io/ioutil"
	"os"
	"os/exec"
	"path/filepath"
	"regexp"
	"sort"
	"strconv"
	"strings"
	"testing"
	"time"

	"github.com/pilosa/pilosa/internal/vx"
)

type c09Op struct {
	Name string  `json:"op"`
	A    []int64 `json:"a,omitempty"`
}

func (o c09Op) String() string { return fmt.Sprintf("%s%v", o.Name, o.A) }

var c09BigKey = strings.Repeat("k", 5000)

// batch 0 repeats a NEW key after a newer one: the log entry carries ids 1,2,1 (the replay must take the
// highest id of an entry, not the last, to continue the sequence)
var c09KeyBatches = [][]string{{"a", "b", "a"}, {"b", c09BigKey}, {"é"}}

// c09BigImport: 1300 columns x (bit depth 7 + 1) > the fragment's MaxOpN of 10000 (value 100 forces
// bit depth 7; below the threshold the import would log one op per bit instead). Columns 3 and 4 get
// values different from every other op's, the rest is filler with a few observed columns.
func c09BigImport() ([]uint64, []int64) {
	cols := []uint64{3, 4}
	vals := []int64{1, -3}
	for i := uint64(0); i < 1298; i++ {
		cols = append(cols, 1000+i)
		vals = append(vals, int64(i%7)-3)
	}
	vals[3] = 100
	return cols, vals
}

// columns of the int field that recovery reads back
var c09ValueCols = []uint64{3, 4, 1000, 1001, 2297}

func c09Alphabet(thorough bool) []c09Op {
	sw := int64(ShardWidth)
	a := []c09Op{
		{"setS", []int64{1, 3}},
		{"setS", []int64{1, sw + 3}},
		{"clearS", []int64{1, 3}},
		{"roaringS", nil},
		{"bulkS", nil},
		// 100 changed bits in ONE fragment: a single batch op record of 13+800 bytes (must reach the
		// file in one write: a kill inside it would leave a truncated record that blocks the restart)
		{"bulkS100", nil},
		{"setV", []int64{3, 5}},
		{"setV", []int64{3, -6}},
		{"importV", nil},
		{"setM", []int64{1, 3}},
		{"setM", []int64{2, 3}},
		{"storeS", nil},
		{"clearRowS", []int64{1}},
		{"runQueued", nil},
		{"snapshotS", nil},
		{"keys", []int64{0}},
		{"keys", []int64{1}},
		// a value import large enough for the fragment's BULK path (count*(bitDepth+1)+opN >= MaxOpN:
		// the op log is detached, the values are applied in memory and persisted by a snapshot)
		{"importVBig", nil},
	}
	if thorough {
		a = append(a, c09Op{"keys", []int64{2}}, c09Op{"rowKeys", nil}, c09Op{"setV", []int64{4, 100}})
	}
	return a
}

// ---------------------------------------------------------------------------------------------
// the store under test

type c09Store struct {
	h     *Holder
	queue chan *fragment
}

func c09OpenStore(dir string, ownQueue bool) (*c09Store, error) {
	h := NewHolder()
	h.Path = dir
	h.translateFile = NewTranslateFile()
	h.translateFile.Path = filepath.Join(dir, ".keys")
	if err := h.translateFile.Open(); err != nil {
		return nil, fmt.Errorf("translate open: %v", err)
	}
	if err := h.Open(); err != nil {
		return nil, fmt.Errorf("holder open: %v", err)
	}
	st := &c09Store{h: h}
	if ownQueue {
		// background snapshots become explicit steps of the history (op runQueued)
		st.queue = make(chan *fragment, 100)
		h.snapshotQueue = st.queue
	}
	return st, nil
}

func (st *c09Store) field(name string) (*Field, error) {
	idx, err := st.h.CreateIndexIfNotExists("i", IndexOptions{})
	if err != nil {
		return nil, err
	}
	if f := idx.Field(name); f != nil {
		return f, nil
	}
	switch name {
	case "s":
		return idx.CreateField("s", OptFieldTypeSet(CacheTypeRanked, 100))
	case "m":
		return idx.CreateField("m", OptFieldTypeMutex(CacheTypeRanked, 100))
	case "v":
		return idx.CreateField("v", OptFieldTypeInt(-100, 100))
	}
	return nil, fmt.Errorf("unknown field %s", name)
}

func (st *c09Store) runQueued() error {
	if st.queue == nil {
		return nil
	}
	for {
		select {
		case g := <-st.queue:
			if err := g.protectedSnapshot(true); err != nil {
				return err
			}
			g.snapshotCond.Broadcast()
		default:
			return nil
		}
	}
}

func c09RoaringBits() []vxBit { return []vxBit{{1, 3}, {2, 70000}} }

func (st *c09Store) apply(op c09Op) error {
	sw := uint64(ShardWidth)
	switch op.Name {
	case "setS":
		f, err := st.field("s")
		if err != nil {
			return err
		}
		_, err = f.SetBit(uint64(op.A[0]), uint64(op.A[1]), nil)
		return err
	case "clearS":
		f, err := st.field("s")
		if err != nil {
			return err
		}
		_, err = f.ClearBit(uint64(op.A[0]), uint64(op.A[1]))
		return err
	case "roaringS":
		f, err := st.field("s")
		if err != nil {
			return err
		}
		return f.importRoaring(context.Background(), vxPilosaRoaring(c09RoaringBits()), 0, viewStandard, false)
	case "bulkS":
		f, err := st.field("s")
		if err != nil {
			return err
		}
		return f.Import([]uint64{1, 2}, []uint64{4, sw + 4}, nil)
	case "bulkS100":
		f, err := st.field("s")
		if err != nil {
			return err
		}
		rows, cols := make([]uint64, 100), make([]uint64, 100)
		for i := range rows {
			rows[i], cols[i] = 3, uint64(100+i)
		}
		return f.Import(rows, cols, nil)
	case "setV":
		f, err := st.field("v")
		if err != nil {
			return err
		}
		_, err = f.SetValue(uint64(op.A[0]), op.A[1])
		return err
	case "importV":
		f, err := st.field("v")
		if err != nil {
			return err
		}
		return f.importValue([]uint64{3, 4}, []int64{7, -2}, &ImportOptions{})
	case "importVBig":
		f, err := st.field("v")
		if err != nil {
			return err
		}
		cols, vals := c09BigImport()
		if st.queue == nil {
			return f.importValue(cols, vals, &ImportOptions{})
		}
		// the bulk path WAITS for the background snapshot it enqueues; the harness owns the queue
		// (background snapshots are explicit steps elsewhere), so it plays the queue worker for as
		// long as this request is in flight — exactly what snapshotQueueWorker does
		done := make(chan error, 1)
		go func() { done <- f.importValue(cols, vals, &ImportOptions{}) }()
		for {
			select {
			case err := <-done:
				return err
			case g := <-st.queue:
				if err := g.protectedSnapshot(true); err != nil {
					return err
				}
				g.snapshotCond.Broadcast()
			}
		}
	case "setM":
		f, err := st.field("m")
		if err != nil {
			return err
		}
		_, err = f.SetBit(uint64(op.A[0]), uint64(op.A[1]), nil)
		return err
	case "storeS", "clearRowS", "snapshotS":
		f, err := st.field("s")
		if err != nil {
			return err
		}
		v, err := f.createViewIfNotExists(viewStandard)
		if err != nil {
			return err
		}
		frag, err := v.CreateFragmentIfNotExists(0)
		if err != nil {
			return err
		}
		switch op.Name {
		case "storeS":
			_, err = frag.setRow(NewRow(5, 70001), 2)
		case "clearRowS":
			_, err = frag.clearRow(uint64(op.A[0]))
		case "snapshotS":
			err = frag.Snapshot()
		}
		return err
	case "runQueued":
		return st.runQueued()
	case "keys":
		if _, err := st.field("s"); err != nil {
			return err
		}
		_, err := st.h.translateFile.TranslateColumnsToUint64("i", c09KeyBatches[op.A[0]])
		return err
	case "rowKeys":
		if _, err := st.field("s"); err != nil {
			return err
		}
		_, err := st.h.translateFile.TranslateRowsToUint64("i", "s", []string{"x", "y"})
		return err
	}
	return fmt.Errorf("unknown op %v", op)
}

// TestVerif_C09Record is the traced child: it runs one history and exits without a graceful close.
func TestVerif_C09Record(t *testing.T) {
	hs := os.Getenv("C09_HIST")
	if hs == "" {
		t.Skip("recorder child only")
	}
	var hist []c09Op
	if err := json.Unmarshal([]byte(hs), &hist); err != nil {
		t.Fatal(err)
	}
	mark, err := os.OpenFile(os.Getenv("C09_MARK"), os.O_WRONLY|os.O_CREATE|os.O_APPEND, 0o644)
	if err != nil {
		t.Fatal(err)
	}
	say := func(s string) { mark.WriteString(s + "\n") }
	st, err := c09OpenStore(os.Getenv("C09_DIR"), true)
	if err != nil {
		say("ERROR open " + err.Error())
		os.Exit(3)
	}
	// schema creation is outside the crash window: C09 quantifies over histories of WRITES
	for _, fn := range []string{"s", "m", "v"} {
		if _, err := st.field(fn); err != nil {
			say("ERROR schema " + err.Error())
			os.Exit(3)
		}
	}
	say("START")
	for i, op := range hist {
		say(fmt.Sprintf("BEGIN %d", i))
		if err := st.apply(op); err != nil {
			say(fmt.Sprintf("ERROR %d %v", i, err))
			os.Exit(3)
		}
		say(fmt.Sprintf("ACK %d", i))
	}
	say("END")
	os.Exit(0)
}

// ---------------------------------------------------------------------------------------------
// strace log -> ordered file-system operations

type c09Sys struct {
	name string
	args string
	ret  string
}

var c09LineRe = regexp.MustCompile(`^(\d+)\s+(.*)$`)
var c09RetRe = regexp.MustCompile(`\)\s+= `)

func c09ParseStrace(path string) ([]c09Sys, error) {
	f, err := os.Open(path)
	if err != nil {
		return nil, err
	}
	defer f.Close()
	sc := bufio.NewScanner(f)
	sc.Buffer(make([]byte, 1<<20), 64<<20)
	unfinished := map[string]string{}
	var out []c09Sys
	for sc.Scan() {
		m := c09LineRe.FindStringSubmatch(sc.Text())
		if m == nil {
			continue
		}
		pid, rest := m[1], m[2]
		if strings.HasPrefix(rest, "+++") || strings.HasPrefix(rest, "---") {
			continue
		}
		if strings.HasSuffix(rest, "<unfinished ...>") {
			unfinished[pid] = strings.TrimSuffix(rest, "<unfinished ...>")
			continue
		}
		if strings.HasPrefix(rest, "<... ") {
			i := strings.Index(rest, "resumed>")
			if i < 0 {
				continue
			}
			rest = unfinished[pid] + rest[i+len("resumed>"):]
			delete(unfinished, pid)
		}
		op := strings.Index(rest, "(")
		// "...) = ret": resumed lines pad the gap between ')' and '=' with spaces
		locs := c09RetRe.FindAllStringIndex(rest, -1)
		if op < 0 || len(locs) == 0 {
			if op >= 0 && !strings.HasPrefix(rest, "exit") {
				return nil, fmt.Errorf("unparsable strace line: %s", vxShort(rest))
			}
			continue
		}
		eq := locs[len(locs)-1]
		out = append(out, c09Sys{name: rest[:op], args: rest[op+1 : eq[0]], ret: strings.TrimSpace(rest[eq[1]:])})
	}
	return out, sc.Err()
}

// c09SplitArgs splits a syscall argument list at top-level commas (quotes and <...> respected).
func c09SplitArgs(s string) []string {
	var out []string
	depth, inq := 0, false
	start := 0
	for i := 0; i < len(s); i++ {
		ch := s[i]
		switch {
		case inq:
			if ch == '\\' {
				i++
			} else if ch == '"' {
				inq = false
			}
		case ch == '"':
			inq = true
		case ch == '<' || ch == '{' || ch == '[':
			depth++
		case ch == '>' || ch == '}' || ch == ']':
			depth--
		case ch == ',' && depth == 0:
			out = append(out, strings.TrimSpace(s[start:i]))
			start = i + 1
		}
	}
	out = append(out, strings.TrimSpace(s[start:]))
	return out
}

func c09Unhex(q string) []byte {
	q = strings.TrimSuffix(q, "...")
	q = strings.Trim(q, `"`)
	var b []byte
	for i := 0; i+3 < len(q)+0 && i < len(q); {
		if q[i] == '\\' && i+3 < len(q)+1 && q[i+1] == 'x' {
			v, _ := strconv.ParseUint(q[i+2:i+4], 16, 8)
			b = append(b, byte(v))
			i += 4
		} else {
			b = append(b, q[i])
			i++
		}
	}
	return b
}

var c09FdRe = regexp.MustCompile(`^(\d+)<(.*)>$`)

// c09FS is the reconstructed directory tree.
type c09FS struct {
	files map[string][]byte
	dirs  map[string]bool
	fds   map[string]*c09Fd
}

type c09Fd struct {
	path   string
	append bool
	off    int64
}

func c09NewFS() *c09FS {
	return &c09FS{files: map[string][]byte{}, dirs: map[string]bool{}, fds: map[string]*c09Fd{}}
}

func c09WriteAt(b []byte, off int64, data []byte) []byte {
	if int64(len(b)) < off+int64(len(data)) {
		nb := make([]byte, off+int64(len(data)))
		copy(nb, b)
		b = nb
	}
	copy(b[off:], data)
	return b
}

// apply interprets one syscall; returns (mutatedTree, markerText, error for unmodelled mutation).
func (fs *c09FS) apply(s c09Sys, root, mark string) (bool, string, error) {
	if strings.HasPrefix(s.ret, "-1") || strings.HasPrefix(s.ret, "?") {
		return false, "", nil
	}
	under := func(p string) bool { return p == root || strings.HasPrefix(p, root+"/") }
	a := c09SplitArgs(s.args)
	switch s.name {
	case "openat", "open", "creat":
		var p, flags string
		switch s.name {
		case "openat":
			p, flags = string(c09Unhex(a[1])), a[2]
		case "open":
			p, flags = string(c09Unhex(a[0])), a[1]
		default:
			p, flags = string(c09Unhex(a[0])), "O_CREAT|O_WRONLY|O_TRUNC"
		}
		m := c09FdRe.FindStringSubmatch(s.ret)
		if m == nil {
			return false, "", nil
		}
		if !under(p) && p != mark {
			return false, "", nil
		}
		fs.fds[m[1]] = &c09Fd{path: p, append: strings.Contains(flags, "O_APPEND")}
		if p == mark {
			return false, "", nil
		}
		mut := false
		if _, ok := fs.files[p]; !ok && !fs.dirs[p] && strings.Contains(flags, "O_CREAT") {
			fs.files[p] = []byte{}
			mut = true
		}
		if strings.Contains(flags, "O_TRUNC") && len(fs.files[p]) > 0 {
			fs.files[p] = []byte{}
			mut = true
		}
		return mut, "", nil
	case "close":
		if m := c09FdRe.FindStringSubmatch(a[0]); m != nil {
			delete(fs.fds, m[1])
		}
		return false, "", nil
	case "write", "pwrite64":
		m := c09FdRe.FindStringSubmatch(a[0])
		if m == nil {
			return false, "", nil
		}
		fd := fs.fds[m[1]]
		p := m[2]
		if fd == nil {
			if under(p) {
				return false, "", fmt.Errorf("write to %s through an fd whose open was not seen", p)
			}
			return false, "", nil
		}
		n, _ := strconv.Atoi(strings.Fields(s.ret)[0])
		data := c09Unhex(a[1])
		if len(data) < n {
			return false, "", fmt.Errorf("strace truncated a %d-byte write to %s", n, fd.path)
		}
		data = data[:n]
		if fd.path == mark {
			return false, string(data), nil
		}
		off := fd.off
		if s.name == "pwrite64" {
			off, _ = strconv.ParseInt(a[3], 10, 64)
		} else if fd.append {
			off = int64(len(fs.files[fd.path]))
		}
		fs.files[fd.path] = c09WriteAt(fs.files[fd.path], off, data)
		if s.name == "write" {
			fd.off = off + int64(n)
		}
		return true, "", nil
	case "lseek":
		if m := c09FdRe.FindStringSubmatch(a[0]); m != nil {
			if fd := fs.fds[m[1]]; fd != nil {
				fd.off, _ = strconv.ParseInt(strings.Fields(s.ret)[0], 10, 64)
			}
		}
		return false, "", nil
	case "ftruncate":
		m := c09FdRe.FindStringSubmatch(a[0])
		if m == nil || !under(m[2]) {
			return false, "", nil
		}
		n, _ := strconv.ParseInt(a[1], 10, 64)
		b := fs.files[m[2]]
		if int64(len(b)) > n {
			b = b[:n]
		} else {
			b = c09WriteAt(b, n, nil)
		}
		fs.files[m[2]] = b
		return true, "", nil
	case "rename", "renameat", "renameat2":
		var from, to string
		if s.name == "rename" {
			from, to = string(c09Unhex(a[0])), string(c09Unhex(a[1]))
		} else {
			from, to = string(c09Unhex(a[1])), string(c09Unhex(a[3]))
		}
		if !under(from) && !under(to) {
			return false, "", nil
		}
		if fs.dirs[from] {
			return false, "", fmt.Errorf("directory rename %s not modelled", from)
		}
		fs.files[to] = fs.files[from]
		delete(fs.files, from)
		for _, fd := range fs.fds {
			if fd.path == from {
				fd.path = to
			}
		}
		return true, "", nil
	case "unlink", "unlinkat":
		p := string(c09Unhex(a[0]))
		if s.name == "unlinkat" {
			p = string(c09Unhex(a[1]))
		}
		if !under(p) {
			return false, "", nil
		}
		delete(fs.files, p)
		delete(fs.dirs, p)
		return true, "", nil
	case "mkdir", "mkdirat":
		p := string(c09Unhex(a[0]))
		if s.name == "mkdirat" {
			p = string(c09Unhex(a[1]))
		}
		if !under(p) {
			return false, "", nil
		}
		fs.dirs[p] = true
		return true, "", nil
	case "rmdir":
		p := string(c09Unhex(a[0]))
		if under(p) {
			delete(fs.dirs, p)
			return true, "", nil
		}
		return false, "", nil
	case "mmap":
		// a writable shared file mapping under the data dir would be an unmodelled write channel
		if len(a) >= 5 && strings.Contains(a[2], "PROT_WRITE") && strings.Contains(a[3], "MAP_SHARED") {
			if m := c09FdRe.FindStringSubmatch(a[4]); m != nil && under(m[2]) && !strings.HasSuffix(m[2], ".data") {
				return false, "", fmt.Errorf("writable shared mmap of %s not modelled", m[2])
			}
		}
		return false, "", nil
	case "fsync", "fdatasync":
		return false, "", nil
	case "writev", "fallocate", "truncate", "link", "linkat", "symlink", "symlinkat":
		if strings.Contains(s.args, root) {
			return false, "", fmt.Errorf("syscall %s on the data dir not modelled: %s", s.name, vxShort(s.args))
		}
	}
	return false, "", nil
}

func vxShort(s string) string {
	if len(s) > 200 {
		return s[:200] + "…"
	}
	return s
}

func (fs *c09FS) materialize(root, dst string) error {
	os.RemoveAll(dst)
	if err := os.MkdirAll(dst, 0o755); err != nil {
		return err
	}
	ds := make([]string, 0, len(fs.dirs))
	for d := range fs.dirs {
		ds = append(ds, d)
	}
	sort.Strings(ds)
	for _, d := range ds {
		if err := os.MkdirAll(filepath.Join(dst, strings.TrimPrefix(d, root)), 0o755); err != nil {
			return err
		}
	}
	for p, b := range fs.files {
		t := filepath.Join(dst, strings.TrimPrefix(p, root))
		os.MkdirAll(filepath.Dir(t), 0o755)
		if err := ioutil.WriteFile(t, b, 0o644); err != nil {
			return err
		}
	}
	return nil
}

// equalsDir: validation that the interpreter reproduces the real final tree.
func (fs *c09FS) equalsDir(root string) string {
	seen := map[string]bool{}
	var diff []string
	filepath.Walk(root, func(p string, info os.FileInfo, err error) error {
		if err != nil || info.IsDir() {
			return nil
		}
		seen[p] = true
		b, _ := ioutil.ReadFile(p)
		if mb, ok := fs.files[p]; !ok {
			diff = append(diff, "missing in model: "+p)
		} else if !bytes.Equal(b, mb) {
			diff = append(diff, fmt.Sprintf("content differs: %s (real %d bytes, model %d bytes)", p, len(b), len(mb)))
		}
		return nil
	})
	for p := range fs.files {
		if !seen[p] {
			diff = append(diff, "only in model: "+p)
		}
	}
	sort.Strings(diff)
	return strings.Join(diff, "; ")
}

// ---------------------------------------------------------------------------------------------
// reference model of the logical state

type c09Model struct {
	bits map[string]map[vxBit]bool // "field/view/shard" -> bits
	vals map[uint64]int64          // int field v: column -> value
	keys map[string]uint64         // "col:<key>" / "row:<key>" -> id
}

func c09NewModel() *c09Model {
	return &c09Model{bits: map[string]map[vxBit]bool{}, vals: map[uint64]int64{}, keys: map[string]uint64{}}
}

func (m *c09Model) clone() *c09Model {
	n := c09NewModel()
	for k, s := range m.bits {
		n.bits[k] = map[vxBit]bool{}
		for b := range s {
			n.bits[k][b] = true
		}
	}
	for k, v := range m.vals {
		n.vals[k] = v
	}
	for k, v := range m.keys {
		n.keys[k] = v
	}
	return n
}

func (m *c09Model) frag(field string, shard uint64) map[vxBit]bool {
	k := fmt.Sprintf("%s/%s/%d", field, viewStandard, shard)
	if m.bits[k] == nil {
		m.bits[k] = map[vxBit]bool{}
	}
	return m.bits[k]
}

func (m *c09Model) apply(op c09Op) {
	sw := uint64(ShardWidth)
	set := func(field string, r, c uint64) { m.frag(field, c/sw)[vxBit{r, c}] = true }
	switch op.Name {
	case "setS":
		set("s", uint64(op.A[0]), uint64(op.A[1]))
	case "clearS":
		delete(m.frag("s", uint64(op.A[1])/sw), vxBit{uint64(op.A[0]), uint64(op.A[1])})
	case "roaringS":
		for _, b := range c09RoaringBits() {
			set("s", b.row, b.col)
		}
	case "bulkS":
		set("s", 1, 4)
		set("s", 2, sw+4)
	case "bulkS100":
		for i := uint64(0); i < 100; i++ {
			set("s", 3, 100+i)
		}
	case "setV":
		m.vals[uint64(op.A[0])] = op.A[1]
	case "importV":
		m.vals[3], m.vals[4] = 7, -2
	case "importVBig":
		cols, vals := c09BigImport()
		for i, c := range cols {
			m.vals[c] = vals[i]
		}
	case "setM":
		f := m.frag("m", 0)
		for b := range f {
			if b.col == uint64(op.A[1]) {
				delete(f, b)
			}
		}
		f[vxBit{uint64(op.A[0]), uint64(op.A[1])}] = true
	case "storeS":
		f := m.frag("s", 0)
		for b := range f {
			if b.row == 2 {
				delete(f, b)
			}
		}
		f[vxBit{2, 5}] = true
		f[vxBit{2, 70001}] = true
	case "clearRowS":
		f := m.frag("s", 0)
		for b := range f {
			if b.row == uint64(op.A[0]) {
				delete(f, b)
			}
		}
	case "keys":
		for _, k := range c09KeyBatches[op.A[0]] {
			if _, ok := m.keys["col:"+k]; !ok {
				n := uint64(0)
				for kk := range m.keys {
					if strings.HasPrefix(kk, "col:") {
						n++
					}
				}
				m.keys["col:"+k] = n + 1
			}
		}
	case "rowKeys":
		for _, k := range []string{"x", "y"} {
			if _, ok := m.keys["row:"+k]; !ok {
				n := uint64(0)
				for kk := range m.keys {
					if strings.HasPrefix(kk, "row:") {
						n++
					}
				}
				m.keys["row:"+k] = n + 1
			}
		}
	}
}

// c09Judge opens a reconstructed prefix state with the real start-up code and compares it with the
// acknowledged model `acked` and, if an operation was in flight, with `after` (acked + that op).
// Returns (kind, detail) of the first discrepancy or ("","").
func c09Judge(dir string, acked, after *c09Model, inflight *c09Op, ackedOps []c09Op) (kind, detail string) {
	type res struct{ kind, detail string }
	done := make(chan res, 1)
	go func() {
		defer func() {
			if r := recover(); r != nil {
				done <- res{"restart-panics", fmt.Sprint(r)}
			}
		}()
		k, d := c09JudgeInner(dir, acked, after, inflight, ackedOps)
		done <- res{k, d}
	}()
	select {
	case r := <-done:
		return r.kind, r.detail
	case <-time.After(120 * time.Second):
		return "restart-hangs", "recovery did not finish within 120 s"
	}
}

func c09ReadBits(h *Holder) map[string]map[vxBit]bool {
	out := map[string]map[vxBit]bool{}
	idx := h.Index("i")
	if idx == nil {
		return out
	}
	for _, fn := range []string{"s", "m"} {
		f := idx.Field(fn)
		if f == nil {
			continue
		}
		for _, v := range f.views() {
			for _, fr := range v.allFragments() {
				k := fmt.Sprintf("%s/%s/%d", fn, v.name, fr.shard)
				out[k] = map[vxBit]bool{}
				fr.forEachBit(func(r, c uint64) error { out[k][vxBit{r, c}] = true; return nil })
			}
		}
	}
	return out
}

// c09Blame names the acknowledged operation that last made bit b of fragment k present
// (wantPresent) or absent; "" if none did.
func c09Blame(ops []c09Op, k string, b vxBit, wantPresent bool) string {
	m := c09NewModel()
	who := ""
	for _, op := range ops {
		before := m.bits[k][b]
		m.apply(op)
		if now := m.bits[k][b]; now != before && now == wantPresent {
			who = op.Name
		}
	}
	return who
}

func c09BlameVal(ops []c09Op, col uint64) string {
	m := c09NewModel()
	who := ""
	for _, op := range ops {
		bv, bok := m.vals[col]
		m.apply(op)
		if nv, nok := m.vals[col]; nv != bv || nok != bok {
			who = op.Name
		}
	}
	return who
}

func c09JudgeInner(dir string, acked, after *c09Model, inflight *c09Op, ackedOps []c09Op) (string, string) {
	st, err := c09OpenStore(dir, false)
	if err != nil {
		return "restart-fails", err.Error()
	}
	closed := false
	defer func() {
		if !closed {
			st.h.Close()
		}
	}()
	got := c09ReadBits(st.h)
	keys := map[string]bool{}
	for k := range acked.bits {
		keys[k] = true
	}
	for k := range got {
		keys[k] = true
	}
	if after != nil {
		for k := range after.bits {
			keys[k] = true
		}
	}
	var ks []string
	for k := range keys {
		ks = append(ks, k)
	}
	sort.Strings(ks)
	for _, k := range ks {
		g := vxModelBits(got[k])
		a := vxModelBits(acked.bits[k])
		if g == a {
			continue
		}
		if after != nil && g == vxModelBits(after.bits[k]) {
			continue
		}
		// Which bits are wrong, leaving aside those the write in flight may legitimately change?
		aft := acked.bits[k]
		if after != nil {
			aft = after.bits[k]
		}
		desc := fmt.Sprintf("fragment %s holds {%s}; acknowledged state {%s}", k, g, a)
		if after != nil {
			desc += fmt.Sprintf(", with the write in flight applied {%s}", vxModelBits(aft))
		}
		for b := range acked.bits[k] {
			if aft[b] && !got[k][b] { // acknowledged, untouched by the write in flight, gone
				return "acked-lost written-by=" + c09Blame(ackedOps, k, b, true), desc
			}
		}
		for b := range got[k] {
			if !acked.bits[k][b] && !aft[b] { // present although no acknowledged or in-flight write sets it
				if who := c09Blame(ackedOps, k, b, false); who != "" {
					return "acked-clear-lost cleared-by=" + who, desc
				}
				return "unwritten-data-appears", desc
			}
		}
		return "inflight-torn", desc
	}
	// integer values
	if idx := st.h.Index("i"); idx != nil {
		if f := idx.Field("v"); f != nil {
			for _, col := range c09ValueCols {
				v, ex, err := f.Value(col)
				if err != nil {
					return "restart-read-error", err.Error()
				}
				av, aok := acked.vals[col]
				if ex == aok && (!ex || v == av) {
					continue
				}
				if after != nil {
					nv, nok := after.vals[col]
					if ex == nok && (!ex || v == nv) {
						continue
					}
					if nok != aok || nv != av {
						return "inflight-torn-value", fmt.Sprintf("column %d reads (%d,%v); before the write in flight (%d,%v), after it (%d,%v): a value never written", col, v, ex, av, aok, nv, nok)
					}
				}
				return "acked-value-lost written-by=" + c09BlameVal(ackedOps, col), fmt.Sprintf("column %d reads (%d,%v), acknowledged (%d,%v)", col, v, ex, av, aok)
			}
		} else if len(acked.vals) > 0 {
			return "acked-lost", "int field v is gone"
		}
	} else if len(acked.bits) > 0 || len(acked.vals) > 0 {
		return "acked-lost", "index i is gone"
	}
	// key translation: every acknowledged key maps back from its id; present ids are injective
	final := acked
	if after != nil {
		final = after
	}
	seen := map[string]string{}
	for k, id := range final.keys {
		isAcked := acked.keys[k] == id && acked.keys[k] != 0
		var s string
		var err error
		if strings.HasPrefix(k, "col:") {
			s, err = st.h.translateFile.TranslateColumnToString("i", id)
		} else {
			s, err = st.h.translateFile.TranslateRowToString("i", "s", id)
		}
		if err != nil {
			return "restart-read-error", "translate: " + err.Error()
		}
		want := k[4:]
		if s == "" && !isAcked {
			continue // the batch in flight may be partially present
		}
		if s != want {
			return "key-mapping-lost", fmt.Sprintf("%s id %d translates back to %q (len %d), want key of len %d; acknowledged=%v", k[:4], id, vxShort(s), len(s), len(want), isAcked)
		}
		slot := fmt.Sprintf("%s%d", k[:4], id)
		if o, dup := seen[slot]; dup && o != k {
			return "key-ids-collide", slot
		}
		seen[slot] = k
	}
	// the store accepts a further write and reopens
	f, err := st.field("s")
	if err != nil {
		return "write-after-restart-fails", err.Error()
	}
	if _, err := f.SetBit(9, 9, nil); err != nil {
		return "write-after-restart-fails", err.Error()
	}
	ids, err := st.h.translateFile.TranslateColumnsToUint64("i", []string{"zz-after-restart"})
	if err != nil {
		return "write-after-restart-fails", "translate: " + err.Error()
	}
	// the new key must not be given an id that an ACKNOWLEDGED key holds (keys of the batch in flight
	// may legitimately be absent, and then their predicted ids are free)
	for k, id := range acked.keys {
		if strings.HasPrefix(k, "col:") && id == ids[0] {
			return "key-ids-collide", fmt.Sprintf("a key created after the restart got id %d, which was acknowledged for %s", id, vxShort(k))
		}
	}
	before := c09ReadBits(st.h)
	if err := st.h.Close(); err != nil {
		closed = true
		return "close-after-restart-fails", err.Error()
	}
	closed = true
	st2, err := c09OpenStore(dir, false)
	if err != nil {
		return "second-restart-fails", err.Error()
	}
	defer st2.h.Close()
	again := c09ReadBits(st2.h)
	for k := range before {
		if vxModelBits(before[k]) != vxModelBits(again[k]) {
			return "state-changes-over-clean-restart", fmt.Sprintf("fragment %s: {%s} -> {%s}", k, vxModelBits(before[k]), vxModelBits(again[k]))
		}
	}
	if s, _ := st2.h.translateFile.TranslateColumnToString("i", ids[0]); s != "zz-after-restart" {
		return "key-mapping-lost", "key written after restart is gone after a clean reopen"
	}
	return "", ""
}

// c09RunHistory records one history under strace and checks every prefix. Returns the number of
// crash points examined.
func c09RunHistory(c *vx.Check, hist []c09Op) {
	work := vx.Scratch()
	dir := filepath.Join(work, "data")
	mark := filepath.Join(work, "marks")
	slog := filepath.Join(work, "strace.log")
	hj, _ := json.Marshal(hist)
	hname := fmt.Sprint(hist)
	cmd := exec.Command("strace", "-f", "-y", "-xx", "-s", "2000000", "-o", slog,
		"-e", "trace=openat,open,creat,write,pwrite64,writev,lseek,ftruncate,truncate,rename,renameat,renameat2,unlink,unlinkat,mkdir,mkdirat,rmdir,fsync,fdatasync,close,mmap,fallocate,link,linkat,symlink,symlinkat",
		os.Args[0], "-test.run", "^TestVerif_C09Record$")
	cmd.Env = append(os.Environ(), "C09_HIST="+string(hj), "C09_DIR="+dir, "C09_MARK="+mark, "VERIF_CHILD=", "GOMAXPROCS=2")
	out, err := cmd.CombinedOutput()
	if err != nil {
		mk, _ := ioutil.ReadFile(mark)
		c.Violate("write-path-error "+hist[len(hist)-1].Name, hname, fmt.Sprintf("recorder failed: %v; markers: %s; output: %s", err, vxShort(string(mk)), vxShort(string(out))), "history runs")
		return
	}
	sys, err := c09ParseStrace(slog)
	if err != nil {
		fmt.Println("HARNESS-ERROR strace parse:", err)
		c.NotExhaustive("strace log unreadable for " + hname)
		return
	}
	// Pass 1: validate the interpreter on THIS log before any prefix state is believed: replaying
	// the full log must reproduce the real final directory byte for byte.
	{
		v := c09NewFS()
		for _, s := range sys {
			if _, _, err := v.apply(s, dir, mark); err != nil {
				fmt.Println("HARNESS-ERROR fs interpreter:", err)
				c.NotExhaustive("unmodelled syscall in " + hname + ": " + err.Error())
				return
			}
		}
		if d := v.equalsDir(dir); d != "" {
			fmt.Println("HARNESS-ERROR fs interpreter does not reproduce the real directory:", vxShort(d))
			c.NotExhaustive("reconstruction mismatch for " + hname + ": " + vxShort(d))
			return
		}
	}
	fs := c09NewFS()
	acked := c09NewModel()
	var after *c09Model
	var inflight *c09Op
	var ackedOps []c09Op
	started := false
	crashPoints := 0
	judge := func(at string) bool {
		crashPoints++
		c.AddEval(1)
		rec := filepath.Join(work, "rec")
		if err := fs.materialize(dir, rec); err != nil {
			fmt.Println("HARNESS-ERROR materialize:", err)
			return false
		}
		kind, detail := c09Judge(rec, acked, after, inflight, ackedOps)
		if kind != "" {
			// describe the reconstructed tree the real start-up code was given
			var ls []string
			for p, b := range fs.files {
				ls = append(ls, fmt.Sprintf("%s(%d)", strings.TrimPrefix(p, dir), len(b)))
			}
			sort.Strings(ls)
			detail += " | tree: " + strings.Join(ls, " ")
			if d := os.Getenv("C09_KEEP"); d != "" {
				b, _ := ioutil.ReadFile(slog)
				ioutil.WriteFile(filepath.Join(d, fmt.Sprintf("%s-%d.strace", kind, os.Getpid())), b, 0o644)
			}
		}
		os.RemoveAll(rec)
		infl := "none"
		if inflight != nil {
			infl = inflight.Name
		}
		c.Outcome(kind + "|" + infl)
		if kind != "" {
			key := fmt.Sprintf("%s inflight=%s", kind, infl)
			if strings.HasPrefix(kind, "acked-") {
				key = kind // the culprit is an acknowledged write (named in kind), not the one in flight
			}
			c.Violate(key, map[string]interface{}{"history": hname, "crash_after": at, "inflight": infl}, detail, "recovered state = acknowledged writes (+ none or all of the write in flight per fragment)")
			// a listed known finding must not hide the later crash points of this history
			return c.IsKnown(key)
		}
		return true
	}
	ok := true
	for i, s := range sys {
		mut, marker, err := fs.apply(s, dir, mark)
		if err != nil {
			fmt.Println("HARNESS-ERROR fs interpreter:", err)
			c.NotExhaustive("unmodelled syscall in " + hname + ": " + err.Error())
			return
		}
		if marker != "" {
			if os.Getenv("C09_DEBUG") != "" {
				fmt.Printf("DEBUG marker at #%d: %q\n", i, marker)
			}
			for _, line := range strings.Split(strings.TrimSpace(marker), "\n") {
				f := strings.Fields(line)
				switch f[0] {
				case "START":
					started = true
				case "BEGIN":
					n, _ := strconv.Atoi(f[1])
					op := hist[n]
					inflight = &op
					after = acked.clone()
					after.apply(op)
				case "ACK":
					ackedOps = append(ackedOps, *inflight)
					name := inflight.Name
					acked, after, inflight = after, nil, nil
					// a kill right after the acknowledgement: the directory is what the syscalls so far
					// made it, the acknowledged set has just grown (catches a write that was acknowledged
					// without reaching the file system at all)
					if started && ok {
						if !judge(fmt.Sprintf("acknowledgement of op %d (%s), syscall #%d", len(ackedOps)-1, name, i)) {
							ok = false
						}
					}
				}
			}
			continue
		}
		if mut && started && ok {
			if !judge(fmt.Sprintf("syscall #%d %s(%s)", i, s.name, vxShort(s.args))) {
				ok = false // keep interpreting for the final validation, stop judging this history
			}
		}
	}
	if d := fs.equalsDir(dir); d != "" {
		fmt.Println("HARNESS-ERROR fs interpreter does not reproduce the real directory:", vxShort(d))
		c.NotExhaustive("reconstruction mismatch for " + hname + ": " + vxShort(d))
		return
	}
	c.AddValidated(1)
	c.AddStates(int64(crashPoints))
	c.Distinct(hname)
	if crashPoints > 0 {
		c.Sample(map[string]interface{}{"history": hname, "crash_points": crashPoints, "syscalls": len(sys)})
	}
	os.RemoveAll(work)
}

func c09Kinds(h []c09Op) string {
	set := map[string]bool{}
	for _, o := range h {
		set[o.Name] = true
	}
	var ks []string
	for k := range set {
		ks = append(ks, k)
	}
	sort.Strings(ks)
	return strings.Join(ks, "+")
}

func TestVerif_C09(t *testing.T) {
	c := vx.NewCheck("C09", "fault_enumeration",
		"every history over the write alphabet up to the tier's depth is run once on the real write path under strace; EVERY prefix of its file-system syscall log that changes the data directory is reconstructed, restarted with the real start-up code and compared with the model of acknowledged writes; evaluations = crash points examined; distinct = histories whose full log was validated against the real directory")
	alpha := c09Alphabet(c.Thorough())
	depth := c.Pick(2, 2)
	var hists [][]c09Op
	for _, a := range alpha {
		hists = append(hists, []c09Op{a})
	}
	if depth >= 2 {
		for _, a := range alpha {
			for _, b := range alpha {
				hists = append(hists, []c09Op{a, b})
			}
		}
	}
	// depth-3 histories that need a populated row first: write; row clear / row store; any later op
	for _, mid := range []c09Op{alpha[11], alpha[10], alpha[2]} {
		for _, last := range []c09Op{alpha[1], alpha[5], alpha[12], alpha[13], alpha[14]} {
			hists = append(hists, []c09Op{alpha[0], mid, last})
		}
	}
	// depth-3/4 histories around the bulk value import: repeated (nothing changes the second time),
	// then further acknowledged writes to the same fragment
	big := alpha[16]
	for _, last := range []c09Op{alpha[5], alpha[6], alpha[7], alpha[13]} {
		hists = append(hists, []c09Op{big, big, last}, []c09Op{alpha[5], big, last}, []c09Op{big, big, last, alpha[6]})
	}
	if c.Thorough() {
		// selected depth-3 histories around snapshots and the key store
		core := []c09Op{alpha[0], alpha[3], alpha[5], alpha[10], alpha[12], alpha[13], alpha[14]}
		for _, a := range core {
			for _, b := range core {
				for _, d := range core {
					hists = append(hists, []c09Op{a, b, d})
				}
			}
		}
	}
	if only := os.Getenv("C09_ONLY"); only != "" { // debugging / replay of one history
		var h []c09Op
		if err := json.Unmarshal([]byte(only), &h); err != nil {
			t.Fatal(err)
		}
		hists = [][]c09Op{h}
	}
	c.Bound("histories", len(hists))
	c.Bound("alphabet", len(alpha))
	c.ProcFor(c.NextRunLabel(), len(hists), nil, func(_ []byte, i int, emit func([]byte)) {
		c09RunHistory(c, hists[i])
	}, nil)
	c.AddTransitions(c.Evaluations)
	c.Assume("process-kill model on tmpfs: completed syscalls persist, a syscall is atomic (no torn single write), fsync irrelevant; recovery hang = no result within 120 s")
	if c.Finish() != 0 {
		t.Fail()
	}
}
