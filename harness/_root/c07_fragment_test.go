package pilosa

// C07 — Every shard read reflects all completed writes, whatever the write path.
// Exhaustive exploration of write/read/snapshot histories on ONE real file-backed fragment against
// a map model. Reads are operations (they change hidden state: row cache, lookaside). Background
// snapshots are explicit events: the harness owns the snapshot queue and "runQueued" may be placed
// anywhere after the enqueue, which enumerates the schedule of the asynchronous snapshot at the
// granularity that matters (a snapshot holds the fragment lock throughout).

import (
	"context"
	"fmt"
	"sort"
	"strings"
	"testing"
	"time"

	"github.com/pilosa/pilosa/internal/vx"
	"github.com/pilosa/pilosa/pql"
)

var c07Cols = []uint64{0, 1, 65535, 65536, ShardWidth - 1}
var c07Rows = []uint64{0, 1}

// bulk import batches (row, col) — duplicates, both rows, boundary columns
var c07Batches = [][]vxBit{
	{{0, 0}, {0, 1}},
	{{1, 65536}, {0, 65535}, {1, 65536}},
	{{0, ShardWidth - 1}, {1, 0}, {0, 0}},
	{{1, 1}},
}

// roaring import payloads
var c07Payloads = [][]vxBit{
	{{0, 0}, {0, 65536}},
	{{1, 1}, {1, 65535}, {0, ShardWidth - 1}},
	{{0, 65536}, {0, 65537}, {1, 65536}},
}

// source rows for setRow: columns (global); the fragment is shard 0, so columns >= ShardWidth are
// another shard's segment and must be ignored.
var c07SrcRows = [][]uint64{
	{},
	{0, 65536},
	{1, ShardWidth - 1, ShardWidth + 1},
}

type c07Inst struct {
	f     *fragment
	kind  string
	queue bool
	model map[vxBit]bool
	vals  map[uint64]int64 // BSI model: column -> value
	depth uint
}

func c07New(kind string, maxOpN int, queue bool) vx.Instance {
	in := &c07Inst{kind: kind, queue: queue, model: map[vxBit]bool{}, vals: map[uint64]int64{}, depth: 4}
	in.f = vxOpenFragment(kind, 0, maxOpN, "", queue)
	return in
}

func (in *c07Inst) Close() { vxDiscardFragment(in.f) }

func (in *c07Inst) rowCols(r uint64) []uint64 {
	var out []uint64
	for b, ok := range in.model {
		if ok && b.row == r {
			out = append(out, b.col)
		}
	}
	sort.Slice(out, func(i, j int) bool { return out[i] < out[j] })
	return out
}

// setModel applies a set with the field-type semantics (mutex/bool: clear other rows of the column).
func (in *c07Inst) setModel(r, c uint64) bool {
	if in.model[vxBit{r, c}] {
		return false
	}
	if in.kind == vxKindMutex || in.kind == vxKindBool {
		for b := range in.model {
			if b.col == c && b.row != r {
				delete(in.model, b)
			}
		}
	}
	in.model[vxBit{r, c}] = true
	return true
}

// Apply runs one operation. Reads are operations of their own (they move hidden state). Every
// NON-read operation of a bit-level fragment is additionally followed by a storage-level
// enumeration (fragment.forEachBit: a container iterator — it touches neither the row cache nor
// the B-tree lookaside) compared with the model, so a write that went astray is caught at the
// write, one step earlier than by the next read operation.
func (in *c07Inst) Apply(op vx.Op) (got, want string) {
	got, want = in.apply0(op)
	if in.kind == vxKindBSI || strings.HasPrefix(op.Name, "r") && op.Name != "roaring" && op.Name != "reopen" && op.Name != "runQueued" {
		return got, want
	}
	if got != want {
		return got, want
	}
	fm := map[vxBit]bool{}
	if err := in.f.forEachBit(func(r, c uint64) error { fm[vxBit{r, c}] = true; return nil }); err != nil {
		return got + " | forEachBit: " + err.Error(), want + " | storage=" + vxModelBits(in.model)
	}
	return got + " | storage=" + vxModelBits(fm), want + " | storage=" + vxModelBits(in.model)
}

func (in *c07Inst) apply0(op vx.Op) (got, want string) {
	f := in.f
	switch op.Name {
	case "setBit":
		r, c := uint64(op.Args[0]), uint64(op.Args[1])
		ch, err := f.setBit(r, c)
		w := in.setModel(r, c)
		return fmt.Sprint(ch, err), fmt.Sprint(w, nil)
	case "clearBit":
		r, c := uint64(op.Args[0]), uint64(op.Args[1])
		ch, err := f.clearBit(r, c)
		w := in.model[vxBit{r, c}]
		delete(in.model, vxBit{r, c})
		return fmt.Sprint(ch, err), fmt.Sprint(w, nil)
	case "setRow":
		src := c07SrcRows[op.Args[0]]
		r := uint64(op.Args[1])
		before := vx.SortedU64(in.rowCols(r))
		ch, err := f.setRow(NewRow(src...), r)
		for b := range in.model {
			if b.row == r {
				delete(in.model, b)
			}
		}
		for _, c := range src {
			if c < ShardWidth {
				in.model[vxBit{r, c}] = true
			}
		}
		w := before != vx.SortedU64(in.rowCols(r))
		return fmt.Sprint(ch, err), fmt.Sprint(w, nil)
	case "clearRow":
		r := uint64(op.Args[0])
		ch, err := f.clearRow(r)
		w := false
		for b := range in.model {
			if b.row == r {
				delete(in.model, b)
				w = true
			}
		}
		return fmt.Sprint(ch, err), fmt.Sprint(w, nil)
	case "bulk":
		clear := op.Args[0] == 1
		batch := c07Batches[op.Args[1]]
		rows := make([]uint64, len(batch))
		cols := make([]uint64, len(batch))
		for i, b := range batch {
			rows[i], cols[i] = b.row, b.col
		}
		err := f.bulkImport(rows, cols, &ImportOptions{Clear: clear})
		for _, b := range batch {
			if clear {
				delete(in.model, b)
			} else {
				in.setModel(b.row, b.col)
			}
		}
		return fmt.Sprint(err), fmt.Sprint(nil)
	case "roaring":
		clear := op.Args[0] == 1
		pl := c07Payloads[op.Args[1]]
		err := f.importRoaring(context.Background(), vxPilosaRoaring(pl), clear)
		for _, b := range pl {
			if clear {
				delete(in.model, b)
			} else {
				in.model[b] = true
			}
		}
		return fmt.Sprint(err), fmt.Sprint(nil)
	case "snapshot":
		return fmt.Sprint(f.Snapshot()), fmt.Sprint(nil)
	case "runQueued":
		vxRunQueuedSnapshots(f)
		return "", ""
	case "reopen":
		if in.queue {
			vxRunQueuedSnapshots(f)
		}
		if err := f.Close(); err != nil {
			return "close: " + err.Error(), ""
		}
		if err := f.Open(); err != nil {
			return "open: " + err.Error(), ""
		}
		return "", ""
	case "rRow":
		r := uint64(op.Args[0])
		row := f.row(r)
		return vx.SortedU64(row.Columns()) + fmt.Sprintf("|n=%d", row.Count()), vx.SortedU64(in.rowCols(r)) + fmt.Sprintf("|n=%d", len(in.rowCols(r)))
	case "rBits":
		var g, w strings.Builder
		for _, r := range c07Rows {
			for _, c := range append(append([]uint64{}, c07Cols...), 65537) {
				v, err := func() (bool, error) { f.mu.Lock(); defer f.mu.Unlock(); return f.bit(r, c) }()
				fmt.Fprintf(&g, "%v%v,", v, err)
				fmt.Fprintf(&w, "%v%v,", in.model[vxBit{r, c}], nil)
			}
		}
		return g.String(), w.String()
	case "rRows":
		rows := f.rows(0)
		seen := map[uint64]bool{}
		for b, ok := range in.model {
			if ok {
				seen[b.row] = true
			}
		}
		var wr []uint64
		for r := range seen {
			wr = append(wr, r)
		}
		sort.Slice(wr, func(i, j int) bool { return wr[i] < wr[j] })
		return fmt.Sprint(rows), fmt.Sprint(append([]uint64{}, wr...))
	case "rForEach":
		m := map[vxBit]bool{}
		n := 0
		_ = f.forEachBit(func(r, c uint64) error { m[vxBit{r, c}] = true; n++; return nil })
		return vxModelBits(m) + fmt.Sprint(n), vxModelBits(in.model) + fmt.Sprint(len(in.model))
	case "rBlockData":
		rs, cs := f.blockData(0)
		m := map[vxBit]bool{}
		for i := range rs {
			m[vxBit{rs[i], cs[i]}] = true
		}
		return vxModelBits(m) + fmt.Sprint(len(rs)), vxModelBits(in.model) + fmt.Sprint(len(in.model))
	// ---- BSI ----
	case "setValue":
		c, v := uint64(op.Args[0]), op.Args[1]
		ch, err := f.setValue(c, in.depth, v)
		old, ok := in.vals[c]
		in.vals[c] = v
		return fmt.Sprint(ch, err), fmt.Sprint(!ok || old != v, nil)
	case "importValueClear":
		// the API's value import with Clear=true (fragment.clearValue itself has no caller in pilosa)
		bt := c07ValBatches[op.Args[0]]
		cols := append([]uint64{}, bt.cols...)
		vals := append([]int64{}, bt.vals...)
		err := f.importValue(cols, vals, in.depth, true)
		for i := range bt.cols {
			delete(in.vals, bt.cols[i])
		}
		return fmt.Sprint(err), fmt.Sprint(nil)
	case "importValue":
		// batch index selects (cols, vals); later duplicates win
		bt := c07ValBatches[op.Args[0]]
		cols := append([]uint64{}, bt.cols...)
		vals := append([]int64{}, bt.vals...)
		err := f.importValue(cols, vals, in.depth, false)
		for i := range bt.cols {
			in.vals[bt.cols[i]] = bt.vals[i]
		}
		return fmt.Sprint(err), fmt.Sprint(nil)
	case "rSum":
		// aggregate + range reads go through fragment.row() of the BSI rows (row cache)
		s, n, err := f.sum(nil, in.depth)
		var ws int64
		for _, v := range in.vals {
			ws += v
		}
		gt, err2 := f.rangeOp(pql.GT, in.depth, 0)
		var wgt []uint64
		for c, v := range in.vals {
			if v > 0 {
				wgt = append(wgt, c)
			}
		}
		nn, err3 := f.notNull()
		var wnn []uint64
		for c := range in.vals {
			wnn = append(wnn, c)
		}
		return fmt.Sprint(s, n, err, vx.SortedU64(gt.Columns()), err2, vx.SortedU64(nn.Columns()), err3),
			fmt.Sprint(ws, len(in.vals), nil, vx.SortedU64(wgt), nil, vx.SortedU64(wnn), nil)
	case "rValues":
		var g, w strings.Builder
		for _, c := range c07Cols {
			v, ex, err := f.value(c, in.depth)
			fmt.Fprintf(&g, "%d,%v,%v;", v, ex, err)
			mv, ok := in.vals[c]
			fmt.Fprintf(&w, "%d,%v,%v;", mv, ok, nil)
		}
		return g.String(), w.String()
	}
	panic("unknown op " + op.Name)
}

type c07ValBatch struct {
	cols []uint64
	vals []int64
}

var c07ValBatches = []c07ValBatch{
	{[]uint64{0, 1}, []int64{3, -3}},
	{[]uint64{65536, 0, 0}, []int64{15, 1, 0}},
	{[]uint64{ShardWidth - 1}, []int64{-15}},
}

func (in *c07Inst) Fingerprint() string {
	var sb strings.Builder
	sb.WriteString(vxModelBits(in.model))
	cs := make([]uint64, 0, len(in.vals))
	for c := range in.vals {
		cs = append(cs, c)
	}
	sort.Slice(cs, func(i, j int) bool { return cs[i] < cs[j] })
	for _, c := range cs {
		fmt.Fprintf(&sb, "%d=%d ", c, in.vals[c])
	}
	sb.WriteByte('#')
	sb.WriteString(vxFragHidden(in.f))
	fmt.Fprintf(&sb, "|q=%d", len(in.f.snapshotQueue))
	return sb.String()
}

func c07Alphabet(kind string, queue, thorough bool) []vx.Op {
	var a []vx.Op
	if kind == vxKindBSI {
		for _, c := range []uint64{0, 65536, ShardWidth - 1} {
			for _, v := range []int64{0, 1, -1, 15, -15} {
				a = append(a, vx.O("setValue", int64(c), v))
			}
		}
		for i := range c07ValBatches {
			a = append(a, vx.O("importValue", int64(i)), vx.O("importValueClear", int64(i)))
		}
		a = append(a, vx.O("rValues"), vx.O("rSum"), vx.O("snapshot"), vx.O("reopen"))
		return a
	}
	rows := c07Rows
	cols := c07Cols
	if !thorough {
		cols = []uint64{0, 65535, 65536, ShardWidth - 1}
	}
	if kind == vxKindMutex {
		rows = []uint64{0, 1, 2}
		cols = []uint64{0, 65536}
	}
	for _, r := range rows {
		for _, c := range cols {
			a = append(a, vx.O("setBit", int64(r), int64(c)))
		}
	}
	for _, r := range rows {
		for _, c := range cols {
			a = append(a, vx.O("clearBit", int64(r), int64(c)))
		}
	}
	a = append(a, vx.O("rRow", 0), vx.O("rRow", 1), vx.O("rBits"), vx.O("rRows"), vx.O("rForEach"), vx.O("rBlockData"))
	for i := range c07Batches {
		a = append(a, vx.O("bulk", 0, int64(i)), vx.O("bulk", 1, int64(i)))
	}
	if kind == vxKindSet {
		for i := range c07Payloads {
			a = append(a, vx.O("roaring", 0, int64(i)), vx.O("roaring", 1, int64(i)))
		}
		for i := range c07SrcRows {
			a = append(a, vx.O("setRow", int64(i), 0))
		}
		a = append(a, vx.O("setRow", 1, 1), vx.O("clearRow", 0), vx.O("clearRow", 1))
	}
	a = append(a, vx.O("snapshot"), vx.O("reopen"))
	if queue {
		a = append(a, vx.O("runQueued"))
	}
	return a
}

// c07Key classifies a minimal failing path: failing op + the distinct write kinds before it.
func c07Key(prefix string) func(p []vx.Op, got, want string) string {
	return func(p []vx.Op, got, want string) string {
		last := p[len(p)-1]
		if last.Name == "setRow" && got == "true <nil>" && want == "false <nil>" {
			return c07KeySetRowChanged
		}
		ctx := map[string]bool{}
		for _, o := range p[:len(p)-1] {
			n := o.Name
			if n == "bulk" || n == "roaring" {
				if o.Args[0] == 1 {
					n += "Clear"
				} else {
					n += "Set"
				}
			}
			ctx[n] = true
		}
		var names []string
		for n := range ctx {
			names = append(names, n)
		}
		sort.Strings(names)
		kind := "mismatch"
		if strings.HasPrefix(got, "PANIC") {
			kind = "panic"
		}
		ln := last.Name
		if ln == "bulk" || ln == "roaring" {
			if last.Args[0] == 1 {
				ln += "Clear"
			} else {
				ln += "Set"
			}
		}
		return fmt.Sprintf("%s %s at=%s after=%s", prefix, kind, ln, strings.Join(names, "+"))
	}
}

const c07KeySetRowChanged = "setRow reports changed=true although the row is unchanged"

func TestVerif_C07(t *testing.T) {
	c := vx.NewCheck("C07", "model_checking",
		"all write/read/snapshot histories over the alphabet up to the phase-A depth on a fresh real file-backed fragment per configuration (set / set+owned snapshot queue / mutex / bool / BSI; MaxOpN small and default), then BFS over canonical (model, hidden fragment state) states; distinct = distinct canonical end states")
	type cfg struct {
		name   string
		kind   string
		maxOpN int
		queue  bool
		dA, dB [2]int
	}
	cfgs := []cfg{
		{"set", vxKindSet, 0, false, [2]int{2, 3}, [2]int{3, 5}},
		{"set-opn2", vxKindSet, 2, false, [2]int{2, 3}, [2]int{3, 5}},
		{"set-queue", vxKindSet, 2, true, [2]int{2, 3}, [2]int{3, 5}},
		// mutex / bool: small alphabets, so length 3 exhaustively and length 4 state-merged already in the
		// quick tier (write, read = row cache filled, move the column by another path, read again)
		{"mutex", vxKindMutex, 0, false, [2]int{3, 3}, [2]int{4, 5}},
		{"bool", vxKindBool, 0, false, [2]int{3, 3}, [2]int{4, 5}},
		{"bsi", vxKindBSI, 0, false, [2]int{2, 3}, [2]int{3, 5}},
		{"bsi-opn2", vxKindBSI, 2, false, [2]int{2, 3}, [2]int{3, 4}},
	}
	ti := 0
	if c.Thorough() {
		ti = 1
	}
	for _, cf := range cfgs {
		cf := cf
		alpha := c07Alphabet(cf.kind, cf.queue, c.Thorough())
		if cf.kind == vxKindBool {
			// bool: rows {0,1} only
			var a2 []vx.Op
			for _, o := range alpha {
				if (o.Name == "setBit" || o.Name == "clearBit") && o.Args[0] > 1 {
					continue
				}
				a2 = append(a2, o)
			}
			alpha = a2
		}
		h := &vx.Harness{Alphabet: alpha, New: func() vx.Instance { return c07New(cf.kind, cf.maxOpN, cf.queue) }, Key: c07Key(cf.name), MultiProcess: true,
			Benign: func(k string) bool { return k == c07KeySetRowChanged }}
		t0 := time.Now()
		c.WithBudget(float64(c.Pick(14, 200)), func() {
			c.RunDFS(h, cf.dA[ti])
			c.RunBFS(h, cf.dB[ti], c.Pick(4000, 300000))
		})
		c.ConfirmViolations(h)
		c.Extra("alphabet_"+cf.name, len(alpha))
		fmt.Printf("INFO C07 config=%s alphabet=%d evals=%d wall=%.1fs\n", cf.name, len(alpha), c.Evaluations, time.Since(t0).Seconds())
	}
	c.AddValidated(c.Evaluations)
	c.Assume("2-3 rows x boundary columns of shard 0; background snapshot modelled as an explicit event run by the harness from the fragment's own queue")
	c.Assume("the state fingerprint of phase B includes the B-tree lookaside cache of the storage bitmap, read through reflection (unexported in package roaring); should those fields disappear, states differing only there would be merged again and lookaside-dependent behaviour would be decided by phase A here and by C02 at the roaring level")
	if c.Finish() != 0 {
		t.Fail()
	}
}
