package pilosa

// C06 — Malformed external input is rejected without crashing the server.
// "Any byte string" is infinite; this check enumerates COMPLETE NEIGHBOURHOODS of valid inputs and
// all short inputs, on the real entry points, each case in a worker process whose death (panic in
// a goroutine nobody recovers, SIGSEGV, fatal error) is attributed to the case through a progress
// file:
//   R  roaring payloads (Pilosa format with and without op log, official format with and without
//      runs): every truncation and every single-byte substitution by {00,01,7F,80,FF,b+1,b-1} (all
//      256 values in the header region) -> Bitmap.UnmarshalBinary, Bitmap.ImportRoaringBits
//      (set/clear), fragment.importRoaring (then: data unchanged on rejection, fragment still
//      serves a write and a read), fragment.Open on a file with those bytes. The payload is placed
//      so that it ends at a PROT_NONE guard page: an out-of-bounds read is a fault, not garbage.
//   W  the import worker with view payloads of length 0,1,2,3 and of every corpus prefix.
//   P  PQL: every string of <= L tokens over a token alphabet through pql.ParseString, and every
//      string that parses through the real executor (worker pool goroutines included).
//   M  cluster messages (external test file): every type byte x {empty, truncations, other types'
//      bodies} through API.ClusterMessage with the real protobuf serializer.
// Oracle (the statement): a value or an error; no panic outside a recovered request, no process
// death, no hang; a rejected request leaves data unchanged and releases its locks.

import (
	"bytes"
	"context"
	"encoding/binary"
	"fmt"
	"io/ioutil"
	"os"
	"path/filepath"
	"sort"
	"strings"
	"syscall"
	"testing"
	"time"

	"github.com/pilosa/pilosa/internal/vx"
	"github.com/pilosa/pilosa/pql"
	"github.com/pilosa/pilosa/roaring"
)

// C06External is set by the external test file (package pilosa_test), which can import the
// protobuf serializer; it contributes the cluster-message cases.
var C06External func(c *vx.Check, progDir string)

// C06Progress gives the external file the progress-file writer (dead workers are attributed to the
// case named in it).
func C06Progress(dir string) func(s string) { return c06Progress(dir) }

type c06Seed struct {
	name string
	data []byte
	hdr  int // bytes of header/offset region that get all 256 substitutions
}

func c06Pilosa(vals []uint64, ops func(b *roaring.Bitmap)) []byte {
	bm := roaring.NewBitmap(vals...)
	var buf bytes.Buffer
	if _, err := bm.WriteTo(&buf); err != nil {
		panic(err)
	}
	if ops != nil {
		b2 := roaring.NewFileBitmap()
		if err := b2.UnmarshalBinary(append([]byte{}, buf.Bytes()...)); err != nil {
			panic(err)
		}
		b2.OpWriter = &buf
		ops(b2)
	}
	return buf.Bytes()
}

// c06Official encodes containers (key -> sorted values) in the official RoaringFormatSpec layout.
func c06Official(cont map[uint16][]uint16, runs bool) []byte {
	keys := make([]int, 0, len(cont))
	for k := range cont {
		keys = append(keys, int(k))
	}
	sort.Ints(keys)
	n := len(keys)
	var out []byte
	le16 := func(v uint16) { out = append(out, byte(v), byte(v>>8)) }
	le32 := func(v uint32) { out = append(out, byte(v), byte(v>>8), byte(v>>16), byte(v>>24)) }
	isRun := func(vs []uint16) bool { return runs && len(vs) >= 4 && int(vs[len(vs)-1]-vs[0]) == len(vs)-1 }
	if runs {
		le32(uint32(12347) | uint32(n-1)<<16)
		bm := make([]byte, (n+7)/8)
		for i, k := range keys {
			if isRun(cont[uint16(k)]) {
				bm[i/8] |= 1 << uint(i%8)
			}
		}
		out = append(out, bm...)
	} else {
		le32(12346)
		le32(uint32(n))
	}
	for _, k := range keys {
		le16(uint16(k))
		le16(uint16(len(cont[uint16(k)]) - 1))
	}
	body := func(vs []uint16) []byte {
		var b []byte
		if isRun(vs) {
			b = append(b, 1, 0, byte(vs[0]), byte(vs[0]>>8), byte(len(vs)-1), byte((len(vs)-1)>>8))
		} else if len(vs) > 4096 {
			w := make([]uint64, 1024)
			for _, v := range vs {
				w[v/64] |= 1 << (v % 64)
			}
			b = make([]byte, 8192)
			for i, x := range w {
				binary.LittleEndian.PutUint64(b[i*8:], x)
			}
		} else {
			for _, v := range vs {
				b = append(b, byte(v), byte(v>>8))
			}
		}
		return b
	}
	if !runs || n >= 4 {
		off := len(out) + 4*n
		for _, k := range keys {
			le32(uint32(off))
			off += len(body(cont[uint16(k)]))
		}
	}
	for _, k := range keys {
		out = append(out, body(cont[uint16(k)])...)
	}
	return out
}

func c06Seeds() []c06Seed {
	run := make([]uint64, 0, 100)
	for i := uint64(10); i < 110; i++ {
		run = append(run, i)
	}
	orun := make([]uint16, 100)
	for i := range orun {
		orun[i] = uint16(10 + i)
	}
	return []c06Seed{
		{"pilosa-empty", c06Pilosa(nil, nil), 8},
		{"pilosa-array", c06Pilosa([]uint64{1, 2, 65536 + 3}, nil), 8 + 2*12 + 2*4},
		{"pilosa-run", c06Pilosa(run, nil), 8 + 12 + 4},
		{"pilosa-3keys", c06Pilosa([]uint64{1, 65536, 2 * 65536, 2*65536 + 1}, nil), 8 + 3*12 + 3*4},
		{"pilosa-oplog", c06Pilosa([]uint64{1, 65536}, func(b *roaring.Bitmap) {
			b.Add(7)
			b.AddN(8, 9, 65537)
			b.Remove(1)
			b.ImportRoaringBits(c06Pilosa([]uint64{5, 6}, nil), false, true, 0)
		}), 8 + 2*12 + 2*4},
		{"official-noruns", c06Official(map[uint16][]uint16{0: {1, 2, 3}, 1: {7}}, false), 8 + 8 + 8},
		{"official-runs", c06Official(map[uint16][]uint16{0: orun, 2: {5, 9}}, true), 4 + 1 + 8},
		{"official-runs-4keys", c06Official(map[uint16][]uint16{0: orun, 1: {1}, 2: {2}, 3: {3, 4}}, true), 4 + 1 + 16 + 16},
	}
}

type c06Case struct {
	seed  int
	trunc int // >=0: truncate to this length
	pos   int // substitution position (trunc < 0)
	val   byte
	w     int    // 2 or 4: little-endian field substitution at pos (value wv) instead of one byte
	wv    uint32
}

func (cs c06Case) String(seeds []c06Seed) string {
	if cs.trunc >= 0 {
		return fmt.Sprintf("%s truncated to %d/%d bytes", seeds[cs.seed].name, cs.trunc, len(seeds[cs.seed].data))
	}
	if cs.w > 0 {
		return fmt.Sprintf("%s u%dle[%d]=0x%0*x", seeds[cs.seed].name, cs.w*8, cs.pos, cs.w*2, cs.wv)
	}
	return fmt.Sprintf("%s byte[%d]=0x%02x (was 0x%02x)", seeds[cs.seed].name, cs.pos, cs.val, seeds[cs.seed].data[cs.pos])
}

func c06Cases(seeds []c06Seed, thorough bool) []c06Case {
	var out []c06Case
	for si, s := range seeds {
		for l := 0; l < len(s.data); l++ {
			out = append(out, c06Case{seed: si, trunc: l})
		}
		for p := 0; p < len(s.data); p++ {
			b := s.data[p]
			var vals []byte
			if p < s.hdr || (thorough && len(s.data) < 200) {
				for v := 0; v < 256; v++ {
					vals = append(vals, byte(v))
				}
			} else {
				vals = []byte{0x00, 0x01, 0x7F, 0x80, 0xFF, b + 1, b - 1}
			}
			seen := map[byte]bool{b: true}
			for _, v := range vals {
				if !seen[v] {
					seen[v] = true
					out = append(out, c06Case{seed: si, trunc: -1, pos: p, val: v})
				}
			}
		}
		// FIELD-level substitutions in the header region (counts, keys, cardinalities, offsets are
		// 16/32-bit little-endian fields; a single byte cannot reach their boundary values): at every
		// header position, a 2-byte and a 4-byte field take every value within `win` of the
		// boundaries 0, 2^15|2^31, 2^16|2^32 (wrapping) and of the payload length. Thorough also
		// walks every 4-byte field value in [2^32-8200, 2^32) and len +- 8200 at offset-aligned
		// positions (any container body size up to a bitmap's 8192 bytes can wrap around 2^32).
		win := 16
		L := uint32(len(s.data))
		for p := 0; p < s.hdr && p+2 <= len(s.data); p++ {
			seen16 := map[uint32]bool{}
			for _, ctr := range []uint32{0, 1 << 15, L} {
				for d := -win; d <= win; d++ {
					v := (ctr + uint32(d)) & 0xFFFF
					if !seen16[v] {
						seen16[v] = true
						out = append(out, c06Case{seed: si, trunc: -1, pos: p, w: 2, wv: v})
					}
				}
			}
			if p+4 > len(s.data) {
				continue
			}
			seen32 := map[uint32]bool{}
			add32 := func(v uint32) {
				if !seen32[v] {
					seen32[v] = true
					out = append(out, c06Case{seed: si, trunc: -1, pos: p, w: 4, wv: v})
				}
			}
			for _, ctr := range []uint32{0, 1 << 16, 1 << 31, L} {
				for d := -win; d <= win; d++ {
					add32(ctr + uint32(d))
				}
			}
			if thorough && (s.hdr-p)%4 == 0 {
				for d := 1; d <= 8200; d++ {
					add32(uint32(0) - uint32(d))
					add32(L + uint32(d))
				}
			}
		}
	}
	return out
}

// c06Guarded copies p so that it ends exactly at a PROT_NONE page.
type c06Guard struct {
	mem []byte
}

func c06NewGuard(max int) *c06Guard {
	pages := (max+4095)/4096 + 1
	mem, err := syscall.Mmap(-1, 0, pages*4096, syscall.PROT_READ|syscall.PROT_WRITE, syscall.MAP_ANON|syscall.MAP_PRIVATE)
	if err != nil {
		panic(err)
	}
	if err := syscall.Mprotect(mem[(pages-1)*4096:], syscall.PROT_NONE); err != nil {
		panic(err)
	}
	return &c06Guard{mem: mem}
}

func (g *c06Guard) place(p []byte) []byte {
	end := len(g.mem) - 4096
	if len(p) == 0 {
		return g.mem[end:end:end]
	}
	dst := g.mem[end-len(p) : end : end]
	copy(dst, p)
	return dst
}

func c06Mutate(seeds []c06Seed, cs c06Case) []byte {
	d := seeds[cs.seed].data
	if cs.trunc >= 0 {
		return append([]byte{}, d[:cs.trunc]...)
	}
	p := append([]byte{}, d...)
	if cs.w > 0 {
		for i := 0; i < cs.w; i++ {
			p[cs.pos+i] = byte(cs.wv >> (8 * uint(i)))
		}
		return p
	}
	p[cs.pos] = cs.val
	return p
}

func c06FragBits(f *fragment) string {
	m := map[vxBit]bool{}
	_ = f.forEachBit(func(r, c uint64) error { m[vxBit{r, c}] = true; return nil })
	return vxModelBits(m)
}

// c06Served: after a rejected request the fragment must still serve a write and a read (locks
// released). Judged by completion, with a generous bound (a held lock never completes).
func c06Served(f *fragment) bool {
	done := make(chan struct{})
	go func() {
		defer func() { recover(); close(done) }()
		f.setBit(9, 9)
		f.row(9)
		f.clearBit(9, 9)
	}()
	select {
	case <-done:
		return true
	case <-time.After(60 * time.Second):
		return false
	}
}

func c06Progress(dir string) func(s string) {
	f, err := os.OpenFile(filepath.Join(dir, fmt.Sprintf("prog.%d", os.Getpid())), os.O_CREATE|os.O_WRONLY, 0o644)
	if err != nil {
		panic(err)
	}
	return func(s string) {
		b := []byte(s)
		if len(b) > 400 {
			b = b[:400]
		}
		b = append(b, bytes.Repeat([]byte{' '}, 401-len(b))...)
		f.WriteAt(b, 0)
	}
}

func c06PQLTokens() []string {
	return []string{"Set", "Row", "TopN", "(", ")", ",", "=", "<", ">", "[", "]", `"`, "'", `\`, "-", ".", "1", "f", "é", "null", " "}
}

func TestVerif_C06(t *testing.T) {
	c := vx.NewCheck("C06", "fault_enumeration",
		"complete neighbourhoods of valid inputs (every truncation, every single-byte substitution from a value set; all 256 values in header regions; every 16/32-bit header field at every header position set to every value within 16 of 0, 2^15/2^31, 2^16/2^32 and the payload length — thorough: every 32-bit value in [2^32-8200,2^32) and (len,len+8200] at offset-aligned positions) of 8 roaring seed encodings x 5 entry points; import-worker payload lengths; every PQL token string up to L tokens (parse, and execute when it parses); cluster message type bytes x bodies; each case runs in a worker process, a dead worker is attributed to its case; distinct = distinct (entry point, outcome class, seed) triples")
	seeds := c06Seeds()
	cases := c06Cases(seeds, c.Thorough())
	progDir := vx.Scratch()
	c.Bound("roaring_cases", len(cases))
	maxLen := 0
	for _, s := range seeds {
		if len(s.data) > maxLen {
			maxLen = len(s.data)
		}
	}
	chunk := 200
	nchunks := (len(cases) + chunk - 1) / chunk

	// ---- R: roaring payloads ------------------------------------------------------------------
	c.ProcFor(c.NextRunLabel(), nchunks, []byte(progDir), func(in []byte, ci int, emit func([]byte)) {
		prog := c06Progress(string(in))
		g := c06NewGuard(maxLen + 16)
		frag := vxOpenFragment(vxKindSet, 0, 0, "", false)
		frag.setBit(1, 1)
		frag.setBit(2, 65536)
		defer vxDiscardFragment(frag)
		for k := ci * chunk; k < (ci+1)*chunk && k < len(cases); k++ {
			cs := cases[k]
			name := cs.String(seeds)
			payload := c06Mutate(seeds, cs)
			for _, ep := range []string{"UnmarshalBinary", "ImportRoaringBits-set", "ImportRoaringBits-clear", "fragment.importRoaring", "fragment.Open"} {
				prog(ep + " <- " + name)
				c.AddEval(1)
				p := g.place(payload)
				outcome := "ok"
				switch ep {
				case "UnmarshalBinary":
					var err error
					if pan := vx.Guard(func() { err = roaring.NewFileBitmap().UnmarshalBinary(p) }); pan != "" {
						outcome = pan
					} else if err != nil {
						outcome = "error"
					}
				case "ImportRoaringBits-set", "ImportRoaringBits-clear":
					b := roaring.NewBTreeBitmap(1, 65536+2)
					var err error
					if pan := vx.Guard(func() { _, _, err = b.ImportRoaringBits(p, ep == "ImportRoaringBits-clear", false, 16) }); pan != "" {
						outcome = pan
					} else if err != nil {
						outcome = "error"
					}
				case "fragment.importRoaring":
					before := c06FragBits(frag)
					var err error
					pan := vx.Guard(func() { err = frag.importRoaring(context.Background(), p, false) })
					if pan != "" {
						outcome = pan
					} else if err != nil {
						outcome = "error"
					}
					if pan != "" || err != nil {
						if after := c06FragBits(frag); after != before && pan == "" {
							c.Violate("rejected-import-changed-data entry=fragment.importRoaring seed="+seeds[cs.seed].name, name, "data after rejection: "+after, "unchanged: "+before)
						}
						if !c06Served(frag) {
							c.Violate("lock-not-released entry=fragment.importRoaring seed="+seeds[cs.seed].name, name, "follow-up write/read did not complete", "served")
							return
						}
						if pan != "" { // the fragment may be half-updated after a panic: start afresh
							vxDiscardFragment(frag)
							frag = vxOpenFragment(vxKindSet, 0, 0, "", false)
							frag.setBit(1, 1)
							frag.setBit(2, 65536)
						}
					} else {
						// accepted: reset contents for the next case
						vxDiscardFragment(frag)
						frag = vxOpenFragment(vxKindSet, 0, 0, "", false)
						frag.setBit(1, 1)
						frag.setBit(2, 65536)
					}
				case "fragment.Open":
					dir := vx.Scratch()
					path := filepath.Join(dir, "frag")
					ioutil.WriteFile(path, payload, 0o644)
					f2 := newFragment(path, "i", "f", viewStandard, 0, 0)
					var err error
					pan := vx.Guard(func() { err = f2.Open() })
					if pan != "" {
						outcome = pan
					} else if err != nil {
						outcome = "error"
					} else {
						if pan2 := vx.Guard(func() { f2.row(0); f2.rows(0); f2.Blocks() }); pan2 != "" {
							outcome = "opened-then-read-" + pan2
						}
						vx.Guard(func() { vxDiscardFragment(f2) })
					}
					os.RemoveAll(dir)
				}
				cls := outcome
				if strings.HasPrefix(outcome, "PANIC") || strings.HasPrefix(outcome, "opened-then-read-PANIC") {
					cls = "panic"
					c.Violate(fmt.Sprintf("panic entry=%s seed=%s", ep, seeds[cs.seed].name), ep+" <- "+name, outcome, "value or error")
				}
				c.Outcome(ep + "|" + cls)
				c.Distinct(ep + "|" + cls + "|" + seeds[cs.seed].name)
			}
			if k%997 == 0 {
				c.Sample(name)
			}
		}
		prog("done")
	}, nil)

	// ---- W: import worker ---------------------------------------------------------------------
	c.ProcFor(c.NextRunLabel(), 1, []byte(progDir), func(in []byte, _ int, emit func([]byte)) {
		prog := c06Progress(string(in))
		h := NewHolder()
		h.Path = vx.Scratch()
		if err := h.Open(); err != nil {
			panic(err)
		}
		defer h.Close()
		idx, _ := h.CreateIndex("i", IndexOptions{})
		fld, _ := idx.CreateField("f", OptFieldTypeDefault())
		var payloads [][]byte
		for l := 0; l <= 3; l++ {
			payloads = append(payloads, bytes.Repeat([]byte{0x3c}, l))
		}
		for _, s := range seeds {
			for l := 1; l <= len(s.data) && l <= 12; l++ {
				payloads = append(payloads, s.data[:l])
			}
		}
		for _, p := range payloads {
			for _, view := range []string{"", "2019"} {
				desc := fmt.Sprintf("importWorker view=%q payload=%x", view, p)
				prog(desc)
				c.AddEval(1)
				ch := make(chan importJob, 1)
				errCh := make(chan error, 1)
				ch <- importJob{ctx: context.Background(), req: &ImportRoaringRequest{Views: map[string][]byte{view: p}}, shard: 0, field: fld, errChan: errCh}
				close(ch)
				// importWorker runs in bare goroutines in production: a panic here is a process exit
				if pan := vx.Guard(func() { importWorker(ch) }); pan != "" {
					c.Violate(fmt.Sprintf("panic entry=importWorker payload-len=%d", len(p)), desc, pan+" (importWorker goroutines have no recover: the server process exits)", "error returned to the request")
					c.Outcome("importWorker|panic")
					continue
				}
				c.Outcome("importWorker|returned")
				c.Distinct(fmt.Sprintf("importWorker|%d|%s", len(p), view))
			}
		}
		prog("done")
	}, nil)

	// ---- P: PQL token strings -----------------------------------------------------------------
	toks := c06PQLTokens()
	L := c.Pick(3, 4)
	total := 0
	pow := 1
	for l := 1; l <= L; l++ {
		pow *= len(toks)
		total += pow
	}
	c.Bound("pql_strings", total)
	c.Bound("pql_max_tokens", L)
	pchunk := 2000
	c.ProcFor(c.NextRunLabel(), (total+pchunk-1)/pchunk, []byte(progDir), func(in []byte, ci int, emit func([]byte)) {
		prog := c06Progress(string(in))
		var env *c23EnvLite
		for k := ci * pchunk; k < (ci+1)*pchunk && k < total; k++ {
			// decode k into a token string (lengths 1..L in order)
			x, l, p := k, 1, len(toks)
			for x >= p {
				x -= p
				l++
				p *= len(toks)
			}
			var sb strings.Builder
			for i := 0; i < l; i++ {
				sb.WriteString(toks[x%len(toks)])
				x /= len(toks)
			}
			q := sb.String()
			c.AddEval(1)
			var perr error
			var parsed *pql.Query
			if pan := vx.Guard(func() { parsed, perr = pql.ParseString(q) }); pan != "" {
				// "PQL text is either accepted or rejected with an error": the parser's contract is
				// (query, error); a panic out of ParseString is neither (API.Query has no recover of
				// its own — only the HTTP handler above it does)
				c.Violate("panic entry=pql.ParseString", q, pan, "a query or an error")
				c.Outcome("pql-parse|panic")
				continue
			}
			if perr != nil || parsed == nil {
				c.Outcome("pql-parse|error")
				continue
			}
			c.Outcome("pql-parse|ok")
			c.Distinct("pql|" + q)
			// executes: through the real executor with its worker pool (a panic in a pool goroutine
			// is a process exit -> attributed through the progress file)
			prog("API.Query <- " + q)
			if env == nil {
				env = c06NewEnv()
			}
			pan := vx.Guard(func() { _, _ = env.api.Query(context.Background(), &QueryRequest{Index: "i", Query: q}) })
			if pan != "" {
				// recovered by the HTTP handler in production; but the request must not leave locks held
				if !env.served() {
					c.Violate("lock-not-released entry=API.Query", q, "follow-up request did not complete after a recovered panic: "+pan, "served")
					return
				}
				c.Outcome("pql-exec|panic-recovered-by-handler")
			} else {
				c.Outcome("pql-exec|returned")
			}
			if k%5003 == 0 {
				c.Sample(q)
			}
		}
		prog("done")
	}, nil)

	// ---- P2: grammar-directed PQL: every call name x every argument list of 1..3 arguments -----
	// (token strings of length <= L cannot reach "a call with a condition AND a further argument")
	{
		names := []string{"Row", "Set", "Count", "TopN", "Range", "Whatever"}
		args := []string{"1", "f=1", `f="s"`, "f=[1,2]", "f>1", "0<f<5", "0<=f<=5", "f><[1,5]", "f!=null", "Row(f=1)", "2017-01-01T00:00", "_col=1", "f=true", "n=2"}
		var qs []string
		for _, n := range names {
			for i := range args {
				qs = append(qs, n+"("+args[i]+")")
				for j := range args {
					qs = append(qs, n+"("+args[i]+", "+args[j]+")")
					for k := range args {
						qs = append(qs, n+"("+args[i]+", "+args[j]+", "+args[k]+")")
					}
				}
			}
		}
		c.Bound("pql_structured_calls", len(qs))
		gchunk := 1500
		c.ProcFor(c.NextRunLabel(), (len(qs)+gchunk-1)/gchunk, []byte(progDir), func(in []byte, ci int, emit func([]byte)) {
			prog := c06Progress(string(in))
			var env *c23EnvLite
			for k := ci * gchunk; k < (ci+1)*gchunk && k < len(qs); k++ {
				q := qs[k]
				c.AddEval(1)
				var perr error
				var parsed *pql.Query
				if pan := vx.Guard(func() { parsed, perr = pql.ParseString(q) }); pan != "" {
					c.Violate("panic entry=pql.ParseString", q, pan, "a query or an error")
					c.Outcome("pql-parse|panic")
					continue
				}
				if perr != nil || parsed == nil {
					c.Outcome("pql-parse|error")
					continue
				}
				c.Outcome("pql-parse|ok")
				c.Distinct("pql2|" + q)
				prog("API.Query <- " + q)
				if env == nil {
					env = c06NewEnv()
				}
				if pan := vx.Guard(func() { _, _ = env.api.Query(context.Background(), &QueryRequest{Index: "i", Query: q}) }); pan != "" {
					if !env.served() {
						c.Violate("lock-not-released entry=API.Query", q, "follow-up request did not complete after a recovered panic: "+pan, "served")
						return
					}
					c.Outcome("pql-exec|panic-recovered-by-handler")
				} else {
					c.Outcome("pql-exec|returned")
				}
			}
			prog("done")
		}, nil)
	}

	// ---- M: cluster messages (external file) ----------------------------------------------------
	if C06External != nil {
		C06External(c, progDir)
	}

	// dead workers -> attribute to the case in their progress file
	if !vx.IsChild() {
		files, _ := filepath.Glob(filepath.Join(progDir, "prog.*"))
		for _, f := range files {
			b, _ := ioutil.ReadFile(f)
			s := strings.TrimSpace(string(b))
			if s != "done" && s != "" {
				ep := strings.SplitN(s, " <- ", 2)[0]
				c.Violate("process-death entry="+ep, s, "the process died (unrecovered panic in a goroutine, fault, or fatal error)", "value or error")
			}
		}
	}
	c.Assume("byte strings far from any valid encoding and longer than the token bound are not reached; panics during query EXECUTION that the HTTP handler recovers are accepted as the statement allows, provided locks are released; a panic out of the parser (pql.ParseString returns a query or an error) is not")
	if c.Finish() != 0 {
		t.Fail()
	}
}

// c23EnvLite: a single-node in-process server with API (no network listener).
type c23EnvLite struct {
	srv *Server
	api *API
}

type c06NopSerializer struct{}

func (c06NopSerializer) Marshal(Message) ([]byte, error) { return nil, nil }
func (c06NopSerializer) Unmarshal([]byte, Message) error { return nil }

func c06NewEnv() *c23EnvLite {
	dir := vx.Scratch()
	srv, err := NewServer(OptServerDataDir(dir), OptServerNodeID("node0"), OptServerIsCoordinator(true),
		OptServerSerializer(c06NopSerializer{}), OptServerTranslateFileMapSize(1<<20))
	if err != nil {
		panic(err)
	}
	if err := srv.holder.translateFile.Open(); err != nil {
		panic(err)
	}
	if err := srv.holder.Open(); err != nil {
		panic(err)
	}
	api, err := NewAPI(OptAPIServer(srv))
	if err != nil {
		panic(err)
	}
	srv.cluster.SetState(ClusterStateNormal)
	idx, err := srv.holder.CreateIndex("i", IndexOptions{TrackExistence: true})
	if err != nil {
		panic(err)
	}
	f, err := idx.CreateField("f", OptFieldTypeSet(DefaultCacheType, DefaultCacheSize))
	if err != nil {
		panic(err)
	}
	f.SetBit(1, 1, nil)
	f.SetBit(1, ShardWidth+1, nil)
	return &c23EnvLite{srv: srv, api: api}
}

func (e *c23EnvLite) served() bool {
	done := make(chan struct{})
	go func() {
		defer func() { recover(); close(done) }()
		e.api.Query(context.Background(), &QueryRequest{Index: "i", Query: "Set(7, f=7) Row(f=7) Clear(7, f=7)"})
	}()
	select {
	case <-done:
		return true
	case <-time.After(60 * time.Second):
		return false
	}
}
