package pilosa

// C24 — Key translation is a stable bijection on every node (sequential, restart and
// replica-streaming clauses; concurrent callers are explored by the schedule engine, not here).
//
// Bounded-exhaustive exploration of translation histories on the REAL TranslateFile (log file +
// mmap on tmpfs) against a map model that does NOT prescribe id values: an id must be positive,
// must never change for a key, must not be shared by two keys of one namespace, reverse lookup must
// return the key. Operations of the alphabet:
//   tr(ns,batch)  translate a batch in one of 4 namespaces (columns of index i / j, rows of i/f, i/g);
//                 batches hold repeats, "", multi-byte runes, a 5000-byte key (> bufio buffer), keys
//                 whose home slots collide / are adjacent modulo the 256- and 512-slot table mask
//                 (found by search), a macro batch of 300 fresh keys (forces growth at 90% of 256),
//                 and the empty batch
//   reopen        Close + a new TranslateFile on the same path (log replay)
//   rsync         a persistent replica resumes streaming at its own size and catches up
//   rrestart      the persistent replica is restarted (replays its own log)
//   rsweep        for EVERY entry boundary k of the primary's log: a fresh replica streams exactly the
//                 first k entries, is restarted, and resumes; the remaining bytes are delivered whole,
//                 byte by byte, and in EVERY 2-split (each on its own copy of the replica's log);
//                 every resulting replica must hold exactly the primary's mapping.
// After every step the complete mapping of the primary (forward and reverse, every namespace) is read
// back (reads are pure here, so this battery cannot mask anything).
//
// Replication is driven through the real (*TranslateFile).replicate and the real
// TranslateFile.Reader; only the transport in between is the harness' (it decides the chunking and
// ends the stream where the primary's log ends, instead of blocking for more).

import (
	"context"
	"crypto/sha1"
	"encoding/hex"
	"fmt"
	"io"
	"os"
	"path/filepath"
	"sort"
	"strings"
	"sync"
	"testing"
	"time"

	"github.com/cespare/xxhash"
	"github.com/pilosa/pilosa/internal/vx"
)

const c24MapSize = 1 << 22

type c24NS struct {
	row          bool
	index, field string
}

var c24Spaces = []c24NS{{false, "i", ""}, {true, "i", "f"}, {false, "j", ""}, {true, "i", "g"}}

func (n c24NS) String() string {
	if n.row {
		return "row:" + n.index + "/" + n.field
	}
	return "col:" + n.index
}

type c24Batch struct {
	name string
	keys []string
}

var (
	c24Once    sync.Once
	c24Batches []c24Batch
)

// c24Init builds the key alphabet; colliding keys are found by search on the hash the index uses
// (xxhash.Sum64 of the key bytes, slot = hash & (capacity-1), capacity 256 then 512).
func c24Init() {
	c24Once.Do(func() {
		home := func(s string) uint64 { return xxhash.Sum64String(s) & 511 }
		ha := home("a")
		var same, next []string
		for i := 0; len(same) < 3 || len(next) < 2; i++ {
			k := fmt.Sprintf("c%d", i)
			switch home(k) {
			case ha:
				if len(same) < 3 {
					same = append(same, k)
				}
			case (ha + 1) & 511:
				if len(next) < 2 {
					next = append(next, k)
				}
			}
			if i > 10000000 {
				panic("c24: no colliding keys found")
			}
		}
		long := strings.Repeat("k", 5000)
		long2 := strings.Repeat("k", 4999) + "j"
		fresh := make([]string, 300)
		for i := range fresh {
			fresh[i] = fmt.Sprintf("k%03d", i)
		}
		c24Batches = []c24Batch{
			{"a", []string{"a"}},
			{"b.a.b", []string{"b", "a", "b"}},
			{"empty+runes", []string{"", "é", "\U0001D11E", ""}},
			{"long5000+a", []string{long, "a"}},
			{"collide1", []string{same[0], same[1], next[0]}},
			{"collide2", []string{next[1], same[2], same[0]}},
			{"fresh300", fresh},
			{"none", []string{}},
			{"long5000x2", []string{long2, long}}, // thorough only
		}
	})
}

// ---------------------------------------------------------------------------------------------
// model

type c24Space struct {
	fwd   map[string]uint64
	rev   map[uint64]string
	order []string // keys in order of first translation
}

type c24Model [4]*c24Space

func c24NewModel() *c24Model {
	var m c24Model
	for i := range m {
		m[i] = &c24Space{fwd: map[string]uint64{}, rev: map[uint64]string{}}
	}
	return &m
}

func (m *c24Model) counts() [4]int {
	var c [4]int
	for i := range m {
		c[i] = len(m[i].order)
	}
	return c
}

// ---------------------------------------------------------------------------------------------
// transport between the primary's real Reader and the replica's real replicate()

type c24Feed struct {
	primary  *TranslateFile
	limit    int64   // deliver the primary's log up to this absolute offset, then end the stream
	cuts     []int64 // absolute offsets a single Read never crosses
	bytewise bool
}

func (f *c24Feed) TranslateColumnsToUint64(string, []string) ([]uint64, error) {
	panic("c24: replica forwarded a write")
}
func (f *c24Feed) TranslateColumnToString(string, uint64) (string, error) {
	panic("c24: unexpected call")
}
func (f *c24Feed) TranslateRowsToUint64(string, string, []string) ([]uint64, error) {
	panic("c24: replica forwarded a write")
}
func (f *c24Feed) TranslateRowToString(string, string, uint64) (string, error) {
	panic("c24: unexpected call")
}
func (f *c24Feed) Reader(ctx context.Context, off int64) (io.ReadCloser, error) {
	rc, err := f.primary.Reader(ctx, off)
	if err != nil {
		return nil, err
	}
	return &c24Reader{f: f, rc: rc, pos: off}, nil
}

type c24Reader struct {
	f   *c24Feed
	rc  io.ReadCloser
	pos int64
}

func (r *c24Reader) Read(p []byte) (int, error) {
	if r.pos >= r.f.limit {
		return 0, io.EOF
	}
	max := r.f.limit - r.pos
	for _, c := range r.f.cuts {
		if c > r.pos && c-r.pos < max {
			max = c - r.pos
		}
	}
	if r.f.bytewise {
		max = 1
	}
	if int64(len(p)) > max {
		p = p[:max]
	}
	if len(p) == 0 {
		return 0, nil
	}
	n, err := r.rc.Read(p)
	r.pos += int64(n)
	return n, err
}

func (r *c24Reader) Close() error { return r.rc.Close() }

// ---------------------------------------------------------------------------------------------

type c24Boundary struct {
	off    int64
	counts [4]int
}

type c24Inst struct {
	dir     string
	primary *TranslateFile
	model   *c24Model
	bounds  []c24Boundary // log size + model size after every entry written (bounds[0] = empty log)
	fresh   bool          // primary state was built by log replay and not written since

	feed       *c24Feed
	replica    *TranslateFile
	replCounts [4]int // what the persistent replica must hold
	replFresh  bool
	nclone     int
	fullSweep  bool
	sweepPart  int // phase C: only deliveries with (running number % sweepParts) == sweepPart
	sweepParts int
	expired    func() bool
}

func c24Open(path string, feed *c24Feed) (*TranslateFile, error) {
	s := NewTranslateFile(OptTranslateFileMapSize(c24MapSize))
	s.Path = path
	if feed != nil {
		s.PrimaryTranslateStore = feed
	}
	if err := s.Open(); err != nil {
		return nil, err
	}
	return s, nil
}

func c24New() *c24Inst {
	c24Init()
	in := &c24Inst{dir: vx.Scratch(), model: c24NewModel(), fresh: true}
	p, err := c24Open(filepath.Join(in.dir, "primary"), nil)
	if err != nil {
		panic(err)
	}
	in.primary = p
	in.feed = &c24Feed{primary: p}
	in.bounds = []c24Boundary{{0, [4]int{}}}
	return in
}

func (in *c24Inst) Close() {
	if in.replica != nil {
		in.replica.Close()
	}
	in.primary.Close()
	os.RemoveAll(in.dir)
}

func c24Translate(s *TranslateFile, ns c24NS, keys []string) ([]uint64, error) {
	if ns.row {
		return s.TranslateRowsToUint64(ns.index, ns.field, keys)
	}
	return s.TranslateColumnsToUint64(ns.index, keys)
}

func c24Reverse(s *TranslateFile, ns c24NS, id uint64) (string, error) {
	if ns.row {
		return s.TranslateRowToString(ns.index, ns.field, id)
	}
	return s.TranslateColumnToString(ns.index, id)
}

func c24Short(k string) string {
	if len(k) > 12 {
		return fmt.Sprintf("%q…(%d bytes)", k[:6], len(k))
	}
	return fmt.Sprintf("%q", k)
}

// c24Verify reads the complete mapping (first counts[i] keys of every namespace) from s.
// Returns "" when it equals the model, else the first discrepancy.
func c24Verify(s *TranslateFile, m *c24Model, counts [4]int) string {
	for i, ns := range c24Spaces {
		sp := m[i]
		keys := sp.order[:counts[i]]
		if len(keys) == 0 {
			continue
		}
		ids, err := c24Translate(s, ns, append([]string(nil), keys...))
		if err != nil {
			return fmt.Sprintf("fwd-error %s: %v", ns, err)
		}
		if len(ids) != len(keys) {
			return fmt.Sprintf("fwd-count %s: %d ids for %d keys", ns, len(ids), len(keys))
		}
		for j, k := range keys {
			if ids[j] != sp.fwd[k] {
				return fmt.Sprintf("fwd-mismatch %s key=%s id=%d expected=%d", ns, c24Short(k), ids[j], sp.fwd[k])
			}
		}
		for _, k := range keys {
			id := sp.fwd[k]
			got, err := c24Reverse(s, ns, id)
			if err != nil {
				return fmt.Sprintf("rev-error %s: %v", ns, err)
			}
			if got != k {
				return fmt.Sprintf("rev-mismatch %s id=%d key=%s expected=%s", ns, id, c24Short(got), c24Short(k))
			}
		}
	}
	return ""
}

func c24IDs(ids []uint64) string {
	if len(ids) <= 8 {
		return fmt.Sprint(ids)
	}
	h := sha1.New()
	for _, v := range ids {
		fmt.Fprintf(h, "%d,", v)
	}
	return fmt.Sprintf("[%d %d %d … %d](n=%d,sha=%s)", ids[0], ids[1], ids[2], ids[len(ids)-1], len(ids), hex.EncodeToString(h.Sum(nil)[:4]))
}

func (in *c24Inst) primarySize() int64 {
	fi, err := os.Stat(in.primary.Path)
	if err != nil {
		panic(err)
	}
	return fi.Size()
}

func (in *c24Inst) Apply(op vx.Op) (got, want string) {
	switch op.Name {
	case "tr":
		nsi := int(op.Args[0])
		ns, b := c24Spaces[nsi], c24Batches[op.Args[1]]
		sp := in.model[nsi]
		ids, err := c24Translate(in.primary, ns, append([]string(nil), b.keys...))
		if err != nil {
			return "error " + err.Error(), "ids"
		}
		if len(ids) != len(b.keys) {
			return fmt.Sprintf("id-count %d ids for %d keys", len(ids), len(b.keys)), "ids"
		}
		for i, k := range b.keys {
			id := ids[i]
			if known, ok := sp.fwd[k]; ok {
				if id != known {
					return fmt.Sprintf("id-changed key=%s id=%d", c24Short(k), id), fmt.Sprintf("id=%d", known)
				}
				continue
			}
			if id == 0 {
				return fmt.Sprintf("id-not-positive key=%s", c24Short(k)), "id>0"
			}
			if other, used := sp.rev[id]; used {
				return fmt.Sprintf("id-reused key=%s id=%d", c24Short(k), id), fmt.Sprintf("an id not held by %s", c24Short(other))
			}
			sp.fwd[k], sp.rev[id] = id, k
			sp.order = append(sp.order, k)
		}
		if sz := in.primarySize(); sz != in.bounds[len(in.bounds)-1].off {
			in.bounds = append(in.bounds, c24Boundary{sz, in.model.counts()})
			in.fresh = false
		}
		if v := c24Verify(in.primary, in.model, in.model.counts()); v != "" {
			return v, "mapping intact"
		}
		s := "ids " + c24IDs(ids)
		return s, s
	case "reopen":
		if err := in.primary.Close(); err != nil {
			return "close-error " + err.Error(), "reopened"
		}
		p, err := c24Open(in.primary.Path, nil)
		if err != nil {
			panic(err) // leaves nothing to continue with
		}
		in.primary, in.feed.primary, in.fresh = p, p, true
		if v := c24Verify(in.primary, in.model, in.model.counts()); v != "" {
			return v, "mapping intact"
		}
		return "reopened", "reopened"
	case "rsync":
		if in.replica == nil {
			r, err := c24Open(filepath.Join(in.dir, "replica"), in.feed)
			if err != nil {
				panic(err)
			}
			in.replica = r
		}
		if v := in.stream(in.replica, in.primarySize(), nil, false); v != "" {
			return "replica " + v, "replica in sync"
		}
		in.replCounts, in.replFresh = in.model.counts(), false
		if v := c24Verify(in.replica, in.model, in.replCounts); v != "" {
			return "replica " + v, "replica in sync"
		}
		return "replica in sync", "replica in sync"
	case "rrestart":
		if in.replica == nil {
			return "", ""
		}
		path := in.replica.Path
		if err := in.replica.Close(); err != nil {
			return "replica close-error " + err.Error(), "replica restarted"
		}
		r, err := c24Open(path, in.feed)
		if err != nil {
			panic(err)
		}
		in.replica, in.replFresh = r, true
		if v := c24Verify(in.replica, in.model, in.replCounts); v != "" {
			return "replica " + v, "replica restarted"
		}
		return "replica restarted", "replica restarted"
	case "rsweep":
		if v := in.sweep(in.fullSweep, nil); v != "" {
			return "replica " + v, "every resumed replica in sync"
		}
		return "every resumed replica in sync", "every resumed replica in sync"
	}
	panic("unknown op " + op.Name)
}

// stream lets replica r resume at its own size and catch up to limit through the real replicate().
func (in *c24Inst) stream(r *TranslateFile, limit int64, cuts []int64, bytewise bool) string {
	in.feed.limit, in.feed.cuts, in.feed.bytewise = limit, cuts, bytewise
	if err := r.replicate(context.Background()); err != nil {
		return "replicate-error " + err.Error()
	}
	return ""
}

// c24Cuts: the split points tried between from and to. Small streams: every byte position. Large
// ones (DFS only; the dedicated big-entry phase tries every position): a structural subset.
func c24Cuts(bounds []c24Boundary, from, to int64, full bool) []int64 {
	var cuts []int64
	if full || to-from <= 600 {
		for c := from + 1; c < to; c++ {
			cuts = append(cuts, c)
		}
		return cuts
	}
	seen := map[int64]bool{}
	add := func(c int64) {
		if c > from && c < to && !seen[c] {
			seen[c] = true
			cuts = append(cuts, c)
		}
	}
	for i := 1; i < len(bounds); i++ {
		lo, hi := bounds[i-1].off, bounds[i].off
		if hi <= from {
			continue
		}
		for d := int64(0); d < 40; d++ {
			add(lo + d)
		}
		for d := int64(0); d < 24; d++ {
			add(hi - d)
		}
		for m := int64(4096); lo+m < hi+2; m += 4096 { // reader buffer size, relative to the entry
			add(lo + m - 1)
			add(lo + m)
			add(lo + m + 1)
		}
		for c := lo + 61; c < hi; c += 61 {
			add(c)
		}
	}
	for m := from + 4096; m < to+2; m += 4096 { // relative to the resumed stream
		add(m - 1)
		add(m)
		add(m + 1)
	}
	sort.Slice(cuts, func(i, j int) bool { return cuts[i] < cuts[j] })
	return cuts
}

// sweep: every entry boundary x every delivery (whole, bytewise, every 2-split). onCase, if set,
// is told the number of resumed replicas checked.
func (in *c24Inst) sweep(full bool, onCase func(n int)) string {
	end := in.bounds[len(in.bounds)-1]
	n := 0
	defer func() {
		if onCase != nil {
			onCase(n)
		}
	}()
	for k, b := range in.bounds {
		// a fresh replica streams exactly the first k entries
		in.nclone++
		base := filepath.Join(in.dir, fmt.Sprintf("sw%d", in.nclone))
		r, err := c24Open(base, in.feed)
		if err != nil {
			panic(err)
		}
		v := in.stream(r, b.off, nil, false)
		if v == "" {
			v = c24Verify(r, in.model, b.counts)
		}
		r.Close()
		if v != "" {
			os.Remove(base)
			return fmt.Sprintf("prefix=%d/%d %s", k, len(in.bounds)-1, v)
		}
		log, err := os.ReadFile(base)
		os.Remove(base)
		if err != nil {
			panic(err)
		}
		type delivery struct {
			cuts     []int64
			bytewise bool
			name     string
		}
		ds := []delivery{{nil, false, "whole"}}
		if end.off > b.off {
			ds = append(ds, delivery{nil, true, "bytewise"})
			for _, c := range c24Cuts(in.bounds, b.off, end.off, full) {
				ds = append(ds, delivery{[]int64{c}, false, fmt.Sprintf("split@+%d", c-b.off)})
			}
		}
		for di, d := range ds {
			if in.sweepParts > 1 && di%in.sweepParts != in.sweepPart {
				continue
			}
			if in.expired != nil && di%64 == 0 && in.expired() {
				return ""
			}
			in.nclone++
			p := filepath.Join(in.dir, fmt.Sprintf("sw%d", in.nclone))
			if err := os.WriteFile(p, log, 0o666); err != nil {
				panic(err)
			}
			rr, err := c24Open(p, in.feed) // restart of the replica that holds prefix k
			if err != nil {
				os.Remove(p)
				return fmt.Sprintf("prefix=%d/%d restart-error %v", k, len(in.bounds)-1, err)
			}
			v := c24Verify(rr, in.model, b.counts)
			if v == "" {
				v = in.stream(rr, end.off, d.cuts, d.bytewise)
			}
			if v == "" {
				v = c24Verify(rr, in.model, end.counts)
			}
			rr.Close()
			os.Remove(p)
			n++
			if v != "" {
				return fmt.Sprintf("prefix=%d/%d delivery=%s %s", k, len(in.bounds)-1, d.name, v)
			}
		}
	}
	return ""
}

// Fingerprint: the primary's log (every in-memory structure is a function of it and of whether it was
// built incrementally or by replay), the persistent replica's log length and the same flag for it.
func (in *c24Inst) Fingerprint() string {
	b, err := os.ReadFile(in.primary.Path)
	if err != nil {
		panic(err)
	}
	h := sha1.Sum(b)
	rs := int64(-1)
	if in.replica != nil {
		fi, err := os.Stat(in.replica.Path)
		if err != nil {
			panic(err)
		}
		rs = fi.Size()
	}
	return fmt.Sprintf("%s/%d/%v/r%d/%v", hex.EncodeToString(h[:]), len(b), in.fresh, rs, in.replFresh)
}

func c24Tr(ns, b int) vx.Op {
	return vx.Op{Name: "tr", Args: []int64{int64(ns), int64(b)}, S: c24Spaces[ns].String() + " " + c24Batches[b].name}
}

// c24Alphabet: variant 0 = the full alphabet of the tier; variant 1 = a reduced alphabet for the deeper
// phase A of the thorough tier (column namespace with every batch kind, row namespace with the
// repeat/long/growth batches).
func c24Alphabet(thorough bool, variant int) []vx.Op {
	c24Init()
	var a []vx.Op
	if variant == 1 {
		for _, b := range []int{0, 1, 2} {
			a = append(a, c24Tr(0, b))
		}
		a = append(a, vx.O("reopen"), vx.O("rsync"), vx.O("rsweep"), vx.O("rrestart"))
		for _, b := range []int{3, 4, 5, 6} {
			a = append(a, c24Tr(0, b))
		}
		for _, b := range []int{1, 3, 6} {
			a = append(a, c24Tr(1, b))
		}
		return a
	}
	nb := 8
	if thorough {
		nb = 9
	}
	for b := 0; b < 3; b++ {
		a = append(a, c24Tr(0, b), c24Tr(1, b))
	}
	a = append(a, vx.O("reopen"), vx.O("rsync"), vx.O("rsweep"), vx.O("rrestart"))
	for b := 3; b < nb; b++ {
		a = append(a, c24Tr(0, b), c24Tr(1, b))
	}
	for b := 0; b < 2; b++ {
		a = append(a, c24Tr(2, b), c24Tr(3, b))
	}
	return a
}

func c24Harness(variant int) *vx.Harness {
	th := os.Getenv("VERIF_TIER") == "thorough"
	return &vx.Harness{Alphabet: c24Alphabet(th, variant), New: func() vx.Instance { return c24New() }, Key: c24Key}
}

// c24Key: failing operation (with its batch), discrepancy kind, context (sorted set of earlier ops).
func c24Key(p []vx.Op, got, want string) string {
	last := p[len(p)-1]
	name := func(o vx.Op) string {
		if o.Name == "tr" {
			return "tr[" + c24Batches[o.Args[1]].name + "]"
		}
		return o.Name
	}
	kind := got
	if strings.HasPrefix(got, "PANIC") {
		kind = "panic"
	} else {
		f := strings.Fields(got)
		kind = ""
		for _, w := range f { // leading tag words: "replica", "prefix=…", "delivery=…", then the tag
			if w == "replica" || strings.HasPrefix(w, "prefix=") || strings.HasPrefix(w, "delivery=") {
				if w == "replica" {
					kind = "replica "
				}
				continue
			}
			kind += w
			break
		}
	}
	ctx := map[string]bool{} // kinds of earlier operations only: one root cause = one or a few keys
	for _, o := range p[:len(p)-1] {
		ctx[o.Name] = true
	}
	var names []string
	for n := range ctx {
		names = append(names, n)
	}
	sort.Strings(names)
	return name(last) + " " + kind + " after=" + strings.Join(names, "+")
}

// Phase C: for the big entries (5000-byte keys, 300 keys) EVERY byte position is tried as the split,
// from every entry boundary, in a column and a row namespace, alone and after a small entry.
type c24BigCase struct {
	ns, batch int
	prelude   bool
}

const c24BigParts = 8 // each case is cut into this many units (deliveries taken round-robin)

func c24BigCases(thorough bool) []c24BigCase {
	var cases []c24BigCase
	bigs := []int{3, 6}
	if thorough {
		bigs = append(bigs, 8)
	}
	for _, ns := range []int{0, 1} {
		for _, b := range bigs {
			for _, pre := range []bool{false, true} {
				cases = append(cases, c24BigCase{ns, b, pre})
			}
		}
	}
	return cases
}

func c24BigUnit(unit []int, expired func() bool) (evals int64, distinct []string, viols []c24PxCustomViol) {
	bc := c24BigCases(true)[unit[0]]
	part := unit[1]
	in := c24New()
	defer in.Close()
	var path []vx.Op
	tr := func(ns, b int) vx.Op {
		return vx.Op{Name: "tr", Args: []int64{int64(ns), int64(b)}, S: c24Spaces[ns].String() + " " + c24Batches[b].name}
	}
	if bc.prelude {
		path = append(path, tr(bc.ns, 1))
	}
	path = append(path, tr(bc.ns, bc.batch))
	desc := vx.PathString(path) + fmt.Sprintf("; rsweep(every byte split, part %d/%d)", part, c24BigParts)
	for i, o := range path {
		if g, w := in.Apply(o); g != w {
			return 1, nil, []c24PxCustomViol{{c24Key(path[:i+1], g, w), vx.PathString(path[:i+1]), g, w}}
		}
	}
	in.sweepPart, in.sweepParts, in.expired = part, c24BigParts, expired
	var n int
	v := in.sweep(true, func(k int) { n = k })
	if v != "" {
		p2 := append(append([]vx.Op(nil), path...), vx.O("rsweep"))
		viols = append(viols, c24PxCustomViol{c24Key(p2, "replica "+v, "") + " (every byte split)", desc, "replica " + v, "every resumed replica in sync"})
	}
	return int64(n), []string{"phaseC " + desc}, viols
}

func TestVerif_C24(t *testing.T) {
	th := os.Getenv("VERIF_TIER") == "thorough"
	h := c24Harness(0)
	c24PxVariant = c24Harness
	c24PxCustom = c24BigUnit
	if c24PxChild(h) {
		return
	}
	c := vx.NewCheck("C24", "model_checking",
		"all operation sequences over the alphabet up to the phase-A depth on a fresh real TranslateFile (+ real replicas fed by the real Reader/replicate); then every byte split of every big entry; distinct = distinct canonical (primary log, replica log length, built-by-replay flags) end states")
	kv := map[string]string{}
	t0 := time.Now()
	ends := c24PxRunDFS(c, h, 0, 3, kv)
	if th {
		ends += c24PxRunDFS(c, c24Harness(1), 1, 4, kv)
	}
	c.AddStates(int64(ends))
	c.Bound("phaseA", "v0: full alphabet of the tier, depth 3; v1 (thorough): reduced 14-op alphabet, depth 4")
	c.Extra("phaseA_wall_s", time.Since(t0).Seconds())
	// No state-merged phase B here: every writing operation appends to the log, which is part of the
	// canonical state, so distinct histories of writes never merge (measured: BFS to depth 3 = the DFS
	// tree again). The distinct canonical end states of phase A are reported as states.
	t0 = time.Now()
	var units [][]int
	for i, bc := range c24BigCases(true) {
		// quick: the column namespace after a small entry (2 boundaries), the row namespace alone
		if !th && (bc.batch == 8 || bc.prelude != (bc.ns == 0)) {
			continue
		}
		for p := 0; p < c24BigParts; p++ {
			units = append(units, []int{i, p})
		}
	}
	resumed := c24PxRunCustom(c, h, units, kv)
	c.Extra("phaseC_resumed_replicas_checked", resumed)
	c.Extra("phaseC_wall_s", time.Since(t0).Seconds())
	c.Bound("phaseC_cases", len(units)/c24BigParts)
	c.ConfirmViolations(h)
	c.AddValidated(c.Evaluations)
	c.Assume("4 namespaces, 9 batches over keys {\"\",a,b,é,U+1D11E,5000-byte keys,3+2 keys colliding/adjacent modulo 512,300 fresh}; ids are not prescribed, only positivity/stability/injectivity/reverse lookup")
	c.Assume("true 64-bit xxhash collisions are out of reach; concurrent callers are not explored here")
	c.Assume("replication: real Reader and real replicate(); the transport in between is the harness' (no HTTP, no retry timer)")
	if c.Finish() != 0 {
		t.Fail()
	}
}
