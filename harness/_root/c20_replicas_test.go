package pilosa

// C20 — Every node computes the same replica set for every shard.
//
// Configuration enumeration on the REAL cluster code:
//  P1  every non-empty subset of 8 node IDs x ReplicaN 0..9 x 3 construction paths
//      (addNodeBasicSorted ascending / a scrambled order / add all 8 then removeNodeBasicSorted the
//      complement) x all 256 partitions and (index,shard) pairs covering every partition:
//      owners = min(max(r,1),n) distinct members; identical for the three paths; and
//      partitionNodes, shardNodes, ShardNodes, ownsShard (for all 8 IDs), containsShards,
//      executor.shardsByNode and API.validateShardOwnership agree with that owner set.
//  P2  every join order of k<=6 nodes (873 orders) through the gossip-style path: each node has its
//      own cluster (setup()), the first node of the order is the coordinator and admits the others
//      with ReceiveEvent(NodeJoin) -> nodeJoin -> addNode; the ClusterStatus it broadcasts is
//      delivered (deep-copied, as a serializer would) to every other node's mergeClusterStatus.
//      Afterwards every node's cluster must compute the same owners for every partition and
//      ReplicaN 0..9, and the same as every other join order.
//
// The oracle is the property text only: count, distinctness, membership, independence of the
// join order / computing node, and agreement of the ownership helpers. No hash function is modelled.

import (
	"fmt"
	"sort"
	"strings"
	"sync"
	"testing"

	"github.com/pilosa/pilosa/internal/vx"
	"github.com/pilosa/pilosa/logger"
	"github.com/pilosa/pilosa/roaring"
)

// IDs chosen so that byte order, "natural" order and insertion order all differ.
var c20IDs = []string{"n2", "n10", "n1", "N3", "a_b", "a-b", "z", "0f3e"}

func c20Node(id string) *Node {
	return &Node{ID: id, URI: URI{Scheme: "http", Host: "host-" + id, Port: 10101}, State: nodeStateReady}
}

func c20IDsOf(ns []*Node) string {
	s := make([]string, len(ns))
	for i, n := range ns {
		if n == nil {
			s[i] = "<nil>"
		} else {
			s[i] = n.ID
		}
	}
	return strings.Join(s, ",")
}

type c20Pair struct {
	index string
	shard uint64
	part  int
}

// c20Pairs: for each index the smallest shard of every partition, plus shards 0..31.
func c20Pairs(c *cluster) []c20Pair {
	var out []c20Pair
	for _, idx := range []string{"i", "other-index"} {
		seen := map[int]bool{}
		for s := uint64(0); len(seen) < c.partitionN && s < 100000; s++ {
			p := c.partition(idx, s)
			if !seen[p] || s < 32 {
				out = append(out, c20Pair{idx, s, p})
			}
			seen[p] = true
		}
	}
	return out
}

func c20Build(ids []string, path int) *cluster {
	c := newCluster()
	c.logger = logger.NopLogger
	switch path {
	case 0: // ascending by the given order
		for _, id := range ids {
			c.addNodeBasicSorted(c20Node(id))
		}
	case 1: // descending
		for i := len(ids) - 1; i >= 0; i-- {
			c.addNodeBasicSorted(c20Node(ids[i]))
		}
	case 2: // all 8 in a scrambled order, then remove the complement
		for _, k := range []int{5, 0, 7, 2, 4, 1, 6, 3} {
			c.addNodeBasicSorted(c20Node(c20IDs[k]))
		}
		in := map[string]bool{}
		for _, id := range ids {
			in[id] = true
		}
		for _, k := range []int{3, 6, 0, 4, 7, 1, 5, 2} {
			if !in[c20IDs[k]] {
				c.removeNodeBasicSorted(c20IDs[k])
			}
		}
	}
	return c
}

// c20Owners checks count/distinct/membership and returns the owner IDs (in the order returned).
func c20Owners(c *cluster, part int, members map[string]bool, r int) (ids []string, bad string) {
	var ns []*Node
	if pan := vx.Guard(func() { ns = c.partitionNodes(part) }); pan != "" {
		return nil, pan
	}
	n := len(members)
	want := r
	if want < 1 {
		want = 1
	}
	if want > n {
		want = n
	}
	if len(ns) != want {
		return nil, fmt.Sprintf("owner-count got=%d want=%d", len(ns), want)
	}
	seen := map[string]bool{}
	for _, x := range ns {
		if x == nil {
			return nil, "nil-owner"
		}
		if !members[x.ID] {
			return nil, "owner-not-a-member"
		}
		if seen[x.ID] {
			return nil, "duplicate-owner"
		}
		seen[x.ID] = true
		ids = append(ids, x.ID)
	}
	return ids, ""
}

func c20Short(bad string) string {
	if i := strings.Index(bad, " "); i > 0 {
		return bad[:i]
	}
	return bad
}

func c20RunSubsets(c *vx.Check) {
	maxR := 9
	pairs := c20Pairs(newCluster())
	c.Bound("index_shard_pairs", len(pairs))
	c.Bound("node_ids", c20IDs)
	vx.ParallelFor(255, func(k int) {
		mask := k + 1
		var ids []string
		members := map[string]bool{}
		for b := 0; b < 8; b++ {
			if mask&(1<<uint(b)) != 0 {
				ids = append(ids, c20IDs[b])
				members[c20IDs[b]] = true
			}
		}
		sorted := append([]string(nil), ids...)
		sort.Strings(sorted)
		cl := [3]*cluster{c20Build(ids, 0), c20Build(ids, 1), c20Build(ids, 2)}
		for pi, x := range cl {
			if got := strings.Join(x.nodeIDs(), ","); got != strings.Join(sorted, ",") {
				c.Violate(fmt.Sprintf("node-list-not-sorted-by-id path=%d", pi), fmt.Sprintf("ids=%v path=%d", ids, pi), got, strings.Join(sorted, ","))
				return
			}
		}
		for r := 0; r <= maxR; r++ {
			cs := fmt.Sprintf("nodes=%v replicas=%d", sorted, r)
			for _, x := range cl {
				x.ReplicaN = r
			}
			// partitions
			owners := make([][]string, 256)
			for p := 0; p < 256; p++ {
				c.AddEval(1)
				o0, bad := c20Owners(cl[0], p, members, r)
				if bad != "" {
					c.Violate("partitionNodes "+c20Short(bad), fmt.Sprintf("%s partition=%d", cs, p), bad, "min(max(r,1),n) distinct members")
					return
				}
				for pi := 1; pi < 3; pi++ {
					o, bad := c20Owners(cl[pi], p, members, r)
					if bad != "" {
						c.Violate("partitionNodes "+c20Short(bad), fmt.Sprintf("%s partition=%d path=%d", cs, p, pi), bad, "min(max(r,1),n) distinct members")
						return
					}
					if strings.Join(o, ",") != strings.Join(o0, ",") {
						c.Violate(fmt.Sprintf("owners-depend-on-construction-path path=%d", pi), fmt.Sprintf("%s partition=%d", cs, p), strings.Join(o, ","), strings.Join(o0, ","))
						return
					}
				}
				owners[p] = o0
				c.Outcome(fmt.Sprintf("n=%d r=%d first=%s k=%d", len(ids), r, o0[0], len(o0)))
			}
			c.Distinct(cs)
			// helpers on (index, shard) pairs
			x := cl[2]
			ex := &executor{Cluster: x}
			srv := &Server{cluster: x, logger: logger.NopLogger}
			api := &API{cluster: x, server: srv}
			avail := map[string]*roaring.Bitmap{}
			for _, pr := range pairs {
				c.AddEval(1)
				want := owners[pr.part]
				wantS := strings.Join(want, ",")
				pc := fmt.Sprintf("%s index=%s shard=%d", cs, pr.index, pr.shard)
				if g := c20IDsOf(x.shardNodes(pr.index, pr.shard)); g != wantS {
					c.Violate("shardNodes != partitionNodes(partition)", pc, g, wantS)
					return
				}
				if g := c20IDsOf(x.ShardNodes(pr.index, pr.shard)); g != wantS {
					c.Violate("ShardNodes != shardNodes", pc, g, wantS)
					return
				}
				in := map[string]bool{}
				for _, id := range want {
					in[id] = true
				}
				for _, id := range c20IDs {
					if g := x.ownsShard(id, pr.index, pr.shard); g != in[id] {
						c.Violate("ownsShard disagrees with owner set", pc+" node="+id, fmt.Sprint(g), fmt.Sprint(in[id]))
						return
					}
				}
				// validateShardOwnership as seen by every member node
				for _, nd := range x.nodes {
					x.Node = nd
					err := api.validateShardOwnership(pr.index, pr.shard)
					if (err == nil) != in[nd.ID] {
						c.Violate("validateShardOwnership disagrees with owner set", pc+" node="+nd.ID, fmt.Sprint(err), fmt.Sprintf("owner=%v", in[nd.ID]))
						return
					}
				}
				if avail[pr.index] == nil {
					avail[pr.index] = roaring.NewBitmap()
				}
				_, _ = avail[pr.index].Add(pr.shard)
			}
			// containsShards for all 8 IDs (members and non-members)
			for _, idx := range []string{"i", "other-index"} {
				for _, id := range c20IDs {
					var want []uint64
					for _, pr := range pairs {
						if pr.index != idx {
							continue
						}
						for _, o := range owners[pr.part] {
							if o == id {
								want = append(want, pr.shard)
							}
						}
					}
					got := x.containsShards(idx, avail[idx], &Node{ID: id})
					c.AddEval(1)
					if vx.SortedU64(got) != vx.SortedU64(want) || len(got) != len(want) {
						c.Violate("containsShards disagrees with owner set", fmt.Sprintf("%s index=%s node=%s", cs, idx, id), vx.SortedU64(got), vx.SortedU64(want))
						return
					}
				}
			}
			// executor.shardsByNode: all nodes; all but one; a single node
			var subsets [][]*Node
			subsets = append(subsets, x.nodes)
			for i := range x.nodes {
				subsets = append(subsets, Nodes(x.nodes).Filter(x.nodes[i]))
				subsets = append(subsets, []*Node{x.nodes[i]})
			}
			for _, idx := range []string{"i", "other-index"} {
				var shards []uint64
				for _, pr := range pairs {
					if pr.index == idx {
						shards = append(shards, pr.shard)
					}
				}
				part := map[uint64]int{}
				for _, pr := range pairs {
					if pr.index == idx {
						part[pr.shard] = pr.part
					}
				}
				for _, sub := range subsets {
					c.AddEval(1)
					allowed := map[string]bool{}
					for _, nd := range sub {
						allowed[nd.ID] = true
					}
					wantErr := false
					for _, s := range shards {
						any := false
						for _, o := range owners[part[s]] {
							if allowed[o] {
								any = true
							}
						}
						if !any {
							wantErr = true
						}
					}
					sc := fmt.Sprintf("%s index=%s among=%s", cs, idx, c20IDsOf(sub))
					m, err := ex.shardsByNode(sub, idx, shards)
					if (err != nil) != wantErr {
						c.Violate("shardsByNode availability error disagrees with owner sets", sc, fmt.Sprint(err), fmt.Sprintf("error=%v", wantErr))
						return
					}
					if err != nil {
						continue
					}
					cnt := map[uint64]int{}
					for nd, ss := range m {
						for _, s := range ss {
							cnt[s]++
							ok := false
							for _, o := range owners[part[s]] {
								if o == nd.ID && allowed[o] {
									ok = true
								}
							}
							if !ok {
								c.Violate("shardsByNode assigns a shard to a non-owner", fmt.Sprintf("%s shard=%d", sc, s), nd.ID, strings.Join(owners[part[s]], ","))
								return
							}
						}
					}
					for _, s := range shards {
						if cnt[s] != 1 {
							c.Violate("shardsByNode does not assign every shard exactly once", fmt.Sprintf("%s shard=%d", sc, s), fmt.Sprint(cnt[s]), "1")
							return
						}
					}
				}
			}
		}
	})
}

// ---- P2: gossip-style joins ----------------------------------------------------------------------

type c20Net struct {
	mu       sync.Mutex
	clusters map[string]*cluster
	errs     []string
}

type c20Bcast struct {
	net  *c20Net
	from string
}

func (b c20Bcast) deliver(to string, m Message) error {
	b.net.mu.Lock()
	t := b.net.clusters[to]
	b.net.mu.Unlock()
	if t == nil {
		return nil
	}
	switch v := m.(type) {
	case *ClusterStatus:
		cp := &ClusterStatus{ClusterID: v.ClusterID, State: v.State}
		for _, n := range v.Nodes {
			nn := *n
			cp.Nodes = append(cp.Nodes, &nn)
		}
		return t.mergeClusterStatus(cp)
	}
	return nil
}

func (b c20Bcast) SendSync(m Message) error {
	b.net.mu.Lock()
	var ids []string
	for id := range b.net.clusters {
		if id != b.from {
			ids = append(ids, id)
		}
	}
	b.net.mu.Unlock()
	sort.Strings(ids)
	for _, id := range ids {
		if err := b.deliver(id, m); err != nil {
			return err
		}
	}
	return nil
}
func (b c20Bcast) SendAsync(Message) error           { return nil }
func (b c20Bcast) SendTo(to *Node, m Message) error { return b.deliver(to.ID, m) }

func c20NewMember(net *c20Net, base string, id, coord string) (*cluster, error) {
	c := newCluster()
	c.logger = logger.NopLogger
	c.Path = base + "/" + id
	c.Node = c20Node(id)
	c.Node.State = nodeStateReady
	c.Coordinator = coord
	c.Node.IsCoordinator = id == coord
	h := NewHolder()
	h.Path = c.Path
	c.holder = h
	c.broadcaster = c20Bcast{net: net, from: id}
	if err := c.setup(); err != nil {
		return nil, err
	}
	net.mu.Lock()
	net.clusters[id] = c
	net.mu.Unlock()
	return c, nil
}

func c20Permutations(n int) [][]int {
	var out [][]int
	a := make([]int, n)
	for i := range a {
		a[i] = i
	}
	var rec func(k int)
	rec = func(k int) {
		if k == n {
			out = append(out, append([]int(nil), a...))
			return
		}
		for i := k; i < n; i++ {
			a[k], a[i] = a[i], a[k]
			rec(k + 1)
			a[k], a[i] = a[i], a[k]
		}
	}
	rec(0)
	return out
}

// c20Table renders owners for every partition and replica count of one cluster.
func c20Table(c *cluster, members map[string]bool) (string, string) {
	var sb strings.Builder
	keep := c.ReplicaN
	defer func() { c.ReplicaN = keep }()
	for r := 0; r <= 9; r++ {
		c.ReplicaN = r
		for p := 0; p < 256; p++ {
			o, bad := c20Owners(c, p, members, r)
			if bad != "" {
				return "", fmt.Sprintf("r=%d p=%d %s", r, p, bad)
			}
			sb.WriteString(strings.Join(o, ","))
			sb.WriteByte(';')
		}
	}
	return sb.String(), ""
}

func c20RunJoinOrders(c *vx.Check, idSet []string, tag string) {
	base := vx.Scratch()
	type job struct {
		k    int
		perm []int
	}
	var jobs []job
	for k := 1; k <= len(idSet); k++ {
		for _, p := range c20Permutations(k) {
			jobs = append(jobs, job{k, p})
		}
	}
	c.Bound("join_orders_"+tag, len(jobs))
	// canonical table per k: from the directly built sorted cluster
	canon := map[int]string{}
	for k := 1; k <= len(idSet); k++ {
		members := map[string]bool{}
		for _, id := range idSet[:k] {
			members[id] = true
		}
		t, bad := c20Table(c20Build(idSet[:k], 0), members)
		if bad != "" {
			return // reported by P1
		}
		canon[k] = t
	}
	vx.ParallelFor(len(jobs), func(ji int) {
		if c.Expired() {
			return
		}
		j := jobs[ji]
		order := make([]string, j.k)
		members := map[string]bool{}
		for i, x := range j.perm {
			order[i] = idSet[x]
			members[idSet[x]] = true
		}
		cs := fmt.Sprintf("join-order=%v (first is coordinator)", order)
		net := &c20Net{clusters: map[string]*cluster{}}
		dir := fmt.Sprintf("%s/%s-%d", base, tag, ji)
		coord, err := c20NewMember(net, dir, order[0], order[0])
		if err != nil {
			c.Violate("harness: coordinator setup", cs, err.Error(), "ok")
			return
		}
		for _, id := range order[1:] {
			m, err := c20NewMember(net, dir, id, order[0])
			if err != nil {
				c.Violate("harness: member setup", cs, err.Error(), "ok")
				return
			}
			ev := *m.Node
			if err := coord.ReceiveEvent(&NodeEvent{Event: NodeJoin, Node: &ev}); err != nil {
				c.Violate("nodeJoin error on empty cluster", cs+" joining="+id, err.Error(), "nil")
				return
			}
		}
		c.AddEval(1)
		sorted := append([]string(nil), order...)
		sort.Strings(sorted)
		for _, id := range order {
			cl := net.clusters[id]
			if got := strings.Join(cl.nodeIDs(), ","); got != strings.Join(sorted, ",") {
				c.Violate("member list after joins differs from sorted ID set", cs+" on-node="+id, got, strings.Join(sorted, ","))
				return
			}
			t, bad := c20Table(cl, members)
			c.AddEval(2560)
			if bad != "" {
				c.Violate("partitionNodes "+c20Short(bad)+" (after gossip joins)", cs+" on-node="+id, bad, "min(max(r,1),n) distinct members")
				return
			}
			if t != canon[j.k] {
				c.Violate("owners depend on join order or computing node", cs+" on-node="+id, c20FirstDiff(t, canon[j.k]), "same owners as the sorted reference cluster")
				return
			}
		}
		c.Distinct("order " + strings.Join(order, ">"))
		c.Outcome(canon[j.k][:40])
		if ji%97 == 0 {
			c.Sample(cs)
		}
	})
}

func c20FirstDiff(a, b string) string {
	as, bs := strings.Split(a, ";"), strings.Split(b, ";")
	for i := range as {
		if i < len(bs) && as[i] != bs[i] {
			return fmt.Sprintf("replicas=%d partition=%d owners=%s (reference %s)", i/256, i%256, as[i], bs[i])
		}
	}
	return "different length"
}

func TestVerif_C20(t *testing.T) {
	c := vx.NewCheck("C20", "exploration",
		"every non-empty subset of 8 node IDs x ReplicaN 0..9 x 3 construction paths x 256 partitions and (index,shard) pairs covering every partition: owners are min(max(r,1),n) distinct members, independent of the path, and shardNodes/ShardNodes/ownsShard/containsShards/shardsByNode/validateShardOwnership agree with them; every join order of <=6 nodes through ReceiveEvent(NodeJoin)/nodeJoin/mergeClusterStatus on per-node clusters yields the same owners on every node; distinct = (node set, replicas) configurations + join orders")
	c20RunSubsets(c)
	c20RunJoinOrders(c, []string{"n2", "n10", "n1", "N3", "a_b", "a-b"}, "A")
	if c.Thorough() {
		c20RunJoinOrders(c, []string{"z", "0f3e", "n10", "a-b", "n1", "N3"}, "B")
		c20RunJoinOrders(c, []string{"a_b", "z", "n2", "0f3e", "N3", "n10", "a-b"}, "C7") // all orders of up to 7 nodes
	}
	c.AddValidated(c.Evaluations)
	c.Assume("gossip-managed membership (node IDs present); static host lists excluded as the property states; the empty node set is excluded")
	if c.Finish() != 0 {
		t.Fail()
	}
}
