package pilosa_test

// C06, part M — internal cluster messages. External test file (it needs the real protobuf
// serializer, which the root package cannot import). Every type byte 0..255 is combined with: no
// body at all, every truncation of every valid message body, and every OTHER type's valid body, and
// fed to API.ClusterMessage — the function the gossip delegate (gossip.memberSet.NotifyMsg) calls
// from a memberlist goroutine that has no recover: a panic here is a process exit.

import (
	"bytes"
	"context"
	"fmt"
	"time"

	"github.com/pilosa/pilosa"
	"github.com/pilosa/pilosa/encoding/proto"
	"github.com/pilosa/pilosa/internal/vx"
)

func init() { pilosa.C06External = c06ClusterMessages }

func c06Samples() []pilosa.Message {
	uri := pilosa.URI{Scheme: "http", Host: "h", Port: 1}
	node := &pilosa.Node{ID: "n1", URI: uri, State: "READY"}
	return []pilosa.Message{
		&pilosa.CreateShardMessage{Index: "i", Field: "f", Shard: 3},
		&pilosa.CreateIndexMessage{Index: "j", Meta: &pilosa.IndexOptions{Keys: true}},
		&pilosa.DeleteIndexMessage{Index: "j"},
		&pilosa.CreateFieldMessage{Index: "i", Field: "g", Meta: &pilosa.FieldOptions{Type: "set", CacheType: "ranked", CacheSize: 10}},
		&pilosa.DeleteFieldMessage{Index: "i", Field: "g"},
		&pilosa.CreateViewMessage{Index: "i", Field: "f", View: "standard_2019"},
		&pilosa.DeleteViewMessage{Index: "i", Field: "f", View: "standard_2019"},
		&pilosa.ClusterStatus{ClusterID: "c", State: "NORMAL", Nodes: []*pilosa.Node{node}},
		&pilosa.ResizeInstruction{JobID: 7, Node: node, Coordinator: node, Sources: []*pilosa.ResizeSource{{Node: node, Index: "i", Field: "f", View: "standard", Shard: 1}}, NodeStatus: &pilosa.NodeStatus{Node: node}, ClusterStatus: &pilosa.ClusterStatus{ClusterID: "c", State: "RESIZING", Nodes: []*pilosa.Node{node}}},
		&pilosa.ResizeInstructionComplete{JobID: 7, Node: node, Error: ""},
		&pilosa.SetCoordinatorMessage{New: node},
		&pilosa.UpdateCoordinatorMessage{New: node},
		&pilosa.NodeStateMessage{NodeID: "n1", State: "READY"},
		&pilosa.RecalculateCaches{},
		&pilosa.NodeEvent{Event: 0, Node: node},
		&pilosa.NodeStatus{Node: node, Indexes: []*pilosa.IndexStatus{{Name: "i", Fields: []*pilosa.FieldStatus{{Name: "f"}}}}},
		&pilosa.DeleteAvailableShardMessage{Index: "i", Field: "f", ShardID: 3},
	}
}

func c06ClusterMessages(c *vx.Check) {
	ser := proto.Serializer{}
	var bodies [][]byte
	var names []string
	typeOf := map[int]byte{}
	for _, m := range c06Samples() {
		b, err := pilosa.MarshalInternalMessage(m, ser)
		if err != nil {
			c.Violate("marshal-failed "+fmt.Sprintf("%T", m), fmt.Sprintf("%T", m), err.Error(), "encodes")
			continue
		}
		typeOf[len(bodies)] = b[0]
		bodies = append(bodies, b[1:])
		names = append(names, fmt.Sprintf("%T", m))
	}
	type mcase struct {
		typ  int // -1: no type byte at all (empty message)
		body []byte
		desc string
	}
	var cases []mcase
	cases = append(cases, mcase{-1, nil, "empty message (no type byte)"})
	for typ := 0; typ < 256; typ++ {
		cases = append(cases, mcase{typ, nil, fmt.Sprintf("type %d, empty body", typ)})
		for bi, b := range bodies {
			if typ < 40 || typ == 255 {
				cases = append(cases, mcase{typ, b, fmt.Sprintf("type %d with the body of %s", typ, names[bi])})
			}
			if byte(typ) == typeOf[bi] {
				for l := 1; l < len(b); l++ {
					cases = append(cases, mcase{typ, b[:l], fmt.Sprintf("type %d (%s) body truncated to %d/%d", typ, names[bi], l, len(b))})
				}
			}
		}
	}
	c.Bound("cluster_message_cases", len(cases))
	chunk := 400
	c.ProcFor(c.NextRunLabel(), (len(cases)+chunk-1)/chunk, nil, func(_ []byte, ci int, emit func([]byte)) {
		var srv *pilosa.Server
		var api *pilosa.API
		fresh := func() {
			dir := vx.Scratch()
			var err error
			srv, err = pilosa.NewServer(pilosa.OptServerDataDir(dir), pilosa.OptServerNodeID("node0"), pilosa.OptServerIsCoordinator(true),
				pilosa.OptServerSerializer(ser), pilosa.OptServerTranslateFileMapSize(1<<20))
			if err != nil {
				panic(err)
			}
			if err := srv.Open(); err != nil {
				panic(err)
			}
			api, err = pilosa.NewAPI(pilosa.OptAPIServer(srv))
			if err != nil {
				panic(err)
			}
			if _, err := api.CreateIndex(context.Background(), "i", pilosa.IndexOptions{}); err != nil {
				panic(err)
			}
			if _, err := api.CreateField(context.Background(), "i", "f", pilosa.OptFieldTypeDefault()); err != nil {
				panic(err)
			}
		}
		fresh()
		defer func() { srv.Close() }()
		for k := ci * chunk; k < (ci+1)*chunk && k < len(cases); k++ {
			cs := cases[k]
			var msg []byte
			if cs.typ >= 0 {
				msg = append([]byte{byte(cs.typ)}, cs.body...)
			}
			c.AddEval(1)
			done := make(chan string, 1)
			go func() {
				var err error
				pan := vx.Guard(func() { err = api.ClusterMessage(context.Background(), bytes.NewReader(msg)) })
				switch {
				case pan != "":
					done <- pan
				case err != nil:
					done <- "error"
				default:
					done <- "ok"
				}
			}()
			var outcome string
			select {
			case outcome = <-done:
			case <-time.After(90 * time.Second):
				outcome = "HANG"
			}
			cls := outcome
			kind := fmt.Sprintf("type=%d", cs.typ)
			if cs.typ >= 40 && cs.typ < 255 {
				kind = "type=unknown"
			}
			if len(outcome) >= 5 && outcome[:5] == "PANIC" {
				cls = "panic"
				what := "body"
				if cs.body == nil {
					what = "empty-body"
				}
				c.Violate(fmt.Sprintf("panic entry=ClusterMessage %s %s", kind, what), cs.desc, outcome+" (the gossip delegate calls ClusterMessage from a goroutine without recover: the server process exits)", "message rejected with an error")
				vx.Guard(func() { srv.Close() })
				fresh() // state may be half-updated
			} else if outcome == "HANG" {
				c.Violate("hang entry=ClusterMessage "+kind, cs.desc, "handler did not return", "message handled or rejected")
				return
			}
			c.Outcome("ClusterMessage|" + cls)
			c.Distinct(fmt.Sprintf("ClusterMessage|%s|%d", cls, cs.typ))
			if k%701 == 0 {
				c.Sample(cs.desc)
			}
		}
	}, nil)
}
