package pilosa_test

// C06, part M — internal cluster messages. External test file (it needs the real protobuf
// serializer, which the root package cannot import). Every type byte 0..255 is combined with: no
// body at all, every truncation of every valid message body, and every OTHER type's valid body, and
// fed to API.ClusterMessage — the function the gossip delegate (gossip.memberSet.NotifyMsg) calls
// from a memberlist goroutine that has no recover: a panic here is a process exit.

import (
	"bytes"
	"context"
	"fmt"
	"reflect"
	"runtime"
	"time"

	"github.com/pilosa/pilosa"
	"github.com/pilosa/pilosa/encoding/proto"
	"github.com/pilosa/pilosa/internal/vx"
)

func init() { pilosa.C06External = c06ClusterMessages }

// ---- part M2: WELL-FORMED but semantically adversarial messages ---------------------------------
// Every valid sample message is perturbed in ONE field at a time, at the level of the Go message
// structs (found by reflection, so new message fields are covered automatically): every string
// (index, field, view, node id, state ...) becomes a name nobody knows, every number becomes its
// maximum, every pointer and slice becomes nil / empty. Each variant is encoded with the real
// serializer and handed to API.ClusterMessage of a fresh single-node server. Handlers hand work
// to detached goroutines (mergeRemoteStatus, resize followers), so the harness waits for the
// goroutine count to settle before the next case; a worker that dies is attributed through the
// progress file.

type c06Mut struct {
	sample int
	path   []int
	how    string // "ghost" | "max" | "nil" | "empty-string"
}

func c06RichSamples() []pilosa.Message {
	ss := c06Samples()
	uri := pilosa.URI{Scheme: "http", Host: "h2", Port: 2}
	other := &pilosa.Node{ID: "n2", URI: uri, State: "READY"}
	ss = append(ss, &pilosa.NodeStatus{Node: other,
		Indexes: []*pilosa.IndexStatus{{Name: "i", Fields: []*pilosa.FieldStatus{{Name: "f"}}}},
		Schema:  &pilosa.Schema{Indexes: []*pilosa.IndexInfo{{Name: "i", Fields: []*pilosa.FieldInfo{{Name: "f", Options: pilosa.FieldOptions{Type: "set", CacheType: "ranked", CacheSize: 10}}}}}}})
	ss = append(ss, &pilosa.NodeEvent{Event: 1, Node: other}, &pilosa.NodeEvent{Event: 2, Node: other})
	return ss
}

func c06Walk(v reflect.Value, path []int, visit func(path []int, v reflect.Value)) {
	switch v.Kind() {
	case reflect.Ptr:
		if v.IsNil() {
			return
		}
		if len(path) > 0 {
			visit(path, v)
		}
		c06Walk(v.Elem(), path, visit)
	case reflect.Struct:
		for i := 0; i < v.NumField(); i++ {
			if v.Type().Field(i).PkgPath != "" {
				continue // unexported
			}
			c06Walk(v.Field(i), append(append([]int(nil), path...), i), visit)
		}
	case reflect.Slice:
		if v.Len() > 0 {
			visit(path, v)
		}
		for j := 0; j < v.Len(); j++ {
			c06Walk(v.Index(j), append(append([]int(nil), path...), j), visit)
		}
	case reflect.String, reflect.Uint64, reflect.Int64, reflect.Int, reflect.Uint32, reflect.Int32:
		visit(path, v)
	}
}

func c06Navigate(v reflect.Value, path []int) reflect.Value {
	for _, idx := range path {
		for v.Kind() == reflect.Ptr {
			v = v.Elem()
		}
		switch v.Kind() {
		case reflect.Struct:
			v = v.Field(idx)
		case reflect.Slice:
			v = v.Index(idx)
		}
	}
	return v
}

func c06Mutations() []c06Mut {
	var out []c06Mut
	for si, m := range c06RichSamples() {
		c06Walk(reflect.ValueOf(m), nil, func(path []int, v reflect.Value) {
			p := append([]int(nil), path...)
			switch v.Kind() {
			case reflect.String:
				out = append(out, c06Mut{si, p, "ghost"}, c06Mut{si, p, "empty-string"})
			case reflect.Ptr, reflect.Slice:
				out = append(out, c06Mut{si, p, "nil"})
			default:
				out = append(out, c06Mut{si, p, "max"})
			}
		})
	}
	return out
}

func c06ApplyMutation(mu c06Mut) (pilosa.Message, string) {
	m := c06RichSamples()[mu.sample]
	v := c06Navigate(reflect.ValueOf(m), mu.path)
	// describe the path by field names
	desc := fmt.Sprintf("%T", m)
	w := reflect.ValueOf(m)
	for _, idx := range mu.path {
		for w.Kind() == reflect.Ptr {
			w = w.Elem()
		}
		if w.Kind() == reflect.Struct {
			desc += "." + w.Type().Field(idx).Name
			w = w.Field(idx)
		} else {
			desc += fmt.Sprintf("[%d]", idx)
			w = w.Index(idx)
		}
	}
	switch mu.how {
	case "ghost":
		v.SetString("ghost")
	case "empty-string":
		v.SetString("")
	case "nil":
		v.Set(reflect.Zero(v.Type()))
	case "max":
		switch v.Kind() {
		case reflect.Uint64, reflect.Uint32:
			v.SetUint(^uint64(0) >> (64 - uint(v.Type().Bits())))
		default:
			v.SetInt(int64(^uint64(0) >> (65 - uint(v.Type().Bits()))))
		}
	}
	return m, desc + " := " + mu.how
}

func c06Settle(base int) {
	for i := 0; i < 400 && runtime.NumGoroutine() > base; i++ {
		runtime.Gosched()
		if i > 50 {
			time.Sleep(time.Millisecond)
		}
	}
}

func c06WellFormed(c *vx.Check, progDir string) {
	ser := proto.Serializer{}
	muts := c06Mutations()
	c.Bound("cluster_message_field_mutations", len(muts))
	chunk := 8
	c.ProcFor(c.NextRunLabel(), (len(muts)+chunk-1)/chunk, []byte(progDir), func(in []byte, ci int, _ func([]byte)) {
		prog := pilosa.C06Progress(string(in))
		for k := ci * chunk; k < (ci+1)*chunk && k < len(muts); k++ {
			m, desc := c06ApplyMutation(muts[k])
			var msg []byte
			var err error
			// a nil ELEMENT inside a repeated field is not a message the generated encoder can write
			// (it panics): such a variant cannot arrive from a peer and is skipped
			if pan := vx.Guard(func() { msg, err = pilosa.MarshalInternalMessage(m, ser) }); pan != "" || err != nil {
				c.Outcome("ClusterMessage(well-formed)|unencodable")
				continue
			}
			srv, err := pilosa.NewServer(pilosa.OptServerDataDir(vx.Scratch()), pilosa.OptServerNodeID("node0"), pilosa.OptServerIsCoordinator(true),
				pilosa.OptServerSerializer(ser), pilosa.OptServerTranslateFileMapSize(1<<20))
			if err != nil {
				panic(err)
			}
			if err := srv.Open(); err != nil {
				panic(err)
			}
			api, err := pilosa.NewAPI(pilosa.OptAPIServer(srv))
			if err != nil {
				panic(err)
			}
			if _, err := api.CreateIndex(context.Background(), "i", pilosa.IndexOptions{}); err != nil {
				panic(err)
			}
			if _, err := api.CreateField(context.Background(), "i", "f", pilosa.OptFieldTypeDefault()); err != nil {
				panic(err)
			}
			if _, err := api.Query(context.Background(), &pilosa.QueryRequest{Index: "i", Query: "Set(1, f=1)"}); err != nil {
				panic(err)
			}
			c06Settle(0) // let start-up goroutines reach their steady state
			base := runtime.NumGoroutine()
			prog("ClusterMessage(well-formed) <- " + desc)
			c.AddEval(1)
			var herr error
			pan := vx.Guard(func() { herr = api.ClusterMessage(context.Background(), bytes.NewReader(msg)) })
			c06Settle(base)
			cls := "ok"
			switch {
			case pan != "":
				cls = "panic"
				c.Violate(fmt.Sprintf("panic entry=ClusterMessage(well-formed) message=%T", m), desc, pan+" (the gossip delegate calls ClusterMessage from a goroutine without recover: the server process exits)", "message handled or rejected with an error")
			case herr != nil:
				cls = "error"
			}
			// the node must still serve afterwards (no lock left held)
			done := make(chan struct{})
			go func() {
				defer close(done)
				vx.Guard(func() { api.Query(context.Background(), &pilosa.QueryRequest{Index: "i", Query: "Count(Row(f=1))"}) })
				vx.Guard(func() { api.Schema(context.Background()) })
			}()
			select {
			case <-done:
			case <-time.After(90 * time.Second):
				c.Violate(fmt.Sprintf("lock-not-released entry=ClusterMessage(well-formed) message=%T", m), desc, "follow-up query / schema read did not complete", "served")
				return
			}
			c.Outcome("ClusterMessage(well-formed)|" + cls)
			c.Distinct(fmt.Sprintf("ClusterMessage(well-formed)|%s|%T|%s", cls, m, muts[k].how))
			if k%41 == 0 {
				c.Sample(desc)
			}
			// a join/leave event legitimately starts a resize job that waits for the other nodes, and
			// Server.Close waits for that job: end it the way an operator would, and do not let the
			// harness wait on Close for ever (the worker process exits at the end of its share)
			vx.Guard(func() { api.ResizeAbort() })
			closed := make(chan struct{})
			go func() { vx.Guard(func() { srv.Close() }); close(closed) }()
			select {
			case <-closed:
			case <-time.After(5 * time.Second):
				c.Outcome("ClusterMessage(well-formed)|server-close-abandoned")
			}
		}
		prog("done")
	}, nil)
}

func c06Samples() []pilosa.Message {
	uri := pilosa.URI{Scheme: "http", Host: "h", Port: 1}
	node := &pilosa.Node{ID: "n1", URI: uri, State: "READY"}
	return []pilosa.Message{
		&pilosa.CreateShardMessage{Index: "i", Field: "f", Shard: 3},
		&pilosa.CreateIndexMessage{Index: "j", Meta: &pilosa.IndexOptions{Keys: true}},
		&pilosa.DeleteIndexMessage{Index: "j"},
		&pilosa.CreateFieldMessage{Index: "i", Field: "g", Meta: &pilosa.FieldOptions{Type: "set", CacheType: "ranked", CacheSize: 10}},
		&pilosa.DeleteFieldMessage{Index: "i", Field: "g"},
		&pilosa.CreateViewMessage{Index: "i", Field: "f", View: "standard_2019"},
		&pilosa.DeleteViewMessage{Index: "i", Field: "f", View: "standard_2019"},
		&pilosa.ClusterStatus{ClusterID: "c", State: "NORMAL", Nodes: []*pilosa.Node{node}},
		&pilosa.ResizeInstruction{JobID: 7, Node: node, Coordinator: node, Sources: []*pilosa.ResizeSource{{Node: node, Index: "i", Field: "f", View: "standard", Shard: 1}}, NodeStatus: &pilosa.NodeStatus{Node: node}, ClusterStatus: &pilosa.ClusterStatus{ClusterID: "c", State: "RESIZING", Nodes: []*pilosa.Node{node}}},
		&pilosa.ResizeInstructionComplete{JobID: 7, Node: node, Error: ""},
		&pilosa.SetCoordinatorMessage{New: node},
		&pilosa.UpdateCoordinatorMessage{New: node},
		&pilosa.NodeStateMessage{NodeID: "n1", State: "READY"},
		&pilosa.RecalculateCaches{},
		&pilosa.NodeEvent{Event: 0, Node: node},
		&pilosa.NodeStatus{Node: node, Indexes: []*pilosa.IndexStatus{{Name: "i", Fields: []*pilosa.FieldStatus{{Name: "f"}}}}},
		&pilosa.DeleteAvailableShardMessage{Index: "i", Field: "f", ShardID: 3},
	}
}

func c06ClusterMessages(c *vx.Check, progDir string) {
	defer c06WellFormed(c, progDir)
	ser := proto.Serializer{}
	var bodies [][]byte
	var names []string
	typeOf := map[int]byte{}
	for _, m := range c06Samples() {
		b, err := pilosa.MarshalInternalMessage(m, ser)
		if err != nil {
			c.Violate("marshal-failed "+fmt.Sprintf("%T", m), fmt.Sprintf("%T", m), err.Error(), "encodes")
			continue
		}
		typeOf[len(bodies)] = b[0]
		bodies = append(bodies, b[1:])
		names = append(names, fmt.Sprintf("%T", m))
	}
	type mcase struct {
		typ  int // -1: no type byte at all (empty message)
		body []byte
		desc string
	}
	var cases []mcase
	cases = append(cases, mcase{-1, nil, "empty message (no type byte)"})
	for typ := 0; typ < 256; typ++ {
		cases = append(cases, mcase{typ, nil, fmt.Sprintf("type %d, empty body", typ)})
		for bi, b := range bodies {
			if typ < 40 || typ == 255 {
				cases = append(cases, mcase{typ, b, fmt.Sprintf("type %d with the body of %s", typ, names[bi])})
			}
			if byte(typ) == typeOf[bi] {
				for l := 1; l < len(b); l++ {
					cases = append(cases, mcase{typ, b[:l], fmt.Sprintf("type %d (%s) body truncated to %d/%d", typ, names[bi], l, len(b))})
				}
			}
		}
	}
	c.Bound("cluster_message_cases", len(cases))
	chunk := 400
	c.ProcFor(c.NextRunLabel(), (len(cases)+chunk-1)/chunk, nil, func(_ []byte, ci int, emit func([]byte)) {
		var srv *pilosa.Server
		var api *pilosa.API
		fresh := func() {
			dir := vx.Scratch()
			var err error
			srv, err = pilosa.NewServer(pilosa.OptServerDataDir(dir), pilosa.OptServerNodeID("node0"), pilosa.OptServerIsCoordinator(true),
				pilosa.OptServerSerializer(ser), pilosa.OptServerTranslateFileMapSize(1<<20))
			if err != nil {
				panic(err)
			}
			if err := srv.Open(); err != nil {
				panic(err)
			}
			api, err = pilosa.NewAPI(pilosa.OptAPIServer(srv))
			if err != nil {
				panic(err)
			}
			if _, err := api.CreateIndex(context.Background(), "i", pilosa.IndexOptions{}); err != nil {
				panic(err)
			}
			if _, err := api.CreateField(context.Background(), "i", "f", pilosa.OptFieldTypeDefault()); err != nil {
				panic(err)
			}
		}
		fresh()
		defer func() { srv.Close() }()
		for k := ci * chunk; k < (ci+1)*chunk && k < len(cases); k++ {
			cs := cases[k]
			var msg []byte
			if cs.typ >= 0 {
				msg = append([]byte{byte(cs.typ)}, cs.body...)
			}
			c.AddEval(1)
			done := make(chan string, 1)
			go func() {
				var err error
				pan := vx.Guard(func() { err = api.ClusterMessage(context.Background(), bytes.NewReader(msg)) })
				switch {
				case pan != "":
					done <- pan
				case err != nil:
					done <- "error"
				default:
					done <- "ok"
				}
			}()
			var outcome string
			select {
			case outcome = <-done:
			case <-time.After(90 * time.Second):
				outcome = "HANG"
			}
			cls := outcome
			kind := fmt.Sprintf("type=%d", cs.typ)
			if cs.typ >= 40 && cs.typ < 255 {
				kind = "type=unknown"
			}
			if len(outcome) >= 5 && outcome[:5] == "PANIC" {
				cls = "panic"
				what := "body"
				if cs.body == nil {
					what = "empty-body"
				}
				c.Violate(fmt.Sprintf("panic entry=ClusterMessage %s %s", kind, what), cs.desc, outcome+" (the gossip delegate calls ClusterMessage from a goroutine without recover: the server process exits)", "message rejected with an error")
				vx.Guard(func() { srv.Close() })
				fresh() // state may be half-updated
			} else if outcome == "HANG" {
				c.Violate("hang entry=ClusterMessage "+kind, cs.desc, "handler did not return", "message handled or rejected")
				return
			}
			c.Outcome("ClusterMessage|" + cls)
			c.Distinct(fmt.Sprintf("ClusterMessage|%s|%d", cls, cs.typ))
			if k%701 == 0 {
				c.Sample(cs.desc)
			}
		}
	}, nil)
}
