package pilosa_test

// C08 — Data and schema survive a clean restart unchanged.
//
// A real pilosa.Server (real Holder, boltdb attribute stores, translate file, executor; single static node, no
// listener) is driven through its real API. For every configuration of the option lattice (index keys /
// existence tracking x field type and options) EVERY history of schema and data operations up to the bound is
// executed on a fresh data directory, with a clean restart (Server.Close + NewServer + Open on the same
// directory) after the last operation and, in a second pass, after every operation. Oracle: the observation
// battery (public schema with options, views, available shards, and a fixed set of queries incl. stored
// integers, time ranges, key translations, attributes, TopN after RecalculateCaches) taken right before the
// Close must be identical right after the Open.

import (
	"io"
	"context"
	"crypto/sha1"
	"encoding/json"
	"fmt"
	"os"
	"runtime/debug"
	"sort"
	"strings"
	"testing"

	"github.com/pilosa/pilosa"
	"github.com/pilosa/pilosa/boltdb"
	"github.com/pilosa/pilosa/encoding/proto"
	"github.com/pilosa/pilosa/internal/vx"
)

type c08Config struct {
	Core           bool // explored one operation deeper than the rest
	IdxKeys, Exist bool
	Type           string // set mutex bool time int
	CacheType      string
	CacheSize      uint32
	Quantum        string
	NoStd          bool
	Min, Max       int64
	FKeys          bool
}

func (cf c08Config) String() string {
	s := fmt.Sprintf("index(keys=%v,trackExistence=%v) field=%s", cf.IdxKeys, cf.Exist, cf.Type)
	switch cf.Type {
	case "set", "mutex":
		s += fmt.Sprintf("(cache=%s/%d)", cf.CacheType, cf.CacheSize)
	case "time":
		s += fmt.Sprintf("(quantum=%s,noStandardView=%v)", cf.Quantum, cf.NoStd)
	case "int":
		s += fmt.Sprintf("(min=%d,max=%d)", cf.Min, cf.Max)
	}
	if cf.FKeys {
		s += "+keys"
	}
	return s
}

// class is the coarse configuration class used in finding keys.
func (cf c08Config) class() string {
	s := cf.Type
	switch cf.Type {
	case "set", "mutex":
		s += "/" + cf.CacheType
	case "time":
		if cf.NoStd {
			s += "/noStandardView"
		}
	case "int":
		switch {
		case cf.Min > 0:
			s += "/min>0"
		case cf.Min < 0 && cf.Max < 0:
			s += "/max<0"
		case cf.Min < 0:
			s += "/min<0<max"
		default:
			s += "/min=0"
		}
	}
	if cf.FKeys {
		s += "+fieldkeys"
	}
	if cf.IdxKeys {
		s += "+indexkeys"
	}
	return s
}

func (cf c08Config) fieldOpts() []pilosa.FieldOption {
	var o []pilosa.FieldOption
	switch cf.Type {
	case "set":
		o = append(o, pilosa.OptFieldTypeSet(cf.CacheType, cf.CacheSize))
	case "mutex":
		o = append(o, pilosa.OptFieldTypeMutex(cf.CacheType, cf.CacheSize))
	case "bool":
		o = append(o, pilosa.OptFieldTypeBool())
	case "time":
		o = append(o, pilosa.OptFieldTypeTime(pilosa.TimeQuantum(cf.Quantum), cf.NoStd))
	case "int":
		o = append(o, pilosa.OptFieldTypeInt(cf.Min, cf.Max))
	}
	if cf.FKeys {
		o = append(o, pilosa.OptFieldKeys())
	}
	return o
}

func c08Configs(thorough bool) []c08Config {
	var fields []c08Config
	fields = append(fields,
		c08Config{Type: "set", CacheType: "ranked", CacheSize: 50000},
		c08Config{Type: "set", CacheType: "ranked", CacheSize: 1},
		c08Config{Type: "set", CacheType: "lru", CacheSize: 100},
		c08Config{Type: "set", CacheType: "none", CacheSize: 0},
		c08Config{Type: "set", CacheType: "ranked", CacheSize: 50000, FKeys: true},
		c08Config{Type: "mutex", CacheType: "ranked", CacheSize: 50000},
		c08Config{Type: "mutex", CacheType: "lru", CacheSize: 100, FKeys: true},
		c08Config{Type: "bool"},
	)
	for _, q := range []string{"Y", "YMD", "MDH"} {
		for _, ns := range []bool{false, true} {
			fields = append(fields, c08Config{Type: "time", Quantum: q, NoStd: ns})
		}
	}
	fields = append(fields, c08Config{Type: "time", Quantum: "YMDH", FKeys: true})
	for _, mm := range [][2]int64{{0, 0}, {0, 100}, {10, 20}, {-20, -10}, {-5, 5}} {
		fields = append(fields, c08Config{Type: "int", Min: mm[0], Max: mm[1]})
	}
	var out []c08Config
	for _, f := range fields {
		f.Exist = true
		f.Core = (f.Type == "set" && (f.CacheSize == 50000 || f.CacheType == "none")) || f.Type == "mutex" && !f.FKeys || f.Type == "bool" ||
			(f.Type == "time" && (f.Quantum == "YMD" && !f.NoStd || f.Quantum == "Y" && f.NoStd || f.FKeys)) || (f.Type == "int" && f.Max != 0)
		out = append(out, f)
	}
	idxVariants := [][2]bool{{true, true}, {false, false}, {true, false}}
	for _, iv := range idxVariants {
		for _, f := range fields {
			basic := (f.Type == "set" && f.CacheType == "ranked" && f.CacheSize == 50000) || (f.Type == "int" && f.Min == -5) || (f.Type == "time" && f.Quantum == "YMD" && !f.NoStd)
			if thorough || basic {
				f.IdxKeys, f.Exist = iv[0], iv[1]
				f.Core = basic && iv[0] && iv[1]
				out = append(out, f)
			}
		}
	}
	return out
}

// ---- the instance -----------------------------------------------------------------------------------

type c08Inst struct {
	cf  c08Config
	dir string
	srv *pilosa.Server
	api *pilosa.API

	lastBattery string
	seen        []string // digests of the batteries observed at the restart points (evidence only)
}

// c08Loop is the node's InternalClient: with key translation the API forwards every import to the shard
// owner THROUGH the internal client even on a single node (api.Import: "if local node owns this shard we
// don't need to go through the client" is a TODO). Without a transport those imports would silently do
// nothing; this loop-back hands them to the same API the HTTP handler would call. Everything else a
// single static node never sends is a no-op.
type c08Loop struct{ in *c08Inst }

func (l c08Loop) Import(ctx context.Context, index, field string, shard uint64, bits []pilosa.Bit, opts ...pilosa.ImportOption) error {
	req := &pilosa.ImportRequest{Index: index, Field: field, Shard: shard}
	ts := false
	for _, b := range bits {
		req.RowIDs = append(req.RowIDs, b.RowID)
		req.ColumnIDs = append(req.ColumnIDs, b.ColumnID)
		req.Timestamps = append(req.Timestamps, b.Timestamp)
		ts = ts || b.Timestamp != 0
	}
	if !ts {
		req.Timestamps = nil
	}
	return l.in.api.Import(ctx, req, opts...)
}
func (l c08Loop) ImportValue(ctx context.Context, index, field string, shard uint64, vals []pilosa.FieldValue, opts ...pilosa.ImportOption) error {
	req := &pilosa.ImportValueRequest{Index: index, Field: field, Shard: shard}
	for _, v := range vals {
		req.ColumnIDs = append(req.ColumnIDs, v.ColumnID)
		req.Values = append(req.Values, v.Value)
	}
	return l.in.api.ImportValue(ctx, req, opts...)
}
func (l c08Loop) ImportK(ctx context.Context, index, field string, bits []pilosa.Bit, opts ...pilosa.ImportOption) error {
	return nil
}
func (l c08Loop) ImportValueK(ctx context.Context, index, field string, vals []pilosa.FieldValue, opts ...pilosa.ImportOption) error {
	return nil
}
func (l c08Loop) MaxShardByIndex(context.Context) (map[string]uint64, error) { return nil, nil }
func (l c08Loop) Schema(ctx context.Context) ([]*pilosa.IndexInfo, error)      { return nil, nil }
func (l c08Loop) PostSchema(ctx context.Context, uri *pilosa.URI, s *pilosa.Schema, remote bool) error {
	return nil
}
func (l c08Loop) CreateIndex(ctx context.Context, index string, opt pilosa.IndexOptions) error { return nil }
func (l c08Loop) FragmentNodes(ctx context.Context, index string, shard uint64) ([]*pilosa.Node, error) {
	return nil, nil
}
func (l c08Loop) Nodes(ctx context.Context) ([]*pilosa.Node, error) { return nil, nil }
func (l c08Loop) Query(ctx context.Context, index string, queryRequest *pilosa.QueryRequest) (*pilosa.QueryResponse, error) {
	return nil, nil
}
func (l c08Loop) QueryNode(ctx context.Context, uri *pilosa.URI, index string, queryRequest *pilosa.QueryRequest) (*pilosa.QueryResponse, error) {
	return nil, nil
}
func (l c08Loop) EnsureIndex(ctx context.Context, name string, options pilosa.IndexOptions) error { return nil }
func (l c08Loop) EnsureField(ctx context.Context, indexName string, fieldName string) error      { return nil }
func (l c08Loop) EnsureFieldWithOptions(ctx context.Context, index, field string, opt pilosa.FieldOptions) error {
	return nil
}
func (l c08Loop) ExportCSV(ctx context.Context, index, field string, shard uint64, w io.Writer) error {
	return nil
}
func (l c08Loop) CreateField(ctx context.Context, index, field string) error { return nil }
func (l c08Loop) CreateFieldWithOptions(ctx context.Context, index, field string, opt pilosa.FieldOptions) error {
	return nil
}
func (l c08Loop) FragmentBlocks(ctx context.Context, uri *pilosa.URI, index, field, view string, shard uint64) ([]pilosa.FragmentBlock, error) {
	return nil, nil
}
func (l c08Loop) BlockData(ctx context.Context, uri *pilosa.URI, index, field, view string, shard uint64, block int) ([]uint64, []uint64, error) {
	return nil, nil, nil
}
func (l c08Loop) ColumnAttrDiff(ctx context.Context, uri *pilosa.URI, index string, blks []pilosa.AttrBlock) (map[uint64]map[string]interface{}, error) {
	return nil, nil
}
func (l c08Loop) RowAttrDiff(ctx context.Context, uri *pilosa.URI, index, field string, blks []pilosa.AttrBlock) (map[uint64]map[string]interface{}, error) {
	return nil, nil
}
func (l c08Loop) SendMessage(ctx context.Context, uri *pilosa.URI, msg []byte) error { return nil }
func (l c08Loop) RetrieveShardFromURI(ctx context.Context, index, field, view string, shard uint64, uri pilosa.URI) (io.ReadCloser, error) {
	return nil, nil
}
func (l c08Loop) ImportRoaring(ctx context.Context, uri *pilosa.URI, index, field string, shard uint64, remote bool, req *pilosa.ImportRoaringRequest) error {
	return nil
}

func (in *c08Inst) open() error {
	uri, _ := pilosa.NewURIFromAddress("localhost:10101")
	s, err := pilosa.NewServer(pilosa.OptServerDataDir(in.dir), pilosa.OptServerAttrStoreFunc(boltdb.NewAttrStore),
		pilosa.OptServerNodeID("n0"), pilosa.OptServerIsCoordinator(true), pilosa.OptServerURI(uri),
		pilosa.OptServerClusterDisabled(true, nil), pilosa.OptServerSerializer(proto.Serializer{}),
		pilosa.OptServerInternalClient(c08Loop{in}))
	if err != nil {
		return err
	}
	if err := s.Open(); err != nil {
		return err
	}
	api, err := pilosa.NewAPI(pilosa.OptAPIServer(s))
	if err != nil {
		return err
	}
	in.srv, in.api = s, api
	return nil
}

func (in *c08Inst) close() error {
	if in.srv == nil {
		return nil
	}
	in.api.Close()
	err := in.srv.Close()
	in.srv, in.api = nil, nil
	return err
}

func c08New(cf c08Config) *c08Inst {
	in := &c08Inst{cf: cf, dir: vx.Scratch()}
	if err := in.open(); err != nil {
		panic(err)
	}
	in.do("mkI")
	in.do("mkF")
	return in
}

func (in *c08Inst) destroy() {
	in.close()
	os.RemoveAll(in.dir)
}

// identifiers as PQL literals
func (in *c08Inst) col(k int) string {
	if in.cf.IdxKeys {
		return fmt.Sprintf("%q", []string{"ca", "cb", "cc"}[k])
	}
	return fmt.Sprint([]uint64{3, pilosa.ShardWidth + 1, 2*pilosa.ShardWidth + 5}[k])
}

func (in *c08Inst) row(k int) string {
	switch {
	case in.cf.Type == "bool":
		return []string{"true", "false"}[k]
	case in.cf.FKeys:
		return fmt.Sprintf("%q", []string{"rx", "ry"}[k])
	}
	return fmt.Sprint([]uint64{1, 200}[k])
}

var c08Times = []string{"2018-03-04T05:00", "2019-12-31T23:00"}

func (in *c08Inst) intVals() []int64 {
	cf := in.cf
	mid := int64(0)
	if cf.Min > 0 || cf.Max < 0 {
		mid = (cf.Min + cf.Max) / 2
	}
	return []int64{cf.Min, mid, cf.Max}
}

// c08Canon orders TopN pairs by (count desc, id, key): the order of entries with equal counts is unspecified.
func c08Canon(v interface{}) interface{} {
	if p, ok := v.([]pilosa.Pair); ok {
		q := append([]pilosa.Pair(nil), p...)
		sort.SliceStable(q, func(i, j int) bool {
			if q[i].Count != q[j].Count {
				return q[i].Count > q[j].Count
			}
			if q[i].ID != q[j].ID {
				return q[i].ID < q[j].ID
			}
			return q[i].Key < q[j].Key
		})
		return q
	}
	return v
}

func (in *c08Inst) q(pql string) string {
	resp, err := in.api.Query(context.Background(), &pilosa.QueryRequest{Index: "i", Query: pql})
	if err != nil {
		return "ERR " + err.Error()
	}
	for k := range resp.Results {
		resp.Results[k] = c08Canon(resp.Results[k])
	}
	b, err := json.Marshal(&resp)
	if err != nil {
		return "MARSHAL-ERR " + err.Error()
	}
	return string(b)
}

// do applies one history operation through the real API. Errors (e.g. creating what exists) are part of the
// history, not of the oracle.
func (in *c08Inst) do(op string) string {
	ctx := context.Background()
	cf := in.cf
	e := func(err error) string {
		if err != nil {
			return "ERR " + err.Error()
		}
		return "ok"
	}
	switch op {
	case "mkI":
		_, err := in.api.CreateIndex(ctx, "i", pilosa.IndexOptions{Keys: cf.IdxKeys, TrackExistence: cf.Exist})
		return e(err)
	case "delI":
		return e(in.api.DeleteIndex(ctx, "i"))
	case "mkF":
		_, err := in.api.CreateField(ctx, "i", "f", cf.fieldOpts()...)
		return e(err)
	case "delF":
		return e(in.api.DeleteField(ctx, "i", "f"))
	case "mkG":
		_, err := in.api.CreateField(ctx, "i", "g", pilosa.OptFieldTypeSet("ranked", 50000))
		return e(err)
	case "delG":
		return e(in.api.DeleteField(ctx, "i", "g"))
	case "w1":
		if cf.Type == "int" {
			return in.q(fmt.Sprintf("Set(%s, f=%d)", in.col(0), in.intVals()[0]))
		}
		if cf.Type == "time" {
			return in.q(fmt.Sprintf("Set(%s, f=%s, %s)", in.col(0), in.row(0), c08Times[0]))
		}
		return in.q(fmt.Sprintf("Set(%s, f=%s)", in.col(0), in.row(0)))
	case "w2":
		if cf.Type == "int" {
			return in.q(fmt.Sprintf("Set(%s, f=%d)", in.col(1), in.intVals()[1]))
		}
		if cf.Type == "time" {
			return in.q(fmt.Sprintf("Set(%s, f=%s, %s)", in.col(1), in.row(1), c08Times[1]))
		}
		return in.q(fmt.Sprintf("Set(%s, f=%s)", in.col(1), in.row(1)))
	case "w3":
		if cf.Type == "int" {
			return in.q(fmt.Sprintf("Set(%s, f=%d)", in.col(0), in.intVals()[2]))
		}
		// same column, other row (mutex/bool: replaces; set/time: second row)
		return in.q(fmt.Sprintf("Set(%s, f=%s)", in.col(0), in.row(1)))
	case "clr":
		if cf.Type == "int" {
			return in.q(fmt.Sprintf("Set(%s, g=7)", in.col(2))) // a write to the other field
		}
		return in.q(fmt.Sprintf("Clear(%s, f=%s)", in.col(0), in.row(0)))
	case "imp":
		if cf.Type == "int" {
			req := &pilosa.ImportValueRequest{Index: "i", Field: "f", Shard: 0, Values: []int64{in.intVals()[1], in.intVals()[2]}}
			if cf.IdxKeys {
				req.ColumnKeys = []string{"ca", "cc"}
			} else {
				req.ColumnIDs = []uint64{3, 4}
			}
			return e(in.api.ImportValue(ctx, req))
		}
		req := &pilosa.ImportRequest{Index: "i", Field: "f", Shard: 0}
		if cf.IdxKeys {
			req.ColumnKeys = []string{"ca", "cc"}
		} else {
			req.ColumnIDs = []uint64{3, 4}
		}
		switch {
		case cf.Type == "bool":
			req.RowIDs = []uint64{1, 0}
		case cf.FKeys:
			req.RowKeys = []string{"rx", "ry"}
		default:
			req.RowIDs = []uint64{1, 200}
		}
		if cf.Type == "time" {
			req.Timestamps = []int64{1520139600 * 1e9, 0} // 2018-03-04T05:00 in ns, and no timestamp
		}
		// the first pair once more at the end: with keys, a batch that repeats a NEW key after a newer
		// one (ids 1,2,1 in one translate-log entry)
		if len(req.RowKeys) > 0 {
			req.RowKeys = append(req.RowKeys, req.RowKeys[0])
		} else {
			req.RowIDs = append(req.RowIDs, req.RowIDs[0])
		}
		if len(req.ColumnKeys) > 0 {
			req.ColumnKeys = append(req.ColumnKeys, req.ColumnKeys[0])
		} else {
			req.ColumnIDs = append(req.ColumnIDs, req.ColumnIDs[0])
		}
		if len(req.Timestamps) > 0 {
			req.Timestamps = append(req.Timestamps, req.Timestamps[0])
		}
		return e(in.api.Import(ctx, req))
	case "rattr":
		if cf.Type == "int" || cf.Type == "bool" {
			return in.q(fmt.Sprintf(`SetColumnAttrs(%s, n=2)`, in.col(1)))
		}
		return in.q(fmt.Sprintf(`SetRowAttrs(f, %s, a=1, b="s", c=true)`, in.row(0)))
	case "cattr":
		return in.q(fmt.Sprintf(`SetColumnAttrs(%s, x=1.5, y="t")`, in.col(0)))
	case "rattrDel":
		// a null-only update: removes one attribute and leaves the others of the same id in place
		if cf.Type == "int" || cf.Type == "bool" {
			return in.q(fmt.Sprintf(`SetColumnAttrs(%s, n=null)`, in.col(1)))
		}
		return in.q(fmt.Sprintf(`SetRowAttrs(f, %s, b=null)`, in.row(0)))
	case "cattrDel":
		return in.q(fmt.Sprintf(`SetColumnAttrs(%s, y=null)`, in.col(0)))
	}
	panic("c08: unknown op " + op)
}

// battery observes everything the statement names, line by line ("label\tvalue").
func (in *c08Inst) battery() []string {
	ctx := context.Background()
	cf := in.cf
	var out []string
	add := func(label, v string) { out = append(out, label+"\t"+v) }
	if err := in.api.RecalculateCaches(ctx); err != nil {
		add("recalculate", "ERR "+err.Error())
	}
	// public schema: indexes + options, fields + options
	for _, ii := range in.api.Schema(ctx) {
		add("index-options "+ii.Name, fmt.Sprintf("keys=%v trackExistence=%v", ii.Options.Keys, ii.Options.TrackExistence))
		for _, fi := range ii.Fields {
			o := fi.Options
			add("field-options "+ii.Name+"/"+fi.Name, fmt.Sprintf("Type=%s CacheType=%s CacheSize=%d Min=%d Max=%d Base=%d BitDepth=%d TimeQuantum=%s Keys=%v NoStandardView=%v",
				o.Type, o.CacheType, o.CacheSize, o.Min, o.Max, o.Base, o.BitDepth, o.TimeQuantum, o.Keys, o.NoStandardView))
		}
	}
	// views of every field (incl. internal fields: names and views only)
	for _, ii := range in.srv.Holder().Schema() {
		for _, fi := range ii.Fields {
			var vs []string
			for _, v := range fi.Views {
				vs = append(vs, v.Name)
			}
			sort.Strings(vs)
			add("views "+ii.Name+"/"+fi.Name, strings.Join(vs, ","))
		}
	}
	av := in.api.AvailableShardsByIndex(ctx)
	var names []string
	for n := range av {
		names = append(names, n)
	}
	sort.Strings(names)
	for _, n := range names {
		add("available-shards "+n, fmt.Sprint(av[n].Slice()))
	}
	if idx := in.srv.Holder().Index("i"); idx != nil {
		for _, f := range idx.Fields() {
			add("available-shards i/"+f.Name(), fmt.Sprint(f.AvailableShards().Slice()))
		}
	}
	// all plain read calls go into ONE multi-call request (one PQL parse); if the request as a whole fails
	// (a call on a deleted field, TopN without cache ...) every call is asked on its own so that each one is
	// still observed individually.
	type bq struct{ label, pql string }
	var batch []bq
	Q := func(label, pql string) { batch = append(batch, bq{label, pql}) }
	flush := func() {
		var all []string
		for _, b := range batch {
			all = append(all, b.pql)
		}
		resp, err := in.api.Query(ctx, &pilosa.QueryRequest{Index: "i", Query: strings.Join(all, " ")})
		if err == nil && len(resp.Results) == len(batch) {
			for k, b := range batch {
				one := pilosa.QueryResponse{Results: []interface{}{c08Canon(resp.Results[k])}}
				js, jerr := json.Marshal(&one)
				if jerr != nil {
					js = []byte("MARSHAL-ERR " + jerr.Error())
				}
				add("query "+b.label, string(js))
			}
		} else {
			for _, b := range batch {
				add("query "+b.label, in.q(b.pql))
			}
		}
		batch = nil
	}
	// which of the fields exist (as reported by the public schema; a schema difference is reported by the
	// schema lines above) decides which calls are asked at all
	hasF, hasG, fCache := false, false, ""
	for _, ii := range in.api.Schema(ctx) {
		if ii.Name != "i" {
			continue
		}
		for _, fi := range ii.Fields {
			if fi.Name == "f" {
				hasF, fCache = true, fi.Options.CacheType
			}
			if fi.Name == "g" {
				hasG = true
			}
		}
	}
	var attrRows []string // rows whose columns' attributes are fetched
	if hasF {
		switch cf.Type {
		case "int":
			Q("Sum", "Sum(field=f)")
			Q("Min", "Min(field=f)")
			Q("Max", "Max(field=f)")
			Q("Row(f != null)", "Row(f != null)")
			seen := map[int64]bool{}
			for _, v := range append(in.intVals(), in.intVals()[0]+1, in.intVals()[2]-1) {
				if v < cf.Min || v > cf.Max || seen[v] {
					continue
				}
				seen[v] = true
				Q("Row(f == v)", fmt.Sprintf("Row(f == %d)", v))
			}
			Q("Row(f > mid)", fmt.Sprintf("Row(f > %d)", in.intVals()[1]))
			Q("Row(f < mid)", fmt.Sprintf("Row(f < %d)", in.intVals()[1]))
			attrRows = append(attrRows, "Row(f != null)")
		default:
			for k := 0; k < 2; k++ {
				Q("Row", fmt.Sprintf("Row(f=%s)", in.row(k)))
				Q("Count(Row)", fmt.Sprintf("Count(Row(f=%s))", in.row(k)))
				attrRows = append(attrRows, fmt.Sprintf("Row(f=%s)", in.row(k)))
			}
			Q("Rows", "Rows(f)")
			if fCache != "none" && fCache != "" {
				Q("TopN", "TopN(f, n=5)")
			}
			if cf.Exist {
				Q("Not(Row)", fmt.Sprintf("Not(Row(f=%s))", in.row(0)))
			}
			if cf.Type == "time" {
				for _, r := range [][2]string{{"2018-01-01T00:00", "2019-01-01T00:00"}, {"2018-03-04T05:00", "2018-03-04T06:00"}, {"2019-12-31T00:00", "2020-01-01T00:00"}} {
					Q("Row(time-range)", fmt.Sprintf("Row(f=%s, from='%s', to='%s')", in.row(0), r[0], r[1]))
					Q("Row(time-range)", fmt.Sprintf("Row(f=%s, from='%s', to='%s')", in.row(1), r[0], r[1]))
					Q("Rows(time-range)", fmt.Sprintf("Rows(f, from='%s', to='%s')", r[0], r[1]))
				}
			}
		}
	}
	if hasG {
		Q("Row(g)", "Row(g=7)")
		attrRows = append(attrRows, "Row(g=7)")
	}
	if len(batch) > 0 {
		flush()
	}
	if len(attrRows) > 0 {
		u := attrRows[0]
		if len(attrRows) > 1 {
			u = "Union(" + strings.Join(attrRows, ", ") + ")"
		}
		add("query Options(columnAttrs)", in.q("Options("+u+", columnAttrs=true)"))
	}
	return out
}

// restart = clean Close + Open on the same directory; returns (after, before) as comparable strings.
func (in *c08Inst) restart() (got, want string) {
	before := in.battery()
	in.lastBattery = strings.Join(before, "\n")
	if err := in.close(); err != nil {
		return "CLOSE-ERROR " + err.Error(), strings.Join(before, "\n")
	}
	if err := in.open(); err != nil {
		in.srv, in.api = nil, nil
		return "OPEN-ERROR " + err.Error(), strings.Join(before, "\n")
	}
	after := in.battery()
	return strings.Join(after, "\n"), strings.Join(before, "\n")
}

// ---- classification ---------------------------------------------------------------------------------

// c08Diff names what changed across the restart: the label class of the first differing battery line and, for
// option lines, the option names that differ.
func c08Diff(got, want string) (what, gotLine, wantLine string) {
	if strings.HasPrefix(got, "OPEN-ERROR") || strings.HasPrefix(got, "CLOSE-ERROR") {
		return strings.SplitN(got, " ", 2)[0], got, "restart succeeds"
	}
	g, w := strings.Split(got, "\n"), strings.Split(want, "\n")
	gm := map[string][]string{}
	for _, l := range g {
		p := strings.SplitN(l, "\t", 2)
		gm[p[0]] = append(gm[p[0]], p[len(p)-1])
	}
	used := map[string]int{}
	for _, l := range w {
		p := strings.SplitN(l, "\t", 2)
		label, val := p[0], p[len(p)-1]
		i := used[label]
		used[label]++
		if i >= len(gm[label]) {
			return c08LabelClass(label) + "(missing-after-restart)", "<absent>", l
		}
		if gm[label][i] != val {
			what = c08LabelClass(label)
			if strings.HasPrefix(label, "field-options") || strings.HasPrefix(label, "index-options") {
				a, b := strings.Fields(gm[label][i]), strings.Fields(val)
				var names []string
				for k := range b {
					if k < len(a) && a[k] != b[k] {
						names = append(names, strings.SplitN(b[k], "=", 2)[0])
					}
				}
				what += "(" + strings.Join(names, ",") + ")"
			}
			return what, label + " => " + gm[label][i], label + " => " + val
		}
	}
	if len(g) != len(w) {
		return "extra-lines-after-restart", fmt.Sprint(len(g)), fmt.Sprint(len(w))
	}
	return "unknown", "", ""
}

func c08LabelClass(label string) string {
	f := strings.Fields(label)
	switch f[0] {
	case "query":
		return "query " + strings.Join(f[1:], " ")
	case "field-options", "views", "available-shards":
		name := f[len(f)-1]
		if i := strings.LastIndex(name, "/"); i >= 0 {
			name = name[i+1:]
			if !strings.HasPrefix(name, "_") {
				if name == "f" {
					name = "field-under-test"
				} else {
					name = "other-field"
				}
			}
			return f[0] + " " + name
		}
		return f[0] + " index"
	}
	return f[0]
}

// ---- exploration ------------------------------------------------------------------------------------

// finding keys already reproduced 3/3 in this worker process (re-running every failing history would triple the
// cost of a known defect that fires on most histories of a configuration)
var c08Confirmed = map[string]bool{}

var c08Ops = []string{"w1", "w2", "w3", "clr", "imp", "rattr", "cattr", "rattrDel", "cattrDel", "delF", "mkF", "mkG", "delG", "delI", "mkI"}

// distinct pre-restart observation vectors met by this worker (evidence: shows the histories reach different
// states, not just that the verdict is the same)
var c08Batteries = map[[20]byte]struct{}{}

func c08Seen(b string) { c08Batteries[sha1.Sum([]byte(b))] = struct{}{} }

type c08Mismatch struct {
	path      []vx.Op
	got, want string
}

// c08Run executes ops with a restart after the positions in mask (bit k = after op k); the last position is
// always restarted. Every restart is judged on its own (before vs after), so a mismatch does not end the
// history: the state after a restart is whatever the real code loaded, and the next restart must preserve THAT.
// c08LastFinal: the battery taken before the LAST restart of the most recent c08Run in this process
// ("" when a restart failed). Two runs of the same operations with different restart placements must
// agree on it: a restart is transparent to everything that happens afterwards.
var c08LastFinal string

// c08ObserveOnly: run the operations with the observation batteries of a restart-after-every-operation
// run but WITHOUT the intermediate restarts (only the final one).
var c08ObserveOnly bool

func c08Run(cf c08Config, ops []int, mask int) (out []c08Mismatch, path []vx.Op, restarts int) {
	in := c08New(cf)
	defer in.destroy()
	c08LastFinal = ""
	defer func() {
		if in.srv != nil {
			c08LastFinal = in.lastBattery
		}
	}()
	for k, oi := range ops {
		path = append(path, vx.Op{Name: c08Ops[oi]})
		in.do(c08Ops[oi])
		if c08ObserveOnly && k != len(ops)-1 {
			// the observing twin of a restart-after-every-operation run: the same two observation
			// batteries a restart takes (reads allocate ids for keys they mention), but no restart
			in.battery()
			in.battery()
			continue
		}
		if mask&(1<<uint(k)) != 0 || k == len(ops)-1 {
			path = append(path, vx.Op{Name: "restart"})
			restarts++
			g, w := in.restart()
			c08Seen(in.lastBattery)
			if g != w {
				out = append(out, c08Mismatch{append([]vx.Op(nil), path...), g, w})
			}
			if in.srv == nil {
				return out, path, restarts
			}
		}
	}
	return out, path, restarts
}

func TestVerif_C08(t *testing.T) {
	// every PQL parse allocates ~400 KB; with the default GC target the runtime spends most of its time
	// returning and re-faulting those pages
	debug.SetGCPercent(1000)
	c := vx.NewCheck("C08", "model_checking",
		"one evaluation = one history (operations through the real API on a fresh data directory of a real Server) with clean restarts at the chosen points; states = restart points at which the full observation battery was compared before/after; transitions = operations applied; distinct = distinct (configuration, history, restart placement)")
	cfgs := c08Configs(c.Thorough())
	coreLen, otherLen := c.Pick(2, 3), c.Pick(1, 2)
	c.Bound("configurations", len(cfgs))
	c.Bound("history_length", fmt.Sprintf("all histories of 1..%d operations (core configurations) / 1..%d (other configurations) over %v (after create index + create field), restart after the last operation and, separately, after every operation", coreLen, otherLen, c08Ops))
	nCore := 0
	for _, cf := range cfgs {
		if cf.Core {
			nCore++
		}
	}
	c.Bound("core_configurations", nCore)
	type unit struct {
		cfg int
		ops []int
	}
	var units []unit
	for ci := range cfgs {
		maxLen := otherLen
		if cfgs[ci].Core {
			maxLen = coreLen
		}
		var rec func(prefix []int)
		rec = func(prefix []int) {
			if len(prefix) > 0 {
				units = append(units, unit{ci, append([]int(nil), prefix...)})
			}
			if len(prefix) == maxLen {
				return
			}
			for o := range c08Ops {
				rec(append(prefix, o))
			}
		}
		rec(nil)
	}
	// shortest histories first inside every share, so the first witness per key is minimal
	sort.SliceStable(units, func(a, b int) bool { return len(units[a].ops) < len(units[b].ops) })
	c.ProcFor(c.NextRunLabel(), len(units), nil, func(_ []byte, i int, _ func([]byte)) {
		u := units[i]
		cf := cfgs[u.cfg]
		masks := []int{0}
		if len(u.ops) > 1 {
			masks = append(masks, 1<<uint(len(u.ops))-1)
		}
		finals := map[int]string{}
		for _, m := range masks {
			mm, path, restarts := c08Run(cf, u.ops, m)
			finals[m] = c08LastFinal
			c.AddEval(1)
			c.AddStates(int64(restarts))
			c.AddTransitions(int64(len(path)))
			c.Distinct(fmt.Sprintf("%s|%v|%d", cf, u.ops, m))
			if len(mm) == 0 {
				c.Outcome("same")
			}
			for _, x := range mm {
				what, gl, wl := c08Diff(x.got, x.want)
				cls := cf.class()
				if strings.HasPrefix(what, "field-options") {
					// option drift does not depend on key translation; for int fields only on whether min is 0
					cls = strings.Replace(strings.Replace(cls, "+fieldkeys", "", 1), "+indexkeys", "", 1)
					if cf.Type == "int" {
						cls = "int/min!=0"
						if cf.Min == 0 {
							cls = "int/min=0"
						}
					}
				}
				// determinism: the first time a (what, class) shows up in this worker the history must fail the
				// same way twice more before it is believed
				ck := what + "|" + cls
				ok, seen := c08Confirmed[ck]
				if !seen {
					ok = true
					for r := 0; r < 2; r++ {
						again, _, _ := c08Run(cf, u.ops, m)
						same := false
						for _, y := range again {
							if y.got == x.got && len(y.path) == len(x.path) {
								same = true
							}
						}
						ok = ok && same
					}
					c08Confirmed[ck] = ok
				}
				if !ok {
					c.Outcome("flaky " + what)
					continue
				}
				c.Outcome(what)
				key := fmt.Sprintf("restart-changes what=%s config=%s", what, cls)
				// Case: the op list (so shorter histories win); the configuration goes into got/want
				c.Violate(key, x.path, fmt.Sprintf("[%s] after restart: %s", cf, gl), fmt.Sprintf("before restart: %s", wl))
			}
		}
		// restart transparency: the same operations with a restart after EVERY operation must reach the
		// same observable state (taken before the final restart) as with no intermediate restart
		if len(masks) == 2 && finals[masks[0]] != "" && finals[masks[1]] != "" && finals[masks[0]] != finals[masks[1]] {
			// The two runs also differ in how often the state was OBSERVED, and observing is not free of
			// side effects (a Row() on a keyed field allocates an id for a key it has not seen). The
			// verdict therefore compares the restart run with its observing twin: same operations, same
			// observations at the same points, no intermediate restart.
			again := true
			twin := ""
			for r := 0; r < 3 && again; r++ { // believed only if it reproduces
				c08ObserveOnly = true
				c08Run(cf, u.ops, 0)
				c08ObserveOnly = false
				a := c08LastFinal
				c08Run(cf, u.ops, masks[1])
				again = a != "" && a != c08LastFinal && c08LastFinal == finals[masks[1]] && (twin == "" || twin == a)
				twin = a
			}
			finals[masks[0]] = twin
			if again {
				what, gl, wl := c08Diff(finals[masks[1]], finals[masks[0]])
				var path []vx.Op
				for _, oi := range u.ops {
					path = append(path, vx.Op{Name: c08Ops[oi]})
				}
				c.Violate(fmt.Sprintf("restart-not-transparent what=%s config=%s", what, cf.class()), path,
					fmt.Sprintf("[%s] with a restart after every operation: %s", cf, gl), fmt.Sprintf("with the same observations but no intermediate restart: %s", wl))
			} else {
				c.Outcome("flaky restart-not-transparent")
			}
		}
		for h := range c08Batteries {
			c.Outcome("battery " + string(h[:]))
		}
		c08Batteries = map[[20]byte]struct{}{}
		if i%997 == 0 {
			c.Sample(fmt.Sprintf("%s :: %v", cf, u.ops))
		}
	}, nil)
	c.AddValidated(c.Evaluations)
	c.Assume("single static node; restart = Server.Close + NewServer + Open on the same directory (process memory is not dropped, only every object is rebuilt from disk)")
	c.Assume("internal fields (_exists) are compared by name and views; their option values are not part of the public schema")
	if c.Finish() != 0 {
		t.Fail()
	}
}
