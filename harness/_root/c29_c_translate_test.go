package pilosa

// C29 — third family: the key-translation store behind keyed requests (anchor translate.go).
// Keyed Set/Import requests and keyed result rendering run concurrently through ONE TranslateFile:
// batches take the read-locked fast path, then re-check under the write lock and append to the log.
// 2–3 threads x 1–2 operations (forward batches with overlapping / repeated / private-then-shared
// keys in the column and row namespaces, reverse lookups of ids that may or may not exist yet) on one
// real TranslateFile; ALL schedules at lock granularity up to the preemption bound. Oracle per
// execution: no deadlock, panic or blocked caller; the call/return history plus a final full dump
// (forward translation of every key of the alphabet, reverse translation of every small id) is
// linearizable — some total order respecting real time, run sequentially on a fresh store with the
// same code, returns the same ids, keys and final dump.

import (
	"fmt"
	"os"
	"path/filepath"
	"sort"
	"strings"

	"github.com/pilosa/pilosa/internal/vsched"
	"github.com/pilosa/pilosa/internal/vx"
)

type c29tOp struct {
	name string
	run  func(tf *TranslateFile) string
}

func c29tOps() []c29tOp {
	col := func(ks ...string) c29tOp {
		return c29tOp{"col[" + strings.Join(ks, ",") + "]", func(tf *TranslateFile) string {
			ids, err := tf.TranslateColumnsToUint64("i", append([]string{}, ks...))
			return fmt.Sprint(ids, err)
		}}
	}
	row := func(ks ...string) c29tOp {
		return c29tOp{"row[" + strings.Join(ks, ",") + "]", func(tf *TranslateFile) string {
			ids, err := tf.TranslateRowsToUint64("i", "f", append([]string{}, ks...))
			return fmt.Sprint(ids, err)
		}}
	}
	colrev := func(id uint64) c29tOp {
		return c29tOp{fmt.Sprintf("colkey(%d)", id), func(tf *TranslateFile) string {
			s, err := tf.TranslateColumnToString("i", id)
			return fmt.Sprintf("%q %v", s, err)
		}}
	}
	rowrev := func(id uint64) c29tOp {
		return c29tOp{fmt.Sprintf("rowkey(%d)", id), func(tf *TranslateFile) string {
			s, err := tf.TranslateRowToString("i", "f", id)
			return fmt.Sprintf("%q %v", s, err)
		}}
	}
	return []c29tOp{
		col("a", "b"),      // 0
		col("b", "c"),      // 1
		col("a", "a", "b"), // 2
		col("u1", "c"),     // 3  a key of its own first, then a shared one
		col("u2", "c"),     // 4
		col("c"),           // 5
		colrev(1),          // 6
		colrev(2),          // 7
		row("a", "b"),      // 8
		row("b", "a", "b"), // 9
		row("u1", "c"),     // 10
		row("u2", "c", "u3"), // 11
		row("c"),           // 12
		rowrev(1),          // 13
		rowrev(2),          // 14
	}
}

var c29tAlphabet = []string{"a", "b", "c", "u1", "u2", "u3"}

func c29tOpen(path string) *TranslateFile {
	tf := NewTranslateFile(OptTranslateFileMapSize(1 << 20))
	tf.Path = path
	if err := tf.Open(); err != nil {
		panic(err)
	}
	return tf
}

// c29tFinal: reverse lookups first (they never allocate), then the forward dump of existing keys
// only (a forward translation of an unknown key would allocate an id, so unknown keys are reported
// from the reverse side: an id with no key).
func c29tFinal(tf *TranslateFile) string {
	var sb strings.Builder
	known := map[string]bool{}
	for id := uint64(1); id <= 7; id++ {
		s, err := tf.TranslateColumnToString("i", id)
		fmt.Fprintf(&sb, "c%d=%q,%v ", id, s, err)
		if s != "" {
			known["c|"+s] = true
		}
		s, err = tf.TranslateRowToString("i", "f", id)
		fmt.Fprintf(&sb, "r%d=%q,%v ", id, s, err)
		if s != "" {
			known["r|"+s] = true
		}
	}
	for _, k := range c29tAlphabet {
		if known["c|"+k] {
			ids, err := tf.TranslateColumnsToUint64("i", []string{k})
			fmt.Fprintf(&sb, "c:%s=%v,%v ", k, ids, err)
		}
		if known["r|"+k] {
			ids, err := tf.TranslateRowsToUint64("i", "f", []string{k})
			fmt.Fprintf(&sb, "r:%s=%v,%v ", k, ids, err)
		}
	}
	return sb.String()
}

type c29tEvent struct {
	thread, op int
	call, ret  int
	res        string
}

func c29tLinearizable(ops []c29tOp, evs []c29tEvent, final string, cache map[string][]string, dir string) (bool, string) {
	n := len(evs)
	perm := make([]int, 0, n)
	used := make([]bool, n)
	var tried []string
	var rec func() bool
	rec = func() bool {
		if len(perm) == n {
			var ids []string
			for _, i := range perm {
				ids = append(ids, fmt.Sprint(evs[i].op))
			}
			key := strings.Join(ids, ",")
			res, ok := cache[key]
			if !ok {
				p := filepath.Join(dir, "keys-seq")
				tf := c29tOpen(p)
				for _, i := range perm {
					res = append(res, ops[evs[i].op].run(tf))
				}
				res = append(res, c29tFinal(tf))
				tf.Close()
				os.Remove(p)
				cache[key] = res
			}
			match := res[n] == final
			for j, i := range perm {
				if res[j] != evs[i].res {
					match = false
				}
			}
			if !match {
				tried = append(tried, fmt.Sprintf("%v=>%v", ids, res))
			}
			return match
		}
		for i := 0; i < n; i++ {
			if used[i] {
				continue
			}
			ok := true
			for j := 0; j < n; j++ {
				if j != i && !used[j] && evs[j].ret < evs[i].call {
					ok = false
					break
				}
			}
			if !ok {
				continue
			}
			used[i] = true
			perm = append(perm, i)
			if rec() {
				return true
			}
			perm = perm[:len(perm)-1]
			used[i] = false
		}
		return false
	}
	if rec() {
		return true, ""
	}
	return false, strings.Join(tried, " ; ")
}

// c29TranslatePart explores the translation-store scenarios; called from TestVerif_C29 inside its bubble.
func c29TranslatePart(c *vx.Check) {
	ops := c29tOps()
	var scs [][][]int
	n := len(ops)
	for a := 0; a < n; a++ {
		for b := a; b < n; b++ {
			scs = append(scs, [][]int{{a}, {b}})
		}
	}
	// write;read on one side against every op
	for _, p := range [][]int{{0, 7}, {3, 7}, {8, 14}, {10, 14}, {5, 3}, {12, 11}} {
		for b := 0; b < n; b++ {
			scs = append(scs, [][]int{p, {b}})
		}
	}
	if c.Thorough() {
		core := []int{0, 1, 3, 4, 7, 10, 11, 14}
		for i, a := range core {
			for j := i; j < len(core); j++ {
				for k := j; k < len(core); k++ {
					scs = append(scs, [][]int{{a}, {core[j]}, {core[k]}})
				}
			}
		}
	}
	bound := c.Pick(2, 3)
	c.Bound("translate_scenarios", len(scs))
	c.ProcFor(c.NextRunLabel(), len(scs), nil, func(_ []byte, si int, emit func([]byte)) {
		sc := scs[si]
		var parts []string
		set := map[string]bool{}
		for _, th := range sc {
			var ns []string
			for _, i := range th {
				ns = append(ns, ops[i].name)
				set[ops[i].name] = true
			}
			parts = append(parts, strings.Join(ns, ";"))
		}
		name := "translate: " + strings.Join(parts, " || ")
		var ks []string
		for k := range set {
			ks = append(ks, k)
		}
		sort.Strings(ks)
		key := "translate " + strings.Join(ks, "|")
		cache := map[string][]string{}
		var evs []c29tEvent
		var clock int
		var tf *TranslateFile
		dir := vx.Scratch()
		defer os.RemoveAll(dir)
		path := filepath.Join(dir, "keys-live")
		build := func(x *vsched.X) func(tr *vsched.Trace) {
			evs = evs[:0]
			clock = 0
			os.Remove(path)
			tf = c29tOpen(path)
			s := tf
			for ti, th := range sc {
				ti, th := ti, th
				x.Go(fmt.Sprintf("t%d", ti), func() {
					for _, oi := range th {
						clock++
						e := c29tEvent{thread: ti, op: oi, call: clock}
						e.res = ops[oi].run(s)
						clock++
						e.ret = clock
						evs = append(evs, e)
					}
				})
			}
			return nil
		}
		st := vsched.Explore(bound, vsched.Options{Reduce: true}, build, func(choices []int, tr *vsched.Trace) bool {
			c.AddEval(1)
			c.AddTransitions(int64(tr.Steps))
			cs := map[string]interface{}{"scenario": name, "choices": choices, "schedule": strings.Join(tr.Schedule, " ")}
			defer func() { vx.Guard(func() { tf.Close() }) }()
			switch {
			case tr.Diverged != "":
				c.NotExhaustive("a schedule prefix did not replay deterministically: " + name)
				return true
			case tr.Deadlock != "":
				c.Violate("deadlock "+key, cs, tr.Deadlock, "no deadlock")
				return false
			case len(tr.Panics) > 0:
				c.Violate("panic "+key, cs, strings.Join(tr.Panics, " ; "), "no panic")
				return false
			case len(tr.Leaked) > 0:
				c.Violate("blocked-forever "+key, cs, strings.Join(tr.Leaked, " ; "), "all callers return")
				return false
			}
			final := c29tFinal(tf)
			hist := append([]c29tEvent(nil), evs...)
			sort.Slice(hist, func(i, j int) bool { return hist[i].call < hist[j].call })
			var rs []string
			for _, e := range hist {
				rs = append(rs, fmt.Sprintf("t%d.%s=%s", e.thread, ops[e.op].name, e.res))
			}
			obs := strings.Join(rs, " ") + " final=" + final
			c.Outcome(obs)
			c.Distinct(name + "|" + obs)
			if ok, tried := c29tLinearizable(ops, hist, final, cache, dir); !ok {
				c.Violate("not-linearizable "+key, cs, obs, "some sequential order of the operations; tried: "+tried)
				return false
			}
			return true
		}, nil)
		if st.Executions > 0 && si%16 == 0 {
			c.Sample(map[string]interface{}{"scenario": name, "schedules": st.Executions, "by_preemptions": st.ByBound, "max_decisions": st.MaxDecisions})
		}
		c.AddStates(int64(st.Executions))
	}, nil)
}
