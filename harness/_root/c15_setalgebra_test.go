package pilosa

// C15 — Bitmap queries return the set-algebra result over stored data.
//
// Real system: one in-process node (NewServer + Open + NewAPI, no listener, executor worker pool of
// one so that shard results are reduced in a fixed order), file-backed holder on tmpfs. Every
// query goes through API.Query (parser -> executor -> fragments), every import through API.Import.
//
// Part 1 (programs x datasets): every subset of a set of candidate bits placed on container and
// shard edges is written to a fresh index (Set and Import alternate per bit); on each dataset every
// expression tree of the bounded family is evaluated by the real executor and by a small set
// evaluator (c15Eval). Store(<tree>, f=9) followed by Row(f=9) is checked for every depth<=1 tree.
// Part 2 (histories): all sequences over {Set, Import, Clear, ClearRow, Store, read-battery} up to
// the bound are run on a fresh index from several base datasets (vx.RunDFS).
//
// Oracle (statement as stated): result == evaluation over the logical column sets; Shift is +n on
// the global column axis; Not is taken relative to the columns written by Set or import (Store
// does not feed existence); Count == cardinality.

import (
	"context"
	"errors"
	"fmt"
	"sort"
	"strings"
	"sync"
	"testing"
	"time"

	"github.com/pilosa/pilosa/internal/vx"
)

const c15SW = uint64(ShardWidth)

// ---------------------------------------------------------------------------------------------
// environment: one real node per worker

type c15Ser struct{}

func (c15Ser) Marshal(Message) ([]byte, error) { return []byte{0}, nil }
func (c15Ser) Unmarshal([]byte, Message) error { return errors.New("c15: unexpected Unmarshal") }

type c15Env struct {
	srv *Server
	api *API
	seq int
}

var (
	c15PoolMu sync.Mutex
	c15Pool   []*c15Env
	c15All    []*c15Env
)

func c15GetEnv() *c15Env {
	c15PoolMu.Lock()
	if n := len(c15Pool); n > 0 {
		e := c15Pool[n-1]
		c15Pool = c15Pool[:n-1]
		c15PoolMu.Unlock()
		return e
	}
	c15PoolMu.Unlock()
	s, err := NewServer(OptServerDataDir(vx.Scratch()), OptServerIsCoordinator(true), OptServerExecutorPoolSize(1),
		OptServerNodeID("n0"), OptServerSerializer(c15Ser{}))
	if err != nil {
		panic(fmt.Sprintf("c15: NewServer: %v", err))
	}
	if err := s.Open(); err != nil {
		panic(fmt.Sprintf("c15: Server.Open: %v", err))
	}
	api, err := NewAPI(OptAPIServer(s))
	if err != nil {
		panic(fmt.Sprintf("c15: NewAPI: %v", err))
	}
	e := &c15Env{srv: s, api: api}
	c15PoolMu.Lock()
	c15All = append(c15All, e)
	c15PoolMu.Unlock()
	return e
}

func c15PutEnv(e *c15Env) {
	c15PoolMu.Lock()
	c15Pool = append(c15Pool, e)
	c15PoolMu.Unlock()
}

func c15CloseAll() {
	c15PoolMu.Lock()
	defer c15PoolMu.Unlock()
	for _, e := range c15All {
		e.api.Close()
		e.srv.Close()
	}
	c15All, c15Pool = nil, nil
}

func (e *c15Env) query(index, q string) ([]interface{}, error) {
	r, err := e.api.Query(context.Background(), &QueryRequest{Index: index, Query: q})
	return r.Results, err
}

func (e *c15Env) newIndex(track, full bool) string {
	e.seq++
	name := fmt.Sprintf("i%d", e.seq)
	ctx := context.Background()
	if _, err := e.api.CreateIndex(ctx, name, IndexOptions{TrackExistence: track}); err != nil {
		panic(fmt.Sprintf("c15: CreateIndex: %v", err))
	}
	mk := func(f string, opt FieldOption) {
		if _, err := e.api.CreateField(ctx, name, f, opt); err != nil {
			panic(fmt.Sprintf("c15: CreateField %s: %v", f, err))
		}
	}
	mk("f", OptFieldTypeDefault())
	mk("g", OptFieldTypeSet(CacheTypeNone, 0))
	if full {
		mk("h", OptFieldTypeDefault())
		mk("t", OptFieldTypeTime(TimeQuantum("YMD")))
		mk("v", OptFieldTypeInt(-10, 10))
	}
	return name
}

func (e *c15Env) dropIndex(name string) {
	if err := e.api.DeleteIndex(context.Background(), name); err != nil {
		panic(fmt.Sprintf("c15: DeleteIndex: %v", err))
	}
}

// ---------------------------------------------------------------------------------------------
// model

type c15Set map[uint64]struct{}

func (s c15Set) sorted() []uint64 {
	out := make([]uint64, 0, len(s))
	for c := range s {
		out = append(out, c)
	}
	sort.Slice(out, func(i, j int) bool { return out[i] < out[j] })
	return out
}

type c15TBit struct {
	row, col uint64
	ts       time.Time
}

type c15Model struct {
	track bool
	rows  map[string]map[uint64]c15Set // field -> row -> columns (standard view)
	tbits []c15TBit                    // timestamped bits of field t
	ints  map[uint64]int64             // field v
	exist c15Set                       // columns written by Set or import
}

func c15NewModel(track bool) *c15Model {
	return &c15Model{track: track, rows: map[string]map[uint64]c15Set{}, ints: map[uint64]int64{}, exist: c15Set{}}
}

func (m *c15Model) row(f string, r uint64) c15Set {
	if m.rows[f] == nil {
		m.rows[f] = map[uint64]c15Set{}
	}
	if m.rows[f][r] == nil {
		m.rows[f][r] = c15Set{}
	}
	return m.rows[f][r]
}

func (m *c15Model) canon() string {
	var sb strings.Builder
	var fs []string
	for f := range m.rows {
		fs = append(fs, f)
	}
	sort.Strings(fs)
	for _, f := range fs {
		var rs []uint64
		for r := range m.rows[f] {
			rs = append(rs, r)
		}
		sort.Slice(rs, func(i, j int) bool { return rs[i] < rs[j] })
		for _, r := range rs {
			if len(m.rows[f][r]) > 0 {
				fmt.Fprintf(&sb, "%s%d=%v;", f, r, m.rows[f][r].sorted())
			}
		}
	}
	fmt.Fprintf(&sb, "E=%v", m.exist.sorted())
	return sb.String()
}

// ---------------------------------------------------------------------------------------------
// expressions

type c15Leaf struct {
	name string
	pql  string
	cols func(m *c15Model) c15Set
}

var (
	c15From = time.Date(2018, 2, 1, 0, 0, 0, 0, time.UTC)
	c15To   = time.Date(2018, 5, 1, 0, 0, 0, 0, time.UTC)
)

func c15RowLeaf(name, f string, r uint64) c15Leaf {
	return c15Leaf{name: name, pql: fmt.Sprintf("Row(%s=%d)", f, r), cols: func(m *c15Model) c15Set {
		out := c15Set{}
		for c := range m.row(f, r) {
			out[c] = struct{}{}
		}
		return out
	}}
}

// leaf order: the first c15NLeafSmall leaves are the ones used at depth 2.
var c15Leaves = []c15Leaf{
	c15RowLeaf("A", "f", 0),
	c15RowLeaf("B", "f", 1),
	c15RowLeaf("C", "g", 0), // g only ever has shard-1 data: shard 0 has no fragment
	{name: "V", pql: "Row(v > 0)", cols: func(m *c15Model) c15Set {
		out := c15Set{}
		for c, v := range m.ints {
			if v > 0 {
				out[c] = struct{}{}
			}
		}
		return out
	}},
	c15RowLeaf("E", "f", 2), // never written: empty row of an existing fragment
	c15RowLeaf("H", "h", 0), // field without any view
	{name: "T", pql: "Row(t=1, from='2018-02-01T00:00', to='2018-05-01T00:00')", cols: func(m *c15Model) c15Set {
		out := c15Set{}
		for _, b := range m.tbits {
			if b.row == 1 && !b.ts.Before(c15From) && b.ts.Before(c15To) {
				out[b.col] = struct{}{}
			}
		}
		return out
	}},
	c15RowLeaf("T0", "t", 1),
	{name: "VN", pql: "Row(v != null)", cols: func(m *c15Model) c15Set {
		out := c15Set{}
		for c := range m.ints {
			out[c] = struct{}{}
		}
		return out
	}},
	c15RowLeaf("D", "f", 3), // only used by the history part (Store destination)
	// further integer conditions (indices 10..13): the stored extreme 3 = 2^2-1 is the bit-depth maximum,
	// and the predicates lie between it and the field's maximum 10 / around zero
	{name: "VL", pql: "Row(v < 5)", cols: c15IntLeaf(func(v int64) bool { return v < 5 })},
	{name: "VLE", pql: "Row(v <= 3)", cols: c15IntLeaf(func(v int64) bool { return v <= 3 })},
	{name: "VB", pql: "Row(-1 <= v < 3)", cols: c15IntLeaf(func(v int64) bool { return -1 <= v && v < 3 })},
	{name: "VE", pql: "Row(v == 0)", cols: c15IntLeaf(func(v int64) bool { return v == 0 })},
}

func c15IntLeaf(pred func(v int64) bool) func(m *c15Model) c15Set {
	return func(m *c15Model) c15Set {
		out := c15Set{}
		for c, v := range m.ints {
			if pred(v) {
				out[c] = struct{}{}
			}
		}
		return out
	}
}

const (
	c15LeafA = 0
	c15LeafB = 1
	c15LeafC = 2
	c15LeafD = 9
)

type c15X struct {
	op   string // leaf | Union | Intersect | Difference | Xor | Not | Shift | Count
	arg  int    // leaf index or shift n
	kids []*c15X
}

func c15L(i int) *c15X { return &c15X{op: "leaf", arg: i} }

func (x *c15X) pql() string {
	switch x.op {
	case "leaf":
		return c15Leaves[x.arg].pql
	case "Shift":
		return fmt.Sprintf("Shift(%s, n=%d)", x.kids[0].pql(), x.arg)
	}
	ks := make([]string, len(x.kids))
	for i, k := range x.kids {
		ks[i] = k.pql()
	}
	return x.op + "(" + strings.Join(ks, ", ") + ")"
}

func (x *c15X) shape() string {
	switch x.op {
	case "leaf":
		return c15Leaves[x.arg].name
	case "Shift":
		return fmt.Sprintf("Shift%d(%s)", x.arg, x.kids[0].shape())
	}
	ks := make([]string, len(x.kids))
	for i, k := range x.kids {
		ks[i] = k.shape()
	}
	return x.op + "(" + strings.Join(ks, ",") + ")"
}

func (x *c15X) has(op string) bool {
	if x.op == op {
		return true
	}
	for _, k := range x.kids {
		if k.has(op) {
			return true
		}
	}
	return false
}

// c15Eval is the reference evaluator: plain set algebra over the logical column sets.
// shard < 0: global evaluation (the oracle). shard >= 0: evaluation of the tree on the data of one
// shard only, WITHOUT moving a shifted column to its proper shard — this is not an oracle, it is
// the model of one known defect and is only used to classify a mismatch.
func c15Eval(x *c15X, m *c15Model, shard int) (c15Set, bool) {
	in := func(c uint64) bool { return shard < 0 || c/c15SW == uint64(shard) }
	switch x.op {
	case "leaf":
		out := c15Set{}
		for c := range c15Leaves[x.arg].cols(m) {
			if in(c) {
				out[c] = struct{}{}
			}
		}
		return out, true
	case "Not":
		if !m.track {
			return nil, false
		}
		k, ok := c15Eval(x.kids[0], m, shard)
		if !ok {
			return nil, false
		}
		out := c15Set{}
		for c := range m.exist {
			if _, hit := k[c]; !hit && in(c) {
				out[c] = struct{}{}
			}
		}
		return out, true
	case "Shift":
		k, ok := c15Eval(x.kids[0], m, shard)
		if !ok {
			return nil, false
		}
		out := c15Set{}
		for c := range k {
			out[c+uint64(x.arg)] = struct{}{}
		}
		return out, true
	}
	if len(x.kids) == 0 {
		if x.op == "Union" || x.op == "Xor" {
			return c15Set{}, true
		}
		return nil, false
	}
	acc, ok := c15Eval(x.kids[0], m, shard)
	if !ok {
		return nil, false
	}
	for _, kx := range x.kids[1:] {
		k, ok := c15Eval(kx, m, shard)
		if !ok {
			return nil, false
		}
		out := c15Set{}
		switch x.op {
		case "Union":
			for c := range acc {
				out[c] = struct{}{}
			}
			for c := range k {
				out[c] = struct{}{}
			}
		case "Intersect":
			for c := range acc {
				if _, hit := k[c]; hit {
					out[c] = struct{}{}
				}
			}
		case "Difference":
			for c := range acc {
				if _, hit := k[c]; !hit {
					out[c] = struct{}{}
				}
			}
		case "Xor":
			for c := range acc {
				if _, hit := k[c]; !hit {
					out[c] = struct{}{}
				}
			}
			for c := range k {
				if _, hit := acc[c]; !hit {
					out[c] = struct{}{}
				}
			}
		default:
			panic("c15: op " + x.op)
		}
		acc = out
	}
	return acc, true
}

// c15Want renders the oracle's answer for x (a bitmap expression or Count of one).
func c15Want(x *c15X, m *c15Model) string {
	if x.op == "Count" {
		s, ok := c15Eval(x.kids[0], m, -1)
		if !ok {
			return "ERR"
		}
		return fmt.Sprint(len(s))
	}
	s, ok := c15Eval(x, m, -1)
	if !ok {
		return "ERR"
	}
	return fmt.Sprint(s.sorted())
}

// c15ShiftDefect renders what the per-shard evaluation without carry hand-over yields.
func c15ShiftDefect(x *c15X, m *c15Model, shards []int) string {
	inner := x
	if x.op == "Count" {
		inner = x.kids[0]
	}
	var all []uint64
	for _, s := range shards {
		set, ok := c15Eval(inner, m, s)
		if !ok {
			return "ERR"
		}
		all = append(all, set.sorted()...)
	}
	if x.op == "Count" {
		return fmt.Sprint(len(all))
	}
	if all == nil {
		all = []uint64{}
	}
	return fmt.Sprint(all)
}

func c15Got(v interface{}, err error) string {
	if err != nil {
		return "ERR"
	}
	switch r := v.(type) {
	case *Row:
		cols := r.Columns()
		if cols == nil {
			cols = []uint64{}
		}
		return fmt.Sprint(cols)
	case uint64:
		return fmt.Sprint(r)
	case bool:
		return fmt.Sprint(r)
	case nil:
		return "nil"
	}
	return fmt.Sprintf("%T:%v", v, v)
}

// c15Run evaluates the expressions on the real executor, batching calls into one request.
func c15Run(e *c15Env, index string, xs []*c15X) []string {
	out := make([]string, len(xs))
	const batch = 128
	for lo := 0; lo < len(xs); lo += batch {
		hi := lo + batch
		if hi > len(xs) {
			hi = len(xs)
		}
		var sb strings.Builder
		for _, x := range xs[lo:hi] {
			sb.WriteString(x.pql())
			sb.WriteByte('\n')
		}
		res, err := e.query(index, sb.String())
		if err == nil && len(res) == hi-lo {
			for i := range res {
				out[lo+i] = c15Got(res[i], nil)
			}
			continue
		}
		// at least one call of the batch fails: run them one by one
		for i, x := range xs[lo:hi] {
			r, err := e.query(index, x.pql())
			if err != nil || len(r) != 1 {
				out[lo+i] = "ERR"
				if err == nil {
					out[lo+i] = fmt.Sprintf("ERR(%d results)", len(r))
				}
				continue
			}
			out[lo+i] = c15Got(r[0], nil)
		}
	}
	return out
}

// ---------------------------------------------------------------------------------------------
// tree families

var c15Bin = []string{"Union", "Intersect", "Difference", "Xor"}

func c15Depth1(leaves []int, ternary []int, nullary bool) []*c15X {
	var out []*c15X
	for _, a := range leaves {
		out = append(out, c15L(a))
	}
	for _, a := range leaves {
		out = append(out, &c15X{op: "Not", kids: []*c15X{c15L(a)}})
		out = append(out, &c15X{op: "Shift", arg: 1, kids: []*c15X{c15L(a)}})
		out = append(out, &c15X{op: "Shift", arg: 2, kids: []*c15X{c15L(a)}})
		for _, op := range c15Bin {
			out = append(out, &c15X{op: op, kids: []*c15X{c15L(a)}})
		}
	}
	for _, op := range c15Bin {
		for _, a := range leaves {
			for _, b := range leaves {
				out = append(out, &c15X{op: op, kids: []*c15X{c15L(a), c15L(b)}})
			}
		}
	}
	for _, op := range []string{"Union", "Intersect"} {
		for _, a := range ternary {
			for _, b := range ternary {
				for _, c := range ternary {
					out = append(out, &c15X{op: op, kids: []*c15X{c15L(a), c15L(b), c15L(c)}})
				}
			}
		}
	}
	if nullary {
		out = append(out, &c15X{op: "Union"}, &c15X{op: "Xor"})
	}
	return out
}

// c15Depth2 returns every tree of depth exactly 2 with binary/unary operators over the sub-trees
// `subs` (all trees of depth <= 1 over the small leaf set); trees whose children are all leaves are
// skipped (they are in the depth-1 family).
func c15Depth2(subs []*c15X) []*c15X {
	var out []*c15X
	isLeaf := func(x *c15X) bool { return x.op == "leaf" }
	for _, a := range subs {
		if isLeaf(a) {
			continue
		}
		out = append(out, &c15X{op: "Not", kids: []*c15X{a}})
		out = append(out, &c15X{op: "Shift", arg: 1, kids: []*c15X{a}})
		out = append(out, &c15X{op: "Shift", arg: 2, kids: []*c15X{a}})
	}
	for _, op := range c15Bin {
		for _, a := range subs {
			for _, b := range subs {
				if isLeaf(a) && isLeaf(b) {
					continue
				}
				out = append(out, &c15X{op: op, kids: []*c15X{a, b}})
			}
		}
	}
	return out
}

func c15WithCounts(xs []*c15X) []*c15X {
	out := append([]*c15X(nil), xs...)
	for _, x := range xs {
		out = append(out, &c15X{op: "Count", kids: []*c15X{x}})
	}
	return out
}

// ---------------------------------------------------------------------------------------------
// datasets

type c15Bit struct {
	f        string
	row, col uint64
}

// Candidate bits, most collision-prone first (a tier uses a prefix).
var c15Cand = []c15Bit{
	{"f", 0, c15SW - 1},   // A: last column of shard 0 (Shift carries it into shard 1)
	{"f", 0, c15SW},       // A: first column of shard 1
	{"f", 1, c15SW - 1},   // B
	{"g", 0, c15SW},       // C: collides with the carried column
	{"f", 0, 65535},       // A: container edge
	{"f", 1, 65536},       // B: collides with the container carry
	{"g", 0, 2*c15SW - 1}, // C: last column of the last shard
	{"f", 1, c15SW + 1},   // B: collides with Shift(A,1) / Shift(A,2)
	{"f", 0, 65534},       // A: Shift 2 over the container edge
}

func c15Stamp(t time.Time) string { return t.Format(TimeFormat) }

// c15WriteFixed writes the data of the time and int fields (always present when full).
func c15WriteFixed(e *c15Env, index string, m *c15Model) {
	tb := []c15TBit{
		{1, 1, time.Date(2018, 3, 1, 0, 0, 0, 0, time.UTC)},
		{1, c15SW - 1, time.Date(2018, 3, 15, 0, 0, 0, 0, time.UTC)},
		{1, c15SW, time.Date(2018, 4, 1, 0, 0, 0, 0, time.UTC)},
		{1, 2, time.Date(2018, 6, 1, 0, 0, 0, 0, time.UTC)},
		{2, 3, time.Date(2018, 3, 1, 0, 0, 0, 0, time.UTC)},
	}
	var sb strings.Builder
	for _, b := range tb {
		fmt.Fprintf(&sb, "Set(%d, t=%d, %s)\n", b.col, b.row, c15Stamp(b.ts))
		m.tbits = append(m.tbits, b)
		m.row("t", b.row)[b.col] = struct{}{}
		m.exist[b.col] = struct{}{}
	}
	iv := []struct {
		col uint64
		v   int64
	}{{0, -1}, {65536, 3}, {c15SW + 1, 2}, {c15SW, 0}}
	for _, x := range iv {
		fmt.Fprintf(&sb, "Set(%d, v=%d)\n", x.col, x.v)
		m.ints[x.col] = x.v
		m.exist[x.col] = struct{}{}
	}
	if _, err := e.query(index, sb.String()); err != nil {
		panic(fmt.Sprintf("c15: writing fixed data: %v", err))
	}
	if !m.track {
		m.exist = c15Set{}
	}
}

func c15SetBit(e *c15Env, index string, m *c15Model, b c15Bit) (got, want string) {
	_, had := m.row(b.f, b.row)[b.col]
	m.row(b.f, b.row)[b.col] = struct{}{}
	if m.track {
		m.exist[b.col] = struct{}{}
	}
	r, err := e.query(index, fmt.Sprintf("Set(%d, %s=%d)", b.col, b.f, b.row))
	if err != nil || len(r) != 1 {
		return fmt.Sprintf("ERR %v", err), fmt.Sprint(!had)
	}
	return c15Got(r[0], nil), fmt.Sprint(!had)
}

func c15ImportBit(e *c15Env, index string, m *c15Model, b c15Bit) (got, want string) {
	m.row(b.f, b.row)[b.col] = struct{}{}
	if m.track {
		m.exist[b.col] = struct{}{}
	}
	err := e.api.Import(context.Background(), &ImportRequest{Index: index, Field: b.f, Shard: b.col / c15SW,
		RowIDs: []uint64{b.row}, ColumnIDs: []uint64{b.col}})
	return fmt.Sprint(err), "<nil>"
}

// ---------------------------------------------------------------------------------------------
// part 1: programs x datasets

func c15Classify(x *c15X, m *c15Model, got string) string {
	if x.has("Shift") && got == c15ShiftDefect(x, m, []int{0, 1}) {
		return "Shift: carried column stays in the lower shard's segment (not handed to the next shard)"
	}
	return "wrong result expr=" + x.shape()
}

func c15Part1(c *vx.Check, track bool, nbits int, trees []*c15X, storeTrees []*c15X, flipWrite bool, tag string) {
	n := 1 << uint(nbits)
	c.ProcFor(c.NextRunLabel(), n, nil, func(_ []byte, mask int, _ func([]byte)) {
		if c.Expired() {
			return
		}
		e := c15GetEnv()
		defer c15PutEnv(e)
		index := e.newIndex(track, true)
		defer e.dropIndex(index)
		m := c15NewModel(track)
		c15WriteFixed(e, index, m)
		var desc []string
		for i := 0; i < nbits; i++ {
			if mask&(1<<uint(i)) == 0 {
				continue
			}
			b := c15Cand[i]
			var g, w string
			if (i%2 == 0) != flipWrite {
				g, w = c15SetBit(e, index, m, b)
			} else {
				g, w = c15ImportBit(e, index, m, b)
			}
			if g != w {
				c.Violate("write result wrong", fmt.Sprintf("%s bit=%v", tag, b), g, w)
			}
			desc = append(desc, fmt.Sprintf("%s%d@%d", b.f, b.row, b.col))
		}
		ds := fmt.Sprintf("%s track=%v data=[%s]", tag, track, strings.Join(desc, " "))
		got := c15Run(e, index, trees)
		outcomes := map[string]struct{}{}
		for i, x := range trees {
			want := c15Want(x, m)
			outcomes[got[i]] = struct{}{}
			if got[i] != want {
				c.Violate(c15Classify(x, m, got[i]), ds+" query="+x.pql(), got[i], want)
			}
		}
		c.AddEval(int64(len(trees)))
		// Store(<tree>, f=9) then Row(f=9): the stored row must be exactly the evaluated set, replacing
		// whatever the previous Store left there.
		for _, x := range storeTrees {
			want, ok := c15Eval(x, m, -1)
			r, err := e.query(index, fmt.Sprintf("Store(%s, f=9)\nRow(f=9)", x.pql()))
			c.AddEval(1)
			if !ok {
				if err == nil {
					c.Violate("Store of a failing expression succeeded expr="+x.shape(), ds+" store="+x.pql(), "ok", "ERR")
				}
				continue
			}
			g := "ERR"
			if err == nil && len(r) == 2 {
				g = c15Got(r[0], nil) + " " + c15Got(r[1], nil)
			}
			w := "true " + fmt.Sprint(want.sorted())
			if g != w {
				key := "Store: stored row differs expr=" + x.shape()
				if x.has("Shift") && g == "true "+c15StoreShiftDefect(x, m) {
					key = "Shift: carried column stays in the lower shard's segment (not handed to the next shard)"
				}
				c.Violate(key, ds+" store="+x.pql(), g, w)
			}
		}
		for o := range outcomes {
			c.Outcome(o)
		}
		if mask != 0 {
			c.Distinct(ds)
		}
		if mask == n-1 || mask == 1 {
			c.Sample(ds + fmt.Sprintf(" (%d expressions, %d stores)", len(trees), len(storeTrees)))
		}
	}, nil)
}

// c15StoreShiftDefect: what Store writes when the per-shard source row still holds the carried
// column in the lower shard's segment: fragment.setRow copies container k of the segment to container
// k%16 of its own row, in ascending k, a later container replacing an earlier one.
func c15StoreShiftDefect(x *c15X, m *c15Model) string {
	out := c15Set{}
	for s := 0; s < 2; s++ {
		set, ok := c15Eval(x, m, s)
		if !ok {
			return "ERR"
		}
		byKey := map[uint64][]uint64{}
		var keys []uint64
		for _, c := range set.sorted() {
			k := c >> 16
			if _, seen := byKey[k]; !seen {
				keys = append(keys, k)
			}
			byKey[k] = append(byKey[k], c)
		}
		slot := map[uint64][]uint64{}
		for _, k := range keys { // ascending
			slot[k%16] = byKey[k]
		}
		for _, cols := range slot {
			for _, c := range cols {
				out[uint64(s)*c15SW+c%c15SW] = struct{}{}
			}
		}
	}
	return fmt.Sprint(out.sorted())
}

// ---------------------------------------------------------------------------------------------
// part 2: write histories

type c15Hist struct {
	e     *c15Env
	index string
	m     *c15Model
	bits  []c15Bit
	srcs  []*c15X
	reads []*c15X
}

var c15StoreDst = []uint64{0, 3}

// model applies a write op to the model only and returns the expected return value.
func (h *c15Hist) model(op vx.Op) string {
	m := h.m
	switch op.Name {
	case "set", "import":
		b := h.bits[op.Args[0]]
		_, had := m.row(b.f, b.row)[b.col]
		m.row(b.f, b.row)[b.col] = struct{}{}
		if m.track {
			m.exist[b.col] = struct{}{}
		}
		if op.Name == "import" {
			return "<nil>"
		}
		return fmt.Sprint(!had)
	case "clear":
		b := h.bits[op.Args[0]]
		_, had := m.row(b.f, b.row)[b.col]
		delete(m.row(b.f, b.row), b.col)
		return fmt.Sprint(had)
	case "clearRow":
		f := []string{"f", "g"}[op.Args[0]]
		row := uint64(op.Args[1])
		had := len(m.row(f, row)) > 0
		m.rows[f][row] = c15Set{}
		return fmt.Sprint(had)
	case "store":
		set, ok := c15Eval(h.srcs[op.Args[0]], m, -1)
		if !ok {
			return "ERR"
		}
		m.row("f", c15StoreDst[op.Args[1]])
		m.rows["f"][c15StoreDst[op.Args[1]]] = set
		return "true"
	}
	return ""
}

func (h *c15Hist) Apply(op vx.Op) (got, want string) {
	one := func(q string) string {
		r, err := h.e.query(h.index, q)
		if err != nil || len(r) != 1 {
			return fmt.Sprintf("ERR %v", err)
		}
		return c15Got(r[0], nil)
	}
	switch op.Name {
	case "set":
		b := h.bits[op.Args[0]]
		return one(fmt.Sprintf("Set(%d, %s=%d)", b.col, b.f, b.row)), h.model(op)
	case "import":
		b := h.bits[op.Args[0]]
		err := h.e.api.Import(context.Background(), &ImportRequest{Index: h.index, Field: b.f, Shard: b.col / c15SW,
			RowIDs: []uint64{b.row}, ColumnIDs: []uint64{b.col}})
		return fmt.Sprint(err), h.model(op)
	case "clear":
		b := h.bits[op.Args[0]]
		return one(fmt.Sprintf("Clear(%d, %s=%d)", b.col, b.f, b.row)), h.model(op)
	case "clearRow":
		return one(fmt.Sprintf("ClearRow(%s=%d)", []string{"f", "g"}[op.Args[0]], op.Args[1])), h.model(op)
	case "store":
		q := fmt.Sprintf("Store(%s, f=%d)", h.srcs[op.Args[0]].pql(), c15StoreDst[op.Args[1]])
		w := h.model(op)
		g := one(q)
		if strings.HasPrefix(g, "ERR") {
			g = "ERR"
		}
		return g, w
	case "read":
		g := c15Run(h.e, h.index, h.reads)
		var gs, ws strings.Builder
		for i, x := range h.reads {
			w := c15Want(x, h.m)
			if g[i] != w {
				// report the first differing expression only: compact, and the key stays specific
				return x.shape() + " -> " + g[i], x.shape() + " -> " + w
			}
			gs.WriteString(g[i])
			ws.WriteString(w)
		}
		return gs.String(), ws.String()
	}
	panic("c15: unknown op " + op.Name)
}

// c15CountStates enumerates, on the model alone, the canonical states the histories reach.
func c15CountStates(alpha []vx.Op, mk func() *c15Hist, depth int, into map[string]struct{}) {
	var rec func(prefix []vx.Op)
	rec = func(prefix []vx.Op) {
		h := mk()
		for _, op := range prefix {
			h.model(op)
		}
		into[h.m.canon()] = struct{}{}
		if len(prefix) == depth {
			return
		}
		for _, op := range alpha {
			if op.Name == "read" {
				continue // reads do not change the model state
			}
			rec(append(append([]vx.Op(nil), prefix...), op))
		}
	}
	rec(nil)
}

func (h *c15Hist) Fingerprint() string { return h.m.canon() }

func (h *c15Hist) Close() {
	h.e.dropIndex(h.index)
	c15PutEnv(h.e)
}

func c15HistKey(p []vx.Op, got, want string) string {
	last := p[len(p)-1]
	ctx := map[string]bool{}
	for _, o := range p[:len(p)-1] {
		ctx[o.Name] = true
	}
	var names []string
	for n := range ctx {
		names = append(names, n)
	}
	sort.Strings(names)
	what := last.Name
	if last.Name == "read" {
		if i := strings.Index(got, " -> "); i > 0 {
			what = "read " + got[:i]
		}
	}
	if strings.HasPrefix(got, "PANIC") {
		what = "panic at " + last.Name
	}
	return "history: " + what + " after=" + strings.Join(names, "+")
}

// ---------------------------------------------------------------------------------------------

func TestVerif_C15(t *testing.T) {
	c := vx.NewCheck("C15", "model_checking",
		"programs x datasets x write histories on a real single-node executor: every expression tree of the bounded family on every subset of the candidate bits (container/shard-edge columns), Store of every depth<=1 tree, and every sequence over {Set,Import,Clear,ClearRow,Store,read} up to the history depth from several base datasets; oracle = set evaluator over map[row]set; distinct = distinct non-empty datasets + distinct canonical model end states of the histories")
	defer c15CloseAll()

	small := []int{c15LeafA, c15LeafB, c15LeafC}
	if c.Thorough() {
		small = []int{c15LeafA, c15LeafB, c15LeafC, 3}
	}
	allLeaves := []int{0, 1, 2, 3, 4, 5, 6, 7, 8, 10, 11, 12, 13}
	d1 := c15Depth1(allLeaves, []int{0, 1, 2, 3}, true)
	// sub-trees for depth 2: depth<=1 trees over the small leaf set, binary/unary operators only
	var subs []*c15X
	for _, a := range small {
		subs = append(subs, c15L(a))
	}
	for _, a := range small {
		subs = append(subs, &c15X{op: "Not", kids: []*c15X{c15L(a)}},
			&c15X{op: "Shift", arg: 1, kids: []*c15X{c15L(a)}}, &c15X{op: "Shift", arg: 2, kids: []*c15X{c15L(a)}})
	}
	for _, op := range c15Bin {
		for _, a := range small {
			for _, b := range small {
				subs = append(subs, &c15X{op: op, kids: []*c15X{c15L(a), c15L(b)}})
			}
		}
	}
	d2 := c15Depth2(subs)
	c.Bound("depth1_trees", len(d1))
	c.Bound("depth2_trees", len(d2))
	c.Bound("depth2_subtrees", len(subs))

	nb1 := c.Pick(6, 9) // candidate bits for the depth<=1 family (+Count, +Store)
	nb2 := c.Pick(4, 7) // candidate bits for the depth-2 family
	c.Bound("candidate_bits_depth1", nb1)
	c.Bound("candidate_bits_depth2", nb2)

	// Every part runs under its own share of the deadline so that a slow machine cannot starve the
	// later parts (on an idle machine no share is reached).
	// existence tracking on: every depth<=1 tree and its Count, every depth-2 tree
	c.WithBudget(float64(c.Pick(50, 250)), func() { c15Part1(c, true, nb1, c15WithCounts(d1), nil, false, "d1") })
	c.WithBudget(float64(c.Pick(60, 500)), func() { c15Part1(c, true, nb2, d2, nil, true, "d2") })
	// Store(<tree>, f=9) + Row(f=9) for every depth<=1 tree over the small leaves + V
	storeTrees := c15Depth1([]int{c15LeafA, c15LeafB, c15LeafC, 3}, nil, false)
	c.Bound("store_trees", len(storeTrees))
	c.WithBudget(float64(c.Pick(25, 100)), func() { c15Part1(c, true, c.Pick(5, 7), nil, storeTrees, false, "store") })
	// existence tracking off: Not must be refused, everything else unchanged
	c.WithBudget(float64(c.Pick(25, 100)), func() { c15Part1(c, false, c.Pick(5, 7), c15WithCounts(d1), nil, true, "d1-notrack") })

	// ---- histories
	states := map[string]struct{}{}
	nHistBits := c.Pick(3, 5)
	srcs := []*c15X{
		c15L(c15LeafB),
		{op: "Union", kids: []*c15X{c15L(c15LeafA), c15L(c15LeafC)}},
		{op: "Not", kids: []*c15X{c15L(c15LeafA)}},
		{op: "Difference", kids: []*c15X{c15L(c15LeafD), c15L(c15LeafA)}},
		c15L(c15LeafC),
		{op: "Intersect", kids: []*c15X{c15L(c15LeafA), c15L(c15LeafB)}},
	}
	srcs = srcs[:c.Pick(4, 6)]
	// read battery of the histories: the stored rows as the executor sees them (plain rows, their
	// counts, the existence-relative complement, one union over all) - operator algebra is part 1.
	hl := []int{c15LeafA, c15LeafB, c15LeafC, c15LeafD}
	var reads []*c15X
	for _, a := range hl {
		reads = append(reads, c15L(a), &c15X{op: "Count", kids: []*c15X{c15L(a)}}, &c15X{op: "Not", kids: []*c15X{c15L(a)}})
	}
	reads = append(reads, &c15X{op: "Union", kids: []*c15X{c15L(hl[0]), c15L(hl[1]), c15L(hl[2]), c15L(hl[3])}},
		&c15X{op: "Difference", kids: []*c15X{c15L(hl[3]), c15L(hl[0])}},
		&c15X{op: "Xor", kids: []*c15X{c15L(hl[1]), c15L(hl[2])}})
	var alpha []vx.Op
	for i := 0; i < nHistBits; i++ {
		alpha = append(alpha, vx.O("set", int64(i)))
	}
	alpha = append(alpha, vx.O("read"))
	for i := 0; i < nHistBits; i++ {
		alpha = append(alpha, vx.O("clear", int64(i)))
	}
	alpha = append(alpha, vx.O("clearRow", 0, 0), vx.O("clearRow", 0, 1), vx.O("clearRow", 1, 0))
	for s := range srcs {
		for d := range c15StoreDst {
			alpha = append(alpha, vx.O("store", int64(s), int64(d)))
		}
	}
	for i := 0; i < nHistBits; i++ {
		alpha = append(alpha, vx.O("import", int64(i)))
	}
	bases := [][]int{{0, 1, 2}, {}}
	if c.Thorough() {
		bases = [][]int{{}, {0, 2}, {1, 3, 4}, {0, 1, 2, 3, 4}} // the last one is explored one level deeper
	}
	c.Bound("history_bases", len(bases))
	c.Bound("history_read_battery", len(reads))
	for bi, base := range bases {
		base := base
		depth := c.Pick(3, 3)
		if c.Thorough() && bi == len(bases)-1 {
			depth = 4
		}
		mkModel := func() *c15Hist {
			in := &c15Hist{m: c15NewModel(true), bits: c15Cand[:nHistBits], srcs: srcs, reads: reads}
			in.m.row("f", 0)
			in.m.row("f", 1)
			in.m.row("f", 3)
			in.m.row("g", 0)
			return in
		}
		h := &vx.Harness{Alphabet: alpha, Key: c15HistKey, MultiProcess: true, New: func() vx.Instance {
			in := mkModel()
			in.e = c15GetEnv()
			in.index = in.e.newIndex(true, false)
			for k, i := range base {
				if k%2 == 0 {
					c15SetBit(in.e, in.index, in.m, c15Cand[i])
				} else {
					c15ImportBit(in.e, in.index, in.m, c15Cand[i])
				}
			}
			return in
		}}
		c.RunDFS(h, depth)
		c.ConfirmViolations(h)
		if !vx.IsChild() {
			c15CountStates(alpha, func() *c15Hist {
				in := mkModel()
				for _, i := range base {
					b := c15Cand[i]
					in.m.row(b.f, b.row)[b.col] = struct{}{}
					in.m.exist[b.col] = struct{}{}
				}
				return in
			}, depth-1, states)
		}
	}
	c.AddStates(int64(len(states)))
	c.AddValidated(c.Evaluations)
	c.Assume("single node, executor worker pool of 1 (result arrival order is C17's subject); columns restricted to container/shard-edge positions of shards 0 and 1; time and int leaves over fixed data")
	if c.Finish() != 0 {
		t.Fail()
	}
}
