package pilosa

// C21 — A resize plan copies every newly owned shard from a surviving owner.
//
// Configuration enumeration on the REAL cluster.fragSources / unprotectedGenerateResizeJobByAction /
// holderCleaner.CleanHolder over REAL holders:
//   clusters of 1..6 nodes x ReplicaN 1..4 x schema variants x every subset of shards {0..5}
//   x every single-node add (new ID sorting before / inside / after the ring) or remove (every node).
// Oracle (the property text): for every node of the resulting cluster, every (field, view, shard) it
// newly owns has a source in the plan; each named source owned that shard before and is not the node
// being removed; the plan is refused iff some newly owned shard has no such source; the resize job
// carries exactly those sources as instructions. Cleanup on a holder that has every fragment, with the
// resulting membership, never removes a fragment of a shard the node owns (and the fragments it does
// remove are of shards it does not own).
// Ownership before/after is taken from the real shardNodes of the before/after clusters (its
// consistency is C20's subject).

import (
	"fmt"
	"sort"
	"strings"
	"sync/atomic"
	"testing"

	"github.com/pilosa/pilosa/internal/vx"
	"github.com/pilosa/pilosa/logger"
	"github.com/pilosa/pilosa/roaring"
)

var c21Ring = []string{"n1", "n2", "n3", "n4", "n5", "n6"}
var c21New = []string{"n0", "n25", "n9"} // sorts before all / between n2 and n3 / after all

func c21Node(id string) *Node {
	return &Node{ID: id, URI: URI{Scheme: "http", Host: "host-" + id, Port: 10101}, State: nodeStateReady}
}

type c21FV struct{ field, view string }

type c21Holder struct {
	h      *Holder
	schema int
	shards []uint64            // data shards of index "i"
	fvs    map[string][]c21FV  // index -> field views
	avail  map[string][]uint64 // index -> shards
	label  string
}

func c21Cluster(ids []string, r int, h *Holder) *cluster {
	c := newCluster()
	c.logger = logger.NopLogger
	c.ReplicaN = r
	for i := len(ids) - 1; i >= 0; i-- {
		c.addNodeBasicSorted(c21Node(ids[i]))
	}
	c.holder = h
	c.Topology = newTopology()
	if len(c.nodes) > 0 {
		c.Node = c.nodes[0]
		c.Coordinator = c.nodes[0].ID
	}
	return c
}

// c21NewHolder builds a real holder whose index "i" has the given data shards in every field view.
// schema 0: one set field; 1: set field + time field (standard + one time view); 2: like 1 plus a
// second index "k" with one field and shards {1,4}.
func c21NewHolder(schema int, shards []uint64) (*c21Holder, error) {
	h := NewHolder()
	h.Path = vx.Scratch()
	if err := h.Open(); err != nil {
		return nil, err
	}
	out := &c21Holder{h: h, schema: schema, shards: shards, fvs: map[string][]c21FV{}, avail: map[string][]uint64{},
		label: fmt.Sprintf("schema=%d shards=%v", schema, shards)}
	mk := func(index, field string, opt FieldOption, views []string, sh []uint64) error {
		idx, err := h.CreateIndexIfNotExists(index, IndexOptions{})
		if err != nil {
			return err
		}
		f, err := idx.CreateField(field, opt)
		if err != nil {
			return err
		}
		bm := roaring.NewBitmap()
		for _, s := range sh {
			_, _ = bm.Add(s)
		}
		if err := f.AddRemoteAvailableShards(bm); err != nil {
			return err
		}
		for _, vn := range views {
			v, err := f.createViewIfNotExists(vn)
			if err != nil {
				return err
			}
			for _, s := range sh {
				if _, err := v.CreateFragmentIfNotExists(s); err != nil {
					return err
				}
			}
			out.fvs[index] = append(out.fvs[index], c21FV{field, vn})
		}
		out.avail[index] = sh
		return nil
	}
	if err := mk("i", "f", OptFieldTypeDefault(), []string{viewStandard}, shards); err != nil {
		return nil, err
	}
	if schema >= 1 {
		if err := mk("i", "t", OptFieldTypeTime("Y"), []string{viewStandard, viewStandard + "_2019"}, shards); err != nil {
			return nil, err
		}
	}
	if schema >= 2 {
		if err := mk("k", "g", OptFieldTypeDefault(), []string{viewStandard}, []uint64{1, 4}); err != nil {
			return nil, err
		}
	}
	return out, nil
}

func (hh *c21Holder) repopulate() error {
	for index, fvs := range hh.fvs {
		for _, fv := range fvs {
			v := hh.h.view(index, fv.field, fv.view)
			if v == nil {
				return fmt.Errorf("view %s/%s/%s vanished", index, fv.field, fv.view)
			}
			for _, s := range hh.avail[index] {
				if v.Fragment(s) == nil {
					if _, err := v.CreateFragmentIfNotExists(s); err != nil {
						return err
					}
				}
			}
		}
	}
	return nil
}

func c21Owns(c *cluster, index string, shard uint64) map[string]bool {
	m := map[string]bool{}
	if len(c.nodes) == 0 {
		return m
	}
	for _, n := range c.shardNodes(index, shard) {
		m[n.ID] = true
	}
	return m
}

type c21Action struct {
	action string
	id     string
}

// c21CheckPlan checks one plan (node -> sources) against the oracle. Returns (key, got, want) of the
// first discrepancy, or "".
func c21CheckPlan(what string, hh *c21Holder, from, to *cluster, act c21Action, plan map[string][]*ResizeSource, refused bool) (string, string, string) {
	removed := ""
	if act.action == resizeJobActionRemove {
		removed = act.id
	}
	kindCtx := fmt.Sprintf("%s action=%s", what, act.action)
	needRefuse := false
	type need struct {
		node, index string
		fv          c21FV
		shard       uint64
	}
	var needs []need
	indexes := make([]string, 0, len(hh.fvs))
	for index := range hh.fvs {
		indexes = append(indexes, index)
	}
	sort.Strings(indexes)
	for _, index := range indexes {
		for _, s := range hh.avail[index] {
			before, after := c21Owns(from, index, s), c21Owns(to, index, s)
			valid := 0
			for id := range before {
				if id != removed {
					valid++
				}
			}
			for _, n := range to.nodes {
				if after[n.ID] && !before[n.ID] {
					if valid == 0 {
						needRefuse = true
					}
					for _, fv := range hh.fvs[index] {
						needs = append(needs, need{n.ID, index, fv, s})
					}
				}
			}
		}
	}
	if refused != needRefuse {
		if refused {
			return kindCtx + " refused although every newly owned shard has a surviving owner", "refused", "plan"
		}
		return kindCtx + " not refused although a newly owned shard has no surviving owner", "plan", "refused"
	}
	if refused {
		return "", "", ""
	}
	// index the plan
	have := map[string]*ResizeSource{}
	for node, srcs := range plan {
		if to.unprotectedNodeByID(node) == nil {
			if len(srcs) > 0 {
				return kindCtx + " plan has sources for a node outside the resulting cluster", node, "member of resulting cluster"
			}
			continue
		}
		for _, s := range srcs {
			if s == nil || s.Node == nil {
				return kindCtx + " nil source", fmt.Sprintf("node=%s", node), "source"
			}
			k := fmt.Sprintf("%s|%s|%s|%s|%d", node, s.Index, s.Field, s.View, s.Shard)
			have[k] = s
			before := c21Owns(from, s.Index, s.Shard)
			if s.Node.ID == removed {
				return kindCtx + " source is the node being removed", fmt.Sprintf("dest=%s %s/%s/%s/%d source=%s", node, s.Index, s.Field, s.View, s.Shard, s.Node.ID), "a surviving previous owner"
			}
			if !before[s.Node.ID] {
				return kindCtx + " source did not own the shard before", fmt.Sprintf("dest=%s %s/%s/%s/%d source=%s", node, s.Index, s.Field, s.View, s.Shard, s.Node.ID), "one of " + c21Keys(before)
			}
		}
	}
	needed := map[string]bool{}
	for _, nd := range needs {
		k := fmt.Sprintf("%s|%s|%s|%s|%d", nd.node, nd.index, nd.fv.field, nd.fv.view, nd.shard)
		needed[k] = true
	}
	for k := range have {
		if !needed[k] {
			atomic.AddInt64(&c21ExtraSources, 1)
		}
	}
	for _, nd := range needs {
		k := fmt.Sprintf("%s|%s|%s|%s|%d", nd.node, nd.index, nd.fv.field, nd.fv.view, nd.shard)
		if have[k] == nil {
			return kindCtx + " newly owned fragment has no source", fmt.Sprintf("dest=%s %s/%s/%s/%d", nd.node, nd.index, nd.fv.field, nd.fv.view, nd.shard), "a source"
		}
	}
	return "", "", ""
}

func c21Keys(m map[string]bool) string {
	var s []string
	for k := range m {
		s = append(s, k)
	}
	sort.Strings(s)
	return strings.Join(s, ",")
}

var c21Removed, c21LeftUnowned, c21Refused, c21ExtraSources int64

func c21RunHolder(c *vx.Check, hh *c21Holder, maxN int, cleanup bool, plans, cleans *int64) {
	type toKey struct {
		ids string
		r   int
	}
	cleaned := map[toKey]bool{}
	for n := 1; n <= maxN; n++ {
		ids := c21Ring[:n]
		var acts []c21Action
		for _, id := range c21New {
			acts = append(acts, c21Action{resizeJobActionAdd, id})
		}
		for _, id := range ids {
			acts = append(acts, c21Action{resizeJobActionRemove, id})
		}
		for r := 1; r <= 4; r++ {
			for _, act := range acts {
				if c.Expired() {
					return
				}
				var toIDs []string
				for _, id := range ids {
					if !(act.action == resizeJobActionRemove && id == act.id) {
						toIDs = append(toIDs, id)
					}
				}
				if act.action == resizeJobActionAdd {
					toIDs = append(toIDs, act.id)
				}
				from := c21Cluster(ids, r, hh.h)
				to := c21Cluster(toIDs, r, hh.h)
				cs := fmt.Sprintf("nodes=%v replicas=%d %s %s %s", ids, r, act.action, act.id, hh.label)
				atomic.AddInt64(plans, 1)
				c.AddEval(1)

				// (1) fragSources per index
				plan := map[string][]*ResizeSource{}
				refused := false
				var ferr error
				pan := vx.Guard(func() {
					for _, idx := range hh.h.Indexes() {
						m, err := from.fragSources(to, idx)
						if err != nil {
							refused, ferr = true, err
							return
						}
						for k, v := range m {
							plan[k] = append(plan[k], v...)
						}
					}
				})
				if pan != "" {
					c.Violate("fragSources panic action="+act.action, cs, pan, "no panic")
					continue
				}
				if refused && !strings.Contains(ferr.Error(), "not enough data") {
					c.Violate("fragSources unexpected error action="+act.action, cs, ferr.Error(), "plan or 'not enough data' refusal")
					continue
				}
				if key, got, want := c21CheckPlan("fragSources", hh, from, to, act, plan, refused); key != "" {
					c.Violate(key, cs, got, want)
					continue
				}

				// (2) the resize job built by the coordinator
				var job *resizeJob
				var jerr error
				nd := c21Node(act.id)
				if act.action == resizeJobActionRemove {
					nd = &Node{ID: act.id} // as nodeLeave does
				}
				pan = vx.Guard(func() {
					job, jerr = from.unprotectedGenerateResizeJobByAction(nodeAction{node: nd, action: act.action})
				})
				if pan != "" {
					c.Violate("generateResizeJob panic action="+act.action, cs, pan, "no panic")
					continue
				}
				jplan := map[string][]*ResizeSource{}
				if jerr == nil {
					bad := false
					for _, in := range job.Instructions {
						if in.Node == nil || to.unprotectedNodeByID(in.Node.ID) == nil {
							c.Violate("resize instruction addressed to a node outside the resulting cluster action="+act.action, cs, fmt.Sprint(in.Node), "member of "+strings.Join(to.nodeIDs(), ","))
							bad = true
							break
						}
						jplan[in.Node.ID] = append(jplan[in.Node.ID], in.Sources...)
					}
					if bad {
						continue
					}
					// every resulting node is tracked by the job
					for _, tn := range to.nodes {
						if _, ok := job.IDs[tn.ID]; !ok {
							c.Violate("resize job does not track a resulting node action="+act.action, cs, tn.ID, "tracked")
							bad = true
							break
						}
					}
					if bad {
						continue
					}
				}
				if key, got, want := c21CheckPlan("resizeJob", hh, from, to, act, jplan, jerr != nil); key != "" {
					c.Violate(key, cs, got, want)
					continue
				}
				nsrc := 0
				for _, v := range plan {
					nsrc += len(v)
				}
				if refused {
					atomic.AddInt64(&c21Refused, 1)
				}
				c.Outcome(fmt.Sprintf("refused=%v sources=%d", refused, nsrc))
				if nsrc > 0 || refused {
					c.Distinct(cs)
				}
				if atomic.LoadInt64(plans)%1500 == 1 {
					c.Sample(fmt.Sprintf("%s -> refused=%v sources=%d", cs, refused, nsrc))
				}

				// (3) cleanup with the resulting membership, on every resulting node
				if !cleanup || len(toIDs) == 0 {
					continue
				}
				tk := toKey{strings.Join(to.nodeIDs(), ","), r}
				if cleaned[tk] {
					continue
				}
				cleaned[tk] = true
				for _, x := range to.nodes {
					to.Node = x
					cl := holderCleaner{Node: x, Holder: hh.h, Cluster: to, Closing: make(chan struct{})}
					var cerr error
					if pan := vx.Guard(func() { cerr = cl.CleanHolder() }); pan != "" || cerr != nil {
						c.Violate("CleanHolder error", cs+" on-node="+x.ID, pan+fmt.Sprint(cerr), "nil")
						break
					}
					atomic.AddInt64(cleans, 1)
					c.AddEval(1)
					removedN, keptUnowned := 0, 0
					bad := false
					for index, fvs := range hh.fvs {
						for _, s := range hh.avail[index] {
							owns := c21Owns(to, index, s)[x.ID]
							for _, fv := range fvs {
								present := hh.h.fragment(index, fv.field, fv.view, s) != nil
								switch {
								case owns && !present:
									c.Violate("cleanup removed a fragment of a shard the node owns", fmt.Sprintf("%s on-node=%s fragment=%s/%s/%s/%d", cs, x.ID, index, fv.field, fv.view, s), "removed", "kept")
									bad = true
								case !owns && present:
									keptUnowned++
								case !owns && !present:
									removedN++
								}
							}
						}
					}
					if bad {
						_ = hh.repopulate()
						break
					}
					atomic.AddInt64(&c21Removed, int64(removedN))
					atomic.AddInt64(&c21LeftUnowned, int64(keptUnowned))
					c.Outcome(fmt.Sprintf("cleanup removed=%d left-unowned=%d", removedN, keptUnowned))
					if removedN > 0 {
						c.Distinct(fmt.Sprintf("cleanup %s r=%d x=%s %s", tk.ids, r, x.ID, hh.label))
					}
					if err := hh.repopulate(); err != nil {
						c.Violate("harness: repopulate", cs, err.Error(), "ok")
						return
					}
				}
			}
		}
	}
}

func TestVerif_C21(t *testing.T) {
	c := vx.NewCheck("C21", "exploration",
		"clusters of 1..6 nodes x ReplicaN 1..4 x schema variants x every subset of shards {0..5} x every single add (new ID before/inside/after the ring) or remove: real fragSources and unprotectedGenerateResizeJobByAction over a real holder name a source for every newly owned (field,view,shard), every source is a previous owner other than the removed node, refusal iff no such owner exists; real CleanHolder with the resulting membership on a fully populated holder never removes an owned shard; distinct = configurations with a non-empty plan or a refusal + cleanups that removed something")
	type hjob struct {
		schema int
		mask   int
	}
	var jobs []hjob
	schemas := []int{0, 1}
	if c.Thorough() {
		schemas = []int{0, 1, 2}
	}
	nShards := c.Pick(6, 8) // data shards are subsets of {0..nShards-1}
	c.Bound("shard_universe", nShards)
	for _, s := range schemas {
		for m := 0; m < 1<<uint(nShards); m++ {
			jobs = append(jobs, hjob{s, m})
		}
	}
	c.Bound("holders", len(jobs))
	c.Bound("ring", c21Ring)
	c.Bound("new_ids", c21New)
	c.Bound("replicas", "1..4")
	var plans, cleans int64
	vx.ParallelFor(len(jobs), func(i int) {
		j := jobs[i]
		var shards []uint64
		for b := 0; b < nShards; b++ {
			if j.mask&(1<<uint(b)) != 0 {
				shards = append(shards, uint64(b))
			}
		}
		hh, err := c21NewHolder(j.schema, shards)
		if err != nil {
			c.Violate("harness: holder", fmt.Sprintf("schema=%d shards=%v", j.schema, shards), err.Error(), "ok")
			return
		}
		defer hh.h.Close()
		// cleanup runs on the richest schema of the tier (all fields and views present)
		cleanup := j.schema == schemas[len(schemas)-1] || c.Thorough()
		c21RunHolder(c, hh, 6, cleanup, &plans, &cleans)
	})
	c.Extra("plans", plans)
	c.Extra("cleanups", cleans)
	c.Extra("plans_refused", c21Refused)
	c.Extra("cleanup_fragments_removed", c21Removed)
	c.Extra("cleanup_unowned_fragments_left", c21LeftUnowned)
	c.Extra("plan_sources_for_not_newly_owned", c21ExtraSources)
	c.AddValidated(c.Evaluations)
	c.Assume("ownership before/after is read from the real shardNodes of the before/after clusters (C20 checks its consistency); sources for fragments that are not newly owned are not counted as violations (the property does not forbid them); fragments of un-owned shards left behind by cleanup are recorded, not flagged (the property only demands that nothing owned is removed)")
	if c.Finish() != 0 {
		t.Fail()
	}
}
