package pilosa

// C13 — Mutex and bool fields hold at most one value per column (last writer wins).
//
// History exploration (explicit-state model checking) on a REAL mutex / bool field of a REAL
// in-process node: Set and Clear run as PQL on the executor, Import / Import-clear run through
// API.Import, reads are PQL Row() / Rows(column=) and are operations of the alphabet themselves
// (they fill the fragment's row cache). The alphabet contains ALL import batches of length <= 3 over
// 2 columns x 3 rows (mutex; 2 rows for bool) — repeats and conflicting repeats included.
// Reference model: map column -> row, updated pair by pair in batch order (last writer wins).
// Every write is followed by a storage-level read (fragment.forEachBit, touches no cache) compared
// with the model, so a bad write is caught at the write; cached read paths are caught by the read ops.

import (
	"context"
	"fmt"
	"sort"
	"strings"
	"sync"
	"testing"

	"github.com/pilosa/pilosa/internal/vx"
	"github.com/pilosa/pilosa/pql"
)

type c13Ser struct{}

func (c13Ser) Marshal(Message) ([]byte, error)  { return []byte{}, nil }
func (c13Ser) Unmarshal([]byte, Message) error { return nil }

type c13Node struct {
	srv    *Server
	api    *API
	idx    *Index
	pmu    sync.Mutex
	parsed map[string]*pql.Query
}

func c13NewNode() *c13Node {
	s, err := NewServer(
		OptServerDataDir(vx.Scratch()),
		OptServerNodeID("c13node"),
		OptServerClusterDisabled(true, nil),
		OptServerSerializer(c13Ser{}),
		OptServerIsCoordinator(true),
	)
	if err != nil {
		panic(err)
	}
	if err := s.Open(); err != nil {
		panic(err)
	}
	api, err := NewAPI(OptAPIServer(s))
	if err != nil {
		panic(err)
	}
	idx, err := s.holder.CreateIndex("i", IndexOptions{})
	if err != nil {
		panic(err)
	}
	return &c13Node{srv: s, api: api, idx: idx, parsed: map[string]*pql.Query{}}
}

func (n *c13Node) query(q string) (interface{}, error) {
	pq := n.parsed[q]
	if pq == nil {
		var err error
		if pq, err = pql.ParseString(q); err != nil {
			return nil, err
		}
		n.parsed[q] = pq
	}
	// the executor rewrites call arguments in place (bool / key translation): run a copy
	run := &pql.Query{Calls: make([]*pql.Call, len(pq.Calls))}
	for i := range pq.Calls {
		run.Calls[i] = pq.Calls[i].Clone()
	}
	resp, err := n.srv.executor.Execute(context.Background(), "i", run, nil, nil)
	if err != nil {
		return nil, err
	}
	return resp.Results[0], nil
}

type c13Pair struct{ row, col uint64 }

type c13Cfg struct {
	kind string   // "mutex" | "bool"
	cols []uint64 // the two columns
	rows []uint64
}

type c13Inst struct {
	cfg   *c13Cfg
	pool  *sync.Pool
	n     *c13Node
	f     *Field
	model map[uint64]uint64 // column -> row
	batch [][]c13Pair
}

func (cf *c13Cfg) rowArg(r uint64) string {
	if cf.kind == "bool" {
		if r == 1 {
			return "true"
		}
		return "false"
	}
	return fmt.Sprint(r)
}

func (in *c13Inst) modelString() string {
	cs := make([]uint64, 0, len(in.model))
	for c := range in.model {
		cs = append(cs, c)
	}
	sort.Slice(cs, func(i, j int) bool { return cs[i] < cs[j] })
	var sb strings.Builder
	for _, c := range cs {
		fmt.Fprintf(&sb, "col%d=row%d ", c, in.model[c])
	}
	return sb.String()
}

// storage: every (row, column) bit in the standard view's fragment, straight from storage.
func (in *c13Inst) storageString() string {
	frag := in.n.srv.holder.fragment("i", "f", viewStandard, 0)
	if frag == nil {
		return ""
	}
	type rc struct{ r, c uint64 }
	var bits []rc
	_ = frag.forEachBit(func(r, c uint64) error { bits = append(bits, rc{r, c}); return nil })
	sort.Slice(bits, func(i, j int) bool {
		if bits[i].c != bits[j].c {
			return bits[i].c < bits[j].c
		}
		return bits[i].r < bits[j].r
	})
	var sb strings.Builder
	for _, b := range bits {
		fmt.Fprintf(&sb, "col%d=row%d ", b.c, b.r)
	}
	return sb.String()
}

func (in *c13Inst) Apply(op vx.Op) (got, want string) {
	cf := in.cfg
	switch op.Name {
	case "Set":
		col, row := cf.cols[op.Args[0]], cf.rows[op.Args[1]]
		_, err := in.n.query(fmt.Sprintf("Set(%d, f=%s)", col, cf.rowArg(row)))
		in.model[col] = row
		return fmt.Sprint(err) + " | " + in.storageString(), "<nil> | " + in.modelString()
	case "Clear":
		col, row := cf.cols[op.Args[0]], cf.rows[op.Args[1]]
		_, err := in.n.query(fmt.Sprintf("Clear(%d, f=%s)", col, cf.rowArg(row)))
		if r, ok := in.model[col]; ok && r == row {
			delete(in.model, col)
		}
		return fmt.Sprint(err) + " | " + in.storageString(), "<nil> | " + in.modelString()
	case "ClearRow":
		row := cf.rows[op.Args[0]]
		_, err := in.n.query(fmt.Sprintf("ClearRow(f=%s)", cf.rowArg(row)))
		for c, r := range in.model {
			if r == row {
				delete(in.model, c)
			}
		}
		return fmt.Sprint(err) + " | " + in.storageString(), "<nil> | " + in.modelString()
	case "Import", "ImportClear":
		b := in.batch[op.Args[0]]
		req := &ImportRequest{Index: "i", Field: "f", Shard: 0}
		for _, p := range b {
			req.RowIDs = append(req.RowIDs, p.row)
			req.ColumnIDs = append(req.ColumnIDs, p.col)
		}
		var err error
		if op.Name == "Import" {
			err = in.n.api.Import(context.Background(), req)
			for _, p := range b {
				in.model[p.col] = p.row
			}
		} else {
			err = in.n.api.Import(context.Background(), req, OptImportOptionsClear(true))
			for _, p := range b {
				if r, ok := in.model[p.col]; ok && r == p.row {
					delete(in.model, p.col)
				}
			}
		}
		return fmt.Sprint(err) + " | " + in.storageString(), "<nil> | " + in.modelString()
	case "Reopen":
		// a clean restart of the holder in the middle of the history: the fragments are loaded from
		// disk by the start-up path instead of being created by the write path
		h := in.n.srv.holder
		if err := h.Close(); err != nil {
			return "close: " + err.Error(), "<nil>"
		}
		if err := h.Open(); err != nil {
			return "open: " + err.Error(), "<nil>"
		}
		in.n.idx = h.Index("i")
		if in.n.idx == nil {
			return "index i is gone after reopen", "index i"
		}
		in.f = in.n.idx.Field("f")
		if in.f == nil {
			return "field f is gone after reopen", "field f"
		}
		return "<nil> | " + in.storageString(), "<nil> | " + in.modelString()
	case "rRow":
		// PQL Row(f=r) for every row: columns per row
		var g, w strings.Builder
		for _, r := range cf.rows {
			res, err := in.n.query(fmt.Sprintf("Row(f=%s)", cf.rowArg(r)))
			if err != nil {
				fmt.Fprintf(&g, "row%d:ERR %v ", r, err)
			} else {
				fmt.Fprintf(&g, "row%d:%v ", r, res.(*Row).Columns())
			}
			var cs []uint64
			for _, c := range cf.cols {
				if mr, ok := in.model[c]; ok && mr == r {
					cs = append(cs, c)
				}
			}
			fmt.Fprintf(&w, "row%d:%v ", r, append([]uint64{}, cs...))
		}
		return g.String(), w.String()
	case "rRows":
		// PQL Rows(f, column=c) for every column: the rows holding that column (at most one)
		var g, w strings.Builder
		for _, c := range cf.cols {
			res, err := in.n.query(fmt.Sprintf("Rows(f, column=%d)", c))
			if err != nil {
				fmt.Fprintf(&g, "col%d:ERR %v ", c, err)
			} else {
				var rows []uint64
				switch v := res.(type) {
				case RowIdentifiers:
					rows = v.Rows
				case RowIDs:
					rows = v
				default:
					fmt.Fprintf(&g, "col%d:unexpected-type-%T ", c, res)
					continue
				}
				fmt.Fprintf(&g, "col%d:%v ", c, append([]uint64{}, rows...))
			}
			rs := []uint64{}
			if mr, ok := in.model[c]; ok {
				rs = append(rs, mr)
			}
			fmt.Fprintf(&w, "col%d:%v ", c, rs)
		}
		return g.String(), w.String()
	}
	panic("unknown op " + op.Name)
}

// Fingerprint: model + everything in the fragment that can influence later behaviour: container
// layout (key, N) of storage (empty containers included), row-cache keys, maxRowID.
func (in *c13Inst) Fingerprint() string {
	var sb strings.Builder
	sb.WriteString(in.modelString())
	frag := in.n.srv.holder.fragment("i", "f", viewStandard, 0)
	if frag == nil {
		return sb.String() + "#nofrag"
	}
	frag.mu.Lock()
	defer frag.mu.Unlock()
	sb.WriteString("#")
	cit, _ := frag.storage.Containers.Iterator(0)
	for cit.Next() {
		k, c := cit.Value()
		if c == nil {
			fmt.Fprintf(&sb, "%d:nil,", k)
		} else {
			fmt.Fprintf(&sb, "%d:%d,", k, c.N())
		}
	}
	if sc, ok := frag.rowCache.(*simpleCache); ok {
		ks := make([]uint64, 0, len(sc.cache))
		for k := range sc.cache {
			ks = append(ks, k)
		}
		sort.Slice(ks, func(i, j int) bool { return ks[i] < ks[j] })
		fmt.Fprintf(&sb, "|rc=%v", ks)
	}
	// the rank cache is left out on purpose: it can influence TopN only, never Set/Clear/Import or
	// the Row()/Rows() reads of this alphabet.
	fmt.Fprintf(&sb, "|max=%d", frag.maxRowID)
	return sb.String()
}

func (in *c13Inst) Close() {
	if err := in.n.idx.DeleteField("f"); err != nil {
		panic(err)
	}
	in.pool.Put(in.n)
}

func c13Batches(cf *c13Cfg, maxLen int) [][]c13Pair {
	var pairs []c13Pair
	for _, c := range cf.cols {
		for _, r := range cf.rows {
			pairs = append(pairs, c13Pair{r, c})
		}
	}
	var out [][]c13Pair
	var rec func(cur []c13Pair, l int)
	for l := 1; l <= maxLen; l++ {
		rec = func(cur []c13Pair, l int) {
			if len(cur) == l {
				out = append(out, append([]c13Pair(nil), cur...))
				return
			}
			for _, p := range pairs {
				rec(append(cur, p), l)
			}
		}
		rec(nil, l)
	}
	return out
}

// alphabet: importLen = max batch length for Import ops, clearLen for ImportClear ops.
func c13Alphabet(cf *c13Cfg, batches [][]c13Pair, importLen, clearLen int) []vx.Op {
	var a []vx.Op
	for ci := range cf.cols {
		for ri := range cf.rows {
			a = append(a, vx.O("Set", int64(ci), int64(ri)))
		}
	}
	for ci := range cf.cols {
		for ri := range cf.rows {
			a = append(a, vx.O("Clear", int64(ci), int64(ri)))
		}
	}
	a = append(a, vx.O("rRow"))
	if cf.kind != "bool" {
		// Rows(f, column=c) on a bool field fails in translateCall ("missing bool argument": it wants a
		// bool `previous`), an executor defect outside this property; bool is observed through Row().
		a = append(a, vx.O("rRows"))
	}
	for i, b := range batches {
		if len(b) <= importLen {
			a = append(a, vx.O("Import", int64(i)))
		}
	}
	for i, b := range batches {
		if len(b) <= clearLen {
			a = append(a, vx.O("ImportClear", int64(i)))
		}
	}
	for ri := range cf.rows {
		a = append(a, vx.O("ClearRow", int64(ri)))
	}
	a = append(a, vx.O("Reopen"))
	return a
}

// c13MiniAlphabet: one column (the last of the configuration: the one in a later container where there
// is one) x the first two rows, every write path once per row, plus the reads — small enough for
// histories of length 4-5 (write, read, move the column by another path, read again).
func c13MiniAlphabet(cf *c13Cfg, batches [][]c13Pair) []vx.Op {
	ci := len(cf.cols) - 1
	col := cf.cols[ci]
	var a []vx.Op
	for ri := 0; ri < 2; ri++ {
		a = append(a, vx.O("Set", int64(ci), int64(ri)), vx.O("Clear", int64(ci), int64(ri)), vx.O("ClearRow", int64(ri)))
	}
	for i, b := range batches {
		if len(b) == 1 && b[0].col == col && (b[0].row == cf.rows[0] || b[0].row == cf.rows[1]) {
			a = append(a, vx.O("Import", int64(i)), vx.O("ImportClear", int64(i)))
		}
	}
	a = append(a, vx.O("rRow"))
	if cf.kind != "bool" {
		a = append(a, vx.O("rRows"))
	}
	a = append(a, vx.O("Reopen"))
	return a
}

// c13Key: finding key = field kind + failing op kind + shape of the failing op + what went wrong.
func c13Key(cf *c13Cfg, batches [][]c13Pair, p []vx.Op, got, want string) string {
	last := p[len(p)-1]
	var pre []string
	seen := map[string]bool{}
	for _, o := range p[:len(p)-1] {
		if !seen[o.Name] {
			seen[o.Name] = true
			pre = append(pre, o.Name)
		}
	}
	sort.Strings(pre)
	ctx := "fresh-field"
	if len(pre) > 0 {
		ctx = "after=" + strings.Join(pre, "+")
	}
	what := "wrong-state"
	switch {
	case strings.HasPrefix(got, "PANIC"):
		what = "panic"
	case !strings.HasPrefix(got, "<nil>") && (last.Name != "rRow" && last.Name != "rRows"):
		what = "error"
	case c13TwoValues(got):
		what = "two-values-in-a-column"
	}
	shape := ""
	if last.Name == "Import" || last.Name == "ImportClear" {
		b := batches[last.Args[0]]
		// shape of the batch: length, whether a column repeats, whether the repeat conflicts
		rep, conflict := false, false
		for i := range b {
			for j := 0; j < i; j++ {
				if b[i].col == b[j].col {
					rep = true
					if b[i].row != b[j].row {
						conflict = true
					}
				}
			}
		}
		shape = fmt.Sprintf(" batch(len=%d,repeated-column=%v,conflicting=%v)", len(b), rep, conflict)
	}
	return fmt.Sprintf("%s %s at=%s%s %s", cf.kind, what, last.Name, shape, ctx)
}

func c13TwoValues(got string) bool {
	// "col1=row0 col1=row2" in a storage rendering
	f := strings.Fields(got)
	seen := map[string]bool{}
	for _, x := range f {
		if i := strings.Index(x, "="); i > 0 && strings.HasPrefix(x, "col") {
			if seen[x[:i]] {
				return true
			}
			seen[x[:i]] = true
		}
	}
	return false
}

func TestVerif_C13(t *testing.T) {
	c := vx.NewCheck("C13", "model_checking",
		"all operation sequences (Set, Clear, ClearRow, Import and Import-clear with every batch of length<=3 over 2 columns x 3 rows (2 rows for bool), reads Row()/Rows(column=), and a clean holder reopen) on a real mutex / bool field of an in-process node: exhaustive DFS to the stated depths (depth 2 full alphabet, depth 3 reduced batches, depth 4/5 over a one-column mini alphabet), then state-merged BFS over (model, storage layout, row cache, rank cache); last-writer-wins model; distinct = distinct canonical end states")
	var nodesMu sync.Mutex
	var nodes []*c13Node
	pool := &sync.Pool{New: func() interface{} {
		n := c13NewNode()
		nodesMu.Lock()
		nodes = append(nodes, n)
		nodesMu.Unlock()
		return n
	}}
	defer func() {
		for _, n := range nodes {
			_ = n.api.Close()
			_ = n.srv.Close()
		}
	}()

	cfgs := []*c13Cfg{
		{kind: "mutex", cols: []uint64{1, 2}, rows: []uint64{0, 1, 2}},
		// columns in different containers of the row (the existing-value lookup walks containers)
		{kind: "bool", cols: []uint64{1, 65537}, rows: []uint64{0, 1}},
		// ... and rows far apart
		{kind: "mutex", cols: []uint64{1, 65537}, rows: []uint64{0, 3, 200}},
	}
	if c.Thorough() {
		cfgs = append(cfgs, &c13Cfg{kind: "bool", cols: []uint64{1, 2}, rows: []uint64{0, 1}},
			&c13Cfg{kind: "mutex", cols: []uint64{65536 + 5, 3*65536 + 5}, rows: []uint64{1, 2, 4}})
	}
	for _, cf := range cfgs {
		cf := cf
		batches := c13Batches(cf, 3)
		newInst := func() vx.Instance {
			n := pool.Get().(*c13Node)
			var opt FieldOption
			if cf.kind == "bool" {
				opt = OptFieldTypeBool()
			} else {
				opt = OptFieldTypeMutex(DefaultCacheType, DefaultCacheSize)
			}
			f, err := n.idx.CreateField("f", opt)
			if err != nil {
				panic(err)
			}
			return &c13Inst{cfg: cf, pool: pool, n: n, f: f, model: map[uint64]uint64{}, batch: batches}
		}
		key := func(p []vx.Op, g, w string) string { return c13Key(cf, batches, p, g, w) }
		// Phase A1: every pair of operations over the FULL alphabet (all batches of length <= 3).
		hFull := &vx.Harness{MultiProcess: true, Alphabet: c13Alphabet(cf, batches, 3, 2), New: newInst, Key: key}
		c.RunDFS(hFull, 2)
		c.ConfirmViolations(hFull)
		// Phase A2: depth 3 with batches of length <= 1 (quick) / <= 2 (thorough).
		hMid := &vx.Harness{MultiProcess: true, Alphabet: c13Alphabet(cf, batches, c.Pick(1, 2), c.Pick(1, 2)), New: newInst, Key: key}
		c.RunDFS(hMid, 3)
		c.ConfirmViolations(hMid)
		if c.Thorough() {
			// depth 4 with single-pair imports
			hSmall := &vx.Harness{MultiProcess: true, Alphabet: c13Alphabet(cf, batches, 1, 1), New: newInst, Key: key}
			c.RunDFS(hSmall, 4)
			c.ConfirmViolations(hSmall)
		}
		// Phase A3: longer histories over the one-column mini alphabet (reads between writes matter:
		// they fill the row cache that a later write by another path has to invalidate).
		hMini := &vx.Harness{MultiProcess: true, Alphabet: c13MiniAlphabet(cf, batches), New: newInst, Key: key}
		c.RunDFS(hMini, c.Pick(4, 5))
		c.ConfirmViolations(hMini)
		c.Bound(fmt.Sprintf("alphabet_mini_%s_cols%v_rows%v", cf.kind, cf.cols, cf.rows), len(hMini.Alphabet))
		// Phase B: state-merged BFS, full alphabet.
		c.RunBFS(hFull, c.Pick(3, 8), c.Pick(5000, 30000))
		c.ConfirmViolations(hFull)
		c.Bound(fmt.Sprintf("alphabet_full_%s_cols%v_rows%v", cf.kind, cf.cols, cf.rows), len(hFull.Alphabet))
		c.Bound(fmt.Sprintf("alphabet_depth3_%s_cols%v_rows%v", cf.kind, cf.cols, cf.rows), len(hMid.Alphabet))
	}
	c13KeyedPart(c) // keyed index + keyed mutex field / bool field: API.Import's keyed route
	c.AddValidated(c.Evaluations)
	c.Assume("two columns of one shard (in the same and in different containers of a row) and three rows (two for bool; adjacent and far apart) are representative: the mutex logic is per column and compares row ids only for equality")
	if c.Finish() != 0 {
		t.Fail()
	}
}
