package pilosa

// C16 — Rows over a time range whose bounds are NOT aligned to the field's quantum ("rows that have
// at least one bit in the given time range"). Fields with quantum YM and M (months, no days): one
// row per month over two windows (a non-leap and a leap winter/spring), `from` = EVERY day of the
// window, `to` = none / a day-unaligned date / a month-aligned date. What the answer must be for a
// month that the range only partly covers is not stated by the property, so the oracle is two-sided:
// every row whose month lies completely inside [from,to) MUST be returned, no row whose month lies
// completely outside may be returned, the list is ascending and duplicate free.

import (
	"context"
	"fmt"
	"strings"
	"time"

	"github.com/pilosa/pilosa/internal/vx"
)

func c16Part2b(c *vx.Check) {
	type cfg struct {
		q    string
		name string
	}
	cfgs := []cfg{{"YM", "tym"}, {"M", "tmo"}, {"YMD", "tymd"}}
	windows := [][2]time.Time{
		{time.Date(2000, 12, 20, 0, 0, 0, 0, time.UTC), time.Date(2001, 6, 5, 0, 0, 0, 0, time.UTC)},
		{time.Date(2004, 1, 20, 0, 0, 0, 0, time.UTC), time.Date(2004, 4, 5, 0, 0, 0, 0, time.UTC)},
	}
	c.Bound("part2b_fields", len(cfgs))
	c.ProcFor(c.NextRunLabel(), len(cfgs)*len(windows), nil, func(_ []byte, ji int, _ func([]byte)) {
		if c.Expired() {
			return
		}
		cf, win := cfgs[ji/len(windows)], windows[ji%len(windows)]
		e := c16GetEnv()
		defer c16PutEnv(e)
		index := e.newIndex(true)
		defer e.dropIndex(index)
		if _, err := e.api.CreateField(context.Background(), index, cf.name, OptFieldTypeTime(TimeQuantum(cf.q))); err != nil {
			panic(fmt.Sprintf("c16: CreateField %s: %v", cf.name, err))
		}
		// one row per month: a bit on the 10th of every month from two months before the window to two after
		type mrow struct {
			row        uint64
			start, end time.Time
		}
		var months []mrow
		var sb strings.Builder
		m0 := time.Date(win[0].Year(), win[0].Month(), 1, 0, 0, 0, 0, time.UTC).AddDate(0, -2, 0)
		for i := 0; ; i++ {
			s := m0.AddDate(0, i, 0)
			if s.After(win[1].AddDate(0, 3, 0)) {
				break
			}
			months = append(months, mrow{uint64(i + 1), s, s.AddDate(0, 1, 0)})
			fmt.Fprintf(&sb, "Set(%d, %s=%d, %s)\n", i, cf.name, i+1, s.AddDate(0, 0, 9).Format(TimeFormat))
		}
		if _, err := e.query(index, sb.String()); err != nil {
			c.Violate("write refused", cf.q, err.Error(), "<nil>")
			return
		}
		ds := fmt.Sprintf("time field %s, one row per month %s..%s", cf.q, months[0].start.Format("2006-01"), months[len(months)-1].start.Format("2006-01"))
		var calls []c16Call
		for from := win[0]; from.Before(win[1]); from = from.AddDate(0, 0, 1) {
			tos := []time.Time{{}, from.AddDate(0, 0, 75), time.Date(from.Year(), from.Month(), 1, 0, 0, 0, 0, time.UTC).AddDate(0, 3, 0), from.AddDate(0, 0, 33)}
			for _, to := range tos {
				from, to := from, to
				q := fmt.Sprintf("Rows(%s, from='%s'", cf.name, from.Format(TimeFormat))
				if !to.IsZero() {
					q += fmt.Sprintf(", to='%s'", to.Format(TimeFormat))
				}
				q += ")"
				must, may := map[string]bool{}, map[string]bool{}
				for _, m := range months {
					inside := !m.start.Before(from) && (to.IsZero() || !m.end.After(to))
					outside := !m.end.After(from) || (!to.IsZero() && !m.start.Before(to))
					if cf.q == "M" {
						// quantum M has no year: a month view holds that month of EVERY year, so a row of
						// another year's month may legitimately come back — only "must" is claimed
						outside = false
					}
					if inside {
						must[fmt.Sprint(m.row)] = true
					}
					if !outside {
						may[fmt.Sprint(m.row)] = true
					}
				}
				calls = append(calls, c16Call{pql: q, judge: func(v interface{}) (string, string, string) {
					got := c16GotRows(v)
					fs := strings.Fields(strings.Trim(got, "[]"))
					seen := map[string]bool{}
					var problems []string
					var prev uint64
					for i, f := range fs {
						var r uint64
						fmt.Sscan(f, &r)
						if i > 0 && r <= prev {
							problems = append(problems, "not ascending/distinct at "+f)
						}
						prev = r
						seen[f] = true
						if !may[f] {
							problems = append(problems, "row "+f+" has no bit in the range (its month lies outside)")
						}
					}
					for r := range must {
						if !seen[r] {
							problems = append(problems, "row "+r+" missing (its month lies completely inside the range)")
						}
					}
					if len(problems) == 0 {
						return got, got, ""
					}
					day := "other"
					if from.Day() > 28 {
						day = "29-31"
					}
					return got + " :: " + strings.Join(problems, "; "), "every row whose month is inside, none whose month is outside", fmt.Sprintf("Rows(time %s) unaligned from (day %s) wrong", cf.q, day)
				}})
			}
		}
		c16RunCalls(c, e, index, ds, calls)
		c.Distinct(ds)
		c.Sample(fmt.Sprintf("%s (%d calls)", ds, len(calls)))
	}, nil)
}
