package http

// C24 — replication over HTTP (sub-run 'http'): "a replica that streams the primary's log, from the
// start or resuming at any entry boundary, ends with an identical mapping". The main run joins the
// primary's Reader to the replica's replicate() with its own byte transport; this sub-run executes
// the piece that transport replaces: the real Handler's /internal/translate/data endpoint over a
// real loop-back HTTP connection. A real node's translate log is grown entry by entry (keys of
// ~5000 bytes, one entry sized so that a backlog of EXACTLY the handler's 64 KiB buffer exists);
// after every growth step, for EVERY entry boundary as resume offset, the endpoint is asked for the
// stream from that offset and the first (log size - offset) bytes received are compared with the
// primary's log file. Backlogs therefore range over every multiple-of-entry size from one entry to
// ~4 buffers, below, at and above each buffer multiple.

import (
	"context"
	"fmt"
	"io"
	"net"
	gohttp "net/http"
	"os"
	"path/filepath"
	"strings"
	"testing"
	"time"

	"github.com/pilosa/pilosa"
	"github.com/pilosa/pilosa/encoding/proto"
	"github.com/pilosa/pilosa/internal/vx"
)

func TestVerif_C24H(t *testing.T) {
	c := vx.NewCheck("C24", "model_checking",
		"the real HTTP handler of /internal/translate/data over loop-back HTTP: for every growth step of a real node's translate log and EVERY entry boundary as resume offset, the streamed bytes equal the primary's log file from that offset; distinct = distinct (log size, offset) pairs")
	dir := vx.Scratch()
	defer os.RemoveAll(dir)
	s, err := pilosa.NewServer(
		pilosa.OptServerDataDir(dir),
		pilosa.OptServerNodeID("c24h"),
		pilosa.OptServerClusterDisabled(true, nil),
		pilosa.OptServerSerializer(proto.Serializer{}),
		pilosa.OptServerIsCoordinator(true),
	)
	if err != nil {
		t.Fatal(err)
	}
	if err := s.Open(); err != nil {
		t.Fatal(err)
	}
	defer s.Close()
	api, err := pilosa.NewAPI(pilosa.OptAPIServer(s))
	if err != nil {
		t.Fatal(err)
	}
	ctx := context.Background()
	if _, err := api.CreateIndex(ctx, "k", pilosa.IndexOptions{Keys: true}); err != nil {
		t.Fatal(err)
	}
	if _, err := api.CreateField(ctx, "k", "f", pilosa.OptFieldTypeDefault()); err != nil {
		t.Fatal(err)
	}
	ln, err := net.Listen("tcp", "127.0.0.1:0")
	if err != nil {
		t.Fatal(err)
	}
	h, err := NewHandler(OptHandlerAPI(api), OptHandlerListener(ln))
	if err != nil {
		t.Fatal(err)
	}
	go func() { _ = h.Serve() }()
	defer h.Close()
	base := "http://" + ln.Addr().String()
	logPath := filepath.Join(dir, ".keys")
	size := func() int64 {
		fi, err := os.Stat(logPath)
		if err != nil {
			return 0
		}
		return fi.Size()
	}
	nkey := 0
	addKey := func(n int) {
		nkey++
		key := fmt.Sprintf("%06d", nkey) + strings.Repeat("x", n-6)
		if _, err := api.Query(ctx, &pilosa.QueryRequest{Index: "k", Query: fmt.Sprintf("Set(%q, f=1)", key)}); err != nil {
			t.Fatal(err)
		}
	}
	bounds := []int64{size()}
	steps := c.Pick(30, 56) // ~150 KB / ~280 KB of log
	exact := false
	overhead := int64(-1)
	client := &gohttp.Client{}
	for st := 0; st < steps; st++ {
		n := 5000 + (st%7)*13
		if overhead >= 0 && !exact {
			// size this entry so that [some boundary, new end) is exactly the handler's buffer size
			cur := bounds[len(bounds)-1]
			for _, b := range bounds {
				if want := b + translateStoreBufferSize - cur - overhead; want >= 4200 && want <= 9000 {
					n = int(want)
					exact = true
					break
				}
			}
		}
		before := bounds[len(bounds)-1]
		addKey(n)
		after := size()
		if overhead < 0 {
			overhead = after - before - int64(n)
		}
		bounds = append(bounds, after)
		want, err := os.ReadFile(logPath)
		if err != nil {
			t.Fatal(err)
		}
		L := int64(len(want))
		for _, off := range bounds[:len(bounds)-1] {
			c.AddEval(1)
			c.Distinct(fmt.Sprintf("%d|%d", L, off))
			cs := map[string]interface{}{"log_size": L, "resume_offset": off, "backlog": L - off, "handler_buffer": translateStoreBufferSize}
			rctx, cancel := context.WithTimeout(ctx, 60*time.Second)
			req, _ := gohttp.NewRequest("GET", fmt.Sprintf("%s/internal/translate/data?offset=%d", base, off), nil)
			resp, err := client.Do(req.WithContext(rctx))
			if err != nil {
				cancel()
				c.Violate("http translate stream: request failed", cs, err.Error(), "200 and the log bytes")
				continue
			}
			got := make([]byte, L-off)
			k, rerr := io.ReadFull(resp.Body, got)
			timedOut := rctx.Err() != nil
			resp.Body.Close()
			cancel()
			rel := "below"
			if L-off == translateStoreBufferSize {
				rel = "exactly"
			} else if L-off > translateStoreBufferSize {
				rel = "above"
			}
			key := "http translate stream differs from the primary log (backlog " + rel + " the handler buffer size)"
			switch {
			case resp.StatusCode != 200:
				c.Violate(key, cs, fmt.Sprint("status ", resp.StatusCode), "200")
			case rerr != nil && timedOut:
				c.NotExhaustive(fmt.Sprintf("stream from offset %d of %d delivered %d bytes within 60 s (loaded machine?)", off, L, k))
			case rerr != nil:
				c.Violate(key, cs, fmt.Sprintf("stream ended after %d of %d bytes: %v", k, L-off, rerr), "the whole backlog")
			default:
				if string(got) != string(want[off:]) {
					i := 0
					for i < len(got) && got[i] == want[off+int64(i)] {
						i++
					}
					c.Violate(key, cs, fmt.Sprintf("first differing byte at stream position %d (got 0x%02x, log has 0x%02x)", i, got[i], want[off+int64(i)]), "bytes identical to the log file")
				}
			}
			c.Outcome(rel)
		}
	}
	c.Bound("log_entries", steps)
	c.Bound("final_log_size", bounds[len(bounds)-1])
	c.Bound("backlog_exactly_buffer_size_present", exact)
	c.AddStates(int64(len(bounds)))
	c.AddValidated(c.Evaluations)
	c.Assume("one primary, loop-back TCP; the replica side (HTTP client reader + replicate) is the main run's subject and is not executed here; resume offsets are entry boundaries (what a replica can hold)")
	if c.Finish() != 0 {
		t.Fail()
	}
}
