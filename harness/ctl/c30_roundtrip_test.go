package ctl

// C30 — Exporting a field and importing the export reproduces it.
//
// One real in-process server (server.Command, loop-back HTTP). For every case a fresh source
// index/field is filled with a subset of a 6-bit universe (2 rows x 3 columns; unkeyed columns sit
// in shards 0, 1 and 3 so that shard 2 is missing), the real ctl.ExportCommand writes the CSV, the
// real ctl.ImportCommand reads it into a fresh, empty target index/field of the same type, and the
// target's contents (read back with Rows()/Row() queries, keys translated by the server) must
// equal the source's. Enumerated: all 64 subsets x {unkeyed, row keys, column keys, both} x
// assignments of keys from {a, "a,b", q"q, é, " lead", multi-line} (+CRLF, '#', empty-looking
// in thorough) x import buffer sizes {1, 2, 1000} (rotated over the cases; all three for the unkeyed mode and the full/diagonal subsets in thorough) x
// {export to file, export to stdout} x {pre-created target, --create-schema}.

import (
	"bytes"
	"context"
	"encoding/csv"
	"fmt"
	"io/ioutil"
	"os"
	"path/filepath"
	"sort"
	"strconv"
	"strings"
	"sync"
	"sync/atomic"
	"testing"
	"time"

	"github.com/pilosa/pilosa"
	"github.com/pilosa/pilosa/internal/vx"
	"github.com/pilosa/pilosa/server"
)

type c30Case struct {
	id           int
	mode         int // bit0: row keys, bit1: column keys
	rows         [2]string
	cols         [3]string
	mask         int
	buf          int
	usePath      bool
	createSchema bool
}

func (cs c30Case) String() string {
	return fmt.Sprintf("mode=%s rows=%q cols=%q mask=%06b buf=%d toFile=%v createSchema=%v", c30Mode(cs.mode), cs.rows, cs.cols, cs.mask, cs.buf, cs.usePath, cs.createSchema)
}

func c30Mode(m int) string { return []string{"unkeyed", "rowkeys", "colkeys", "bothkeys"}[m] }

func (cs c30Case) pairs() (rows, cols []string) {
	for b := 0; b < 6; b++ {
		if cs.mask&(1<<uint(b)) != 0 {
			rows = append(rows, cs.rows[b/3])
			cols = append(cols, cs.cols[b%3])
		}
	}
	return
}

func c30PairSet(rows, cols []string) string {
	s := make([]string, len(rows))
	for i := range rows {
		s[i] = strconv.Quote(rows[i]) + ":" + strconv.Quote(cols[i])
	}
	sort.Strings(s)
	// de-duplicate
	out := s[:0]
	for i, x := range s {
		if i == 0 || x != s[i-1] {
			out = append(out, x)
		}
	}
	return strings.Join(out, " ")
}

func c30KeyClass(k string) string {
	switch {
	case k == "":
		return "empty"
	case strings.Contains(k, "\r"):
		return "carriage-return"
	case strings.Contains(k, "\n"):
		return "newline"
	case strings.Contains(k, `"`):
		return "quote"
	case strings.Contains(k, ","):
		return "comma"
	case strings.HasPrefix(k, " ") || strings.HasSuffix(k, " "):
		return "edge-space"
	case strings.HasPrefix(k, "#"):
		return "hash"
	case strings.IndexFunc(k, func(r rune) bool { return r > 127 }) >= 0:
		return "non-ascii"
	}
	if _, err := strconv.ParseUint(k, 10, 64); err == nil {
		return "numeric"
	}
	return "plain"
}

type c30Server struct {
	m    *server.Command
	host string
	dir  string
}

func c30Start() (*c30Server, error) {
	dir := vx.Scratch()
	m := server.NewCommand(bytes.NewReader(nil), ioutil.Discard, ioutil.Discard, server.OptCommandCloseTimeout(2*time.Millisecond))
	m.Config.DataDir = filepath.Join(dir, "data")
	m.Config.Bind = "http://localhost:0"
	m.Config.Cluster.Disabled = true
	m.Config.Translation.MapSize = 1 << 28
	m.Config.Metric.Diagnostics = false
	m.Config.WorkerPoolSize = 4
	if err := m.Start(); err != nil {
		return nil, err
	}
	return &c30Server{m: m, host: m.API.Node().URI.HostPort(), dir: dir}, nil
}

func (s *c30Server) createSchema(index, field string, rowKeys, colKeys bool) error {
	ctx := context.Background()
	if _, err := s.m.API.CreateIndex(ctx, index, pilosa.IndexOptions{Keys: colKeys, TrackExistence: true}); err != nil {
		return err
	}
	opts := []pilosa.FieldOption{pilosa.OptFieldTypeSet(pilosa.DefaultCacheType, pilosa.DefaultCacheSize)}
	if rowKeys {
		opts = append(opts, pilosa.OptFieldKeys())
	}
	_, err := s.m.API.CreateField(ctx, index, field, opts...)
	return err
}

// fill writes the case's bits into the source through API.Import (not the path under test).
func (s *c30Server) fill(index, field string, cs c30Case) error {
	ctx := context.Background()
	rows, cols := cs.pairs()
	if len(rows) == 0 {
		return nil
	}
	rowKeys, colKeys := cs.mode&1 != 0, cs.mode&2 != 0
	type grp struct{ r, c []string }
	groups := map[uint64]*grp{}
	for i := range rows {
		sh := uint64(0)
		if !colKeys {
			n, _ := strconv.ParseUint(cols[i], 10, 64)
			sh = n / pilosa.ShardWidth
		}
		if rowKeys || colKeys {
			sh = 0 // keyed imports are regrouped by the server
		}
		g := groups[sh]
		if g == nil {
			g = &grp{}
			groups[sh] = g
		}
		g.r = append(g.r, rows[i])
		g.c = append(g.c, cols[i])
	}
	var shards []uint64
	for sh := range groups {
		shards = append(shards, sh)
	}
	sort.Slice(shards, func(i, j int) bool { return shards[i] < shards[j] })
	for _, sh := range shards {
		g := groups[sh]
		req := &pilosa.ImportRequest{Index: index, Field: field, Shard: sh}
		for i := range g.r {
			if rowKeys {
				req.RowKeys = append(req.RowKeys, g.r[i])
			} else {
				n, _ := strconv.ParseUint(g.r[i], 10, 64)
				req.RowIDs = append(req.RowIDs, n)
			}
			if colKeys {
				req.ColumnKeys = append(req.ColumnKeys, g.c[i])
			} else {
				n, _ := strconv.ParseUint(g.c[i], 10, 64)
				req.ColumnIDs = append(req.ColumnIDs, n)
			}
		}
		if err := s.m.API.Import(ctx, req); err != nil {
			return err
		}
	}
	return nil
}

// translate maps keys to ids with the server's translate store (API.TranslateKeys). It is only
// called with keys the case itself uses, after the step under test has finished.
func (s *c30Server) translate(index, field string, keys []string) (map[uint64]string, map[string]uint64, error) {
	body, err := s.m.API.Serializer.Marshal(&pilosa.TranslateKeysRequest{Index: index, Field: field, Keys: keys})
	if err != nil {
		return nil, nil, err
	}
	out, err := s.m.API.TranslateKeys(bytes.NewReader(body))
	if err != nil {
		return nil, nil, err
	}
	var resp pilosa.TranslateKeysResponse
	if err := s.m.API.Serializer.Unmarshal(out, &resp); err != nil {
		return nil, nil, err
	}
	if len(resp.IDs) != len(keys) {
		return nil, nil, fmt.Errorf("TranslateKeys: %d ids for %d keys", len(resp.IDs), len(keys))
	}
	byID, byKey := map[uint64]string{}, map[string]uint64{}
	for i, k := range keys {
		byID[resp.IDs[i]] = k
		byKey[k] = resp.IDs[i]
	}
	return byID, byKey, nil
}

// read returns the field's contents as a canonical set of (row, column) identifier pairs. The rows
// present come from a Rows() query (row keys translated by the server, no key literal in PQL);
// each row's columns are read from the holder by id; ids of the case's own keys are mapped back
// through the translate store, any other id shows up as "?<id>".
func (s *c30Server) read(index, field string, rowKeys, colKeys bool, caseRows, caseCols []string) (string, error) {
	ctx := context.Background()
	resp, err := s.m.API.Query(ctx, &pilosa.QueryRequest{Index: index, Query: "Rows(" + field + ")"})
	if err != nil {
		return "", fmt.Errorf("Rows(): %v", err)
	}
	if len(resp.Results) != 1 {
		return "", fmt.Errorf("Rows(): %d results", len(resp.Results))
	}
	ri, ok := resp.Results[0].(pilosa.RowIdentifiers)
	if !ok {
		return "", fmt.Errorf("Rows(): result type %T", resp.Results[0])
	}
	f := s.m.Server.Holder().Field(index, field)
	if f == nil {
		return "", fmt.Errorf("field %s/%s not found", index, field)
	}
	type rowRef struct {
		name string
		id   uint64
		ok   bool
	}
	var refs []rowRef
	if rowKeys {
		var rowByKey map[string]uint64
		if len(caseRows) > 0 {
			if _, rowByKey, err = s.translate(index, field, c30UniqStrings(caseRows)); err != nil {
				return "", fmt.Errorf("translating row keys: %v", err)
			}
		}
		for _, k := range ri.Keys {
			id, ok := rowByKey[k]
			refs = append(refs, rowRef{k, id, ok})
		}
	} else {
		for _, r := range ri.Rows {
			refs = append(refs, rowRef{strconv.FormatUint(r, 10), r, true})
		}
	}
	var colByID map[uint64]string
	if colKeys && len(caseCols) > 0 {
		if colByID, _, err = s.translate(index, "", c30UniqStrings(caseCols)); err != nil {
			return "", fmt.Errorf("translating column keys: %v", err)
		}
	}
	var rr, cc []string
	for _, ref := range refs {
		if !ref.ok {
			rr, cc = append(rr, ref.name), append(cc, "?unexpected-row-key")
			continue
		}
		row, err := f.Row(ref.id)
		if err != nil {
			return "", fmt.Errorf("Field.Row(%d): %v", ref.id, err)
		}
		for _, col := range row.Columns() {
			name := strconv.FormatUint(col, 10)
			if colKeys {
				if k, ok := colByID[col]; ok {
					name = k
				} else {
					name = "?" + name
				}
			}
			rr, cc = append(rr, ref.name), append(cc, name)
		}
	}
	return c30PairSet(rr, cc), nil
}

func c30UniqStrings(a []string) []string {
	b := append([]string(nil), a...)
	sort.Strings(b)
	out := b[:0]
	for i, x := range b {
		if i == 0 || x != b[i-1] {
			out = append(out, x)
		}
	}
	return out
}

func c30ParseCSV(data []byte) (string, error) {
	r := csv.NewReader(bytes.NewReader(data))
	r.FieldsPerRecord = -1
	var rr, cc []string
	for {
		rec, err := r.Read()
		if err != nil {
			if err.Error() == "EOF" {
				break
			}
			return "", err
		}
		if len(rec) < 2 {
			return "", fmt.Errorf("record with %d fields", len(rec))
		}
		rr, cc = append(rr, rec[0]), append(cc, rec[1])
	}
	return c30PairSet(rr, cc), nil
}

func c30ErrClass(err error) string {
	e := err.Error()
	for _, k := range []string{"invalid row id", "invalid column id", "bad column count", "reading", "translating", "not found", "importing keys", "importing", "exporting", "getting shard count", "getting schema", "ensuring schema"} {
		if strings.Contains(e, k) {
			return strings.Replace(k, " ", "-", -1)
		}
	}
	return "other"
}

// run executes one case and returns (stage, got, want); stage "" = property holds.
func (s *c30Server) run(cs c30Case) (stage, got, want, csvText string, keyClasses []string) {
	ctx := context.Background()
	src, dst := fmt.Sprintf("s%d", cs.id), fmt.Sprintf("t%d", cs.id)
	field := "f"
	rowKeys, colKeys := cs.mode&1 != 0, cs.mode&2 != 0
	defer func() {
		s.m.API.DeleteIndex(ctx, src)
		s.m.API.DeleteIndex(ctx, dst)
	}()
	rows, cols := cs.pairs()
	intended := c30PairSet(rows, cols)
	// key classes of the keys actually used by this case
	kc := map[string]bool{}
	for i := range rows {
		if rowKeys {
			kc["row:"+c30KeyClass(rows[i])] = true
		}
		if colKeys {
			kc["col:"+c30KeyClass(cols[i])] = true
		}
	}
	for k := range kc {
		keyClasses = append(keyClasses, k)
	}
	sort.Strings(keyClasses)

	if err := s.createSchema(src, field, rowKeys, colKeys); err != nil {
		return "setup-create", err.Error(), "source schema created", "", keyClasses
	}
	if err := s.fill(src, field, cs); err != nil {
		return "setup-fill", err.Error(), "source filled", "", keyClasses
	}
	srcSet, err := s.read(src, field, rowKeys, colKeys, rows, cols)
	if err != nil {
		return "setup-read", err.Error(), intended, "", keyClasses
	}
	if srcSet != intended {
		return "setup-content", srcSet, intended, "", keyClasses
	}

	// ---- export with the real command
	var out bytes.Buffer
	ex := NewExportCommand(bytes.NewReader(nil), &out, ioutil.Discard)
	ex.Host, ex.Index, ex.Field = s.host, src, field
	path := filepath.Join(s.dir, fmt.Sprintf("x%d.csv", cs.id))
	defer os.Remove(path)
	if cs.usePath {
		ex.Path = path
		// every other file case exports over an EXISTING, longer file (an earlier export under the same
		// name): the output must be the field's contents, not a mixture with what was there before
		if cs.id%4 == 0 {
			if err := ioutil.WriteFile(path, []byte(strings.Repeat("7,7\n", 96)), 0o644); err != nil {
				panic(err)
			}
		}
	}
	if err := ex.Run(ctx); err != nil {
		return "export-error:" + c30ErrClass(err), err.Error(), "export succeeds", "", keyClasses
	}
	var data []byte
	if cs.usePath {
		if out.Len() != 0 {
			return "export-stray-stdout", out.String(), "", "", keyClasses
		}
		if data, err = ioutil.ReadFile(path); err != nil {
			return "export-no-file", err.Error(), "export file", "", keyClasses
		}
	} else {
		data = out.Bytes()
		if err := ioutil.WriteFile(path, data, 0o644); err != nil {
			panic(err)
		}
	}
	csvText = string(data)

	// ---- import with the real command into an empty field of the same type
	im := NewImportCommand(bytes.NewReader(nil), ioutil.Discard, ioutil.Discard)
	im.Host, im.Index, im.Field = s.host, dst, field
	im.Paths = []string{path}
	im.BufferSize = cs.buf
	im.Sort = cs.id%2 == 1
	if cs.createSchema {
		im.CreateSchema = true
		im.IndexOptions = pilosa.IndexOptions{Keys: colKeys, TrackExistence: true}
		im.FieldOptions = pilosa.FieldOptions{Type: pilosa.FieldTypeSet, Keys: rowKeys, CacheType: pilosa.DefaultCacheType, CacheSize: pilosa.DefaultCacheSize}
	} else if err := s.createSchema(dst, field, rowKeys, colKeys); err != nil {
		return "setup-create", err.Error(), "target schema created", csvText, keyClasses
	}
	if err := im.Run(ctx); err != nil {
		stage := "import-error:" + c30ErrClass(err)
		if parsed, perr := c30ParseCSV(data); perr != nil || parsed != intended {
			stage = "csv-does-not-reparse+" + stage
		}
		return stage, err.Error(), "import succeeds", csvText, keyClasses
	}
	dstSet, err := s.read(dst, field, rowKeys, colKeys, rows, cols)
	if err != nil {
		return "target-read", err.Error(), intended, csvText, keyClasses
	}
	if dstSet != srcSet {
		stage := "content(csv-reparses-to-source)"
		if parsed, perr := c30ParseCSV(data); perr != nil || parsed != intended {
			stage = "content(csv-does-not-reparse-to-source)"
		}
		return stage, dstSet, srcSet, csvText, keyClasses
	}
	return "", dstSet, srcSet, csvText, keyClasses
}

type c30Fail struct {
	cs                    c30Case
	stage, got, want, csv string
	kcs                   []string
}

func c30Pop(m int) int {
	n := 0
	for ; m != 0; m &= m - 1 {
		n++
	}
	return n
}

func c30Subset(a, b []string) bool {
	set := map[string]bool{}
	for _, x := range b {
		set[x] = true
	}
	for _, x := range a {
		if !set[x] {
			return false
		}
	}
	return true
}

func TestVerif_C30(t *testing.T) {
	c := vx.NewCheck("C30", "exploration",
		"every subset of a 6-bit universe (2 rows x 3 columns, unkeyed columns in shards 0,1,3) x {unkeyed,row keys,column keys,both} x key assignments "+
			"from a quoting-hostile key set: filled into a fresh field of a real in-process server, exported by ctl.ExportCommand, imported by "+
			"ctl.ImportCommand into an empty field of the same type; target contents (bits and keys) must equal the source's")
	thorough := c.Thorough()
	srv, err := c30Start()
	if err != nil {
		t.Fatalf("HARNESS-ERROR starting server: %v", err)
	}
	defer func() {
		srv.m.Close()
		os.RemoveAll(srv.dir)
	}()

	// "#h": a key that a CSV reader configured for comment lines would swallow whole
	keys := []string{"a", "a,b", `q"q`, "é", " lead", "l1\nl2", "#h"}
	if thorough {
		keys = append(keys, "c\r\nd", "7", "trail ", `""`, "x\ty", ";s", "-1", "=f")
	}
	sw := uint64(pilosa.ShardWidth)
	idCols := [3]string{"0", strconv.FormatUint(sw, 10), strconv.FormatUint(4*sw-1, 10)}
	idRowSets := [][2]string{{"0", "65537"}}
	if thorough {
		idRowSets = append(idRowSets, [2]string{"1", strconv.FormatUint(1<<40, 10)})
	}
	nk := len(keys)
	type keyChoice struct {
		rows [2]string
		cols [3]string
	}
	var rowChoices [][2]string
	var colChoices [][3]string
	if thorough {
		for d := 1; d <= 3; d++ {
			for i := 0; i < nk; i++ {
				rowChoices = append(rowChoices, [2]string{keys[i], keys[(i+d)%nk]})
			}
		}
	} else {
		for i := 0; i < nk; i++ {
			rowChoices = append(rowChoices, [2]string{keys[i], keys[(i+1)%nk]})
		}
	}
	for i := 0; i < nk; i++ {
		colChoices = append(colChoices, [3]string{keys[i], keys[(i+1)%nk], keys[(i+2)%nk]})
		if thorough {
			colChoices = append(colChoices, [3]string{keys[(i+3)%nk], keys[i], keys[(i+1)%nk]})
		}
	}

	var cases []c30Case
	add := func(mode int, rows [2]string, cols [3]string) {
		for mask := 0; mask < 64; mask++ {
			bufs := []int{[]int{1000, 1, 2}[(len(cases))%3]}
			if thorough && (mode == 0 || mask == 63 || mask == 9) {
				bufs = []int{1, 2, 1000}
			}
			for _, b := range bufs {
				n := len(cases)
				cs := c30Case{id: n, mode: mode, rows: rows, cols: cols, mask: mask, buf: b, usePath: n%2 == 0, createSchema: (n/2)%2 == 1}
				cases = append(cases, cs)
			}
		}
	}
	for _, rs := range idRowSets {
		add(0, rs, idCols)
	}
	for _, rc := range rowChoices {
		add(1, rc, idCols)
	}
	for _, cc := range colChoices {
		for _, rs := range idRowSets {
			add(2, rs, cc)
		}
	}
	if thorough {
		for i, rc := range rowChoices {
			// every row-key pair with two column-key triples
			add(3, rc, colChoices[i%len(colChoices)])
			add(3, rc, colChoices[(i+5)%len(colChoices)])
		}
	} else {
		for i, rc := range rowChoices {
			add(3, rc, colChoices[(i+2)%len(colChoices)])
		}
	}
	c.Bound("cases", len(cases))
	c.Bound("subsets_per_shape", 64)
	c.Bound("key_alphabet", keys)
	c.Bound("unkeyed_columns", idCols)
	c.Bound("row_key_pairs", len(rowChoices))
	c.Bound("column_key_triples", len(colChoices))
	c.Bound("import_buffer_sizes", []int{1, 2, 1000})

	var done int64
	var failMu sync.Mutex
	var fails []c30Fail
	// Every command run creates its own HTTP transport whose idle keep-alive connections stay open
	// for 90 s (client and server end live in this process: 4 descriptors per case). The cases are
	// therefore run in batches, each on a fresh server: closing the server ends the connections.
	const batch = 600
	for b0 := 0; b0 < len(cases); b0 += batch {
		if b0 > 0 {
			srv.m.Close()
			os.RemoveAll(srv.dir)
			if srv, err = c30Start(); err != nil {
				t.Fatalf("HARNESS-ERROR restarting server: %v", err)
			}
		}
		b1 := b0 + batch
		if b1 > len(cases) {
			b1 = len(cases)
		}
	vx.ParallelFor(b1-b0, func(bi int) {
		i := b0 + bi
		if c.Expired() {
			return
		}
		cs := cases[i]
		var stage, got, want, csvText string
		var kcs []string
		pan := vx.Guard(func() { stage, got, want, csvText, kcs = srv.run(cs) })
		if pan != "" {
			stage, got, want = "panic", pan, "no panic"
		}
		c.AddEval(1)
		atomic.AddInt64(&done, 1)
		if cs.mask != 0 {
			c.Distinct(fmt.Sprintf("%d|%q|%q|%d", cs.mode, cs.rows, cs.cols, cs.mask))
		}
		if stage == "" {
			c.Outcome(got + "||" + csvText)
			if i%257 == 0 {
				c.Sample(cs.String() + " csv=" + strconv.Quote(csvText))
			}
			return
		}
		failMu.Lock()
		fails = append(fails, c30Fail{cs, stage, got, want, csvText, kcs})
		failMu.Unlock()
		if !strings.HasPrefix(stage, "setup-") {
			c.Outcome("FAIL " + stage)
		}
	})
	}
	// Keying: failing cases are grouped by (stage, mode); the cases with the fewest bits come first
	// and name the key by the key classes they use; a larger failing case whose key classes include
	// an already reported set is counted under that key (one root cause -> one key).
	sort.Slice(fails, func(i, j int) bool {
		a, b := fails[i], fails[j]
		if pa, pb := c30Pop(a.cs.mask), c30Pop(b.cs.mask); pa != pb {
			return pa < pb
		}
		if len(a.kcs) != len(b.kcs) {
			return len(a.kcs) < len(b.kcs)
		}
		return a.cs.id < b.cs.id
	})
	type emitted struct {
		group string
		kcs   []string
		key   string
	}
	var em []emitted
	// a group that also fails with plain keys only does not depend on the key class
	plainFails := map[string]bool{}
	for _, f := range fails {
		plain := true
		for _, k := range f.kcs {
			if !strings.HasSuffix(k, ":plain") {
				plain = false
			}
		}
		if plain {
			plainFails[f.stage+" mode="+c30Mode(f.cs.mode)] = true
		}
	}
	// ... and so does a group whose smallest failing cases show more than three different class sets
	minPop := map[string]int{}
	classSets := map[string]map[string]bool{}
	for _, f := range fails {
		g := f.stage + " mode=" + c30Mode(f.cs.mode)
		p := c30Pop(f.cs.mask)
		if mp, ok := minPop[g]; !ok || p < mp {
			minPop[g] = p
			classSets[g] = map[string]bool{}
		}
		if p == minPop[g] {
			classSets[g][strings.Join(f.kcs, ",")] = true
		}
	}
	for g, m := range classSets {
		if len(m) > 3 {
			plainFails[g] = true
		}
	}
	// ... and a group whose failing cases ALL share a key class (row:/col: prefix dropped) is keyed by it
	common := map[string]map[string]bool{}
	for _, f := range fails {
		g := f.stage + " mode=" + c30Mode(f.cs.mode)
		set := map[string]bool{}
		for _, k := range f.kcs {
			set[k[strings.Index(k, ":")+1:]] = true
		}
		if common[g] == nil {
			common[g] = set
			continue
		}
		for k := range common[g] {
			if !set[k] {
				delete(common[g], k)
			}
		}
	}
	for _, f := range fails {
		group := f.stage + " mode=" + c30Mode(f.cs.mode)
		key := ""
		if cm := common[group]; len(cm) > 0 && !plainFails[group] || len(common[group]) > 0 && len(classSets[group]) > 3 {
			var ks []string
			for k := range common[group] {
				if k != "plain" {
					ks = append(ks, k)
				}
			}
			sort.Strings(ks)
			if len(ks) > 0 {
				pre := "roundtrip "
				if strings.HasPrefix(f.stage, "setup-") {
					pre = "harness-setup "
				}
				c.Violate(pre+group+" keys="+strings.Join(ks, ","), f.cs.String()+" csv="+strconv.Quote(f.csv), f.got, f.want)
				continue
			}
		}
		if plainFails[group] {
			f.kcs = nil
		}
		for _, e := range em {
			if e.group == group && c30Subset(e.kcs, f.kcs) {
				key = e.key
				break
			}
		}
		if key == "" {
			prefix := "roundtrip "
			if strings.HasPrefix(f.stage, "setup-") {
				// the source could not be prepared as intended: not a verdict about export/import
				prefix = "harness-setup "
			}
			key = prefix + group + " keys=" + strings.Join(f.kcs, ",")
			if len(f.kcs) == 0 {
				key = prefix + group + " keys=any"
			}
			em = append(em, emitted{group, f.kcs, key})
		}
		c.Violate(key, f.cs.String()+" csv="+strconv.Quote(f.csv), f.got, f.want)
	}
	c.AddValidated(done)
	c.Assume("column keys are translated to sequential ids by the server, so keyed columns all live in shard 0; multi-shard layouts (0,1,3) are covered by the unkeyed-column modes")
	c.Assume("source contents are written with API.Import and verified with Rows()/Row() queries before the export (a source that is not as intended is reported as harness-setup, never as a round-trip verdict)")
	if c.Finish() != 0 {
		t.Fail()
	}
}
