package cmd_test

// C31 — Configuration sources combine with fixed precedence and round-trip.
//
// Part P (precedence): every flag of the real `pilosa server` cobra command (enumerated from its
// FlagSet, nothing hard-coded) x every assignment of {absent, A, B} to the three sources
// {config file, environment, command line} (27 per option; A = a value distinct per source,
// B = the option's default supplied explicitly; for bools A/B = true/false). The command is run
// through the real cobra root with --dry-run; the WHOLE parsed server.Config is compared with
// NewConfig() + the one expected substitution (flag > env > file > default), so cross-talk between
// options is caught as well. Then all options at once, source patterns rotated (27 runs).
//
// Part R (round trip): the real `generate-config` output, and the real `config` command output
// (same toml.Marshal(server.Config) rendering) for every option x every value of a small
// type-appropriate set (+ all pairs of options within a section, thorough: all pairs), is written
// to a file and read back by `server --config <file> --dry-run`; the parsed configuration must
// equal the rendered one.
//
// Everything runs sequentially: the code under test reads process-global state (environment,
// cmd.Server).

import (
	"bytes"
	"fmt"
	"io/ioutil"
	"os"
	"path/filepath"
	"reflect"
	"sort"
	"strconv"
	"strings"
	"testing"
	"time"

	"github.com/pilosa/pilosa/cmd"
	"github.com/pilosa/pilosa/internal/vx"
	"github.com/pilosa/pilosa/server"
	"github.com/spf13/pflag"
)

// ---------------------------------------------------------------------------------------------
// canonical rendering of option values (Go values: string,int64,uint64,float64,bool,Duration,[]string)

func c31Canon(v interface{}) string {
	switch x := v.(type) {
	case string:
		return strconv.Quote(x)
	case int64:
		return strconv.FormatInt(x, 10)
	case uint64:
		return strconv.FormatUint(x, 10)
	case float64:
		return strconv.FormatFloat(x, 'g', -1, 64)
	case bool:
		return strconv.FormatBool(x)
	case time.Duration:
		return x.String()
	case []string:
		q := make([]string, len(x))
		for i := range x {
			q[i] = strconv.Quote(x[i])
		}
		return "[" + strings.Join(q, ",") + "]" // nil and empty render the same: "[]"
	}
	return fmt.Sprintf("?%T:%v", v, v)
}

// text form for a command-line flag / environment variable
func c31Text(v interface{}) string {
	switch x := v.(type) {
	case string:
		return x
	case []string:
		return strings.Join(x, ",")
	case float64:
		return strconv.FormatFloat(x, 'f', -1, 64)
	}
	return strings.Trim(c31Canon(v), `"`)
}

func c31TomlString(s string) string {
	var b strings.Builder
	b.WriteByte('"')
	for _, r := range s {
		switch {
		case r == '"':
			b.WriteString(`\"`)
		case r == '\\':
			b.WriteString(`\\`)
		case r == '\n':
			b.WriteString(`\n`)
		case r == '\t':
			b.WriteString(`\t`)
		case r < 0x20:
			fmt.Fprintf(&b, `\u%04X`, r)
		default:
			b.WriteRune(r)
		}
	}
	b.WriteByte('"')
	return b.String()
}

// TOML literal for the hand-written config file of part P
func c31TomlLit(v interface{}) string {
	switch x := v.(type) {
	case string:
		return c31TomlString(x)
	case time.Duration:
		return c31TomlString(x.String())
	case float64:
		s := strconv.FormatFloat(x, 'f', -1, 64)
		if !strings.Contains(s, ".") {
			s += ".0"
		}
		return s
	case []string:
		q := make([]string, len(x))
		for i := range x {
			q[i] = c31TomlString(x[i])
		}
		return "[" + strings.Join(q, ", ") + "]"
	}
	return c31Canon(v)
}

// c31Toml renders name->literal as a TOML document (top-level keys first, then one table per
// dotted prefix), deterministic order.
func c31Toml(kv map[string]string) string {
	var top []string
	sect := map[string][]string{}
	for k := range kv {
		if i := strings.Index(k, "."); i >= 0 {
			sect[k[:i]] = append(sect[k[:i]], k)
		} else {
			top = append(top, k)
		}
	}
	sort.Strings(top)
	var b strings.Builder
	for _, k := range top {
		fmt.Fprintf(&b, "%s = %s\n", k, kv[k])
	}
	var ss []string
	for s := range sect {
		ss = append(ss, s)
	}
	sort.Strings(ss)
	for _, s := range ss {
		fmt.Fprintf(&b, "\n[%s]\n", s)
		ks := sect[s]
		sort.Strings(ks)
		for _, k := range ks {
			fmt.Fprintf(&b, "  %s = %s\n", k[len(s)+1:], kv[k])
		}
	}
	return b.String()
}

func c31EnvName(flag string) string {
	return "PILOSA_" + strings.ToUpper(strings.NewReplacer("-", "_", ".", "_").Replace(flag))
}

// ---------------------------------------------------------------------------------------------
// flattening server.Config by reflection: toml-tag path (Go field name when untagged) -> canon

func c31Flatten(cfg *server.Config) map[string]string {
	out := map[string]string{}
	var walk func(prefix string, v reflect.Value)
	walk = func(prefix string, v reflect.Value) {
		t := v.Type()
		for i := 0; i < t.NumField(); i++ {
			f := t.Field(i)
			name := strings.Split(f.Tag.Get("toml"), ",")[0]
			if name == "-" {
				continue
			}
			if name == "" {
				name = "(untagged)" + f.Name
			}
			p := name
			if prefix != "" {
				p = prefix + "." + name
			}
			fv := v.Field(i)
			switch {
			case fv.Kind() == reflect.Struct:
				walk(p, fv)
			case fv.Kind() == reflect.String:
				out[p] = c31Canon(fv.String())
			case fv.Kind() == reflect.Bool:
				out[p] = c31Canon(fv.Bool())
			case fv.Kind() == reflect.Int64 && f.Type.Name() == "Duration":
				out[p] = c31Canon(time.Duration(fv.Int()))
			case fv.Kind() == reflect.Int || fv.Kind() == reflect.Int64 || fv.Kind() == reflect.Int32:
				out[p] = c31Canon(fv.Int())
			case fv.Kind() == reflect.Uint64 || fv.Kind() == reflect.Uint || fv.Kind() == reflect.Uint32:
				out[p] = c31Canon(fv.Uint())
			case fv.Kind() == reflect.Float64:
				out[p] = c31Canon(fv.Float())
			case fv.Kind() == reflect.Slice && f.Type.Elem().Kind() == reflect.String:
				s := make([]string, fv.Len())
				for j := range s {
					s[j] = fv.Index(j).String()
				}
				out[p] = c31Canon(s)
			default:
				out[p] = fmt.Sprintf("?%s:%v", f.Type, fv.Interface())
			}
		}
	}
	walk("", reflect.ValueOf(*cfg))
	return out
}

func c31FlatString(m map[string]string) string {
	ks := make([]string, 0, len(m))
	for k := range m {
		ks = append(ks, k)
	}
	sort.Strings(ks)
	var b strings.Builder
	for _, k := range ks {
		fmt.Fprintf(&b, "%s=%s;", k, m[k])
	}
	return b.String()
}

// c31Diff lists the paths at which two flattened configurations differ.
func c31Diff(got, want map[string]string) string {
	var d []string
	seen := map[string]bool{}
	for k, w := range want {
		seen[k] = true
		if g, ok := got[k]; !ok || g != w {
			d = append(d, fmt.Sprintf("%s: got %s want %s", k, got[k], w))
		}
	}
	for k, g := range got {
		if !seen[k] {
			d = append(d, fmt.Sprintf("%s: got %s want (absent)", k, g))
		}
	}
	sort.Strings(d)
	return strings.Join(d, " | ")
}

// ---------------------------------------------------------------------------------------------
// running the real commands

type c31Env struct {
	dir string
	n   int
}

func (e *c31Env) clearEnv() {
	for _, kv := range os.Environ() {
		if strings.HasPrefix(kv, "PILOSA_") {
			os.Unsetenv(kv[:strings.Index(kv, "=")])
		}
	}
}

func (e *c31Env) writeFile(content string) string {
	e.n++
	p := filepath.Join(e.dir, "cfg"+strconv.Itoa(e.n%8)+".toml")
	if err := ioutil.WriteFile(p, []byte(content), 0o644); err != nil {
		panic(err)
	}
	return p
}

// server runs `pilosa server --dry-run [--config file] args...` under env and returns the parsed
// configuration (flattened) or the error text when it is not the expected "dry run" stop.
func (e *c31Env) server(file string, env map[string]string, args []string) (map[string]string, string) {
	e.clearEnv()
	for k, v := range env {
		os.Setenv(k, v)
	}
	defer e.clearEnv()
	a := []string{"server", "--dry-run"}
	if file != "" {
		a = append(a, "--config", e.writeFile(file))
	}
	a = append(a, args...)
	rc := cmd.NewRootCommand(strings.NewReader(""), ioutil.Discard, ioutil.Discard)
	rc.SetArgs(a)
	err := rc.Execute()
	if err == nil {
		return nil, "error: command ran past --dry-run"
	}
	if err.Error() != "dry run" {
		return nil, "error: " + err.Error()
	}
	return c31Flatten(cmd.Server.Config), ""
}

// render runs a rendering command (`generate-config` or `config <flags>`) and returns its stdout.
func (e *c31Env) render(args ...string) (string, string) {
	e.clearEnv()
	var out, errb bytes.Buffer
	rc := cmd.NewRootCommand(strings.NewReader(""), &out, &errb)
	rc.SetArgs(args)
	if err := rc.Execute(); err != nil {
		return "", "error: " + err.Error()
	}
	return out.String(), ""
}

// ---------------------------------------------------------------------------------------------
// options

type c31Opt struct {
	name  string
	typ   string
	short string
	def   interface{} // default as a typed Go value (from server.NewConfig())
}

func c31Parse(typ, canon string) (interface{}, bool) {
	switch typ {
	case "string":
		s, err := strconv.Unquote(canon)
		return s, err == nil
	case "int":
		n, err := strconv.ParseInt(canon, 10, 64)
		return n, err == nil
	case "uint64":
		n, err := strconv.ParseUint(canon, 10, 64)
		return n, err == nil
	case "float64":
		n, err := strconv.ParseFloat(canon, 64)
		return n, err == nil
	case "bool":
		n, err := strconv.ParseBool(canon)
		return n, err == nil
	case "duration":
		n, err := time.ParseDuration(canon)
		return n, err == nil
	case "stringSlice":
		if canon == "[]" {
			return []string{}, true
		}
		var out []string
		for _, q := range strings.Split(strings.Trim(canon, "[]"), ",") {
			s, err := strconv.Unquote(q)
			if err != nil {
				return nil, false
			}
			out = append(out, s)
		}
		return out, true
	}
	return nil, false
}

// source value A for source s (0 file, 1 env, 2 flag): distinct per source and from the default
func c31ValA(o c31Opt, s int) interface{} {
	tag := []string{"file", "env", "flag"}[s]
	switch o.typ {
	case "string":
		return "v-" + tag + "-" + o.name
	case "int":
		return int64(1001 * (s + 1))
	case "uint64":
		return uint64(7001 * (s + 1))
	case "float64":
		return []float64{0.25, 0.5, 0.75}[s]
	case "duration":
		return []time.Duration{11 * time.Minute, 22 * time.Second, 33 * time.Millisecond}[s]
	case "stringSlice":
		return [][]string{{"f1", "f2"}, {"e1", "e2", "e3"}, {"a1"}}[s]
	case "bool":
		return true
	}
	return nil
}

func c31ValB(o c31Opt) interface{} {
	if o.typ == "bool" {
		return false
	}
	return o.def
}

// round-trip value sets
func c31RTValues(o c31Opt, thorough bool) []interface{} {
	var vs []interface{}
	switch o.typ {
	case "string":
		vs = []interface{}{"", "x", "a,b", `q"q\z`, "é ü", " lead", "l1\nl2"}
		if thorough {
			vs = append(vs, "tab\there", "#not=comment", "[s]", "1", "true", "'single'")
		}
	case "int":
		vs = []interface{}{int64(0), int64(1), int64(-1), int64(1 << 40)}
	case "uint64":
		vs = []interface{}{uint64(0), uint64(1), uint64(1 << 40), uint64(1<<63 - 1)}
	case "float64":
		vs = []interface{}{0.0, 0.001, 0.5, 1.0, 0.123456789}
		if thorough {
			vs = append(vs, 1e-7, 123456.75, -0.5)
		}
	case "duration":
		vs = []interface{}{time.Duration(0), time.Nanosecond, 90 * time.Second, 500 * time.Millisecond, 26 * time.Hour}
	case "bool":
		vs = []interface{}{false, true}
	case "stringSlice":
		vs = []interface{}{[]string{}, []string{"a"}, []string{"a", "b"}, []string{"h:1", "h:2", "h:3"}, []string{"a,b", "c"}}
		if thorough {
			vs = append(vs, []string{"a b"}, []string{`q"q`}, []string{"é"})
		}
	}
	return vs
}

// flag argument(s) for `config`: stringSlice elements are CSV-quoted the way pflag documents.
func c31FlagArg(o c31Opt, v interface{}) string {
	if ss, ok := v.([]string); ok {
		q := make([]string, len(ss))
		for i, s := range ss {
			if strings.ContainsAny(s, ",\"\n") {
				s = `"` + strings.Replace(s, `"`, `""`, -1) + `"`
			}
			q[i] = s
		}
		return "--" + o.name + "=" + strings.Join(q, ",")
	}
	return "--" + o.name + "=" + c31Text(v)
}

func c31Section(name string) string {
	if i := strings.Index(name, "."); i >= 0 {
		return name[:i]
	}
	return ""
}

// classification of a value for finding keys (one root cause -> one key)
func c31ValClass(v interface{}) string {
	switch x := v.(type) {
	case string:
		switch {
		case x == "":
			return "empty"
		case strings.ContainsAny(x, "\n\t"):
			return "control-char"
		case strings.ContainsAny(x, `"\`):
			return "quote-or-backslash"
		case strings.Contains(x, ","):
			return "comma"
		case strings.HasPrefix(x, " "):
			return "leading-space"
		case strings.IndexFunc(x, func(r rune) bool { return r > 127 }) >= 0:
			return "non-ascii"
		}
		return "plain"
	case []string:
		if len(x) == 0 {
			return "empty-list"
		}
		c := "plain"
		for _, s := range x {
			if k := c31ValClass(s); k != "plain" {
				c = k
			}
		}
		return "elem-" + c
	case float64:
		if float64(float32(x)) != x {
			return "needs-64-bit-precision"
		}
		return "float32-exact"
	case uint64:
		if x > 1<<53 {
			return "above-2^53"
		}
	case int64:
		if x < 0 {
			return "negative"
		}
	case time.Duration:
		if x == 0 {
			return "zero"
		}
	}
	return "plain"
}

// ---------------------------------------------------------------------------------------------

func TestVerif_C31(t *testing.T) {
	c := vx.NewCheck("C31", "exploration",
		"for every flag of the real `pilosa server` command and every assignment of {absent, distinct value, explicit default} to "+
			"{config file, environment, command line}, the whole parsed server.Config (via the cobra root with --dry-run) equals the defaults "+
			"with that one option set to the value of the highest-priority present source (flag > env > file > default); every configuration "+
			"rendered by `generate-config` / `config` (toml.Marshal of server.Config) and read back with --config yields the same server.Config")
	thorough := c.Thorough()
	e := &c31Env{dir: vx.Scratch()}
	defer os.RemoveAll(e.dir)

	// ---- enumerate the options from the real FlagSet
	defaults := c31Flatten(server.NewConfig())
	rc := cmd.NewRootCommand(strings.NewReader(""), ioutil.Discard, ioutil.Discard)
	sc, _, err := rc.Find([]string{"server"})
	if err != nil || sc == nil || sc.Name() != "server" {
		t.Fatalf("HARNESS-ERROR cannot find the server command: %v", err)
	}
	var opts []c31Opt
	flagNames := map[string]bool{}
	sc.Flags().VisitAll(func(f *pflag.Flag) {
		if f.Name == "config" || f.Name == "dry-run" || f.Name == "help" {
			return
		}
		flagNames[f.Name] = true
		o := c31Opt{name: f.Name, typ: f.Value.Type(), short: f.Shorthand}
		dc, ok := defaults[f.Name]
		if !ok {
			// a flag that no toml-tagged field of server.Config corresponds to cannot be observed or
			// supplied by file: it has to be classified before the check can pass.
			c.Violate("unmapped-option flag="+f.Name, "flag "+f.Name+" has no server.Config field with that toml path", "no field", "field with toml path "+f.Name)
			return
		}
		d, ok := c31Parse(o.typ, dc)
		if !ok {
			c.Violate("unclassified-option-type flag="+f.Name+" type="+o.typ, "flag "+f.Name, "type "+o.typ+" default "+dc, "a type the harness can generate values for")
			return
		}
		o.def = d
		opts = append(opts, o)
	})
	sort.Slice(opts, func(i, j int) bool { return opts[i].name < opts[j].name })
	if len(opts) < 20 {
		t.Fatalf("HARNESS-ERROR only %d server options enumerated", len(opts))
	}
	c.Bound("options", len(opts))
	c.Bound("source_patterns_per_option", 27)
	types := map[string]int{}
	for _, o := range opts {
		types[o.typ]++
	}
	c.Extra("option_types", types)

	want0 := func() map[string]string {
		m := map[string]string{}
		for k, v := range defaults {
			m[k] = v
		}
		return m
	}

	// sourceVal: pattern digit 0 absent, 1 A, 2 B
	sourceVal := func(o c31Opt, s, digit int) (interface{}, bool) {
		switch digit {
		case 1:
			return c31ValA(o, s), true
		case 2:
			v := c31ValB(o)
			if s == 1 && c31Text(v) == "" {
				// an environment variable set to the empty string counts as "not supplied"
				return nil, false
			}
			return v, true
		}
		return nil, false
	}
	winner := func(o c31Opt, pat [3]int) (interface{}, string) {
		for s := 2; s >= 0; s-- {
			if v, ok := sourceVal(o, s, pat[s]); ok {
				return v, []string{"file", "env", "flag"}[s]
			}
		}
		return o.def, "default"
	}

	// ---- P1: one option at a time, 27 source patterns
	for _, o := range opts {
		for p := 0; p < 27; p++ {
			pat := [3]int{p % 3, (p / 3) % 3, p / 9}
			fileKV := map[string]string{}
			env := map[string]string{}
			var args []string
			if v, ok := sourceVal(o, 0, pat[0]); ok {
				fileKV[o.name] = c31TomlLit(v)
			}
			if v, ok := sourceVal(o, 1, pat[1]); ok {
				env[c31EnvName(o.name)] = c31Text(v)
			}
			if v, ok := sourceVal(o, 2, pat[2]); ok {
				// the three spellings pflag accepts, rotated over the patterns
				switch {
				case o.short != "" && p%4 == 3:
					args = append(args, "-"+o.short, c31Text(v))
				case o.typ == "bool" && v == true && p%2 == 1:
					args = append(args, "--"+o.name)
				case o.typ != "bool" && p%2 == 1:
					args = append(args, "--"+o.name, c31Text(v))
				default:
					args = append(args, "--"+o.name+"="+c31Text(v))
				}
			}
			file := ""
			if len(fileKV) > 0 {
				file = c31Toml(fileKV)
			}
			wv, src := winner(o, pat)
			got, errs := e.server(file, env, args)
			c.AddEval(1)
			want := want0()
			want[o.name] = c31Canon(wv)
			desc := fmt.Sprintf("option=%s type=%s file=%q env=%v args=%v", o.name, o.typ, file, env, args)
			c.Distinct(fmt.Sprintf("P1/%s/%d", o.name, p))
			if errs != "" {
				c.Violate(fmt.Sprintf("precedence error type=%s winner=%s %s", o.typ, src, c31ErrClass(errs)), desc, errs, c31FlatString(want))
				continue
			}
			c.Outcome("P1/" + o.typ + "/" + src + "/" + fmt.Sprint(got[o.name] == defaults[o.name]))
			if d := c31Diff(got, want); d != "" {
				k := "other-option-disturbed"
				if got[o.name] != want[o.name] {
					// which source's value came out instead (lowest-priority match names it)
					from := "none-of-the-supplied-values"
					if got[o.name] == defaults[o.name] {
						from = "default"
					}
					for s := 0; s < 3; s++ {
						if v, ok := sourceVal(o, s, pat[s]); ok && c31Canon(v) == got[o.name] && c31Canon(v) != want[o.name] {
							from = []string{"file", "env", "flag"}[s]
							break
						}
					}
					k = "wrong-winner want=" + src + " got=" + from
				}
				c.Violate(fmt.Sprintf("precedence %s type=%s", k, o.typ), desc, d, "parsed config = defaults + "+o.name+"="+want[o.name])
			}
			if p == 14 {
				c.Sample(desc + " => " + got[o.name])
			}
		}
	}

	// ---- P2: all options at once, patterns rotated
	for k := 0; k < 27; k++ {
		fileKV := map[string]string{}
		env := map[string]string{}
		var args []string
		want := want0()
		for i, o := range opts {
			p := (i*7 + k) % 27
			pat := [3]int{p % 3, (p / 3) % 3, p / 9}
			if v, ok := sourceVal(o, 0, pat[0]); ok {
				fileKV[o.name] = c31TomlLit(v)
			}
			if v, ok := sourceVal(o, 1, pat[1]); ok {
				env[c31EnvName(o.name)] = c31Text(v)
			}
			if v, ok := sourceVal(o, 2, pat[2]); ok {
				args = append(args, "--"+o.name+"="+c31Text(v))
			}
			wv, _ := winner(o, pat)
			want[o.name] = c31Canon(wv)
		}
		got, errs := e.server(c31Toml(fileKV), env, args)
		c.AddEval(1)
		c.Distinct(fmt.Sprintf("P2/%d", k))
		desc := fmt.Sprintf("all options at once, rotation %d: file=%q env=%v args=%v", k, c31Toml(fileKV), env, args)
		if errs != "" {
			c.Violate("precedence-all-at-once error", desc, errs, "dry run")
			continue
		}
		c.Outcome("P2/" + c31FlatString(got))
		if d := c31Diff(got, want); d != "" {
			c.Violate("precedence-all-at-once mismatch", desc, d, "every option = value of its highest-priority source")
		}
	}

	// ---- P3: the config file path itself: --config beats PILOSA_CONFIG
	{
		o := opts[0]
		for _, x := range opts {
			if x.typ == "string" {
				o = x
				break
			}
		}
		fa := e.writeFile(c31Toml(map[string]string{o.name: c31TomlLit("from-flag-file")}))
		fb := filepath.Join(e.dir, "envfile.toml")
		ioutil.WriteFile(fb, []byte(c31Toml(map[string]string{o.name: c31TomlLit("from-env-file")})), 0o644)
		for m := 1; m < 4; m++ {
			e.clearEnv()
			a := []string{"server", "--dry-run"}
			wantv := ""
			if m&1 != 0 {
				os.Setenv("PILOSA_CONFIG", fb)
				wantv = "from-env-file"
			}
			if m&2 != 0 {
				a = append(a, "--config", fa)
				wantv = "from-flag-file"
			}
			r := cmd.NewRootCommand(strings.NewReader(""), ioutil.Discard, ioutil.Discard)
			r.SetArgs(a)
			err := r.Execute()
			e.clearEnv()
			c.AddEval(1)
			c.Distinct(fmt.Sprintf("P3/%d", m))
			got := ""
			if err == nil || err.Error() != "dry run" {
				got = fmt.Sprint("error: ", err)
			} else {
				got = c31Flatten(cmd.Server.Config)[o.name]
			}
			c.Outcome("P3/" + got)
			if got != c31Canon(wantv) {
				c.Violate(fmt.Sprintf("config-path precedence env=%v flag=%v", m&1 != 0, m&2 != 0), fmt.Sprintf("PILOSA_CONFIG set=%v --config set=%v", m&1 != 0, m&2 != 0), got, c31Canon(wantv))
			}
		}
	}

	// ---- R: render -> read back
	// readBack feeds rendered text to `server --config`. Keys the reader rejects as invalid options
	// are reported (one key per rejected name), removed, and the read is retried so that the rest
	// of the document is still compared.
	readBack := func(rendered, desc, classes string) (map[string]string, bool) {
		text := rendered
		for tries := 0; tries < 16; tries++ {
			got, errs := e.server(text, nil, nil)
			if errs == "" {
				return got, true
			}
			const pre = "error: invalid option in configuration file: "
			if strings.HasPrefix(errs, pre) {
				bad := strings.TrimPrefix(errs, pre)
				c.Violate("roundtrip rendered-key-rejected key="+bad, desc, errs, "a rendered configuration is accepted by --config")
				// drop the offending line (top-level keys only; nested ones cannot be cut safely)
				var keep []string
				cut := false
				for _, l := range strings.Split(text, "\n") {
					f := strings.Fields(l)
					if !cut && len(f) > 1 && f[1] == "=" && strings.ToLower(f[0]) == bad {
						cut = true
						continue
					}
					keep = append(keep, l)
				}
				if !cut {
					return nil, false
				}
				text = strings.Join(keep, "\n")
				continue
			}
			c.Violate(strings.TrimSpace("roundtrip read-error "+c31ErrClass(errs)+" "+classes), desc, errs, "a rendered configuration is accepted by --config")
			return nil, false
		}
		return nil, false
	}

	// R0: generate-config (defaults)
	{
		out, errs := e.render("generate-config")
		c.AddEval(1)
		c.Distinct("R0")
		if errs != "" {
			c.Violate("roundtrip generate-config failed", "generate-config", errs, "rendered defaults")
		} else if got, ok := readBack(out, "generate-config|server -c", ""); ok {
			c.Outcome("R0/" + c31FlatString(got))
			if d := c31Diff(got, want0()); d != "" {
				c.Violate("roundtrip generate-config mismatch", "generate-config | server --config", d, "server.NewConfig()")
			}
			c.Sample("generate-config output: " + out)
		}
	}

	// R1/R2: `config <flags>` renders a non-default configuration with the same toml.Marshal call
	singleFailed := map[string]bool{}
	rt := func(sel []c31Opt, vals []interface{}) {
		var args []string
		want := want0()
		var names, classes []string
		for i, o := range sel {
			args = append(args, c31FlagArg(o, vals[i]))
			want[o.name] = c31Canon(vals[i])
			names = append(names, o.name+"="+c31Canon(vals[i]))
			classes = append(classes, o.typ+":"+c31ValClass(vals[i]))
		}
		desc := "config " + strings.Join(args, " ") + " | server --config"
		c.AddEval(1)
		c.Distinct("R/" + strings.Join(names, "&"))
		out, errs := e.render(append([]string{"config"}, args...)...)
		if errs != "" {
			c.Violate("roundtrip render-error "+strings.Join(classes, "+"), desc, errs, "rendered configuration")
			return
		}
		got, ok := readBack(out, desc, strings.Join(classes, "+"))
		if !ok {
			return
		}
		d := c31Diff(got, want)
		c.Outcome("R/" + strings.Join(classes, "+") + "/" + fmt.Sprint(d == ""))
		if d != "" {
			// which options came back wrong decides the key: one key per (type, value class)
			var bad []string
			explained := 0
			for i, o := range sel {
				if got[o.name] != want[o.name] {
					if len(sel) == 1 {
						singleFailed[names[i]] = true
					} else if singleFailed[names[i]] {
						explained++ // already reported by the single-option run of this value
						continue
					}
					bad = append(bad, classes[i])
				}
			}
			if len(bad) == 0 && explained > 0 {
				return
			}
			if len(bad) == 0 {
				bad = []string{"other-option-disturbed by " + strings.Join(classes, "+")}
			}
			sort.Strings(bad)
			c.Violate("roundtrip value-changed "+strings.Join(c31Uniq(bad), "+"), desc+" rendered="+strconv.Quote(c31Line(out, sel)), d, "same configuration")
		}
	}
	for _, o := range opts {
		for _, v := range c31RTValues(o, thorough) {
			rt([]c31Opt{o}, []interface{}{v})
		}
	}
	pairs := 0
	for i := 0; i < len(opts); i++ {
		for j := i + 1; j < len(opts); j++ {
			if !thorough && c31Section(opts[i].name) != c31Section(opts[j].name) {
				continue
			}
			if c.Expired() {
				break
			}
			pairs++
			for _, vi := range c31RTValues(opts[i], false) {
				for _, vj := range c31RTValues(opts[j], false) {
					rt([]c31Opt{opts[i], opts[j]}, []interface{}{vi, vj})
				}
			}
		}
	}
	c.Bound("roundtrip_option_pairs", pairs)
	c.Bound("roundtrip_pairs_scope", map[bool]string{false: "within a section", true: "all pairs"}[thorough])
	c.Assume("an environment variable set to the empty string counts as not supplied (viper AutomaticEnv semantics); that one source value is skipped")
	c.Assume("uint64 values above MaxInt64 are outside TOML's integer range and are not generated")
	c.Assume("non-default configurations are rendered by the real `config` command, which performs the same toml.Marshal(server.Config) as `generate-config`")
	c.AddValidated(c.Evaluations)
	if c.Finish() != 0 {
		t.Fail()
	}
}

func c31Uniq(a []string) []string {
	var out []string
	for i, s := range a {
		if i == 0 || s != a[i-1] {
			out = append(out, s)
		}
	}
	return out
}

// c31Line extracts the rendered lines of the selected options (for the violation report).
func c31Line(out string, sel []c31Opt) string {
	var r []string
	for _, o := range sel {
		k := o.name
		if i := strings.Index(k, "."); i >= 0 {
			k = k[i+1:]
		}
		for _, l := range strings.Split(out, "\n") {
			if strings.HasPrefix(strings.TrimSpace(l), k+" = ") {
				r = append(r, strings.TrimSpace(l))
			}
		}
	}
	return strings.Join(r, "; ")
}

func c31ErrClass(e string) string {
	switch {
	case strings.Contains(e, "error reading configuration file"):
		return "toml-parse"
	case strings.Contains(e, "parse error on line"):
		return "csv-parse"
	case strings.Contains(e, "invalid argument"), strings.Contains(e, "parsing"), strings.Contains(e, "invalid syntax"):
		return "value-parse"
	}
	return "other"
}
