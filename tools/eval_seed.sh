#!/bin/bash
# tools/eval_seed.sh <seed-dir-name> <property> [tier]
# Takes the deliverables of a seeding agent from /tmp/seed-<name>/.seed/, stores them under
# /verif/seeded/<name>/, applies the patch to a FRESH worktree of /repo's current HEAD (equivalent
# to `git -C /repo apply` + undo, but without disturbing checks that are running against /repo),
# confirms that it builds, runs the registered check of the property against it and records the
# outcome. The worktree and its build output are removed afterwards.
set -u
name=$1; prop=$2; tier=${3:-quick}
src=${SEED_SRC:-/tmp/seed-$name/.seed}
dst=/verif/seeded/$name
mkdir -p "$dst"
cp "$src"/patch.diff "$src"/notes.md "$dst"/ 2>/dev/null
cp "$src"/demo_test.go "$dst"/demo_test.go.txt 2>/dev/null
wt=/tmp/eval-$name
git -C /repo worktree remove --force "$wt" 2>/dev/null
git -C /repo worktree add -q --detach "$wt" HEAD || exit 2
export GOFLAGS=-mod=mod GOPROXY=off GOSUMDB=off GOTOOLCHAIN=local
if ! git -C "$wt" apply "$dst/patch.diff"; then
  echo "PATCH-DOES-NOT-APPLY on $(git -C /repo rev-parse --short HEAD)" | tee "$dst/check_output.txt"
  git -C /repo worktree remove --force "$wt"; exit 3
fi
(cd "$wt" && go build ./... ) > "$dst/build_output.txt" 2>&1 && echo "build ok" >> "$dst/build_output.txt"
cd /verif
start=$(date +%s)
VERIF_REPO=$wt ./check "$prop" --tier "$tier" > "$dst/check_output.txt" 2>&1
rc=$?
end=$(date +%s)
git -C /verif checkout -- evidence/ 2>/dev/null  # the evidence of a mutant run is not evidence about /repo
echo "exit=$rc wall=$((end-start))s head=$(git -C /repo rev-parse --short HEAD)" >> "$dst/check_output.txt"
nviol=$(grep -c '^VIOLATION' "$dst/check_output.txt")
python3 - "$name" "$prop" "$tier" "$rc" "$nviol" <<'EOF'
import json,sys,os
name,prop,tier,rc,nviol=sys.argv[1:6]
dst='/verif/seeded/'+name
notes=open(dst+'/notes.md').read() if os.path.exists(dst+'/notes.md') else ''
meta={"seed":name,"property":prop,"written_by":"fresh sub-agent given only the property text and a scratch worktree",
 "needs_to_manifest":"see notes.md",
 "check_run":"VERIF_REPO=<fresh worktree of /repo HEAD + patch.diff> ./check %s --tier %s"%(prop,tier),
 "check_exit":int(rc),"violation_lines":int(nviol),"detected":int(rc)==1 and int(nviol)>0,
 "files":["patch.diff","demo_test.go.txt","notes.md","check_output.txt","build_output.txt"]}
json.dump(meta,open(dst+'/meta.json','w'),indent=1)
print("seed",name,"property",prop,"exit",rc,"violations",nviol,"DETECTED" if meta["detected"] else "MISSED")
EOF
git -C /repo worktree remove --force "$wt"
