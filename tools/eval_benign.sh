#!/bin/bash
# tools/eval_benign.sh <property> — false-alarm test. Takes the "benign" changes written by an independent
# sub-agent (behaviour-changing but property-preserving; /tmp/benign-<prop>/.benign/{1,2,3}.diff + notes.md),
# stores them under /verif/benign/<prop>/, applies each to a FRESH worktree of /repo HEAD, runs the
# registered quick check against it and records the outcome. Expected: exit 0, no VIOLATION line.
set -u
prop=$1
src=${BENIGN_SRC:-/tmp/benign-$prop/.benign}
dst=/verif/benign/$prop
mkdir -p "$dst"
cp "$src"/notes.md "$dst"/ 2>/dev/null
export GOFLAGS=-mod=mod GOPROXY=off GOSUMDB=off GOTOOLCHAIN=local
for k in 1 2 3 4 5; do
  [ -f "$src/$k.diff" ] || continue
  cp "$src/$k.diff" "$dst/$k.diff"
  wt=/tmp/evalb-$prop-$k
  git -C /repo worktree remove --force "$wt" 2>/dev/null
  git -C /repo worktree add -q --detach "$wt" HEAD || exit 2
  if ! git -C "$wt" apply "$dst/$k.diff"; then
    echo "benign $prop/$k PATCH-DOES-NOT-APPLY"; git -C /repo worktree remove --force "$wt"; continue
  fi
  if ! (cd "$wt" && go build ./... ) > "$dst/$k.build.txt" 2>&1; then
    echo "benign $prop/$k DOES-NOT-BUILD"; git -C /repo worktree remove --force "$wt"; continue
  fi
  cd /verif
  VERIF_REPO=$wt ./check "$prop" --tier quick > "$dst/$k.check_output.txt" 2>&1
  rc=$?
  git -C /verif checkout -- evidence/ 2>/dev/null  # not evidence about /repo
  nviol=$(grep -c '^VIOLATION' "$dst/$k.check_output.txt")
  echo "exit=$rc violations=$nviol head=$(git -C /repo rev-parse --short HEAD)" >> "$dst/$k.check_output.txt"
  if [ $rc -eq 0 ] && [ $nviol -eq 0 ]; then v=QUIET; else v=ALARM; fi
  echo "benign $prop/$k exit $rc violations $nviol $v"
  git -C /repo worktree remove --force "$wt"
done
