#!/usr/bin/env python3
"""Generates /verif/MANIFEST.json from checks.json (+ per-check metadata kept there) so the manifest
is always schema-valid and consistent with the driver's table."""
import json, os, subprocess

V = os.path.dirname(os.path.dirname(os.path.abspath(__file__)))
import glob
checks = {os.path.basename(f)[:-5]: json.load(open(f)) for f in sorted(glob.glob(os.path.join(V, "checks.d", "C*.json")))}
checks = {k: v for k, v in checks.items() if v.get("ready")}  # only checks the lead has verified on the unchanged tree
props = [json.loads(l) for l in open(os.path.join(V, "properties.jsonl"))]
na_path = os.path.join(V, "not_applicable.json")
na = json.load(open(na_path)) if os.path.exists(na_path) else {}

ENGINE_TEXT = {
    "vx": "bounded-exhaustive explorer over the real code (stateless DFS of all operation sequences / input products, plus state-merged BFS), reference-model oracle on every step",
    "vsched": "controlled scheduler: sync-shim import rewrite + testing/synctest bubble, stateless DFS over lock-level schedules with iterative preemption bounding",
    "crashx": "crash-point enumeration: strace-recorded syscall history, every prefix state reconstructed and recovered with the real open path",
}

out = {
    "version": 1,
    "setup_cmd": "./check --setup",
    "hooks": {
        "guard": "verif",
        "enable": "no source hooks: harness files and engine packages are injected with `go test -overlay` generated from the current /repo tree at check time (build tag `verif` reserved, unused)",
        "baseline_off_cmd": "cd /repo && GOFLAGS=-mod=mod GOPROXY=off GOSUMDB=off GOTOOLCHAIN=local go test -json -vet=off -count=1 -timeout 25m ./...",
        "source_commits": [],
        "add_only": True,
    },
    "engines": [],
    "checks": [],
    "notes": "All checks: ./check <ID> --tier quick|thorough. Exit 0 = held on everything explored (KNOWN-FINDING lines for findings listed in known_findings.json), 1 = VIOLATION line(s), 2 = HARNESS-ERROR. See DESIGN.md.",
    "not_applicable": [],
}
eng_props = {}
for pid, spec in sorted(checks.items()):
    for e in spec.get("engines", ["vx"]):
        eng_props.setdefault(e, []).append(pid)
for e, ps in sorted(eng_props.items()):
    out["engines"].append({"name": e, "path": "engine/" + e, "serves_properties": ps, "kind_free_text": ENGINE_TEXT.get(e, e)})

for pid, spec in sorted(checks.items()):
    m = spec.get("manifest", {})
    out["checks"].append({
        "property_id": pid,
        "quick_cmd": "./check %s --tier quick" % pid,
        "thorough_cmd": "./check %s --tier thorough" % pid,
        "evidence_file": "/verif/evidence/%s.json" % pid,
        "replay_cmd_template": "./check %s --replay {path}" % pid,
        "engine": ",".join(spec.get("engines", ["vx"])),
        "level_claimed": {
            "category": m.get("level", "model_checking"),
            "text": m.get("text", ""),
            "design_ref": m.get("design_ref", "DESIGN.md §3 " + pid),
        },
        "level_note": m.get("note", "trusted: Go toolchain, the reference model in the harness, the overlay generator"),
        "technique": m.get("technique", "bounded exhaustive exploration of the real code against a reference model"),
    })
for p in props:
    if p["id"] not in checks:
        out["not_applicable"].append({"property_id": p["id"], "reason": na.get(p["id"], "check not built yet in this round (planned in DESIGN.md §3); not claimed")})
json.dump(out, open(os.path.join(V, "MANIFEST.json"), "w"), indent=1)
print("MANIFEST.json: %d checks, %d not_applicable" % (len(out["checks"]), len(out["not_applicable"])))
try:
    import jsonschema
    jsonschema.validate(out, json.load(open("/root/.vp/MANIFEST.schema.json")))
    print("schema ok")
except ImportError:
    pass
