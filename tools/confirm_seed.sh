#!/bin/bash
# tools/confirm_seed.sh <seed-name>
# Independent confirmation of a seeded change (the brief: "keep a change only after you have
# confirmed all of that yourself in a scratch worktree"). In a FRESH worktree of /repo HEAD:
#   1. the demonstration passes WITHOUT the change,
#   2. the change applies and compiles,
#   3. the demonstration FAILS with the change,
#   4. the repository's whole pinned suite (the BASELINE command) still passes with the change
#      (demo removed): no test of the stable-pass set fails; a failing test is re-run alone twice
#      before it counts (the suite has load-sensitive tests).
# Writes seeded/<name>/confirm.json and removes the worktree and its build output.
set -u
name=$1
dst=/verif/seeded/$name
wt=/tmp/conf-$name
export GOFLAGS=-mod=mod GOPROXY=off GOSUMDB=off GOTOOLCHAIN=local GOCACHE=/tmp/conf-gocache
demo=$dst/demo_test.go.txt
pkgname=$(grep -m1 '^package' "$demo" | awk '{print $2}')
case "$pkgname" in
  pilosa|pilosa_test) dir=. ;;
  roaring|roaring_test) dir=roaring ;;
  pql|pql_test) dir=pql ;;
  proto|proto_test) dir=encoding/proto ;;
  boltdb|boltdb_test) dir=boltdb ;;
  ctl|ctl_test) dir=ctl ;;
  cmd|cmd_test) dir=cmd ;;
  server|server_test) dir=server ;;
  http|http_test) dir=http ;;
  *) echo "unknown demo package $pkgname"; exit 2 ;;
esac
tests=$(grep -oE '^func (Test[A-Za-z0-9_]+)' "$demo" | awk '{print $2}' | paste -sd'|')
git -C /repo worktree remove --force "$wt" 2>/dev/null
git -C /repo worktree add -q --detach "$wt" HEAD || exit 2
cp "$demo" "$wt/$dir/zz_seed_demo_test.go"
(cd "$wt" && go test -vet=off -count=1 -timeout 20m -run "^($tests)\$" ./$dir) > "$dst/confirm_demo_without.txt" 2>&1; rc_without=$?
git -C "$wt" apply "$dst/patch.diff"; rc_apply=$?
(cd "$wt" && go build ./...) > /dev/null 2>&1; rc_build=$?
(cd "$wt" && go test -vet=off -count=1 -timeout 20m -run "^($tests)\$" ./$dir) > "$dst/confirm_demo_with.txt" 2>&1; rc_with=$?
rm -f "$wt/$dir/zz_seed_demo_test.go"
# CONFIRM_SCOPE=touched: only the packages the patch touches (plus the root package's dependents
# http and ctl when the root package is touched) instead of the whole suite
pkgs="./..."
if [ "${CONFIRM_SCOPE:-all}" = "touched" ]; then
  pkgs=$(grep '^+++ b/' "$dst/patch.diff" | sed 's#^+++ b/##' | xargs -n1 dirname | sort -u | sed 's#^#./#' | tr '\n' ' ')
  case " $pkgs " in *" ./. "*) pkgs="$pkgs ./http ./ctl" ;; esac
fi
(cd "$wt" && nice go test -json -vet=off -count=1 -timeout 25m $pkgs ) > /tmp/conf-$name.json 2>/dev/null
python3 - "$name" "$wt" "$rc_without" "$rc_apply" "$rc_build" "$rc_with" <<'PY'
import json,sys,subprocess,os
name,wt,rw,ra,rb,rwith=sys.argv[1],sys.argv[2],*map(int,sys.argv[3:7])
base=json.load(open('/root/.vp/BASELINE.json'))
stable=set(eval(base['stable_pass']) if isinstance(base['stable_pass'],str) else base['stable_pass'])
res={}
for line in open('/tmp/conf-%s.json'%name):
    try: e=json.loads(line)
    except Exception: continue
    if e.get('Test') and e.get('Action') in('pass','fail','skip'):
        res[e['Package']+'::'+e['Test']]=e['Action']
scope=os.environ.get('CONFIRM_SCOPE','all')
if scope=='touched':
    ran=set(k.split('::')[0] for k in res)
    stable=set(k for k in stable if k.split('::')[0] in ran)
failed=sorted(k for k in stable if res.get(k)!='pass')
still=[]
for k in failed:
    pkg,t=k.split('::'); top=t.split('/')[0]
    ok=False
    for _ in range(2):
        r=subprocess.run(['go','test','-vet=off','-count=1','-timeout','20m','-run','^%s$'%top,pkg],cwd=wt,capture_output=True,text=True)
        if r.returncode==0: ok=True;break
    if not ok: still.append(k)
out={"seed":name,"repo_head":subprocess.check_output(['git','-C','/repo','rev-parse','--short','HEAD'],text=True).strip(),
 "demo_passes_without_change":rw==0,"patch_applies":ra==0,"builds":rb==0,"demo_fails_with_change":rwith!=0,
 "suite_scope":scope,"suite_tests_seen":len(res),"stable_pass_set":len(stable),"suite_failed_first_run":failed,"suite_failed_after_rerun_alone":still,
 "suite_passes_with_change":len(still)==0 and len(res)>=len(stable),
 "confirmed": rw==0 and ra==0 and rb==0 and rwith!=0 and len(still)==0 and len(res)>=len(stable)}
json.dump(out,open('/verif/seeded/%s/confirm.json'%name,'w'),indent=1)
print("confirm",name,"CONFIRMED" if out["confirmed"] else "NOT-CONFIRMED",json.dumps({k:v for k,v in out.items() if k not in("seed",)})[:600])
PY
rm -f /tmp/conf-$name.json
git -C /repo worktree remove --force "$wt"
