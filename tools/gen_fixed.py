#!/usr/bin/env python3
"""Adds/refreshes the `fixed` records in known_findings.json from the fix: commits of /repo.
Mapping commit -> property is maintained here (by the check that exposed the defect)."""
import json, subprocess, os
V = os.path.dirname(os.path.dirname(os.path.abspath(__file__)))
MAP = {
 "bca2583": "C02", "47e9b8d": "C01", "595a0a2": "C01", "6dbd495": "C02", "46eaa3e": "C07", "d7862aa": "C07", "081b949": "C13",
 "aad2508": "C10", "3834541": "C01", "ba0f9eb": "C01", "888752b": "C04", "f42dde3": "C04", "65e8bcc": "C22", "1405ecf": "C14",
 "0e8b100": "C14", "7e6f073": "C14", "e35059b": "C14", "a5765a5": "C14", "2f5c3c7": "C14", "d039a8a": "C16", "a0445e3": "C16",
 "ac03d60": "C16", "36684af": "C17", "692ee54": "C17", "1c6b748": "C17", "d34cc54": "C18", "9be74c0": "C18", "a4e9ced": "C11",
 "0d5e9ed": "C19", "0deecb7": "C27", "04ea8f4": "C25", "968f362": "C25", "b00b311": "C26", "9861744": "C26", "3229e54": "C31",
 "085e3e3": "C14", "97520d1": "C12", "60c7602": "C12", "6705f21": "C26", "3bd1a8f": "C26", "3db8143": "C27", "770eec4": "C03",
 "71aa3df": "C04", "37712ab": "C03", "636d4e4": "C08", "30dc68e": "C06", "ef14294": "C06", "3bdd871": "C06", "8930e2f": "C06", "8286756": "C29", "75c2dbb": "C16", "fad7fe6": "C16",
}
log = subprocess.run(["git", "-C", "/repo", "log", "--format=%h\t%s", "528ef70..HEAD"], capture_output=True, text=True).stdout
p = os.path.join(V, "known_findings.json")
cur = [e for e in json.load(open(p)) if e.get("status") != "fixed"]
missing = []
for line in reversed(log.strip().splitlines()):
    h, subj = line.split("\t", 1)
    if not subj.startswith("fix:"):
        continue
    prop = MAP.get(h)
    if not prop:
        missing.append(line)
        continue
    what = subj[4:].strip()
    cur.append({"property": prop, "key": "fixed " + h, "status": "fixed", "commit": h, "description": what,
                "line": "fixed: property=%s %s %s" % (prop, h, what)})
json.dump(cur, open(p, "w"), indent=1)
print("known_findings.json: %d known, %d fixed" % (sum(e["status"] == "known" for e in cur), sum(e["status"] == "fixed" for e in cur)))
for m in missing:
    print("UNMAPPED fix commit:", m)
