#!/bin/bash
# tools/final.sh — regenerate the committed evidence from quick runs against /repo, then the
# generated parts of DESIGN.md / MANIFEST.json / known_findings.json.
cd "$(dirname "$0")/.."
./tools/run_tier.sh quick 2>&1 | tee /tmp/final_quick.log | grep -E "^===|^SUMMARY|^VIOLATION|^rc=" | cut -c1-200
python3 tools/gen_fixed.py
python3 tools/gen_results.py
python3-vt tools/gen_manifest.py
grep -c "^VIOLATION" /tmp/final_quick.log
grep "rc=" /tmp/final_quick.log | grep -v "rc=0" | head
