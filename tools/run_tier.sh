#!/bin/bash
# tools/run_tier.sh <tier> [CNN ...]  — runs the registered checks of a tier one after another and
# prints one SUMMARY/VIOLATION digest per check (used with `vp run` for the thorough tiers).
tier=$1; shift
cd "$(dirname "$0")/.."
ids=${@:-$(ls checks.d | sed 's/.json//')}
for id in $ids; do
  echo "=== $id $(date -u +%H:%M:%S)"
  s=$(date +%s)
  ./check $id --tier $tier 2>&1 | grep -E "^SUMMARY|^VIOLATION|^KNOWN-FINDING|HARNESS|panic|FAIL" | cut -c1-400 | head -40
  echo "rc=${PIPESTATUS[0]} real=$(( $(date +%s)-s ))s"
done
echo ALL-DONE
